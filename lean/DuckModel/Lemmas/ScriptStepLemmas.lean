/-
  One flow-control instruction of a script body as ONE step of the instruction loop
  (`evalInstructions … (fuel + 1) line … = evalInstructions … fuel line' …`), generic in the body:
  `for` (first entry / resumed entry, next cell / no cell left), `end` of a for-in block, `end` of
  an `if` block.  Used by the per-script loop inductions (array_concat, array_contains,
  array_join, unset).
-/
import DuckModel.Lemmas.ScriptLoopMapContainsValue

namespace Duck.ScriptRun
open Duck Duck.Alias Duck.Coll Duck.Spec Duck.Generated Duck.Reser

/-- `for v in handle`, resumed entry on top of the stack, a next cell exists -/
theorem eval_for_next (F d : Nat) (is : List Instruction) (line : Nat) (mi : Meta) (si : ScriptInstr)
    (hget : is[line]? = some ⟨mi, .script si⟩) (hc : si.command = some "for".toList) (hout : si.output = none)
    (vars : Vars) (s : ScriptSt) (v handle y : Str) (hb : bind vars si.args = [v, "in".toList, handle])
    (ci : ForCall) (rest : List ForCall) (hst : s.forStack = ci :: rest) (hstart : ci.start = line) (hctx : ci.ctx = s.ctx)
    (hnext : nextIteration s handle ci.iteration = some y) (fuel poll : Nat) (fo : Option Str) :
    evalInstructions (bodySem F (d + 1) is) (fun _ => false) is (fuel + 1) line poll fo vars s =
      evalInstructions (bodySem F (d + 1) is) (fun _ => false) is fuel (line + 1) (poll + 1) none (vars.set v y)
        { s with forStack := { ci with iteration := ci.iteration + 1 } :: rest } := by
  have hfor := runFor_resume (nestedOf (bodySem F d) F) is 1 v handle line vars s ci rest hst hstart hctx
  rw [hnext] at hfor
  rw [eval_flow_continue F d is fuel line poll fo vars s mi si "for".toList .forIn hget hc fs_for rn_for rf_for
    _ hb none _ _ hfor, hout]
  rfl

/-- `for v in handle`, resumed entry on top of the stack, no cell left: the loop is left -/
theorem eval_for_done (F d : Nat) (is : List Instruction) (line : Nat) (mi : Meta) (si : ScriptInstr)
    (hget : is[line]? = some ⟨mi, .script si⟩) (hc : si.command = some "for".toList)
    (vars : Vars) (s : ScriptSt) (v handle : Str) (hb : bind vars si.args = [v, "in".toList, handle])
    (ci : ForCall) (rest : List ForCall) (hst : s.forStack = ci :: rest) (hstart : ci.start = line) (hctx : ci.ctx = s.ctx)
    (hnext : nextIteration s handle ci.iteration = none) (fuel poll : Nat) (fo : Option Str) :
    evalInstructions (bodySem F (d + 1) is) (fun _ => false) is (fuel + 1) line poll fo vars s =
      evalInstructions (bodySem F (d + 1) is) (fun _ => false) is fuel (ci.stop + 1) (poll + 1) none vars
        { s with forStack := rest } := by
  have hfor := runFor_resume (nestedOf (bodySem F d) F) is 1 v handle line vars s ci rest hst hstart hctx
  rw [hnext] at hfor
  rw [eval_flow_goto F d is fuel line poll fo vars s mi si "for".toList .forIn hget hc fs_for rn_for rf_for
    _ hb none _ _ (ci.stop + 1) hfor]

/-- the state after the `for` on `line` (block end `stop`) looked its block up -/
def forSt (s : ScriptSt) (line stop : Nat) : ScriptSt :=
  { s with forMeta := forMetaAfter s.forMeta (flowKey s line) stop,
           endTable := s.endTable.put (flowKey s stop) fullNameEndForIn }

/-- `for v in handle`, first entry, a first cell exists -/
theorem eval_for_first_next (F d : Nat) (is : List Instruction) (line stop : Nat) (mi : Meta) (si : ScriptInstr)
    (hget : is[line]? = some ⟨mi, .script si⟩) (hc : si.command = some "for".toList) (hout : si.output = none)
    (vars : Vars) (s : ScriptSt) (v handle y : Str) (hb : bind vars si.args = [v, "in".toList, handle])
    (hpop : popFor line s.ctx false s.forStack = (none, s.forStack))
    (hfind : findCommands forTables is (line + 1) = .ok ⟨[], stop⟩)
    (hcache : CacheOK s.forMeta (flowKey s line) stop)
    (hnext : nextIteration s handle 0 = some y) (fuel poll : Nat) (fo : Option Str) :
    evalInstructions (bodySem F (d + 1) is) (fun _ => false) is (fuel + 1) line poll fo vars s =
      evalInstructions (bodySem F (d + 1) is) (fun _ => false) is fuel (line + 1) (poll + 1) none (vars.set v y)
        { forSt s line stop with forStack := ⟨1, line, stop, s.ctx⟩ :: s.forStack } := by
  have hfor := runFor_first (nestedOf (bodySem F d) F) is 1 v handle line stop vars s hpop hfind hcache
  rw [hnext] at hfor
  rw [eval_flow_continue F d is fuel line poll fo vars s mi si "for".toList .forIn hget hc fs_for rn_for rf_for
    _ hb none _ _ hfor, hout]
  rfl

/-- `for v in handle`, first entry, no cell at all: the block is skipped -/
theorem eval_for_first_done (F d : Nat) (is : List Instruction) (line stop : Nat) (mi : Meta) (si : ScriptInstr)
    (hget : is[line]? = some ⟨mi, .script si⟩) (hc : si.command = some "for".toList)
    (vars : Vars) (s : ScriptSt) (v handle : Str) (hb : bind vars si.args = [v, "in".toList, handle])
    (hpop : popFor line s.ctx false s.forStack = (none, s.forStack))
    (hfind : findCommands forTables is (line + 1) = .ok ⟨[], stop⟩)
    (hcache : CacheOK s.forMeta (flowKey s line) stop)
    (hnext : nextIteration s handle 0 = none) (fuel poll : Nat) (fo : Option Str) :
    evalInstructions (bodySem F (d + 1) is) (fun _ => false) is (fuel + 1) line poll fo vars s =
      evalInstructions (bodySem F (d + 1) is) (fun _ => false) is fuel (stop + 1) (poll + 1) none vars
        (forSt s line stop) := by
  have hfor := runFor_first (nestedOf (bodySem F d) F) is 1 v handle line stop vars s hpop hfind hcache
  rw [hnext] at hfor
  rw [eval_flow_goto F d is fuel line poll fo vars s mi si "for".toList .forIn hget hc fs_for rn_for rf_for
    _ hb none _ _ (stop + 1) hfor]
  rfl

/-- the generic `end` on the line the top for-in entry ends at: back to the `for` line -/
theorem eval_end_for (F d : Nat) (is : List Instruction) (line : Nat) (mi : Meta) (si : ScriptInstr)
    (hget : is[line]? = some ⟨mi, .script si⟩) (hc : si.command = some "end".toList) (hargs : si.args = none)
    (vars : Vars) (s : ScriptSt) (ci : ForCall) (rest : List ForCall)
    (ht : s.endTable.get (flowKey s line) = some fullNameEndForIn)
    (hst : s.forStack = ci :: rest) (hstop : ci.stop = line) (hctx : ci.ctx = s.ctx)
    (fuel poll : Nat) (fo : Option Str) :
    evalInstructions (bodySem F (d + 1) is) (fun _ => false) is (fuel + 1) line poll fo vars s =
      evalInstructions (bodySem F (d + 1) is) (fun _ => false) is fuel ci.start (poll + 1) none vars s := by
  rw [eval_flow_goto F d is fuel line poll fo vars s mi si "end".toList .endC hget hc fs_end rn_end rf_end
    [] (by rw [hargs]; rfl) none _ _ ci.start (runEnd_for _ _ line _ _ ci rest ht hst hstop hctx)]

/-- the generic `end` on the line an `if` block ends at -/
theorem eval_end_if (F d : Nat) (is : List Instruction) (line : Nat) (mi : Meta) (si : ScriptInstr)
    (hget : is[line]? = some ⟨mi, .script si⟩) (hc : si.command = some "end".toList) (hargs : si.args = none)
    (hout : si.output = none)
    (vars : Vars) (s : ScriptSt) (ht : s.endTable.get (flowKey s line) = some fullNameEndIf)
    (fuel poll : Nat) (fo : Option Str) :
    evalInstructions (bodySem F (d + 1) is) (fun _ => false) is (fuel + 1) line poll fo vars s =
      evalInstructions (bodySem F (d + 1) is) (fun _ => false) is fuel (line + 1) (poll + 1) none vars s := by
  rw [eval_flow_continue F d is fuel line poll fo vars s mi si "end".toList .endC hget hc fs_end rn_end rf_end
    [] (by rw [hargs]; rfl) none _ _ (runEnd_if _ _ line _ _ ht), hout]
  rfl

/-- a for-in entry of another line on top of the stack is left alone by `for` -/
theorem popFor_mismatch (line : Nat) (ctx : Str) (top : ForCall) (rest : List ForCall)
    (h1 : top.start ≠ line) (h2 : top.stop ≠ line) : popFor line ctx false (top :: rest) = (none, top :: rest) := by
  simp [popFor, h1, h2]

theorem get_forMetaAfter_ne (m : KV Nat) (key : Str) (stop : Nat) (k : Str) (h : k ≠ key) :
    (forMetaAfter m key stop).get k = m.get k := by
  unfold forMetaAfter
  cases m.get key with
  | some _ => rfl
  | none => simp only [KV.get_put]; rw [if_neg h]

end Duck.ScriptRun
