/-
  `unset` (std/var/unset/script.ds) run from source, for every argument list: the loop
  `for name in ${arguments}` / `set_by_name ${name}` removes the named variables one after the
  other; the wrapper's `clear` then removes the command's own prefix.
-/
import DuckModel.Lemmas.ScriptStepLemmas
import DuckModel.Lemmas.ScriptLoopMapContainsValueFinal
import DuckModel.Sdk.VarScope
import DuckModel.Lemmas.VarScopeLemmas

namespace Duck.ScriptRun
open Duck Duck.Alias Duck.Coll Duck.Spec Duck.Generated Duck.Reser

def uScope : Str := "scope::unset".toList
def uName : Str := "scope::unset::name".toList
def uArgs : Str := "scope::unset::arguments".toList

/-- the parse of unset/script.ds -/
def unsetIs : List Instruction :=
  [emptyI 1,
   mkI 2 none "for" (some [[.lit uName], [.lit "in".toList], [.var uArgs]]),
   mkI 3 none "set_by_name" (some [[.var uName]]),
   mkI 4 none "end" none]

theorem unset_parses : parseText cmd_var_unset.script = .ok unsetIs := parsesTo_eq (by decide +kernel)
theorem unset_find : findCommands forTables unsetIs (1 + 1) = .ok ⟨[], 3⟩ := findsTo_eq (by decide +kernel)
theorem unset_findScript : findScript "unset".toList = some cmd_var_unset := by rfl
theorem fs_set_by_name : findScript "set_by_name".toList = none := by decide +kernel
theorem rn_set_by_name : resolveNative "set_by_name".toList = some .setByName := by decide +kernel
theorem uName_under : underPrefix uScope uName = true := by decide

theorem clear_erase_comm (scope : Str) (m : Vars) (k : Str) : clear scope (Vars.erase m k) = Vars.erase (clear scope m) k := by
  unfold clear Vars.erase
  rw [List.filter_filter, List.filter_filter]
  apply List.filter_congr
  intro p _
  exact Bool.and_comm _ _

theorem eraseAll_append (m : Vars) (a b : List Str) : VarScope.eraseAll m (a ++ b) = VarScope.eraseAll (VarScope.eraseAll m a) b := by
  induction a generalizing m with
  | nil => rfl
  | cons x r ih => simp only [List.cons_append, VarScope.eraseAll, ih]

theorem unset_bind_for (vars : Vars) :
    bind vars ((some [[Seg.lit uName], [Seg.lit "in".toList], [Seg.var uArgs]]).map fun a => a.map renderTemplate) =
      [uName, "in".toList, (vars.get uArgs).getD []] := by
  rw [bind_mk _ _ (by decide)]
  simp [tmplValue, Seg.value]

/-- from the body line (2) with the current name in `name` and the entry at the next iteration to
    the end of the instruction list (4), entry popped: 3 instructions per name left -/
theorem unset_loop (d : Nat) (s : ScriptSt) (hA : Str) (L : List Str) (hctx : s.ctx = uScope)
    (hend : s.endTable.get (flowKey s 3) = some fullNameEndForIn)
    (hL : tget s.coll.tbl hA = some (.list (L.map .str))) (hnotin : uArgs ∉ L) (vars0 : Vars) :
    ∀ (rem pre : List Str) (x : Str) (vars : Vars) (poll : Nat) (fo : Option Str),
      L = pre ++ x :: rem → (vars.get uArgs).getD [] = hA → vars.get uName = some x →
      clear uScope vars = clear uScope (VarScope.eraseAll vars0 pre) →
      ∃ vars' poll',
        (∀ F fuel, evalInstructions (bodySem F (d + 1) unsetIs) (fun _ => false) unsetIs (fuel + 3 * rem.length + 3) 2 poll fo vars
            { s with forStack := ⟨pre.length + 1, 1, 3, uScope⟩ :: s.forStack } =
          evalInstructions (bodySem F (d + 1) unsetIs) (fun _ => false) unsetIs fuel 4 poll' none vars' s) ∧
        clear uScope vars' = clear uScope (VarScope.eraseAll vars0 L) := by
  intro rem
  induction rem with
  | nil =>
    intro pre x vars poll fo hLe hvA hvN hclr
    have hxne : uArgs ≠ x := by
      intro e; apply hnotin; rw [hLe, e]; simp
    have hb2 : bind vars ((some [[Seg.var uName]]).map fun a => a.map renderTemplate) = [x] := by
      rw [bind_mk _ _ (by decide)]
      simp [tmplValue, Seg.value, hvN]
    have hvA' : ((vars.erase x).get uArgs).getD [] = hA := by rw [get_erase, if_neg hxne]; exact hvA
    have hnext : nextIteration { s with forStack := ⟨pre.length + 1, 1, 3, uScope⟩ :: s.forStack } hA (pre.length + 1) = none := by
      simp [nextIteration, hL, hLe]
    refine ⟨vars.erase x, poll + 1 + 1 + 1, ?_, ?_⟩
    · intro F fuel
      rw [show fuel + 3 * ([] : List Str).length + 3 = fuel + 1 + 1 + 1 by simp,
        eval_native_continue F (d + 1) unsetIs (fuel + 1 + 1) 2 poll fo vars _ _ _ "set_by_name".toList .setByName
          (show unsetIs[2]? = some (mkI 3 none "set_by_name" (some [[.var uName]])) from rfl) rfl
          fs_set_by_name rn_set_by_name _ hb2 none (vars.erase x) _ rfl]
      rw [eval_end_for F d unsetIs 3 _ _ (show unsetIs[3]? = some (mkI 4 none "end" none) from rfl) rfl rfl _
        { s with forStack := ⟨pre.length + 1, 1, 3, uScope⟩ :: s.forStack } ⟨pre.length + 1, 1, 3, uScope⟩ s.forStack
        hend rfl rfl hctx.symm (fuel + 1) (poll + 1) _]
      have hb1 := unset_bind_for (vars.erase x)
      rw [hvA'] at hb1
      exact eval_for_done F d unsetIs 1 _ _
        (show unsetIs[1]? = some (mkI 2 none "for" (some [[.lit uName], [.lit "in".toList], [.var uArgs]])) from rfl) rfl
        (vars.erase x) { s with forStack := ⟨pre.length + 1, 1, 3, uScope⟩ :: s.forStack } uName hA hb1
        ⟨pre.length + 1, 1, 3, uScope⟩ s.forStack rfl rfl hctx.symm hnext fuel _ none
    · rw [clear_erase_comm, hclr, ← clear_erase_comm, hLe, eraseAll_append]
      rfl
  | cons y rem ih =>
    intro pre x vars poll fo hLe hvA hvN hclr
    have hxne : uArgs ≠ x := by
      intro e; apply hnotin; rw [hLe, e]; simp
    have hb2 : bind vars ((some [[Seg.var uName]]).map fun a => a.map renderTemplate) = [x] := by
      rw [bind_mk _ _ (by decide)]
      simp [tmplValue, Seg.value, hvN]
    have hvA' : ((vars.erase x).get uArgs).getD [] = hA := by rw [get_erase, if_neg hxne]; exact hvA
    have hnext : nextIteration { s with forStack := ⟨pre.length + 1, 1, 3, uScope⟩ :: s.forStack } hA (pre.length + 1) = some y := by
      simp [nextIteration, hL, hLe, Item.render]
    obtain ⟨vars', poll', hrun, hfin⟩ := ih (pre ++ [x]) y ((vars.erase x).set uName y) (poll + 1 + 1 + 1) none
      (by rw [hLe]; simp) (by rw [get_set, if_neg (by decide)]; exact hvA') (by rw [get_set, if_pos rfl])
      (by rw [clear_set_under _ _ _ _ uName_under, clear_erase_comm, hclr, ← clear_erase_comm, eraseAll_append]; rfl)
    refine ⟨vars', poll', ?_, hfin⟩
    intro F fuel
    rw [show fuel + 3 * (y :: rem).length + 3 = fuel + 3 * rem.length + 3 + 1 + 1 + 1 by simp; omega,
      eval_native_continue F (d + 1) unsetIs (fuel + 3 * rem.length + 3 + 1 + 1) 2 poll fo vars _ _ _ "set_by_name".toList .setByName
        (show unsetIs[2]? = some (mkI 3 none "set_by_name" (some [[.var uName]])) from rfl) rfl
        fs_set_by_name rn_set_by_name _ hb2 none (vars.erase x) _ rfl]
    rw [eval_end_for F d unsetIs 3 _ _ (show unsetIs[3]? = some (mkI 4 none "end" none) from rfl) rfl rfl _
      { s with forStack := ⟨pre.length + 1, 1, 3, uScope⟩ :: s.forStack } ⟨pre.length + 1, 1, 3, uScope⟩ s.forStack
      hend rfl rfl hctx.symm (fuel + 3 * rem.length + 3 + 1) (poll + 1) _]
    have hb1 := unset_bind_for (vars.erase x)
    rw [hvA'] at hb1
    refine (eval_for_next F d unsetIs 1 _ _
      (show unsetIs[1]? = some (mkI 2 none "for" (some [[.lit uName], [.lit "in".toList], [.var uArgs]])) from rfl) rfl rfl
      (vars.erase x) { s with forStack := ⟨pre.length + 1, 1, 3, uScope⟩ :: s.forStack } uName hA y hb1
      ⟨pre.length + 1, 1, 3, uScope⟩ s.forStack rfl rfl hctx.symm hnext (fuel + 3 * rem.length + 3) (poll + 1 + 1) none).trans ?_
    have := hrun F fuel
    simp only [List.length_append, List.length_cons, List.length_nil] at this
    exact this


/-! ### the body and the call -/

/-- the state an `unset` body leaves -/
def uAfter (s : ScriptSt) : ScriptSt := forSt s 1 3

theorem unset_body (d : Nat) (s : ScriptSt) (vars : Vars) (L : List Str)
    (hctx : s.ctx = uScope) (hstale : NoStaleFor uScope s.forStack) (hcache : CacheOK s.forMeta (flowKey s 1) 3)
    (hL : match tget s.coll.tbl ((vars.get uArgs).getD []) with
          | some (.list l) => l = L.map .str
          | _ => L = [])
    (hnotin : uArgs ∉ L) :
    ∃ vars', (∀ F N fuel, N = fuel + 3 * L.length + 3 →
        scriptBody (bodySem F (d + 1) unsetIs) (fun _ => false) N unsetIs vars s = (.finished none, vars', uAfter s)) ∧
      clear uScope vars' = clear uScope (VarScope.eraseAll vars L) := by
  have hpop : popFor 1 s.ctx false s.forStack = (none, s.forStack) := by
    rw [hctx]; exact popFor_noStale 1 uScope s.forStack hstale
  cases L with
  | nil =>
    have hnext : nextIteration s ((vars.get uArgs).getD []) 0 = none := by
      unfold nextIteration
      cases hv : tget s.coll.tbl ((vars.get uArgs).getD []) with
      | none => rfl
      | some v =>
        rw [hv] at hL
        cases v with
        | list l => simp at hL; subst hL; rfl
        | _ => rfl
    refine ⟨vars, ?_, rfl⟩
    intro F N fuel hN
    subst hN
    unfold scriptBody
    rw [show fuel + 3 * ([] : List Str).length + 3 = fuel + 1 + 1 + 1 by simp,
      eval_skip _ _ _ 0 _ _ _ _ _ (show unsetIs[0]? = some (emptyI 1) from rfl) rfl,
      eval_for_first_done F d unsetIs 1 3 _ _
        (show unsetIs[1]? = some (mkI 2 none "for" (some [[.lit uName], [.lit "in".toList], [.var uArgs]])) from rfl) rfl
        vars s uName _ (unset_bind_for vars) hpop unset_find hcache hnext (fuel + 1) _ none,
      eval_end _ _ _ 4 _ _ _ _ rfl]
    rfl
  | cons x rem =>
    have hv : tget s.coll.tbl ((vars.get uArgs).getD []) = some (.list ((x :: rem).map .str)) := by
      cases hv : tget s.coll.tbl ((vars.get uArgs).getD []) with
      | none => rw [hv] at hL; cases hL
      | some v =>
        rw [hv] at hL
        cases v with
        | list l => simp at hL; subst hL; rfl
        | _ => cases hL
    have hnext : nextIteration s ((vars.get uArgs).getD []) 0 = some x := by
      simp [nextIteration, hv, Item.render]
    have hne : uArgs ≠ uName := by decide
    obtain ⟨vars', poll', hrun, hfin⟩ := unset_loop d (forSt s 1 3) ((vars.get uArgs).getD []) (x :: rem) hctx
      (by show (s.endTable.put (flowKey s 3) fullNameEndForIn).get (flowKey s 3) = _
          rw [KV.get_put, if_pos rfl])
      hv hnotin vars rem [] x (vars.set uName x) (0 + 1 + 1) none rfl
      (by rw [get_set, if_neg hne]) (by rw [get_set, if_pos rfl])
      (by rw [clear_set_under _ _ _ _ uName_under]; rfl)
    refine ⟨vars', ?_, hfin⟩
    intro F N fuel hN
    subst hN
    unfold scriptBody
    rw [show fuel + 3 * (x :: rem).length + 3 = fuel + 1 + 3 * rem.length + 3 + 1 + 1 by simp; omega,
      eval_skip _ _ _ 0 _ _ _ _ _ (show unsetIs[0]? = some (emptyI 1) from rfl) rfl,
      eval_for_first_next F d unsetIs 1 3 _ _
        (show unsetIs[1]? = some (mkI 2 none "for" (some [[.lit uName], [.lit "in".toList], [.var uArgs]])) from rfl) rfl rfl
        vars s uName _ x (unset_bind_for vars) hpop unset_find hcache hnext _ _ none]
    have h := hrun F (fuel + 1)
    simp only [List.length_nil, Nat.zero_add, hctx] at h ⊢
    erw [h, eval_end _ _ _ 4 _ _ _ _ rfl]
    rfl

theorem eraseAll_length_le (m : Vars) (ks : List Str) : (VarScope.eraseAll m ks).length ≤ m.length := by
  induction ks generalizing m with
  | nil => exact Nat.le_refl _
  | cons k r ih => exact Nat.le_trans (ih _) (List.length_filter_le _ _)

theorem clear_eraseAll_congr (scope : Str) (a b : Vars) (ks : List Str) (h : clear scope a = clear scope b) :
    clear scope (VarScope.eraseAll a ks) = clear scope (VarScope.eraseAll b ks) := by
  induction ks generalizing a b with
  | nil => exact h
  | cons k r ih =>
    apply ih
    rw [clear_erase_comm, clear_erase_comm, h]

/-- `aliasRun_handleOps_nil` for a body that removed caller variables -/
theorem aliasRun_handleOps_nil_le (body : Vars → ScriptSt → BodyResult × Vars × ScriptSt)
    (scope : Str) (vars : Vars) (st : ScriptSt) (br : BodyResult) (vars2 : Vars) (st2 : ScriptSt)
    (hb : body vars { st with ctx := scope } = (br, vars2, st2))
    (hlen : (clear scope vars2).length ≤ vars.length) :
    aliasRun handleOps 0 body scope [] vars st =
      (resultOf br, clear scope vars2, { st2 with ctx := st.ctx }) := by
  rw [aliasRun_run handleOps 0 body scope [] vars st (by simp)]
  have hp : publish handleOps scope [] vars (handleOps.setCtx st scope) = (none, vars, { st with ctx := scope }) := by
    simp [publish, handleOps]
  simp only [hp, hb, cleanup]
  have : ¬ vars.length < (clear scope vars2).length := by omega
  simp [this, handleOps]

theorem unset_get (vars : Vars) (args : List Str) (x : Str) :
    Vars.get (clear uScope (VarScope.eraseAll vars args)) x =
      if x ∈ args ∨ underPrefix uScope x = true then none else Vars.get vars x := by
  rw [get_clear, VarScope.get_eraseAll]
  by_cases h1 : underPrefix uScope x = true
  · simp [h1]
  · by_cases h2 : x ∈ args
    · simp [h2]
    · simp [h1, h2]

theorem unset_entry (depth fuel : Nat) (args : List Str) (vars : Vars) (st : ScriptSt) :
    runScriptCmdF depth fuel "unset".toList args vars st =
      aliasRun handleOps 0 (scriptBody (bodySem fuel depth unsetIs) (fun _ => false) fuel unsetIs) uScope args vars st :=
  runScriptCmdF_entry depth fuel _ _ _ unset_findScript unset_parses args vars st

/-- the state a call of `unset` ends in -/
def uFinal (args : List Str) (st : ScriptSt) : ScriptSt :=
  { st with
    coll := { tbl := if args = [] then st.coll.tbl else
                tremove (tinsert st.coll.tbl (Coll.handleName st.coll.next) (.list (args.map .str))) (Coll.handleName st.coll.next),
              next := if args = [] then st.coll.next else st.coll.next + 1 },
    forMeta := forMetaAfter st.forMeta "scope::unset::1".toList 3,
    endTable := st.endTable.put "scope::unset::3".toList fullNameEndForIn }

/-- the closed form of `unset` run from source -/
theorem unset_runF (depth fuel : Nat) (args : List Str) (vars : Vars) (st : ScriptSt)
    (hstale : NoStaleFor uScope st.forStack)
    (hcache : CacheOK st.forMeta "scope::unset::1".toList 3)
    (hempty : args = [] → ∀ l, tget st.coll.tbl ((vars.get uArgs).getD []) ≠ some (.list l))
    (hnotin : uArgs ∉ args) :
    runScriptCmdF (depth + 1) (fuel + 3 * args.length + 3) "unset".toList args vars st =
      (.continue none, clear uScope (VarScope.eraseAll vars args), uFinal args st) := by
  rw [unset_entry]
  cases args with
  | nil =>
    have hL : match tget st.coll.tbl ((vars.get uArgs).getD []) with
          | some (.list l) => l = ([] : List Str).map Item.str
          | _ => ([] : List Str) = [] := by
      cases hv : tget st.coll.tbl ((vars.get uArgs).getD []) with
      | none => rfl
      | some v =>
        cases v with
        | list l => exact absurd hv (hempty rfl l)
        | _ => rfl
    obtain ⟨vars', hrun, hclr⟩ := unset_body depth { st with ctx := uScope } vars [] rfl hstale hcache hL hnotin
    rw [aliasRun_handleOps_nil_le _ uScope vars st _ _ _ (hrun _ _ fuel rfl)
      (by rw [hclr]; exact clear_length_le _ _), hclr]
    rfl
  | cons a rest =>
    have hargs : (Vars.get (pubVars uScope (a :: rest) vars st) uArgs).getD [] = Coll.handleName st.coll.next := by
      unfold pubVars
      rw [get_set, if_pos (by decide)]; rfl
    have hL : match tget (pubSt uScope (a :: rest) st).coll.tbl ((Vars.get (pubVars uScope (a :: rest) vars st) uArgs).getD []) with
          | some (.list l) => l = (a :: rest).map Item.str
          | _ => (a :: rest) = [] := by
      rw [hargs]
      simp only [pubSt, tget_tinsert, if_true]
    obtain ⟨vars', hrun, hclr⟩ := unset_body depth (pubSt uScope (a :: rest) st)
      (pubVars uScope (a :: rest) vars st) (a :: rest) rfl hstale hcache hL hnotin
    have hclr' : clear uScope vars' = clear uScope (VarScope.eraseAll vars (a :: rest)) := by
      rw [hclr]
      exact clear_eraseAll_congr uScope _ _ _ (clear_pubVars uScope (a :: rest) vars st)
    rw [aliasRun_handleOps_le 0 _ uScope (a :: rest) vars st (by simp) (by simp) _ _ _ (hrun _ _ fuel rfl)
      (by rw [hclr']; exact Nat.le_trans (clear_length_le _ _) (eraseAll_length_le _ _)), hclr']
    rfl

end Duck.ScriptRun
