/-
  Helpers for Props/C03Translated.lean: the fuel loop of Runner.lean (`runLoop`) run over the step
  function TRANSLATED from duckscript/src/runner.rs (`Generated.runStepGen`), the lemma that two
  loops over pointwise equal step functions are equal, and the fold of the translated loop body of
  `create_runtime` against `labelTable.go`.
-/
import DuckModel.Runner
import DuckModel.Generated.RunnerStep

namespace Duck
open Duck.Generated

/-- `run_instructions` with fuel, over the translated iteration `runStepGen` — word for word
    `runLoop` (Runner.lean) with `runStep` replaced -/
def runLoopGen {σ : Type} (sem : CmdSem σ) (is : List Instruction) (labels : List (Str × Nat))
    (halt : Nat → σ → Bool) : Nat → RunState σ → RunState σ × RunEnd
  | 0, rs => (rs, .outOfFuel)
  | fuel + 1, rs =>
    match runStepGen sem is labels halt rs with
    | .inl rs' => runLoopGen sem is labels halt fuel rs'
    | .inr r => r

/-- if the two step functions agree everywhere, so do the loops -/
theorem runLoopGen_eq_of_step {σ : Type} (sem : CmdSem σ) (is : List Instruction)
    (labels : List (Str × Nat)) (halt : Nat → σ → Bool)
    (hstep : ∀ rs, runStepGen sem is labels halt rs = runStep sem is labels halt rs) :
    ∀ (fuel : Nat) (rs : RunState σ),
      runLoopGen sem is labels halt fuel rs = runLoop sem is labels halt fuel rs := by
  intro fuel
  induction fuel with
  | zero => intro rs; rfl
  | succ n ih =>
    intro rs
    simp only [runLoopGen, runLoop, hstep]
    cases runStep sem is labels halt rs with
    | inl rs' => exact ih rs'
    | inr r => rfl

/-- one instruction of `labelTable.go` is one application of the translated loop body of `create_runtime` -/
theorem labelTable_go_cons_gen (i : Instruction) (rest : List Instruction) (n : Nat)
    (acc : List (Str × Nat)) :
    labelTable.go (i :: rest) n acc =
      labelTable.go rest (labelTableBodyGen (n, acc) i).1 (labelTableBodyGen (n, acc) i).2 := by
  rw [labelTable.go]
  unfold labelTableBodyGen tableInsert
  repeat' split
  all_goals first | rfl | simp_all

/-- the fold over the translated body computes `labelTable.go` from every line number and table -/
theorem labelTableGen_fold (is : List Instruction) :
    ∀ (n : Nat) (acc : List (Str × Nat)),
      (List.foldl labelTableBodyGen (n, acc) is).2 = labelTable.go is n acc := by
  induction is with
  | nil => intro n acc; rfl
  | cons i rest ih =>
    intro n acc
    rw [List.foldl_cons, labelTable_go_cons_gen]
    exact ih _ _

end Duck
