/-
Helper lemmas for Props/C09Translated.lean (the translation of `eval::parse`, Generated/EvalParse.lean).
-/
import DuckModel.Sdk.Flow
import DuckModel.Generated.EvalParse

namespace Duck
open Duck.Generated

theorem single_isSuffixOf (x : Char) (a : Str) :
    ([x].isSuffixOf a) = (a.getLast? == some x) := by
  rw [List.isSuffixOf, List.getLast?_eq_head?_reverse]
  cases a.reverse with
  | nil => simp
  | cons c t =>
    simp [List.isPrefixOf]
    exact BEq.comm

theorem contains_eq_strContains (a : Str) (c : Char) : a.contains c = strContains a c := by
  induction a with
  | nil => simp [strContains]
  | cons x t ih =>
    simp [strContains, List.any_cons] at ih ⊢
    rw [← ih]
    by_cases h : c = x
    · subst h; simp
    · have h' : ¬ x = c := fun e => h e.symm
      simp [h, h']

theorem foldl_buf (f : Str → Str) (xs : List Str) (init : Str) :
    xs.foldl (fun buf a => buf ++ f a) init = init ++ xs.flatMap f := by
  induction xs generalizing init with
  | nil => simp
  | cons x t ih => simp [ih, List.append_assoc]

theorem replaceChar_nil (c : Char) (s : Str) :
    replaceChar c [] s = s.filter (fun x => x != c) := by
  induction s with
  | nil => simp [replaceChar]
  | cons x t ih =>
    unfold replaceChar at ih ⊢
    by_cases h : x = c <;> simp [h, ih]

end Duck
