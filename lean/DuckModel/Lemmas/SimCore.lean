/-
  Helper lemmas for the C04 simulation theorem — part 5: the simulation predicates
  (`SimCore`, `Sim`, the per-fuel statements), layout of the block statements, else-line lists,
  and `simple → noFn`.
-/
import DuckModel.Lemmas.SimFlow

namespace Duck
open Duck.Spec Duck.Generated

/-! ### the stack-independent part of the simulation outcome -/

/-- the fields of the machine state that are not call stacks -/
def coreOf (s : Sdk) :=
  (s.ifMeta, s.whileMeta, s.forMeta, s.endTable, s.fns, s.handles, s.nextHandle, s.lineCtx, s.emitted)

/-- after running a piece of program written on lines `[lo, hi)` that assigns only variables in `A` -/
structure SimCore (is : List Instruction) (lo hi : Nat) (A : Str → Bool) (s : Sdk) (t t' : TState)
    (s' : Sdk) : Prop where
  cache : CacheOK is s'
  rel : Rel s' t'
  frame : Frame lo hi s s'
  mono : ∀ k l, t.sdk.handles.get k = some l → t'.sdk.handles.get k = some l
  varsF : ∀ x, A x = false → t'.vars.get x = t.vars.get x

theorem SimCore.refl {is : List Instruction} {lo hi : Nat} {A : Str → Bool} {s : Sdk} {t : TState}
    (hc : CacheOK is s) (hr : Rel s t) : SimCore is lo hi A s t t s :=
  ⟨hc, hr, Frame.refl lo hi s, fun _ _ h => h, fun _ _ => rfl⟩

theorem SimCore.trans {is : List Instruction} {lo hi : Nat} {A : Str → Bool} {s1 s2 s3 : Sdk}
    {t1 t2 t3 : TState} (h1 : SimCore is lo hi A s1 t1 t2 s2) (h2 : SimCore is lo hi A s2 t2 t3 s3) :
    SimCore is lo hi A s1 t1 t3 s3 :=
  ⟨h2.cache, h2.rel, h1.frame.trans h2.frame, fun k l h => h2.mono k l (h1.mono k l h),
    fun x hx => (h2.varsF x hx).trans (h1.varsF x hx)⟩

theorem SimCore.mono' {is : List Instruction} {lo hi lo' hi' : Nat} {A A' : Str → Bool} {s s' : Sdk}
    {t t' : TState} (h : SimCore is lo hi A s t t' s') (h1 : lo' ≤ lo) (h2 : hi ≤ hi')
    (hA : ∀ x, A' x = false → A x = false) : SimCore is lo' hi' A' s t t' s' :=
  ⟨h.cache, h.rel, h.frame.mono h1 h2, h.mono, fun x hx => h.varsF x (hA x hx)⟩

theorem Frame.core_right {lo hi : Nat} {s s' s'' : Sdk} (h : Frame lo hi s s')
    (he : coreOf s'' = coreOf s') : Frame lo hi s s'' := by
  simp only [coreOf, Prod.mk.injEq] at he
  obtain ⟨_, _, _, h4, h5, _, _, h8, _⟩ := he
  exact ⟨fun l hl => by rw [h4]; exact h.endT l hl, h5.trans h.fns, h8.trans h.ctx⟩

theorem Frame.core_left {lo hi : Nat} {s s0 s' : Sdk} (h : Frame lo hi s s')
    (he : coreOf s0 = coreOf s) : Frame lo hi s0 s' := by
  simp only [coreOf, Prod.mk.injEq] at he
  obtain ⟨_, _, _, h4, h5, _, _, h8, _⟩ := he
  refine ⟨fun l hl => ?_, h.fns.trans h5.symm, h.ctx.trans h8.symm⟩
  rw [lineKey_congr h8, h4]
  exact h.endT l hl

theorem CacheOK.core {is : List Instruction} {s s' : Sdk} (h : CacheOK is s)
    (he : coreOf s' = coreOf s) : CacheOK is s' := by
  simp only [coreOf, Prod.mk.injEq] at he
  obtain ⟨h1, h2, h3, _, _, _, _, h8, _⟩ := he
  exact h.of_eq h1 h2 h3 h8

theorem Rel.core {s s' : Sdk} {t : TState} (h : Rel s t) (he : coreOf s' = coreOf s) : Rel s' t := by
  simp only [coreOf, Prod.mk.injEq] at he
  obtain ⟨_, _, _, _, h5, h6, h7, _, h9⟩ := he
  exact h.of_eq h6 h7 h9 h5

/-- the stacks of the final state do not matter -/
theorem SimCore.core_right {is : List Instruction} {lo hi : Nat} {A : Str → Bool} {s s' s'' : Sdk}
    {t t' : TState} (h : SimCore is lo hi A s t t' s') (he : coreOf s'' = coreOf s') :
    SimCore is lo hi A s t t' s'' :=
  ⟨h.cache.core he, h.rel.core he, h.frame.core_right he, h.mono, h.varsF⟩

/-- the stacks of the initial state do not matter -/
theorem SimCore.core_left {is : List Instruction} {lo hi : Nat} {A : Str → Bool} {s s0 s' : Sdk}
    {t t' : TState} (h : SimCore is lo hi A s t t' s') (he : coreOf s0 = coreOf s) :
    SimCore is lo hi A s0 t t' s' :=
  ⟨h.cache, h.rel, h.frame.core_left he, h.mono, h.varsF⟩

/-- a flow line that evaluated its condition (which may have appended to `emitted`), possibly
    filled caches and possibly registered an end command inside `[lo, hi)` -/
theorem SimCore.condStep {is : List Instruction} {lo hi : Nat} {A : Str → Bool} {s s' : Sdk} {t : TState}
    {em : List (List Str)} (hc : CacheOK is s') (hr : Rel s t)
    (h1 : s'.handles = s.handles) (h2 : s'.nextHandle = s.nextHandle) (h3 : s'.emitted = em)
    (h4 : s'.fns = s.fns) (h5 : s'.lineCtx = s.lineCtx)
    (h6 : ∀ l, (l < lo ∨ hi ≤ l) → s'.endTable.get (lineKey s l) = s.endTable.get (lineKey s l)) :
    SimCore is lo hi A s t (withEm t em) s' :=
  ⟨hc, ⟨h1.trans hr.handles, h2.trans hr.next, h3, h4.trans hr.sfns, hr.tsfns, hr.tfns, hr.hok⟩,
    ⟨h6, h4, h5⟩, fun _ _ h => h, fun _ _ => rfl⟩

theorem endT_put_ne (s : Sdk) (stop l : Nat) (name : Str) (h : l ≠ stop) :
    (s.endTable.put (lineKey s stop) name).get (lineKey s l) = s.endTable.get (lineKey s l) := by
  rw [KV.get_put_ne]
  intro e
  exact h (lineKey_inj e).symm

/-- an opener: the caches were (correctly) filled and the end table got the entry of line `stop` -/
theorem SimCore.opener {is : List Instruction} {lo hi : Nat} {A : Str → Bool} {s s' : Sdk} {t : TState}
    {em : List (List Str)}
    (stop : Nat) (name : Str) (hc : CacheOK is s') (hr : Rel s t)
    (h1 : s'.handles = s.handles) (h2 : s'.nextHandle = s.nextHandle) (h3 : s'.emitted = em)
    (h4 : s'.fns = s.fns) (h5 : s'.lineCtx = s.lineCtx)
    (h6 : s'.endTable = s.endTable.put (lineKey s stop) name) (hlo : lo ≤ stop) (hhi : stop < hi) :
    SimCore is lo hi A s t (withEm t em) s' :=
  SimCore.condStep hc hr h1 h2 h3 h4 h5
    (fun l hl => by rw [h6]; exact endT_put_ne s stop l name (by omega))

/-- an opener without a condition (the `for` line) -/
theorem SimCore.opener0 {is : List Instruction} {lo hi : Nat} {A : Str → Bool} {s s' : Sdk} {t : TState}
    (stop : Nat) (name : Str) (hc : CacheOK is s') (hr : Rel s t)
    (h1 : s'.handles = s.handles) (h2 : s'.nextHandle = s.nextHandle) (h3 : s'.emitted = s.emitted)
    (h4 : s'.fns = s.fns) (h5 : s'.lineCtx = s.lineCtx)
    (h6 : s'.endTable = s.endTable.put (lineKey s stop) name) (hlo : lo ≤ stop) (hhi : stop < hi) :
    SimCore is lo hi A s t t s' :=
  SimCore.opener (em := t.sdk.emitted) stop name hc hr h1 h2 (h3.trans hr.emitted) h4 h5 h6 hlo hhi

/-- the outcome of simulating a piece of program on lines `[lo, hi)` -/
def Sim (is : List Instruction) (lo hi : Nat) (A : Str → Bool) (s : Sdk) (t t' : TState) : Prop :=
  ∃ s', Steps is lo t.vars s hi t'.vars s' ∧ SimCore is lo hi A s t t' s' ∧
    Garb IfCall.current lo hi s.ifStack s'.ifStack ∧
    Garb WhileCall.stop lo hi s.whileStack s'.whileStack ∧
    s'.forStack = s.forStack

/-! ### layout -/

/-- the else part of an if chain as script lines -/
def elseFlat (kwElse : Option Str) (elseBody : Block) : List ScriptInstr :=
  match kwElse with
  | some k => mkInstr none k [] :: elseBody.flatten
  | none => []

/-- everything of an if chain from an else-line on -/
def tailFlat (es : Elifs) (kwElse : Option Str) (elseBody : Block) (kwEnd : Str) : List ScriptInstr :=
  es.flatten ++ (elseFlat kwElse elseBody ++ [mkInstr none kwEnd []])

theorem flatten_if (kwIf : Str) (cond : List Str) (body : Block) (elifs : Elifs) (kwElse : Option Str)
    (elseBody : Block) (kwEnd : Str) :
    (Stmt.ifChain kwIf cond body elifs kwElse elseBody kwEnd).flatten =
      mkInstr none kwIf cond :: (body.flatten ++ tailFlat elifs kwElse elseBody kwEnd) := by
  cases kwElse <;> simp [Stmt.flatten, tailFlat, elseFlat, List.append_assoc]

theorem tailFlat_nil_none (elseBody : Block) (kwEnd : Str) :
    tailFlat .nil none elseBody kwEnd = [mkInstr none kwEnd []] := by
  simp [tailFlat, elseFlat, Elifs.flatten]

theorem tailFlat_nil_some (k : Str) (elseBody : Block) (kwEnd : Str) :
    tailFlat .nil (some k) elseBody kwEnd =
      mkInstr none k [] :: (elseBody.flatten ++ [mkInstr none kwEnd []]) := by
  simp [tailFlat, elseFlat, Elifs.flatten]

theorem tailFlat_cons (kw : Str) (cond : List Str) (body : Block) (rest : Elifs) (kwElse : Option Str)
    (elseBody : Block) (kwEnd : Str) :
    tailFlat (.cons kw cond body rest) kwElse elseBody kwEnd =
      mkInstr none kw cond :: (body.flatten ++ tailFlat rest kwElse elseBody kwEnd) := by
  simp [tailFlat, Elifs.flatten, List.append_assoc]

theorem flatten_while (kw : Str) (cond : List Str) (body : Block) (kwEnd : Str) :
    (Stmt.whileLoop kw cond body kwEnd).flatten =
      mkInstr none kw cond :: (body.flatten ++ [mkInstr none kwEnd []]) := by
  simp only [Stmt.flatten]

theorem flatten_for (kw x handle : Str) (body : Block) (kwEnd : Str) :
    (Stmt.forIn kw x handle body kwEnd).flatten =
      mkInstr none kw [x, "in".toList, handle] :: (body.flatten ++ [mkInstr none kwEnd []]) := by
  simp only [Stmt.flatten]

/-- the absolute else-lines of the rest of a chain that starts on line `pos` -/
theorem go_nil_none (pos : Nat) : elseOffsets.go pos .nil none = [] := rfl
theorem go_nil_some (pos : Nat) (k : Str) : elseOffsets.go pos .nil (some k) = [pos] := rfl
theorem go_cons (pos : Nat) (kw : Str) (cond : List Str) (b : Block) (rest : Elifs) (kwElse : Option Str) :
    elseOffsets.go pos (.cons kw cond b rest) kwElse =
      pos :: elseOffsets.go (pos + 1 + b.flatten.length) rest kwElse := rfl

theorem go_map (lo : Nat) : ∀ (es : Elifs) (off : Nat) (kwElse : Option Str),
    (elseOffsets.go off es kwElse).map (lo + ·) = elseOffsets.go (lo + off) es kwElse
  | .nil, off, kwElse => by cases kwElse <;> simp [elseOffsets.go]
  | .cons kw cond b rest, off, kwElse => by
    simp only [go_cons, List.map_cons, go_map lo rest]
    congr 2
    omega

theorem go_range (elseBody : Block) : ∀ (es : Elifs) (pos : Nat) (kwElse : Option Str),
    ∀ e ∈ elseOffsets.go pos es kwElse,
      pos ≤ e ∧ e < pos + es.flatten.length + (elseFlat kwElse elseBody).length
  | .nil, pos, kwElse => by
    cases kwElse with
    | none => simp [elseOffsets.go]
    | some k => simp [elseOffsets.go, elseFlat]; omega
  | .cons kw cond b rest, pos, kwElse => by
    intro e he
    rw [go_cons] at he
    simp only [Elifs.flatten, List.length_cons, List.length_append]
    rcases List.mem_cons.mp he with rfl | he
    · omega
    · have := go_range elseBody rest _ kwElse e he
      omega

theorem length_tailFlat (es : Elifs) (kwElse : Option Str) (elseBody : Block) (kwEnd : Str) :
    (tailFlat es kwElse elseBody kwEnd).length =
      es.flatten.length + (elseFlat kwElse elseBody).length + 1 := by
  simp [tailFlat]; omega

/-! ### lists -/

theorem drop_cons_facts {α : Type} (l : List α) (j : Nat) (a : α) (tl : List α)
    (h : l.drop j = a :: tl) : j < l.length ∧ l[j]? = some a ∧ l.drop (j + 1) = tl := by
  have hj : j < l.length := by
    apply Nat.lt_of_not_le
    intro hle
    rw [List.drop_eq_nil_of_le hle] at h
    cases h
  refine ⟨hj, ?_, ?_⟩
  · have := List.drop_eq_getElem_cons hj
    rw [this] at h
    injection h with h1 h2
    rw [List.getElem?_eq_getElem hj, h1]
  · have := List.drop_eq_getElem_cons hj
    rw [this] at h
    injection h with h1 h2

theorem drop_nil_facts {α : Type} (l : List α) (j : Nat) (h : l.drop j = []) : ¬ j < l.length := by
  intro hj
  have := List.drop_eq_getElem_cons hj
  rw [this] at h
  cases h

/-! ### the fragment has no function definitions -/

mutual
  theorem Stmt.noFn_of_simple2 : ∀ s : Stmt, s.simple2 = true → s.noFn = true
    | .line _, _ => rfl
    | .ifChain _ _ body elifs _ elseBody _, h => by
      simp only [Stmt.simple2, Bool.and_eq_true] at h
      simp only [Stmt.noFn, Bool.and_eq_true]
      exact ⟨⟨Block.noFn_of_simple2 body h.1.1.2, Elifs.noFn_of_simple2 elifs h.1.2⟩,
        Block.noFn_of_simple2 elseBody h.2⟩
    | .whileLoop _ _ body _, h => by
      simp only [Stmt.simple2, Bool.and_eq_true] at h
      simp only [Stmt.noFn]
      exact Block.noFn_of_simple2 body h.2
    | .forIn _ _ _ body _, h => by
      simp only [Stmt.simple2, Bool.and_eq_true] at h
      simp only [Stmt.noFn]
      exact Block.noFn_of_simple2 body h.1.2
    | .fnDef _ _ _ _ _, h => by simp [Stmt.simple2] at h
    | .ret _ _, h => by simp [Stmt.simple2] at h
  theorem Block.noFn_of_simple2 : ∀ b : Block, b.simple2 = true → b.noFn = true
    | .nil, _ => rfl
    | .cons s rest, h => by
      simp only [Block.simple2, Bool.and_eq_true] at h
      simp only [Block.noFn, Bool.and_eq_true]
      exact ⟨Stmt.noFn_of_simple2 s h.1, Block.noFn_of_simple2 rest h.2⟩
  theorem Elifs.noFn_of_simple2 : ∀ e : Elifs, e.simple2 = true → e.noFn = true
    | .nil, _ => rfl
    | .cons _ _ body rest, h => by
      simp only [Elifs.simple2, Bool.and_eq_true] at h
      simp only [Elifs.noFn, Bool.and_eq_true]
      exact ⟨Block.noFn_of_simple2 body h.1.2, Elifs.noFn_of_simple2 rest h.2⟩
end

/-! ### the simple fragment is part of the simple2 fragment -/

theorem condSimple2_of_simple {cond : List Str} (h : condSimple cond = true) : condSimple2 cond = true := by
  simp [condSimple2, h]

mutual
  theorem Stmt.simple2_of_simple : ∀ s : Stmt, s.simple = true → s.simple2 = true
    | .line _, h => h
    | .ifChain _ _ body elifs _ elseBody _, h => by
      simp only [Stmt.simple, Bool.and_eq_true] at h
      simp only [Stmt.simple2, Bool.and_eq_true]
      exact ⟨⟨⟨condSimple2_of_simple h.1.1.1, Block.simple2_of_simple body h.1.1.2⟩,
        Elifs.simple2_of_simple elifs h.1.2⟩, Block.simple2_of_simple elseBody h.2⟩
    | .whileLoop _ _ body _, h => by
      simp only [Stmt.simple, Bool.and_eq_true] at h
      simp only [Stmt.simple2, Bool.and_eq_true]
      exact ⟨condSimple2_of_simple h.1, Block.simple2_of_simple body h.2⟩
    | .forIn _ _ _ body _, h => by
      simp only [Stmt.simple, Bool.and_eq_true] at h
      simp only [Stmt.simple2, Bool.and_eq_true]
      exact ⟨⟨h.1.1, Block.simple2_of_simple body h.1.2⟩, h.2⟩
    | .fnDef _ _ _ _ _, h => by simp [Stmt.simple] at h
    | .ret _ _, h => by simp [Stmt.simple] at h
  theorem Block.simple2_of_simple : ∀ b : Block, b.simple = true → b.simple2 = true
    | .nil, _ => rfl
    | .cons s rest, h => by
      simp only [Block.simple, Bool.and_eq_true] at h
      simp only [Block.simple2, Bool.and_eq_true]
      exact ⟨Stmt.simple2_of_simple s h.1, Block.simple2_of_simple rest h.2⟩
  theorem Elifs.simple2_of_simple : ∀ e : Elifs, e.simple = true → e.simple2 = true
    | .nil, _ => rfl
    | .cons _ _ body rest, h => by
      simp only [Elifs.simple, Bool.and_eq_true] at h
      simp only [Elifs.simple2, Bool.and_eq_true]
      exact ⟨⟨condSimple2_of_simple h.1.1, Block.simple2_of_simple body h.1.2⟩,
        Elifs.simple2_of_simple rest h.2⟩
end

/-- a value condition asks nothing of its bound words -/
theorem condArgsSafe_of_simple {cond : List Str} (vars : Vars) (h : condSimple cond = true) :
    condArgsSafe (bind vars (some cond)) = true := by
  obtain ⟨w, rest, hb, hn⟩ := condSimple_bind vars h
  rw [hb]
  have hnone : resolveCmd {} w = none := Option.isNone_iff_eq_none.mp hn
  simp [condArgsSafe, isPureCondCmd, isNotCmd, hnone]

end Duck
