/-
  Helper lemmas for the C04 simulation theorem — part 7: if chains.
-/
import DuckModel.Lemmas.SimCases
import DuckModel.Props.C04Scan

namespace Duck
open Duck.Spec Duck.Generated

/-- the else-lines phase of an if chain: the machine stands on the else-line `pos` (index `j` of the
    chain's else-lines) with the chain's own entry (not passed) on top of the if stack -/
def ElifsSim (is : List Instruction) (fuel : Nat) : Prop :=
  ∀ (es : Elifs) (kwElse : Option Str) (elseBody : Block) (kwEnd : Str) (lo pos stop : Nat)
    (elses : List Nat) (j : Nat) (own : IfCall) (K : List IfCall) (s : Sdk) (t t' : TState),
    es.wf = true → es.simple2 = true →
    (match kwElse with | some k => isElseKw k && elseBody.wf | none => true) = true →
    elseBody.simple2 = true → isEndIfKw kwEnd = true →
    At is pos (tailFlat es kwElse elseBody kwEnd) →
    stop = pos + es.flatten.length + (elseFlat kwElse elseBody).length →
    lo < pos →
    elses.drop j = elseOffsets.go pos es kwElse → elses.drop j ≠ [] →
    (∀ e ∈ elses, lo < e ∧ e < stop) →
    s.ifStack = own :: K → own.current = pos → own.passed = false → own.elseIdx = j →
    own.elses = elses → own.stop = stop → own.ctx = s.lineCtx →
    s.endTable.get (lineKey s stop) = some fullNameEndIf →
    CacheOK is s → Rel s t → ForOK pos (stop + 1) s.forStack →
    safeElifs is fuel es kwElse elseBody t = true →
    execElifs is fuel es kwElse elseBody t = .normal t' →
    ∃ s', Steps is pos t.vars s (stop + 1) t'.vars s' ∧
      SimCore is pos (stop + 1) (fun x => Elifs.assigns x es || Block.assigns x elseBody) s t t' s' ∧
      Garb IfCall.current lo (stop + 1) K s'.ifStack ∧
      Garb WhileCall.stop pos (stop + 1) s.whileStack s'.whileStack ∧
      s'.forStack = s.forStack

/-- a branch of the chain ran to its end with the chain's entry (passed) still on the stack below
    the branch's garbage: the next line is either an else-line, which leaves the chain, or the end -/
theorem branch_done (is : List Instruction) (es : Elifs) (kwElse : Option Str) (elseBody : Block)
    (kwEnd : Str) (lo pos stop : Nat) (v : Vars) (s2 : Sdk) (G : List IfCall) (own : IfCall)
    (K : List IfCall)
    (hwf : es.wf = true) (hs : es.simple2 = true)
    (hke : (match kwElse with | some k => isElseKw k && elseBody.wf | none => true) = true)
    (hkend : isEndIfKw kwEnd = true)
    (hat : At is pos (tailFlat es kwElse elseBody kwEnd))
    (hstop : stop = pos + es.flatten.length + (elseFlat kwElse elseBody).length)
    (hst : s2.ifStack = G ++ own :: K)
    (hG : ∀ e ∈ G, lo ≤ e.current ∧ e.current < pos)
    (hp : own.passed = true) (hos : own.stop = stop) (hctx : own.ctx = s2.lineCtx)
    (hcur : elseOffsets.go pos es kwElse ≠ [] → own.current = pos)
    (hrange : lo ≤ own.current ∧ own.current < stop + 1)
    (hend : s2.endTable.get (lineKey s2 stop) = some fullNameEndIf) :
    ∃ s3, Steps is pos v s2 (stop + 1) v s3 ∧ coreOf s3 = coreOf s2 ∧
      Garb IfCall.current lo (stop + 1) K s3.ifStack ∧ s3.whileStack = s2.whileStack ∧
      s3.forStack = s2.forStack := by
  have hGne : ∀ e ∈ G, e.current ≠ pos := fun e he => by have := hG e he; omega
  cases es with
  | nil =>
    cases kwElse with
    | none =>
      rw [tailFlat_nil_none] at hat
      have hps : stop = pos := by simp [hstop, elseFlat, Elifs.flatten]
      subst hps
      refine ⟨s2, step_endIf is stop v s2 _ kwEnd (At.head hat) hkend hend, rfl, ?_, rfl, rfl⟩
      refine ⟨G ++ [own], by simp [hst], fun e he => ?_⟩
      rcases List.mem_append.mp he with h | h
      · have := hG e h; omega
      · simp at h; subst h; exact hrange
    | some k =>
      rw [tailFlat_nil_some] at hat
      simp only [Bool.and_eq_true] at hke
      have hc := hcur (by simp [go_nil_some])
      have := step_else_passed is pos v s2 _ k G own K (At.head hat) hke.1 hst hc hctx hGne hp
      rw [hos] at this
      exact ⟨_, this, rfl, Garb.refl _ _ _ _, rfl, rfl⟩
  | cons kw cond b rest =>
    rw [tailFlat_cons] at hat
    simp only [Elifs.wf, Elifs.simple2, Bool.and_eq_true] at hwf hs
    have hc := hcur (by simp [go_cons])
    have := step_elif_passed is pos v s2 _ kw cond G own K (At.head hat) hwf.1.1
      (condSimple2_bind_ne v hs.1.1) hst hc hctx hGne hp
    rw [hos] at this
    exact ⟨_, this, rfl, Garb.refl _ _ _ _, rfl, rfl⟩

theorem execElifs_nil_none (is : List Instruction) (fuel : Nat) (elseBody : Block) (t t' : TState)
    (h : execElifs is fuel .nil none elseBody t = .normal t') : t' = t := by
  cases fuel with
  | zero => simp [execElifs] at h
  | succ f => simp [execElifs] at h; exact h.symm

theorem Rel.withEm {s s' : Sdk} {t : TState} (em : List (List Str)) (h : Rel s t)
    (h1 : s'.handles = s.handles) (h2 : s'.nextHandle = s.nextHandle) (h3 : s'.emitted = em)
    (h4 : s'.fns = s.fns) : Rel s' (withEm t em) :=
  ⟨h1.trans h.handles, h2.trans h.next, h3, h4.trans h.sfns, h.tsfns, h.tfns, h.hok⟩

theorem elifs_step (is : List Instruction) (fuel : Nat) (hB : BlockSim is fuel) (hE : ElifsSim is fuel) :
    ElifsSim is (fuel + 1) := by
  intro es kwElse elseBody kwEnd lo pos stop elses j own K s t t' hwf hs hke hes hkend hat hstop hlo
    hdrop hne hrng hst hcur hp hidx hels hos hctx hend hc hrel hfor hsafe hex
  cases es with
  | nil =>
    cases kwElse with
    | none => rw [go_nil_none] at hdrop; exact absurd hdrop hne
    | some k =>
      rw [tailFlat_nil_some] at hat
      simp only [Bool.and_eq_true] at hke
      simp only [execElifs, Option.isSome_some, if_true] at hex
      simp only [safeElifs, Option.isSome_some, if_true] at hsafe
      have hstopEq : pos + 1 + elseBody.flatten.length = stop := by
        simp [hstop, elseFlat, Elifs.flatten]; omega
      have hstep := step_else_run is pos t.vars s _ k [] own K (At.head hat) hke.1
        (by simpa using hst) hcur hctx (by simp) hp
      have hat' := At.tail hat
      obtain ⟨s2, hst2, hcore2, hif2, hwh2, hfor2⟩ :=
        hB elseBody (pos + 1) { s with ifStack := K } t t' hke.2 hes hat'.left
          (hc.of_eq rfl rfl rfl rfl) (hrel.of_eq rfl rfl rfl rfl)
          (hfor.mono (by omega) (by omega)) hsafe hex
      rw [hstopEq] at hst2 hcore2 hif2 hwh2
      have hend2 : s2.endTable.get (lineKey s2 stop) = some fullNameEndIf := by
        rw [lineKey_congr hcore2.frame.ctx, hcore2.frame.endT stop (.inr (by omega))]
        exact hend
      have hiend := At.head hat'.right
      rw [hstopEq] at hiend
      have hstep3 := step_endIf is stop t'.vars s2 _ kwEnd hiend hkend hend2
      refine ⟨s2, (hstep.trans hst2).trans hstep3, ?_, ?_, ?_, hfor2⟩
      · refine (hcore2.mono' (by omega) (by omega) ?_).core_left rfl
        intro x hx
        simp only [Elifs.assigns, Bool.false_or] at hx
        exact hx
      · exact hif2.mono (by omega) (by omega)
      · exact hwh2.mono (by omega) (by omega)
  | cons kw cond b rest =>
    rw [tailFlat_cons] at hat
    simp only [Elifs.wf, Elifs.simple2, Bool.and_eq_true] at hwf hs
    rw [go_cons] at hdrop
    obtain ⟨hjlt, hj, hdrop'⟩ := drop_cons_facts elses j pos _ hdrop
    have hstopEq : stop = pos + 1 + b.flatten.length + rest.flatten.length +
        (elseFlat kwElse elseBody).length := by
      simp [hstop, Elifs.flatten]; omega
    have hi := At.head hat
    have hat' := At.tail hat
    cases fuel with
    | zero => simp [execElifs, evalCond] at hex
    | succ f =>
      simp only [execElifs] at hex
      simp only [safeElifs, Bool.and_eq_true] at hsafe
      obtain ⟨hcsafe, hsafe'⟩ := hsafe
      cases hec : evalCond is (f + 1) cond t with
      | none => rw [hec] at hex; simp at hex
      | some pr =>
        obtain ⟨bv, t1⟩ := pr
        rw [hec] at hex hsafe'
        obtain ⟨em, rfl, hbne, hev⟩ := cond_sim is f cond t t1 bv hs.1.1 hcsafe hrel.tfns hrel.tsfns hec
        have hv : CondSays is (bind t.vars (some cond)) t.vars s.emitted bv em :=
          ⟨hbne, fun f' hf' s' h1 h2 => hev f' hf' is s' h1 (h2.trans hrel.emitted)⟩
        cases bv with
        | true =>
          simp only at hex hsafe'
          -- the branch is taken
          have hstep := step_elif_true is pos t.vars s _ kw cond [] own K em hi hwf.1.1 hrel.sfns
            (by simpa using hst) hcur hctx (by simp) hp hv
          have hnext : lo ≤ elifNext own ∧ elifNext own < stop + 1 := by
            unfold elifNext
            rw [hels, hidx]
            split
            · rename_i hlt
              have : elses[j + 1]? = some elses[j + 1] := List.getElem?_eq_getElem hlt
              rw [this]
              have := hrng _ (List.getElem_mem hlt)
              simp only [Option.getD_some]
              omega
            · have h0 : 0 < elses.length := by omega
              have : elses[0]? = some elses[0] := List.getElem?_eq_getElem h0
              rw [this]
              have := hrng _ (List.getElem_mem h0)
              simp only [Option.getD_some]
              omega
          have hcore1 : SimCore is pos (stop + 1)
              (fun x => Elifs.assigns x (.cons kw cond b rest) || Block.assigns x elseBody) s t
              (withEm t em)
              { s with emitted := em,
                       ifStack := { own with current := elifNext own, passed := true,
                                             ctx := s.lineCtx } :: K } :=
            SimCore.condStep (hc.of_eq rfl rfl rfl rfl) hrel rfl rfl rfl rfl rfl (fun _ _ => rfl)
          obtain ⟨s2, hst2, hcore2, hif2, hwh2, hfor2⟩ :=
            hB b (pos + 1)
              { s with emitted := em,
                       ifStack := { own with current := elifNext own, passed := true,
                                             ctx := s.lineCtx } :: K } (withEm t em) t' hwf.1.2 hs.1.2
              hat'.left hcore1.cache hcore1.rel (hfor.mono (by omega) (by omega)) hsafe' hex
          obtain ⟨G, hG1, hG2⟩ := hif2
          have hend2 : s2.endTable.get (lineKey s2 stop) = some fullNameEndIf := by
            rw [lineKey_congr hcore2.frame.ctx, hcore2.frame.endT stop (.inr (by omega))]
            exact hend
          obtain ⟨s3, hst3, hcore3, hif3, hwh3, hfor3⟩ :=
            branch_done is rest kwElse elseBody kwEnd lo (pos + 1 + b.flatten.length) stop t'.vars s2 G
              { own with current := elifNext own, passed := true, ctx := s.lineCtx } K
              hwf.2 hs.2 hke hkend hat'.right (by omega) hG1
              (fun e he => by have := hG2 e he; omega) rfl hos
              (by simp only; exact (hcore2.frame.ctx).symm)
              (by
                intro hgo
                simp only
                unfold elifNext
                rw [hels, hidx]
                cases hg : elseOffsets.go (pos + 1 + b.flatten.length) rest kwElse with
                | nil => exact absurd hg hgo
                | cons a tl =>
                  rw [hg] at hdrop'
                  obtain ⟨h1, h2, _⟩ := drop_cons_facts elses (j + 1) a tl hdrop'
                  have ha : a = pos + 1 + b.flatten.length := by
                    cases rest with
                    | nil =>
                      cases kwElse with
                      | none => simp [go_nil_none] at hg
                      | some k => simp [go_nil_some] at hg; exact hg.1.symm
                    | cons _ _ _ _ => simp [go_cons] at hg; exact hg.1.symm
                  rw [if_pos h1, h2, ha]
                  rfl)
              (by simpa using hnext) hend2
          refine ⟨s3, (hstep.trans hst2).trans hst3, ?_, hif3, ?_, ?_⟩
          · refine hcore1.trans
              ((hcore2.mono' (lo' := pos) (hi' := stop + 1) (by omega) (by omega) ?_).core_right hcore3)
            intro x hx
            simp only [Elifs.assigns, Bool.or_eq_false_iff] at hx
            exact hx.1.1
          · rw [hwh3]; exact hwh2.mono (by omega) (by omega)
          · rw [hfor3, hfor2]
        | false =>
          simp only at hex hsafe'
          cases hg : elseOffsets.go (pos + 1 + b.flatten.length) rest kwElse with
          | nil =>
            -- no further else-line: leave the chain
            rw [hg] at hdrop'
            have hlast := drop_nil_facts elses (j + 1) hdrop'
            have hrk : rest = .nil ∧ kwElse = none := by
              cases rest with
              | nil =>
                cases kwElse with
                | none => exact ⟨rfl, rfl⟩
                | some k => simp [go_nil_some] at hg
              | cons _ _ _ _ => simp [go_cons] at hg
            obtain ⟨rfl, rfl⟩ := hrk
            have := execElifs_nil_none is (f + 1) elseBody _ t' hex
            subst this
            have hstep := step_elif_false_last is pos t.vars s _ kw cond [] own K em hi hwf.1.1
              hrel.sfns (by simpa using hst) hcur hctx (by simp) hp hv
              (by rw [hels, hidx]; exact hlast)
            rw [hos] at hstep
            exact ⟨_, hstep,
              SimCore.condStep (hc.of_eq rfl rfl rfl rfl) hrel rfl rfl rfl rfl rfl (fun _ _ => rfl),
              Garb.refl _ _ _ _, Garb.refl _ _ _ _, rfl⟩
          | cons a tl =>
            rw [hg] at hdrop'
            obtain ⟨h1, h2, _⟩ := drop_cons_facts elses (j + 1) a tl hdrop'
            have ha : a = pos + 1 + b.flatten.length := by
              cases rest with
              | nil =>
                cases kwElse with
                | none => simp [go_nil_none] at hg
                | some k => simp [go_nil_some] at hg; exact hg.1.symm
              | cons _ _ _ _ => simp [go_cons] at hg; exact hg.1.symm
            have hstep := step_elif_false_more is pos t.vars s _ kw cond [] own K em hi hwf.1.1
              hrel.sfns (by simpa using hst) hcur hctx (by simp) hp hv
              (by rw [hels, hidx]; exact h1)
            have hnx : own.elses[own.elseIdx + 1]?.getD 0 = pos + 1 + b.flatten.length := by
              rw [hels, hidx, h2, ha]; rfl
            rw [hnx] at hstep
            have hcore1 : SimCore is pos (stop + 1)
                (fun x => Elifs.assigns x (.cons kw cond b rest) || Block.assigns x elseBody) s t
                (withEm t em)
                { s with emitted := em,
                         ifStack := { own with current := pos + 1 + b.flatten.length, passed := false,
                                               elseIdx := own.elseIdx + 1, ctx := s.lineCtx } :: K } :=
              SimCore.condStep (hc.of_eq rfl rfl rfl rfl) hrel rfl rfl rfl rfl rfl (fun _ _ => rfl)
            obtain ⟨s2, hst2, hcore2, hif2, hwh2, hfor2⟩ :=
              hE rest kwElse elseBody kwEnd lo (pos + 1 + b.flatten.length) stop elses (j + 1)
                { own with current := pos + 1 + b.flatten.length, passed := false,
                           elseIdx := own.elseIdx + 1, ctx := s.lineCtx } K
                { s with emitted := em,
                         ifStack := { own with current := pos + 1 + b.flatten.length, passed := false,
                                               elseIdx := own.elseIdx + 1, ctx := s.lineCtx } :: K }
                (withEm t em) t' hwf.2 hs.2 hke hes hkend hat'.right (by omega) (by omega)
                (by rw [hdrop', hg]) (by rw [hdrop']; simp) hrng rfl rfl rfl
                (by simp only; rw [hidx]) hels hos rfl hend
                hcore1.cache hcore1.rel
                (hfor.mono (by omega) (by omega)) hsafe' hex
            refine ⟨s2, hstep.trans hst2, ?_, hif2, ?_, hfor2⟩
            · refine hcore1.trans (hcore2.mono' (by omega) (by omega) ?_)
              intro x hx
              simp only [Elifs.assigns, Bool.or_eq_false_iff] at hx
              simp only [Bool.or_eq_false_iff]
              exact ⟨hx.1.2, hx.2⟩
            · exact hwh2.mono (by omega) (by omega)

end Duck

namespace Duck
open Duck.Spec Duck.Generated

theorem go_head (pos : Nat) (es : Elifs) (kwElse : Option Str) (a : Nat) (tl : List Nat)
    (h : elseOffsets.go pos es kwElse = a :: tl) : a = pos := by
  cases es with
  | nil =>
    cases kwElse with
    | none => simp [go_nil_none] at h
    | some k => simp [go_nil_some] at h; exact h.1.symm
  | cons _ _ _ _ => simp [go_cons] at h; exact h.1.symm

theorem go_nil_inv (pos : Nat) (es : Elifs) (kwElse : Option Str)
    (h : elseOffsets.go pos es kwElse = []) : es = .nil ∧ kwElse = none := by
  cases es with
  | nil =>
    cases kwElse with
    | none => exact ⟨rfl, rfl⟩
    | some k => simp [go_nil_some] at h
  | cons _ _ _ _ => simp [go_cons] at h

theorem stmt_if (is : List Instruction) (fuel : Nat) (hB : BlockSim is fuel) (hE : ElifsSim is fuel)
    (kwIf : Str) (cond : List Str) (body : Block) (elifs : Elifs) (kwElse : Option Str)
    (elseBody : Block) (kwEnd : Str) :
    StmtSimFor is (fuel + 1) (.ifChain kwIf cond body elifs kwElse elseBody kwEnd) := by
  intro lo s t t' hwf hs hat hc hrel hfor hsafe hex
  have hnf := Stmt.noFn_of_simple2 _ hs
  -- the scan
  have hscan : findCommands ifTables is (lo + 1) =
      .ok ⟨elseOffsets.go (lo + 1 + body.flatten.length) elifs kwElse,
           lo + 1 + body.flatten.length + elifs.flatten.length + (elseFlat kwElse elseBody).length⟩ := by
    obtain ⟨pre, post, hpl, his⟩ := hat
    have := C04_scan_if pre post kwIf cond body elifs kwElse elseBody kwEnd hwf hnf
    simp only at this
    rw [hpl, ← his] at this
    rw [this, elseOffsets, go_map]
    simp only [flatten_if, List.length_cons, List.length_append, length_tailFlat]
    congr 2
    · congr 1; omega
    · omega
  rw [flatten_if] at hat
  simp only [flatten_if, List.length_cons, List.length_append, length_tailFlat] at hfor ⊢
  simp only [Stmt.wf, Stmt.simple2, Bool.and_eq_true] at hwf hs
  obtain ⟨⟨⟨⟨hkif, hbwf⟩, hewf⟩, hke⟩, hkend⟩ := hwf
  obtain ⟨⟨⟨hcs, hbs⟩, hess⟩, hebs⟩ := hs
  have hi := At.head hat
  have hat' := At.tail hat
  generalize hstopdef : lo + 1 + body.flatten.length + elifs.flatten.length +
    (elseFlat kwElse elseBody).length = stop at hscan
  have hhi : lo + (body.flatten.length + (elifs.flatten.length + (elseFlat kwElse elseBody).length + 1) + 1)
      = stop + 1 := by omega
  rw [hhi] at hfor ⊢
  cases fuel with
  | zero => simp [execStmt, evalCond] at hex
  | succ f =>
    simp only [execStmt] at hex
    simp only [safeStmt, Bool.and_eq_true] at hsafe
    obtain ⟨hcsafe, hsafe'⟩ := hsafe
    cases hec : evalCond is (f + 1) cond t with
    | none => rw [hec] at hex; simp at hex
    | some pr =>
      obtain ⟨bv, t1⟩ := pr
      rw [hec] at hex hsafe'
      obtain ⟨em, rfl, hbne, hev⟩ := cond_sim is f cond t t1 bv hcs hcsafe hrel.tfns hrel.tsfns hec
      have hv : CondSays is (bind t.vars (some cond)) t.vars s.emitted bv em :=
        ⟨hbne, fun f' hf' s' h1 h2 => hev f' hf' is s' h1 (h2.trans hrel.emitted)⟩
      cases bv with
      | true =>
        simp only at hex hsafe'
        obtain ⟨M, hstep1, hcache1⟩ := step_if_true is lo t.vars s _ kwIf cond _ stop em hi hkif
          hrel.sfns hc hscan hv
        generalize hown : IfCall.mk (match elseOffsets.go (lo + 1 + body.flatten.length) elifs kwElse with
              | [] => stop | e :: _ => e) true 0 lo stop
              (elseOffsets.go (lo + 1 + body.flatten.length) elifs kwElse) s.lineCtx = own at hstep1
        have hocur : (elseOffsets.go (lo + 1 + body.flatten.length) elifs kwElse ≠ [] →
            own.current = lo + 1 + body.flatten.length) ∧
            (lo ≤ own.current ∧ own.current < stop + 1) := by
          subst hown
          simp only
          cases hg : elseOffsets.go (lo + 1 + body.flatten.length) elifs kwElse with
          | nil => simp; omega
          | cons a tl =>
            have := go_head _ _ _ _ _ hg
            subst this
            simp; omega
        have hop : own.passed = true := by subst hown; rfl
        have hos : own.stop = stop := by subst hown; rfl
        have hoc : own.ctx = s.lineCtx := by subst hown; rfl
        have hopen : SimCore is lo (stop + 1)
            (fun x => Stmt.assigns x (.ifChain kwIf cond body elifs kwElse elseBody kwEnd)) s t
            (withEm t em)
            { s with ifMeta := M, endTable := s.endTable.put (lineKey s stop) fullNameEndIf,
                     emitted := em, ifStack := own :: s.ifStack } :=
          SimCore.opener stop fullNameEndIf (hcache1.of_eq rfl rfl rfl rfl) hrel rfl rfl rfl rfl rfl rfl
            (by omega) (by omega)
        obtain ⟨s2, hst2, hcore2, hif2, hwh2, hfor2⟩ :=
          hB body (lo + 1)
            { s with ifMeta := M, endTable := s.endTable.put (lineKey s stop) fullNameEndIf,
                     emitted := em, ifStack := own :: s.ifStack } (withEm t em) t' hbwf hbs hat'.left
            hopen.cache hopen.rel (hfor.mono (by omega) (by omega)) hsafe' hex
        obtain ⟨G, hG1, hG2⟩ := hif2
        have hend2 : s2.endTable.get (lineKey s2 stop) = some fullNameEndIf := by
          rw [lineKey_congr hcore2.frame.ctx, hcore2.frame.endT stop (.inr (by omega))]
          exact KV.get_put_self _ _ _
        obtain ⟨s3, hst3, hcore3, hif3, hwh3, hfor3⟩ :=
          branch_done is elifs kwElse elseBody kwEnd lo (lo + 1 + body.flatten.length) stop t'.vars s2 G
            own s.ifStack hewf hess hke hkend hat'.right (by omega) hG1
            (fun e he => by have := hG2 e he; omega) hop hos
            (by rw [hoc]; exact (hcore2.frame.ctx).symm) hocur.1 hocur.2 hend2
        refine ⟨s3, (hstep1.trans hst2).trans hst3, ?_, hif3, ?_, ?_⟩
        · refine hopen.trans ((hcore2.mono' (by omega) (by omega) ?_).core_right hcore3)
          intro x hx
          simp only [Stmt.assigns, Bool.or_eq_false_iff] at hx
          exact hx.1.1
        · rw [hwh3]; exact hwh2.mono (by omega) (by omega)
        · rw [hfor3, hfor2]
      | false =>
        simp only at hex hsafe'
        cases hg : elseOffsets.go (lo + 1 + body.flatten.length) elifs kwElse with
        | nil =>
          obtain ⟨rfl, rfl⟩ := go_nil_inv _ _ _ hg
          have := execElifs_nil_none is (f + 1) elseBody _ t' hex
          subst this
          rw [hg] at hscan
          obtain ⟨M, hstep1, hcache1⟩ := step_if_false_nil is lo t.vars s _ kwIf cond stop em hi hkif
            hrel.sfns hc hscan hv
          exact ⟨_, hstep1,
            SimCore.opener stop fullNameEndIf (hcache1.of_eq rfl rfl rfl rfl) hrel rfl rfl rfl rfl rfl rfl
              (by omega) (by omega),
            Garb.refl _ _ _ _, Garb.refl _ _ _ _, rfl⟩
        | cons a tl =>
          have := go_head _ _ _ _ _ hg
          subst this
          rw [hg] at hscan
          obtain ⟨M, hstep1, hcache1⟩ := step_if_false_cons is lo t.vars s _ kwIf cond _ tl stop em hi hkif
            hrel.sfns hc hscan hv
          have hopen : SimCore is lo (stop + 1)
              (fun x => Stmt.assigns x (.ifChain kwIf cond body elifs kwElse elseBody kwEnd)) s t
              (withEm t em)
              { s with ifMeta := M, endTable := s.endTable.put (lineKey s stop) fullNameEndIf,
                       emitted := em,
                       ifStack := { current := lo + 1 + body.flatten.length, passed := false, elseIdx := 0,
                                    start := lo, stop := stop,
                                    elses := (lo + 1 + body.flatten.length) :: tl,
                                    ctx := s.lineCtx } :: s.ifStack } :=
            SimCore.opener stop fullNameEndIf (hcache1.of_eq rfl rfl rfl rfl) hrel rfl rfl rfl rfl rfl rfl
              (by omega) (by omega)
          obtain ⟨s2, hst2, hcore2, hif2, hwh2, hfor2⟩ :=
            hE elifs kwElse elseBody kwEnd lo (lo + 1 + body.flatten.length) stop
              ((lo + 1 + body.flatten.length) :: tl) 0
              { current := lo + 1 + body.flatten.length, passed := false, elseIdx := 0, start := lo,
                stop := stop, elses := (lo + 1 + body.flatten.length) :: tl, ctx := s.lineCtx } s.ifStack
              { s with ifMeta := M, endTable := s.endTable.put (lineKey s stop) fullNameEndIf,
                       emitted := em,
                       ifStack := { current := lo + 1 + body.flatten.length, passed := false, elseIdx := 0,
                                    start := lo, stop := stop,
                                    elses := (lo + 1 + body.flatten.length) :: tl,
                                    ctx := s.lineCtx } :: s.ifStack }
              (withEm t em) t' hewf hess hke hebs hkend hat'.right (by omega) (by omega)
              (by rw [List.drop_zero, hg]) (by simp)
              (by
                intro e he
                rw [← hg] at he
                have := go_range elseBody elifs _ kwElse e he
                omega)
              rfl rfl rfl rfl rfl rfl rfl (KV.get_put_self _ _ _)
              hopen.cache hopen.rel
              (hfor.mono (by omega) (by omega)) hsafe' hex
          refine ⟨s2, hstep1.trans hst2, ?_, hif2, hwh2.mono (by omega) (by omega), hfor2⟩
          refine hopen.trans (hcore2.mono' (by omega) (by omega) ?_)
          intro x hx
          simp only [Stmt.assigns, Bool.or_eq_false_iff] at hx
          simp only [Bool.or_eq_false_iff]
          exact ⟨hx.1.2, hx.2⟩

end Duck
