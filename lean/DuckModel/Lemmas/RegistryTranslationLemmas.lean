/-
  Helper lemmas for Props/C15Translated.lean: the methods of `impl Commands` as TRANSLATED from the
  current source (Generated/RegistryFns.lean, over the abstract finite maps of FinMap.lean) against
  the hand-written model (Registry.lean, association lists).

  The representation relation is `MapRep m l`: the abstract map `m` and the association list `l`
  answer every lookup alike.  Only the laws of `LawfulFinMap` are used about `m`.
-/
import DuckModel.FinMap
import DuckModel.Registry
import DuckModel.Lemmas.RegistryLemmas
import DuckModel.Generated.RegistryFns

namespace Duck

/-- the abstract map `m` represents the association list `l`: same lookups -/
def MapRep {M V : Type} [FinMap M V] (m : M) (l : KV V) : Prop :=
  ∀ k, FinMap.get m k = l.get k

/-- the pair of abstract maps represents the model registry -/
structure RegRep {MC MA : Type} [FinMap MC CmdSpec] [FinMap MA Str]
    (mc : MC) (ma : MA) (r : Reg) : Prop where
  commands : MapRep mc r.commands
  aliases : MapRep ma r.aliases

/-- an association list that is a finite map: every key once (what `put` / `erase` maintain) -/
def KV.NodupKeys {α : Type} (l : KV α) : Prop := (l.map (·.1)).Nodup

namespace MapRep
variable {M V : Type} [FinMap M V] [LawfulFinMap M V]

theorem empty : MapRep (FinMap.empty : M) ([] : KV V) := by
  intro k; rw [LawfulFinMap.get_empty]; rfl

theorem insert {m : M} {l : KV V} (h : MapRep m l) (k : Str) (v : V) :
    MapRep (FinMap.insert m k v) (l.put k v) := by
  intro k'; rw [LawfulFinMap.get_insert, KV.get_put, h k']

theorem erase {m : M} {l : KV V} (h : MapRep m l) (k : Str) :
    MapRep (FinMap.erase m k) (l.erase k) := by
  intro k'; rw [LawfulFinMap.get_erase, KV.get_erase, h k']

/-- erasing an absent key changes no lookup (nothing more is known about the map itself) -/
theorem erase_absent {m : M} {l : KV V} (h : MapRep m l) (k : Str) (hk : l.get k = none) :
    MapRep (FinMap.erase m k) l := by
  intro k'; rw [LawfulFinMap.get_erase]
  by_cases e : k' = k
  · subst e; simp [hk]
  · simp [e, h k']

omit [LawfulFinMap M V] in
theorem contains {m : M} {l : KV V} (h : MapRep m l) (k : Str) :
    FinMap.contains m k = l.containsKey k := by
  unfold FinMap.contains KV.containsKey; rw [h k]

/-- the alias insertion loop of `Commands::set` -/
theorem foldl_insert {m : M} {l : KV V} (h : MapRep m l) (as : List Str) (n : V) :
    MapRep (as.foldl (fun m a => FinMap.insert m a n) m) (as.foldl (fun l a => l.put a n) l) := by
  induction as generalizing m l with
  | nil => exact h
  | cons a as ih => exact ih (h.insert a n)

/-- the alias removal loop of `Commands::remove` -/
theorem foldl_erase_if [DecidableEq V] {m : M} {l : KV V} (h : MapRep m l) (as : List Str) (n : V) :
    MapRep (as.foldl (fun m a => if FinMap.get m a = some n then FinMap.erase m a else m) m)
      (as.foldl (fun l a => if l.get a = some n then l.erase a else l) l) := by
  induction as generalizing m l with
  | nil => exact h
  | cons a as ih =>
    simp only [List.foldl_cons]
    rw [h a]
    by_cases e : l.get a = some n
    · simp only [e, if_true]; exact ih (h.erase a)
    · simp only [e, if_false]; exact ih h

/-- the keys of the abstract map are the keys of the list, in some order -/
theorem keys_perm {m : M} {l : KV V} (h : MapRep m l) (hl : l.NodupKeys) :
    (FinMap.keys m).Perm (l.map (·.1)) := by
  rw [List.perm_ext_iff_of_nodup (LawfulFinMap.nodup_keys m) hl]
  intro k
  rw [LawfulFinMap.mem_keys, h k, KV.get_isSome_iff_mem]

end MapRep

/-! ### loops -/

/-- the refusal loop of `Commands::set`: leaves at the first element the test accepts -/
theorem forEach_ret_if {α ρ : Type} (p : α → Bool) (r : ρ) (xs : List α) :
    forEach (σ := Unit) (ρ := ρ) (fun _ x => if p x then .ret r else .next ()) xs () =
      if xs.any p then .ret r else .next () := by
  induction xs with
  | nil => rfl
  | cons x xs ih =>
    unfold forEach
    by_cases h : p x = true
    · simp [h]
    · simp [h, ih]

/-- the collecting loop of `Commands::get_all_command_names` -/
theorem foldl_push {α : Type} (xs init : List α) :
    List.foldl (fun acc x => acc ++ [x]) init xs = init ++ xs := by
  induction xs generalizing init with
  | nil => simp
  | cons x xs ih => simp [ih]

/-! ### sorting: the result depends on the elements only, not on their order -/

namespace Reg

theorem strLt_antisymm (a b : Str) (h1 : strLt a b = false) (h2 : strLt b a = false) : a = b := by
  induction a generalizing b with
  | nil => cases b with
    | nil => rfl
    | cons y ys => simp [strLt] at h1
  | cons x xs ih =>
    cases b with
    | nil => simp [strLt] at h2
    | cons y ys =>
      simp only [strLt] at h1 h2
      by_cases hxy : x.toNat < y.toNat
      · simp [hxy] at h1
      · by_cases hyx : y.toNat < x.toNat
        · simp [hyx] at h2
        · simp only [hxy, hyx, if_false] at h1 h2
          have hx : x = y := Char.toNat_inj.mp (by omega)
          rw [hx, ih ys h1 h2]

theorem perm_insertSorted (x : Str) (l : List Str) : (insertSorted x l).Perm (x :: l) := by
  induction l with
  | nil => exact List.Perm.refl _
  | cons y ys ih =>
    unfold insertSorted
    split
    · exact ((List.Perm.cons y ih).trans (List.Perm.swap x y ys))
    · exact List.Perm.refl _

theorem perm_sortStrs (l : List Str) : (sortStrs l).Perm l := by
  induction l with
  | nil => exact List.Perm.refl _
  | cons z zs ih =>
    have : sortStrs (z :: zs) = insertSorted z (sortStrs zs) := rfl
    rw [this]
    exact (perm_insertSorted z _).trans (List.Perm.cons z ih)

theorem sortStrs_perm {l₁ l₂ : List Str} (h : l₁.Perm l₂) : sortStrs l₁ = sortStrs l₂ := by
  refine List.Perm.eq_of_pairwise (le := fun a b => strLt b a = false) ?_
    (pairwise_sortStrs l₁) (pairwise_sortStrs l₂)
    ((perm_sortStrs l₁).trans (h.trans (perm_sortStrs l₂).symm))
  intro a b _ _ hab hba
  exact strLt_antisymm a b hba hab

end Reg

/-! ### the model's lists stay finite maps -/

namespace KV
variable {α : Type}

theorem nodupKeys_nil : NodupKeys ([] : KV α) := List.nodup_nil

theorem nodupKeys_erase {l : KV α} (h : l.NodupKeys) (k : Str) : (l.erase k).NodupKeys := by
  unfold NodupKeys erase at *
  exact List.Nodup.sublist (List.Sublist.map _ List.filter_sublist) h

theorem nodupKeys_put {l : KV α} (h : l.NodupKeys) (k : Str) (v : α) : (l.put k v).NodupKeys := by
  unfold NodupKeys put
  rw [List.map_cons, List.nodup_cons]
  refine ⟨?_, nodupKeys_erase h k⟩
  intro hm
  have := (get_isSome_iff_mem (l.erase k) k).mpr hm
  rw [get_erase] at this
  simp at this

end KV

theorem Reg.nodupKeys_set (r : Reg) (c : CmdSpec) (h : r.commands.NodupKeys) :
    (r.set c).1.commands.NodupKeys := by
  rcases Reg.set_cases r c with ⟨_, e⟩ | ⟨_, e⟩
  · rw [e]; exact h
  · rw [e]; exact KV.nodupKeys_put h _ _

theorem Reg.nodupKeys_remove (r : Reg) (n : Str) (h : r.commands.NodupKeys) :
    (r.remove n).1.commands.NodupKeys := by
  cases hk : r.commands.get (r.resolve n) with
  | none => rw [Reg.remove_none r n hk]; exact h
  | some c => rw [Reg.remove_some r n c hk]; exact KV.nodupKeys_erase h _

theorem Reg.nodupKeys_apply (r : Reg) (op : RegOp) (h : r.commands.NodupKeys) :
    (r.apply op).1.commands.NodupKeys := by
  cases op with
  | set c => exact Reg.nodupKeys_set r c h
  | remove n => exact Reg.nodupKeys_remove r n h
  | get n => exact h
  | «exists» n => exact h
  | names => exact h

theorem Reg.nodupKeys_run (r : Reg) (ops : List RegOp) (h : r.commands.NodupKeys) :
    (Reg.run r ops).1.commands.NodupKeys := by
  induction ops generalizing r with
  | nil => exact h
  | cons op ops ih => exact ih _ (Reg.nodupKeys_apply r op h)

/-! ### the laws are consistent: the model's association lists are a lawful finite map -/

namespace KV
variable {α : Type}

/-- every key once (the last occurrence is kept) -/
def dedup : List Str → List Str
  | [] => []
  | k :: ks => if k ∈ ks then dedup ks else k :: dedup ks

theorem mem_dedup (k : Str) (l : List Str) : k ∈ dedup l ↔ k ∈ l := by
  induction l with
  | nil => simp [dedup]
  | cons x xs ih =>
    unfold dedup
    by_cases h : x ∈ xs
    · simp only [h, if_true, ih, List.mem_cons]
      constructor
      · exact Or.inr
      · rintro (e | e)
        · rw [e]; exact h
        · exact e
    · simp only [h, if_false, List.mem_cons, ih]

theorem nodup_dedup (l : List Str) : (dedup l).Nodup := by
  induction l with
  | nil => exact List.nodup_nil
  | cons x xs ih =>
    unfold dedup
    by_cases h : x ∈ xs
    · simp only [h, if_true]; exact ih
    · rw [if_neg h, List.nodup_cons, mem_dedup]; exact ⟨h, ih⟩

/-- a filter that decides by the key alone keeps or drops all entries of a key together -/
theorem get_filter_key (q : Str → Bool) (l : KV α) (k : Str) :
    get (l.filter (fun kv => q kv.1)) k = if q k = true then get l k else none := by
  induction l with
  | nil => simp
  | cons p rest ih =>
    obtain ⟨a, v⟩ := p
    by_cases hq : q a = true
    · simp only [List.filter_cons, hq, if_true, get_cons, ih]
      by_cases e : a = k
      · subst e; simp [hq]
      · simp [e]
    · have hq' : q a = false := by simpa using hq
      simp only [List.filter_cons, hq', get_cons]
      by_cases e : a = k
      · subst e; simp [ih, hq']
      · simp [e, ih]

end KV

instance kvFinMap (α : Type) : FinMap (KV α) α where
  empty := []
  get := KV.get
  insert := KV.put
  erase := KV.erase
  filter p m := m.filter (fun kv => ((KV.get m kv.1).map (p kv.1)).getD false)
  keys m := KV.dedup (m.map (·.1))

instance kvLawful (α : Type) : LawfulFinMap (KV α) α where
  get_empty _ := rfl
  get_insert m k v k' := KV.get_put m k v k'
  get_erase m k k' := KV.get_erase m k k'
  get_filter p m k := by
    show KV.get (m.filter (fun kv => ((KV.get m kv.1).map (p kv.1)).getD false)) k = _
    rw [KV.get_filter_key (fun a => ((KV.get m a).map (p a)).getD false) m k]
    show _ = Option.filter (p k) (KV.get m k)
    cases KV.get m k with
    | none => simp
    | some v => by_cases h : p k v = true <;> simp [Option.filter, h]
  mem_keys m k := by
    show k ∈ KV.dedup (m.map (·.1)) ↔ _
    rw [KV.mem_dedup]; exact (KV.get_isSome_iff_mem m k).symm
  nodup_keys m := KV.nodup_dedup _

/-- every model registry is represented by its own lists -/
theorem RegRep.self (r : Reg) : RegRep r.commands r.aliases r := ⟨fun _ => rfl, fun _ => rfl⟩

end Duck
