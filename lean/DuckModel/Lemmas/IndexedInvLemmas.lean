/-
  Loop invariants of the index-faithful parser model, proved on that model alone (no
  reference to the suffix model): at the head of every iteration
  `index + remaining iterations = end_index`, so every read `line_text[index]` is in range;
  `index -= 1` is only ever applied to an index that was just incremented.
-/
import DuckModel.Lemmas.IndexedLemmas

namespace Duck

/-- Generic invariant of `for _i in index..end_index` when the body advances the tracked index
    by exactly one on `continue`, leaves it in `[old, E]` on `break`, and cannot panic while the
    index is in range: the loop does not panic and ends with the index in `[start, E]`. -/
theorem iFor_index_inv {σ : Type} (body : σ → IStep σ) (ix : σ → Nat) (E : Nat)
    (hnext : ∀ s s', ix s < E → body s = .next s' → ix s' = ix s + 1)
    (hbrk : ∀ s s', ix s < E → body s = .brk s' → ix s ≤ ix s' ∧ ix s' ≤ E)
    (hpanic : ∀ s, ix s < E → body s ≠ .panic) :
    ∀ (n : Nat) (s : σ), ix s + n = E →
      iFor body n s ≠ .panic ∧ ∀ s', iFor body n s = .ok s' → ix s ≤ ix s' ∧ ix s' ≤ E := by
  intro n
  induction n with
  | zero =>
    intro s h
    refine ⟨by simp [iFor], fun s' hs => ?_⟩
    simp [iFor] at hs
    subst hs
    omega
  | succ n ih =>
    intro s h
    have hlt : ix s < E := by omega
    rw [iFor]
    cases hb : body s with
    | next s2 =>
      have h2 := hnext s s2 hlt hb
      obtain ⟨ihp, ihb⟩ := ih s2 (by omega)
      refine ⟨ihp, fun s' hs => ?_⟩
      have := ihb s' hs
      omega
    | brk s2 =>
      refine ⟨by simp, fun s' hs => ?_⟩
      simp at hs
      subst hs
      exact hbrk s _ hlt hb
    | err e => exact ⟨by simp, fun s' hs => by simp at hs⟩
    | panic => exact absurd hb (hpanic s hlt)

/-! ### the body of `parse_next_value`, at ANY index and ANY `end_index` -/

/-- the only way the body unwinds is the read: the decrement never does -/
theorem ipvBody_panic_iff (fl : PVFlags) (line : Str) (E : Nat) (s : IPV) :
    ipvBody fl line E s = .panic ↔ line.length ≤ s.index := by
  unfold ipvBody
  cases hr : rd line s.index with
  | none => simpa using rd_none_iff.mp hr
  | some c =>
    have : ¬ line.length ≤ s.index := by
      intro hle; rw [rd_none_iff.mpr hle] at hr; cases hr
    simp only [decr_succ, this, iff_false]
    repeat' split
    all_goals simp

/-- `continue` = the index moved forward by exactly one -/
theorem ipvBody_next_index (fl : PVFlags) (line : Str) (E : Nat) (s s' : IPV)
    (h : ipvBody fl line E s = .next s') : s'.index = s.index + 1 := by
  unfold ipvBody at h
  cases hr : rd line s.index with
  | none => rw [hr] at h; cases h
  | some c =>
    rw [hr] at h
    simp only [decr_succ] at h
    repeat' split at h
    all_goals first | (cases h; rfl) | cases h

/-- `break` = the index is the incremented one, or that minus one (`index -= 1` right after
    `index += 1`), or `end_index` -/
theorem ipvBody_brk_index (fl : PVFlags) (line : Str) (E : Nat) (s s' : IPV)
    (h : ipvBody fl line E s = .brk s') :
    s'.index = s.index ∨ s'.index = s.index + 1 ∨ s'.index = E := by
  unfold ipvBody at h
  cases hr : rd line s.index with
  | none => rw [hr] at h; cases h
  | some c =>
    rw [hr] at h
    simp only [decr_succ] at h
    repeat' split at h
    all_goals first | (cases h; simp) | cases h

/-- the loop of `parse_next_value`: no panic, final index within `[start, end_index]` -/
theorem ipv_loop_inv (fl : PVFlags) (line : Str) (n : Nat) (s : IPV) (h : s.index + n = line.length) :
    iFor (ipvBody fl line line.length) n s ≠ .panic ∧
      ∀ s', iFor (ipvBody fl line line.length) n s = .ok s' →
        s.index ≤ s'.index ∧ s'.index ≤ line.length :=
  iFor_index_inv (ipvBody fl line line.length) IPV.index line.length
    (fun s s' _ hb => ipvBody_next_index fl line _ s s' hb)
    (fun s s' hlt hb => by
      have := ipvBody_brk_index fl line _ s s' hb
      omega)
    (fun s hlt hp => by
      have := (ipvBody_panic_iff fl line _ s).mp hp
      omega)
    n s h

theorem ipvFinish_index {s : IPV} {idx : Nat} {v : Option Str} (h : ipvFinish s = .ok (idx, v)) :
    idx = s.index := by
  unfold ipvFinish at h
  repeat' split at h
  all_goals first | (cases h; rfl) | cases h

theorem ipvFinish_ne_panic (s : IPV) : ipvFinish s ≠ .panic := by
  unfold ipvFinish
  repeat' split
  all_goals simp

/-- `parse_next_value` never panics, for every start index -/
theorem iParseNextValue_ne_panic (fl : PVFlags) (line : Str) (start : Nat) :
    iParseNextValue fl line start ≠ .panic := by
  unfold iParseNextValue
  simp only
  split
  · simp
  · rename_i hlt
    have hinv := ipv_loop_inv fl line (line.length - start) { index := start }
      (by simp only; omega)
    cases hl : iFor (ipvBody fl line line.length) (line.length - start) { index := start } with
    | panic => exact absurd hl hinv.1
    | err e => simp
    | ok s => exact ipvFinish_ne_panic s

/-- the index returned by `parse_next_value` is never before the start and, for a start inside
    the line, never beyond the end -/
theorem iParseNextValue_index (fl : PVFlags) (line : Str) (start idx : Nat) (v : Option Str)
    (h : iParseNextValue fl line start = .ok (idx, v)) :
    start ≤ idx ∧ (start ≤ line.length → idx ≤ line.length) := by
  unfold iParseNextValue at h
  simp only at h
  split at h
  · cases h; rename_i hge; exact ⟨Nat.le_refl _, fun hle => hle⟩
  · have hinv := ipv_loop_inv fl line (line.length - start) { index := start }
      (by simp only; omega)
    cases hl : iFor (ipvBody fl line line.length) (line.length - start) { index := start } with
    | panic => rw [hl] at h; cases h
    | err e => rw [hl] at h; cases h
    | ok s =>
      rw [hl] at h
      have := ipvFinish_index h
      have hb := hinv.2 s hl
      simp only at hb
      subst this
      exact ⟨hb.1, fun _ => hb.2⟩

/-! ### the other loop bodies -/

theorem iflBody_panic_iff (line : Str) (s : IFL) :
    iflBody line s = .panic ↔ line.length ≤ s.index := by
  unfold iflBody
  cases hr : rd line s.index with
  | none => simpa using rd_none_iff.mp hr
  | some c =>
    have : ¬ line.length ≤ s.index := by
      intro hle; rw [rd_none_iff.mpr hle] at hr; cases hr
    simp only [decr_succ, this, iff_false]
    split
    · have hnp := iParseNextValue_ne_panic nameFlags line (s.index + 1)
      cases hp : iParseNextValue nameFlags line (s.index + 1) with
      | panic => exact absurd hp hnp
      | err e => simp
      | ok x =>
        obtain ⟨i, v⟩ := x
        cases v with
        | none => simp
        | some w => simp only; split <;> simp
    · split <;> simp

theorem iflBody_next_index (line : Str) (s s' : IFL) (h : iflBody line s = .next s') :
    s'.index = s.index + 1 := by
  unfold iflBody at h
  cases hr : rd line s.index with
  | none => rw [hr] at h; cases h
  | some c =>
    rw [hr] at h
    simp only [decr_succ] at h
    split at h
    · cases hp : iParseNextValue nameFlags line (s.index + 1) with
      | panic => rw [hp] at h; cases h
      | err e => rw [hp] at h; cases h
      | ok x =>
        obtain ⟨i, v⟩ := x
        rw [hp] at h
        cases v with
        | none => cases h
        | some w => simp only at h; split at h <;> cases h
    · split at h
      · cases h
      · cases h; rfl

theorem iflBody_brk_index (line : Str) (s s' : IFL) (hlt : s.index < line.length)
    (h : iflBody line s = .brk s') : s.index ≤ s'.index ∧ s'.index ≤ line.length := by
  unfold iflBody at h
  cases hr : rd line s.index with
  | none => rw [hr] at h; cases h
  | some c =>
    rw [hr] at h
    simp only [decr_succ] at h
    split at h
    · cases hp : iParseNextValue nameFlags line (s.index + 1) with
      | panic => rw [hp] at h; cases h
      | err e => rw [hp] at h; cases h
      | ok x =>
        obtain ⟨i, v⟩ := x
        have hb := iParseNextValue_index nameFlags line (s.index + 1) i v hp
        have hb2 := hb.2 (by omega)
        rw [hp] at h
        cases v with
        | none => cases h; simp only; omega
        | some w =>
          simp only at h
          split at h
          · cases h
          · cases h; simp only; omega
    · split at h
      · cases h; simp only; omega
      · cases h

theorem iocBody_panic_iff (line v : Str) (s : IOC) :
    iocBody line v s = .panic ↔ line.length ≤ s.index := by
  unfold iocBody
  cases hr : rd line s.index with
  | none => simpa using rd_none_iff.mp hr
  | some c =>
    have : ¬ line.length ≤ s.index := by
      intro hle; rw [rd_none_iff.mpr hle] at hr; cases hr
    simp only [this, iff_false]
    repeat' split
    all_goals simp

theorem iocBody_index (line v : Str) (s s' : IOC)
    (h : iocBody line v s = .next s' ∨ iocBody line v s = .brk s') : s'.index = s.index + 1 := by
  unfold iocBody at h
  cases hr : rd line s.index with
  | none => rw [hr] at h; rcases h with h | h <;> cases h
  | some c =>
    rw [hr] at h
    simp only at h
    repeat' split at h
    all_goals (rcases h with h | h <;> first | (cases h; rfl) | cases h)

theorem ippBody_panic_iff (line : Str) (s : IPP) :
    ippBody line s = .panic ↔ line.length ≤ s.index := by
  unfold ippBody
  cases hr : rd line s.index with
  | none => simpa using rd_none_iff.mp hr
  | some c =>
    have : ¬ line.length ≤ s.index := by
      intro hle; rw [rd_none_iff.mpr hle] at hr; cases hr
    simp only [this, iff_false]
    repeat' split
    all_goals simp

theorem ippBody_index (line : Str) (s s' : IPP)
    (h : ippBody line s = .next s' ∨ ippBody line s = .brk s') : s'.index = s.index + 1 := by
  unfold ippBody at h
  cases hr : rd line s.index with
  | none => rw [hr] at h; rcases h with h | h <;> cases h
  | some c =>
    rw [hr] at h
    simp only at h
    repeat' split at h
    all_goals (rcases h with h | h <;> first | (cases h; rfl) | cases h)

end Duck
