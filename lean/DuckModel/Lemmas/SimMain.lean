/-
  Helper lemmas for the C04 simulation theorem — part 9: the induction on the fuel of the tree
  interpreter and the whole-program statement.
-/
import DuckModel.Lemmas.SimLoops

namespace Duck
open Duck.Spec Duck.Generated

theorem sim_all (is : List Instruction) :
    ∀ n, StmtSim is n ∧ BlockSim is n ∧ ElifsSim is n ∧ ForSim is n := by
  intro n
  induction n using Nat.strongRecOn with
  | ind n ih =>
    cases n with
    | zero =>
      refine ⟨?_, ?_, ?_, ?_⟩
      · intro st lo s t t' _ _ _ _ _ _ hex
        simp [execStmt] at hex
      · intro b lo s t t' _ _ _ _ _ _ hex
        simp [execBlock] at hex
      · intro es kwElse elseBody kwEnd lo pos stop elses j own K s t t' _ _ _ _ _ _ _ _ _ _ _ _ _ _ _ _ _
          _ _ _ _ _ hex
        simp [execElifs] at hex
      · intro kw x handle hn body kwEnd lo own K L items s t t' _ _ _ _ _ _ _ _ _ _ _ _ _ _ _ _ _ _ _ hex
        simp [execFor] at hex
    | succ fuel =>
      obtain ⟨hS, hB, hE, hF⟩ := ih fuel (Nat.lt_succ_self fuel)
      refine ⟨?_, block_step is fuel hS hB, elifs_step is fuel hB hE, for_step is fuel hB hF⟩
      intro st
      cases st with
      | line l => exact stmt_line is fuel l
      | ifChain kwIf cond body elifs kwElse elseBody kwEnd =>
        exact stmt_if is fuel hB hE kwIf cond body elifs kwElse elseBody kwEnd
      | whileLoop kw cond body kwEnd => exact stmt_while is fuel hB kw cond body kwEnd (hS _)
      | forIn kw x handle body kwEnd =>
        exact stmt_for is fuel (fun m hm => ⟨(ih m hm).2.1, (ih m hm).2.2.2⟩) kw x handle body kwEnd
      | fnDef kw sc name body kwEnd =>
        intro lo s t t' _ hs
        simp [Stmt.simple] at hs
      | ret kw v =>
        intro lo s t t' _ hs
        simp [Stmt.simple] at hs

theorem cacheOK_init (is : List Instruction) : CacheOK is {} :=
  ⟨fun l m h => by simp [KV.get] at h, fun l m h => by simp [KV.get] at h,
    fun l m h => by simp [KV.get] at h⟩

theorem rel_init (vars : Vars) : Rel {} { vars := vars, sdk := {} } :=
  ⟨rfl, rfl, rfl, rfl, rfl, rfl, fun k l h => by simp [KV.get] at h⟩

/-- the simulation theorem for whole programs of the simple fragment -/
theorem sim_program (b : Block) (vars : Vars) (fuelT : Nat) (t' : TState)
    (hwf : b.wf = true) (hs : b.simple = true)
    (h : execBlock (program b) fuelT b { vars := vars, sdk := {} } = .normal t') :
    ∃ fuelM rs, interpRun fuelM (program b) vars {} = (rs, .reachedEnd) ∧
      rs.vars = t'.vars ∧ rs.st.emitted = t'.sdk.emitted ∧ rs.st.handles = t'.sdk.handles := by
  obtain ⟨s', ⟨n, hsteps⟩, hcore, _, _, _⟩ :=
    (sim_all (program b) fuelT).2.1 b 0 {} { vars := vars, sdk := {} } t' hwf hs (At.program b)
      (cacheOK_init _) (rel_init vars) (fun e he => by simp at he) h
  refine ⟨n + 1, ⟨0 + b.flatten.length, 0 + n + 1, t'.vars, s'⟩, ?_, rfl, hcore.rel.emitted,
    hcore.rel.handles⟩
  unfold interpRun run
  rw [hsteps (evalInstrsF (n + 1)) 1 0, runLoop_succ]
  have hnone : (program b)[0 + b.flatten.length]? = none := by
    apply List.getElem?_eq_none
    rw [length_program]
    omega
  unfold runStep
  simp only [Bool.false_eq_true, if_false, hnone]

end Duck

/-! ### sub-fragments (the stages of the proof) -/

namespace Duck.Spec

mutual
  /-- no for/in loop anywhere -/
  def Stmt.noFor : Stmt → Bool
    | .line _ => true
    | .ifChain _ _ body elifs _ elseBody _ => body.noFor && elifs.noFor && elseBody.noFor
    | .whileLoop _ _ body _ => body.noFor
    | .forIn _ _ _ _ _ => false
    | .fnDef _ _ _ body _ => body.noFor
    | .ret _ _ => true
  def Block.noFor : Block → Bool
    | .nil => true
    | .cons s rest => s.noFor && rest.noFor
  def Elifs.noFor : Elifs → Bool
    | .nil => true
    | .cons _ _ body rest => body.noFor && rest.noFor
end

mutual
  /-- no loop anywhere: if chains and straight lines only -/
  def Stmt.noLoop : Stmt → Bool
    | .line _ => true
    | .ifChain _ _ body elifs _ elseBody _ => body.noLoop && elifs.noLoop && elseBody.noLoop
    | .whileLoop _ _ _ _ => false
    | .forIn _ _ _ _ _ => false
    | .fnDef _ _ _ body _ => body.noLoop
    | .ret _ _ => true
  def Block.noLoop : Block → Bool
    | .nil => true
    | .cons s rest => s.noLoop && rest.noLoop
  def Elifs.noLoop : Elifs → Bool
    | .nil => true
    | .cons _ _ body rest => body.noLoop && rest.noLoop
end

/-- a block of straight-line statements -/
def Block.onlyLines : Block → Bool
  | .nil => true
  | .cons (.line _) rest => rest.onlyLines
  | .cons _ _ => false

end Duck.Spec
