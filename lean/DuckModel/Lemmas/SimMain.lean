/-
  Helper lemmas for the C04 simulation theorem — part 9: the induction on the fuel of the tree
  interpreter and the whole-program statement.
-/
import DuckModel.Lemmas.SimLoops

namespace Duck
open Duck.Spec Duck.Generated

theorem sim_all (is : List Instruction) :
    ∀ n, StmtSim is n ∧ BlockSim is n ∧ ElifsSim is n ∧ ForSim is n := by
  intro n
  induction n using Nat.strongRecOn with
  | ind n ih =>
    cases n with
    | zero =>
      refine ⟨?_, ?_, ?_, ?_⟩
      · intro st lo s t t' _ _ _ _ _ _ _ hex
        simp [execStmt] at hex
      · intro b lo s t t' _ _ _ _ _ _ _ hex
        simp [execBlock] at hex
      · intro es kwElse elseBody kwEnd lo pos stop elses j own K s t t' _ _ _ _ _ _ _ _ _ _ _ _ _ _ _ _ _
          _ _ _ _ _ _ hex
        simp [execElifs] at hex
      · intro kw x handle hn body kwEnd lo own K L items s t t' _ _ _ _ _ _ _ _ _ _ _ _ _ _ _ _ _ _ _ _ hex
        simp [execFor] at hex
    | succ fuel =>
      obtain ⟨hS, hB, hE, hF⟩ := ih fuel (Nat.lt_succ_self fuel)
      refine ⟨?_, block_step is fuel hS hB, elifs_step is fuel hB hE, for_step is fuel hB hF⟩
      intro st
      cases st with
      | line l => exact stmt_line is fuel l
      | ifChain kwIf cond body elifs kwElse elseBody kwEnd =>
        exact stmt_if is fuel hB hE kwIf cond body elifs kwElse elseBody kwEnd
      | whileLoop kw cond body kwEnd => exact stmt_while is fuel hB kw cond body kwEnd (hS _)
      | forIn kw x handle body kwEnd =>
        exact stmt_for is fuel (fun m hm => ⟨(ih m hm).2.1, (ih m hm).2.2.2⟩) kw x handle body kwEnd
      | fnDef kw sc name body kwEnd =>
        intro lo s t t' _ hs
        simp [Stmt.simple2] at hs
      | ret kw v =>
        intro lo s t t' _ hs
        simp [Stmt.simple2] at hs

theorem cacheOK_init (is : List Instruction) : CacheOK is {} :=
  ⟨fun l m h => by simp [KV.get] at h, fun l m h => by simp [KV.get] at h,
    fun l m h => by simp [KV.get] at h⟩

theorem rel_init (vars : Vars) : Rel {} { vars := vars, sdk := {} } :=
  ⟨rfl, rfl, rfl, rfl, rfl, rfl, fun k l h => by simp [KV.get] at h⟩

/-- the simulation theorem for whole programs of the simple2 fragment whose conditions have safe
    bound arguments throughout the tree run -/
theorem sim_program2 (b : Block) (vars : Vars) (fuelT : Nat) (t' : TState)
    (hwf : b.wf = true) (hs : b.simple2 = true) (hsafe : CondArgsSafe fuelT b vars)
    (h : execBlock (program b) fuelT b { vars := vars, sdk := {} } = .normal t') :
    ∃ fuelM rs, interpRun fuelM (program b) vars {} = (rs, .reachedEnd) ∧
      rs.vars = t'.vars ∧ rs.st.emitted = t'.sdk.emitted ∧ rs.st.handles = t'.sdk.handles := by
  obtain ⟨s', ⟨n, hsteps⟩, hcore, _, _, _⟩ :=
    (sim_all (program b) fuelT).2.1 b 0 {} { vars := vars, sdk := {} } t' hwf hs (At.program b)
      (cacheOK_init _) (rel_init vars) (fun e he => by simp at he) hsafe h
  refine ⟨n + 3, ⟨0 + b.flatten.length, 0 + n + 1, t'.vars, s'⟩, ?_, rfl, hcore.rel.emitted,
    hcore.rel.handles⟩
  unfold interpRun run
  rw [hsteps (n + 3) 3 0 (by omega), runLoop_succ]
  have hnone : (program b)[0 + b.flatten.length]? = none := by
    apply List.getElem?_eq_none
    rw [length_program]
    omega
  unfold runStep
  simp only [Bool.false_eq_true, if_false, hnone]

/-! ### programs of the simple fragment: every condition is a value condition, nothing to check -/

theorem safe_of_simple (is : List Instruction) :
    ∀ n, (∀ st t, Stmt.simple st = true → safeStmt is n st t = true) ∧
      (∀ b t, Block.simple b = true → safeBlock is n b t = true) ∧
      (∀ es kwElse elseBody t, Elifs.simple es = true → Block.simple elseBody = true →
        safeElifs is n es kwElse elseBody t = true) ∧
      (∀ x items body t, Block.simple body = true → safeFor is n x items body t = true) := by
  intro n
  induction n with
  | zero => exact ⟨fun _ _ _ => rfl, fun _ _ _ => rfl, fun _ _ _ _ _ _ => rfl, fun _ _ _ _ _ => rfl⟩
  | succ n ih =>
    obtain ⟨hS, hB, hE, hF⟩ := ih
    refine ⟨?_, ?_, ?_, ?_⟩
    · intro st t hs
      cases st with
      | line l => rfl
      | ifChain kwIf cond body elifs kwElse elseBody kwEnd =>
        simp only [Stmt.simple, Bool.and_eq_true] at hs
        simp only [safeStmt, Bool.and_eq_true]
        refine ⟨condArgsSafe_of_simple t.vars hs.1.1.1, ?_⟩
        cases evalCond is n cond t with
        | none => rfl
        | some pr =>
          obtain ⟨bv, t1⟩ := pr
          cases bv with
          | true => exact hB body t1 hs.1.1.2
          | false => exact hE elifs kwElse elseBody t1 hs.1.2 hs.2
      | whileLoop kw cond body kwEnd =>
        have hs0 := hs
        simp only [Stmt.simple, Bool.and_eq_true] at hs
        simp only [safeStmt, Bool.and_eq_true]
        refine ⟨condArgsSafe_of_simple t.vars hs.1, ?_⟩
        cases evalCond is n cond t with
        | none => rfl
        | some pr =>
          obtain ⟨bv, t1⟩ := pr
          cases bv with
          | false => rfl
          | true =>
            simp only [Bool.and_eq_true]
            refine ⟨hB body t1 hs.2, ?_⟩
            cases execBlock is n body t1 with
            | normal t2 => exact hS _ t2 hs0
            | _ => rfl
      | forIn kw x handle body kwEnd =>
        simp only [Stmt.simple, Bool.and_eq_true] at hs
        simp only [safeStmt]
        split
        · exact hF _ _ body t hs.1.2
        · rfl
      | fnDef kw sc name body kwEnd => simp [Stmt.simple] at hs
      | ret kw v => simp [Stmt.simple] at hs
    · intro b t hs
      cases b with
      | nil => rfl
      | cons st rest =>
        simp only [Block.simple, Bool.and_eq_true] at hs
        simp only [safeBlock, Bool.and_eq_true]
        refine ⟨hS st t hs.1, ?_⟩
        cases execStmt is n st t with
        | normal t1 => exact hB rest t1 hs.2
        | _ => rfl
    · intro es kwElse elseBody t hs hes
      cases es with
      | nil =>
        simp only [safeElifs]
        split
        · exact hB elseBody t hes
        · rfl
      | cons kw cond body rest =>
        simp only [Elifs.simple, Bool.and_eq_true] at hs
        simp only [safeElifs, Bool.and_eq_true]
        refine ⟨condArgsSafe_of_simple t.vars hs.1.1, ?_⟩
        cases evalCond is n cond t with
        | none => rfl
        | some pr =>
          obtain ⟨bv, t1⟩ := pr
          cases bv with
          | true => exact hB body t1 hs.1.2
          | false => exact hE rest kwElse elseBody t1 hs.2 hes
    · intro x items body t hs
      cases items with
      | nil => rfl
      | cons v rest =>
        simp only [safeFor, Bool.and_eq_true]
        refine ⟨hB body _ hs, ?_⟩
        cases execBlock is n body { t with vars := t.vars.set x v } with
        | normal t1 => exact hF x rest body t1 hs
        | _ => rfl

/-- the simulation theorem for whole programs of the simple fragment -/
theorem sim_program (b : Block) (vars : Vars) (fuelT : Nat) (t' : TState)
    (hwf : b.wf = true) (hs : b.simple = true)
    (h : execBlock (program b) fuelT b { vars := vars, sdk := {} } = .normal t') :
    ∃ fuelM rs, interpRun fuelM (program b) vars {} = (rs, .reachedEnd) ∧
      rs.vars = t'.vars ∧ rs.st.emitted = t'.sdk.emitted ∧ rs.st.handles = t'.sdk.handles :=
  sim_program2 b vars fuelT t' hwf (Block.simple2_of_simple b hs)
    ((safe_of_simple (program b) fuelT).2.1 b _ hs) h

end Duck

/-! ### the nested evaluator's fuel: a crash deep inside is masked -/

namespace Duck
open Duck.Spec Duck.Reser

def nnt : List Str := ["not".toList, "not".toList, "true".toList]

/-- `not not true`, nested fuel 2: the inner fuel crash comes out as an ordinary error -/
theorem nnt_fuel2 : (evalCondition (evalInstrsF 2) [] nnt [] {}).1 = .error () := by
  have hres : resolveCmd {} "not".toList = some .notC := by decide
  have hin := evalCondition_cmd_low 1 (by omega) ([] ++ [condInstr "not".toList ["not".toList, "true".toList]])
    "not".toList ["true".toList] [] {} .notC (by decide) (by decide) (by decide) hres
  generalize hR : evalCondition (evalInstrsF 1) ([] ++ [condInstr "not".toList ["not".toList, "true".toList]])
    ["not".toList, "true".toList] [] {} = R at hin
  obtain ⟨r0, v0, s0⟩ := R
  simp only at hin
  subst hin
  have hrun : runCmdF (evalInstrsF 1) ([] ++ [condInstr "not".toList ["not".toList, "true".toList]]) 3 .notC
      ["not".toList, "true".toList] none ([] : List Instruction).length [] {} = (errR, v0, s0) := by
    rw [runCmdF_not _ _ _ _ _ _ _ rfl, hR]; rfl
  have := evalCondition_cmd_error 1 [] "not".toList ["not".toList, "true".toList] [] {} .notC _ v0 s0
    (by decide) (by decide) (by decide) hres hrun
  show (evalCondition (evalInstrsF (1 + 1)) [] ("not".toList :: ["not".toList, "true".toList]) [] {}).1 = _
  rw [this]

theorem nnt_fuel3 : (evalCondition (evalInstrsF 3) [] nnt [] {}).1 = .ok true := by
  have hres : resolveCmd {} "not".toList = some .notC := by decide
  -- innermost: the value condition `true`
  have h0 : evalCondition (evalInstrsF 1)
      (([] ++ [condInstr "not".toList ["not".toList, "true".toList]]) ++
        [condInstr "not".toList ["true".toList]]) ["true".toList] [] {} =
      (condVal ["true".toList], [], {}) :=
    evalCondition_slice _ _ _ _ _ _ (by decide)
  have hv : condVal ["true".toList] = .ok true := by
    have : evalSlice ["true".toList] = .ok true := by rfl
    unfold condVal; rw [this]
  have hrun1 : runCmdF (evalInstrsF 1)
      (([] ++ [condInstr "not".toList ["not".toList, "true".toList]]) ++
        [condInstr "not".toList ["true".toList]]) 3 .notC ["true".toList] none
      ([] ++ [condInstr "not".toList ["not".toList, "true".toList]]).length [] {} =
      (.continue (some "false".toList), [], {}) := by
    rw [runCmdF_not _ _ _ _ _ _ _ rfl, h0, hv]; rfl
  have h1 := evalCondition_cmd_continue 0 ([] ++ [condInstr "not".toList ["not".toList, "true".toList]])
    "not".toList ["true".toList] [] {} .notC _ [] {} (by decide) (by decide) (by decide) hres hrun1
  have hrun2 : runCmdF (evalInstrsF 2) ([] ++ [condInstr "not".toList ["not".toList, "true".toList]]) 3
      .notC ["not".toList, "true".toList] none ([] : List Instruction).length [] {} =
      (.continue (some "true".toList), [], {}) := by
    rw [runCmdF_not _ _ _ _ _ _ _ rfl, h1]; rfl
  have h2 := evalCondition_cmd_continue 1 [] "not".toList ["not".toList, "true".toList] [] {} .notC _ [] {}
    (by decide) (by decide) (by decide) hres hrun2
  show (evalCondition (evalInstrsF (1 + 2)) [] ("not".toList :: ["not".toList, "true".toList]) [] {}).1 = _
  rw [h2]
  show Except.ok (isTrue (some "true".toList)) = Except.ok true
  have : isTrue (some "true".toList) = true := by decide
  rw [this]
end Duck

/-! ### sub-fragments (the stages of the proof) -/

namespace Duck.Spec

mutual
  /-- no for/in loop anywhere -/
  def Stmt.noFor : Stmt → Bool
    | .line _ => true
    | .ifChain _ _ body elifs _ elseBody _ => body.noFor && elifs.noFor && elseBody.noFor
    | .whileLoop _ _ body _ => body.noFor
    | .forIn _ _ _ _ _ => false
    | .fnDef _ _ _ body _ => body.noFor
    | .ret _ _ => true
  def Block.noFor : Block → Bool
    | .nil => true
    | .cons s rest => s.noFor && rest.noFor
  def Elifs.noFor : Elifs → Bool
    | .nil => true
    | .cons _ _ body rest => body.noFor && rest.noFor
end

mutual
  /-- no loop anywhere: if chains and straight lines only -/
  def Stmt.noLoop : Stmt → Bool
    | .line _ => true
    | .ifChain _ _ body elifs _ elseBody _ => body.noLoop && elifs.noLoop && elseBody.noLoop
    | .whileLoop _ _ _ _ => false
    | .forIn _ _ _ _ _ => false
    | .fnDef _ _ _ body _ => body.noLoop
    | .ret _ _ => true
  def Block.noLoop : Block → Bool
    | .nil => true
    | .cons s rest => s.noLoop && rest.noLoop
  def Elifs.noLoop : Elifs → Bool
    | .nil => true
    | .cons _ _ body rest => body.noLoop && rest.noLoop
end

/-- a block of straight-line statements -/
def Block.onlyLines : Block → Bool
  | .nil => true
  | .cons (.line _) rest => rest.onlyLines
  | .cons _ _ => false

end Duck.Spec
