/-
  Lemmas about `findLabel`, `findOutputAndCommand`, `parseCommandLine` on rendered lines.
-/
import DuckModel.Lemmas.ArgLemmas

namespace Duck
open Duck.Spec

/-! ### names -/

theorem nameOK_tok_name {n : Str} (h : NameOK n) : ∀ x ∈ n, TokChar nameFlags x := by
  intro x hx
  obtain ⟨a, b, c⟩ := h.2.1 x hx
  exact ⟨a, b, c, by simp [nameFlags]⟩

theorem nameOK_tok_output {n : Str} (h : NameOK n) (he : NoEq n) :
    ∀ x ∈ n, TokChar outputFlags x := by
  intro x hx
  obtain ⟨a, b, c⟩ := h.2.1 x hx
  exact ⟨a, b, c, fun _ => he x hx⟩

theorem Bnd.mono {t : Str} (h : Bnd false t) : Bnd true t := by
  cases h with
  | nil => exact Bnd.nil
  | space t => exact Bnd.space t
  | hash t => exact Bnd.hash t
  | equals t h => exact absurd h (by simp)

theorem parseNextValue_name (n tail : Str) (h : NameOK n) (hb : Bnd false tail) :
    parseNextValue nameFlags (n ++ tail) = .ok (afterTok tail, some n) :=
  parseNextValue_tok nameFlags n tail h.1 (nameOK_tok_name h) h.2.2 hb

theorem parseNextValue_output (n tail : Str) (h : NameOK n) (he : NoEq n) (hb : Bnd true tail) :
    parseNextValue outputFlags (n ++ tail) = .ok (afterTok tail, some n) :=
  parseNextValue_tok outputFlags n tail h.1 (nameOK_tok_output h he) h.2.2 hb

/-- first character of a name -/
theorem nameOK_head {n : Str} (h : NameOK n) :
    ∃ c t, n = c :: t ∧ isWs c = false ∧ c ≠ '#' ∧ c ≠ '\\' ∧ c ≠ '"' ∧ c ≠ ' ' := by
  obtain ⟨hne, hall, hq⟩ := h
  cases n with
  | nil => exact absurd rfl hne
  | cons c t =>
    obtain ⟨a, b, d⟩ := hall c (by simp)
    exact ⟨c, t, rfl, a, b, d, by simpa using hq, (isWs_false_ne a).1⟩

/-! ### findLabel -/

theorem findLabel_label (n tail : Str) (h : NameOK n) (hb : Bnd false tail) :
    findLabel (':' :: (n ++ tail)) = .ok (afterTok tail, some (':' :: n)) := by
  rw [findLabel]
  have hne : n.isEmpty = false := by
    cases n with
    | nil => exact absurd rfl h.1
    | cons _ _ => rfl
  simp [parseNextValue_name n tail h hb, hne]

theorem findLabel_none (c : Char) (rest : Str) (h1 : c ≠ ':') (h2 : c ≠ ' ') :
    findLabel (c :: rest) = .ok (c :: rest, none) := by
  rw [findLabel]; simp [h1, h2]

/-! ### skipToEquals -/

theorem skipToEquals_spaces (k : Nat) (l : Str) : skipToEquals (spaces k ++ l) = skipToEquals l := by
  induction k with
  | zero => simp [spaces]
  | succ k ih => rw [spaces_succ, List.cons_append, skipToEquals]; simpa using ih

theorem skipToEquals_eq (l : Str) : skipToEquals ('=' :: l) = (true, l) := by
  simp [skipToEquals]

/-- the next non-space character is not `=` -/
def NoEqAhead (l : Str) : Prop := (skipToEquals l).1 = false

theorem skipToEquals_of_noEq {l : Str} (h : NoEqAhead l) :
    skipToEquals l = (false, (skipToEquals l).2) := by
  unfold NoEqAhead at h
  rw [← h]

theorem noEqAhead_nil : NoEqAhead [] := by simp [NoEqAhead, skipToEquals]

theorem noEqAhead_cons (c : Char) (l : Str) (h1 : c ≠ ' ') (h2 : c ≠ '=') : NoEqAhead (c :: l) := by
  simp [NoEqAhead, skipToEquals, h1, h2]

theorem noEqAhead_space {l : Str} (h : NoEqAhead l) : NoEqAhead (' ' :: l) := by
  unfold NoEqAhead at *
  rw [skipToEquals]; simpa using h

theorem noEqAhead_spaces (k : Nat) {l : Str} (h : NoEqAhead l) : NoEqAhead (spaces k ++ l) := by
  unfold NoEqAhead at *
  rw [skipToEquals_spaces]; exact h

theorem noEqAhead_eol {t : Str} (h : EolTail t) : NoEqAhead t := by
  induction h with
  | nil => exact noEqAhead_nil
  | hash t => exact noEqAhead_cons _ _ (by decide) (by decide)
  | space _ ih => exact noEqAhead_space ih

theorem renderArg_head (q : Bool) (a : Str) :
    ∃ c r, renderArg q a = c :: r ∧ c ≠ ' ' ∧ c ≠ '=' ∧ isWs c = false := by
  unfold renderArg
  split
  · exact ⟨'"', _, rfl, by decide, by decide, by decide⟩
  · rename_i hcond
    have hcu : canUnquote a = true := by
      cases hq : canUnquote a <;> simp [hq] at hcond ⊢
    obtain ⟨hne, _, hfirst, _, hq, heq⟩ := (canUnquote_iff a).mp hcu
    cases a with
    | nil => exact absurd rfl hne
    | cons c t =>
      have hws : isWs c = false := hfirst c rfl
      obtain ⟨w1, w2, w3, w4⟩ := isWs_false_ne hws
      rw [escape_cons]
      by_cases h1 : c = '\\'
      · subst h1
        exact ⟨'\\', '\\' :: escape t, by simp [escChar], by decide, by decide, by decide⟩
      · have hq' : c ≠ '"' := by simpa using hq
        have heq' : c ≠ '=' := by simpa using heq
        refine ⟨c, escape t, by simp [escChar, h1, hq', w2, w3, w4], w1, heq', hws⟩

theorem noEqAhead_renderArgs (ch : List (Nat × Bool)) (k : Nat) (as : List Str) {t : Str}
    (h : EolTail t) : NoEqAhead (renderArgs ch k as ++ t) := by
  cases as with
  | nil => simpa [renderArgs_nil] using noEqAhead_eol h
  | cons a as =>
    rw [renderArgs_cons]
    obtain ⟨c, r, hr, h1, h2, _⟩ := renderArg_head (argChoice ch k).2 a
    rw [hr]
    simp only [List.cons_append, List.append_assoc]
    exact noEqAhead_space (noEqAhead_spaces _ (noEqAhead_cons c _ h1 h2))

/-! ### findOutputAndCommand -/

theorem findOAC_eol {t : Str} (h : EolTail t) :
    findOutputAndCommand t = .ok ([], none, none) := by
  unfold findOutputAndCommand
  rw [parseNextValue_eol _ h]

theorem bnd_spaces_eq (a : Nat) (x : Str) : Bnd true (spaces a ++ '=' :: x) := by
  cases a with
  | zero => exact Bnd.equals x rfl
  | succ a => rw [spaces_succ]; exact Bnd.space _

theorem afterTok_spaces_eq (a : Nat) (x : Str) :
    afterTok (spaces a ++ '=' :: x) = spaces a ++ '=' :: x := by
  cases a with
  | zero => simp [spaces, afterTok]
  | succ a => rw [spaces_succ]; exact afterTok_space _

theorem findOAC_output_only (m : Nat) (o : Str) (a : Nat) {t : Str} (ho : NameOK o) (he : NoEq o)
    (ht : EolTail t) :
    findOutputAndCommand (spaces m ++ (o ++ (spaces a ++ '=' :: t))) = .ok (t, some o, none) := by
  unfold findOutputAndCommand
  rw [parseNextValue_spaces, parseNextValue_output o _ ho he (bnd_spaces_eq a t)]
  simp only [afterTok_spaces_eq, skipToEquals_spaces, skipToEquals_eq]
  rw [parseNextValue_eol _ ht]

theorem findOAC_output_cmd (m : Nat) (o : Str) (a b : Nat) (c tail : Str) (ho : NameOK o)
    (he : NoEq o) (hc : NameOK c) (hb : Bnd false tail) :
    findOutputAndCommand (spaces m ++ (o ++ (spaces a ++ '=' :: (spaces b ++ (c ++ tail))))) =
      .ok (afterTok tail, some o, some c) := by
  unfold findOutputAndCommand
  rw [parseNextValue_spaces, parseNextValue_output o _ ho he (bnd_spaces_eq a _)]
  simp only [afterTok_spaces_eq, skipToEquals_spaces, skipToEquals_eq]
  rw [parseNextValue_spaces, parseNextValue_name c tail hc hb]

theorem findOAC_cmd (m : Nat) (c tail : Str) (hc : NameOK c) (he : NoEq c) (hb : Bnd false tail)
    (hn : NoEqAhead (afterTok tail)) :
    findOutputAndCommand (spaces m ++ (c ++ tail)) = .ok (afterTok tail, none, some c) := by
  unfold findOutputAndCommand
  rw [parseNextValue_spaces, parseNextValue_output c tail hc he hb.mono]
  simp only []
  rw [skipToEquals_of_noEq hn]

/-! ### parseArguments -/

theorem parseArguments_eol {t : Str} (h : EolTail t) : parseArguments t = .ok none := by
  unfold parseArguments parseArgumentsWith
  rw [parseArgsLoop_none false t [] (parseNextValue_eol _ h)]

theorem parseArguments_of_loop (l : Str) (args : Option (List Str)) (hargs : args ≠ some [])
    (h : parseArgsLoop false l = .ok (args.getD [])) : parseArguments l = .ok args := by
  unfold parseArguments parseArgumentsWith
  rw [h]
  cases args with
  | none => rfl
  | some as =>
    cases as with
    | nil => exact absurd rfl hargs
    | cons a as => rfl

theorem parseArguments_render (ch : List (Nat × Bool)) (args : Option (List Str)) {t : Str}
    (hargs : args ≠ some []) (ht : EolTail t) :
    parseArguments (renderArgs ch 0 (args.getD []) ++ t) = .ok args :=
  parseArguments_of_loop _ args hargs (parseArgsLoop_render ch _ 0 t ht)

theorem parseArguments_afterTok_render (ch : List (Nat × Bool)) (args : Option (List Str)) {t : Str}
    (hargs : args ≠ some []) (ht : EolTail t) :
    parseArguments (afterTok (renderArgs ch 0 (args.getD []) ++ t)) = .ok args := by
  obtain ⟨t', ht', heq⟩ := afterTok_renderArgs ch 0 (args.getD []) ht
  rw [heq]
  exact parseArguments_render ch args hargs ht'

theorem noEqAhead_afterTok_renderArgs (ch : List (Nat × Bool)) (k : Nat) (as : List Str) {t : Str}
    (h : EolTail t) : NoEqAhead (afterTok (renderArgs ch k as ++ t)) := by
  obtain ⟨t', ht', heq⟩ := afterTok_renderArgs ch k as h
  rw [heq]
  exact noEqAhead_renderArgs ch k as ht'

/-! ### parseCommandLine -/

theorem parseCommandLine_eq (l : Str) (h : l ≠ []) :
    parseCommandLine l =
      match findLabel l with
      | .error e => .error e
      | .ok (r1, label) =>
        match findOutputAndCommand r1 with
        | .error e => .error e
        | .ok (r2, output, command) =>
          match parseArguments r2 with
          | .error e => .error e
          | .ok args =>
            if label.isNone ∧ output.isNone ∧ command.isNone then .ok .empty
            else .ok (.script { label := label, output := output, command := command, args := args }) := by
  cases l with
  | nil => exact absurd rfl h
  | cons c t => rfl

/-- the text of the label with the spaces that separate it from what follows -/
def lblPart (label : Option Str) (al : Nat) : Str :=
  match label with
  | some l => l ++ spaces (al + 1)
  | none => []

/-- the text of the output variable with its `=` -/
def outPart (output : Option Str) (a b : Nat) : Str :=
  match output with
  | some o => o ++ (spaces a ++ '=' :: spaces b)
  | none => []

/-- label condition of `InstrOK` -/
def LabelOK (label : Option Str) : Prop := ∀ l, label = some l → ∃ n, l = ':' :: n ∧ NameOK n

theorem findLabel_lblPart (label : Option Str) (al : Nat) (x : Char) (r : Str) (hl : LabelOK label)
    (hx : label = none → x ≠ ':' ∧ x ≠ ' ') :
    ∃ m, findLabel (lblPart label al ++ x :: r) = .ok (spaces m ++ x :: r, label) := by
  cases label with
  | none =>
    obtain ⟨h1, h2⟩ := hx rfl
    exact ⟨0, by simpa [lblPart, spaces] using findLabel_none x r h1 h2⟩
  | some l =>
    obtain ⟨n, rfl, hn⟩ := hl l rfl
    refine ⟨al + 1, ?_⟩
    have := findLabel_label n (spaces (al + 1) ++ x :: r) hn (by rw [spaces_succ]; exact Bnd.space _)
    rw [spaces_succ] at this ⊢
    simpa [lblPart, afterTok_space, spaces_succ] using this

/-- label only -/
theorem parseCommandLine_label_only (n : Str) {t : Str} (hn : NameOK n) (ht : EolTail t) :
    parseCommandLine (':' :: (n ++ t)) =
      .ok (.script { label := some (':' :: n), output := none, command := none, args := none }) := by
  rw [parseCommandLine_eq _ (by simp), findLabel_label n t hn ht.bnd]
  simp only []
  rw [findOAC_eol ht.afterTok]
  simp only []
  rw [parseArguments_eol EolTail.nil]
  simp

/-- output variable without a command: `[label] out =` -/
theorem parseCommandLine_output_only (label : Option Str) (al : Nat) (o : Str) (a : Nat) {t : Str}
    (hl : LabelOK label) (ho : NameOK o) (he : NoEq o) (hf : label = none → FirstOK o)
    (ht : EolTail t) :
    parseCommandLine (lblPart label al ++ (o ++ (spaces a ++ '=' :: t))) =
      .ok (.script { label := label, output := some o, command := none, args := none }) := by
  obtain ⟨x, o', rfl, hx⟩ := nameOK_head ho
  obtain ⟨m, hm⟩ := findLabel_lblPart label al x (o' ++ (spaces a ++ '=' :: t)) hl
    (fun h => ⟨by simpa [FirstOK] using (hf h).1, hx.2.2.2.2⟩)
  rw [parseCommandLine_eq _ (by simp), List.cons_append, hm]
  simp only []
  rw [← List.cons_append, findOAC_output_only m (x :: o') a ho he ht]
  simp only []
  rw [parseArguments_eol ht]
  simp

/-- a command (with or without output variable) and its arguments -/
theorem parseCommandLine_cmd (label : Option Str) (al : Nat) (output : Option Str) (a b : Nat)
    (c : Str) (chs : List (Nat × Bool)) (args : Option (List Str)) {t : Str}
    (hl : LabelOK label)
    (ho : ∀ o, output = some o → NameOK o ∧ NoEq o ∧ (label = none → FirstOK o))
    (hc : NameOK c ∧ (output = none → NoEq c ∧ (label = none → FirstOK c)))
    (hargs : args ≠ some []) (ht : EolTail t) :
    parseCommandLine (lblPart label al ++
        (outPart output a b ++ (c ++ (renderArgs chs 0 (args.getD []) ++ t)))) =
      .ok (.script { label := label, output := output, command := some c, args := args }) := by
  have hbnd := renderArgs_bnd chs 0 (args.getD []) ht
  cases output with
  | some o =>
    obtain ⟨ho1, ho2, ho3⟩ := ho o rfl
    obtain ⟨x, o', rfl, hx⟩ := nameOK_head ho1
    obtain ⟨m, hm⟩ := findLabel_lblPart label al x
      (o' ++ (spaces a ++ '=' :: (spaces b ++ (c ++ (renderArgs chs 0 (args.getD []) ++ t))))) hl
      (fun h => ⟨by simpa [FirstOK] using (ho3 h).1, hx.2.2.2.2⟩)
    have heq : lblPart label al ++ ((x :: o' ++ (spaces a ++ '=' :: spaces b)) ++
          (c ++ (renderArgs chs 0 (args.getD []) ++ t))) =
        lblPart label al ++ x :: (o' ++ (spaces a ++ '=' ::
          (spaces b ++ (c ++ (renderArgs chs 0 (args.getD []) ++ t))))) := by simp
    simp only [outPart]
    rw [heq, parseCommandLine_eq _ (by simp), hm]
    simp only []
    rw [← List.cons_append, findOAC_output_cmd m (x :: o') a b c _ ho1 ho2 hc.1 hbnd]
    simp only []
    rw [parseArguments_afterTok_render chs args hargs ht]
    simp
  | none =>
    obtain ⟨hc1, hc2⟩ := hc
    obtain ⟨hc2, hc3⟩ := hc2 rfl
    obtain ⟨x, c', rfl, hx⟩ := nameOK_head hc1
    obtain ⟨m, hm⟩ := findLabel_lblPart label al x
      (c' ++ (renderArgs chs 0 (args.getD []) ++ t)) hl
      (fun h => ⟨by simpa [FirstOK] using (hc3 h).1, hx.2.2.2.2⟩)
    simp only [outPart, List.nil_append]
    rw [List.cons_append, parseCommandLine_eq _ (by simp), hm]
    simp only []
    rw [← List.cons_append, findOAC_cmd m (x :: c') _ hc1 hc2 hbnd
      (noEqAhead_afterTok_renderArgs chs 0 _ ht)]
    simp only []
    rw [parseArguments_afterTok_render chs args hargs ht]
    simp

/-- general form: whatever follows the command is handed to `parseArguments` -/
theorem parseCommandLine_cmd_gen (label : Option Str) (al : Nat) (output : Option Str) (a b : Nat)
    (c tail : Str)
    (hl : LabelOK label)
    (ho : ∀ o, output = some o → NameOK o ∧ NoEq o ∧ (label = none → FirstOK o))
    (hc : NameOK c ∧ (output = none → NoEq c ∧ (label = none → FirstOK c)))
    (hb : Bnd false tail) (hn : NoEqAhead (afterTok tail)) :
    parseCommandLine (lblPart label al ++ (outPart output a b ++ (c ++ tail))) =
      match parseArguments (afterTok tail) with
      | .error e => .error e
      | .ok args =>
        .ok (.script { label := label, output := output, command := some c, args := args }) := by
  cases output with
  | some o =>
    obtain ⟨ho1, ho2, ho3⟩ := ho o rfl
    obtain ⟨x, o', rfl, hx⟩ := nameOK_head ho1
    obtain ⟨m, hm⟩ := findLabel_lblPart label al x
      (o' ++ (spaces a ++ '=' :: (spaces b ++ (c ++ tail)))) hl
      (fun h => ⟨by simpa [FirstOK] using (ho3 h).1, hx.2.2.2.2⟩)
    have heq : lblPart label al ++ ((x :: o' ++ (spaces a ++ '=' :: spaces b)) ++ (c ++ tail)) =
        lblPart label al ++ x :: (o' ++ (spaces a ++ '=' :: (spaces b ++ (c ++ tail)))) := by simp
    simp only [outPart]
    rw [heq, parseCommandLine_eq _ (by simp), hm]
    simp only []
    rw [← List.cons_append, findOAC_output_cmd m (x :: o') a b c _ ho1 ho2 hc.1 hb]
    simp only []
    cases parseArguments (afterTok tail) <;> simp
  | none =>
    obtain ⟨hc1, hc2⟩ := hc
    obtain ⟨hc2, hc3⟩ := hc2 rfl
    obtain ⟨x, c', rfl, hx⟩ := nameOK_head hc1
    obtain ⟨m, hm⟩ := findLabel_lblPart label al x (c' ++ tail) hl
      (fun h => ⟨by simpa [FirstOK] using (hc3 h).1, hx.2.2.2.2⟩)
    simp only [outPart, List.nil_append]
    rw [List.cons_append, parseCommandLine_eq _ (by simp), hm]
    simp only []
    rw [← List.cons_append, findOAC_cmd m (x :: c') _ hc1 hc2 hb hn]
    simp only []
    cases parseArguments (afterTok tail) <;> simp

/-! ### a malformed argument after well-formed ones -/

theorem parseArgsLoop_step_err (cac : Bool) (l r a : Str) (e : PErr)
    (h1 : parseNextValue (argFlags cac) l = .ok (r, some a)) (h2 : r.length < l.length)
    (h3 : parseArgsLoop cac r = .error e) : parseArgsLoop cac l = .error e := by
  rw [parseArgsLoop, h1]
  simp [h2, h3]

theorem renderArgs_space_bnd (ch : List (Nat × Bool)) (k : Nat) (as : List Str) (j : Str) :
    ∃ r, renderArgs ch k as ++ ' ' :: j = ' ' :: r := by
  cases as with
  | nil => exact ⟨j, by simp [renderArgs_nil]⟩
  | cons a as => rw [renderArgs_cons]; exact ⟨_, rfl⟩

theorem parseArgsLoop_render_err (ch : List (Nat × Bool)) (args : List Str) (j : Str) (e : PErr)
    (h : parseArgsLoop false (' ' :: j) = .error e) :
    ∀ k, parseArgsLoop false (renderArgs ch k args ++ ' ' :: j) = .error e := by
  induction args with
  | nil => intro k; simpa [renderArgs_nil] using h
  | cons a as ih =>
    intro k
    obtain ⟨r0, hr0⟩ := renderArgs_space_bnd ch (k + 1) as j
    obtain ⟨r, hr, hcase⟩ := parseNextValue_renderArg (argChoice ch k).2 a
      (renderArgs ch (k + 1) as ++ ' ' :: j) (by rw [hr0]; exact Bnd.space _)
    have hr' : r = renderArgs ch (k + 1) as ++ ' ' :: j := by
      rcases hcase with rfl | rfl
      · rfl
      · rw [hr0]; exact afterTok_space _
    subst hr'
    have heq : renderArgs ch k (a :: as) ++ ' ' :: j =
        spaces ((argChoice ch k).1 + 1) ++
          (renderArg (argChoice ch k).2 a ++ (renderArgs ch (k + 1) as ++ ' ' :: j)) := by
      simp [renderArgs]
    refine parseArgsLoop_step_err false _ _ a e ?_ ?_ (ih (k + 1))
    · rw [heq, parseNextValue_spaces]; exact hr
    · rw [heq]
      simp only [List.length_append, spaces, List.length_replicate]
      omega

theorem noEqAhead_renderArgs_junk (ch : List (Nat × Bool)) (k : Nat) (as : List Str) (j : Str)
    (h : NoEqAhead j) : NoEqAhead (renderArgs ch k as ++ j) := by
  cases as with
  | nil => simpa [renderArgs_nil] using h
  | cons a as =>
    rw [renderArgs_cons]
    obtain ⟨c, r, hr, h1, h2, _⟩ := renderArg_head (argChoice ch k).2 a
    rw [hr]
    simp only [List.cons_append, List.append_assoc]
    exact noEqAhead_space (noEqAhead_spaces _ (noEqAhead_cons c _ h1 h2))

/-- a command line whose well-formed arguments are followed by ` junk` fails with the error of
    the junk -/
theorem parseCommandLine_cmd_err (label : Option Str) (al : Nat) (output : Option Str) (a b : Nat)
    (c : Str) (chs : List (Nat × Bool)) (args : List Str) (j : Str) (e : PErr)
    (hl : LabelOK label)
    (ho : ∀ o, output = some o → NameOK o ∧ NoEq o ∧ (label = none → FirstOK o))
    (hc : NameOK c ∧ (output = none → NoEq c ∧ (label = none → FirstOK c)))
    (hj : NoEqAhead j) (he : parseArgsLoop false (' ' :: j) = .error e) :
    parseCommandLine (lblPart label al ++ (outPart output a b ++
        (c ++ (renderArgs chs 0 args ++ ' ' :: j)))) = .error e := by
  obtain ⟨r0, hr0⟩ := renderArgs_space_bnd chs 0 args j
  have hb : Bnd false (renderArgs chs 0 args ++ ' ' :: j) := by rw [hr0]; exact Bnd.space _
  have hat : afterTok (renderArgs chs 0 args ++ ' ' :: j) = renderArgs chs 0 args ++ ' ' :: j := by
    rw [hr0]; exact afterTok_space _
  rw [parseCommandLine_cmd_gen label al output a b c _ hl ho hc hb
    (by rw [hat]; exact noEqAhead_renderArgs_junk chs 0 args _ (noEqAhead_space hj))]
  rw [hat]
  unfold parseArguments parseArgumentsWith
  rw [parseArgsLoop_render_err chs args j e he 0]

end Duck
