/-
  `array_join` run from source, part 5: one call, uniformly in the instruction budget.
-/
import DuckModel.Lemmas.ScriptLoopArrayJoinCells

namespace Duck.ScriptRun
open Duck Duck.Alias Duck.Coll Duck.Spec Duck.Generated Duck.Reser

theorem aj_entry (depth fuel : Nat) (args : List Str) (vars : Vars) (st : ScriptSt) :
    runScriptCmdF depth fuel "array_join".toList args vars st =
      aliasRun handleOps 2 (scriptBody (bodySem fuel depth ajIs) (fun _ => false) fuel ajIs) jScope args vars st :=
  runScriptCmdF_entry depth fuel _ _ _ aj_findScript aj_parses args vars st

theorem aj_keys : jKey 1 = "scope::array_join::1".toList ∧ jKey 5 = "scope::array_join::5".toList ∧
    jKey 10 = "scope::array_join::10".toList ∧ jKey 6 = "scope::array_join::6".toList := by decide +kernel

theorem jString_ne_argKey (j : Nat) : jString ≠ argKey jScope j := by
  intro e
  have e' : jScope ++ "::string".toList = jScope ++ ("::argument::".toList ++ natToStr j) := e
  have := List.append_cancel_left e'
  simp at this

/-- the answer of `array_join a sep` run from source -/
def ajRes (t : Table) (a sep : Str) : CmdResult :=
  match tget t a with
  | some (.list l) => .continue (some (joinStr sep (l.map Item.render)))
  | _ => .error sMsg

def ajIsArr (t : Table) (a : Str) : Bool :=
  match tget t a with
  | some (.list _) => true
  | _ => false

/-- the if-call entries that stay on the if call stack -/
def ajPushed (t : Table) (a sep : Str) : List IfCall :=
  match tget t a with
  | some (.list []) => []
  | some (.list (_ :: _)) => (if sep = [] then [] else [ifEntry 10 15 jScope]) ++ [ifEntry 5 16 jScope]
  | _ => [ifEntry 1 3 jScope]

/-- what one call leaves -/
structure JCallPost (st : ScriptSt) (vars : Vars) (a sep : Str) (r : CmdResult × Vars × ScriptSt) : Prop where
  res : r.1 = ajRes st.coll.tbl a sep
  tbl : LookupEq r.2.2.coll.tbl st.coll.tbl
  frame : LoopFrame jScope (if ajIsArr st.coll.tbl a then 2 else 1)
    (if ajIsArr st.coll.tbl a then clear jScope (clear aieScope vars) else clear jScope vars)
    (ajPushed st.coll.tbl a sep) st r
  c1 : IfCacheOK r.2.2.ifMeta (jKey 1) 3
  c5 : IfCacheOK r.2.2.ifMeta (jKey 5) 16
  c10 : IfCacheOK r.2.2.ifMeta (jKey 10) 15
  c6 : CacheOK r.2.2.forMeta (jKey 6) 8

theorem aj_alias_post (st : ScriptSt) (vars : Vars) (a sep : Str) (rest : List Str)
    (hfree : tget st.coll.tbl (Coll.handleName st.coll.next) = none)
    (br : BodyResult) (vars' : Vars) (s' : ScriptSt) (alloc : Nat) (pushed : List IfCall)
    (hpost : JBodyPost (pubSt jScope (a :: sep :: rest) st) s' alloc pushed)
    (hres : resultOf br = ajRes st.coll.tbl a sep)
    (halloc : alloc + 1 = if ajIsArr st.coll.tbl a then 2 else 1)
    (hvars : clear jScope vars' = if ajIsArr st.coll.tbl a then clear jScope (clear aieScope vars) else clear jScope vars)
    (hpushed : pushed = ajPushed st.coll.tbl a sep) :
    JCallPost st vars a sep
      (resultOf br, clear jScope vars',
        { s' with coll := { tbl := tremove s'.coll.tbl (Coll.handleName st.coll.next), next := s'.coll.next },
                  ctx := st.ctx }) := by
  refine ⟨hres, ?_, ⟨hvars, ?_, rfl, ?_, hpost.forStack, hpost.inv.ifMeta, hpost.inv.forMeta, hpost.inv.endTable⟩,
    hpost.inv.c1, hpost.inv.c5, hpost.inv.c10, hpost.inv.c6⟩
  · intro k
    show tget (tremove s'.coll.tbl _) k = _
    rw [tget_tremove, hpost.tbl k]
    simp only [pubSt, tget_tinsert]
    by_cases e : k = Coll.handleName st.coll.next
    · simp [e, hfree]
    · simp [e]
  · show s'.coll.next = _
    rw [hpost.next, ← halloc]
    show st.coll.next + 1 + alloc = _
    omega
  · show s'.ifStack = _
    rw [hpost.ifStack, hpushed]; rfl

section call
variable (depth : Nat) (a sep : Str) (rest : List Str) (vars : Vars) (st : ScriptSt)
  (hfree : tget st.coll.tbl (Coll.handleName st.coll.next) = none)
  (hfree1 : tget st.coll.tbl (Coll.handleName (st.coll.next + 1)) = none)
  (hne : a ≠ Coll.handleName st.coll.next)
  (hok : ArgOK a = true)
  (hc1 : IfCacheOK st.ifMeta (jKey 1) 3) (hc5 : IfCacheOK st.ifMeta (jKey 5) 16)
  (hc10 : IfCacheOK st.ifMeta (jKey 10) 15) (hc6 : CacheOK st.forMeta (jKey 6) 8)
  (hstr : vars.get jString = none)
include hfree hfree1 hne hok hc1 hc5 hc10 hc6 hstr

theorem aj_pub_facts :
    Vars.get (pubVars jScope (a :: sep :: rest) vars st) jArg1 = some a ∧
    Vars.get (pubVars jScope (a :: sep :: rest) vars st) jArg2 = some sep ∧
    Vars.get (pubVars jScope (a :: sep :: rest) vars st) jString = none ∧
    tget (pubSt jScope (a :: sep :: rest) st).coll.tbl a = tget st.coll.tbl a ∧
    tget (pubSt jScope (a :: sep :: rest) st).coll.tbl
      (Coll.handleName (pubSt jScope (a :: sep :: rest) st).coll.next) = none ∧
    JInv (pubSt jScope (a :: sep :: rest) st) (pubSt jScope (a :: sep :: rest) st).ifMeta
      (pubSt jScope (a :: sep :: rest) st).forMeta (pubSt jScope (a :: sep :: rest) st).endTable := by
  have hS1 : Coll.handleName (st.coll.next + 1) ≠ Coll.handleName st.coll.next :=
    fun e => by have := Coll.handleName_inj e; omega
  refine ⟨?_, ?_, ?_, ?_, ?_, ⟨fun _ _ => rfl, fun _ _ => rfl, fun _ _ => rfl, hc1, hc5, hc10, hc6⟩⟩
  · rw [show jArg1 = argKey jScope 1 by decide, get_pubVars_arg]
    exact get_publishArgs_first jScope a (sep :: rest) 0 vars
  · rw [show jArg2 = argKey jScope 2 by decide, get_pubVars_arg]
    exact get_publishArgs_second jScope a sep rest 0 vars
  · unfold pubVars
    rw [get_set, if_neg (by decide), get_publishArgs_other jScope _ 0 vars jString jString_ne_argKey]; exact hstr
  · simp only [pubSt, tget_tinsert]; rw [if_neg hne]
  · show tget (tinsert st.coll.tbl _ _) (Coll.handleName (st.coll.next + 1)) = none
    rw [tget_tinsert, if_neg hS1, hfree1]

theorem aj_call_err (hnl : ∀ l, tget st.coll.tbl a ≠ some (.list l)) :
    ∃ r, (∀ k, runScriptCmdF (depth + 3) (k + 3 * arrLen st.coll.tbl a + 16) "array_join".toList
            (a :: sep :: rest) vars st = r) ∧
      JCallPost st vars a sep r := by
  obtain ⟨ha1, _, _, hTa, _, hinv⟩ := aj_pub_facts a sep rest vars st hfree hfree1 hne hok hc1 hc5 hc10 hc6 hstr
  have hnl' : ∀ l, tget (pubSt jScope (a :: sep :: rest) st).coll.tbl a ≠ some (.list l) := by
    intro l; rw [hTa]; exact hnl l
  have harr : ajIsArr st.coll.tbl a = false := by
    unfold ajIsArr
    cases hv : tget st.coll.tbl a with
    | none => rfl
    | some w => cases w with
      | list l => exact absurd hv (hnl l)
      | _ => rfl
  have hres : resultOf (.error sMsg) = ajRes st.coll.tbl a sep := by
    unfold ajRes
    cases hv : tget st.coll.tbl a with
    | none => rfl
    | some w => cases w with
      | list l => exact absurd hv (hnl l)
      | _ => rfl
  have hpushed : [ifEntry 1 3 jScope] = ajPushed st.coll.tbl a sep := by
    unfold ajPushed
    cases hv : tget st.coll.tbl a with
    | none => rfl
    | some w => cases w with
      | list l => exact absurd hv (hnl l)
      | _ => rfl
  have hpost := (aj_body_err 0 depth (pubSt jScope (a :: sep :: rest) st) (pubVars jScope (a :: sep :: rest) vars st)
    a hok rfl ha1 hinv hnl' 3 0 rfl).2
  refine ⟨_, ?_, aj_alias_post st vars a sep rest hfree (.error sMsg) _ _ 0 _ hpost hres
    (by rw [harr]; rfl) (by rw [harr]; exact clear_pubVars jScope (a :: sep :: rest) vars st) hpushed⟩
  intro k
  rw [aj_entry]
  obtain ⟨G, hG'⟩ : ∃ G, k + 3 * arrLen st.coll.tbl a + 16 = G + 2 + 2 := ⟨k + 3 * arrLen st.coll.tbl a + 12, by omega⟩
  rw [hG']
  exact aliasRun_handleOps_le 2 _ jScope (a :: sep :: rest) vars st (by simp) (by simp) _ _ _
    (aj_body_err G depth _ _ a hok rfl ha1 hinv hnl' (G + 2 + 2) (G + 1) (by omega)).1
    (by rw [clear_pubVars]; exact clear_length_le _ _)

theorem aj_call_empty (hv : tget st.coll.tbl a = some (.list [])) :
    ∃ r, (∀ k, runScriptCmdF (depth + 3) (k + 3 * arrLen st.coll.tbl a + 16) "array_join".toList
            (a :: sep :: rest) vars st = r) ∧
      JCallPost st vars a sep r := by
  obtain ⟨ha1, _, hstr', hTa, hfreeS, hinv⟩ := aj_pub_facts a sep rest vars st hfree hfree1 hne hok hc1 hc5 hc10 hc6 hstr
  have hT : tget (pubSt jScope (a :: sep :: rest) st).coll.tbl a = some (.list []) := by rw [hTa, hv]
  have harr : ajIsArr st.coll.tbl a = true := by unfold ajIsArr; rw [hv]
  have hclr : clear jScope (clear aieScope (pubVars jScope (a :: sep :: rest) vars st)) =
      clear jScope (clear aieScope vars) := by
    rw [clear_comm, clear_pubVars, clear_comm]
  have hpost := (aj_body_empty 0 depth (pubSt jScope (a :: sep :: rest) st) (pubVars jScope (a :: sep :: rest) vars st)
    a hok rfl ha1 hinv hfreeS hT 7 0 rfl).2
  refine ⟨_, ?_, aj_alias_post st vars a sep rest hfree
    (.finished (some ((Vars.get (pubVars jScope (a :: sep :: rest) vars st) jString).getD []))) _ _ 1 _ hpost
    (by rw [hstr']; unfold ajRes; rw [hv]; rfl) (by rw [harr]; rfl) (by rw [harr, hclr]; rfl)
    (by unfold ajPushed; rw [hv])⟩
  intro k
  rw [aj_entry]
  obtain ⟨G, hG'⟩ : ∃ G, k + 3 * arrLen st.coll.tbl a + 16 = G + 2 + 2 := ⟨k + 3 * arrLen st.coll.tbl a + 12, by omega⟩
  rw [hG']
  exact aliasRun_handleOps_le 2 _ jScope (a :: sep :: rest) vars st (by simp) (by simp) _ _ _
    (aj_body_empty G depth _ _ a hok rfl ha1 hinv hfreeS hT (G + 2 + 2) (G - 3) (by omega)).1
    (by rw [hclr]; exact Nat.le_trans (clear_length_le _ _) (clear_length_le _ _))

theorem aj_call_cells (hS : ArgOK sep = true) (hstale : NoStaleFor jScope st.forStack)
    (x : Item) (rem : List Item) (hv : tget st.coll.tbl a = some (.list (x :: rem)))
    (hsize : (utf8Encode (joinAll sep ((x :: rem).map Item.render))).length < Calc.two53) :
    ∃ r, (∀ k, runScriptCmdF (depth + 3) (k + 3 * arrLen st.coll.tbl a + 16) "array_join".toList
            (a :: sep :: rest) vars st = r) ∧
      JCallPost st vars a sep r := by
  obtain ⟨ha1, ha2, hstr', hTa, hfreeS, hinv⟩ := aj_pub_facts a sep rest vars st hfree hfree1 hne hok hc1 hc5 hc10 hc6 hstr
  have hT : tget (pubSt jScope (a :: sep :: rest) st).coll.tbl a = some (.list (x :: rem)) := by rw [hTa, hv]
  have harr : ajIsArr st.coll.tbl a = true := by unfold ajIsArr; rw [hv]
  have hal : arrLen st.coll.tbl a = rem.length + 1 := by simp [arrLen, hv]
  obtain ⟨vars', hrun, hclr⟩ := aj_body_cells depth (pubSt jScope (a :: sep :: rest) st)
    (pubVars jScope (a :: sep :: rest) vars st) a sep x rem hok hS rfl ha1 ha2 hstr' hinv hfreeS hstale hT hsize
  have hclr' : clear jScope vars' = clear jScope (clear aieScope vars) := by
    rw [hclr, clear_comm, clear_pubVars, clear_comm]
  have hpost := jS5_post (pubSt jScope (a :: sep :: rest) st) a (decide (sep ≠ [])) hinv hfreeS
  refine ⟨_, ?_, aj_alias_post st vars a sep rest hfree (.finished (some (joinStr sep ((x :: rem).map Item.render))))
    vars' _ 1 _ hpost (by unfold ajRes; rw [hv]; rfl) (by rw [harr]; rfl) (by rw [harr, hclr']; rfl)
    (by unfold ajPushed; rw [hv]
        by_cases hs : sep = [] <;> simp [hs])⟩
  intro k
  rw [aj_entry]
  obtain ⟨G, hG'⟩ : ∃ G, k + 3 * arrLen st.coll.tbl a + 16 = G + 2 + 2 := ⟨k + 3 * arrLen st.coll.tbl a + 12, by omega⟩
  rw [hG']
  exact aliasRun_handleOps_le 2 _ jScope (a :: sep :: rest) vars st (by simp) (by simp) _ _ _
    (hrun G (G + 2 + 2) k (by rw [← hG', hal]))
    (by rw [hclr']; exact Nat.le_trans (clear_length_le _ _) (clear_length_le _ _))

end call

/-- one call with at least two arguments, uniformly in the instruction budget -/
theorem aj_call (depth : Nat) (a sep : Str) (rest : List Str) (vars : Vars) (st : ScriptSt)
    (hfree : tget st.coll.tbl (Coll.handleName st.coll.next) = none)
    (hfree1 : tget st.coll.tbl (Coll.handleName (st.coll.next + 1)) = none)
    (hne : a ≠ Coll.handleName st.coll.next)
    (hok : ArgOK a = true) (hS : ArgOK sep = true)
    (hstale : NoStaleFor jScope st.forStack)
    (hc1 : IfCacheOK st.ifMeta (jKey 1) 3) (hc5 : IfCacheOK st.ifMeta (jKey 5) 16)
    (hc10 : IfCacheOK st.ifMeta (jKey 10) 15) (hc6 : CacheOK st.forMeta (jKey 6) 8)
    (hstr : vars.get jString = none)
    (hsize : ∀ l, tget st.coll.tbl a = some (.list l) → (utf8Encode (joinAll sep (l.map Item.render))).length < Calc.two53) :
    ∃ r, (∀ k, runScriptCmdF (depth + 3) (k + 3 * arrLen st.coll.tbl a + 16) "array_join".toList
            (a :: sep :: rest) vars st = r) ∧
      JCallPost st vars a sep r := by
  cases hv : tget st.coll.tbl a with
  | none => exact aj_call_err depth a sep rest vars st hfree hfree1 hne hok hc1 hc5 hc10 hc6 hstr (by intro l; rw [hv]; intro e; cases e)
  | some w =>
    cases w with
    | list l =>
      cases l with
      | nil => exact aj_call_empty depth a sep rest vars st hfree hfree1 hne hok hc1 hc5 hc10 hc6 hstr hv
      | cons x rem =>
        exact aj_call_cells depth a sep rest vars st hfree hfree1 hne hok hc1 hc5 hc10 hc6 hstr hS hstale x rem hv (hsize _ hv)
    | map m => exact aj_call_err depth a sep rest vars st hfree hfree1 hne hok hc1 hc5 hc10 hc6 hstr (by intro l; rw [hv]; intro e; cases e)
    | set m => exact aj_call_err depth a sep rest vars st hfree hfree1 hne hok hc1 hc5 hc10 hc6 hstr (by intro l; rw [hv]; intro e; cases e)
    | other g => exact aj_call_err depth a sep rest vars st hfree hfree1 hne hok hc1 hc5 hc10 hc6 hstr (by intro l; rw [hv]; intro e; cases e)


/-- the size hypothesis in terms of the specified answer: the joined text plus one separator has
    fewer than 2^53 bytes (then `calc ${stringlen} - ${separatorlen}` is exact) -/
theorem aj_size (sep : Str) (cells : List Str)
    (h : (utf8Encode (joinStr sep cells)).length + (utf8Encode sep).length < Calc.two53) :
    (utf8Encode (joinAll sep cells)).length < Calc.two53 := by
  cases cells with
  | nil => unfold Calc.two53; simp [joinAll, utf8Encode_nil]
  | cons x r =>
    rw [joinAll_eq sep (x :: r) (by simp), utf8Encode_append, List.length_append]
    exact h

end Duck.ScriptRun
