/-
  `array_concat` run from source, success path, part 4: the whole call.
-/
import DuckModel.Lemmas.ScriptLoopArrayConcatCall

namespace Duck.ScriptRun
open Duck Duck.Alias Duck.Coll Duck.Spec Duck.Generated Duck.Reser

theorem acCost_eq (t : Table) (xs : List Str) : acCost t xs = 3 * (acCells t xs).length + 3 * xs.length := by
  induction xs with
  | nil => rfl
  | cons x r ih =>
    simp only [acCost, acCells, arrLen, List.length_append, List.length_cons, ih]
    cases hv : tget t x with
    | none => simp; omega
    | some w => cases w <;> simp <;> omega

/-- the cells the script pushes are the cells the specified function collects -/
theorem acCells_lists (t : Table) : ∀ (xs : List Str) (ls : List (List Item)), lists? t xs = some ls →
    (acCells t xs).map Item.str = ls.flatten.map fun i => Item.str i.render
  | [], ls, h => by
    simp only [lists?] at h
    cases h; rfl
  | x :: r, ls, h => by
    simp only [lists?] at h
    cases hv : tget t x with
    | none => rw [hv] at h; cases h
    | some w =>
      rw [hv] at h
      cases w with
      | list l =>
        simp only [] at h
        cases hr : lists? t r with
        | none => rw [hr] at h; cases h
        | some ls' =>
          rw [hr] at h
          simp only [Option.map_some, Option.some.injEq] at h
          subst h
          have ih := acCells_lists t r ls' hr
          simp only [acCells, hv, List.map_append, List.flatten_cons, ih, List.map_map]
          rfl
      | _ => cases h

theorem lists?_of_live (t : Table) : ∀ (xs : List Str), (∀ x ∈ xs, ∃ l, tget t x = some (.list l)) →
    ∃ ls, lists? t xs = some ls
  | [], _ => ⟨[], rfl⟩
  | x :: r, h => by
    obtain ⟨l, hl⟩ := h x (by simp)
    obtain ⟨ls, hls⟩ := lists?_of_live t r (fun y hy => h y (List.mem_cons_of_mem _ hy))
    exact ⟨l :: ls, by simp [lists?, hl, hls]⟩

/-- what one successful call leaves -/
structure ACallPost (st : ScriptSt) (vars : Vars) (args : List Str) (r : CmdResult × Vars × ScriptSt) : Prop where
  res : r.1 = .continue (some (Coll.handleName (st.coll.next + 1)))
  arr : tget r.2.2.coll.tbl (Coll.handleName (st.coll.next + 1)) = some (.list ((acCells st.coll.tbl args).map .str))
  other : ∀ k, k ≠ Coll.handleName (st.coll.next + 1) → tget r.2.2.coll.tbl k = tget st.coll.tbl k
  frame : LoopFrame aScope 2 (clear aScope vars) [] st r
  c1 : CacheOK r.2.2.forMeta (aKey 1) 5
  c2 : IfCacheOK r.2.2.ifMeta (aKey 2) 4
  c9 : CacheOK r.2.2.forMeta (aKey 9) 13
  c10 : CacheOK r.2.2.forMeta (aKey 10) 12

theorem ac_entry (depth fuel : Nat) (args : List Str) (vars : Vars) (st : ScriptSt) :
    runScriptCmdF depth fuel "array_concat".toList args vars st =
      aliasRun handleOps 0 (scriptBody (bodySem fuel depth acIs) (fun _ => false) fuel acIs) aScope args vars st :=
  runScriptCmdF_entry depth fuel _ _ _ ac_findScript ac_parses args vars st

/-- one call whose arguments all name live arrays, uniformly in the instruction budget -/
theorem ac_call (depth : Nat) (a : Str) (rest : List Str) (vars : Vars) (st : ScriptSt)
    (hfree : tget st.coll.tbl (Coll.handleName st.coll.next) = none)
    (hfree1 : tget st.coll.tbl (Coll.handleName (st.coll.next + 1)) = none)
    (hall : ∀ x ∈ a :: rest, ArgOK x = true ∧ ∃ l, tget st.coll.tbl x = some (.list l))
    (hstale : NoStaleFor aScope st.forStack)
    (hc1 : CacheOK st.forMeta (aKey 1) 5) (hc2 : IfCacheOK st.ifMeta (aKey 2) 4)
    (hc9 : CacheOK st.forMeta (aKey 9) 13) (hc10 : CacheOK st.forMeta (aKey 10) 12) :
    ∃ r, (∀ k, runScriptCmdF (depth + 2) (k + 3 * (a :: rest).length + acCost st.coll.tbl (a :: rest) + 9)
            "array_concat".toList (a :: rest) vars st = r) ∧
      ACallPost st vars (a :: rest) r := by
  have hS : Coll.handleName (st.coll.next + 1) ≠ Coll.handleName st.coll.next :=
    fun e => by have := Coll.handleName_inj e; omega
  have hargs : Vars.get (pubVars aScope (a :: rest) vars st) aArgs = some (Coll.handleName st.coll.next) := by
    unfold pubVars
    rw [get_set, if_pos (by decide)]
  have hTA : tget (pubSt aScope (a :: rest) st).coll.tbl (Coll.handleName st.coll.next) =
      some (.list ((a :: rest).map .str)) := by
    simp only [pubSt, tget_tinsert, if_true]
  have hcong : ∀ x ∈ a :: rest, tget (pubSt aScope (a :: rest) st).coll.tbl x = tget st.coll.tbl x := by
    intro x hx
    obtain ⟨_, l, hl⟩ := hall x hx
    simp only [pubSt, tget_tinsert]
    rw [if_neg (by intro e; rw [e, hfree] at hl; cases hl)]
  obtain ⟨vars', s', hrun, hpost⟩ := ac_body_ok depth (pubSt aScope (a :: rest) st) (pubVars aScope (a :: rest) vars st)
    a rest (Coll.handleName st.coll.next) rfl hargs hTA
    (by intro x hx
        obtain ⟨h1, l, hl⟩ := hall x hx
        exact ⟨h1, l, by rw [hcong x hx, hl]⟩)
    (by show tget (tinsert st.coll.tbl _ _) (Coll.handleName (st.coll.next + 1)) = none
        rw [tget_tinsert, if_neg hS, hfree1])
    hstale ⟨fun _ _ => rfl, fun _ _ => rfl, fun _ _ => rfl, hc1, hc2, hc9, hc10⟩
  refine ⟨(.continue (some (Coll.handleName (st.coll.next + 1))), clear aScope vars,
    { s' with coll := { tbl := tremove s'.coll.tbl (Coll.handleName st.coll.next), next := s'.coll.next },
              ctx := st.ctx }), ?_, ?_⟩
  · intro k
    rw [ac_entry]
    obtain ⟨G, hG⟩ : ∃ G, k + 3 * (a :: rest).length + acCost st.coll.tbl (a :: rest) + 9 = G + 2 :=
      ⟨k + 3 * (a :: rest).length + acCost st.coll.tbl (a :: rest) + 7, by omega⟩
    rw [hG]
    exact aliasRun_handleOps 0 _ aScope (a :: rest) vars st (by simp) (by simp) _ _ _
      (hrun G (G + 2) k (by rw [← hG, acCost_congr _ _ _ hcong])) hpost.clr
  · refine ⟨rfl, ?_, ?_, ⟨rfl, ?_, rfl, hpost.ifStack, hpost.forStack, hpost.inv.ifMeta, hpost.inv.forMeta,
      hpost.inv.endTable⟩, hpost.inv.c1, hpost.inv.c2, hpost.inv.c9, hpost.inv.c10⟩
    · show tget (tremove s'.coll.tbl _) _ = _
      rw [tget_tremove, if_neg hS]
      have harr := hpost.arr
      rw [acCells_congr _ _ _ hcong] at harr
      exact harr
    · intro k hk
      show tget (tremove s'.coll.tbl _) k = _
      rw [tget_tremove]
      by_cases e : k = Coll.handleName st.coll.next
      · rw [if_pos e, e, hfree]
      · rw [if_neg e, hpost.other k hk]
        simp only [pubSt, tget_tinsert]
        rw [if_neg e]
    · show s'.coll.next = _
      rw [hpost.next]; rfl

/-- the state a call without arguments ends in -/
def acNilFinal (st : ScriptSt) : ScriptSt :=
  { forSt (acS3 (forSt { st with ctx := aScope } 1 5)) 9 13 with ctx := st.ctx }

/-- `array_concat` without arguments: both loops read the caller's `scope::array_concat::arguments`
    (the wrapper sets it only for a non-empty argument list); when that names no array both loops
    are skipped and the answer is a new empty array: 9 instructions -/
theorem ac_runF_nil (depth fuel : Nat) (vars : Vars) (st : ScriptSt)
    (hstale : NoStaleFor aScope st.forStack)
    (hc1 : CacheOK st.forMeta (aKey 1) 5) (hc9 : CacheOK st.forMeta (aKey 9) 13)
    (hempty : ∀ l, tget st.coll.tbl ((vars.get aArgs).getD []) ≠ some (.list l)) :
    runScriptCmdF (depth + 1) (fuel + 9) "array_concat".toList [] vars st =
      (.continue (some (Coll.handleName st.coll.next)), clear aScope vars, acNilFinal st) := by
  rw [ac_entry]
  have hb : ∀ v : Vars, bind v ((some [[Seg.lit aArg], [Seg.lit "in".toList], [Seg.var aArgs]]).map fun a => a.map renderTemplate) =
      [aArg, "in".toList, (v.get aArgs).getD []] := by
    intro v
    rw [bind_mk _ _ (by decide)]
    simp [tmplValue, Seg.value]
  have hn1 : nextIteration { st with ctx := aScope } ((vars.get aArgs).getD []) 0 = none := by
    unfold nextIteration
    cases hv : tget st.coll.tbl ((vars.get aArgs).getD []) with
    | none => simp [hv]
    | some w =>
      cases w with
      | list l => exact absurd hv (hempty l)
      | _ => simp [hv]
  have hg : ((Vars.updateOutput vars (some aArray) (some (Coll.handleName st.coll.next))).get aArgs).getD [] =
      (vars.get aArgs).getD [] := by
    simp only [Vars.updateOutput]; rw [get_set, if_neg (by decide)]
  have hn9 : nextIteration (acS3 (forSt { st with ctx := aScope } 1 5)) ((vars.get aArgs).getD []) 0 = none := by
    unfold nextIteration
    show (match tget (tinsert st.coll.tbl (Coll.handleName st.coll.next) (.list [])) ((vars.get aArgs).getD []) with
      | some (.list l) => (l[0]?).map Item.render | _ => none) = none
    rw [tget_tinsert]
    by_cases e : (vars.get aArgs).getD [] = Coll.handleName st.coll.next
    · rw [if_pos e]; rfl
    · rw [if_neg e]
      cases hv : tget st.coll.tbl ((vars.get aArgs).getD []) with
      | none => rfl
      | some w =>
        cases w with
        | list l => exact absurd hv (hempty l)
        | _ => rfl
  have hbody : ∀ F, scriptBody (bodySem F (depth + 1) acIs) (fun _ => false) (fuel + 9) acIs vars { st with ctx := aScope } =
      (.finished (some (Coll.handleName st.coll.next)), Vars.updateOutput vars (some aArray) (some (Coll.handleName st.coll.next)),
        forSt (acS3 (forSt { st with ctx := aScope } 1 5)) 9 13) := by
    intro F
    unfold scriptBody
    rw [show fuel + 9 = fuel + 3 + 1 + 1 + 1 + 1 + 1 + 1 by omega,
      eval_skip _ _ _ 0 _ _ _ _ _ (show acIs[0]? = some (emptyI 1) from rfl) rfl,
      eval_for_first_done _ depth acIs 1 5 _ _
        (show acIs[1]? = some (mkI 2 none "for" (some [[.lit aArg], [.lit "in".toList], [.var aArgs]])) from rfl) rfl
        vars { st with ctx := aScope } aArg _ (hb vars)
        (popFor_noStale 1 aScope st.forStack hstale) ac_findFor1
        (by rw [flowKey_aKey _ (show ({ st with ctx := aScope } : ScriptSt).ctx = aScope from rfl)]; exact hc1)
        hn1 _ _ none,
      eval_skip _ _ _ 6 _ _ _ _ _ (show acIs[6]? = some (emptyI 7) from rfl) rfl,
      eval_native_continue _ (depth + 1) acIs _ 7 _ none vars _ _ _ "array".toList (.coll .array)
        (show acIs[7]? = some (mkI 8 (some aArray) "array" none) from rfl) rfl fs_array rn_array
        [] rfl _ _ (acS3 (forSt { st with ctx := aScope } 1 5)) (run_array_nil vars _),
      eval_skip _ _ _ 8 _ _ _ _ _ (show acIs[8]? = some (emptyI 9) from rfl) rfl]
    have hb9 := hb (Vars.updateOutput vars (some aArray) (some (Coll.handleName st.coll.next)))
    rw [hg] at hb9
    erw [eval_for_first_done _ depth acIs 9 13 _ _
        (show acIs[9]? = some (mkI 10 none "for" (some [[.lit aArg], [.lit "in".toList], [.var aArgs]])) from rfl) rfl
        (Vars.updateOutput vars (some aArray) (some (Coll.handleName st.coll.next)))
        (acS3 (forSt { st with ctx := aScope } 1 5)) aArg _ hb9
        (popFor_noStale 9 aScope st.forStack hstale) ac_findFor9
        (by rw [flowKey_aKey _ (show (acS3 (forSt { st with ctx := aScope } 1 5)).ctx = aScope from rfl)]
            show CacheOK (forMetaAfter st.forMeta (flowKey { st with ctx := aScope } 1) 5) (aKey 9) 13
            rw [flowKey_aKey _ (show ({ st with ctx := aScope } : ScriptSt).ctx = aScope from rfl)]
            exact cacheOK_forMetaAfter_ne _ _ _ _ _ (fun e => by have := aKey_inj e; omega) hc9)
        hn9 _ _ _,
      ac_tail _ _ _ _ (Coll.handleName st.coll.next) (by simp [Vars.updateOutput, get_set])]
    rfl
  rw [aliasRun_handleOps_nil _ aScope vars st _ _ _ (hbody _) (clear_set_under _ _ _ _ aArray_under)]
  rfl

theorem ac_keys : aKey 1 = "scope::array_concat::1".toList ∧ aKey 2 = "scope::array_concat::2".toList ∧
    aKey 9 = "scope::array_concat::9".toList ∧ aKey 10 = "scope::array_concat::10".toList := by decide +kernel

end Duck.ScriptRun
