/-
  Helper lemmas for Props/C06Consumers.lean: the four condition-consuming cases of `runCmd`
  (`if`, `elseif`, `while`, `not`) written out as equations, and the facts that the block-meta
  lookups do not change which names are commands.
-/
import DuckModel.Sdk.Flow

namespace Duck
open Duck.Generated

/-! ### the four consumer cases of `runCmd`, as equations (definitional unfolding) -/

theorem runCmd_notC (nested : EvalFn)
    (endRec : Cmd → List Str → Option Str → Nat → Vars → Sdk → CmdResult × Vars × Sdk)
    (is : List Instruction) (args : List Str) (out : Option Str) (line : Nat) (vars : Vars) (s : Sdk) :
    runCmd nested endRec is .notC args out line vars s =
      if args.isEmpty then (errR, vars, s)
      else
        match evalCondition nested is args vars s with
        | (.error _, vars, s) => (errR, vars, s)
        | (.ok passed, vars, s) =>
          (.continue (some (if passed then "false".toList else "true".toList)), vars, s) := rfl

theorem runCmd_whileC (nested : EvalFn)
    (endRec : Cmd → List Str → Option Str → Nat → Vars → Sdk → CmdResult × Vars × Sdk)
    (is : List Instruction) (args : List Str) (out : Option Str) (line : Nat) (vars : Vars) (s : Sdk) :
    runCmd nested endRec is .whileC args out line vars s =
      if args.isEmpty then (errR, vars, s)
      else
        match whileMetaFor is s line with
        | .error r => (r, vars, s)
        | .ok (stop, s) =>
          match evalCondition nested is args vars s with
          | (.error _, vars, s) => (errR, vars, s)
          | (.ok passed, vars, s) =>
            if passed then
              (.continue none, vars,
                { s with whileStack := { start := line, stop := stop, ctx := s.lineCtx } :: s.whileStack })
            else (.goTo none (.line (stop + 1)), vars, s) := rfl

theorem runCmd_ifC (nested : EvalFn)
    (endRec : Cmd → List Str → Option Str → Nat → Vars → Sdk → CmdResult × Vars × Sdk)
    (is : List Instruction) (args : List Str) (out : Option Str) (line : Nat) (vars : Vars) (s : Sdk) :
    runCmd nested endRec is .ifC args out line vars s =
      if args.isEmpty then (errR, vars, s)
      else
        match ifMetaFor is s line with
        | .error r => (r, vars, s)
        | .ok ((stop, elses), s) =>
          match evalCondition nested is args vars s with
          | (.error _, vars, s) => (errR, vars, s)
          | (.ok passed, vars, s) =>
            if passed then
              let next := match elses with | [] => stop | e :: _ => e
              (.continue none, vars, { s with ifStack := { current := next, passed := true, elseIdx := 0, start := line, stop := stop, elses := elses, ctx := s.lineCtx } :: s.ifStack })
            else
              match elses with
              | [] => (.goTo none (.line (stop + 1)), vars, s)
              | e :: _ =>
                (.goTo none (.line e), vars, { s with ifStack := { current := e, passed := false, elseIdx := 0, start := line, stop := stop, elses := elses, ctx := s.lineCtx } :: s.ifStack }) := rfl

theorem runCmd_elseIf (nested : EvalFn)
    (endRec : Cmd → List Str → Option Str → Nat → Vars → Sdk → CmdResult × Vars × Sdk)
    (is : List Instruction) (args : List Str) (out : Option Str) (line : Nat) (vars : Vars) (s : Sdk) :
    runCmd nested endRec is .elseIf args out line vars s =
      if args.isEmpty then (errR, vars, s)
      else
        match popIf line s.lineCtx s.ifStack with
        | none => (errR, vars, { s with ifStack := [] })
        | some (ci, rest) =>
          let s := { s with ifStack := rest }
          if ci.passed then (.goTo none (.line (ci.stop + 1)), vars, s)
          else
            match evalCondition nested is args vars s with
            | (.error _, vars, s) => (errR, vars, s)
            | (.ok passed, vars, s) =>
              if passed then
                let next := if ci.elseIdx + 1 < ci.elses.length then ci.elses[ci.elseIdx + 1]?.getD 0 else ci.elses[0]?.getD 0
                (.continue none, vars, { s with ifStack := { ci with current := next, passed := true, ctx := s.lineCtx } :: s.ifStack })
              else if ci.elseIdx + 1 < ci.elses.length then
                let next := ci.elses[ci.elseIdx + 1]?.getD 0
                (.goTo none (.line next), vars, { s with ifStack := { ci with current := next, passed := false, elseIdx := ci.elseIdx + 1, ctx := s.lineCtx } :: s.ifStack })
              else (.goTo none (.line (ci.stop + 1)), vars, s) := rfl

theorem isEmpty_false_of_ne_nil {α : Type} {l : List α} (h : l ≠ []) : l.isEmpty = false := by
  cases l with
  | nil => exact absurd rfl h
  | cons _ _ => rfl

/-! ### which names are commands depends on the function table only -/

theorem resolveCmd_congr {s s' : Sdk} (h : s'.fns = s.fns) (name : Str) :
    resolveCmd s' name = resolveCmd s name := by
  unfold resolveCmd
  rw [h]

theorem whileMetaFor_fns {is : List Instruction} {s s1 : Sdk} {line stop : Nat}
    (h : whileMetaFor is s line = .ok (stop, s1)) : s1.fns = s.fns := by
  unfold whileMetaFor at h
  cases hg : s.whileMeta.get (lineKey s line) with
  | some m =>
    simp only [hg] at h
    cases h; rfl
  | none =>
    simp only [hg] at h
    cases hf : findCommands whileTables is (line + 1) with
    | ok p => simp only [hf] at h; cases h; rfl
    | error e => simp only [hf] at h; cases h

theorem ifMetaFor_fns {is : List Instruction} {s s1 : Sdk} {line : Nat} {m : Nat × List Nat}
    (h : ifMetaFor is s line = .ok (m, s1)) : s1.fns = s.fns := by
  unfold ifMetaFor at h
  cases hg : s.ifMeta.get (lineKey s line) with
  | some m' =>
    simp only [hg] at h
    cases h; rfl
  | none =>
    simp only [hg] at h
    cases hf : findCommands ifTables is (line + 1) with
    | ok p => simp only [hf] at h; cases h; rfl
    | error e => simp only [hf] at h; cases h

/-- `eval_condition` on a statement whose first token is not a command: the slice evaluator,
    variables and state untouched -/
theorem evalCondition_of_not_cmd (nested : EvalFn) (is : List Instruction) (a0 : Str) (rest : List Str)
    (vars : Vars) (s : Sdk) (h : (resolveCmd s a0).isNone) :
    evalCondition nested is (a0 :: rest) vars s =
      (match evalSlice (a0 :: rest) with
        | .ok b => .ok b
        | .error _ => .error (), vars, s) := by
  have h' : (resolveCmd s a0).isSome = false := by
    cases hr : resolveCmd s a0 with
    | none => rfl
    | some c => rw [hr] at h; cases h
  unfold evalCondition
  simp only [h', Bool.false_eq_true, if_false]
  cases evalSlice (a0 :: rest) <;> rfl

end Duck
