/-
  Lemmas for C09: the line rebuilt by `eval::parse` from safe values is parsed and bound back
  to the same values; evaluation helpers (fuel twins of the well-founded `parseArgsLoop`) for
  the concrete counterexamples.
-/
import DuckModel.Sdk.Reserialize
import DuckModel.Lemmas.RenderLemmas

namespace Duck
namespace Reser
open Duck.Spec

/-! ### characters of a value -/

theorem hasChar_false {s : Str} {c : Char} : hasChar s c = false ↔ ∀ x ∈ s, x ≠ c := by
  simp [hasChar]

theorem hasChar_true {s : Str} {c : Char} : hasChar s c = true ↔ c ∈ s := by
  simp [hasChar]

theorem strContains_eq (s : Str) (c : Char) : strContains s c = hasChar s c := rfl

/-! ### the rebuilt line -/

/-- `.replace("\\", "\\\\")` on one character -/
def dblc (c : Char) : Str := if c = '\\' then ['\\', '\\'] else [c]

def dbl (s : Str) : Str := s.flatMap dblc

def keep (c : Char) : Bool := c != '\r' && c != '\n'

theorem serializeLine_eq (args : List Str) :
    serializeLine args = dbl ((args.flatMap fun a => serializeArg a ++ [' ']).filter keep) := rfl

theorem dbl_nil : dbl [] = [] := rfl

theorem dbl_cons (c : Char) (s : Str) : dbl (c :: s) = dblc c ++ dbl s := by
  simp [dbl]

theorem dbl_append (a b : Str) : dbl (a ++ b) = dbl a ++ dbl b := by
  simp [dbl]

theorem dbl_no_backslash (s : Str) (h : ∀ x ∈ s, x ≠ '\\') : dbl s = s := by
  induction s with
  | nil => rfl
  | cons c t ih =>
    rw [dbl_cons, ih (fun x hx => h x (by simp [hx]))]
    simp [dblc, h c (by simp)]

theorem dbl_ne_nil {s : Str} (h : s ≠ []) : dbl s ≠ [] := by
  cases s with
  | nil => exact absurd rfl h
  | cons c t =>
    rw [dbl_cons]
    unfold dblc
    split <;> simp

def NoBreak (v : Str) : Prop := ∀ x ∈ v, x ≠ '\r' ∧ x ≠ '\n'

theorem filter_keep_self (s : Str) (h : NoBreak s) : s.filter keep = s := by
  rw [List.filter_eq_self]
  intro x hx
  obtain ⟨a, b⟩ := h x hx
  simp [keep, a, b]

theorem noBreak_serializeArg {a : Str} (h : NoBreak a) : NoBreak (serializeArg a) := by
  unfold serializeArg
  intro x hx
  split at hx
  · simp at hx; rcases hx with rfl | rfl <;> decide
  · split at hx
    · simp at hx
      rcases hx with rfl | hx | rfl
      · decide
      · exact h x hx
      · decide
    · split at hx
      · simp at hx
        rcases hx with rfl | hx | rfl
        · decide
        · exact h x hx
        · decide
      · exact h x hx

/-- the written form of one value -/
def dser (a : Str) : Str := dbl (serializeArg a)

theorem serializeLine_noBreak (args : List Str) (h : ∀ a ∈ args, NoBreak a) :
    serializeLine args = args.flatMap fun a => dser a ++ [' '] := by
  rw [serializeLine_eq]
  induction args with
  | nil => rfl
  | cons a as ih =>
    have ha : NoBreak (serializeArg a) := noBreak_serializeArg (h a (by simp))
    have ih' := ih (fun x hx => h x (by simp [hx]))
    simp only [List.flatMap_cons, List.filter_append, dbl_append] at ih' ⊢
    rw [ih', filter_keep_self _ ha]
    simp [dser, keep, dbl, dblc]

/-- the part of the line after the command: every value preceded by one space -/
def pre (vals : List Str) : Str := vals.flatMap fun a => ' ' :: dser a

theorem pre_nil : pre [] = [] := rfl

theorem pre_cons (a : Str) (as : List Str) : pre (a :: as) = ' ' :: (dser a ++ pre as) := by
  simp [pre]

theorem space_flatMap_eq (vals : List Str) :
    ' ' :: (vals.flatMap fun a => dser a ++ [' ']) = pre vals ++ [' '] := by
  induction vals with
  | nil => rfl
  | cons a as ih =>
    rw [pre_cons, List.flatMap_cons]
    simp only [List.append_assoc, List.cons_append, List.nil_append]
    rw [ih]

/-- a space-separated tail: what follows a value in the rebuilt line -/
def SpTail (t : Str) : Prop := t = [] ∨ ∃ r, t = ' ' :: r

theorem spTail_pre (vals : List Str) : SpTail (pre vals) := by
  cases vals with
  | nil => exact Or.inl rfl
  | cons a as => exact Or.inr ⟨_, pre_cons a as⟩

theorem SpTail.bnd {t : Str} (h : SpTail t) : Bnd false t := by
  rcases h with rfl | ⟨r, rfl⟩
  · exact Bnd.nil
  · exact Bnd.space r

theorem SpTail.afterTok {t : Str} (h : SpTail t) : afterTok t = t := by
  rcases h with rfl | ⟨r, rfl⟩
  · rfl
  · exact afterTok_space r

/-! ### the value classes as propositions -/

theorem safe_iff (v : Str) :
    Safe v = true ↔
      (xStable .normal v = true ∧ ∀ x ∈ v, x ≠ '\r' ∧ x ≠ '\n') ∧
      ((' ' ∈ v ∧ ∀ x ∈ v, x ≠ '"') ∨
       (' ' ∉ v ∧ (∀ x ∈ v, x ≠ '#') ∧ v.head? ≠ some '"')) := by
  unfold Safe
  by_cases hs : hasChar v ' ' = true
  · have hm := hasChar_true.mp hs
    simp only [hs, if_true, Bool.and_eq_true, Bool.not_eq_true', hasChar_false]
    constructor
    · rintro ⟨⟨⟨a, c⟩, d⟩, e⟩
      exact ⟨⟨a, fun x hx => ⟨c x hx, d x hx⟩⟩, Or.inl ⟨hm, e⟩⟩
    · rintro ⟨⟨a, h⟩, h2⟩
      refine ⟨⟨⟨a, fun x hx => (h x hx).1⟩, fun x hx => (h x hx).2⟩, ?_⟩
      rcases h2 with ⟨_, e⟩ | ⟨n, _⟩
      · exact e
      · exact absurd hm n
  · have hs' : hasChar v ' ' = false := by simpa using hs
    have hm : ' ' ∉ v := fun hin => hs (hasChar_true.mpr hin)
    simp only [hs', Bool.false_eq_true, if_false, Bool.and_eq_true, Bool.not_eq_true',
      hasChar_false, bne_iff_ne, ne_eq]
    constructor
    · rintro ⟨⟨⟨a, c⟩, d⟩, e, f⟩
      exact ⟨⟨a, fun x hx => ⟨c x hx, d x hx⟩⟩, Or.inr ⟨hm, e, f⟩⟩
    · rintro ⟨⟨a, h⟩, h2⟩
      refine ⟨⟨⟨a, fun x hx => (h x hx).1⟩, fun x hx => (h x hx).2⟩, ?_⟩
      rcases h2 with ⟨hin, _⟩ | ⟨_, e, f⟩
      · exact absurd hin hm
      · exact ⟨e, f⟩

theorem safe_noBreak {v : Str} (h : Safe v = true) : NoBreak v := fun x hx =>
  ((safe_iff v).mp h).1.2 x hx

theorem cmdOK_iff (c : Str) :
    cmdOK c = true ↔ NameOK c ∧ NoEq c ∧ Spec.FirstOK c := by
  unfold cmdOK NameOK NoEq Spec.FirstOK
  simp only [Bool.and_eq_true, Bool.not_eq_true', List.all_eq_true, bne_iff_ne, ne_eq,
    List.isEmpty_eq_false_iff]
  constructor
  · rintro ⟨⟨⟨⟨a, b⟩, c1⟩, d⟩, e⟩
    exact ⟨⟨a, fun x hx => ⟨(b x hx).1.1.1, (b x hx).1.1.2, (b x hx).1.2⟩, c1⟩,
      fun x hx => (b x hx).2, d, e⟩
  · rintro ⟨⟨a, b, c1⟩, f, d, e⟩
    exact ⟨⟨⟨⟨a, fun x hx => ⟨⟨⟨(b x hx).1, (b x hx).2.1⟩, (b x hx).2.2⟩, f x hx⟩⟩, c1⟩, d⟩, e⟩

/-! ### the written form of a safe value -/

theorem serializeArg_nil : serializeArg [] = ['"', '"'] := rfl

theorem serializeArg_spaced {a : Str} (hs : ' ' ∈ a) (hq : ∀ x ∈ a, x ≠ '"') :
    serializeArg a = '"' :: (a ++ ['"']) := by
  unfold serializeArg
  have h1 : a.isEmpty = false := by
    cases a with
    | nil => simp at hs
    | cons _ _ => rfl
  have h2 : a.head? ≠ some '"' := by
    cases a with
    | nil => simp
    | cons c t => simpa using hq c (by simp)
  have h3 : strContains a ' ' = true := hasChar_true.mpr hs
  simp [h1, h2, h3]

theorem serializeArg_bare {a : Str} (hne : a ≠ []) (hs : ' ' ∉ a) (hq : a.head? ≠ some '"') :
    serializeArg a = a := by
  unfold serializeArg
  have h1 : a.isEmpty = false := by
    cases a with
    | nil => exact absurd rfl hne
    | cons _ _ => rfl
  have h3 : strContains a ' ' = false := by
    rw [strContains_eq, hasChar_false]
    intro x hx he
    exact hs (he ▸ hx)
  simp [h1, hq, h3]

/-! ### reading one written value back -/

theorem pvLoop_q_char (c : Char) (acc l : Str) (h : c ≠ '"') :
    pvLoop (argFlags false) { arg := acc, inArg := true, usingQuotes := true } (dblc c ++ l) =
      pvLoop (argFlags false) { arg := acc ++ [c], inArg := true, usingQuotes := true } l := by
  by_cases h1 : c = '\\'
  · subst h1; simp [dblc, pvLoop, pvStep, argFlags]
  · simp [dblc, pvLoop, pvStep, argFlags, h1, h]

theorem pvLoop_q (s acc tail : Str) (h : ∀ x ∈ s, x ≠ '"') :
    pvLoop (argFlags false) { arg := acc, inArg := true, usingQuotes := true } (dbl s ++ tail) =
      pvLoop (argFlags false) { arg := acc ++ s, inArg := true, usingQuotes := true } tail := by
  induction s generalizing acc with
  | nil => simp [dbl]
  | cons c t ih =>
    rw [dbl_cons, List.append_assoc, pvLoop_q_char c acc _ (h c (by simp)),
      ih _ (fun x hx => h x (by simp [hx]))]
    simp

theorem parseNextValue_q (s tail : Str) (h : ∀ x ∈ s, x ≠ '"') :
    parseNextValue (argFlags false) ('"' :: (dbl s ++ '"' :: tail)) = .ok (tail, some s) := by
  rw [parseNextValue_eq, pvLoop_open_quote, pvLoop_q s [] _ h, pvLoop]
  cases s <;> simp [pvStep, pvFinish]

theorem pvLoop_b_char (c : Char) (acc l : Str) (h1 : c ≠ ' ') (h2 : c ≠ '#') :
    pvLoop (argFlags false) { arg := acc, inArg := true } (dblc c ++ l) =
      pvLoop (argFlags false) { arg := acc ++ [c], inArg := true } l := by
  by_cases h3 : c = '\\'
  · subst h3; simp [dblc, pvLoop, pvStep, argFlags]
  · simp [dblc, pvLoop, pvStep, argFlags, h1, h2, h3]

theorem pvLoop_b (s acc tail : Str) (h : ∀ x ∈ s, x ≠ ' ' ∧ x ≠ '#') :
    pvLoop (argFlags false) { arg := acc, inArg := true } (dbl s ++ tail) =
      pvLoop (argFlags false) { arg := acc ++ s, inArg := true } tail := by
  induction s generalizing acc with
  | nil => simp [dbl]
  | cons c t ih =>
    rw [dbl_cons, List.append_assoc, pvLoop_b_char c acc _ (h c (by simp)).1 (h c (by simp)).2,
      ih _ (fun x hx => h x (by simp [hx]))]
    simp

theorem pvLoop_b_first (c : Char) (l : Str) (h1 : c ≠ ' ') (h2 : c ≠ '#') (h4 : c ≠ '"') :
    pvLoop (argFlags false) {} (dblc c ++ l) =
      pvLoop (argFlags false) { arg := [c], inArg := true } l := by
  by_cases h3 : c = '\\'
  · subst h3; simp [dblc, pvLoop, pvStep, argFlags]
  · simp [dblc, pvLoop, pvStep, argFlags, h1, h2, h3, h4]

theorem parseNextValue_b (s tail : Str) (hne : s ≠ []) (h : ∀ x ∈ s, x ≠ ' ' ∧ x ≠ '#')
    (hq : s.head? ≠ some '"') (hb : Bnd false tail) :
    parseNextValue (argFlags false) (dbl s ++ tail) = .ok (afterTok tail, some s) := by
  cases s with
  | nil => exact absurd rfl hne
  | cons c t =>
    have hc := h c (by simp)
    rw [parseNextValue_eq, dbl_cons, List.append_assoc,
      pvLoop_b_first c _ hc.1 hc.2 (by simpa using hq),
      pvLoop_b t [c] tail (fun x hx => h x (by simp [hx]))]
    exact pv_finish_at_bnd (argFlags false) ([c] ++ t) tail (by simp) hb

/-- one safe value, written by `eval::parse`, followed by a space-separated tail -/
theorem parseNextValue_dser (a tail : Str) (ha : Safe a = true) (ht : SpTail tail) :
    parseNextValue (argFlags false) (dser a ++ tail) = .ok (tail, some a) := by
  obtain ⟨_, hcase⟩ := (safe_iff a).mp ha
  unfold dser
  by_cases hn : a = []
  · subst hn
    have := parseNextValue_q [] tail (by simp)
    simpa [serializeArg_nil, dbl, dblc] using this
  rcases hcase with ⟨hs, hq⟩ | ⟨hs, hh, hq⟩
  · rw [serializeArg_spaced hs hq]
    have := parseNextValue_q a tail hq
    have e : dbl ('"' :: (a ++ ['"'])) ++ tail = '"' :: (dbl a ++ '"' :: tail) := by
      simp [dbl_cons, dbl_append, dblc, dbl_nil]
    rw [e]; exact this
  · rw [serializeArg_bare hn hs hq]
    have := parseNextValue_b a tail hn
      (fun x hx => ⟨fun he => hs (he ▸ hx), hh x hx⟩) hq ht.bnd
    rw [ht.afterTok] at this
    exact this

theorem dser_ne_nil (a : Str) : dser a ≠ [] := by
  unfold dser
  apply dbl_ne_nil
  unfold serializeArg
  split
  · simp
  · split
    · simp
    · split
      · simp
      · rename_i h _ _
        intro he
        simp [he] at h

theorem parseArgsLoop_pre (vals : List Str) (h : ∀ v ∈ vals, Safe v = true) :
    parseArgsLoop false (pre vals) = .ok vals := by
  induction vals with
  | nil => exact parseArgsLoop_none false [] [] rfl
  | cons a as ih =>
    have ih' := ih (fun v hv => h v (by simp [hv]))
    rw [pre_cons]
    refine parseArgsLoop_step false _ (pre as) a as ?_ ?_ ih'
    · have := parseNextValue_spaces (argFlags false) 1 (dser a ++ pre as)
      rw [spaces_succ, spaces_zero] at this
      rw [List.singleton_append] at this
      rw [this]
      exact parseNextValue_dser a (pre as) (h a (by simp)) (spTail_pre as)
    · simp only [List.length_cons, List.length_append]
      omega

theorem parseArguments_pre (vals : List Str) (h : ∀ v ∈ vals, Safe v = true) :
    parseArguments (pre vals) = .ok (if vals = [] then none else some vals) := by
  apply parseArguments_of_loop
  · split
    · simp
    · rename_i hne
      simpa using hne
  · rw [parseArgsLoop_pre vals h]
    split
    · rename_i he; simp [he]
    · rfl

/-! ### the line as a whole -/

theorem head_dser (a : Str) (hf : firstOK a = true) (hs : Safe a = true) :
    ∃ c t, dser a = c :: t ∧ c ≠ ' ' ∧ c ≠ '=' := by
  obtain ⟨_, hcase⟩ := (safe_iff a).mp hs
  unfold dser
  by_cases hn : a = []
  · subst hn
    exact ⟨'"', ['"'], by simp [serializeArg_nil, dbl, dblc], by decide, by decide⟩
  rcases hcase with ⟨hsp, hq⟩ | ⟨hsp, hh, hq⟩
  · rw [serializeArg_spaced hsp hq]
    exact ⟨'"', dbl (a ++ ['"']), by simp [dbl_cons, dblc], by decide, by decide⟩
  · rw [serializeArg_bare hn hsp hq]
    cases a with
    | nil => exact absurd rfl hn
    | cons c t =>
      have hc1 : c ≠ ' ' := fun he => hsp (by simp [he])
      have hc2 : c ≠ '=' := by
        unfold firstOK at hf
        have : hasChar (c :: t) ' ' = false := by
          rw [hasChar_false]; intro x hx he; exact hsp (he ▸ hx)
        simpa [this] using hf
      rw [dbl_cons]
      by_cases hb : c = '\\'
      · subst hb
        exact ⟨'\\', '\\' :: dbl t, by simp [dblc], by decide, by decide⟩
      · exact ⟨c, dbl t, by simp [dblc, hb], hc1, hc2⟩

theorem noEqAhead_pre (vals : List Str) (h : ∀ v ∈ vals, Safe v = true)
    (hf : ∀ v, vals.head? = some v → firstOK v = true) : NoEqAhead (pre vals) := by
  cases vals with
  | nil => exact noEqAhead_nil
  | cons a as =>
    rw [pre_cons]
    obtain ⟨c, t, e, h1, h2⟩ := head_dser a (hf a rfl) (h a (by simp))
    rw [e]
    exact noEqAhead_space (noEqAhead_cons c _ h1 h2)

theorem noTrail_dser (a : Str) (hs : Safe a = true) (hl : lastOK a = true) : NoTrail (dser a) := by
  obtain ⟨_, hcase⟩ := (safe_iff a).mp hs
  unfold dser
  by_cases hn : a = []
  · subst hn
    have : dbl (serializeArg []) = [] ++ ['"'] ++ ['"'] := by simp [serializeArg_nil, dbl, dblc]
    rw [this]
    exact NoTrail.append_singleton _ _ (by decide)
  rcases hcase with ⟨hsp, hq⟩ | ⟨hsp, hh, hq⟩
  · rw [serializeArg_spaced hsp hq]
    have : dbl ('"' :: (a ++ ['"'])) = ('"' :: dbl a) ++ ['"'] := by
      simp [dbl_cons, dbl_append, dblc, dbl_nil]
    rw [this]
    exact NoTrail.append_singleton _ _ (by decide)
  · rw [serializeArg_bare hn hsp hq]
    have hsp' : hasChar a ' ' = false := by
      rw [hasChar_false]; intro x hx he; exact hsp (he ▸ hx)
    obtain ⟨ini, c, rfl⟩ : ∃ ini c, a = ini ++ [c] := by
      rcases List.eq_nil_or_concat a with h | ⟨i, c, h⟩
      · exact absurd h hn
      · exact ⟨i, c, by simpa using h⟩
    have hc : isWs c = false := by
      unfold lastOK at hl
      simpa [hsp'] using hl
    rw [dbl_append]
    apply NoTrail.append
    · by_cases hb : c = '\\'
      · subst hb
        have : dbl ['\\'] = ['\\'] ++ ['\\'] := by simp [dbl, dblc]
        rw [this]
        exact NoTrail.append_singleton _ _ (by decide)
      · have : dbl [c] = [] ++ [c] := by simp [dbl, dblc, hb]
        rw [this]
        exact NoTrail.append_singleton _ _ hc
    · exact dbl_ne_nil (by simp)

theorem noTrail_pre (vals : List Str) (hne : vals ≠ []) (h : ∀ v ∈ vals, Safe v = true)
    (hl : ∀ v, vals.getLast? = some v → lastOK v = true) : NoTrail (pre vals) ∧ pre vals ≠ [] := by
  obtain ⟨ini, a, rfl⟩ : ∃ ini a, vals = ini ++ [a] := by
    rcases List.eq_nil_or_concat vals with h | ⟨i, c, h⟩
    · exact absurd h hne
    · exact ⟨i, c, by simpa using h⟩
  have e : pre (ini ++ [a]) = (pre ini ++ [' ']) ++ dser a := by simp [pre]
  rw [e]
  refine ⟨NoTrail.append _ _ (noTrail_dser a (h a (by simp)) (hl a (by simp))) (dser_ne_nil a), ?_⟩
  simp

theorem trim_line (cmd : Str) (vals : List Str) (hc : NameOK cmd)
    (h : ∀ v ∈ vals, Safe v = true) (hl : ∀ v, vals.getLast? = some v → lastOK v = true) :
    trim ((cmd ++ pre vals) ++ [' ']) = cmd ++ pre vals := by
  rw [trim_append_ws _ [' '] (by intro c hc; simp at hc; subst hc; decide)]
  obtain ⟨x, c', rfl, hx, _⟩ := nameOK_head hc
  have hnt : NoTrail ((x :: c') ++ pre vals) := by
    by_cases hv : vals = []
    · subst hv; simpa [pre_nil] using noTrail_name hc
    · obtain ⟨a, b⟩ := noTrail_pre vals hv h hl
      exact NoTrail.append _ _ a b
  unfold trim
  rw [List.cons_append, trimStart_cons_nonws x _ hx]
  exact hnt

/-- the line rebuilt from a command name and safe values parses to that command and values -/
theorem parseLine_serialized (cmd : Str) (vals : List Str) (hc : cmdOK cmd = true)
    (h : ∀ v ∈ vals, Safe v = true) (hp : positionOK vals = true) :
    parseLine (serializeLine (cmd :: vals)) =
      .ok (.script { label := none, output := none, command := some cmd,
                     args := if vals = [] then none else some vals }) := by
  obtain ⟨hn, he, hfo⟩ := (cmdOK_iff cmd).mp hc
  have hf : ∀ v, vals.head? = some v → firstOK v = true := by
    intro v hv
    unfold positionOK at hp
    simp only [hv, Bool.and_eq_true] at hp
    exact hp.1
  have hl : ∀ v, vals.getLast? = some v → lastOK v = true := by
    intro v hv
    unfold positionOK at hp
    simp only [hv, Bool.and_eq_true] at hp
    exact hp.2
  -- the text of the line
  have hcb : NoBreak cmd := fun x hx =>
    ⟨(isWs_false_ne (hn.2.1 x hx).1).2.2.1, (isWs_false_ne (hn.2.1 x hx).1).2.1⟩
  have hline : serializeLine (cmd :: vals) = (cmd ++ pre vals) ++ [' '] := by
    rw [serializeLine_noBreak]
    · rw [List.flatMap_cons]
      have hd : dser cmd = cmd := by
        unfold dser
        have hsp : ' ' ∉ cmd := fun hin => (isWs_false_ne (hn.2.1 ' ' hin).1).1 rfl
        rw [serializeArg_bare hn.1 hsp hn.2.2]
        exact dbl_no_backslash cmd (fun x hx => (hn.2.1 x hx).2.2)
      rw [hd]
      simp only [List.append_assoc, List.singleton_append]
      rw [space_flatMap_eq]
    · intro a ha
      simp only [List.mem_cons] at ha
      rcases ha with rfl | ha
      · exact hcb
      · exact safe_noBreak (h a ha)
  rw [hline]
  obtain ⟨x, c', hxe, hx, hx1, _, _, _⟩ := nameOK_head hn
  have hx2 : x ≠ '!' := by
    have := hfo.2
    rw [hxe] at this
    simpa using this
  have htrim := trim_line cmd vals hn h hl
  rw [hxe, List.cons_append] at htrim
  rw [hxe, List.cons_append, parseLine_of_trim_cmd _ x _ htrim hx1 hx2]
  have hgen := parseCommandLine_cmd_gen none 0 none 0 0 cmd (pre vals)
    (by intro l hl; cases hl) (by intro o ho; cases ho)
    ⟨hn, fun _ => ⟨he, fun _ => hfo⟩⟩ (spTail_pre vals).bnd
    (by rw [(spTail_pre vals).afterTok]; exact noEqAhead_pre vals h hf)
  simp only [lblPart, outPart, List.nil_append] at hgen
  rw [(spTail_pre vals).afterTok, parseArguments_pre vals h, hxe, List.cons_append] at hgen
  exact hgen

/-! ### one rebuilt line is one instruction -/

theorem serializeLine_noLF (args : List Str) : ∀ c ∈ serializeLine args, c ≠ '\n' := by
  rw [serializeLine_eq]
  intro c hc
  unfold dbl at hc
  rw [List.mem_flatMap] at hc
  obtain ⟨x, hx, hcx⟩ := hc
  rw [List.mem_filter] at hx
  have hxn : x ≠ '\n' := by
    intro he
    have := hx.2
    rw [he] at this
    revert this
    decide
  unfold dblc at hcx
  split at hcx
  · simp at hcx
    subst hcx
    decide
  · simp at hcx
    subst hcx
    exact hxn

theorem serializeLine_ne_nil (a : Str) (as : List Str) : serializeLine (a :: as) ≠ [] := by
  rw [serializeLine_eq]
  apply dbl_ne_nil
  rw [List.flatMap_cons, List.append_assoc, List.filter_append, List.filter_append]
  intro he
  have := congrArg List.length he
  simp [keep] at this

theorem lines_serializeLine (a : Str) (as : List Str) :
    lines (serializeLine (a :: as)) = [serializeLine (a :: as)] :=
  lines_noLF _ (serializeLine_noLF _) (serializeLine_ne_nil a as)

def meta1 : Meta := { line := some 1, source := none }

/-- the rebuilt line parses to its single instruction (for a line that is not a directive) -/
theorem evalParse_of_parseLine (a : Str) (as : List Str) (ty : InstrType)
    (h : parseLine (serializeLine (a :: as)) = .ok ty) (hnp : ∀ c x, ty ≠ .preProcess c x) :
    evalParse (a :: as) = some ⟨meta1, ty⟩ := by
  unfold evalParse parseText parseTextFs
  rw [lines_serializeLine]
  unfold parseLinesWith
  rw [h]
  cases ty with
  | preProcess c x => exact absurd rfl (hnp c x)
  | empty => simp [parseLinesWith, meta1]
  | script si => simp [parseLinesWith, meta1]

theorem evalParse_of_parseLine_err (a : Str) (as : List Str) (e : PErr)
    (h : parseLine (serializeLine (a :: as)) = .error e) : evalParse (a :: as) = none := by
  unfold evalParse parseText parseTextFs
  rw [lines_serializeLine]
  unfold parseLinesWith
  rw [h]

/-- `instructions[0]` in `eval::parse` cannot panic: a rebuilt line never parses to an empty
    instruction list -/
theorem parseText_serializeLine_ne_nil (a : Str) (as : List Str) :
    parseText (serializeLine (a :: as)) ≠ .ok [] := by
  unfold parseText parseTextFs
  rw [lines_serializeLine]
  unfold parseLinesWith
  cases parseLine (serializeLine (a :: as)) with
  | error e => simp
  | ok ty =>
    cases ty with
    | empty => simp [parseLinesWith]
    | script si => simp [parseLinesWith]
    | preProcess c x =>
      simp only [parseLinesWith]
      cases runPre (parseFileF Fs.none 0) Fs.none { line := some 1, source := none } c x with
      | error e => simp
      | ok added => simp

/-! ### binding the re-parsed values again -/

/-- the characters the second binding is still holding back in mode `m` -/
def pfx : XMode → Str
  | .normal => []
  | .force => ['\\']
  | .dollar => ['$']

/-- the state of `expand_by_wrapper` in mode `m` with output buffer `out` -/
def stOf (out : Str) (m : XMode) : XSt :=
  { out := out,
    prefixIndex := (match m with | .dollar => 1 | _ => 0),
    foundPrefix := false, key := [],
    forcePush := (match m with | .force => true | _ => false),
    singleType := true }

def nextMode (m : XMode) (c : Char) : XMode :=
  match m with
  | .normal => if c = '\\' then .force else if c = '$' then .dollar else .normal
  | _ => .normal

def nextOut (out : Str) (m : XMode) (c : Char) : Str :=
  match m with
  | .normal => if c = '\\' then out else if c = '$' then out else out ++ [c]
  | .force => out ++ ['\\', c]
  | .dollar => out ++ ['$', c]

theorem xStable_cons {m : XMode} {c : Char} {t : Str} (h : xStable m (c :: t) = true) :
    c ≠ '%' ∧ (m = .force → c ≠ '$') ∧ (m = .dollar → c ≠ '{') ∧ xStable (nextMode m c) t = true := by
  unfold xStable at h
  by_cases hp : c = '%'
  · simp [hp] at h
  · simp only [hp, if_false] at h
    cases m with
    | normal =>
      refine ⟨hp, by simp, by simp, ?_⟩
      unfold nextMode
      simp only at h ⊢
      split
      · rename_i hb; simpa [hb] using h
      · rename_i hb
        split
        · rename_i hd; simpa [hb, hd] using h
        · rename_i hd; simpa [hb, hd] using h
    | force =>
      by_cases hd : c = '$'
      · simp [hd] at h
      · simp only [hd, if_false] at h
        exact ⟨hp, fun _ => hd, by simp, h⟩
    | dollar =>
      by_cases hd : c = '{'
      · simp [hd] at h
      · simp only [hd, if_false] at h
        exact ⟨hp, by simp, fun _ => hd, h⟩

theorem xStep_stable (vars : Vars) (out : Str) (m : XMode) (c : Char) (h1 : c ≠ '%')
    (h2 : m = .force → c ≠ '$') (h3 : m = .dollar → c ≠ '{') :
    xStep vars (stOf out m) c = stOf (nextOut out m c) (nextMode m c) ∧
      nextOut out m c ++ pfx (nextMode m c) = out ++ pfx m ++ [c] := by
  cases m with
  | normal =>
    by_cases hb : c = '\\'
    · subst hb; simp [xStep, stOf, nextOut, nextMode, pfx]
    · by_cases hd : c = '$'
      · subst hd; simp [xStep, stOf, nextOut, nextMode, pfx]
      · simp [xStep, stOf, nextOut, nextMode, pfx, hb, hd, h1]
  | force =>
    have hd := h2 rfl
    simp [xStep, stOf, nextOut, nextMode, pfx, hd, h1]
  | dollar =>
    have hd := h3 rfl
    by_cases hb : c = '\\'
    · subst hb; simp [xStep, stOf, nextOut, nextMode, pfx, pushPrefix]
    · by_cases hd2 : c = '$'
      · subst hd2; simp [xStep, stOf, nextOut, nextMode, pfx, pushPrefix]
      · simp [xStep, stOf, nextOut, nextMode, pfx, pushPrefix, hb, hd, hd2, h1]

theorem xFold_stable (vars : Vars) (v : Str) (out : Str) (m : XMode) (h : xStable m v = true) :
    ∃ out' m', v.foldl (xStep vars) (stOf out m) = stOf out' m' ∧
      out' ++ pfx m' = out ++ pfx m ++ v := by
  induction v generalizing out m with
  | nil => exact ⟨out, m, rfl, by simp⟩
  | cons c t ih =>
    obtain ⟨h1, h2, h3, h4⟩ := xStable_cons h
    obtain ⟨e1, e2⟩ := xStep_stable vars out m c h1 h2 h3
    obtain ⟨out', m', f1, f2⟩ := ih (nextOut out m c) (nextMode m c) h4
    refine ⟨out', m', ?_, ?_⟩
    · rw [List.foldl_cons, e1, f1]
    · rw [f2, e2]; simp

theorem xFinish_stOf (out : Str) (m : XMode) : xFinish (stOf out m) = (out ++ pfx m, true) := by
  cases m <;> simp [xFinish, stOf, pfx, pushPrefix]

theorem expand_plain (vars : Vars) (v : Str) (h : xStable .normal v = true) :
    expand vars v = if v.isEmpty then .none else .single v := by
  obtain ⟨out', m', f1, f2⟩ := xFold_stable vars v [] .normal h
  have e0 : ({} : XSt) = stOf [] .normal := rfl
  unfold expand
  rw [e0, f1, xFinish_stOf, f2]
  simp [pfx]

theorem bind_plain (vars : Vars) (vals : List Str) (h : ∀ v ∈ vals, xStable .normal v = true) :
    bind vars (if vals = [] then none else some vals) = vals := by
  by_cases hv : vals = []
  · subst hv; rfl
  · simp only [hv, if_false]
    unfold bind
    simp only [Option.getD_some]
    clear hv
    induction vals with
    | nil => rfl
    | cons a as ih =>
      rw [List.flatMap_cons, ih (fun v hv => h v (by simp [hv])), expand_plain vars a (h a (by simp))]
      cases a <;> simp

/-! ### outside `xStable`: a `%`, a `${` or a `\\$` -/

/-- the value contains `a` immediately followed by `b` -/
def hasPair (a b : Char) : Str → Bool
  | x :: y :: t => (x == a && y == b) || hasPair a b (y :: t)
  | _ => false

theorem hasPair_cons {a b : Char} (x : Char) {t : Str} (h : hasPair a b t = true) :
    hasPair a b (x :: t) = true := by
  cases t with
  | nil => simp [hasPair] at h
  | cons y t => simp [hasPair, h]

theorem hasChar_cons {c : Char} (x : Char) {t : Str} (h : hasChar t c = true) :
    hasChar (x :: t) c = true := by
  simp only [hasChar, List.any_cons, Bool.or_eq_true] at h ⊢
  exact Or.inr h

theorem not_xStable (m : XMode) (v : Str) (h : xStable m v = false) :
    hasChar v '%' = true ∨ hasPair '$' '{' (pfx m ++ v) = true ∨
      hasPair '\\' '$' (pfx m ++ v) = true := by
  induction v generalizing m with
  | nil => simp [xStable] at h
  | cons c t ih =>
    unfold xStable at h
    by_cases hp : c = '%'
    · subst hp; exact Or.inl (by simp [hasChar])
    · simp only [hp, if_false] at h
      cases m with
      | normal =>
        simp only at h
        simp only [pfx, List.nil_append]
        by_cases hb : c = '\\'
        · subst hb
          simp only [if_true] at h
          rcases ih .force h with a | a | a
          · exact Or.inl (hasChar_cons _ a)
          · exact Or.inr (Or.inl a)
          · exact Or.inr (Or.inr a)
        · by_cases hd : c = '$'
          · subst hd
            simp only [hb, if_false, if_true] at h
            rcases ih .dollar h with a | a | a
            · exact Or.inl (hasChar_cons _ a)
            · exact Or.inr (Or.inl a)
            · exact Or.inr (Or.inr a)
          · simp only [hb, hd, if_false] at h
            rcases ih .normal h with a | a | a
            · exact Or.inl (hasChar_cons _ a)
            · exact Or.inr (Or.inl (hasPair_cons _ a))
            · exact Or.inr (Or.inr (hasPair_cons _ a))
      | force =>
        simp only at h
        by_cases hd : c = '$'
        · subst hd; exact Or.inr (Or.inr (by simp [pfx, hasPair]))
        · simp only [hd, if_false] at h
          rcases ih .normal h with a | a | a
          · exact Or.inl (hasChar_cons _ a)
          · exact Or.inr (Or.inl (hasPair_cons _ (hasPair_cons _ a)))
          · exact Or.inr (Or.inr (hasPair_cons _ (hasPair_cons _ a)))
      | dollar =>
        simp only at h
        by_cases hd : c = '{'
        · subst hd; exact Or.inr (Or.inl (by simp [pfx, hasPair]))
        · simp only [hd, if_false] at h
          rcases ih .normal h with a | a | a
          · exact Or.inl (hasChar_cons _ a)
          · exact Or.inr (Or.inl (hasPair_cons _ (hasPair_cons _ a)))
          · exact Or.inr (Or.inr (hasPair_cons _ (hasPair_cons _ a)))

/-! ### evaluation helpers for concrete lines (fuel twins of the well-founded loop) -/

def parseArgsFuel (cac : Bool) : Nat → Str → Except PErr (List Str)
  | 0, _ => .ok []
  | n + 1, l =>
    match parseNextValue (argFlags cac) l with
    | .error e => .error e
    | .ok (_, none) => .ok []
    | .ok (r, some a) =>
      if r.length < l.length then
        match parseArgsFuel cac n r with
        | .error e => .error e
        | .ok as => .ok (a :: as)
      else .ok [a]

theorem parseArgsLoop_fuel (cac : Bool) : ∀ (n : Nat) (l : Str), l.length < n →
    parseArgsLoop cac l = parseArgsFuel cac n l := by
  intro n
  induction n with
  | zero => intro l h; omega
  | succ n ih =>
    intro l h
    rw [parseArgsLoop, parseArgsFuel]
    cases hpv : parseNextValue (argFlags cac) l with
    | error e => rfl
    | ok p =>
      obtain ⟨r, oa⟩ := p
      cases oa with
      | none => rfl
      | some a =>
        by_cases hlt : r.length < l.length
        · simp only [hlt, if_true]
          rw [ih r (by omega)]
          rfl
        · simp only [hlt, if_false]

theorem parseArgsLoop_eq (cac : Bool) (l : Str) :
    parseArgsLoop cac l = parseArgsFuel cac (l.length + 1) l :=
  parseArgsLoop_fuel cac _ l (by omega)

def parseArgumentsWithF (cac : Bool) (l : Str) : Except PErr (Option (List Str)) :=
  match parseArgsFuel cac (l.length + 1) l with
  | .error e => .error e
  | .ok [] => .ok none
  | .ok as => .ok (some as)

theorem parseArgumentsWith_eq (cac : Bool) (l : Str) :
    parseArgumentsWith cac l = parseArgumentsWithF cac l := by
  unfold parseArgumentsWith parseArgumentsWithF
  rw [parseArgsLoop_eq]
  rfl

def parseCommandLineF (l : Str) : Except PErr InstrType :=
  match l with
  | [] => .ok .empty
  | _ =>
    match findLabel l with
    | .error e => .error e
    | .ok (r1, label) =>
      match findOutputAndCommand r1 with
      | .error e => .error e
      | .ok (r2, output, command) =>
        match parseArgumentsWithF false r2 with
        | .error e => .error e
        | .ok args =>
          if label.isNone ∧ output.isNone ∧ command.isNone then .ok .empty
          else .ok (.script { label := label, output := output, command := command, args := args })

theorem parseCommandLine_eqF (l : Str) : parseCommandLine l = parseCommandLineF l := by
  unfold parseCommandLine parseCommandLineF parseArguments
  simp only [parseArgumentsWith_eq]
  rfl

/-- `parseLine` for a line that is not a directive -/
def parseLineF (line : Str) : Except PErr InstrType :=
  match trim line with
  | [] => .ok .empty
  | c :: rest =>
    if c = '#' then .ok .empty
    else if c = '!' then parsePreProcessLine rest
    else parseCommandLineF (c :: rest)

theorem parseLine_eqF (l : Str) : parseLine l = parseLineF l := by
  unfold parseLine parseLineF
  simp only [parseCommandLine_eqF]
  generalize trim l = t
  cases t <;> rfl

def expandF (vars : Vars) (value : Str) : Expanded :=
  let (out, single) := xFinish (value.foldl (xStep vars) {})
  if out.isEmpty then (if single then .none else .multi [])
  else if single then .single out
  else
    match parseArgumentsWithF true out with
    | .ok (some vs) => .multi vs
    | .ok none => .multi []
    | .error _ => .none

theorem expand_eqF (vars : Vars) (v : Str) : expand vars v = expandF vars v := by
  unfold expand expandF reparseArguments
  simp only [parseArgumentsWith_eq]
  rfl

def bindF (vars : Vars) (args : Option (List Str)) : List Str :=
  (args.getD []).flatMap fun a =>
    match expandF vars a with
    | .single v => [v]
    | .multi vs => vs
    | .none => [[]]

theorem bind_eqF (vars : Vars) (args : Option (List Str)) : bind vars args = bindF vars args := by
  unfold bind bindF
  simp only [expand_eqF]
  try rfl

/-- evaluation form of `arrive` -/
def arriveF (vars : Vars) (ty : InstrType) : Option Str × Option Str × List Str :=
  match ty with
  | .script si =>
    match si.command with
    | some c => (si.output, some c, bindF vars si.args)
    | none => (si.output, none, [])
  | _ => (none, none, [])

theorem arrive_eqF (vars : Vars) (m : Meta) (ty : InstrType) :
    arrive vars ⟨m, ty⟩ = arriveF vars ty := by
  unfold arrive arriveF
  simp only [bind_eqF]
  try rfl

/-- what `roundTripFull` computes, in a form that reduces by evaluation -/
def rtEval (vars : Vars) (vals : List Str) : Option (Option Str × Option Str × List Str) :=
  match vals with
  | [] => some (none, none, [])
  | _ =>
    match parseLineF (serializeLine vals) with
    | .error _ => none
    | .ok (.preProcess _ _) => none
    | .ok ty => some (arriveF vars ty)

/-- for a rebuilt line that is not a directive, `roundTripFull` is `rtEval` -/
theorem roundTripFull_eval (vars : Vars) (vals : List Str)
    (hnp : ∀ c x, parseLineF (serializeLine vals) ≠ .ok (.preProcess c x)) :
    roundTripFull vars vals = rtEval vars vals := by
  cases vals with
  | nil => rfl
  | cons a as =>
    unfold roundTripFull rtEval
    simp only
    cases hpl : parseLineF (serializeLine (a :: as)) with
    | error e =>
      rw [evalParse_of_parseLine_err a as e (by rw [parseLine_eqF]; exact hpl)]
      rfl
    | ok ty =>
      have hnp' : ∀ c x, ty ≠ .preProcess c x := by
        intro c x he
        exact hnp c x (by rw [hpl, he])
      rw [evalParse_of_parseLine a as ty (by rw [parseLine_eqF]; exact hpl) hnp']
      cases ty with
      | preProcess c x => exact absurd rfl (hnp' c x)
      | empty => simp [arrive_eqF]
      | script si => simp [arrive_eqF]

/-- the rebuilt line is a `!directive` -/
def isPre : Except PErr InstrType → Bool
  | .ok (.preProcess _ _) => true
  | _ => false

theorem roundTripFull_evalB (vars : Vars) (vals : List Str)
    (h : isPre (parseLineF (serializeLine vals)) = false) :
    roundTripFull vars vals = rtEval vars vals := by
  apply roundTripFull_eval
  intro c x he
  rw [he] at h
  simp [isPre] at h

/-- `roundTrip` by evaluation (all functions on the right reduce structurally) -/
theorem roundTrip_eval (vars : Vars) (vals : List Str)
    (h : isPre (parseLineF (serializeLine vals)) = false) :
    roundTrip vars vals = (rtEval vars vals).map fun r => (r.2.1, r.2.2) := by
  unfold roundTrip
  rw [roundTripFull_evalB vars vals h]

end Reser
end Duck
