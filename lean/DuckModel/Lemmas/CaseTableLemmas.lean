/-
  Helper lemmas for the C16 case-mapping theorems (Props/C16Case.lean), part 1: bit masks,
  association lists, and the kernel-evaluated facts about the generated tables.

  Facts about the generated tables are obtained by kernel evaluation.  The kernel evaluates a
  few thousand list steps per second only, so quadratic questions ("no target of the table is a
  key of the table") are asked of BIT MASKS: a set of code points is the natural number with
  exactly those bits set; `|||`, `&&&`, `%`, `<<<` on literals are single GMP operations in the
  kernel.  `testBit_maskOf` / `testBit_rangeMask` tie the masks back to list membership.
-/
import DuckModel.Sdk.CaseMap
import DuckModel.UnicodeLower

namespace Duck.UCase
open Duck

/-! ### characters and code points -/

def validCp (n : Nat) : Bool := Nat.blt n 0xD800 || (Nat.blt 0xDFFF n && Nat.blt n 0x110000)

theorem toNat_ofNat_valid (n : Nat) (h : validCp n = true) : (Char.ofNat n).toNat = n := by
  have hv : n.isValidChar := by
    simp only [validCp, Nat.blt_eq, Bool.or_eq_true, Bool.and_eq_true] at h
    rcases h with h | ⟨h1, h2⟩
    · exact Or.inl h
    · exact Or.inr ⟨h1, h2⟩
  simp [Char.ofNat, hv, Char.ofNatAux, Char.toNat]

theorem char_eq_of_toNat_eq {a b : Char} (h : a.toNat = b.toNat) : a = b := by
  rw [← Char.ofNat_toNat a, ← Char.ofNat_toNat b, h]

/-! ### bit masks -/

/-- the number whose set bits are the members of the list -/
def maskOf : List Nat → Nat
  | [] => 0
  | k :: r => (1 <<< k) ||| maskOf r

theorem testBit_maskOf (l : List Nat) (k : Nat) : (maskOf l).testBit k = decide (k ∈ l) := by
  induction l with
  | nil => simp [maskOf]
  | cons a r ih =>
    simp only [maskOf, Nat.testBit_or, ih, Nat.one_shiftLeft, Nat.testBit_two_pow, List.mem_cons]
    by_cases h : a = k
    · subst h; simp
    · have h' : ¬ k = a := fun e => h e.symm
      simp [h, h']

/-- the number whose set bits are the members of the inclusive ranges -/
def rangeMask : List (Nat × Nat) → Nat
  | [] => 0
  | r :: rest => ((2 ^ (r.2 + 1 - r.1) - 1) <<< r.1) ||| rangeMask rest

theorem testBit_rangeMask (rs : List (Nat × Nat)) (k : Nat) :
    (rangeMask rs).testBit k = inRanges rs k := by
  induction rs with
  | nil => simp [rangeMask, inRanges]
  | cons r rest ih =>
    have ih' : (rangeMask rest).testBit k = rest.any fun r => decide (r.1 ≤ k) && decide (k ≤ r.2) := ih
    simp only [rangeMask, Nat.testBit_or, ih', Nat.testBit_shiftLeft, Nat.testBit_two_pow_sub_one,
      inRanges, List.any_cons]
    congr 1
    by_cases h1 : r.1 ≤ k <;> by_cases h2 : k ≤ r.2 <;> simp [h1, h2] <;> omega

/-! ### association lists -/

def keysOf (m : List (Nat × List Nat)) : List Nat := m.map (·.1)
def targetsOf (m : List (Nat × List Nat)) : List Nat := m.flatMap (·.2)

theorem lookup_none_of_not_key {m : List (Nat × List Nat)} {n : Nat} (h : n ∉ keysOf m) :
    m.lookup n = none := by
  rw [List.lookup_eq_none_iff]
  intro p hp
  simp only [bne_iff_ne, ne_eq]
  intro e
  exact h (by simp only [keysOf, List.mem_map]; exact ⟨p, hp, e.symm⟩)

theorem key_of_lookup_some {m : List (Nat × List Nat)} {n : Nat} {l : List Nat}
    (h : m.lookup n = some l) : (n, l) ∈ m := by
  induction m with
  | nil => simp at h
  | cons e r ih =>
    obtain ⟨k, b⟩ := e
    rw [List.lookup_cons] at h
    by_cases hk : n = k
    · subst hk
      simp at h
      subst h
      exact List.mem_cons_self
    · have : (n == k) = false := by simpa using hk
      rw [this] at h
      exact List.mem_cons_of_mem _ (ih h)

theorem lookup_isSome_iff_key {m : List (Nat × List Nat)} {n : Nat} :
    (m.lookup n).isSome = true ↔ n ∈ keysOf m := by
  constructor
  · intro h
    cases hl : m.lookup n with
    | none => simp [hl] at h
    | some l =>
      have := key_of_lookup_some hl
      simp only [keysOf, List.mem_map]
      exact ⟨(n, l), this, rfl⟩
  · intro h
    cases hl : m.lookup n with
    | none =>
      rw [List.lookup_eq_none_iff] at hl
      simp only [keysOf, List.mem_map] at h
      obtain ⟨p, hp, e⟩ := h
      have := hl p hp
      simp [e] at this
    | some l => rfl

/-! ### what is checked of a table entry: targets are scalar values, one to three of them, and
    the first one differs from the key -/

def entryOk (e : Nat × List Nat) : Bool :=
  e.2.all validCp && Nat.ble 1 e.2.length && Nat.ble e.2.length 3 &&
    (match e.2 with | [] => false | h :: _ => !Nat.beq h e.1)

/-- a table whose entries are well formed and none of whose targets is a key -/
structure GoodTable (m : List (Nat × List Nat)) : Prop where
  entries : m.all entryOk = true
  disjoint : maskOf (keysOf m) &&& maskOf (targetsOf m) = 0

theorem GoodTable.entry {m} (g : GoodTable m) {n : Nat} {l : List Nat} (h : m.lookup n = some l) :
    (∀ t ∈ l, validCp t = true) ∧ 1 ≤ l.length ∧ l.length ≤ 3 ∧
      ∃ a r, l = a :: r ∧ a ≠ n := by
  have hm := key_of_lookup_some h
  have he := List.all_eq_true.mp g.entries _ hm
  simp only [entryOk, Bool.and_eq_true, List.all_eq_true, Nat.ble_eq] at he
  obtain ⟨⟨⟨h1, h2⟩, h3⟩, h4⟩ := he
  refine ⟨h1, h2, h3, ?_⟩
  cases l with
  | nil => simp at h4
  | cons a r =>
    refine ⟨a, r, rfl, ?_⟩
    intro e
    subst e
    simp [Nat.beq_refl] at h4

theorem GoodTable.target_not_key {m} (g : GoodTable m) {n : Nat} {l : List Nat}
    (h : m.lookup n = some l) {t : Nat} (ht : t ∈ l) : m.lookup t = none := by
  apply lookup_none_of_not_key
  intro hk
  have h1 : (maskOf (keysOf m)).testBit t = true := by rw [testBit_maskOf]; simpa using hk
  have h2 : (maskOf (targetsOf m)).testBit t = true := by
    rw [testBit_maskOf]
    simp only [targetsOf, List.mem_flatMap, decide_eq_true_eq]
    exact ⟨(n, l), key_of_lookup_some h, ht⟩
  have h3 := Nat.testBit_and (maskOf (keysOf m)) (maskOf (targetsOf m)) t
  rw [g.disjoint, h1, h2] at h3
  simp at h3

/-! ### `mapChar` over a good table -/

theorem mapChar_none {m} {c : Char} (h : m.lookup c.toNat = none) : mapChar m c = [c] := by
  simp [mapChar, h]

theorem mapChar_some {m} {c : Char} {l} (h : m.lookup c.toNat = some l) :
    mapChar m c = l.map Char.ofNat := by
  simp [mapChar, h]

/-- every character a good table produces is left alone by the table -/
theorem GoodTable.out_fixed {m} (g : GoodTable m) (c d : Char) (hd : d ∈ mapChar m c) :
    m.lookup d.toNat = none := by
  cases h : m.lookup c.toNat with
  | none =>
    rw [mapChar_none h] at hd
    simp at hd
    subst hd
    exact h
  | some l =>
    rw [mapChar_some h, List.mem_map] at hd
    obtain ⟨t, ht, rfl⟩ := hd
    rw [toNat_ofNat_valid t ((g.entry h).1 t ht)]
    exact g.target_not_key h ht

theorem GoodTable.length_bounds {m} (g : GoodTable m) (c : Char) :
    1 ≤ (mapChar m c).length ∧ (mapChar m c).length ≤ 3 := by
  cases h : m.lookup c.toNat with
  | none => rw [mapChar_none h]; simp
  | some l =>
    rw [mapChar_some h, List.length_map]
    exact ⟨(g.entry h).2.1, (g.entry h).2.2.1⟩

/-- a character the table changes is changed at the very first character of the output -/
theorem GoodTable.head_ne {m} (g : GoodTable m) (c : Char) (h : m.lookup c.toNat ≠ none) :
    ∃ a r, mapChar m c = a :: r ∧ a ≠ c := by
  cases hl : m.lookup c.toNat with
  | none => exact absurd hl h
  | some l =>
    obtain ⟨hv, _, _, a, r, rfl, hne⟩ := g.entry hl
    refine ⟨Char.ofNat a, r.map Char.ofNat, by rw [mapChar_some hl]; rfl, ?_⟩
    intro e
    have := congrArg Char.toNat e
    rw [toNat_ofNat_valid a (hv a (by simp))] at this
    exact hne this

/-- a text of characters the table leaves alone is left alone -/
theorem flatMap_mapChar_fixed {m} (s : Str) (h : ∀ c ∈ s, m.lookup c.toNat = none) :
    s.flatMap (mapChar m) = s := by
  induction s with
  | nil => rfl
  | cons c r ih =>
    rw [List.flatMap_cons, mapChar_none (h c (by simp)), ih (fun d hd => h d (by simp [hd]))]
    rfl

/-! ### the two tables of the toolchain -/

theorem lowerGood : GoodTable lowerMap := ⟨by decide +kernel, by decide +kernel⟩
theorem upperGood : GoodTable upperMap := ⟨by decide +kernel, by decide +kernel⟩

/-- the keys of `lowerMap` are the ASCII capitals and the table of UnicodeLower.lean (the table
    the linter model of C20 uses): the two generated tables agree -/
theorem lowerKeys_mask : maskOf (keysOf lowerMap) = rangeMask ((65, 90) :: notLowerRanges) := by
  decide +kernel

theorem lowerKeys_ascii : maskOf (keysOf lowerMap) % 2 ^ 128 = rangeMask [(65, 90)] := by
  decide +kernel
theorem upperKeys_ascii : maskOf (keysOf upperMap) % 2 ^ 128 = rangeMask [(97, 122)] := by
  decide +kernel

theorem lower_ascii_capitals :
    (List.range' 65 26).all (fun n => lowerMap.lookup n == some [n + 32]) = true := by
  decide +kernel
theorem upper_ascii_smalls :
    (List.range' 97 26).all (fun n => upperMap.lookup n == some [n - 32]) = true := by
  decide +kernel

theorem lower_sigma : lowerMap.lookup 0x3A3 = some [0x3C3] := by decide +kernel
theorem lower_final_sigma_fixed : lowerMap.lookup 0x3C2 = none := by decide +kernel

theorem lower_key_iff (n : Nat) :
    n ∈ keysOf lowerMap ↔ inRanges ((65, 90) :: notLowerRanges) n = true := by
  have h1 := testBit_maskOf (keysOf lowerMap) n
  rw [lowerKeys_mask, testBit_rangeMask] at h1
  rw [h1]
  simp

theorem lower_lookup_ascii (n : Nat) (h : n < 128) :
    lowerMap.lookup n = if 65 ≤ n ∧ n ≤ 90 then some [n + 32] else none := by
  by_cases hc : 65 ≤ n ∧ n ≤ 90
  · rw [if_pos hc]
    have := List.all_eq_true.mp lower_ascii_capitals n (by rw [List.mem_range'_1]; omega)
    simpa using this
  · rw [if_neg hc]
    apply lookup_none_of_not_key
    intro hk
    have h1 : (maskOf (keysOf lowerMap) % 2 ^ 128).testBit n = true := by
      rw [Nat.testBit_mod_two_pow, testBit_maskOf]; simpa using ⟨h, hk⟩
    rw [lowerKeys_ascii, testBit_rangeMask] at h1
    simp [inRanges] at h1
    exact hc h1

theorem upper_lookup_ascii (n : Nat) (h : n < 128) :
    upperMap.lookup n = if 97 ≤ n ∧ n ≤ 122 then some [n - 32] else none := by
  by_cases hc : 97 ≤ n ∧ n ≤ 122
  · rw [if_pos hc]
    have := List.all_eq_true.mp upper_ascii_smalls n (by rw [List.mem_range'_1]; omega)
    simpa using this
  · rw [if_neg hc]
    apply lookup_none_of_not_key
    intro hk
    have h1 : (maskOf (keysOf upperMap) % 2 ^ 128).testBit n = true := by
      rw [Nat.testBit_mod_two_pow, testBit_maskOf]; simpa using ⟨h, hk⟩
    rw [upperKeys_ascii, testBit_rangeMask] at h1
    simp [inRanges] at h1
    exact hc h1

end Duck.UCase
