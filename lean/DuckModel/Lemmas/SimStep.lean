/-
  Helper lemmas for the C04 simulation theorem — part 2: one machine step per command result,
  the condition lemma (conditions of the fragment never run commands) and the straight-line
  command lemma (the seven plain commands only touch the observable part of the state).
-/
import DuckModel.Lemmas.SimLemmas

namespace Duck
open Duck.Spec Duck.Generated

/-! ### one step of the runner on a command line -/

theorem runStep_cmd_continue (nested : EvalFn) (is : List Instruction) (l p : Nat) (v : Vars) (s : Sdk)
    (mi : Meta) (out : Option Str) (cmd : Str) (args : List Str) (c : Cmd) (val : Option Str)
    (v' : Vars) (s' : Sdk)
    (hi : is[l]? = some ⟨mi, .script (mkInstr out cmd args)⟩)
    (hc : resolveCmd s cmd = some c)
    (hr : runCmdF nested is 3 c (bind v (some args)) out l v s = (.continue val, v', s')) :
    runStep (sdkSem nested is) is (labelTable is) (fun _ _ => false) ⟨l, p, v, s⟩ =
      .inl ⟨l + 1, p + 1, Vars.updateOutput v' out val, s'⟩ := by
  unfold runStep
  simp only [Bool.false_eq_true, if_false, hi, runInstruction, mkInstr, sdkSem, hc, bind_mkArgs, hr]

theorem runStep_cmd_goto (nested : EvalFn) (is : List Instruction) (l p : Nat) (v : Vars) (s : Sdk)
    (mi : Meta) (out : Option Str) (cmd : Str) (args : List Str) (c : Cmd) (val : Option Str)
    (n : Nat) (v' : Vars) (s' : Sdk)
    (hi : is[l]? = some ⟨mi, .script (mkInstr out cmd args)⟩)
    (hc : resolveCmd s cmd = some c)
    (hr : runCmdF nested is 3 c (bind v (some args)) out l v s = (.goTo val (.line n), v', s')) :
    runStep (sdkSem nested is) is (labelTable is) (fun _ _ => false) ⟨l, p, v, s⟩ =
      .inl ⟨n, p + 1, Vars.updateOutput v' out val, s'⟩ := by
  unfold runStep
  simp only [Bool.false_eq_true, if_false, hi, runInstruction, mkInstr, sdkSem, hc, bind_mkArgs, hr]

theorem resolve_onError_empty : resolveCmd {} onErrorName = none := by decide

theorem runStep_cmd_error (nested : EvalFn) (is : List Instruction) (l p : Nat) (v : Vars) (s : Sdk)
    (mi : Meta) (out : Option Str) (cmd : Str) (args : List Str) (c : Cmd) (e : Str)
    (v' : Vars) (s' : Sdk)
    (hi : is[l]? = some ⟨mi, .script (mkInstr out cmd args)⟩)
    (hc : resolveCmd s cmd = some c)
    (hr : runCmdF nested is 3 c (bind v (some args)) out l v s = (.error e, v', s'))
    (hf : s'.fns = []) :
    runStep (sdkSem nested is) is (labelTable is) (fun _ _ => false) ⟨l, p, v, s⟩ =
      .inl ⟨l + 1, p + 1, Vars.updateOutput v' out (some "false".toList), s'⟩ := by
  have hoe : resolveCmd s' onErrorName = none :=
    resolveCmd_none_of_empty s' hf (by rw [resolve_onError_empty]; rfl)
  unfold runStep
  simp only [Bool.false_eq_true, if_false, hi, runInstruction, mkInstr, sdkSem, hc, bind_mkArgs, hr,
    runOnError, hoe]

/-! ### conditions of the fragment -/

/-- the verdict of the boolean-expression evaluator, in the shape `evalCondition` returns it -/
def condVal (args : List Str) : Except Unit Bool :=
  match evalSlice args with
  | .ok b => .ok b
  | .error _ => .error ()

theorem evalCondition_slice (nested : EvalFn) (is : List Instruction) (first : Str) (rest : List Str)
    (v : Vars) (s : Sdk) (h : resolveCmd s first = none) :
    evalCondition nested is (first :: rest) v s = (condVal (first :: rest), v, s) := by
  unfold evalCondition condVal
  simp only [h, Option.isSome_none, Bool.false_eq_true, if_false]
  cases evalSlice (first :: rest) <;> rfl

theorem condSimple_bind {cond : List Str} (vars : Vars) (hc : condSimple cond = true) :
    ∃ h rest, bind vars (some cond) = h :: rest ∧ (resolveCmd {} h).isNone = true := by
  cases cond with
  | nil => simp [condSimple] at hc
  | cons h rest =>
    simp only [condSimple, Bool.and_eq_true] at hc
    exact ⟨h, bind vars (some rest), bind_cons_literal vars h rest hc.1.1, hc.2⟩

/-- machine side: a simple condition is decided by `condVal` and leaves variables and state alone -/
theorem evalCondition_simple (nested : EvalFn) (is : List Instruction) (cond : List Str) (v : Vars)
    (s : Sdk) (hc : condSimple cond = true) (hf : s.fns = []) :
    evalCondition nested is (bind v (some cond)) v s = (condVal (bind v (some cond)), v, s) := by
  obtain ⟨h, rest, hb, hn⟩ := condSimple_bind v hc
  rw [hb]
  exact evalCondition_slice nested is h rest v s (resolveCmd_none_of_empty s hf hn)

theorem condSimple_bind_ne {cond : List Str} (vars : Vars) (hc : condSimple cond = true) :
    (bind vars (some cond)).isEmpty = false := by
  obtain ⟨h, rest, hb, _⟩ := condSimple_bind vars hc
  rw [hb]; rfl

/-- tree side -/
theorem evalCond_simple (is : List Instruction) (fuel : Nat) (cond : List Str) (t : TState)
    (hc : condSimple cond = true) (hf : t.fns = []) (hsf : t.sdk.fns = []) :
    evalCond is (fuel + 1) cond t =
      match condVal (bind t.vars (some cond)) with
      | .ok b => some (b, t)
      | .error _ => none := by
  obtain ⟨h, rest, hb, hn⟩ := condSimple_bind t.vars hc
  have he := evalCondition_slice (evalInstrsF fuel) is h rest t.vars t.sdk
    (resolveCmd_none_of_empty t.sdk hsf hn)
  obtain ⟨tv, ts, tf, td⟩ := t
  simp only at hf hb he
  subst hf
  unfold evalCond
  simp only [bind_mkArgs, hb, lookupFn, he]
  cases condVal (h :: rest) <;> rfl

/-! ### straight-line commands of the fragment -/

def SimpleCmd (c : Cmd) : Prop :=
  c = .set ∨ c = .equals ∨ c = .array ∨ c = .range ∨ c = .emit ∨ c = .inc ∨ c = .lt

theorem isSimpleCmd_resolve {cmd : Str} (h : isSimpleCmd cmd = true) :
    ∃ c, resolveCmd {} cmd = some c ∧ SimpleCmd c := by
  unfold isSimpleCmd at h
  split at h <;> first
    | (rename_i hc; exact ⟨_, hc, by simp [SimpleCmd]⟩)
    | simp at h

/-- a plain command of the fragment reads and writes only `handles / nextHandle / emitted`,
    never the variables, and does not depend on the line, the program or the nested evaluator -/
theorem simple_cmd (c : Cmd) (hc : SimpleCmd c) (args : List Str) (H : KV (List Str)) (N : Nat)
    (E : List (List Str)) :
    ∃ (r : CmdResult) (hd : KV (List Str)) (nx : Nat) (em : List (List Str)),
      (∀ (nested : EvalFn) (is : List Instruction) (out : Option Str) (line : Nat) (vars : Vars)
          (s : Sdk), s.handles = H → s.nextHandle = N → s.emitted = E →
        runCmdF nested is 3 c args out line vars s =
          (r, vars, { s with handles := hd, nextHandle := nx, emitted := em })) ∧
      ((hd = H ∧ nx = N) ∨ (∃ items, hd = H.put (handleName N) items ∧ nx = N + 1)) ∧
      (∀ val g, r ≠ .goTo val g) ∧ (∀ val, r ≠ .exit val) := by
  rcases hc with rfl | rfl | rfl | rfl | rfl | rfl | rfl
  · -- set
    rcases args with _ | ⟨a, _ | ⟨b, rest⟩⟩
    · exact ⟨.continue none, H, N, E, fun _ _ _ _ _ s h1 h2 h3 => by subst h1 h2 h3; rfl,
        .inl ⟨rfl, rfl⟩, by simp, by simp⟩
    · exact ⟨.continue (some a), H, N, E, fun _ _ _ _ _ s h1 h2 h3 => by subst h1 h2 h3; rfl,
        .inl ⟨rfl, rfl⟩, by simp, by simp⟩
    · exact ⟨.crash "unmodelled set form".toList, H, N, E,
        fun _ _ _ _ _ s h1 h2 h3 => by subst h1 h2 h3; rfl, .inl ⟨rfl, rfl⟩, by simp, by simp⟩
  · -- equals
    rcases args with _ | ⟨a, _ | ⟨b, rest⟩⟩
    · exact ⟨errR, H, N, E, fun _ _ _ _ _ s h1 h2 h3 => by subst h1 h2 h3; rfl,
        .inl ⟨rfl, rfl⟩, by simp [errR], by simp [errR]⟩
    · exact ⟨errR, H, N, E, fun _ _ _ _ _ s h1 h2 h3 => by subst h1 h2 h3; rfl,
        .inl ⟨rfl, rfl⟩, by simp [errR], by simp [errR]⟩
    · exact ⟨.continue (some (if a = b then "true".toList else "false".toList)), H, N, E,
        fun _ _ _ _ _ s h1 h2 h3 => by subst h1 h2 h3; rfl, .inl ⟨rfl, rfl⟩, by simp, by simp⟩
  · -- array
    exact ⟨.continue (some (handleName N)), H.put (handleName N) args, N + 1, E,
      fun _ _ _ _ _ s h1 h2 h3 => by subst h1 h2 h3; rfl, .inr ⟨args, rfl, rfl⟩, by simp, by simp⟩
  · -- range
    rcases args with _ | ⟨a, _ | ⟨b, _ | ⟨c, rest⟩⟩⟩
    · exact ⟨errR, H, N, E, fun _ _ _ _ _ s h1 h2 h3 => by subst h1 h2 h3; rfl,
        .inl ⟨rfl, rfl⟩, by simp [errR], by simp [errR]⟩
    · exact ⟨errR, H, N, E, fun _ _ _ _ _ s h1 h2 h3 => by subst h1 h2 h3; rfl,
        .inl ⟨rfl, rfl⟩, by simp [errR], by simp [errR]⟩
    · cases hx : decDigits? a with
      | none =>
        exact ⟨.crash "unmodelled range form".toList, H, N, E,
          fun _ _ _ _ _ s h1 h2 h3 => by
            subst h1 h2 h3; simp only [runCmdF, runCmd, hx],
          .inl ⟨rfl, rfl⟩, by simp, by simp⟩
      | some x =>
        cases hy : decDigits? b with
        | none =>
          exact ⟨.crash "unmodelled range form".toList, H, N, E,
            fun _ _ _ _ _ s h1 h2 h3 => by
              subst h1 h2 h3; simp only [runCmdF, runCmd, hx, hy],
            .inl ⟨rfl, rfl⟩, by simp, by simp⟩
        | some y =>
          by_cases hxy : x > y
          · exact ⟨errR, H, N, E,
              fun _ _ _ _ _ s h1 h2 h3 => by
                subst h1 h2 h3; simp only [runCmdF, runCmd, hx, hy, hxy, if_true],
              .inl ⟨rfl, rfl⟩, by simp [errR], by simp [errR]⟩
          · exact ⟨.continue (some (handleName N)),
              H.put (handleName N) ((List.range (y - x)).map fun i => natToStr (x + i)), N + 1, E,
              fun _ _ _ _ _ s h1 h2 h3 => by
                subst h1 h2 h3; simp only [runCmdF, runCmd, hx, hy, hxy, if_false],
              .inr ⟨_, rfl, rfl⟩, by simp, by simp⟩
    · exact ⟨errR, H, N, E, fun _ _ _ _ _ s h1 h2 h3 => by subst h1 h2 h3; rfl,
        .inl ⟨rfl, rfl⟩, by simp [errR], by simp [errR]⟩
  · -- emit
    exact ⟨.continue none, H, N, E ++ [args],
      fun _ _ _ _ _ s h1 h2 h3 => by subst h1 h2 h3; rfl, .inl ⟨rfl, rfl⟩, by simp, by simp⟩
  · -- inc
    rcases args with _ | ⟨a, _ | ⟨b, rest⟩⟩
    · exact ⟨errR, H, N, E, fun _ _ _ _ _ s h1 h2 h3 => by subst h1 h2 h3; rfl,
        .inl ⟨rfl, rfl⟩, by simp [errR], by simp [errR]⟩
    · cases hx : decDigits? a with
      | none =>
        exact ⟨.continue (some "1".toList), H, N, E,
          fun _ _ _ _ _ s h1 h2 h3 => by subst h1 h2 h3; simp only [runCmdF, runCmd, hx],
          .inl ⟨rfl, rfl⟩, by simp, by simp⟩
      | some n =>
        exact ⟨.continue (some (natToStr (n + 1))), H, N, E,
          fun _ _ _ _ _ s h1 h2 h3 => by subst h1 h2 h3; simp only [runCmdF, runCmd, hx],
          .inl ⟨rfl, rfl⟩, by simp, by simp⟩
    · exact ⟨errR, H, N, E, fun _ _ _ _ _ s h1 h2 h3 => by subst h1 h2 h3; rfl,
        .inl ⟨rfl, rfl⟩, by simp [errR], by simp [errR]⟩
  · -- lt
    rcases args with _ | ⟨a, _ | ⟨b, _ | ⟨c, rest⟩⟩⟩
    · exact ⟨errR, H, N, E, fun _ _ _ _ _ s h1 h2 h3 => by subst h1 h2 h3; rfl,
        .inl ⟨rfl, rfl⟩, by simp [errR], by simp [errR]⟩
    · exact ⟨errR, H, N, E, fun _ _ _ _ _ s h1 h2 h3 => by subst h1 h2 h3; rfl,
        .inl ⟨rfl, rfl⟩, by simp [errR], by simp [errR]⟩
    · cases hx : decDigits? a with
      | none =>
        exact ⟨.continue (some "false".toList), H, N, E,
          fun _ _ _ _ _ s h1 h2 h3 => by subst h1 h2 h3; simp only [runCmdF, runCmd, hx],
          .inl ⟨rfl, rfl⟩, by simp, by simp⟩
      | some x =>
        cases hy : decDigits? b with
        | none =>
          exact ⟨.continue (some "false".toList), H, N, E,
            fun _ _ _ _ _ s h1 h2 h3 => by subst h1 h2 h3; simp only [runCmdF, runCmd, hx, hy],
            .inl ⟨rfl, rfl⟩, by simp, by simp⟩
        | some y =>
          exact ⟨.continue (some (if x < y then "true".toList else "false".toList)), H, N, E,
            fun _ _ _ _ _ s h1 h2 h3 => by subst h1 h2 h3; simp only [runCmdF, runCmd, hx, hy],
            .inl ⟨rfl, rfl⟩, by simp, by simp⟩
    · exact ⟨errR, H, N, E, fun _ _ _ _ _ s h1 h2 h3 => by subst h1 h2 h3; rfl,
        .inl ⟨rfl, rfl⟩, by simp [errR], by simp [errR]⟩

end Duck
