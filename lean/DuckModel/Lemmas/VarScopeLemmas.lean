/-
  Lookup lemmas for the association-list model of the variable map and the scope stack
  (used by Props/C11.lean).
-/
import DuckModel.Sdk.VarScope
import DuckModel.Spec.MapStack
import DuckModel.Lemmas.ConditionLemmas

namespace Duck.VarScope
open Duck Duck.Spec.MapStack

/-! ### `Vars` lookups -/

theorem get_filter (m : Vars) (f : Str → Bool) (x : Str) :
    Vars.get (m.filter fun kv => f kv.1) x = if f x = true then Vars.get m x else none := by
  induction m with
  | nil => simp [Vars.get]
  | cons p rest ih =>
    obtain ⟨k, v⟩ := p
    by_cases hk : f k = true
    · simp only [List.filter_cons, hk, if_true, Vars.get]
      by_cases hx : k = x
      · subst hx; simp [hk]
      · simp [hx, ih]
    · simp only [List.filter_cons, hk, Vars.get]
      by_cases hx : k = x
      · subst hx; simp [hk, ih]
      · simp [hx, ih]

theorem get_erase (m : Vars) (k x : Str) :
    Vars.get (m.erase k) x = if x = k then none else Vars.get m x := by
  have := get_filter m (fun a => decide (a ≠ k)) x
  simp only [Vars.erase]
  rw [this]
  by_cases h : x = k <;> simp [h]

theorem get_set (m : Vars) (k v x : Str) :
    Vars.get (m.set k v) x = if x = k then some v else Vars.get m x := by
  simp only [Vars.set, Vars.get]
  by_cases h : k = x
  · subst h; simp
  · have h' : ¬ x = k := fun e => h e.symm
    simp [h, h', get_erase]

theorem get_dropPrefix (m : Vars) (p x : Str) :
    Vars.get (dropPrefix m p) x = if p.isPrefixOf x = true then none else Vars.get m x := by
  have := get_filter m (fun a => !(p.isPrefixOf a)) x
  simp only [dropPrefix]
  rw [this]
  by_cases h : p.isPrefixOf x = true <;> simp [h]

theorem get_eraseAll (m : Vars) (ks : List Str) (x : Str) :
    Vars.get (eraseAll m ks) x = if x ∈ ks then none else Vars.get m x := by
  induction ks generalizing m with
  | nil => simp [eraseAll]
  | cons k ks ih =>
    simp only [eraseAll, ih, get_erase, List.mem_cons]
    by_cases h1 : x ∈ ks <;> by_cases h2 : x = k <;> simp [h1, h2]

theorem get_insertAll (base l : Vars) (x : Str) :
    Vars.get (insertAll base l) x =
      match Vars.get l x with
      | some v => some v
      | none => Vars.get base x := by
  induction l with
  | nil => simp [insertAll, Vars.get]
  | cons p rest ih =>
    obtain ⟨k, v⟩ := p
    simp only [insertAll, get_set, Vars.get]
    by_cases h : k = x
    · subst h; simp
    · have h' : ¬ x = k := fun e => h e.symm
      simp [h, h', ih]

theorem get_insertAll_nil (l : Vars) (x : Str) : Vars.get (insertAll [] l) x = Vars.get l x := by
  rw [get_insertAll]
  cases Vars.get l x <;> simp [Vars.get]

/-- pop's rebuild: saved map first, then the copied names on top -/
theorem get_popMap (old new : Vars) (x : Str) :
    Vars.get (insertAll (insertAll [] old) new) x =
      match Vars.get new x with
      | some v => some v
      | none => Vars.get old x := by
  rw [get_insertAll, get_insertAll_nil]

/-- the copy loop: with `new` disjoint from `vars`, the names of the list that are defined
    move to `new` with their values -/
theorem get_copyLoop (vars new : Vars) (ks : List Str) (x : Str)
    (hd : ∀ y, (Vars.get new y).isSome → Vars.get vars y = none) :
    Vars.get (copyLoop vars new ks).2 x =
      match Vars.get new x with
      | some v => some v
      | none => if x ∈ ks then Vars.get vars x else none := by
  induction ks generalizing vars new with
  | nil => simp only [copyLoop, List.not_mem_nil, if_false]; cases Vars.get new x <;> rfl
  | cons k ks ih =>
    simp only [copyLoop]
    cases hk : Vars.get vars k with
    | none =>
      simp only
      rw [ih vars new hd]
      cases hn : Vars.get new x with
      | some w => rfl
      | none =>
        simp only [List.mem_cons]
        by_cases hx : x = k
        · subst hx; simp [hk]
        · simp [hx]
    | some v =>
      simp only
      have hd' : ∀ y, (Vars.get (new.set k v) y).isSome → Vars.get (vars.erase k) y = none := by
        intro y hy
        rw [get_erase]
        by_cases hyk : y = k
        · simp [hyk]
        · rw [get_set] at hy
          simp only [hyk, if_false] at hy ⊢
          exact hd y hy
      rw [ih (vars.erase k) (new.set k v) hd', get_set, get_erase]
      by_cases hx : x = k
      · subst hx
        have : Vars.get new x = none := by
          cases hn : Vars.get new x with
          | none => rfl
          | some w =>
            have := hd x (by simp [hn])
            rw [hk] at this; cases this
        simp [this, hk]
      · simp only [hx, if_false, List.mem_cons, false_or]

theorem get_copyLoop_nil (vars : Vars) (ks : List Str) (x : Str) :
    Vars.get (copyLoop vars [] ks).2 x = if x ∈ ks then Vars.get vars x else none := by
  rw [get_copyLoop vars [] ks x (by intro y hy; simp [Vars.get] at hy)]
  simp [Vars.get]

theorem mem_keys (m : Vars) (x : Str) : x ∈ keys m ↔ (Vars.get m x).isSome = true := by
  induction m with
  | nil => simp [keys, Vars.get]
  | cons p rest ih =>
    obtain ⟨k, v⟩ := p
    simp only [keys, List.map_cons, List.mem_cons, Vars.get] at ih ⊢
    by_cases h : k = x
    · subst h; simp
    · have h' : ¬ x = k := fun e => h e.symm
      simp [h, h', ih]

theorem get_updateOutput (m : Vars) (out : Option Str) (v : Option Str) (x : Str) :
    Vars.get (m.updateOutput out v) x = Map.assign (Vars.get m) out v x := by
  cases out with
  | none => rfl
  | some o =>
    cases v with
    | some w => simp [Vars.updateOutput, Map.assign, Map.put, get_set]
    | none => simp [Vars.updateOutput, Map.assign, Map.del, get_erase]

/-! ### `set` -/

def resOf (e : Except Unit (Option Str)) : CmdResult :=
  match e with
  | .ok r => .continue r
  | .error _ => .error []

theorem setLoop_chain (v : Str) (rest : List Str) (last : Option Str) :
    resOf (setLoop true last (v :: rest)) = chain v rest := by
  fun_induction chain v rest generalizing last with
  | case1 v =>
    simp only [setLoop, if_true]
    by_cases h : isTrue (some v) = true <;> simp [h, resOf]
  | case2 v o h =>
    simp only [setLoop, if_true, isTrue_eq_truthy, h, resOf]
  | case3 v o h =>
    simp only [setLoop, if_true, isTrue_eq_truthy, h, resOf]
    by_cases ho : o = kwOr <;> simp [ho, err]
  | case4 v o v' rest h =>
    simp only [setLoop, if_true, isTrue_eq_truthy, h, resOf]
  | case5 v v' rest h ih =>
    have := ih (some v)
    simpa [setLoop, isTrue_eq_truthy, h, kwOr] using this
  | case6 v o v' rest h ho =>
    have ho' : ¬ o = kwOr := ho
    simp [setLoop, isTrue_eq_truthy, h, ho', resOf, err]

theorem cmdSet_eq (args : List Str) : cmdSet args = setValue args := by
  match args with
  | [] => rfl
  | [a] => rfl
  | v :: o :: rest =>
    have h := setLoop_chain v (o :: rest) none
    simp only [cmdSet, setValue]
    rw [← h]
    cases setLoop true none (v :: o :: rest) <;> rfl

/-! ### the simulation relation between the model and the map/stack reference -/

def specCmd : VsCmd → Cmd
  | .set => .set | .unset => .unset | .setByName => .setByName | .getByName => .getByName
  | .isDefined => .isDefined | .unsetAllVars => .unsetAllVars | .clearScope => .clearScope
  | .pushStack => .pushStack | .popStack => .popStack

/-- the same script line, read by the reference -/
def specOp : VsOp → Op
  | .cmd out c args => .cmd out (specCmd c) args
  | .names out h => .names out h

/-- names reserved for the temporaries of the `unset` alias script -/
def reserved (k : Str) : Bool := (unsetScope ++ "::".toList).isPrefixOf k

/-- the variable names an operation can create -/
def writes : VsOp → List Str
  | .cmd out c args =>
    out.toList ++ (match c, args with
      | .setByName, k :: _ :: _ => [k]
      | _, _ => [])
  | .names out _ => out.toList

/-- the operation does not create a variable in the namespace of `unset`'s temporaries -/
def OpOK (op : VsOp) : Prop := ∀ k ∈ writes op, reserved k = false

instance (op : VsOp) : Decidable (OpOK op) := by unfold OpOK; infer_instance

/-- lookup-equality (plus: no reserved name is defined) -/
def Rel (mv : Vars) (sv : Map) : Prop :=
  (∀ k, Vars.get mv k = sv k) ∧ (∀ k, reserved k = true → sv k = none)

/-- the saved maps are related position by position (in particular: same depth) -/
def StackRel : List Vars → List Map → Prop
  | [], [] => True
  | mv :: ms, sv :: ss => Rel mv sv ∧ StackRel ms ss
  | _, _ => False

def Sim (m : VsSt) (s : S) : Prop := Rel m.vars s.map ∧ StackRel m.stack s.stack

/-- outputs agree: equal results; for get_all_var_names the reported list has exactly the
    defined names -/
def OutEq : VsOut → Out → Prop
  | .res r, .res r' => r = r'
  | .names l, .names p => ∀ k, k ∈ l ↔ p k = true
  | _, _ => False

def OutsEq : List VsOut → List Out → Prop
  | [], [] => True
  | a :: as, b :: bs => OutEq a b ∧ OutsEq as bs
  | _, _ => False

theorem rel_empty : Rel [] Map.empty := ⟨fun _ => rfl, fun _ _ => rfl⟩

theorem rel_erase {mv sv} (h : Rel mv sv) (k : Str) : Rel (mv.erase k) (sv.del k) := by
  refine ⟨fun x => ?_, fun x hx => ?_⟩
  · simp only [get_erase, Map.del, h.1]
  · simp only [Map.del]; split <;> simp [h.2 x hx]

theorem rel_set {mv sv} (h : Rel mv sv) (k v : Str) (hk : reserved k = false) :
    Rel (mv.set k v) (sv.put k v) := by
  refine ⟨fun x => ?_, fun x hx => ?_⟩
  · simp only [get_set, Map.put, h.1]
  · simp only [Map.put]
    have : ¬ x = k := fun e => by subst e; rw [hk] at hx; cases hx
    simp [this, h.2 x hx]

theorem rel_assign {mv sv} (h : Rel mv sv) (out : Option Str) (v : Option Str)
    (hk : ∀ k ∈ out.toList, reserved k = false) :
    Rel (mv.updateOutput out v) (sv.assign out v) := by
  cases out with
  | none => exact h
  | some o =>
    have ho := hk o (by simp)
    cases v with
    | some w => exact rel_set h o w ho
    | none => exact rel_erase h o

theorem rel_dropPrefix {mv sv} (h : Rel mv sv) (p : Str) :
    Rel (dropPrefix mv p) (sv.delPrefix p) := by
  refine ⟨fun x => ?_, fun x hx => ?_⟩
  · simp only [get_dropPrefix, Map.delPrefix, h.1]
  · simp only [Map.delPrefix]; split <;> simp [h.2 x hx]

theorem rel_unset {mv sv} (h : Rel mv sv) (ks : List Str) :
    Rel (clearScope (eraseAll mv ks) unsetScope) (sv.delAll ks) := by
  refine ⟨fun x => ?_, fun x hx => ?_⟩
  · simp only [clearScope, get_dropPrefix, get_eraseAll, Map.delAll, h.1]
    by_cases hr : reserved x = true
    · have hr' : (unsetScope ++ "::".toList).isPrefixOf x = true := hr
      rw [if_pos hr', h.2 x hr]; split <;> rfl
    · have hr' : ¬ (unsetScope ++ "::".toList).isPrefixOf x = true := hr
      rw [if_neg hr']
  · simp only [Map.delAll]; split <;> simp [h.2 x hx]

theorem rel_push {mv sv} (h : Rel mv sv) (copy : List Str) :
    Rel (insertAll [] (copyLoop mv [] copy).2) (sv.restrict copy) := by
  refine ⟨fun x => ?_, fun x hx => ?_⟩
  · simp only [get_insertAll_nil, get_copyLoop_nil, Map.restrict, h.1]
  · simp only [Map.restrict]; split <;> simp [h.2 x hx]

theorem rel_pop {mv sv old saved} (h : Rel mv sv) (ho : Rel old saved) (copy : List Str) :
    Rel (insertAll (insertAll [] old) (copyLoop mv [] copy).2) (Map.overlay saved sv copy) := by
  refine ⟨fun x => ?_, fun x hx => ?_⟩
  · simp only [get_popMap, get_copyLoop_nil, Map.overlay, h.1, ho.1]
    by_cases hc : x ∈ copy
    · simp only [hc, if_true]
      cases sv x <;> cases saved x <;> simp
    · cases saved x <;> simp [hc]
  · simp only [Map.overlay, h.2 x hx, ho.2 x hx]; split <;> rfl

theorem copyArgs_eq (args : List Str) : copyArgs args = copyOf args := by
  cases args <;> rfl

theorem boolStr_eq (b : Bool) : boolStr b = tf b := rfl

/-- one command body: states stay related, results are equal -/
theorem sim_runCmd {m : VsSt} {s : S} (h : Sim m s) (c : VsCmd) (args : List Str)
    (hk : ∀ k v rest, c = .setByName → args = k :: v :: rest → reserved k = false) :
    Sim (runCmd m c args).1 (exec s (specCmd c) args).1 ∧
      (runCmd m c args).2 = (exec s (specCmd c) args).2 := by
  obtain ⟨hv, hs⟩ := h
  cases c with
  | set => exact ⟨⟨hv, hs⟩, cmdSet_eq args⟩
  | unset => exact ⟨⟨rel_unset hv args, hs⟩, rfl⟩
  | setByName =>
    match args with
    | [] => exact ⟨⟨hv, hs⟩, rfl⟩
    | [k] => exact ⟨⟨rel_erase hv k, hs⟩, rfl⟩
    | k :: v :: rest => exact ⟨⟨rel_set hv k v (hk k v rest rfl rfl), hs⟩, rfl⟩
  | getByName =>
    match args with
    | [] => exact ⟨⟨hv, hs⟩, rfl⟩
    | k :: rest =>
      refine ⟨⟨hv, hs⟩, ?_⟩
      simp [runCmd, cmdGetByName, specCmd, exec, hv.1]
  | isDefined =>
    match args with
    | [] => exact ⟨⟨hv, hs⟩, rfl⟩
    | k :: rest =>
      refine ⟨⟨hv, hs⟩, ?_⟩
      simp [runCmd, cmdIsDefined, specCmd, exec, Vars.contains, hv.1, boolStr_eq]
  | unsetAllVars =>
    match args with
    | [] => exact ⟨⟨rel_empty, hs⟩, rfl⟩
    | [a] => exact ⟨⟨rel_empty, hs⟩, rfl⟩
    | a :: p :: rest =>
      by_cases ha : a = kwPrefix
      · subst ha
        exact ⟨⟨rel_dropPrefix hv p, hs⟩, rfl⟩
      · have ha' : ¬ a = "--prefix".toList := ha
        simp only [runCmd, cmdUnsetAllVars, specCmd, exec, ha, ha', if_false]
        exact ⟨⟨rel_empty, hs⟩, trivial⟩
  | clearScope =>
    match args with
    | [] => exact ⟨⟨hv, hs⟩, rfl⟩
    | n :: rest => exact ⟨⟨rel_dropPrefix hv _, hs⟩, rfl⟩
  | pushStack =>
    refine ⟨⟨?_, ?_⟩, rfl⟩
    · simp only [runCmd, scopePush, specCmd, exec, copyArgs_eq]
      exact rel_push hv _
    · simp only [runCmd, scopePush, specCmd, exec]
      exact ⟨hv, hs⟩
  | popStack =>
    obtain ⟨mv, mstack⟩ := m
    obtain ⟨sv, sstack⟩ := s
    match mstack, sstack, hs with
    | [], [], _ => exact ⟨⟨hv, trivial⟩, rfl⟩
    | old :: ms, saved :: ss, ⟨ho, hrest⟩ =>
      simp only [runCmd, scopePop, specCmd, exec, copyArgs_eq]
      exact ⟨⟨rel_pop hv ho _, hrest⟩, rfl⟩

theorem stackRel_length {ms : List Vars} {ss : List Map} (h : StackRel ms ss) :
    ms.length = ss.length := by
  induction ms generalizing ss with
  | nil => cases ss with
    | nil => rfl
    | cons _ _ => exact h.elim
  | cons a ms ih => cases ss with
    | nil => exact h.elim
    | cons b ss => simp [ih h.2]

/-- one operation (command body + the runner's write to the output variable) -/
theorem sim_apply {m : VsSt} {s : S} (h : Sim m s) (op : VsOp) (hok : OpOK op) :
    Sim (apply m op).1 (step s (specOp op)).1 ∧ OutEq (apply m op).2 (step s (specOp op)).2 := by
  cases op with
  | cmd out c args =>
    have hout : ∀ k ∈ out.toList, reserved k = false :=
      fun k hk => hok k (List.mem_append_left _ hk)
    have hkey : ∀ k v rest, c = .setByName → args = k :: v :: rest → reserved k = false := by
      intro k v rest hc ha
      subst hc; subst ha
      exact hok k (List.mem_append_right _ (by simp))
    obtain ⟨hsim, hres⟩ := sim_runCmd h c args hkey
    simp only [apply, step, specOp]
    rw [← hres]
    generalize (runCmd m c args).2 = r
    obtain ⟨hv, hs⟩ := hsim
    cases r with
    | «continue» v => exact ⟨⟨rel_assign hv out v hout, hs⟩, rfl⟩
    | goTo v g => exact ⟨⟨rel_assign hv out v hout, hs⟩, rfl⟩
    | error e =>
      refine ⟨⟨?_, hs⟩, ?_⟩
      · exact rel_assign hv out (some "false".toList) hout
      · simp only [stored]; rfl
    | crash e => exact ⟨⟨hv, hs⟩, rfl⟩
    | exit v => exact ⟨⟨rel_assign hv out v hout, hs⟩, rfl⟩
  | names out t =>
    have hout : ∀ k ∈ out.toList, reserved k = false := fun k hk => hok k hk
    obtain ⟨hv, hs⟩ := h
    refine ⟨⟨rel_assign hv out (some t) hout, hs⟩, ?_⟩
    intro k
    simp only [mem_keys, hv.1]

theorem sim_run {m : VsSt} {s : S} (h : Sim m s) (ops : List VsOp) (hok : ∀ op ∈ ops, OpOK op) :
    Sim (run m ops).1 (Spec.MapStack.run s (ops.map specOp)).1 ∧
      OutsEq (run m ops).2 (Spec.MapStack.run s (ops.map specOp)).2 := by
  induction ops generalizing m s with
  | nil => exact ⟨h, trivial⟩
  | cons op ops ih =>
    obtain ⟨h1, o1⟩ := sim_apply h op (hok op (by simp))
    obtain ⟨h2, o2⟩ := ih h1 (fun o ho => hok o (by simp [ho]))
    exact ⟨h2, o1, o2⟩

/-! ### the stack discipline -/

/-- how a command body changes the stack: push conses the current map, pop removes the top -/
theorem stack_runCmd (st : VsSt) (c : VsCmd) (args : List Str) :
    (runCmd st c args).1.stack =
      match c with
      | .pushStack => st.vars :: st.stack
      | .popStack => st.stack.tail
      | _ => st.stack := by
  cases c <;> try rfl
  · cases hst : st.stack with
    | nil => simp [runCmd, scopePop, hst]
    | cons a b => simp [runCmd, scopePop, hst]

theorem stack_writeOutput (st : VsSt) (out : Option Str) (r : CmdResult) :
    (writeOutput st out r).stack = st.stack := by
  cases r <;> rfl

theorem stack_apply (st : VsSt) (op : VsOp) :
    (apply st op).1.stack =
      match op with
      | .cmd _ .pushStack _ => st.vars :: st.stack
      | .cmd _ .popStack _ => st.stack.tail
      | _ => st.stack := by
  cases op with
  | cmd out c args =>
    simp only [apply, stack_writeOutput, stack_runCmd]
    cases c <;> rfl
  | names out t => rfl

/-- `balanced d ops`: starting `d` levels above a base, `ops` never pops the base level and
    ends exactly at the base -/
def balanced : Nat → List VsOp → Bool
  | d, [] => d == 0
  | d, .cmd _ .pushStack _ :: ops => balanced (d + 1) ops
  | 0, .cmd _ .popStack _ :: _ => false
  | d + 1, .cmd _ .popStack _ :: ops => balanced d ops
  | d, _ :: ops => balanced d ops

theorem stack_balanced (st : VsSt) (pre base : List Vars) (ops : List VsOp)
    (hst : st.stack = pre ++ base) (hb : balanced pre.length ops = true) :
    (run st ops).1.stack = base := by
  induction ops generalizing st pre with
  | nil =>
    have : pre = [] := by
      cases pre with
      | nil => rfl
      | cons a b => simp [balanced] at hb
    simpa [run, this] using hst
  | cons op ops ih =>
    simp only [run]
    have hs := stack_apply st op
    cases op with
    | names out t =>
      exact ih (apply st (.names out t)).1 pre (by rw [hs]; exact hst) (by simpa [balanced] using hb)
    | cmd out c args =>
      cases c with
      | pushStack =>
        exact ih _ (st.vars :: pre) (by rw [hs]; simp [hst]) (by simpa [balanced] using hb)
      | popStack =>
        cases pre with
        | nil => simp [balanced] at hb
        | cons a pre' =>
          exact ih _ pre' (by rw [hs]; simp [hst]) (by simpa [balanced] using hb)
      | _ => exact ih _ pre (by rw [hs]; exact hst) (by simpa [balanced] using hb)

/-! ### the representation invariant: keys are unique -/

def NK (m : Vars) : Prop := (keys m).Nodup

theorem nk_nil : NK [] := List.nodup_nil

theorem nk_filter {m : Vars} (h : NK m) (f : Str × Str → Bool) : NK (m.filter f) :=
  List.Nodup.sublist ((List.filter_sublist (l := m)).map Prod.fst) h

theorem nk_erase {m : Vars} (h : NK m) (k : Str) : NK (m.erase k) := nk_filter h _

theorem nk_set {m : Vars} (h : NK m) (k v : Str) : NK (m.set k v) := by
  have h1 : NK (m.erase k) := nk_erase h k
  have h2 : k ∉ keys (m.erase k) := by
    rw [mem_keys, get_erase]; simp
  exact List.nodup_cons.mpr ⟨h2, h1⟩

theorem nk_updateOutput {m : Vars} (h : NK m) (out : Option Str) (v : Option Str) :
    NK (m.updateOutput out v) := by
  cases out with
  | none => exact h
  | some o => cases v with
    | some w => exact nk_set h o w
    | none => exact nk_erase h o

theorem nk_eraseAll {m : Vars} (h : NK m) (ks : List Str) : NK (eraseAll m ks) := by
  induction ks generalizing m with
  | nil => exact h
  | cons k ks ih => exact ih (nk_erase h k)

theorem nk_insertAll {base : Vars} (h : NK base) (l : Vars) : NK (insertAll base l) := by
  induction l with
  | nil => exact h
  | cons p rest ih => obtain ⟨k, v⟩ := p; exact nk_set ih k v

def Inv (st : VsSt) : Prop := NK st.vars ∧ ∀ s ∈ st.stack, NK s

theorem inv_runCmd {st : VsSt} (h : Inv st) (c : VsCmd) (args : List Str) : Inv (runCmd st c args).1 := by
  obtain ⟨hv, hs⟩ := h
  cases c with
  | set => exact ⟨hv, hs⟩
  | unset => exact ⟨nk_filter (nk_eraseAll hv args) _, hs⟩
  | setByName =>
    match args with
    | [] => exact ⟨hv, hs⟩
    | [k] => exact ⟨nk_erase hv k, hs⟩
    | k :: v :: rest => exact ⟨nk_set hv k v, hs⟩
  | getByName => exact ⟨hv, hs⟩
  | isDefined => exact ⟨hv, hs⟩
  | unsetAllVars =>
    refine ⟨?_, hs⟩
    simp only [runCmd, cmdUnsetAllVars]
    split
    · split
      · exact nk_filter hv _
      · exact nk_nil
    · exact nk_nil
  | clearScope =>
    match args with
    | [] => exact ⟨hv, hs⟩
    | n :: rest => exact ⟨nk_filter hv _, hs⟩
  | pushStack =>
    refine ⟨nk_insertAll nk_nil _, ?_⟩
    intro s hmem
    simp only [runCmd, scopePush, List.mem_cons] at hmem
    rcases hmem with rfl | hmem
    · exact hv
    · exact hs s hmem
  | popStack =>
    obtain ⟨vars, stack⟩ := st
    cases stack with
    | nil => exact ⟨hv, hs⟩
    | cons old rest =>
      refine ⟨nk_insertAll (nk_insertAll nk_nil _) _, ?_⟩
      intro s hmem
      exact hs s (List.mem_cons_of_mem _ hmem)

theorem inv_writeOutput {st : VsSt} (h : Inv st) (out : Option Str) (r : CmdResult) :
    Inv (writeOutput st out r) := by
  cases r with
  | «continue» v => exact ⟨nk_updateOutput h.1 out v, h.2⟩
  | goTo v g => exact ⟨nk_updateOutput h.1 out v, h.2⟩
  | error e => exact ⟨nk_updateOutput h.1 out (some "false".toList), h.2⟩
  | crash e => exact h
  | exit v => exact ⟨nk_updateOutput h.1 out v, h.2⟩

theorem inv_apply {st : VsSt} (h : Inv st) (op : VsOp) : Inv (apply st op).1 := by
  cases op with
  | cmd out c args => exact inv_writeOutput (inv_runCmd h c args) out _
  | names out t => exact ⟨nk_updateOutput h.1 out (some t), h.2⟩

def NamesNodup : VsOut → Prop
  | .names l => l.Nodup
  | .res _ => True

theorem names_nodup_run {st : VsSt} (h : Inv st) (ops : List VsOp) :
    Inv (run st ops).1 ∧ ∀ o ∈ (run st ops).2, NamesNodup o := by
  induction ops generalizing st with
  | nil => exact ⟨h, fun o ho => by simp [run] at ho⟩
  | cons op ops ih =>
    obtain ⟨h2, h3⟩ := ih (inv_apply h op)
    refine ⟨h2, ?_⟩
    intro o ho
    simp only [run, List.mem_cons] at ho
    rcases ho with rfl | ho
    · cases op with
      | cmd out c args => exact trivial
      | names out t => exact h.1
    · exact h3 o ho

end Duck.VarScope
