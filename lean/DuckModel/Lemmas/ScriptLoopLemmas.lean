/-
  Helper lemmas for the ∀-theorems about script-implemented commands WITH LOOPS
  (Props/C12Scripts.lean, second half): what one `for … in` / `end` / `if` instruction of a body
  does to the flow-control state of Sdk/ScriptRun.lean (generic part), so that the loop of a script
  can be followed through the goto machine `evalInstructions` by induction over the cells that are
  left.  The per-script inductions are in Lemmas/ScriptLoopConcat.lean, ScriptLoopSetFromArray.lean …
-/
import DuckModel.Lemmas.ScriptRunLemmas
import DuckModel.Lemmas.RegistryLemmas

namespace Duck.ScriptRun
open Duck Duck.Alias Duck.Coll Duck.Spec Duck.Generated

/-! ### dispatch of flow-control commands inside a body -/

theorem bodySem_flow (fuel depth : Nat) (is : List Instruction) (name : Str) (c : FlowCmd)
    (hs : findScript name = none) (hn : resolveNative name = none) (hf : resolveFlow name = some c)
    (args : List Str) (out : Option Str) (line : Nat) (vars : Vars) (st : ScriptSt) :
    bodySem fuel (depth + 1) is name args out line vars st =
      some (runFlowF (nestedOf (bodySem fuel depth) fuel) is 2 c args line vars st) := by
  simp [bodySem, hs, hn, hf]

theorem eval_goto {σ : Type} (sem : CmdSem σ) (is : List Instruction) (fuel line poll : Nat) (fo : Option Str)
    (vars : Vars) (s : σ) (instr : Instruction) (si : ScriptInstr) (hget : is[line]? = some instr)
    (hty : instr.ty = .script si) (v : Option Str) (o : Option Str) (vars' : Vars) (s' : σ) (n : Nat)
    (hr : runInstruction sem vars s instr line = (.goTo v (.line n), o, vars', s')) :
    evalInstructions sem (fun _ => false) is (fuel + 1) line poll fo vars s =
      evalInstructions sem (fun _ => false) is fuel n (poll + 1) v vars' s' := by
  simp [evalInstructions, hget, hty, hr]

/-! ### the block-position cache of `for` -/

/-- the cache after the `for` on a line whose block ends at `stop` has consulted it -/
def forMetaAfter (m : KV Nat) (key : Str) (stop : Nat) : KV Nat :=
  match m.get key with
  | some _ => m
  | none => m.put key stop

/-- the cached block end of this `for` line, if any, is the right one (the only writer of the
    cache is the `for` command itself, under the key "<line context>::<line>") -/
def CacheOK (m : KV Nat) (key : Str) (stop : Nat) : Prop := m.get key = none ∨ m.get key = some stop

theorem forMetaFor_ok (is : List Instruction) (s : ScriptSt) (line stop : Nat)
    (hfind : findCommands forTables is (line + 1) = .ok ⟨[], stop⟩)
    (hc : CacheOK s.forMeta (flowKey s line) stop) :
    forMetaFor is s line = .ok (stop,
      { s with forMeta := forMetaAfter s.forMeta (flowKey s line) stop,
               endTable := s.endTable.put (flowKey s stop) fullNameEndForIn }) := by
  unfold forMetaFor forMetaAfter
  rcases hc with h | h
  · simp [h, hfind]
  · simp [h]

/-- evaluating the block scanner on a concrete instruction list -/
def findsTo (t : FlowTables) (is : List Instruction) (start : Nat) (middle : List Nat) (stop : Nat) : Bool :=
  match findCommands t is start with
  | .ok p => p.middle == middle && p.stop == stop
  | .error _ => false

theorem findsTo_eq {t : FlowTables} {is : List Instruction} {start : Nat} {middle : List Nat} {stop : Nat}
    (h : findsTo t is start middle stop = true) : findCommands t is start = .ok ⟨middle, stop⟩ := by
  unfold findsTo at h
  cases hp : findCommands t is start with
  | error e => rw [hp] at h; cases h
  | ok p =>
    rw [hp] at h
    simp at h
    cases p
    simp_all

/-! ### one `for` / `end` instruction -/

theorem nextIteration_congr (s s' : ScriptSt) (h : s'.coll = s.coll) (handle : Str) (i : Nat) :
    nextIteration s' handle i = nextIteration s handle i := by
  unfold nextIteration; rw [h]

/-- `for v in handle` when the top of the for-in call stack is this loop's entry: next cell or
    leave the loop (the entry is popped) -/
theorem runFor_resume (nested : Nested) (is : List Instruction) (k : Nat) (v handle : Str) (line : Nat)
    (vars : Vars) (s : ScriptSt) (ci : ForCall) (rest : List ForCall)
    (hst : s.forStack = ci :: rest) (hstart : ci.start = line) (hctx : ci.ctx = s.ctx) :
    runFlowF nested is (k + 1) .forIn [v, "in".toList, handle] line vars s =
      match nextIteration s handle ci.iteration with
      | some value => (.continue none, vars.set v value,
          { s with forStack := { ci with iteration := ci.iteration + 1 } :: rest })
      | none => (.goTo none (.line (ci.stop + 1)), vars, { s with forStack := rest }) := by
  have hn : nextIteration { s with forStack := rest } handle ci.iteration = nextIteration s handle ci.iteration :=
    nextIteration_congr _ _ rfl _ _
  simp only [runFlowF, runFlow, hst, popFor, hstart, hctx, true_or, and_self, if_true, ne_eq,
    not_true_eq_false, if_false, hn]
  cases nextIteration s handle ci.iteration with
  | none => rfl
  | some value => simp [hctx.symm]

/-- `for v in handle` when the top of the for-in call stack is NOT an entry of this line: the
    block end is looked up (cache / scan), the `end` table is written, iteration 0 -/
theorem runFor_first (nested : Nested) (is : List Instruction) (k : Nat) (v handle : Str) (line stop : Nat)
    (vars : Vars) (s : ScriptSt)
    (hpop : popFor line s.ctx false s.forStack = (none, s.forStack))
    (hfind : findCommands forTables is (line + 1) = .ok ⟨[], stop⟩)
    (hc : CacheOK s.forMeta (flowKey s line) stop) :
    runFlowF nested is (k + 1) .forIn [v, "in".toList, handle] line vars s =
      let s1 : ScriptSt := { s with forMeta := forMetaAfter s.forMeta (flowKey s line) stop,
                                    endTable := s.endTable.put (flowKey s stop) fullNameEndForIn }
      match nextIteration s handle 0 with
      | some value => (.continue none, vars.set v value,
          { s1 with forStack := { iteration := 1, start := line, stop := stop, ctx := s.ctx } :: s.forStack })
      | none => (.goTo none (.line (stop + 1)), vars, s1) := by
  have hm := forMetaFor_ok is { s with forStack := s.forStack } line stop hfind hc
  have hn : ∀ (a : KV Nat) (b : KV Str), nextIteration { s with forMeta := a, endTable := b } handle 0 =
      nextIteration s handle 0 := fun a b => nextIteration_congr _ _ rfl _ _
  simp only [runFlowF, runFlow, hpop, ne_eq, not_true_eq_false, if_false, hm, hn]
  cases nextIteration s handle 0 <;> rfl

/-- the generic `end` on the line the top for-in entry ends at: jump back to the `for` line -/
theorem runEnd_for (nested : Nested) (is : List Instruction) (line : Nat)
    (vars : Vars) (s : ScriptSt) (ci : ForCall) (rest : List ForCall)
    (ht : s.endTable.get (flowKey s line) = some fullNameEndForIn)
    (hst : s.forStack = ci :: rest) (hstop : ci.stop = line) (hctx : ci.ctx = s.ctx) :
    runFlowF nested is 2 .endC [] line vars s = (.goTo none (.line ci.start), vars, s) := by
  have hr : resolveFlow fullNameEndForIn = some .endFor := by decide +kernel
  simp only [runFlowF, runFlow, ht, hr, hst, popFor, hstop, hctx, or_true, and_self, if_true]
  congr
  cases s; simp_all

theorem popFor_nil (line : Nat) (ctx : Str) : popFor line ctx false [] = (none, []) := rfl

theorem popFor_other (line : Nat) (ctx : Str) (top : ForCall) (rest : List ForCall) (h : top.ctx ≠ ctx) :
    popFor line ctx false (top :: rest) = (none, top :: rest) := by
  simp [popFor, h]

/-- no stale entry of a loop of the script `scope` on top of the for-in call stack (an entry is
    stale when an earlier run of the same script ended with an error inside its loop) -/
def NoStaleFor (scope : Str) (stack : List ForCall) : Prop :=
  ∀ e, stack.head? = some e → e.ctx ≠ scope

theorem popFor_noStale (line : Nat) (scope : Str) (stack : List ForCall) (h : NoStaleFor scope stack) :
    popFor line scope false stack = (none, stack) := by
  cases stack with
  | nil => rfl
  | cons top rest => exact popFor_other line scope top rest (h top rfl)

/-! ### one instruction of a body through the loop of `eval_instructions` -/

theorem eval_native_continue (F d : Nat) (is : List Instruction) (fuel line poll : Nat) (fo : Option Str)
    (vars : Vars) (s : ScriptSt) (mi : Meta) (si : ScriptInstr) (c : Str) (n : Native)
    (hget : is[line]? = some ⟨mi, .script si⟩) (hc : si.command = some c)
    (hs : findScript c = none) (hr : resolveNative c = some n)
    (args : List Str) (hb : bind vars si.args = args) (v : Option Str) (vars' : Vars) (s' : ScriptSt)
    (hrun : runNative n args vars s = (.continue v, vars', s')) :
    evalInstructions (bodySem F d is) (fun _ => false) is (fuel + 1) line poll fo vars s =
      evalInstructions (bodySem F d is) (fun _ => false) is fuel (line + 1) (poll + 1) v
        (vars'.updateOutput si.output v) s' := by
  have h := runInstruction_cmd (bodySem F d is) vars s mi si c line hc args hb (.continue v) vars' s'
    (by rw [bodySem_native F d is c n hs hr, hrun])
  exact eval_continue _ _ _ _ _ _ _ _ _ si hget rfl _ _ _ _ h

theorem eval_native_error (F d : Nat) (is : List Instruction) (fuel line poll : Nat) (fo : Option Str)
    (vars : Vars) (s : ScriptSt) (mi : Meta) (si : ScriptInstr) (c : Str) (n : Native)
    (hget : is[line]? = some ⟨mi, .script si⟩) (hc : si.command = some c)
    (hs : findScript c = none) (hr : resolveNative c = some n)
    (args : List Str) (hb : bind vars si.args = args) (m : Str) (vars' : Vars) (s' : ScriptSt)
    (hrun : runNative n args vars s = (.error m, vars', s')) :
    evalInstructions (bodySem F d is) (fun _ => false) is (fuel + 1) line poll fo vars s =
      some (.error m, vars', s') := by
  have h := runInstruction_cmd (bodySem F d is) vars s mi si c line hc args hb (.error m) vars' s'
    (by rw [bodySem_native F d is c n hs hr, hrun])
  exact eval_error _ _ _ _ _ _ _ _ _ si hget rfl _ _ _ _ h

theorem eval_flow_continue (F d : Nat) (is : List Instruction) (fuel line poll : Nat) (fo : Option Str)
    (vars : Vars) (s : ScriptSt) (mi : Meta) (si : ScriptInstr) (c : Str) (fc : FlowCmd)
    (hget : is[line]? = some ⟨mi, .script si⟩) (hc : si.command = some c)
    (hs : findScript c = none) (hn : resolveNative c = none) (hf : resolveFlow c = some fc)
    (args : List Str) (hb : bind vars si.args = args) (v : Option Str) (vars' : Vars) (s' : ScriptSt)
    (hrun : runFlowF (nestedOf (bodySem F d) F) is 2 fc args line vars s = (.continue v, vars', s')) :
    evalInstructions (bodySem F (d + 1) is) (fun _ => false) is (fuel + 1) line poll fo vars s =
      evalInstructions (bodySem F (d + 1) is) (fun _ => false) is fuel (line + 1) (poll + 1) v
        (vars'.updateOutput si.output v) s' := by
  have h := runInstruction_cmd (bodySem F (d + 1) is) vars s mi si c line hc args hb (.continue v) vars' s'
    (by rw [bodySem_flow F d is c fc hs hn hf, hrun])
  exact eval_continue _ _ _ _ _ _ _ _ _ si hget rfl _ _ _ _ h

theorem eval_flow_goto (F d : Nat) (is : List Instruction) (fuel line poll : Nat) (fo : Option Str)
    (vars : Vars) (s : ScriptSt) (mi : Meta) (si : ScriptInstr) (c : Str) (fc : FlowCmd)
    (hget : is[line]? = some ⟨mi, .script si⟩) (hc : si.command = some c)
    (hs : findScript c = none) (hn : resolveNative c = none) (hf : resolveFlow c = some fc)
    (args : List Str) (hb : bind vars si.args = args) (v : Option Str) (vars' : Vars) (s' : ScriptSt) (n : Nat)
    (hrun : runFlowF (nestedOf (bodySem F d) F) is 2 fc args line vars s = (.goTo v (.line n), vars', s')) :
    evalInstructions (bodySem F (d + 1) is) (fun _ => false) is (fuel + 1) line poll fo vars s =
      evalInstructions (bodySem F (d + 1) is) (fun _ => false) is fuel n (poll + 1) v vars' s' := by
  have h := runInstruction_cmd (bodySem F (d + 1) is) vars s mi si c line hc args hb (.goTo v (.line n)) vars' s'
    (by rw [bodySem_flow F d is c fc hs hn hf, hrun])
  exact eval_goto _ _ _ _ _ _ _ _ _ si hget rfl _ _ _ _ _ h

theorem eval_flow_error (F d : Nat) (is : List Instruction) (fuel line poll : Nat) (fo : Option Str)
    (vars : Vars) (s : ScriptSt) (mi : Meta) (si : ScriptInstr) (c : Str) (fc : FlowCmd)
    (hget : is[line]? = some ⟨mi, .script si⟩) (hc : si.command = some c)
    (hs : findScript c = none) (hn : resolveNative c = none) (hf : resolveFlow c = some fc)
    (args : List Str) (hb : bind vars si.args = args) (m : Str) (vars' : Vars) (s' : ScriptSt)
    (hrun : runFlowF (nestedOf (bodySem F d) F) is 2 fc args line vars s = (.error m, vars', s')) :
    evalInstructions (bodySem F (d + 1) is) (fun _ => false) is (fuel + 1) line poll fo vars s =
      some (.error m, vars', s') := by
  have h := runInstruction_cmd (bodySem F (d + 1) is) vars s mi si c line hc args hb (.error m) vars' s'
    (by rw [bodySem_flow F d is c fc hs hn hf, hrun])
  exact eval_error _ _ _ _ _ _ _ _ _ si hget rfl _ _ _ _ h

/-! ### writing instruction lists down -/

instance (s : Seg) : Decidable s.OK := by cases s <;> unfold Seg.OK <;> infer_instance

/-- a command line: output variable, command word, argument templates -/
def mkI (line : Nat) (out : Option Str) (cmd : String) (args : Option (List (List Seg))) : Instruction :=
  ⟨{ line := some line, source := none },
   .script { output := out, command := some cmd.toList, args := args.map fun a => a.map renderTemplate }⟩

def emptyI (line : Nat) : Instruction := ⟨{ line := some line, source := none }, .empty⟩

theorem bind_mk (vars : Vars) (args : List (List Seg)) (h : ∀ t ∈ args, ∀ s ∈ t, s.OK) :
    bind vars ((some args).map fun a => a.map renderTemplate) = args.map (tmplValue vars) :=
  bind_templates vars args h

theorem bind_none (vars : Vars) : bind vars none = [] := rfl

/-- constant flow-control facts -/
theorem fs_for : findScript "for".toList = none := by decide +kernel
theorem rn_for : resolveNative "for".toList = none := by decide +kernel
theorem rf_for : resolveFlow "for".toList = some .forIn := by decide +kernel
theorem fs_end : findScript "end".toList = none := by decide +kernel
theorem rn_end : resolveNative "end".toList = none := by decide +kernel
theorem rf_end : resolveFlow "end".toList = some .endC := by decide +kernel
theorem fs_if : findScript "if".toList = none := by decide +kernel
theorem rn_if : resolveNative "if".toList = none := by decide +kernel
theorem rf_if : resolveFlow "if".toList = some .ifC := by decide +kernel
theorem fs_set : findScript "set".toList = none := by decide +kernel
theorem rn_set : resolveNative "set".toList = some .set := by decide +kernel

/-! ### the wrapper around a body called without arguments; the frame of a run with loops -/

/-- a call without arguments of a command whose `arguments_amount` is 0: nothing is published,
    no temporary array -/
theorem aliasRun_handleOps_nil (body : Vars → ScriptSt → BodyResult × Vars × ScriptSt)
    (scope : Str) (vars : Vars) (st : ScriptSt) (br : BodyResult) (vars2 : Vars) (st2 : ScriptSt)
    (hb : body vars { st with ctx := scope } = (br, vars2, st2))
    (hclear : clear scope vars2 = clear scope vars) :
    aliasRun handleOps 0 body scope [] vars st =
      (resultOf br, clear scope vars, { st2 with ctx := st.ctx }) := by
  rw [aliasRun_run handleOps 0 body scope [] vars st (by simp)]
  have hp : publish handleOps scope [] vars (handleOps.setCtx st scope) = (none, vars, { st with ctx := scope }) := by
    simp [publish, handleOps]
  simp only [hp, hb, cleanup]
  rw [hclear]
  have hle := clear_length_le scope vars
  have : ¬ vars.length < (clear scope vars).length := by omega
  simp [this, handleOps]

/-- what a run of a script WITH LOOPS leaves besides its result and the handle table: the
    variables `varsAfter` (the caller's minus those under the command's prefix, unless too few
    arguments were given), `alloc` names drawn from the allocator, the line-context name restored,
    the for-in call stack as before (in particular no entry of the script's own loops stays
    behind: `NoStaleFor` holds again), the if call stack grown by `pushed` (empty for a run that
    answers `Continue`; a run that raises `trigger_error` inside an `if` block leaves that block's
    entry behind), the block-position caches and the `end` table changed at most at keys under
    the command's own prefix ("scope::<cmd>::<line>") -/
structure LoopFrame (scope : Str) (alloc : Nat) (varsAfter : Vars) (pushed : List IfCall) (st : ScriptSt)
    (r : CmdResult × Vars × ScriptSt) : Prop where
  vars : r.2.1 = varsAfter
  next : r.2.2.coll.next = st.coll.next + alloc
  ctx : r.2.2.ctx = st.ctx
  ifStack : r.2.2.ifStack = pushed ++ st.ifStack
  forStack : r.2.2.forStack = st.forStack
  ifMeta : ∀ k, underPrefix scope k = false → r.2.2.ifMeta.get k = st.ifMeta.get k
  forMeta : ∀ k, underPrefix scope k = false → r.2.2.forMeta.get k = st.forMeta.get k
  endTable : ∀ k, underPrefix scope k = false → r.2.2.endTable.get k = st.endTable.get k

theorem underPrefix_flowKey (s : ScriptSt) (line : Nat) : underPrefix s.ctx (flowKey s line) = true := by
  unfold flowKey
  rw [List.append_assoc, underPrefix_append]
  simp [sep, List.isPrefixOf]

theorem get_forMetaAfter_frame (scope : Str) (m : KV Nat) (key : Str) (stop : Nat) (hk : underPrefix scope key = true)
    (k : Str) (h : underPrefix scope k = false) : (forMetaAfter m key stop).get k = m.get k := by
  unfold forMetaAfter
  cases m.get key with
  | some _ => rfl
  | none =>
    simp only [KV.get_put]
    rw [if_neg (by intro e; rw [e, hk] at h; cases h)]

theorem get_put_frame {α : Type} (scope : Str) (m : KV α) (key : Str) (v : α) (hk : underPrefix scope key = true)
    (k : Str) (h : underPrefix scope k = false) : (m.put key v).get k = m.get k := by
  simp only [KV.get_put]
  rw [if_neg (by intro e; rw [e, hk] at h; cases h)]

/-! ### one `if` instruction (no else branches) -/

def ifMetaAfter (m : KV (Nat × List Nat)) (key : Str) (stop : Nat) : KV (Nat × List Nat) :=
  match m.get key with
  | some _ => m
  | none => m.put key (stop, [])

def IfCacheOK (m : KV (Nat × List Nat)) (key : Str) (stop : Nat) : Prop :=
  m.get key = none ∨ m.get key = some (stop, [])

theorem ifMetaFor_ok (is : List Instruction) (s : ScriptSt) (line stop : Nat)
    (hfind : findCommands ifTables is (line + 1) = .ok ⟨[], stop⟩)
    (hc : IfCacheOK s.ifMeta (flowKey s line) stop) :
    ifMetaFor is s line = .ok ((stop, []),
      { s with ifMeta := ifMetaAfter s.ifMeta (flowKey s line) stop,
               endTable := s.endTable.put (flowKey s stop) fullNameEndIf }) := by
  unfold ifMetaFor ifMetaAfter
  rcases hc with h | h
  · simp [h, hfind]
  · simp [h]

/-- the state after the `if` on `line` looked its block up -/
def ifSt (s : ScriptSt) (line stop : Nat) : ScriptSt :=
  { s with ifMeta := ifMetaAfter s.ifMeta (flowKey s line) stop,
           endTable := s.endTable.put (flowKey s stop) fullNameEndIf }

/-- the if-call entry a passed `if` without else branches pushes -/
def ifEntry (line stop : Nat) (ctx : Str) : IfCall :=
  { current := stop, passed := true, elseIdx := 0, start := line, stop := stop, elses := [], ctx := ctx }

theorem runIf_simple (nested : Nested) (is : List Instruction) (k : Nat) (a : Str) (args : List Str) (line stop : Nat)
    (vars : Vars) (s : ScriptSt)
    (hfind : findCommands ifTables is (line + 1) = .ok ⟨[], stop⟩)
    (hc : IfCacheOK s.ifMeta (flowKey s line) stop)
    (passed : Bool) (vars' : Vars) (s' : ScriptSt)
    (hcond : evalCond nested is (a :: args) vars (ifSt s line stop) = (.ok passed, vars', s')) :
    runFlowF nested is (k + 1) .ifC (a :: args) line vars s =
      if passed then
        (.continue none, vars', { s' with ifStack := ifEntry line stop s'.ctx :: s'.ifStack })
      else (.goTo none (.line (stop + 1)), vars', s') := by
  have hm := ifMetaFor_ok is s line stop hfind hc
  simp only [runFlowF, runFlow, List.isEmpty_cons, Bool.false_eq_true, if_false, hm]
  unfold ifSt at hcond
  rw [hcond]
  cases passed <;> rfl

theorem get_ifMetaAfter_frame (scope : Str) (m : KV (Nat × List Nat)) (key : Str) (stop : Nat)
    (hk : underPrefix scope key = true) (k : Str) (h : underPrefix scope k = false) :
    (ifMetaAfter m key stop).get k = m.get k := by
  unfold ifMetaAfter
  cases m.get key with
  | some _ => rfl
  | none =>
    simp only [KV.get_put]
    rw [if_neg (by intro e; rw [e, hk] at h; cases h)]

/-- a run agrees with the specified function up to the NAME of the one handle both allocate
    (the source-run command draws the name of its temporary argument array first): both answer
    `Error` and the table reads as before, or both answer a handle - the run's handle `h'` was not
    live before, now holds what the specified function's handle `h` holds in the specified
    function's table, and every other lookup is the caller's -/
def AgreesAlloc (st : Coll.St) (spec : Coll.St × Res) (res : CmdResult) (tbl : Table) : Prop :=
  match spec.2 with
  | .err => (∃ m, res = .error m) ∧ LookupEq tbl st.tbl
  | .val o => ∃ h h', o = some h ∧ res = .continue (some h') ∧ tget st.tbl h' = none ∧
      (tget tbl h').isSome = true ∧ tget tbl h' = tget spec.1.tbl h ∧ ∀ k, k ≠ h' → tget tbl k = tget st.tbl k

theorem cacheOK_forMetaAfter (m : KV Nat) (key : Str) (stop : Nat) (h : CacheOK m key stop) :
    CacheOK (forMetaAfter m key stop) key stop := by
  unfold forMetaAfter
  cases hg : m.get key with
  | some v => simpa [hg] using h
  | none => right; simp [KV.get_put]

theorem ifCacheOK_ifMetaAfter (m : KV (Nat × List Nat)) (key : Str) (stop : Nat) (h : IfCacheOK m key stop) :
    IfCacheOK (ifMetaAfter m key stop) key stop := by
  unfold ifMetaAfter
  cases hg : m.get key with
  | some v => simpa [hg] using h
  | none => right; simp [KV.get_put]

end Duck.ScriptRun
