/-
  `array_concat` (std/collections/array_concat/script.ds) run from source: the FIRST iteration of
  its validation loop for every input whose first argument names no array - the run answers
  `Error` from inside `for … in` and leaves the loop's for-in entry on the call stack (finding
  C12-array-concat-after-error, for every such input).
-/
import DuckModel.Lemmas.ScriptLoopSetFromArray

namespace Duck.ScriptRun
open Duck Duck.Alias Duck.Coll Duck.Spec Duck.Generated Duck.Reser

def aScope : Str := "scope::array_concat".toList
def aArg : Str := "scope::array_concat::arg".toList
def aArgs : Str := "scope::array_concat::arguments".toList
def aArray : Str := "scope::array_concat::array".toList
def aItem : Str := "scope::array_concat::item".toList

/-- the parse of array_concat/script.ds -/
def acIs : List Instruction :=
  [emptyI 1,
   mkI 2 none "for" (some [[.lit aArg], [.lit "in".toList], [.var aArgs]]),
   mkI 3 none "if" (some [[.lit "not".toList], [.lit "is_array".toList], [.var aArg]]),
   mkI 4 none "trigger_error" (some [[.lit sMsg]]),
   mkI 5 none "end" none,
   mkI 6 none "end" none,
   emptyI 7,
   mkI 8 (some aArray) "array" none,
   emptyI 9,
   mkI 10 none "for" (some [[.lit aArg], [.lit "in".toList], [.var aArgs]]),
   mkI 11 none "for" (some [[.lit aItem], [.lit "in".toList], [.var aArg]]),
   mkI 12 none "array_push" (some [[.var aArray], [.var aItem]]),
   mkI 13 none "end" none,
   mkI 14 none "end" none,
   emptyI 15,
   mkI 16 none "set" (some [[.var aArray]])]

theorem ac_parses : parseText cmd_collections_array_concat.script = .ok acIs :=
  parsesTo_eq (by decide +kernel)

theorem ac_findFor1 : findCommands forTables acIs (1 + 1) = .ok ⟨[], 5⟩ := findsTo_eq (by decide +kernel)
theorem ac_findIf : findCommands ifTables acIs (2 + 1) = .ok ⟨[], 4⟩ := findsTo_eq (by decide +kernel)
theorem ac_findScript : findScript "array_concat".toList = some cmd_collections_array_concat := by rfl

/-- `if not is_array X` on any line of any body (no else branches) -/
theorem runIf_not_is_array (F d : Nat) (is : List Instruction) (line stop : Nat) (s : ScriptSt) (vars : Vars) (X : Str)
    (hX : ArgOK X = true)
    (hfind : findCommands ifTables is (line + 1) = .ok ⟨[], stop⟩)
    (hcI : IfCacheOK s.ifMeta (flowKey s line) stop) :
    runFlowF (nestedOf (bodySem (F + 2) (d + 1)) (F + 2)) is 2 .ifC ["not".toList, "is_array".toList, X] line vars s =
      if !(match tget s.coll.tbl X with | some (.list _) => true | _ => false) then
        (.continue none, vars, { ifSt s line stop with ifStack := ifEntry line stop s.ctx :: s.ifStack })
      else (.goTo none (.line (stop + 1)), vars, ifSt s line stop) := by
  obtain ⟨h1, h2, h3⟩ := argOK_parts hX
  have hcond := evalCond_not_native F d is "is_array".toList [X] (.coll .isArray) (by decide) (by decide)
    (by intro v hv; simp at hv; subst hv; exact h1)
    (by simp [positionOK, h3]; decide) (by simp [positionOK, h2, h3])
    fs_is_array rn_is_array vars (ifSt s line stop) _ vars (ifSt s line stop) (run_isArray X vars (ifSt s line stop))
  rw [isTrue_boolStr] at hcond
  rw [runIf_simple _ is 1 "not".toList ["is_array".toList, X] line stop vars s hfind hcI _ vars (ifSt s line stop) hcond]
  rfl

/-- the state the body is left in when the first argument names no array -/
def acErrSt (s : ScriptSt) : ScriptSt :=
  { s with
    forMeta := forMetaAfter s.forMeta (flowKey s 1) 5,
    ifMeta := ifMetaAfter s.ifMeta (flowKey s 2) 4,
    endTable := (s.endTable.put (flowKey s 5) fullNameEndForIn).put (flowKey s 4) fullNameEndIf,
    forStack := { iteration := 1, start := 1, stop := 5, ctx := s.ctx } :: s.forStack,
    ifStack := ifEntry 2 4 s.ctx :: s.ifStack }

/-- the body when the first cell of the argument array names no array: 4 instructions, `Error`
    raised inside the loop, the for-in entry (iteration 1) and the if-call entry stay -/
theorem ac_body_err (F d : Nat) (s : ScriptSt) (vars : Vars) (hA X : Str) (rest : List Item) (hX : ArgOK X = true)
    (hctx : s.ctx = aScope) (hv : vars.get aArgs = some hA)
    (hL : tget s.coll.tbl hA = some (.list (.str X :: rest)))
    (hstale : NoStaleFor aScope s.forStack)
    (hcF : CacheOK s.forMeta (flowKey s 1) 5) (hcI : IfCacheOK s.ifMeta (flowKey s 2) 4)
    (hnl : ∀ l, tget s.coll.tbl X ≠ some (.list l)) (fuel : Nat) :
    scriptBody (bodySem (F + 2) (d + 2) acIs) (fun _ => false) (fuel + 4) acIs vars s =
      (.error sMsg, vars.set aArg X, acErrSt s) := by
  unfold scriptBody
  rw [eval_skip _ _ _ 0 _ _ _ _ _ (show acIs[0]? = some (emptyI 1) from rfl) rfl]
  -- line 1: the first `for`
  have hb1 : bind vars ((some [[Seg.lit aArg], [Seg.lit "in".toList], [Seg.var aArgs]]).map fun a => a.map renderTemplate) =
      [aArg, "in".toList, hA] := by
    rw [bind_mk _ _ (by decide)]
    simp [tmplValue, Seg.value, hv]
  have hfor := runFor_first (nestedOf (bodySem (F + 2) (d + 1)) (F + 2)) acIs 1 aArg hA 1 5 vars s
    (by rw [hctx]; exact popFor_noStale 1 aScope s.forStack hstale) ac_findFor1 hcF
  have hnext : nextIteration s hA 0 = some X := by simp [nextIteration, hL, Item.render]
  rw [hnext] at hfor
  rw [eval_flow_continue (F + 2) (d + 1) acIs (fuel + 2) 1 _ none vars s _ _ "for".toList .forIn
    (show acIs[1]? = some (mkI 2 none "for" (some [[.lit aArg], [.lit "in".toList], [.var aArgs]])) from rfl)
    rfl fs_for rn_for rf_for _ hb1 none _ _ hfor]
  -- line 2: `if not is_array ${arg}` passes
  have hb2 : bind ((vars.set aArg X).updateOutput none none)
      ((some [[Seg.lit "not".toList], [Seg.lit "is_array".toList], [Seg.var aArg]]).map fun a => a.map renderTemplate) =
      ["not".toList, "is_array".toList, X] := by
    rw [bind_mk _ _ (by decide)]
    simp [tmplValue, Seg.value, Vars.updateOutput, get_set]
  have hif := runIf_not_is_array F d acIs 2 4
    { s with forMeta := forMetaAfter s.forMeta (flowKey s 1) 5,
             endTable := s.endTable.put (flowKey s 5) fullNameEndForIn,
             forStack := { iteration := 1, start := 1, stop := 5, ctx := s.ctx } :: s.forStack }
    ((vars.set aArg X).updateOutput none none) X hX ac_findIf hcI
  have hna : (match tget s.coll.tbl X with | some (.list _) => true | _ => false) = false := by
    cases hv' : tget s.coll.tbl X with
    | none => rfl
    | some v =>
      cases v with
      | list l => exact absurd hv' (hnl l)
      | _ => rfl
  simp only [hna, Bool.not_false, if_true] at hif
  rw [eval_flow_continue (F + 2) (d + 1) acIs (fuel + 1) 2 _ none _ _ _ _ "if".toList .ifC
    (show acIs[2]? = some (mkI 3 none "if" (some [[.lit "not".toList], [.lit "is_array".toList], [.var aArg]])) from rfl)
    rfl fs_if rn_if rf_if _ hb2 none _ _ hif]
  -- line 3: trigger_error
  have hb3 : bind (((vars.set aArg X).updateOutput none none).updateOutput none none)
      ((some [[Seg.lit sMsg]]).map fun a => a.map renderTemplate) = [sMsg] := by
    rw [bind_mk _ _ (by decide +kernel)]
    simp [tmplValue, Seg.value]
  rw [eval_native_error (F + 2) (d + 2) acIs fuel 3 _ none _ _ _ _ "trigger_error".toList .triggerError
    (show acIs[3]? = some (mkI 4 none "trigger_error" (some [[.lit sMsg]])) from rfl) rfl fs_trigger rn_trigger
    _ hb3 sMsg _ _ rfl]
  rfl

/-- the whole call: first argument names no array -/
theorem ac_runF_err (depth fuel : Nat) (a : Str) (rest : List Str) (vars : Vars) (st : ScriptSt)
    (hne : a ≠ Coll.handleName st.coll.next) (hok : ArgOK a = true)
    (hnl : ∀ l, tget st.coll.tbl a ≠ some (.list l))
    (hstale : NoStaleFor aScope st.forStack)
    (hcF : CacheOK st.forMeta "scope::array_concat::1".toList 5)
    (hcI : IfCacheOK st.ifMeta "scope::array_concat::2".toList 4) :
    runScriptCmdF (depth + 2) (fuel + 4) "array_concat".toList (a :: rest) vars st =
      (.error sMsg, clear aScope vars,
        { acErrSt (pubSt aScope (a :: rest) st) with
          coll := { tbl := tremove (pubSt aScope (a :: rest) st).coll.tbl (Coll.handleName st.coll.next),
                    next := st.coll.next + 1 },
          ctx := st.ctx }) := by
  rw [runScriptCmdF_entry (depth + 2) _ "array_concat".toList cmd_collections_array_concat _ ac_findScript ac_parses]
  have hargs : Vars.get (pubVars aScope (a :: rest) vars st) aArgs = some (Coll.handleName st.coll.next) := by
    unfold pubVars
    rw [get_set, if_pos (by decide)]
  have hL : tget (pubSt aScope (a :: rest) st).coll.tbl (Coll.handleName st.coll.next) =
      some (.list (.str a :: rest.map .str)) := by
    simp only [pubSt, tget_tinsert, if_true, List.map_cons]
  have hbody := ac_body_err (fuel + 2) depth (pubSt aScope (a :: rest) st) (pubVars aScope (a :: rest) vars st)
    (Coll.handleName st.coll.next) a (rest.map .str) hok rfl hargs hL hstale hcF hcI
    (by intro l
        simp only [pubSt, tget_tinsert]
        rw [if_neg hne]; exact hnl l)
    fuel
  show aliasRun handleOps 0 (scriptBody (bodySem (fuel + 2 + 2) (depth + 2) acIs) (fun _ => false) (fuel + 4) acIs)
    aScope (a :: rest) vars st = _
  rw [aliasRun_handleOps 0 _ aScope (a :: rest) vars st (by simp) (by simp) _ _ _ hbody
    (clear_set_under _ _ _ _ (by decide))]
  rfl

end Duck.ScriptRun
