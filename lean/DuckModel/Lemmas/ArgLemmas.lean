/-
  Lemmas about rendered arguments: `escape`, `renderArg`, `renderArgs` against
  `pvLoop` / `parseNextValue` / `parseArgsLoop`.
-/
import DuckModel.Lemmas.PvLemmas

namespace Duck
open Duck.Spec

theorem escape_nil : escape [] = [] := rfl

theorem escape_cons (c : Char) (s : Str) : escape (c :: s) = escChar c ++ escape s := by
  simp [escape]

/-! ### quoted argument -/

theorem pvLoop_quoted_char (c : Char) (acc l : Str) :
    pvLoop (argFlags false) { arg := acc, inArg := true, usingQuotes := true } (escChar c ++ l) =
      pvLoop (argFlags false) { arg := acc ++ [c], inArg := true, usingQuotes := true } l := by
  by_cases h1 : c = '\\'
  · subst h1; simp [escChar, pvLoop, pvStep, argFlags]
  by_cases h2 : c = '"'
  · subst h2; simp [escChar, pvLoop, pvStep, argFlags]
  by_cases h3 : c = '\n'
  · subst h3; simp [escChar, pvLoop, pvStep, argFlags]
  by_cases h4 : c = '\r'
  · subst h4; simp [escChar, pvLoop, pvStep, argFlags]
  by_cases h5 : c = '\t'
  · subst h5; simp [escChar, pvLoop, pvStep, argFlags]
  simp [escChar, pvLoop, pvStep, argFlags, h1, h2, h3, h4, h5]

/-- inside quotes the escaped text of `s` is read back as `s`, whatever follows -/
theorem pvLoop_quoted (s acc tail : Str) :
    pvLoop (argFlags false) { arg := acc, inArg := true, usingQuotes := true } (escape s ++ tail) =
      pvLoop (argFlags false) { arg := acc ++ s, inArg := true, usingQuotes := true } tail := by
  induction s generalizing acc with
  | nil => simp [escape]
  | cons c t ih =>
    rw [escape_cons, List.append_assoc, pvLoop_quoted_char, ih]
    simp

theorem pvLoop_open_quote (l : Str) :
    pvLoop (argFlags false) {} ('"' :: l) =
      pvLoop (argFlags false) { arg := [], inArg := true, usingQuotes := true } l := by
  rw [pvLoop]; simp [pvStep, argFlags]

theorem parseNextValue_quoted (s tail : Str) :
    parseNextValue (argFlags false) ('"' :: (escape s ++ '"' :: tail)) = .ok (tail, some s) := by
  rw [parseNextValue_eq, pvLoop_open_quote, pvLoop_quoted, pvLoop]
  cases s <;> simp [pvStep, pvFinish]

/-! ### unquoted argument -/

/-- characters of an argument that may be written without quotes: only the space character and
    `#` end an unquoted token (tab, CR, LF, `\` and `"` are written escaped; any other character,
    white space such as U+00A0 included, is written raw and accumulated by the scanner) -/
def UnqChar (c : Char) : Prop := c ≠ ' ' ∧ c ≠ '#'

theorem pvLoop_unquoted_char (c : Char) (acc l : Str) (h : UnqChar c) :
    pvLoop (argFlags false) { arg := acc, inArg := true } (escChar c ++ l) =
      pvLoop (argFlags false) { arg := acc ++ [c], inArg := true } l := by
  obtain ⟨w1, hh⟩ := h
  by_cases h1 : c = '\\'
  · subst h1; simp [escChar, pvLoop, pvStep, argFlags]
  by_cases h2 : c = '"'
  · subst h2; simp [escChar, pvLoop, pvStep, argFlags]
  by_cases h3 : c = '\n'
  · subst h3; simp [escChar, pvLoop, pvStep, argFlags]
  by_cases h4 : c = '\r'
  · subst h4; simp [escChar, pvLoop, pvStep, argFlags]
  by_cases h5 : c = '\t'
  · subst h5; simp [escChar, pvLoop, pvStep, argFlags]
  simp [escChar, pvLoop, pvStep, argFlags, h1, h2, h3, h4, h5, w1, hh]

theorem pvLoop_unquoted_body (s acc tail : Str) (h : ∀ c ∈ s, UnqChar c) :
    pvLoop (argFlags false) { arg := acc, inArg := true } (escape s ++ tail) =
      pvLoop (argFlags false) { arg := acc ++ s, inArg := true } tail := by
  induction s generalizing acc with
  | nil => simp [escape]
  | cons c t ih =>
    rw [escape_cons, List.append_assoc, pvLoop_unquoted_char c acc _ (h c (by simp)),
      ih _ (fun x hx => h x (by simp [hx]))]
    simp

theorem pvLoop_unquoted_first (c : Char) (l : Str) (h : UnqChar c) (hq : c ≠ '"') :
    pvLoop (argFlags false) {} (escChar c ++ l) =
      pvLoop (argFlags false) { arg := [c], inArg := true } l := by
  obtain ⟨w1, hh⟩ := h
  by_cases h1 : c = '\\'
  · subst h1; simp [escChar, pvLoop, pvStep, argFlags]
  by_cases h3 : c = '\n'
  · subst h3; simp [escChar, pvLoop, pvStep, argFlags]
  by_cases h4 : c = '\r'
  · subst h4; simp [escChar, pvLoop, pvStep, argFlags]
  by_cases h5 : c = '\t'
  · subst h5; simp [escChar, pvLoop, pvStep, argFlags]
  simp [escChar, pvLoop, pvStep, argFlags, h1, hq, h3, h4, h5, w1, hh]

/-- `canUnquote` unfolded: non-empty, no space and no `#` anywhere, first and last character not
    white space (the line is trimmed), first character neither `"` nor `=` -/
theorem canUnquote_iff (s : Str) :
    canUnquote s = true ↔
      s ≠ [] ∧ (∀ c ∈ s, UnqChar c) ∧ (∀ c, s.head? = some c → isWs c = false) ∧
        (∀ c, s.getLast? = some c → isWs c = false) ∧
        s.head? ≠ some '"' ∧ s.head? ≠ some '=' := by
  cases hh : s.head? <;> cases hl : s.getLast? <;>
    simp [canUnquote, UnqChar, and_assoc, hh, hl]

theorem parseNextValue_unquoted (s tail : Str) (h : canUnquote s = true) (hb : Bnd false tail) :
    parseNextValue (argFlags false) (escape s ++ tail) = .ok (afterTok tail, some s) := by
  obtain ⟨hne, hall, _, _, hq, _⟩ := (canUnquote_iff s).mp h
  cases s with
  | nil => exact absurd rfl hne
  | cons c t =>
    rw [parseNextValue_eq, escape_cons, List.append_assoc,
      pvLoop_unquoted_first c _ (hall c (by simp)) (by simpa using hq),
      pvLoop_unquoted_body t [c] tail (fun x hx => hall x (by simp [hx]))]
    exact pv_finish_at_bnd (argFlags false) ([c] ++ t) tail (by simp) hb

/-- an argument with an inner no-break space (U+00A0, Unicode white space but not the space
    character) may be written without quotes … -/
example : canUnquote ['a', '\u00a0', 'b'] = true := by decide

/-- … but not one that starts or ends with it (the line is trimmed), nor one with a space -/
example : canUnquote ['a', '\u00a0'] = false ∧ canUnquote ['\u00a0', 'a'] = false ∧
    canUnquote ['a', ' ', 'b'] = false := by decide

/-! ### one rendered argument -/

theorem parseNextValue_renderArg (q : Bool) (s tail : Str) (hb : Bnd false tail) :
    ∃ r, parseNextValue (argFlags false) (renderArg q s ++ tail) = .ok (r, some s) ∧
      (r = tail ∨ r = afterTok tail) := by
  unfold renderArg
  split
  · refine ⟨tail, ?_, Or.inl rfl⟩
    have := parseNextValue_quoted s tail
    simpa using this
  · rename_i hcond
    have hcu : canUnquote s = true := by
      cases hq : canUnquote s <;> simp [hq] at hcond ⊢
    exact ⟨afterTok tail, parseNextValue_unquoted s tail hcu hb, Or.inr rfl⟩

/-! ### `parseArgsLoop` -/

theorem parseArgsLoop_none (cac : Bool) (l r : Str)
    (h1 : parseNextValue (argFlags cac) l = .ok (r, none)) : parseArgsLoop cac l = .ok [] := by
  rw [parseArgsLoop, h1]

theorem parseArgsLoop_step (cac : Bool) (l r a : Str) (as : List Str)
    (h1 : parseNextValue (argFlags cac) l = .ok (r, some a)) (h2 : r.length < l.length)
    (h3 : parseArgsLoop cac r = .ok as) : parseArgsLoop cac l = .ok (a :: as) := by
  rw [parseArgsLoop, h1]
  simp [h2, h3]

theorem parseArgsLoop_error (cac : Bool) (l : Str) (e : PErr)
    (h1 : parseNextValue (argFlags cac) l = .error e) : parseArgsLoop cac l = .error e := by
  rw [parseArgsLoop, h1]

theorem renderArgs_nil (ch : List (Nat × Bool)) (k : Nat) : renderArgs ch k [] = [] := rfl

theorem renderArgs_cons (ch : List (Nat × Bool)) (k : Nat) (a : Str) (as : List Str) :
    renderArgs ch k (a :: as) =
      ' ' :: (spaces (argChoice ch k).1 ++
        (renderArg (argChoice ch k).2 a ++ renderArgs ch (k + 1) as)) := by
  simp [renderArgs, spaces_succ]

theorem renderArgs_bnd (ch : List (Nat × Bool)) (k : Nat) (as : List Str) {t : Str}
    (h : EolTail t) : Bnd false (renderArgs ch k as ++ t) := by
  cases as with
  | nil => simpa [renderArgs_nil] using h.bnd
  | cons a as => rw [renderArgs_cons]; exact Bnd.space _

theorem afterTok_renderArgs (ch : List (Nat × Bool)) (k : Nat) (as : List Str) {t : Str}
    (h : EolTail t) :
    ∃ t', EolTail t' ∧ afterTok (renderArgs ch k as ++ t) = renderArgs ch k as ++ t' := by
  cases as with
  | nil => exact ⟨afterTok t, h.afterTok, by simp [renderArgs_nil]⟩
  | cons a as => exact ⟨t, h, by rw [renderArgs_cons]; exact afterTok_space _⟩

/-- rendered arguments followed by an end-of-line-like tail are read back exactly -/
theorem parseArgsLoop_render (ch : List (Nat × Bool)) (args : List Str) :
    ∀ (k : Nat) (t : Str), EolTail t →
      parseArgsLoop false (renderArgs ch k args ++ t) = .ok args := by
  induction args with
  | nil =>
    intro k t ht
    rw [renderArgs_nil, List.nil_append]
    exact parseArgsLoop_none false t [] (parseNextValue_eol _ ht)
  | cons a as ih =>
    intro k t ht
    obtain ⟨r, hr, hcase⟩ := parseNextValue_renderArg (argChoice ch k).2 a
      (renderArgs ch (k + 1) as ++ t) (renderArgs_bnd ch (k + 1) as ht)
    obtain ⟨t', ht', hat⟩ := afterTok_renderArgs ch (k + 1) as ht
    have hlen : r.length ≤ (renderArgs ch (k + 1) as ++ t).length := by
      rcases hcase with rfl | rfl
      · exact Nat.le_refl _
      · exact afterTok_length_le _
    have hrec : parseArgsLoop false r = .ok as := by
      rcases hcase with rfl | rfl
      · exact ih (k + 1) t ht
      · rw [hat]; exact ih (k + 1) t' ht'
    have heq : renderArgs ch k (a :: as) ++ t =
        spaces ((argChoice ch k).1 + 1) ++
          (renderArg (argChoice ch k).2 a ++ (renderArgs ch (k + 1) as ++ t)) := by
      simp [renderArgs]
    refine parseArgsLoop_step false _ r a as ?_ ?_ hrec
    · rw [heq, parseNextValue_spaces]; exact hr
    · rw [heq]
      simp only [List.length_append, spaces, List.length_replicate] at hlen ⊢
      omega

end Duck
