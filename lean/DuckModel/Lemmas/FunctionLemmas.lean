/-
  Helper lemmas about the function-call commands of `Sdk/Flow.lean` (used by Props/C05.lean):
  injectivity of the decimal parameter names, lookups in the parameter bindings, and the two
  shapes of `scopePop` that `end_fn` (copy list empty) and `return` (copy list = the output
  variable) use.
-/
import DuckModel.Sdk.Flow
import DuckModel.Spec.Tree
import DuckModel.Lemmas.VarScopeLemmas
import Std.Data.String.ToNat

namespace Duck.Fn
open Duck

/-! ### parameter names -/

theorem natToStr_inj {a b : Nat} (h : natToStr a = natToStr b) : a = b := by
  unfold natToStr at h
  have h3 : Nat.repr a = Nat.repr b := String.toList_inj.mp h
  exact Nat.repr_injective h3

/-- `k` is one of the parameter names "1" … "n" -/
def IsParam (n : Nat) (k : Str) : Prop := ∃ i, i < n ∧ k = natToStr (i + 1)

/-- the binding loop of `run_call` started at index `n` -/
def bindFrom (n : Nat) (m : Vars) (args : List Str) : Vars :=
  (args.zipIdx n).foldl (fun m (a, i) => m.set (natToStr (i + 1)) a) m

theorem bindParams_eq (m : Vars) (args : List Str) : Spec.bindParams m args = bindFrom 0 m args := rfl

theorem bindFrom_nil (n : Nat) (m : Vars) : bindFrom n m [] = m := rfl

theorem bindFrom_cons (n : Nat) (m : Vars) (a : Str) (as : List Str) :
    bindFrom n m (a :: as) = bindFrom (n + 1) (m.set (natToStr (n + 1)) a) as := rfl

theorem get_bindFrom_other (n : Nat) (m : Vars) (args : List Str) (k : Str)
    (h : ∀ i, i < args.length → k ≠ natToStr (n + i + 1)) :
    (bindFrom n m args).get k = m.get k := by
  induction args generalizing n m with
  | nil => rfl
  | cons a as ih =>
    rw [bindFrom_cons, ih]
    · rw [VarScope.get_set]
      have h0 := h 0 (by simp)
      simp only [Nat.add_zero] at h0
      simp [h0]
    · intro i hi
      have h1 := h (i + 1) (by simp only [List.length_cons]; omega)
      rwa [show n + (i + 1) + 1 = n + 1 + i + 1 by omega] at h1

theorem get_bindFrom_hit (n : Nat) (m : Vars) (args : List Str) (i : Nat) (h : i < args.length) :
    (bindFrom n m args).get (natToStr (n + i + 1)) = args[i]? := by
  induction args generalizing n m i with
  | nil => simp at h
  | cons a as ih =>
    rw [bindFrom_cons]
    cases i with
    | zero =>
      rw [get_bindFrom_other]
      · simp [VarScope.get_set]
      · intro j _ e
        have := natToStr_inj e
        omega
    | succ i =>
      have h' : i < as.length := by simpa using h
      have := ih (n + 1) (m.set (natToStr (n + 1)) a) i h'
      rw [show n + (i + 1) + 1 = n + 1 + i + 1 by omega]
      simpa using this

/-! ### `scopePush` / `scopePop` with the copy lists the function commands use -/

theorem scopePush_nil (vars : Vars) (s : Sdk) :
    scopePush vars s [] = ([], { s with scopeStack := vars :: s.scopeStack }) := rfl

theorem scopePop_empty (vars : Vars) (s : Sdk) (copy : List Str) (h : s.scopeStack = []) :
    scopePop vars s copy = none := by
  simp [scopePop, h]

theorem scopePop_nil (vars : Vars) (s : Sdk) (saved : Vars) (rest : List Vars)
    (h : s.scopeStack = saved :: rest) :
    scopePop vars s [] = some (saved, { s with scopeStack := rest }) := by
  simp [scopePop, h]

theorem scopePop_one (vars : Vars) (s : Sdk) (saved : Vars) (rest : List Vars) (n : Str)
    (h : s.scopeStack = saved :: rest) :
    scopePop vars s [n] =
      some ((match vars.get n with | some v => saved.set n v | none => saved),
            { s with scopeStack := rest }) := by
  unfold scopePop
  simp only [h, List.head?_cons, List.tail_cons, List.foldl_cons, List.foldl_nil]
  cases vars.get n <;> simp [Vars.set, Vars.erase]

end Duck.Fn
