/-
  Helper lemmas for Props/C08TranslatedFns.lean: the functions of Generated/ParserFns.lean
  (translated from duckscript/src/parser.rs by bin/rust2lean.py) against the hand-written
  index-faithful twin (ParserIndexed.lean).

  The translated loops keep their mutable locals in a TUPLE (ordered by type, then declaration),
  the hand-written ones in a structure: `iFor_map` carries a loop over one state type to a loop
  over the other along a map of states.
-/
import DuckModel.ParserIndexed
import DuckModel.Lemmas.IndexedLemmas
import DuckModel.Generated.ParserFns

namespace Duck
open Duck.Generated

def IStep.map {σ τ : Type} (f : σ → τ) : IStep σ → IStep τ
  | .next s => .next (f s)
  | .brk s => .brk (f s)
  | .err e => .err e
  | .panic => .panic

def IOut.map {α β : Type} (f : α → β) : IOut α → IOut β
  | .ok a => .ok (f a)
  | .err e => .err e
  | .panic => .panic

theorem iFor_map {σ τ : Type} (f : σ → τ) (b : σ → IStep σ) (b' : τ → IStep τ)
    (h : ∀ s, b' (f s) = (b s).map f) : ∀ n s, iFor b' n (f s) = (iFor b n s).map f := by
  intro n
  induction n with
  | zero => intro s; rfl
  | succ n ih =>
    intro s
    simp only [iFor, h]
    cases b s with
    | next s' => simpa [IStep.map] using ih s'
    | brk s' => rfl
    | err e => rfl
    | panic => rfl

/-! ### `parse_arguments_with_options` -/

theorem parseNextArgumentGen_eq (line : Str) (start : Nat) (cac : Bool) :
    parseNextArgumentGen line start cac = iParseNextValue (argFlags cac) line start := rfl

theorem argsLoopGen_eq (cac : Bool) (line : Str) : ∀ (fuel i : Nat) (acc : List Str),
    (iLoop (parseArgumentsWithOptionsBodyGen line cac) fuel (i, acc)).map Prod.snd =
      iArgsLoop cac line fuel i acc := by
  intro fuel
  induction fuel with
  | zero => intro i acc; rfl
  | succ n ih =>
    intro i acc
    simp only [iLoop, iArgsLoop, parseArgumentsWithOptionsBodyGen, parseNextArgumentGen_eq]
    cases iParseNextValue (argFlags cac) line i with
    | panic => rfl
    | err e => rfl
    | ok x =>
      obtain ⟨j, v⟩ := x
      cases v with
      | none => rfl
      | some a => exact ih j (acc ++ [a])

/-! ### `find_label` -/

def iflTuple (s : IFL) : Nat × Option Str := (s.index, s.label)

theorem findLabelBodyGen_eq (line : Str) (s : IFL) :
    findLabelBodyGen line (iflTuple s) = (iflBody line s).map iflTuple := by
  unfold findLabelBodyGen iflBody iflTuple
  cases rd line s.index with
  | none => rfl
  | some c =>
    simp only [decr_succ, nameFlags]
    repeat' split
    all_goals first
      | rfl
      | simp_all [IStep.map]

/-! ### `find_output_and_command` -/

def iocTuple (s : IOC) : Nat × Option Str := (s.index, s.output)

theorem findOutputAndCommandBodyGen_eq (line v : Str) (s : IOC) :
    findOutputAndCommandBodyGen line v (iocTuple s) = (iocBody line v s).map iocTuple := by
  unfold findOutputAndCommandBodyGen iocBody iocTuple
  cases rd line s.index with
  | none => rfl
  | some c =>
    simp only []
    repeat' split
    all_goals first
      | rfl
      | simp_all [IStep.map]

/-- what `find_output_and_command` leaves in the instruction it was handed: the output and,
    when a command was found, the command -/
def fillInstr (ins : ScriptInstr) (o c : Option Str) : ScriptInstr :=
  { ins with output := o, command := match c with | some x => some x | none => ins.command }

/-! ### `parse_pre_process_line` -/

def ippTuple (s : IPP) : Nat × Str := (s.index, s.command)

theorem parsePreProcessLineBodyGen_eq (line : Str) (s : IPP) :
    parsePreProcessLineBodyGen line (ippTuple s) = (ippBody line s).map ippTuple := by
  unfold parsePreProcessLineBodyGen ippBody ippTuple
  cases rd line s.index with
  | none => rfl
  | some c =>
    simp only []
    repeat' split
    all_goals first
      | rfl
      | simp_all

end Duck
