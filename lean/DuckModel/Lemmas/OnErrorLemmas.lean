/-
  Helper definitions and lemmas for Props/C10.lean.

  * `recOf`      : the error sub state as the specification's `Record`
  * `eventOf`    : what the instruction about to be executed means for the record
  * `runN` / `eventsN` : n iterations of the runner loop and the events they produce
  * one-step lemmas about `runStep` for an arbitrary command semantics
    (`runStep_noInvocation`, `runStep_unknown`, `runStep_error`, `runStep_inl_nonError`)
  * `runOnError_withOnError` : what the runner's error hook does with the family's `on_error`
  * `runStep_record` : one loop iteration = `Record.after` of its event
  * fold lemmas about `Record.afterAll`
-/
import DuckModel.Sdk.OnError
import DuckModel.Spec.ErrorProtocol
import DuckModel.Spec.Machine
import DuckModel.Lemmas.RunnerLemmas

set_option linter.unusedSimpArgs false
set_option linter.unusedVariables false

namespace Duck
open Duck.Spec Duck.OnError

variable {σ : Type}

/-- the error sub state, read as the specification's record -/
def recOf (e : ErrSt) : Record := ⟨e.lastError, e.lastErrorLine, e.lastErrorSource, e.exitOnError⟩

/-- the event of a family member that does not report an error -/
def famEvent (f : Fam) (bargs : List Str) (pc : Nat) (fatal : Bool) : Ev :=
  match f, bargs with
  | .setError, m :: _ => .setError m pc
  | .onError, m :: rest =>
    if fatal then .quiet
    else
      match rest with
      | [] => .reported m [] []
      | l :: rest2 => .reported m l (rest2.headD [])
  | .exitOnError, v :: _ => .mode (isTrue (some v))
  | _, _ => .quiet

theorem famEvent_ne_error (f : Fam) (a : List Str) (pc : Nat) (b : Bool) (m : Str) (mi : Meta) :
    famEvent f a pc b ≠ .error m mi := by
  cases f <;> cases a <;> simp [famEvent]
  rename_i x rest
  cases b <;> cases rest <;> simp

/-- what the instruction at the current line means for the record -/
def eventOf (base : CmdSem σ) (is : List Instruction) (rs : RunState (σ × ErrSt)) : Ev :=
  match is[rs.line]? with
  | none => .quiet
  | some i =>
    match invocationOf i with
    | none => .quiet
    | some (name, args) =>
      match withOnError base name (bind rs.vars args) (outputOf i) rs.line rs.vars rs.st with
      | some (.error m, _, _) => .error m i.mi
      | _ =>
        match famOf name with
        | some f => famEvent f (bind rs.vars args) rs.line rs.st.2.exitOnError
        | none => .quiet

/-- `n` iterations of the loop of `run_instructions`, `none` if the run ends earlier -/
def runN (sem : CmdSem σ) (is : List Instruction) (labels : List (Str × Nat))
    (halt : Nat → σ → Bool) : Nat → RunState σ → Option (RunState σ)
  | 0, rs => some rs
  | n + 1, rs =>
    match runStep sem is labels halt rs with
    | .inl rs' => runN sem is labels halt n rs'
    | .inr _ => none

/-- the events of the first `n` iterations -/
def eventsN (base : CmdSem σ) (is : List Instruction) (labels : List (Str × Nat))
    (halt : Nat → σ × ErrSt → Bool) : Nat → RunState (σ × ErrSt) → List Ev
  | 0, _ => []
  | n + 1, rs =>
    eventOf base is rs ::
      match runStep (withOnError base) is labels halt rs with
      | .inl rs' => eventsN base is labels halt n rs'
      | .inr _ => []

/-! ### the runner loop, one iteration, arbitrary command semantics -/

theorem runStep_noInvocation (sem : CmdSem σ) (is : List Instruction) (labels : List (Str × Nat))
    (halt : Nat → σ → Bool) (rs : RunState σ) (i : Instruction)
    (hh : halt rs.polls rs.st = false) (hi : is[rs.line]? = some i)
    (hinv : invocationOf i = none) :
    runStep sem is labels halt rs =
      .inl { line := rs.line + 1, polls := rs.polls + 1,
             vars := Vars.updateOutput rs.vars (outputOf i) none, st := rs.st } := by
  unfold runStep
  simp [hh, hi, runInstruction_noInvocation sem _ _ _ _ hinv]

theorem runStep_unknown (sem : CmdSem σ) (is : List Instruction) (labels : List (Str × Nat))
    (halt : Nat → σ → Bool) (rs : RunState σ) (i : Instruction) (name : Str)
    (args : Option (List Str))
    (hh : halt rs.polls rs.st = false) (hi : is[rs.line]? = some i)
    (hinv : invocationOf i = some (name, args))
    (hsem : sem name (bind rs.vars args) (outputOf i) rs.line rs.vars rs.st = none) :
    ∃ fin e, runStep sem is labels halt rs = .inr (fin, e) := by
  unfold runStep
  simp [hh, hi, runInstruction_invocation sem _ _ _ _ _ _ hinv, hsem]

/-- the error branch: the output variable becomes "false", then the error hook decides -/
theorem runStep_error (sem : CmdSem σ) (is : List Instruction) (labels : List (Str × Nat))
    (halt : Nat → σ → Bool) (rs : RunState σ) (i : Instruction) (name : Str)
    (args : Option (List Str)) (m : Str) (vars' : Vars) (st' : σ)
    (hh : halt rs.polls rs.st = false) (hi : is[rs.line]? = some i)
    (hinv : invocationOf i = some (name, args))
    (hsem : sem name (bind rs.vars args) (outputOf i) rs.line rs.vars rs.st =
      some (.error m, vars', st')) :
    runStep sem is labels halt rs =
      match runOnError sem (Vars.updateOutput vars' (outputOf i) (some "false".toList)) st' m i.mi with
      | (some msg, v, s) =>
        .inr ({ line := rs.line, polls := rs.polls + 1, vars := v, st := s }, .fail msg i.mi)
      | (none, v, s) =>
        .inl { line := rs.line + 1, polls := rs.polls + 1, vars := v, st := s } := by
  unfold runStep
  simp [hh, hi, runInstruction_invocation sem _ _ _ _ _ _ hinv, hsem]
  rfl

/-- a continuing iteration whose command did not report an error keeps the command's state;
    the command neither crashed nor exited -/
theorem runStep_inl_nonError (sem : CmdSem σ) (is : List Instruction) (labels : List (Str × Nat))
    (halt : Nat → σ → Bool) (rs rs' : RunState σ) (i : Instruction) (name : Str)
    (args : Option (List Str)) (r : CmdResult) (vars' : Vars) (st' : σ)
    (hh : halt rs.polls rs.st = false) (hi : is[rs.line]? = some i)
    (hinv : invocationOf i = some (name, args))
    (hsem : sem name (bind rs.vars args) (outputOf i) rs.line rs.vars rs.st = some (r, vars', st'))
    (hne : ∀ m, r ≠ .error m)
    (h : runStep sem is labels halt rs = .inl rs') :
    rs'.st = st' ∧ (∀ m, r ≠ .crash m) ∧ (∀ v, r ≠ .exit v) := by
  unfold runStep at h
  simp only [hh, hi, runInstruction_invocation sem _ _ _ _ _ _ hinv, hsem] at h
  cases r with
  | error m => exact absurd rfl (hne m)
  | crash m => simp at h
  | exit v =>
    simp only [Bool.false_eq_true, if_false] at h
    split at h
    · split at h <;> simp at h
    · simp at h
  | «continue» v =>
    simp at h
    subst h
    simp
  | goTo v g =>
    cases g with
    | line n =>
      simp at h
      subst h
      simp
    | label l =>
      simp only [Bool.false_eq_true, if_false] at h
      split at h
      · simp at h
        subst h
        simp
      · simp at h

theorem runStep_halted (sem : CmdSem σ) (is : List Instruction) (labels : List (Str × Nat))
    (halt : Nat → σ → Bool) (rs rs' : RunState σ)
    (h : runStep sem is labels halt rs = .inl rs') : halt rs.polls rs.st = false := by
  cases hh : halt rs.polls rs.st with
  | false => rfl
  | true =>
    unfold runStep at h
    simp [hh] at h

theorem runStep_inl_instr (sem : CmdSem σ) (is : List Instruction) (labels : List (Str × Nat))
    (halt : Nat → σ → Bool) (rs rs' : RunState σ)
    (h : runStep sem is labels halt rs = .inl rs') : ∃ i, is[rs.line]? = some i := by
  have hh := runStep_halted sem is labels halt rs rs' h
  cases hi : is[rs.line]? with
  | some i => exact ⟨i, rfl⟩
  | none =>
    unfold runStep at h
    simp [hh, hi] at h

/-! ### the family inside the composed semantics -/

theorem famOf_onErrorName : famOf onErrorName = some .onError := by decide

theorem withOnError_fam (base : CmdSem σ) (name : Str) (f : Fam) (hf : famOf name = some f)
    (args : List Str) (out : Option Str) (line : Nat) (vars : Vars) (s : σ × ErrSt) :
    withOnError base name args out line vars s =
      some ((runFam f args line s.2).1, vars, (s.1, (runFam f args line s.2).2)) := by
  simp [withOnError, hf]

theorem withOnError_base (base : CmdSem σ) (name : Str) (hf : famOf name = none)
    (args : List Str) (out : Option Str) (line : Nat) (vars : Vars) (s : σ × ErrSt) :
    withOnError base name args out line vars s =
      match base name args out line vars s.1 with
      | none => none
      | some (r, vars', s1') => some (r, vars', (s1', s.2)) := by
  simp [withOnError, hf]
  rfl

/-- members that report an error leave the sub state alone -/
theorem runFam_error_st (f : Fam) (args : List Str) (line : Nat) (e : ErrSt) (m : Str)
    (h : (runFam f args line e).1 = .error m) : (runFam f args line e).2 = e := by
  cases f <;> simp [runFam] at h ⊢
  · -- onError
    cases args with
    | nil => simp at h
    | cons a rest =>
      simp at h ⊢
      split at h <;> simp at h
  · cases args <;> simp at h
  · cases args with
    | nil => rfl
    | cons a rest => simp at h

/-- a command that reports an error leaves the error sub state as it was -/
theorem withOnError_error_st (base : CmdSem σ) (name : Str) (args : List Str) (out : Option Str)
    (line : Nat) (vars vars' : Vars) (s st' : σ × ErrSt) (m : Str)
    (h : withOnError base name args out line vars s = some (.error m, vars', st')) :
    st'.2 = s.2 := by
  cases hf : famOf name with
  | some f =>
    rw [withOnError_fam base name f hf] at h
    simp only [Option.some.injEq, Prod.mk.injEq] at h
    obtain ⟨h1, _, h3⟩ := h
    rw [← h3]
    exact runFam_error_st f args line s.2 m h1
  | none =>
    rw [withOnError_base base name hf] at h
    cases hb : base name args out line vars s.1 with
    | none => simp [hb] at h
    | some x =>
      obtain ⟨r, v, s1⟩ := x
      simp [hb] at h
      rw [← h.2.2]

/-- the runner's error hook with the family's `on_error`: fatal mode ⇒ the hook fails with the
    message; otherwise the three values are stored as they are -/
theorem runOnError_withOnError (base : CmdSem σ) (vars : Vars) (s : σ × ErrSt) (m : Str)
    (mi : Meta) :
    runOnError (withOnError base) vars s m mi =
      if s.2.exitOnError then (some m, vars, s)
      else (none, vars, (s.1, { s.2 with lastError := some m, lastErrorLine := some (lineText mi),
                                         lastErrorSource := some (sourceText mi) })) := by
  unfold runOnError
  rw [withOnError_fam base onErrorName .onError famOf_onErrorName]
  cases hx : s.2.exitOnError <;> simp [runFam, hx, lineText, sourceText]

/-! ### one iteration and the record -/

theorem recOf_after_error (e : ErrSt) (m : Str) (mi : Meta) :
    recOf { e with lastError := some m, lastErrorLine := some (lineText mi),
                   lastErrorSource := some (sourceText mi) } = (recOf e).after (.error m mi) := by
  simp [recOf, Record.after]

theorem runFam_record (f : Fam) (args : List Str) (line : Nat) (e : ErrSt)
    (hne : ∀ m, (runFam f args line e).1 ≠ .error m)
    (hnc : ∀ m, (runFam f args line e).1 ≠ .crash m) :
    recOf (runFam f args line e).2 = (recOf e).after (famEvent f args line e.exitOnError) := by
  cases f
  · -- onError
    cases args with
    | nil => simp [runFam] at hnc
    | cons a rest =>
      cases hx : e.exitOnError with
      | true => simp [runFam, hx] at hnc
      | false =>
        cases rest with
        | nil => simp [runFam, hx, famEvent, recOf, Record.after]
        | cons l rest2 => simp [runFam, hx, famEvent, recOf, Record.after]
  · cases args <;> simp [runFam, famEvent, recOf, Record.after]
  · cases args <;> simp [runFam, famEvent, recOf, Record.after]
  · cases args <;> simp [runFam, famEvent, recOf, Record.after]
  · cases args <;> simp [runFam, famEvent, recOf, Record.after]
  · cases args with
    | nil => simp [runFam] at hne
    | cons a rest => simp [runFam, famEvent, recOf, Record.after]
  · simp [runFam] at hne
  · simp [runFam] at hne

/-- one continuing iteration of the loop changes the record by exactly its event -/
theorem runStep_record (base : CmdSem σ) (is : List Instruction) (labels : List (Str × Nat))
    (halt : Nat → σ × ErrSt → Bool) (rs rs' : RunState (σ × ErrSt))
    (h : runStep (withOnError base) is labels halt rs = .inl rs') :
    recOf rs'.st.2 = (recOf rs.st.2).after (eventOf base is rs) := by
  have hh := runStep_halted _ is labels halt rs rs' h
  obtain ⟨i, hi⟩ := runStep_inl_instr _ is labels halt rs rs' h
  cases hinv : invocationOf i with
  | none =>
    rw [runStep_noInvocation _ is labels halt rs i hh hi hinv] at h
    simp only [Sum.inl.injEq] at h
    subst h
    simp [eventOf, hi, hinv, Record.after]
  | some na =>
    obtain ⟨name, args⟩ := na
    cases hsem : withOnError base name (bind rs.vars args) (outputOf i) rs.line rs.vars rs.st with
    | none =>
      obtain ⟨fin, e, hx⟩ := runStep_unknown _ is labels halt rs i name args hh hi hinv hsem
      rw [hx] at h
      simp at h
    | some x =>
      obtain ⟨r, vars', st'⟩ := x
      by_cases hr : ∃ m, r = .error m
      · obtain ⟨m, rfl⟩ := hr
        have hst := withOnError_error_st base name _ _ _ _ _ _ _ m hsem
        rw [runStep_error _ is labels halt rs i name args m vars' st' hh hi hinv hsem,
          runOnError_withOnError] at h
        cases hx : st'.2.exitOnError with
        | true => simp [hx] at h
        | false =>
          simp [hx] at h
          subst h
          simp only [eventOf, hi, hinv, hsem]
          rw [hst] at hx
          simp [recOf, Record.after, hx]
      · have hne : ∀ m, r ≠ .error m := fun m hm => hr ⟨m, hm⟩
        obtain ⟨hst, hnc, _⟩ :=
          runStep_inl_nonError _ is labels halt rs rs' i name args r vars' st' hh hi hinv hsem hne h
        rw [hst]
        have hev : eventOf base is rs =
            match famOf name with
            | some f => famEvent f (bind rs.vars args) rs.line rs.st.2.exitOnError
            | none => .quiet := by
          simp only [eventOf, hi, hinv, hsem]
          cases r <;> first | rfl | exact absurd rfl (hne _)
        rw [hev]
        cases hf : famOf name with
        | some f =>
          rw [withOnError_fam base name f hf] at hsem
          simp only [Option.some.injEq, Prod.mk.injEq] at hsem
          obtain ⟨h1, _, h3⟩ := hsem
          rw [← h3]
          simp only
          exact runFam_record f _ _ _ (by rw [h1]; exact hne) (by rw [h1]; exact hnc)
        | none =>
          rw [withOnError_base base name hf] at hsem
          cases hb : base name (bind rs.vars args) (outputOf i) rs.line rs.vars rs.st.1 with
          | none => simp [hb] at hsem
          | some y =>
            obtain ⟨r2, v2, s2⟩ := y
            simp [hb] at hsem
            rw [← hsem.2.2]
            simp [Record.after]

/-! ### n iterations -/

theorem runN_record (base : CmdSem σ) (is : List Instruction) (labels : List (Str × Nat))
    (halt : Nat → σ × ErrSt → Bool) :
    ∀ (n : Nat) (rs rs' : RunState (σ × ErrSt)),
      runN (withOnError base) is labels halt n rs = some rs' →
      recOf rs'.st.2 = (recOf rs.st.2).afterAll (eventsN base is labels halt n rs) := by
  intro n
  induction n with
  | zero =>
    intro rs rs' h
    simp [runN] at h
    subst h
    simp [eventsN, Record.afterAll]
  | succ n ih =>
    intro rs rs' h
    simp only [runN] at h
    cases hs : runStep (withOnError base) is labels halt rs with
    | inr x => simp [hs] at h
    | inl rs1 =>
      simp only [hs] at h
      have := ih rs1 rs' h
      rw [this, runStep_record base is labels halt rs rs1 hs]
      simp [eventsN, hs, Record.afterAll]

/-- the first `n` iterations of `runLoop` are `runN` -/
theorem runLoop_of_runN (sem : CmdSem σ) (is : List Instruction) (labels : List (Str × Nat))
    (halt : Nat → σ → Bool) :
    ∀ (n : Nat) (rs rs' : RunState σ) (fuel : Nat), runN sem is labels halt n rs = some rs' →
      runLoop sem is labels halt (n + fuel) rs = runLoop sem is labels halt fuel rs' := by
  intro n
  induction n with
  | zero =>
    intro rs rs' fuel h
    simp [runN] at h
    subst h
    simp
  | succ n ih =>
    intro rs rs' fuel h
    simp only [runN] at h
    cases hs : runStep sem is labels halt rs with
    | inr x => simp [hs] at h
    | inl rs1 =>
      simp only [hs] at h
      have e : n + 1 + fuel = (n + fuel) + 1 := by omega
      rw [e]
      simp only [runLoop, hs]
      exact ih rs1 rs' fuel h

/-! ### folds over events -/

theorem after_keepsReport (r : Record) (e : Ev) (h : e.keepsReport = true) :
    (r.after e).error = r.error ∧ (r.after e).line = r.line ∧ (r.after e).source = r.source := by
  cases e <;> simp [Ev.keepsReport] at h <;> simp [Record.after]

theorem afterAll_keepsReport (evs : List Ev) :
    ∀ (r : Record), (∀ e ∈ evs, e.keepsReport = true) →
      (r.afterAll evs).error = r.error ∧ (r.afterAll evs).line = r.line ∧
      (r.afterAll evs).source = r.source := by
  induction evs with
  | nil => intro r _; simp [Record.afterAll]
  | cons e rest ih =>
    intro r h
    have h1 := after_keepsReport r e (h e (by simp))
    have h2 := ih (r.after e) (fun x hx => h x (by simp [hx]))
    simp only [Record.afterAll, List.foldl_cons] at h2 ⊢
    exact ⟨h2.1.trans h1.1, h2.2.1.trans h1.2.1, h2.2.2.trans h1.2.2⟩

theorem after_keepsMode (r : Record) (e : Ev) (h : e.keepsMode = true) :
    (r.after e).fatal = r.fatal := by
  cases e <;> simp [Ev.keepsMode] at h <;> simp [Record.after]

theorem afterAll_keepsMode (evs : List Ev) :
    ∀ (r : Record), (∀ e ∈ evs, e.keepsMode = true) → (r.afterAll evs).fatal = r.fatal := by
  induction evs with
  | nil => intro r _; simp [Record.afterAll]
  | cons e rest ih =>
    intro r h
    have h1 := after_keepsMode r e (h e (by simp))
    have h2 := ih (r.after e) (fun x hx => h x (by simp [hx]))
    simp only [Record.afterAll, List.foldl_cons] at h2 ⊢
    exact h2.trans h1

theorem afterAll_append (r : Record) (a b : List Ev) :
    r.afterAll (a ++ b) = (r.afterAll a).afterAll b := by
  simp [Record.afterAll, List.foldl_append]

/-- the latest error decides all three values -/
theorem afterAll_last_error (r : Record) (pre post : List Ev) (m : Str) (mi : Meta)
    (h : ∀ e ∈ post, e.keepsReport = true) :
    (r.afterAll (pre ++ .error m mi :: post)).error = some m ∧
    (r.afterAll (pre ++ .error m mi :: post)).line = some (lineText mi) ∧
    (r.afterAll (pre ++ .error m mi :: post)).source = some (sourceText mi) := by
  rw [afterAll_append]
  have := afterAll_keepsReport post (((r.afterAll pre)).after (.error m mi)) h
  simp only [Record.afterAll, List.foldl_cons] at this ⊢
  obtain ⟨a, b, c⟩ := this
  rw [a, b, c]
  simp [Record.after]

/-- the latest `exit_on_error <value>` decides the mode -/
theorem afterAll_last_mode (r : Record) (pre post : List Ev) (b : Bool)
    (h : ∀ e ∈ post, e.keepsMode = true) :
    (r.afterAll (pre ++ .mode b :: post)).fatal = b := by
  rw [afterAll_append]
  have := afterAll_keepsMode post (((r.afterAll pre)).after (.mode b)) h
  simp only [Record.afterAll, List.foldl_cons] at this ⊢
  rw [this]
  simp [Record.after]

end Duck
