/-
  Index-faithful model vs suffix model, part 2: arguments, label, output/command,
  directive line, command line, whole line.
-/
import DuckModel.Lemmas.IndexedLemmas

namespace Duck

/-! ### `parse_arguments_with_options` -/

theorem iArgsLoop_refines (cac : Bool) (line : Str) : ∀ (fuel i : Nat) (acc : List Str),
    i ≤ line.length → line.length - i < fuel →
    iArgsLoop cac line fuel i acc =
      match parseArgsLoop cac (line.drop i) with
      | .error e => .err e
      | .ok as => .ok (acc ++ as) := by
  intro fuel
  induction fuel with
  | zero => intro i acc _ h; omega
  | succ fuel ih =>
    intro i acc hi hf
    rw [iArgsLoop, iParseNextValue_refines _ line i hi, parseArgsLoop]
    cases hp : parseNextValue (argFlags cac) (line.drop i) with
    | error e => simp [liftIdx]
    | ok x =>
      obtain ⟨r, v⟩ := x
      cases v with
      | none => simp [liftIdx]
      | some a =>
        have hlt := parseNextValue_some_lt hp
        have hsuf := suffix_of_drop (parseNextValue_suffix hp)
        have hdrop := drop_resIdx hsuf
        simp only [liftIdx, hlt, ↓reduceIte]
        rw [ih (line.length - r.length) (acc ++ [a]) (resIdx_le _ _)
          (by rw [List.length_drop] at hlt; omega), hdrop]
        cases parseArgsLoop cac r <;> simp

/-- beyond the end of the line there are no arguments -/
theorem iParseArgumentsWith_beyond (cac : Bool) (line : Str) (start : Nat)
    (h : line.length ≤ start) : iParseArgumentsWith cac line start = .ok none := by
  simp [iParseArgumentsWith, iArgsLoop, iParseNextValue_beyond _ line start h]

theorem iParseArgumentsWith_refines (cac : Bool) (line : Str) (start : Nat)
    (h : start ≤ line.length) :
    iParseArgumentsWith cac line start = liftE (parseArgumentsWith cac (line.drop start)) := by
  unfold iParseArgumentsWith parseArgumentsWith
  rw [iArgsLoop_refines cac line _ start [] h (by omega)]
  cases parseArgsLoop cac (line.drop start) with
  | error e => simp [liftE]
  | ok as => cases as <;> simp [liftE]

theorem iParseArguments_refines (line : Str) (start : Nat) (h : start ≤ line.length) :
    iParseArguments line start = liftE (parseArguments (line.drop start)) :=
  iParseArgumentsWith_refines false line start h

/-! ### `find_label` -/

theorem ifl_loop_refines (line : Str) : ∀ (n i : Nat), i + n = line.length →
    iFor (iflBody line) n { index := i } =
      match findLabel (line.drop i) with
      | .error e => .err e
      | .ok (r, lab) => .ok { index := line.length - r.length, label := lab } := by
  intro n
  induction n with
  | zero =>
    intro i h
    have : line.drop i = [] := List.drop_of_length_le (by omega)
    have hi : line.length - 0 = i := by omega
    simp only [this, findLabel, iFor, List.length_nil, hi]
  | succ n ih =>
    intro i h
    have hi : i < line.length := by omega
    rw [List.drop_eq_getElem_cons hi, findLabel, iFor, iflBody, rd_lt hi]
    simp only [decr_succ]
    by_cases hc : line[i] = ':'
    · simp only [hc, ↓reduceIte]
      rw [iParseNextValue_refines _ line (i + 1) (by omega)]
      cases hp : parseNextValue nameFlags (line.drop (i + 1)) with
      | error e => simp [liftIdx]
      | ok x =>
        obtain ⟨r, v⟩ := x
        cases v with
        | none => simp [liftIdx]
        | some w => by_cases hw : w.isEmpty <;> simp [liftIdx, hw]
    · simp only [hc, ↓reduceIte]
      by_cases hs : line[i] = ' '
      · simp only [hs, ne_eq, not_true_eq_false, ↓reduceIte]
        exact ih (i + 1) (by omega)
      · simp [hs]; omega

theorem iFindLabel_beyond (line : Str) (start : Nat) (h : line.length ≤ start) :
    iFindLabel line start = .ok (start, none) := by
  simp [iFindLabel, h]

theorem iFindLabel_refines (line : Str) (start : Nat) (h : start ≤ line.length) :
    iFindLabel line start = liftIdx line (findLabel (line.drop start)) := by
  by_cases he : start = line.length
  · subst he
    rw [iFindLabel_beyond line _ (Nat.le_refl _), List.drop_length]
    simp [findLabel, liftIdx]
  · have hlt : start < line.length := by omega
    unfold iFindLabel
    simp only [ge_iff_le, Nat.not_le.mpr hlt, ↓reduceIte,
      ifl_loop_refines line (line.length - start) start (by omega)]
    cases findLabel (line.drop start) with
    | error e => simp [liftIdx]
    | ok x => obtain ⟨r, v⟩ := x; simp [liftIdx]

/-! ### `find_output_and_command` -/

theorem ioc_loop_refines (line : Str) (v : Str) : ∀ (n i : Nat), i + n = line.length →
    iFor (iocBody line v) n { index := i } =
      .ok { index := line.length - (skipToEquals (line.drop i)).2.length,
            output := if (skipToEquals (line.drop i)).1 then some v else none } := by
  intro n
  induction n with
  | zero =>
    intro i h
    have : line.drop i = [] := List.drop_of_length_le (by omega)
    have hi : line.length - 0 = i := by omega
    simp [this, skipToEquals, iFor, hi]
  | succ n ih =>
    intro i h
    have hi : i < line.length := by omega
    rw [List.drop_eq_getElem_cons hi, skipToEquals, iFor, iocBody, rd_lt hi]
    by_cases hs : line[i] = ' '
    · simp only [hs, ne_eq, not_true_eq_false, ↓reduceIte]
      exact ih (i + 1) (by omega)
    · by_cases heq : line[i] = '=' <;> simp [hs, heq] <;> omega

theorem iFindOutputAndCommand_beyond (line : Str) (start : Nat) (h : line.length ≤ start) :
    iFindOutputAndCommand line start = .ok (start, none, none) := by
  simp [iFindOutputAndCommand, iParseNextValue_beyond _ line start h]

theorem iFindOutputAndCommand_refines (line : Str) (start : Nat) (h : start ≤ line.length) :
    iFindOutputAndCommand line start = liftIdx line (findOutputAndCommand (line.drop start)) := by
  unfold iFindOutputAndCommand findOutputAndCommand
  rw [iParseNextValue_refines _ line start h]
  cases hp : parseNextValue outputFlags (line.drop start) with
  | error e => simp [liftIdx]
  | ok x =>
    obtain ⟨r, v⟩ := x
    cases v with
    | none => simp [liftIdx]
    | some v =>
      have hsuf := suffix_of_drop (parseNextValue_suffix hp)
      have hdrop := drop_resIdx hsuf
      simp only [liftIdx]
      rw [ioc_loop_refines line v (line.length - (line.length - r.length)) (line.length - r.length)
        (by have := resIdx_le line r; omega), hdrop]
      have hsuf2 := (skipToEquals_suffix r).trans hsuf
      cases hk : skipToEquals r with
      | mk b afterEq =>
        rw [hk] at hsuf2
        cases b with
        | false => simp
        | true =>
          simp only [↓reduceIte, Option.isSome_some]
          rw [iParseNextValue_refines _ line _ (resIdx_le _ _), drop_resIdx hsuf2]
          cases hq : parseNextValue nameFlags afterEq with
          | error e => simp [liftIdx]
          | ok z =>
            obtain ⟨r2, v2⟩ := z
            cases v2 <;> simp [liftIdx]

/-! ### `parse_command_line` -/

theorem iParseCommandLine_beyond (line : Str) (start : Nat) (h : line.length ≤ start) :
    iParseCommandLine line start = .ok .empty := by
  simp [iParseCommandLine, h]

theorem iParseCommandLine_refines (line : Str) (start : Nat) (h : start ≤ line.length) :
    iParseCommandLine line start = liftE (parseCommandLine (line.drop start)) := by
  by_cases he : start = line.length
  · subst he
    rw [iParseCommandLine_beyond line _ (Nat.le_refl _), List.drop_length]
    simp [parseCommandLine, liftE]
  · have hlt : start < line.length := by omega
    have hne : line ≠ [] := by intro h0; subst h0; simp at hlt
    have hemp : line.isEmpty = false := by cases line <;> simp_all
    unfold iParseCommandLine
    simp only [hemp, Bool.false_eq_true, ge_iff_le, Nat.not_le.mpr hlt, or_self, ↓reduceIte]
    rw [iFindLabel_refines line start h]
    have hd : line.drop start = line[start] :: line.drop (start + 1) := List.drop_eq_getElem_cons hlt
    have hpc : parseCommandLine (line.drop start) =
        match findLabel (line.drop start) with
        | .error e => .error e
        | .ok (r1, label) =>
          match findOutputAndCommand r1 with
          | .error e => .error e
          | .ok (r2, output, command) =>
            match parseArguments r2 with
            | .error e => .error e
            | .ok args =>
              if label.isNone ∧ output.isNone ∧ command.isNone then .ok .empty
              else .ok (.script { label := label, output := output, command := command, args := args }) := by
      rw [hd]; rfl
    rw [hpc]
    cases hl : findLabel (line.drop start) with
    | error e => simp [liftIdx, liftE]
    | ok x =>
      obtain ⟨r1, label⟩ := x
      have hs1 := suffix_of_drop (findLabel_suffix _ hl)
      simp only [liftIdx]
      rw [iFindOutputAndCommand_refines line _ (resIdx_le _ _), drop_resIdx hs1]
      cases ho : findOutputAndCommand r1 with
      | error e => simp [liftIdx, liftE]
      | ok y =>
        obtain ⟨r2, output, command⟩ := y
        have hs2 := (findOutputAndCommand_suffix ho).trans hs1
        simp only [liftIdx]
        rw [iParseArguments_refines line _ (resIdx_le _ _), drop_resIdx hs2]
        cases parseArguments r2 with
        | error e => simp [liftE]
        | ok args =>
          simp only [liftE]
          split <;> rfl

/-! ### `parse_pre_process_line` -/

theorem ipp_loop_refines (line : Str) : ∀ (n i : Nat) (acc : Str), i + n = line.length →
    iFor (ippBody line) n { command := acc, index := i } =
      .ok { command := (ppCommand acc (line.drop i)).1,
            index := line.length - (ppCommand acc (line.drop i)).2.length } := by
  intro n
  induction n with
  | zero =>
    intro i acc h
    have : line.drop i = [] := List.drop_of_length_le (by omega)
    have hi : line.length - 0 = i := by omega
    simp [this, ppCommand, iFor, hi]
  | succ n ih =>
    intro i acc h
    have hi : i < line.length := by omega
    rw [List.drop_eq_getElem_cons hi, ppCommand, iFor, ippBody, rd_lt hi]
    by_cases hs : line[i] = ' '
    · by_cases ha : acc.isEmpty
      · simp only [hs, ha, ↓reduceIte, Bool.not_true, Bool.false_eq_true]
        exact ih (i + 1) acc (by omega)
      · simp [hs, ha]; omega
    · simp only [hs, ↓reduceIte]
      exact ih (i + 1) _ (by omega)

/-- beyond the end of the line there is no command name -/
theorem iParsePreProcessLine_beyond (line : Str) (start : Nat) (h : line.length ≤ start) :
    iParsePreProcessLine line start = .err .preProcessNoCommandFound := by
  unfold iParsePreProcessLine
  split
  · rfl
  · have : line.length - start = 0 := by omega
    simp [this, iFor]

theorem iParsePreProcessLine_refines (line : Str) (start : Nat) (h : start ≤ line.length) :
    iParsePreProcessLine line start = liftE (parsePreProcessLine (line.drop start)) := by
  by_cases he : start = line.length
  · subst he
    rw [iParsePreProcessLine_beyond line _ (Nat.le_refl _), List.drop_length]
    simp [parsePreProcessLine, ppCommand, liftE]
  · have hlt : start < line.length := by omega
    have hemp : line.isEmpty = false := by cases line <;> simp_all
    unfold iParsePreProcessLine parsePreProcessLine
    simp only [hemp, Bool.false_eq_true, ↓reduceIte,
      ipp_loop_refines line (line.length - start) start [] (by omega)]
    have hsuf := suffix_of_drop (ppCommand_suffix (line.drop start) [])
    cases hk : ppCommand [] (line.drop start) with
    | mk cmd rest =>
      rw [hk] at hsuf
      simp only
      by_cases hce : cmd.isEmpty
      · simp [hce, liftE]
      · simp only [hce, Bool.false_eq_true, ↓reduceIte]
        rw [iParseArguments_refines line _ (resIdx_le _ _), drop_resIdx hsuf]
        cases parseArguments rest <;> simp [liftE]

/-! ### `parse_line` -/

theorem iParseLine_refines (l : Str) : iParseLine l = liftE (parseLine l) := by
  unfold iParseLine parseLine
  cases ht : trim l with
  | nil => simp [liftE]
  | cons c rest =>
    by_cases hh : c = '#'
    · simp [hh, liftE]
    · have h1 : rd (c :: rest) 0 = some c := rfl
      simp only [List.isEmpty_cons, Bool.false_eq_true, List.head?_cons, Option.some.injEq, hh,
        or_self, ↓reduceIte, h1]
      by_cases hb : c = '!'
      · simp only [hb, ↓reduceIte]
        have := iParsePreProcessLine_refines ('!' :: rest) 1 (by simp)
        simpa using this
      · simp only [hb, ↓reduceIte]
        have := iParseCommandLine_refines (c :: rest) 0 (by simp)
        simpa using this

end Duck

namespace Duck

/-! ### reading a lifted result back -/

theorem liftIdx_ok_iff (line : Str) {α : Type} (x : Except PErr (Str × α))
    (hs : ∀ r v, x = .ok (r, v) → r <:+ line) (idx : Nat) (v : α) :
    liftIdx line x = .ok (idx, v) ↔ idx ≤ line.length ∧ x = .ok (line.drop idx, v) := by
  rcases x with e | ⟨r, w⟩
  · simp [liftIdx]
  · have hsuf := hs r w rfl
    simp only [liftIdx, IOut.ok.injEq, Prod.mk.injEq, Except.ok.injEq]
    constructor
    · rintro ⟨rfl, rfl⟩
      exact ⟨resIdx_le _ _, (drop_resIdx hsuf).symm, rfl⟩
    · rintro ⟨hle, rfl, rfl⟩
      exact ⟨resIdx_drop line hle, rfl⟩

theorem liftIdx_err_iff (line : Str) {α : Type} (x : Except PErr (Str × α)) (e : PErr) :
    liftIdx line x = .err e ↔ x = .error e := by
  rcases x with e' | ⟨r, w⟩ <;> simp [liftIdx]

theorem liftE_ok_iff {α : Type} (x : Except PErr α) (a : α) : liftE x = .ok a ↔ x = .ok a := by
  cases x <;> simp [liftE]

theorem liftE_err_iff {α : Type} (x : Except PErr α) (e : PErr) : liftE x = .err e ↔ x = .error e := by
  cases x <;> simp [liftE]

end Duck
