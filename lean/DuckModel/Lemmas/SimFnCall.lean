/-
  C05 simulation (functions) — part 4: a call line.  The machine jumps into the function body
  (which lies below the bound `B`), runs it — by the induction hypothesis for the callee's context —
  and comes back through the function's end line or through a `return` line.
-/
import DuckModel.Lemmas.SimFnLine

namespace Duck
open Duck.Spec Duck.Generated Duck.Fn

/-! ### the three machine steps of a call -/

theorem resolve_return {k : Str} (h : namesReturnCommand.contains k = true) (s : Sdk) :
    resolveCmd s k = some .returnC := by
  apply resolveCmd_of_empty
  simp only [namesReturnCommand, List.contains_cons, List.contains_nil, Bool.or_false,
    Bool.or_eq_true, beq_iff_eq] at h
  rcases h with rfl | rfl <;> decide

theorem resolve_endFn {k : Str} (h : isEndFnKw k = true) (s : Sdk) :
    resolveCmd s k = some .endFunction ∨ resolveCmd s k = some .endC := by
  simp only [isEndFnKw, namesEndFunctionCommand, endWord, List.contains_cons, List.contains_nil,
    Bool.or_false, Bool.or_eq_true, beq_iff_eq] at h
  rcases h with (rfl | rfl | rfl) | rfl
  · exact .inl (resolveCmd_of_empty s (by decide))
  · exact .inl (resolveCmd_of_empty s (by decide))
  · exact .inl (resolveCmd_of_empty s (by decide))
  · exact .inr (resolveCmd_of_empty s (by decide))

theorem resolve_fullEndFn (s : Sdk) : resolveCmd s fullNameEndFunction = some .endFunction :=
  resolveCmd_of_empty s (by decide)

/-- the call line: into the body, frame pushed, parameters bound, output variable erased -/
theorem step_callF (is : List Instruction) (lo : Nat) (v : Vars) (s : Sdk) (mi : Meta) (l : Line)
    (fi : FnInfo)
    (hi : is[lo]? = some ⟨mi, .script (mkInstr l.out l.cmd l.args)⟩)
    (hb : (resolveCmd {} l.cmd).isNone = true) (hf : s.fns.get l.cmd = some fi) :
    Steps is lo v s (fi.start + 1)
      (Vars.updateOutput (bindParams (if fi.isScoped then [] else v) (bind v (some l.args))) l.out none)
      { s with fnStack := callFrame s fi l.out lo :: s.fnStack,
               scopeStack := if fi.isScoped then v :: s.scopeStack else s.scopeStack } := by
  refine Steps.single (fun nested p => ?_)
  apply runStep_cmd_goto nested is lo p v s mi l.out l.cmd l.args (.call l.cmd) none _ _ _ hi
    (resolveCmd_call hb hf)
  show runCmd nested (runCmdF nested is 2) is (.call l.cmd) _ l.out lo v s = _
  exact C05_call_binds_args nested _ is l.cmd _ l.out lo v s fi hf

/-- the function's end line: back to the line after the call -/
theorem step_endFnF (is : List Instruction) (l : Nat) (v : Vars) (s : Sdk) (mi : Meta) (kw : Str)
    (ci : FnCall) (rest : List FnCall)
    (hi : is[l]? = some ⟨mi, .script (mkInstr none kw [])⟩) (hk : isEndFnKw kw = true)
    (he : s.endTable.get (lineKey s l) = some fullNameEndFunction)
    (hs : s.fnStack = ci :: rest) (hm : EndMatches ci l s) :
    (ci.isScoped = false → Steps is l v s (ci.callLine + 1) v { s with fnStack := rest }) ∧
    (∀ saved scopes, ci.isScoped = true → s.scopeStack = saved :: scopes →
      Steps is l v s (ci.callLine + 1) saved { s with fnStack := rest, scopeStack := scopes }) := by
  constructor
  · intro hp
    refine Steps.single (fun nested p => ?_)
    rcases resolve_endFn hk s with h | h
    · apply runStep_cmd_goto nested is l p v s mi none kw [] .endFunction none _ _ _ hi h
      exact C05_end_function nested (runCmdF nested is 2) is [] none l v s ci rest hs hm hp
    · apply runStep_cmd_goto nested is l p v s mi none kw [] .endC none _ _ _ hi h
      show runCmd nested (runCmdF nested is 2) is .endC [] none l v s = _
      simp only [runCmd, he, resolve_fullEndFn]
      exact C05_end_function nested (runCmdF nested is 1) is [] none l v s ci rest hs hm hp
  · intro saved scopes hp hsc
    refine Steps.single (fun nested p => ?_)
    rcases resolve_endFn hk s with h | h
    · apply runStep_cmd_goto nested is l p v s mi none kw [] .endFunction none _ _ _ hi h
      exact C05_end_function_scoped nested (runCmdF nested is 2) is [] none l v s ci rest saved scopes
        hs hsc hm hp
    · apply runStep_cmd_goto nested is l p v s mi none kw [] .endC none _ _ _ hi h
      show runCmd nested (runCmdF nested is 2) is .endC [] none l v s = _
      simp only [runCmd, he, resolve_fullEndFn]
      exact C05_end_function_scoped nested (runCmdF nested is 1) is [] none l v s ci rest saved scopes
        hs hsc hm hp

/-- what the caller's variables are after a `return` handing back `rv`, on the machine -/
def retVars (sc : Bool) (saved bodyVars : Vars) (out : Option Str) (rv : Option Str) : Vars :=
  if sc then
    (match rv with
     | some x => Vars.updateOutput saved out (some x)
     | none => saved)
  else Vars.updateOutput bodyVars out rv

/-- a `return` line: back to the line after the call -/
theorem step_returnF (is : List Instruction) (r : Nat) (v : Vars) (s : Sdk) (rv : Option Str)
    (ci : FnCall) (rest : List FnCall)
    (hret : RetLine is r v rv) (hs : s.fnStack = ci :: rest) (hm : RetMatches ci r s) :
    (ci.isScoped = false →
      Steps is r v s (ci.callLine + 1) (retVars false [] v ci.out rv) { s with fnStack := rest }) ∧
    (∀ saved scopes, ci.isScoped = true → s.scopeStack = saved :: scopes →
      Steps is r v s (ci.callLine + 1) (retVars true saved v ci.out rv)
        { s with fnStack := rest, scopeStack := scopes }) := by
  obtain ⟨mi, kw, value, hi, hk, hv⟩ := hret
  have hres := resolve_return hk s
  -- the bound arguments and the value handed back
  have hargs : (bind v (some (retArgs value)) = [] ∧ rv = none) ∨
      (∃ a more, bind v (some (retArgs value)) = a :: more ∧ rv = some a) := by
    subst hv
    cases value with
    | none => exact .inl ⟨rfl, rfl⟩
    | some w =>
      simp only [retArgs, retVal]
      cases hb : bind v (some [w]) with
      | nil => exact .inl ⟨rfl, rfl⟩
      | cons a more => exact .inr ⟨a, more, rfl, rfl⟩
  constructor
  · intro hp
    refine Steps.single (fun nested p => ?_)
    rcases hargs with ⟨ha, rfl⟩ | ⟨a, more, ha, rfl⟩
    · apply runStep_cmd_goto nested is r p v s mi none kw _ .returnC none _ _ _ hi hres
      rw [ha]
      exact C05_return_bare nested _ is none r v s ci rest hs hm hp
    · apply runStep_cmd_goto nested is r p v s mi none kw _ .returnC (some a) _ _ _ hi hres
      rw [ha]
      exact C05_return_value nested _ is a more none r v s ci rest hs hm hp
  · intro saved scopes hp hsc
    refine Steps.single (fun nested p => ?_)
    rcases hargs with ⟨ha, rfl⟩ | ⟨a, more, ha, rfl⟩
    · apply runStep_cmd_goto nested is r p v s mi none kw _ .returnC none _ _ _ hi hres
      rw [ha]
      exact C05_return_scoped_bare nested _ is none r v s ci rest saved scopes hs hsc hm hp
    · apply runStep_cmd_goto nested is r p v s mi none kw _ .returnC (some a) _ _ _ hi hres
      rw [ha]
      exact C05_return_scoped nested _ is a more none r v s ci rest saved scopes hs hsc hm hp

/-! ### the tree's `afterCall`, in the machine's terms -/

theorem afterCall_end (fd : FnDef) (saved : Vars) (out : Option Str) (bodyVars : Vars) :
    afterCall fd saved out false bodyVars = if fd.isScoped then saved else bodyVars := by
  unfold afterCall
  cases fd.isScoped <;> simp

theorem afterCall_ret (fd : FnDef) (saved : Vars) (out : Option Str) (rv : Option Str) (bv : Vars) :
    afterCall fd saved out true
      (match out with
       | some name => (match rv with | some x => bv.set name x | none => bv.erase name)
       | none => bv) = retVars fd.isScoped saved bv out rv := by
  unfold afterCall retVars
  cases hsc : fd.isScoped
  · cases out <;> cases rv <;> rfl
  · cases out with
    | none => cases rv <;> rfl
    | some name =>
      cases rv with
      | none => simp [VarScope.get_erase]
      | some x => simp [VarScope.get_set, Vars.updateOutput]

theorem natToStr_digits (n : Nat) : digitsOnly (natToStr n) = true := by
  unfold digitsOnly natToStr
  rw [List.all_eq_true]
  intro c hc
  have : (toString n).toList = Nat.toDigits 10 n := Nat.toList_repr
  rw [this] at hc
  exact Nat.isDigit_of_mem_toDigits (by decide) (by decide) hc

/-! ### the call line -/

theorem flatten_fnDef (kw : Str) (sc : Bool) (name : Str) (body : Block) (kwEnd : Str) :
    (Stmt.fnDef kw sc name body kwEnd).flatten =
      mkInstr none kw (if sc then ["<scope>".toList, name] else [name]) ::
        (body.flatten ++ [mkInstr none kwEnd []]) := by
  simp only [Stmt.flatten]

/-- the tree state in which a called function's body starts -/
def callState (fd : FnDef) (t : TState) (l : Line) : TState :=
  { t with vars := Vars.updateOutput (bindParams (if fd.isScoped then [] else t.vars)
              (bind t.vars (some l.args))) l.out none,
           depth := t.depth + 1 }

/-- the body's variables with the returned value stored in the call's output variable -/
def retBodyVars (out : Option Str) (v : Option Str) (bv : Vars) : Vars :=
  match out with
  | some name => (match v with | some x => bv.set name x | none => bv.erase name)
  | none => bv

theorem afterCall_ret' (fd : FnDef) (saved : Vars) (out : Option Str) (rv : Option Str) (bv : Vars) :
    afterCall fd saved out true (retBodyVars out rv bv) = retVars fd.isScoped saved bv out rv :=
  afterCall_ret fd saved out rv bv

/-- what a call makes of the outcome of the body -/
def callOut (fd : FnDef) (t : TState) (out : Option Str) (ob : TOut) : TOut :=
  match ob with
  | .normal t' => .normal { t' with vars := afterCall fd t.vars out false t'.vars, depth := t.depth }
  | .returning v t' =>
    .normal { t' with vars := afterCall fd t.vars out true (retBodyVars out v t'.vars),
                      depth := t.depth }
  | o => o

theorem execStmt_call (is : List Instruction) (f : Nat) (l : Line) (t : TState) (fd : FnDef)
    (hl : lookupFn t.fns l.cmd = some fd) :
    execStmt is (f + 2) (.line l) t = callOut fd t l.out (execBlock is f fd.body (callState fd t l)) := by
  obtain ⟨out, cmd, args⟩ := l
  simp only at hl
  cases out with
  | none =>
    simp only [execStmt, hl, execCall, bind_mkArgs, callState, callOut, Vars.updateOutput]
    cases execBlock is f fd.body _ <;> rfl
  | some o =>
    simp only [execStmt, hl, execCall, bind_mkArgs, callState, callOut, Vars.updateOutput]
    cases execBlock is f fd.body _ <;> rfl

theorem fsafeStmt_call (is : List Instruction) (f : Nat) (l : Line) (t : TState) (fd : FnDef)
    (hl : lookupFn t.fns l.cmd = some fd) :
    fsafeStmt is (f + 2) (.line l) t = fsafeBlock is f fd.body (callState fd t l) := by
  obtain ⟨out, cmd, args⟩ := l
  simp only at hl
  cases out <;> simp only [fsafeStmt, hl, fsafeCall, bind_mkArgs, callState, Vars.updateOutput]
theorem stmt_callF (c : Ctx) (hc : CtxOK c) (f : Nat)
    (hB : ∀ c', CtxOK c' → BlockSimF c' f)
    (l : Line) (inFor : Bool) (lo : Nat) (s : Sdk) (t : TState) (o : TOut)
    (fd : FnDef) (hlk : lookupFn c.F.tf l.cmd = some fd) (hcl : c.callable.contains l.cmd = true)
    (hat : At c.is lo (Stmt.line l).flatten) (hpre : Pre c lo (lo + 1) s t)
    (hsafe : fsafeStmt c.is (f + 2) (.line l) t = true)
    (hex : execStmt c.is (f + 2) (.line l) t = o) :
    SimOut c.is c.E c.F c.B lo (lo + 1) (fun x => Stmt.assignsF c.F.fa x (.line l)) inFor s t o := by
  obtain ⟨hname, fi, kw, kwEnd, cl, hok⟩ := hc.env.defd _ fd hlk
  obtain ⟨fd', fi', h1, h2, hlt⟩ := hc.callee _ hcl
  rw [hok.sf] at h2
  injection h2 with h2
  subst h2
  clear h1 fd'
  simp only [fnNameOK, Bool.and_eq_true] at hname
  have hbuiltin : (resolveCmd {} l.cmd).isNone = true := hname.1.2
  have hl : lookupFn t.fns l.cmd = some fd := by rw [hpre.rel.tfns]; exact hlk
  simp only [Stmt.flatten] at hat
  have hi := At.head hat
  -- the callee's context
  have hc' : CtxOK { c with B := fi.start, callable := cl, rets := true } :=
    ⟨hc.env, fun n hn => by
      obtain ⟨fd', fi', a, b, d⟩ := hok.callee n (by simpa using hn)
      exact ⟨fd', fi', a, b, d⟩⟩
  -- the tree
  rw [execStmt_call c.is f l t fd hl] at hex
  rw [fsafeStmt_call c.is f l t fd hl] at hsafe
  generalize hb : execBlock c.is f fd.body (callState fd t l) = ob at hex
  have hisc : fi.isScoped = fd.isScoped := hok.isSc
  -- the call step
  have hstep1 := step_callF c.is lo t.vars s _ l fi hi hbuiltin (by rw [hpre.rel.sfns]; exact hok.sf)
  rw [hisc] at hstep1
  -- the body
  have hloc := hok.loc
  rw [flatten_fnDef] at hloc
  have hbody := (At.tail hloc).left
  have hendline := At.head (At.tail hloc).right
  have hstop : fi.start + 1 + fd.body.flatten.length = fi.stop := hok.stop.symm
  rw [hstop] at hendline
  have hrel0 : RelF c.F
      { s with fnStack := callFrame s fi l.out lo :: s.fnStack,
               scopeStack := if fd.isScoped then t.vars :: s.scopeStack else s.scopeStack }
      (callState fd t l) :=
    ⟨hpre.rel.handles, hpre.rel.next, hpre.rel.emitted, hpre.rel.sfns, hpre.rel.tsfns, hpre.rel.tfns,
      hpre.rel.hok⟩
  have hpre0 : Pre { c with B := fi.start, callable := cl, rets := true } (fi.start + 1)
      (fi.start + 1 + fd.body.flatten.length)
      { s with fnStack := callFrame s fi l.out lo :: s.fnStack,
               scopeStack := if fd.isScoped then t.vars :: s.scopeStack else s.scopeStack }
      (callState fd t l) :=
    ⟨hpre.cache.of_eq rfl rfl rfl rfl, hrel0,
      hpre.forOK.callee (B' := fi.start) (by omega) (by omega), Nat.le_succ _,
      fun k hk1 hk2 => hok.noEnd k (by omega) (by omega), fun _ => by simp [callState],
      hpre.endFn⟩
  have hsim := hB _ hc' fd.body false (fi.start + 1) _ _ ob hok.wf hok.frag hbody hpre0 hsafe hb
  rw [hstop] at hsim
  -- regions of the body are inside the caller's
  have hreg : ∀ k, RegP c.E fi.start (fi.start + 1) fi.stop k → RegP c.E c.B lo (lo + 1) k := by
    intro k hk
    rcases hk with ⟨a, b⟩ | ⟨a, b⟩
    · exact .inr ⟨by omega, hok.noEnd k (by omega) b⟩
    · exact .inr ⟨by omega, b⟩
  have hinr : ∀ k, InR fi.start (fi.start + 1) fi.stop k → InR c.B lo (lo + 1) k := by
    intro k hk
    unfold InR at *
    omega
  -- variables the call does not touch
  have hvarsBody : ∀ x, (fun x => Stmt.assignsF c.F.fa x (.line l)) x = false → fd.isScoped = false →
      (callState fd t l).vars.get x = t.vars.get x ∧
      Block.assignsF c.F.fa x fd.body = false ∧ l.out ≠ some x := by
    intro x hx hsc
    simp only [Stmt.assignsF, Bool.or_eq_false_iff, beq_eq_false_iff_ne, ne_eq] at hx
    rcases hok.fa x hx.2 with h | ⟨hd, hb⟩
    · rw [hsc] at h; cases h
    · refine ⟨?_, hb, hx.1⟩
      simp only [callState]
      rw [Vars.get_updateOutput_ne _ _ _ _ hx.1, hsc]
      simp only [Bool.false_eq_true, if_false]
      apply C05_params_other
      rintro ⟨i, _, rfl⟩
      rw [natToStr_digits] at hd
      cases hd
  have hframe : ∀ s2, FrameF c.E fi.start (fi.start + 1) fi.stop
      { s with fnStack := callFrame s fi l.out lo :: s.fnStack,
               scopeStack := if fd.isScoped then t.vars :: s.scopeStack else s.scopeStack } s2 →
      FrameF c.E c.B lo (lo + 1) s s2 := fun s2 h => (h.mono hreg).core_left rfl
  have hout : ∀ x, (fun x => Stmt.assignsF c.F.fa x (.line l)) x = false → l.out ≠ some x := by
    intro x hx
    simp only [Stmt.assignsF, Bool.or_eq_false_iff, beq_eq_false_iff_ne, ne_eq] at hx
    exact hx.1
  cases ob with
  | failed => simp only [callOut] at hex; subst hex; trivial
  | outOfFuel => simp only [callOut] at hex; subst hex; trivial
  | normal t1 =>
    simp only [callOut] at hex
    subst hex
    obtain ⟨s2, hat2⟩ := hsim
    have hfn2 : s2.fnStack = callFrame s fi l.out lo :: s.fnStack := hat2.fnS
    have hend2 : s2.endTable.get (lineKey s2 fi.stop) = some fullNameEndFunction := by
      rw [lineKey_congr hat2.core.frame.ctx, hat2.core.frame.endT fi.stop ?_]
      · exact hpre.endFn _ _ hok.sf
      · rintro (⟨a, b⟩ | ⟨_, b⟩)
        · omega
        · exact b hok.isEnd
    have hm : EndMatches (callFrame s fi l.out lo) fi.stop s2 :=
      ⟨rfl, (hat2.core.frame.ctx).symm⟩
    obtain ⟨hun, hsc⟩ := step_endFnF c.is fi.stop t1.vars s2 _ kwEnd _ _ hendline hok.kwEnd hend2 hfn2 hm
    rw [afterCall_end]
    cases hscf : fd.isScoped with
    | false =>
      have hfis : fi.isScoped = false := by rw [hok.isSc, hscf]
      have hst3 := hun (by simp [callFrame, hfis])
      simp only [callFrame] at hst3
      refine ⟨{ s2 with fnStack := s.fnStack }, (hstep1.trans hat2.steps).trans hst3, ?_,
        hat2.ifS.mono hinr, hat2.whS.mono hinr, hat2.forS, rfl, ?_⟩
      · refine ⟨hat2.core.cache.of_eq rfl rfl rfl rfl,
          ⟨hat2.core.rel.handles, hat2.core.rel.next, hat2.core.rel.emitted, hat2.core.rel.sfns,
            hat2.core.rel.tsfns, hat2.core.rel.tfns, hat2.core.rel.hok⟩,
          (hframe s2 hat2.core.frame).core_right rfl, hat2.core.mono, ?_, rfl⟩
        intro x hx
        obtain ⟨h1, h2, _⟩ := hvarsBody x hx hscf
        simp only [Bool.false_eq_true, if_false]
        rw [hat2.core.varsF x h2]
        exact h1
      · have := hat2.scS
        simp only [hscf, Bool.false_eq_true, if_false] at this
        exact this
    | true =>
      have hfis : fi.isScoped = true := by rw [hok.isSc, hscf]
      have hsc2 : s2.scopeStack = t.vars :: s.scopeStack := by
        have := hat2.scS
        simp only [hscf, if_true] at this
        exact this
      have hst3 := hsc t.vars s.scopeStack (by simp [callFrame, hfis]) hsc2
      simp only [callFrame] at hst3
      refine ⟨{ s2 with fnStack := s.fnStack, scopeStack := s.scopeStack },
        (hstep1.trans hat2.steps).trans hst3, ?_,
        hat2.ifS.mono hinr, hat2.whS.mono hinr, hat2.forS, rfl, rfl⟩
      refine ⟨hat2.core.cache.of_eq rfl rfl rfl rfl,
        ⟨hat2.core.rel.handles, hat2.core.rel.next, hat2.core.rel.emitted, hat2.core.rel.sfns,
          hat2.core.rel.tsfns, hat2.core.rel.tfns, hat2.core.rel.hok⟩,
        (hframe s2 hat2.core.frame).core_right rfl, hat2.core.mono, ?_, rfl⟩
      intro x _
      simp
  | returning rv t1 =>
    simp only [callOut] at hex
    subst hex
    obtain ⟨_, s2, r, hat2, hr1, hr2, hret⟩ := hsim
    have hfn2 : s2.fnStack = callFrame s fi l.out lo :: s.fnStack := hat2.fnS
    have hm : RetMatches (callFrame s fi l.out lo) r s2 :=
      ⟨by simp only [callFrame]; omega, by simp only [callFrame]; omega, (hat2.core.frame.ctx).symm⟩
    obtain ⟨hun, hsc⟩ := step_returnF c.is r t1.vars s2 rv _ _ hret hfn2 hm
    rw [afterCall_ret']
    cases hscf : fd.isScoped with
    | false =>
      have hfis : fi.isScoped = false := by rw [hok.isSc, hscf]
      have hst3 := hun (by simp [callFrame, hfis])
      simp only [callFrame] at hst3
      refine ⟨{ s2 with fnStack := s.fnStack }, (hstep1.trans hat2.steps).trans hst3, ?_,
        hat2.ifS.mono hinr, hat2.whS.mono hinr, hat2.forS, rfl, ?_⟩
      · refine ⟨hat2.core.cache.of_eq rfl rfl rfl rfl,
          ⟨hat2.core.rel.handles, hat2.core.rel.next, hat2.core.rel.emitted, hat2.core.rel.sfns,
            hat2.core.rel.tsfns, hat2.core.rel.tfns, hat2.core.rel.hok⟩,
          (hframe s2 hat2.core.frame).core_right rfl, hat2.core.mono, ?_, rfl⟩
        intro x hx
        obtain ⟨h1, h2, h3⟩ := hvarsBody x hx hscf
        simp only [retVars, Bool.false_eq_true, if_false]
        rw [Vars.get_updateOutput_ne _ _ _ _ h3, hat2.core.varsF x h2]
        exact h1
      · have := hat2.scS
        simp only [hscf, Bool.false_eq_true, if_false] at this
        exact this
    | true =>
      have hfis : fi.isScoped = true := by rw [hok.isSc, hscf]
      have hsc2 : s2.scopeStack = t.vars :: s.scopeStack := by
        have := hat2.scS
        simp only [hscf, if_true] at this
        exact this
      have hst3 := hsc t.vars s.scopeStack (by simp [callFrame, hfis]) hsc2
      simp only [callFrame] at hst3
      refine ⟨{ s2 with fnStack := s.fnStack, scopeStack := s.scopeStack },
        (hstep1.trans hat2.steps).trans hst3, ?_,
        hat2.ifS.mono hinr, hat2.whS.mono hinr, hat2.forS, rfl, rfl⟩
      refine ⟨hat2.core.cache.of_eq rfl rfl rfl rfl,
        ⟨hat2.core.rel.handles, hat2.core.rel.next, hat2.core.rel.emitted, hat2.core.rel.sfns,
          hat2.core.rel.tsfns, hat2.core.rel.tfns, hat2.core.rel.hok⟩,
        (hframe s2 hat2.core.frame).core_right rfl, hat2.core.mono, ?_, rfl⟩
      intro x hx
      simp only [retVars, if_true]
      cases rv with
      | none => rfl
      | some a => exact Vars.get_updateOutput_ne _ _ _ _ (hout x hx)

end Duck
