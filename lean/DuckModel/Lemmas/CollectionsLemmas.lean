/-
  Helper lemmas for C12: the handle table, the three take-out/put-back helpers, and the
  abstraction from the implementation model to the reference model.
-/
import DuckModel.Sdk.Collections
import DuckModel.Spec.Store
import Std.Data.String.ToNat

namespace Duck.Coll
open Duck
open Duck.Spec.Store (Coll Out Store upd)

/-! ## table -/

theorem tget_tremove (t : Table) (k h : Str) :
    tget (tremove t k) h = if h = k then none else tget t h := by
  induction t with
  | nil => simp [tremove, tget]
  | cons p r ih =>
    obtain ⟨a, v⟩ := p
    by_cases hak : a = k
    · subst hak
      simp only [tremove, if_true, ih, tget]
      by_cases hh : h = a
      · simp [hh]
      · have : ¬ a = h := fun e => hh e.symm
        simp [hh, this]
    · simp only [tremove, hak, if_false, tget, ih]
      by_cases hah : a = h
      · subst hah; simp [hak]
      · simp [hah]

theorem tget_tinsert (t : Table) (k h : Str) (v : Value) :
    tget (tinsert t k v) h = if h = k then some v else tget t h := by
  unfold tinsert
  simp only [tget, tget_tremove]
  by_cases hh : h = k
  · subst hh; simp
  · have : ¬ k = h := fun e => hh e.symm
    simp [hh, this]

theorem tremove_length_le (t : Table) (k : Str) : (tremove t k).length ≤ t.length := by
  induction t with
  | nil => simp [tremove]
  | cons p r ih =>
    obtain ⟨a, v⟩ := p
    by_cases hak : a = k <;> simp [tremove, hak] <;> omega

theorem tremove_length_lt (t : Table) (k : Str) (v : Value) (h : tget t k = some v) :
    (tremove t k).length < t.length := by
  induction t with
  | nil => simp [tget] at h
  | cons p r ih =>
    obtain ⟨a, w⟩ := p
    by_cases hak : a = k
    · have := tremove_length_le r k
      simp [tremove, hak]; omega
    · simp [tget, hak] at h
      have := ih h
      simp [tremove, hak]; omega

theorem LookupEq.rfl' (t : Table) : LookupEq t t := fun _ => rfl
theorem LookupEq.symm {t t' : Table} (h : LookupEq t t') : LookupEq t' t := fun k => (h k).symm
theorem LookupEq.trans {a b c : Table} (h : LookupEq a b) (g : LookupEq b c) : LookupEq a c :=
  fun k => (h k).trans (g k)

/-- taking a value out and putting the same value back is invisible to every lookup -/
theorem lookupEq_reinsert (t : Table) (k : Str) (v : Value) (h : tget t k = some v) :
    LookupEq (tinsert (tremove t k) k v) t := by
  intro x
  rw [tget_tinsert, tget_tremove]
  by_cases hx : x = k
  · subst hx; simp [h]
  · simp [hx]

/-- removing an absent key is invisible to every lookup -/
theorem lookupEq_remove_absent (t : Table) (k : Str) (h : tget t k = none) :
    LookupEq (tremove t k) t := by
  intro x
  rw [tget_tremove]
  by_cases hx : x = k
  · subst hx; simp [h]
  · simp [hx]

/-- lookups after replacing the value under a key -/
theorem tget_replace (t : Table) (k x : Str) (v : Value) :
    tget (tinsert (tremove t k) k v) x = if x = k then some v else tget t x := by
  rw [tget_tinsert, tget_tremove]
  by_cases hx : x = k <;> simp [hx]

/-! ## the three helpers, characterised -/

theorem mutateList_list (t : Table) (k : Str) (f) (l : List Item) (h : tget t k = some (.list l)) :
    mutateList t k f = (tinsert (tremove t k) k (.list (f l).1), (f l).2) := by
  simp [mutateList, h]

theorem mutateMap_map (t : Table) (k : Str) (f) (m : List (Str × Item)) (h : tget t k = some (.map m)) :
    mutateMap t k f = (tinsert (tremove t k) k (.map (f m).1), (f m).2) := by
  simp [mutateMap, h]

theorem mutateSet_set (t : Table) (k : Str) (f) (s : List Str) (h : tget t k = some (.set s)) :
    mutateSet t k f = (tinsert (tremove t k) k (.set (f s).1), (f s).2) := by
  simp [mutateSet, h]

def Value.isList : Value → Bool | .list _ => true | _ => false
def Value.isMap : Value → Bool | .map _ => true | _ => false
def Value.isSet : Value → Bool | .set _ => true | _ => false

/-- the remove-then-reinsert identity: `mutate_list` on a key that holds no list (any of the
    other 12 kinds, or nothing) reports an error and leaves every lookup as it was -/
theorem mutateList_wrong (t : Table) (k : Str) (f)
    (h : ∀ v, tget t k = some v → v.isList = false) :
    (mutateList t k f).2 = .err ∧ LookupEq (mutateList t k f).1 t := by
  cases hv : tget t k with
  | none => simp [mutateList, hv]; exact lookupEq_remove_absent t k hv
  | some v =>
    cases v with
    | list l => have := h _ hv; simp [Value.isList] at this
    | map m => simp [mutateList, hv]; exact lookupEq_reinsert t k _ hv
    | set s => simp [mutateList, hv]; exact lookupEq_reinsert t k _ hv
    | other g => simp [mutateList, hv]; exact lookupEq_reinsert t k _ hv

theorem mutateMap_wrong (t : Table) (k : Str) (f)
    (h : ∀ v, tget t k = some v → v.isMap = false) :
    (mutateMap t k f).2 = .err ∧ LookupEq (mutateMap t k f).1 t := by
  cases hv : tget t k with
  | none => simp [mutateMap, hv]; exact lookupEq_remove_absent t k hv
  | some v =>
    cases v with
    | map m => have := h _ hv; simp [Value.isMap] at this
    | list l => simp [mutateMap, hv]; exact lookupEq_reinsert t k _ hv
    | set s => simp [mutateMap, hv]; exact lookupEq_reinsert t k _ hv
    | other g => simp [mutateMap, hv]; exact lookupEq_reinsert t k _ hv

theorem mutateSet_wrong (t : Table) (k : Str) (f)
    (h : ∀ v, tget t k = some v → v.isSet = false) :
    (mutateSet t k f).2 = .err ∧ LookupEq (mutateSet t k f).1 t := by
  cases hv : tget t k with
  | none => simp [mutateSet, hv]; exact lookupEq_remove_absent t k hv
  | some v =>
    cases v with
    | set s => have := h _ hv; simp [Value.isSet] at this
    | list l => simp [mutateSet, hv]; exact lookupEq_reinsert t k _ hv
    | map m => simp [mutateSet, hv]; exact lookupEq_reinsert t k _ hv
    | other g => simp [mutateSet, hv]; exact lookupEq_reinsert t k _ hv

/-- a handler that gives the list back unchanged leaves every lookup as it was -/
theorem mutateList_same (t : Table) (k : Str) (f) (hf : ∀ l, (f l).1 = l) :
    LookupEq (mutateList t k f).1 t := by
  cases hv : tget t k with
  | none => simp [mutateList, hv]; exact lookupEq_remove_absent t k hv
  | some v =>
    cases v with
    | list l => rw [mutateList_list t k f l hv, hf]; exact lookupEq_reinsert t k _ hv
    | map m => simp [mutateList, hv]; exact lookupEq_reinsert t k _ hv
    | set s => simp [mutateList, hv]; exact lookupEq_reinsert t k _ hv
    | other g => simp [mutateList, hv]; exact lookupEq_reinsert t k _ hv

/-! ## agreement of the auxiliary functions of model and reference model -/

theorem handleName_eq (k : Nat) : handleName k = Spec.Store.handleName k := rfl

theorem handleName_inj {a b : Nat} (h : handleName a = handleName b) : a = b := by
  unfold handleName at h
  have h2 := List.append_cancel_left h
  have h3 : Nat.repr a = Nat.repr b := String.toList_inj.mp h2
  exact Nat.repr_injective h3

theorem parseDigits_eq (s : List Char) (acc : Nat) : parseDigits s acc = Spec.Store.digits s acc := by
  induction s generalizing acc with
  | nil => rfl
  | cons c r ih =>
    have e : digitVal c = Spec.Store.digit c := rfl
    simp only [parseDigits, Spec.Store.digits, e]
    cases Spec.Store.digit c <;> simp [ih]

theorem parseUsize_eq (s : Str) : parseUsize s = Spec.Store.index s := by
  unfold parseUsize Spec.Store.index
  simp only [parseDigits_eq]
  rfl

theorem parseI64_eq (s : Str) : parseI64 s = Spec.Store.int64 s := by
  unfold parseI64 Spec.Store.int64
  simp only [parseDigits_eq]
  rfl

theorem strLe_eq (a b : Str) : strLe a b = Spec.Store.le a b := by
  induction a generalizing b with
  | nil => cases b <;> rfl
  | cons x r ih =>
    cases b with
    | nil => rfl
    | cons y q => simp [strLe, Spec.Store.le, ih]

theorem insertSorted_eq (x : Str) (l : List Str) : insertSorted x l = Spec.Store.ins x l := by
  induction l with
  | nil => rfl
  | cons y r ih => simp [insertSorted, Spec.Store.ins, strLe_eq, ih]

theorem sortStr_eq (l : List Str) : sortStr l = Spec.Store.ascending l := by
  induction l with
  | nil => rfl
  | cons y r ih => simp [sortStr, Spec.Store.ascending, insertSorted_eq, ih]

theorem sinsert_eq (s : List Str) (x : Str) : sinsert s x = Spec.Store.add s x := rfl

theorem sinsertAll_eq (s xs : List Str) : sinsertAll s xs = Spec.Store.addAll s xs := by
  unfold sinsertAll Spec.Store.addAll
  induction xs generalizing s with
  | nil => rfl
  | cons y r ih => simp [List.foldl, sinsert_eq, ih]

theorem indexOfStr_eq (v : Str) (l : List Str) (i : Nat) :
    indexOfStr v l i = Spec.Store.firstIndex v l i := by
  induction l generalizing i with
  | nil => rfl
  | cons y r ih => simp [indexOfStr, Spec.Store.firstIndex, ih]

theorem joinStr_eq (sep : Str) (l : List Str) : joinStr sep l = Spec.Store.join sep l := by
  induction l with
  | nil => rfl
  | cons x r ih =>
    cases r with
    | nil => rfl
    | cons y q => simp [joinStr, Spec.Store.join, ih]

/-! ## abstraction -/

def absM (m : List (Str × Item)) : List (Str × Str) := m.map fun kv => (kv.1, kv.2.render)

def absV : Value → Option Coll
  | .list l => some (.vec (l.map Item.render))
  | .map m => some (.map (absM m))
  | .set s => some (.set s)
  | .other _ => none

def absR : Res → Out
  | .val o => .val o
  | .err => .err

theorem absM_length (m : List (Str × Item)) : (absM m).length = m.length := by simp [absM]
theorem absM_keys (m : List (Str × Item)) : (absM m).map Prod.fst = m.map Prod.fst := by
  simp [absM, Function.comp_def]
theorem absM_vals (m : List (Str × Item)) : (absM m).map Prod.snd = m.map fun kv => kv.2.render := by
  simp [absM, Function.comp_def]
theorem absM_isEmpty (m : List (Str × Item)) : (absM m).isEmpty = m.isEmpty := by
  cases m <;> simp [absM]

theorem absM_lookup (m : List (Str × Item)) (k : Str) :
    Spec.Store.lookup (absM m) k = (mget m k).map Item.render := by
  induction m with
  | nil => rfl
  | cons p r ih =>
    obtain ⟨a, v⟩ := p
    simp only [absM, List.map, Spec.Store.lookup, mget] at *
    split <;> simp_all

theorem absM_put (m : List (Str × Item)) (k v : Str) :
    absM (minsert m k (.str v)) = Spec.Store.put (absM m) k v := by
  induction m with
  | nil => rfl
  | cons p r ih =>
    obtain ⟨a, w⟩ := p
    simp only [absM, List.map, Spec.Store.put, minsert] at *
    split <;> simp_all [Item.render]

theorem absM_del (m : List (Str × Item)) (k : Str) :
    absM (mremove m k) = Spec.Store.del (absM m) k := by
  induction m with
  | nil => rfl
  | cons p r ih =>
    obtain ⟨a, w⟩ := p
    simp only [absM, List.map, Spec.Store.del, mremove] at *
    split <;> simp_all

/-- the refinement relation: same counter, every lookup abstracts to the store's answer,
    and every live key was handed out by the allocator -/
structure R (m : St) (s : Spec.Store.St) : Prop where
  next : m.next = s.next
  look : ∀ h, (tget m.tbl h).map absV = (s.store h).map some
  fresh : ∀ h, tget m.tbl h ≠ none → ∃ k, k < m.next ∧ h = handleName k

theorem R_empty : R {} Spec.Store.empty :=
  ⟨rfl, fun _ => rfl, fun h hh => by simp [tget] at hh⟩

/-- what `R` says about one handle -/
theorem R.cases {m : St} {s : Spec.Store.St} (hR : R m s) (h : Str) :
    (tget m.tbl h = none ∧ s.store h = none) ∨
    (∃ l, tget m.tbl h = some (.list l) ∧ s.store h = some (.vec (l.map Item.render))) ∨
    (∃ mm, tget m.tbl h = some (.map mm) ∧ s.store h = some (.map (absM mm))) ∨
    (∃ x, tget m.tbl h = some (.set x) ∧ s.store h = some (.set x)) := by
  have := hR.look h
  cases hv : tget m.tbl h with
  | none =>
    rw [hv] at this
    cases hs : s.store h with
    | none => exact Or.inl ⟨rfl, rfl⟩
    | some c => rw [hs] at this; simp at this
  | some v =>
    rw [hv] at this
    cases hs : s.store h with
    | none => rw [hs] at this; simp at this
    | some c =>
      rw [hs] at this
      simp only [Option.map_some, Option.some.injEq] at this
      cases v with
      | list l => simp [absV] at this; exact Or.inr (Or.inl ⟨l, rfl, by rw [this]⟩)
      | map mm => simp [absV] at this; exact Or.inr (Or.inr (Or.inl ⟨mm, rfl, by rw [this]⟩))
      | set x => simp [absV] at this; exact Or.inr (Or.inr (Or.inr ⟨x, rfl, by rw [this]⟩))
      | other g => simp [absV] at this

theorem R.of_lookupEq {m : St} {s : Spec.Store.St} (hR : R m s) {t : Table}
    (h : LookupEq t m.tbl) : R { m with tbl := t } s :=
  ⟨hR.next, fun k => by simp only [h k]; exact hR.look k, fun k hk => by
    simp only [h k] at hk; exact hR.fresh k hk⟩

theorem R.spec_ext {m : St} {s s' : Spec.Store.St} (hR : R m s)
    (h : ∀ k, s'.store k = s.store k) (hn : s'.next = s.next) : R m s' :=
  ⟨hR.next.trans hn.symm, fun k => by rw [h k]; exact hR.look k, hR.fresh⟩

/-- replacing the value under a live handle on both sides -/
theorem R.update {m : St} {s : Spec.Store.St} (hR : R m s) (h : Str) (v : Value) (c : Coll)
    (hl : tget m.tbl h ≠ none) (hv : absV v = some c) :
    R { m with tbl := tinsert (tremove m.tbl h) h v } { s with store := upd s.store h (some c) } := by
  refine ⟨hR.next, fun k => ?_, fun k hk => ?_⟩
  · simp only [tget_replace, upd]
    by_cases hk : k = h
    · simp [hk, hv]
    · simp [hk]; exact hR.look k
  · simp only [tget_replace] at hk
    by_cases hkh : k = h
    · subst hkh; exact hR.fresh k hl
    · simp [hkh] at hk; exact hR.fresh k hk

/-- releasing one handle on both sides -/
theorem R.remove {m : St} {s : Spec.Store.St} (hR : R m s) (h : Str) :
    R { m with tbl := tremove m.tbl h } { s with store := upd s.store h none } := by
  refine ⟨hR.next, fun k => ?_, fun k hk => ?_⟩
  · simp only [tget_tremove, upd]
    by_cases hk : k = h
    · simp [hk]
    · simp [hk]; exact hR.look k
  · simp only [tget_tremove] at hk
    by_cases hkh : k = h
    · simp [hkh] at hk
    · simp [hkh] at hk; exact hR.fresh k hk

/-- the counter's next handle is not live -/
theorem R.next_free {m : St} {s : Spec.Store.St} (hR : R m s) : tget m.tbl (handleName m.next) = none := by
  cases hv : tget m.tbl (handleName m.next) with
  | none => rfl
  | some v =>
    obtain ⟨k, hk, e⟩ := hR.fresh _ (by rw [hv]; simp)
    have := handleName_inj e
    omega

/-- allocation on both sides -/
theorem R.alloc {m : St} {s : Spec.Store.St} (hR : R m s) (v : Value) (c : Coll) (hv : absV v = some c) :
    R (putHandle m v).1 (Spec.Store.alloc s c).1 ∧
      absR (.val (some (putHandle m v).2)) = (Spec.Store.alloc s c).2 := by
  refine ⟨⟨?_, fun k => ?_, fun k hk => ?_⟩, ?_⟩
  · simp [putHandle, Spec.Store.alloc, hR.next]
  · simp only [putHandle, Spec.Store.alloc, tget_tinsert, upd, ← handleName_eq, ← hR.next]
    by_cases hk : k = handleName m.next
    · simp [hk, hv]
    · simp [hk]; exact hR.look k
  · simp only [putHandle, tget_tinsert] at hk
    by_cases hkh : k = handleName m.next
    · exact ⟨m.next, by simp [putHandle], hkh⟩
    · simp [hkh] at hk
      obtain ⟨j, hj, e⟩ := hR.fresh k hk
      exact ⟨j, by simp [putHandle]; omega, e⟩
  · simp [putHandle, Spec.Store.alloc, absR, ← handleName_eq, hR.next]

/-! ## inner map, recursive release -/

theorem mget_minsert (mm : List (Str × Item)) (k k' : Str) (v : Item) :
    mget (minsert mm k v) k' = if k' = k then some v else mget mm k' := by
  induction mm with
  | nil =>
    by_cases e : k' = k
    · subst e; simp [minsert, mget]
    · have : ¬ k = k' := fun x => e x.symm
      simp [minsert, mget, e, this]
  | cons p r ih =>
    obtain ⟨a, w⟩ := p
    by_cases e : a = k
    · subst e
      by_cases e2 : k' = a
      · subst e2; simp [minsert, mget]
      · have : ¬ a = k' := fun x => e2 x.symm
        simp [minsert, mget, e2, this]
    · simp only [minsert, e, if_false, mget, ih]
      by_cases e2 : a = k'
      · subst e2
        have : ¬ a = k := e
        simp [this]
      · simp [e2]


theorem removeAll_ok (fuel : Nat)
    (ih : ∀ t k, t.length ≤ fuel → ∃ t' b, removeRec fuel t k = some (t', b) ∧ t'.length ≤ t.length ∧
      ∀ h, tget t' h = tget t h ∨ tget t' h = none)
    (cs : List Str) (t : Table) (ht : t.length ≤ fuel) :
    ∃ t', removeAll (removeRec fuel) cs t = some t' ∧ t'.length ≤ t.length ∧
      ∀ h, tget t' h = tget t h ∨ tget t' h = none := by
  induction cs generalizing t with
  | nil => exact ⟨t, rfl, Nat.le_refl _, fun _ => Or.inl rfl⟩
  | cons c r ihc =>
    obtain ⟨t1, b, e1, l1, g1⟩ := ih t c ht
    obtain ⟨t2, e2, l2, g2⟩ := ihc t1 (Nat.le_trans l1 ht)
    refine ⟨t2, by simp [removeAll, e1, e2], Nat.le_trans l2 l1, fun h => ?_⟩
    rcases g2 h with a | a
    · rcases g1 h with b' | b'
      · exact Or.inl (a.trans b')
      · exact Or.inr (a.trans b')
    · exact Or.inr a


theorem removeRec_total (fuel : Nat) (t : Table) (k : Str) (hf : t.length ≤ fuel) :
    ∃ t' b, removeRec fuel t k = some (t', b) ∧ t'.length ≤ t.length ∧
      ∀ h, tget t' h = tget t h ∨ tget t' h = none := by
  induction fuel generalizing t k with
  | zero =>
    have : t = [] := List.eq_nil_of_length_eq_zero (Nat.le_zero.mp hf)
    subst this
    exact ⟨[], false, by simp [removeRec, tget, tremove], Nat.le_refl _, fun _ => Or.inl rfl⟩
  | succ n ih =>
    cases hv : tget t k with
    | none =>
      refine ⟨tremove t k, false, by simp [removeRec, hv], tremove_length_le t k, fun h => ?_⟩
      rw [tget_tremove]; by_cases e : h = k <;> simp [e]
    | some v =>
      have hlt := tremove_length_lt t k v hv
      obtain ⟨t', e, l, g⟩ := removeAll_ok n ih (children v) (tremove t k) (by omega)
      refine ⟨t', true, by simp [removeRec, hv, e], by omega, fun h => ?_⟩
      rcases g h with a | a
      · rw [a, tget_tremove]; by_cases e : h = k <;> simp [e]
      · exact Or.inr a


end Duck.Coll
