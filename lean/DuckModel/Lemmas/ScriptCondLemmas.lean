/-
  Command conditions inside a script body run from source (`if not is_array X`, `not map_is_empty X`):
  the condition evaluator rebuilds a script line from the bound values, parses it again and runs
  it on the nested evaluator (C09 path).  For values of the class that survives the round trip
  (`ArgOK`, the decidable class of Sdk/Reserialize.lean) the nested runs are followed here.
-/
import DuckModel.Lemmas.ScriptLoopLemmas
import DuckModel.Lemmas.ReserializeLemmas

namespace Duck.ScriptRun
open Duck Duck.Alias Duck.Coll Duck.Spec Duck.Generated Duck.Reser

/-- an argument that reaches the command unchanged when a condition evaluator rebuilds and
    re-parses the line (C09): stable under the second expansion (no `%`, no `${`), no line
    break, quotes / `#` / leading `=` / trailing blank only where the rebuilt token protects
    them.  Every handle name (`handle:<digits>`, in the code 20 random alphanumerics) is in the
    class; an argument outside it is the C09 finding (`set_from_array \${h}` validates the
    array named by the caller's `h` and then iterates over the literal text). -/
def ArgOK (a : Str) : Bool := Safe a && firstOK a && lastOK a

/-- the instruction a safe condition line is re-parsed to -/
def condI (cmd : Str) (vals : List Str) : Instruction :=
  ⟨meta1, .script { label := none, output := none, command := some cmd,
                    args := if vals = [] then none else some vals }⟩

theorem evalParse_ok (cmd : Str) (vals : List Str) (hc : cmdOK cmd = true)
    (hs : ∀ v ∈ vals, Safe v = true) (hp : positionOK vals = true) :
    evalParse (cmd :: vals) = some (condI cmd vals) :=
  evalParse_of_parseLine cmd vals _ (parseLine_serialized cmd vals hc hs hp)
    (by intro c x he; cases he)

theorem bind_ok (vars : Vars) (vals : List Str) (hs : ∀ v ∈ vals, Safe v = true) :
    bind vars (if vals = [] then none else some vals) = vals :=
  bind_plain vars vals (fun v hv => ((safe_iff v).mp (hs v hv)).1.1)

theorem isTrue_boolStr (b : Bool) : isTrue (some (boolStr b)) = b := by
  cases b <;> decide

theorem getElem_last {α : Type} (l : List α) (x : α) : (l ++ [x])[(l ++ [x]).length - 1]? = some x := by
  simp

/-- the nested evaluator on one appended instruction that runs a NATIVE command answering
    `Continue(v)`: flow output `v` -/
theorem nested_native (F d : Nat) (is : List Instruction) (cmd : Str) (vals : List Str) (n : Native)
    (hs : ∀ v ∈ vals, Safe v = true)
    (hfs : findScript cmd = none) (hr : resolveNative cmd = some n)
    (vars : Vars) (s : ScriptSt) (v : Option Str) (vars' : Vars) (s' : ScriptSt)
    (hrun : runNative n vals vars s = (.continue v, vars', s')) :
    nestedOf (bodySem (F + 2) d) (F + 2) (is ++ [condI cmd vals]) ((is ++ [condI cmd vals]).length - 1) vars s =
      (none, v, vars', s') := by
  unfold nestedOf
  have hget : (is ++ [condI cmd vals])[(is ++ [condI cmd vals]).length - 1]? = some (condI cmd vals) := getElem_last _ _
  rw [eval_native_continue (F + 2) d _ (F + 1) _ 0 none vars s _ _ cmd n hget rfl hfs hr vals
    (bind_ok vars vals hs) v vars' s' hrun]
  rw [eval_end _ _ F _ _ _ _ _ (by simp)]
  rfl

/-- a native command as a condition -/
theorem evalCond_native (F d : Nat) (is : List Instruction) (cmd : Str) (vals : List Str) (n : Native)
    (hc : cmdOK cmd = true) (hs : ∀ v ∈ vals, Safe v = true) (hp : positionOK vals = true)
    (hfs : findScript cmd = none) (hr : resolveNative cmd = some n)
    (vars : Vars) (s : ScriptSt) (v : Option Str) (vars' : Vars) (s' : ScriptSt)
    (hrun : runNative n vals vars s = (.continue v, vars', s')) :
    evalCond (nestedOf (bodySem (F + 2) d) (F + 2)) is (cmd :: vals) vars s = (.ok (isTrue v), vars', s') := by
  have hcmd : isCommand cmd = true := by simp [isCommand, hr]
  simp only [evalCond, hcmd, if_true, evalParse_ok cmd vals hc hs hp]
  rw [nested_native F d is cmd vals n hs hfs hr vars s v vars' s' hrun]

theorem fs_not : findScript "not".toList = none := by decide +kernel
theorem rn_not : resolveNative "not".toList = none := by decide +kernel
theorem rf_not : resolveFlow "not".toList = some .notC := by decide +kernel

/-- `not <native command> vals…` as a condition: two rounds of rebuild / re-parse -/
theorem evalCond_not_native (F d : Nat) (is : List Instruction) (cmd : Str) (vals : List Str) (n : Native)
    (hc : cmdOK cmd = true) (hsc : Safe cmd = true) (hs : ∀ v ∈ vals, Safe v = true)
    (hp1 : positionOK (cmd :: vals) = true) (hp : positionOK vals = true)
    (hfs : findScript cmd = none) (hr : resolveNative cmd = some n)
    (vars : Vars) (s : ScriptSt) (v : Option Str) (vars' : Vars) (s' : ScriptSt)
    (hrun : runNative n vals vars s = (.continue v, vars', s')) :
    evalCond (nestedOf (bodySem (F + 2) (d + 1)) (F + 2)) is ("not".toList :: cmd :: vals) vars s =
      (.ok (!isTrue v), vars', s') := by
  have hnot : isCommand "not".toList = true := by decide +kernel
  have hs' : ∀ x ∈ cmd :: vals, Safe x = true := by
    intro x hx
    rcases List.mem_cons.mp hx with rfl | hx
    · exact hsc
    · exact hs x hx
  simp only [evalCond, hnot, if_true, evalParse_ok "not".toList (cmd :: vals) (by decide) hs' hp1]
  -- the nested run of `not cmd vals`
  have hnested : nestedOf (bodySem (F + 2) (d + 1)) (F + 2) (is ++ [condI "not".toList (cmd :: vals)])
      ((is ++ [condI "not".toList (cmd :: vals)]).length - 1) vars s =
      (none, some (boolStr (!isTrue v)), vars', s') := by
    unfold nestedOf
    have hget : (is ++ [condI "not".toList (cmd :: vals)])[(is ++ [condI "not".toList (cmd :: vals)]).length - 1]? =
        some (condI "not".toList (cmd :: vals)) := getElem_last _ _
    have hflow : runFlowF (nestedOf (bodySem (F + 2) d) (F + 2)) (is ++ [condI "not".toList (cmd :: vals)]) 2 .notC
        (cmd :: vals) ((is ++ [condI "not".toList (cmd :: vals)]).length - 1) vars s =
        (.continue (some (boolStr (!isTrue v))), vars', s') := by
      simp only [runFlowF, runFlow, List.isEmpty_cons, Bool.false_eq_true, if_false]
      rw [evalCond_native F d _ cmd vals n hc hs hp hfs hr vars s v vars' s' hrun]
    rw [eval_flow_continue (F + 2) d _ (F + 1) _ 0 none vars s _ _ "not".toList .notC hget rfl fs_not rn_not rf_not
      (cmd :: vals) (bind_ok vars (cmd :: vals) hs') _ vars' s' hflow]
    rw [eval_end _ _ F _ _ _ _ _ (by simp)]
    rfl
  rw [hnested]
  simp [isTrue_boolStr]

end Duck.ScriptRun
