/-
  C05 simulation (functions) — part 5: blocks and if chains, with both outcomes (normal / a
  `return` is propagating).
-/
import DuckModel.Lemmas.SimFnCall

namespace Duck
open Duck.Spec Duck.Generated Duck.Fn

theorem block_stepF (c : Ctx) (hc : CtxOK c) (fuel : Nat) (hS : StmtSimF c fuel) (hB : BlockSimF c fuel) :
    BlockSimF c (fuel + 1) := by
  intro b inFor lo s t o hwf hs hat hpre hsafe hex
  cases b with
  | nil =>
    simp only [execBlock] at hex
    subst hex
    simp only [Block.flatten, List.length_nil, Nat.add_zero]
    exact ⟨s, SimAt.refl hpre.cache hpre.rel⟩
  | cons st rest =>
    simp only [Block.wf, Block.fnFrag, Bool.and_eq_true] at hwf hs
    simp only [Block.flatten, List.length_append, ← Nat.add_assoc] at hat hpre ⊢
    simp only [execBlock] at hex
    simp only [fsafeBlock, Bool.and_eq_true] at hsafe
    have hA1 : ∀ x, Block.assignsF c.F.fa x (.cons st rest) = false → Stmt.assignsF c.F.fa x st = false := by
      intro x hx; simp only [Block.assignsF, Bool.or_eq_false_iff] at hx; exact hx.1
    have hA2 : ∀ x, Block.assignsF c.F.fa x (.cons st rest) = false → Block.assignsF c.F.fa x rest = false := by
      intro x hx; simp only [Block.assignsF, Bool.or_eq_false_iff] at hx; exact hx.2
    have S1 := hS st inFor lo s t _ hwf.1 hs.1 hat.left (hpre.sub (Nat.le_refl _) (by omega)) hsafe.1 rfl
    cases h1 : execStmt c.is fuel st t with
    | normal t1 =>
      rw [h1] at hex S1
      have hsafe2 := hsafe.2
      rw [h1] at hsafe2
      simp only at hex hsafe2
      obtain ⟨s1, hat1⟩ := S1
      have hpre1 : Pre c (lo + st.flatten.length) (lo + st.flatten.length + rest.flatten.length) s1 t1 :=
        hpre.after hc (hat1.core.sub (Nat.le_refl _) (Nat.le_add_right _ _) (fun _ h => h)) hat1.forS
          (by omega) (Nat.le_refl _)
      have S2 := hB rest inFor _ s1 t1 o hwf.2 hs.2 hat.right hpre1 hsafe2 hex
      cases o with
      | normal t2 =>
        obtain ⟨s2, hat2⟩ := S2
        exact ⟨s2, SimAt.seq hat1 hat2 (by omega) (by omega) (hA1 ·) (hA2 ·)⟩
      | returning v t2 =>
        obtain ⟨hif, s2, r, hat2, hr1, hr2, hret⟩ := S2
        exact ⟨hif, s2, r, SimAt.seq hat1 hat2 (by omega) (by omega) (hA1 ·) (hA2 ·), by omega, hr2, hret⟩
      | failed => trivial
      | outOfFuel => trivial
    | returning v t1 =>
      rw [h1] at hex S1
      simp only at hex
      subst hex
      obtain ⟨hif, s1, r, hat1, hr1, hr2, hret⟩ := S1
      exact ⟨hif, s1, r, hat1.sub (Nat.le_refl _) (by omega) (hA1 ·) hat1.steps, hr1, by omega, hret⟩
    | failed => rw [h1] at hex; simp only at hex; subst hex; trivial
    | outOfFuel => rw [h1] at hex; simp only at hex; subst hex; trivial

/-! ### if chains -/

/-- what has to be shown for an outcome of the else-lines phase -/
def ElifsOut (c : Ctx) (lo pos stop : Nat) (A : Str → Bool) (inFor : Bool) (K : List IfCall) (s : Sdk)
    (t : TState) (o : TOut) : Prop :=
  match o with
  | .normal t' => ∃ s', SimAtK c.is c.E c.F c.B lo pos (stop + 1) A K s t t' s' (stop + 1)
  | .returning v t' => inFor = false ∧ ∃ s' r, SimAtK c.is c.E c.F c.B lo pos (stop + 1) A K s t t' s' r ∧
      pos ≤ r ∧ r < stop + 1 ∧ RetLine c.is r t'.vars v
  | _ => True

def ElifsSimF (c : Ctx) (fuel : Nat) : Prop :=
  ∀ (es : Elifs) (kwElse : Option Str) (elseBody : Block) (kwEnd : Str) (inFor : Bool)
    (lo pos stop : Nat) (elses : List Nat) (j : Nat) (own : IfCall) (K : List IfCall) (s : Sdk)
    (t : TState) (o : TOut),
    es.wf = true → es.fnFrag c.F.names c.callable c.F.fa c.rets inFor = true →
    (match kwElse with | some k => isElseKw k && elseBody.wf | none => true) = true →
    elseBody.fnFrag c.F.names c.callable c.F.fa c.rets inFor = true → isEndIfKw kwEnd = true →
    At c.is pos (tailFlat es kwElse elseBody kwEnd) →
    stop = pos + es.flatten.length + (elseFlat kwElse elseBody).length →
    lo < pos →
    elses.drop j = elseOffsets.go pos es kwElse → elses.drop j ≠ [] →
    (∀ e ∈ elses, lo < e ∧ e < stop) →
    s.ifStack = own :: K → own.current = pos → own.passed = false → own.elseIdx = j →
    own.elses = elses → own.stop = stop → own.ctx = s.lineCtx →
    s.endTable.get (lineKey s stop) = some fullNameEndIf →
    Pre c pos (stop + 1) s t →
    fsafeElifs c.is fuel es kwElse elseBody t = true →
    execElifs c.is fuel es kwElse elseBody t = o →
    ElifsOut c lo pos stop (fun x => Elifs.assignsF c.F.fa x es || Block.assignsF c.F.fa x elseBody)
      inFor K s t o

/-- a branch of the chain ran to its end with the chain's entry (passed) still on the stack below
    the branch's garbage: the next line is either an else-line, which leaves the chain, or the end -/
theorem branch_doneF (is : List Instruction) (names callable : List Str) (fa : Str → Str → Bool)
    (rets inFor : Bool) (es : Elifs) (kwElse : Option Str) (elseBody : Block)
    (kwEnd : Str) (B lo pos stop : Nat) (v : Vars) (s2 : Sdk) (G : List IfCall) (own : IfCall)
    (K : List IfCall)
    (hwf : es.wf = true) (hs : es.fnFrag names callable fa rets inFor = true)
    (hke : (match kwElse with | some k => isElseKw k && elseBody.wf | none => true) = true)
    (hkend : isEndIfKw kwEnd = true)
    (hat : At is pos (tailFlat es kwElse elseBody kwEnd))
    (hstop : stop = pos + es.flatten.length + (elseFlat kwElse elseBody).length)
    (hst : s2.ifStack = G ++ own :: K) (hB : B ≤ pos)
    (hG : ∀ e ∈ G, InR B lo pos e.current)
    (hp : own.passed = true) (hos : own.stop = stop) (hctx : own.ctx = s2.lineCtx)
    (hcur : elseOffsets.go pos es kwElse ≠ [] → own.current = pos)
    (hrange : lo ≤ own.current ∧ own.current < stop + 1)
    (hend : s2.endTable.get (lineKey s2 stop) = some fullNameEndIf) :
    ∃ s3, Steps is pos v s2 (stop + 1) v s3 ∧ coreOf s3 = coreOf s2 ∧
      GarbF IfCall.current B lo (stop + 1) K s3.ifStack ∧ s3.whileStack = s2.whileStack ∧
      s3.forStack = s2.forStack ∧ s3.fnStack = s2.fnStack ∧ s3.scopeStack = s2.scopeStack := by
  have hGne : ∀ e ∈ G, e.current ≠ pos := fun e he => by have := hG e he; unfold InR at this; omega
  cases es with
  | nil =>
    cases kwElse with
    | none =>
      rw [tailFlat_nil_none] at hat
      have hps : stop = pos := by simp [hstop, elseFlat, Elifs.flatten]
      subst hps
      refine ⟨s2, step_endIf is stop v s2 _ kwEnd (At.head hat) hkend hend, rfl, ?_, rfl, rfl, rfl, rfl⟩
      refine ⟨G ++ [own], by simp [hst], fun e he => ?_⟩
      rcases List.mem_append.mp he with h | h
      · have := hG e h; unfold InR at *; omega
      · simp at h; subst h; unfold InR; omega
    | some k =>
      rw [tailFlat_nil_some] at hat
      simp only [Bool.and_eq_true] at hke
      have hc := hcur (by simp [go_nil_some])
      have := step_else_passed is pos v s2 _ k G own K (At.head hat) hke.1 hst hc hctx hGne hp
      rw [hos] at this
      exact ⟨_, this, rfl, GarbF.refl _ _ _ _ _, rfl, rfl, rfl, rfl⟩
  | cons kw cond b rest =>
    rw [tailFlat_cons] at hat
    simp only [Elifs.wf, Elifs.fnFrag, Bool.and_eq_true] at hwf hs
    have hc := hcur (by simp [go_cons])
    have := step_elif_passed is pos v s2 _ kw cond G own K (At.head hat) hwf.1.1
      (condSimple2_bind_ne v hs.1.1.1) hst hc hctx hGne hp
    rw [hos] at this
    exact ⟨_, this, rfl, GarbF.refl _ _ _ _ _, rfl, rfl, rfl, rfl⟩

end Duck

namespace Duck
open Duck.Spec Duck.Generated Duck.Fn

theorem elifs_stepF (c : Ctx) (hc : CtxOK c) (fuel : Nat) (hB : BlockSimF c fuel) (hE : ElifsSimF c fuel) :
    ElifsSimF c (fuel + 1) := by
  intro es kwElse elseBody kwEnd inFor lo pos stop elses j own K s t o hwf hs hke hes hkend hat hstop hlo
    hdrop hne hrng hst hcur hp hidx hels hos hctx hend hpre hsafe hex
  have hBpos : c.B ≤ pos := hpre.bound
  cases es with
  | nil =>
    cases kwElse with
    | none => rw [go_nil_none] at hdrop; exact absurd hdrop hne
    | some k =>
      rw [tailFlat_nil_some] at hat
      simp only [Bool.and_eq_true] at hke
      simp only [execElifs, Option.isSome_some, if_true] at hex
      simp only [fsafeElifs, Option.isSome_some, if_true] at hsafe
      have hstopEq : pos + 1 + elseBody.flatten.length = stop := by
        simp [hstop, elseFlat, Elifs.flatten]; omega
      have hstep := step_else_run c.is pos t.vars s _ k [] own K (At.head hat) hke.1
        (by simpa using hst) hcur hctx (by simp) hp
      have hat' := At.tail hat
      have hpre1 : Pre c (pos + 1) (pos + 1 + elseBody.flatten.length) { s with ifStack := K } t :=
        (hpre.core (s' := { s with ifStack := K }) rfl rfl).sub (by omega) (by omega)
      have S := hB elseBody inFor (pos + 1) { s with ifStack := K } t o hke.2 hes hat'.left hpre1 hsafe hex
      have hA : ∀ x, (Elifs.assignsF c.F.fa x .nil || Block.assignsF c.F.fa x elseBody) = false →
          Block.assignsF c.F.fa x elseBody = false := by
        intro x hx
        simp only [Elifs.assignsF, Bool.false_or] at hx
        exact hx
      have hcore0 : SimCoreF c.is c.E c.F c.B pos (stop + 1)
          (fun x => Elifs.assignsF c.F.fa x .nil || Block.assignsF c.F.fa x elseBody) s t t
          { s with ifStack := K } := (SimCoreF.refl hpre.cache hpre.rel).core_right rfl
      cases o with
      | normal t' =>
        obtain ⟨s2, hat2⟩ := S
        have hend2 : s2.endTable.get (lineKey s2 stop) = some fullNameEndIf := by
          rw [hat2.core.frame.keep stop (by omega) (by omega)]
          exact hend
        have hP := SimAtK.prefix (loG := lo) (K := K) (hi := stop + 1) hstep hcore0 (GarbF.refl _ _ _ _ _)
          (GarbF.refl _ _ _ _ _) rfl rfl rfl hat2 (by omega) (by omega) (by omega) hA
        rw [hstopEq] at hP
        have hiend := At.head hat'.right
        rw [hstopEq] at hiend
        exact ⟨s2, hP.extend (step_endIf c.is stop t'.vars s2 _ kwEnd hiend hkend hend2)⟩
      | returning v t' =>
        obtain ⟨hif, s2, r, hat2, hr1, hr2, hret⟩ := S
        exact ⟨hif, s2, r, SimAtK.prefix hstep hcore0 (GarbF.refl _ _ _ _ _)
          (GarbF.refl _ _ _ _ _) rfl rfl rfl hat2 (by omega) (by omega) (by omega) hA,
          by omega, by omega, hret⟩
      | failed => trivial
      | outOfFuel => trivial
  | cons kw cond b rest =>
    rw [tailFlat_cons] at hat
    simp only [Elifs.wf, Elifs.fnFrag, Bool.and_eq_true] at hwf hs
    obtain ⟨⟨⟨hcs, hcnf⟩, hbs⟩, hrs⟩ := hs
    rw [go_cons] at hdrop
    obtain ⟨hjlt, hj, hdrop'⟩ := drop_cons_facts elses j pos _ hdrop
    have hstopEq : stop = pos + 1 + b.flatten.length + rest.flatten.length +
        (elseFlat kwElse elseBody).length := by
      simp [hstop, Elifs.flatten]; omega
    have hi := At.head hat
    have hat' := At.tail hat
    have hA1 : ∀ x, (Elifs.assignsF c.F.fa x (.cons kw cond b rest) || Block.assignsF c.F.fa x elseBody) = false →
        Block.assignsF c.F.fa x b = false := by
      intro x hx
      simp only [Elifs.assignsF, Bool.or_eq_false_iff] at hx
      exact hx.1.1
    have hA2 : ∀ x, (Elifs.assignsF c.F.fa x (.cons kw cond b rest) || Block.assignsF c.F.fa x elseBody) = false →
        (Elifs.assignsF c.F.fa x rest || Block.assignsF c.F.fa x elseBody) = false := by
      intro x hx
      simp only [Elifs.assignsF, Bool.or_eq_false_iff] at hx
      simp only [Bool.or_eq_false_iff]
      exact ⟨hx.1.2, hx.2⟩
    cases fuel with
    | zero =>
      simp only [execElifs, evalCond] at hex
      subst hex
      trivial
    | succ f =>
      simp only [execElifs] at hex
      simp only [fsafeElifs, Bool.and_eq_true] at hsafe
      obtain ⟨hcsafe, hsafe'⟩ := hsafe
      cases hec : evalCond c.is (f + 1) cond t with
      | none => rw [hec] at hex; simp only at hex; subst hex; trivial
      | some pr =>
        obtain ⟨bv, t1⟩ := pr
        rw [hec] at hex hsafe'
        obtain ⟨em, rfl, hbne, hev⟩ := cond_simF c.is c.E c.F hc.env f cond t t1 bv hcs hcnf hcsafe
          hpre.rel.tfns hpre.rel.tsfns hec
        have hv : CondSaysF c.is (bind t.vars (some cond)) t.vars s.emitted bv em s.fns :=
          ⟨hbne, fun f' hf' s' h1 h2 => hev f' hf' c.is s' (h1.trans hpre.rel.sfns)
            (h2.trans hpre.rel.emitted)⟩
        cases bv with
        | true =>
          simp only at hex hsafe'
          -- the branch is taken
          have hstep := step_elif_trueF c.is pos t.vars s _ kw cond [] own K em hi hwf.1.1
            (by simpa using hst) hcur hctx (by simp) hp hv
          have hnext : lo ≤ elifNext own ∧ elifNext own < stop + 1 := by
            unfold elifNext
            rw [hels, hidx]
            split
            · rename_i hlt
              have : elses[j + 1]? = some elses[j + 1] := List.getElem?_eq_getElem hlt
              rw [this]
              have := hrng _ (List.getElem_mem hlt)
              simp only [Option.getD_some]
              omega
            · have h0 : 0 < elses.length := by omega
              have : elses[0]? = some elses[0] := List.getElem?_eq_getElem h0
              rw [this]
              have := hrng _ (List.getElem_mem h0)
              simp only [Option.getD_some]
              omega
          have hcore1 : SimCoreF c.is c.E c.F c.B pos (stop + 1)
              (fun x => Elifs.assignsF c.F.fa x (.cons kw cond b rest) || Block.assignsF c.F.fa x elseBody) s t
              (withEm t em)
              { s with emitted := em,
                       ifStack := { own with current := elifNext own, passed := true,
                                             ctx := s.lineCtx } :: K } :=
            SimCoreF.condStep (hpre.cache.of_eq rfl rfl rfl rfl) hpre.rel rfl rfl rfl rfl rfl
              (fun _ _ => rfl)
          have hif1 : GarbF IfCall.current c.B lo (stop + 1) K
              ({ own with current := elifNext own, passed := true, ctx := s.lineCtx } :: K) :=
            ⟨[_], rfl, fun e he => by simp at he; subst he; unfold InR; simp only; omega⟩
          have hpre1 : Pre c (pos + 1) (pos + 1 + b.flatten.length)
              { s with emitted := em,
                       ifStack := { own with current := elifNext own, passed := true,
                                             ctx := s.lineCtx } :: K } (withEm t em) :=
            hpre.after hc hcore1 rfl (by omega) (by omega)
          have S := hB b inFor (pos + 1) _ (withEm t em) o hwf.1.2 hbs hat'.left hpre1 hsafe' hex
          cases o with
          | normal t' =>
            obtain ⟨s2, hat2⟩ := S
            obtain ⟨G, hG1, hG2⟩ := hat2.ifS
            have hend2 : s2.endTable.get (lineKey s2 stop) = some fullNameEndIf := by
              rw [hat2.core.frame.keep stop (by omega) (by omega)]
              exact hend
            obtain ⟨s3, hst3, hcore3, hif3, hwh3, hfor3, hfn3, hsc3⟩ :=
              branch_doneF c.is c.F.names c.callable c.F.fa c.rets inFor rest kwElse elseBody kwEnd c.B lo
                (pos + 1 + b.flatten.length) stop t'.vars s2 G
                { own with current := elifNext own, passed := true, ctx := s.lineCtx } K
                hwf.2 hrs hke hkend hat'.right (by omega) hG1 (by omega)
                (fun e he => by have := hG2 e he; unfold InR at *; omega) rfl hos
                (by simp only; exact (hat2.core.frame.ctx).symm)
                (by
                  intro hgo
                  simp only
                  unfold elifNext
                  rw [hels, hidx]
                  cases hg : elseOffsets.go (pos + 1 + b.flatten.length) rest kwElse with
                  | nil => exact absurd hg hgo
                  | cons a tl =>
                    rw [hg] at hdrop'
                    obtain ⟨h1, h2, _⟩ := drop_cons_facts elses (j + 1) a tl hdrop'
                    have ha := go_head _ _ _ _ _ hg
                    rw [if_pos h1, h2, ha]
                    rfl)
                (by simpa using hnext) hend2
            refine ⟨s3, (hstep.trans hat2.steps).trans hst3,
              hcore1.trans ((hat2.core.sub (by omega) (by omega) hA1).core_right hcore3), hif3, ?_, ?_, ?_, ?_⟩
            · rw [hwh3]; exact hat2.whS.mono (fun _ h => h.sub (by omega) (by omega))
            · rw [hfor3, hat2.forS]
            · rw [hfn3, hat2.fnS]
            · rw [hsc3, hat2.scS]
          | returning v t' =>
            obtain ⟨hif, s2, r, hat2, hr1, hr2, hret⟩ := S
            exact ⟨hif, s2, r, SimAtK.prefix (ta := withEm t em) hstep hcore1 hif1 (GarbF.refl _ _ _ _ _) rfl rfl rfl hat2
              (by omega) (by omega) (by omega) hA1, by omega, by omega, hret⟩
          | failed => trivial
          | outOfFuel => trivial
        | false =>
          simp only at hex hsafe'
          cases hg : elseOffsets.go (pos + 1 + b.flatten.length) rest kwElse with
          | nil =>
            -- no further else-line: leave the chain
            rw [hg] at hdrop'
            have hlast := drop_nil_facts elses (j + 1) hdrop'
            obtain ⟨rfl, rfl⟩ := go_nil_inv _ _ _ hg
            have hex' : o = .normal (withEm t em) := by
              rw [← hex]; simp
            subst hex'
            have hstep := step_elif_false_lastF c.is pos t.vars s _ kw cond [] own K em hi hwf.1.1
              (by simpa using hst) hcur hctx (by simp) hp hv
              (by rw [hels, hidx]; exact hlast)
            rw [hos] at hstep
            exact ⟨_, hstep,
              SimCoreF.condStep (hpre.cache.of_eq rfl rfl rfl rfl) hpre.rel rfl rfl rfl rfl rfl
                (fun _ _ => rfl),
              GarbF.refl _ _ _ _ _, GarbF.refl _ _ _ _ _, rfl, rfl, rfl⟩
          | cons a tl =>
            rw [hg] at hdrop'
            obtain ⟨h1, h2, _⟩ := drop_cons_facts elses (j + 1) a tl hdrop'
            have ha := go_head _ _ _ _ _ hg
            have hstep := step_elif_false_moreF c.is pos t.vars s _ kw cond [] own K em hi hwf.1.1
              (by simpa using hst) hcur hctx (by simp) hp hv
              (by rw [hels, hidx]; exact h1)
            have hnx : own.elses[own.elseIdx + 1]?.getD 0 = pos + 1 + b.flatten.length := by
              rw [hels, hidx, h2, ha]; rfl
            rw [hnx] at hstep
            have hcore1 : SimCoreF c.is c.E c.F c.B pos (stop + 1)
                (fun x => Elifs.assignsF c.F.fa x (.cons kw cond b rest) || Block.assignsF c.F.fa x elseBody) s t
                (withEm t em)
                { s with emitted := em,
                         ifStack := { own with current := pos + 1 + b.flatten.length, passed := false,
                                               elseIdx := own.elseIdx + 1, ctx := s.lineCtx } :: K } :=
              SimCoreF.condStep (hpre.cache.of_eq rfl rfl rfl rfl) hpre.rel rfl rfl rfl rfl rfl
                (fun _ _ => rfl)
            have hpre1 : Pre c (pos + 1 + b.flatten.length) (stop + 1)
                { s with emitted := em,
                         ifStack := { own with current := pos + 1 + b.flatten.length, passed := false,
                                               elseIdx := own.elseIdx + 1, ctx := s.lineCtx } :: K }
                (withEm t em) :=
              hpre.after hc hcore1 rfl (by omega) (by omega)
            have S := hE rest kwElse elseBody kwEnd inFor lo (pos + 1 + b.flatten.length) stop elses (j + 1)
                { own with current := pos + 1 + b.flatten.length, passed := false,
                           elseIdx := own.elseIdx + 1, ctx := s.lineCtx } K
                { s with emitted := em,
                         ifStack := { own with current := pos + 1 + b.flatten.length, passed := false,
                                               elseIdx := own.elseIdx + 1, ctx := s.lineCtx } :: K }
                (withEm t em) o hwf.2 hrs hke hes hkend hat'.right (by omega) (by omega)
                (by rw [hdrop', hg]) (by rw [hdrop']; simp) hrng rfl rfl rfl
                (by simp only; rw [hidx]) hels hos rfl hend hpre1 hsafe' hex
            cases o with
            | normal t' =>
              obtain ⟨s2, hK⟩ := S
              exact ⟨s2, SimAtK.prefixK (ta := withEm t em) hstep hcore1 (GarbF.refl _ _ _ _ _) rfl rfl rfl hK (by omega) hA2⟩
            | returning v t' =>
              obtain ⟨hif, s2, r, hK, hr1, hr2, hret⟩ := S
              exact ⟨hif, s2, r, SimAtK.prefixK (ta := withEm t em) hstep hcore1 (GarbF.refl _ _ _ _ _) rfl rfl rfl hK (by omega)
                hA2, by omega, hr2, hret⟩
            | failed => trivial
            | outOfFuel => trivial

end Duck

namespace Duck
open Duck.Spec Duck.Generated Duck.Fn

theorem Stmt.noFn_of_fnFrag (names callable : List Str) (fa : Str → Str → Bool) :
    (∀ (s : Stmt) (rets inFor : Bool), s.fnFrag names callable fa rets inFor = true → s.noFn = true) := by
  intro s
  exact Stmt.rec
    (motive_1 := fun s => ∀ rets inFor, s.fnFrag names callable fa rets inFor = true → s.noFn = true)
    (motive_2 := fun b => ∀ rets inFor, b.fnFrag names callable fa rets inFor = true → b.noFn = true)
    (motive_3 := fun e => ∀ rets inFor, e.fnFrag names callable fa rets inFor = true → e.noFn = true)
    (fun _ _ _ _ => rfl)
    (fun _ _ body elifs _ elseBody _ ih1 ih2 ih3 rets inFor h => by
      simp only [Stmt.fnFrag, Bool.and_eq_true] at h
      simp only [Stmt.noFn, Bool.and_eq_true]
      exact ⟨⟨ih1 _ _ h.1.1.2, ih2 _ _ h.1.2⟩, ih3 _ _ h.2⟩)
    (fun _ _ body _ ih rets inFor h => by
      simp only [Stmt.fnFrag, Bool.and_eq_true] at h
      simp only [Stmt.noFn]
      exact ih _ _ h.2)
    (fun _ _ _ body _ ih rets inFor h => by
      simp only [Stmt.fnFrag, Bool.and_eq_true] at h
      simp only [Stmt.noFn]
      exact ih _ _ h.1.2)
    (fun _ _ _ _ _ _ rets inFor h => by simp [Stmt.fnFrag] at h)
    (fun _ _ _ _ _ => rfl)
    (fun _ _ _ => rfl)
    (fun s rest ih1 ih2 rets inFor h => by
      simp only [Block.fnFrag, Bool.and_eq_true] at h
      simp only [Block.noFn, Bool.and_eq_true]
      exact ⟨ih1 _ _ h.1, ih2 _ _ h.2⟩)
    (fun _ _ _ => rfl)
    (fun _ _ body rest ih1 ih2 rets inFor h => by
      simp only [Elifs.fnFrag, Bool.and_eq_true] at h
      simp only [Elifs.noFn, Bool.and_eq_true]
      exact ⟨ih1 _ _ h.1.2, ih2 _ _ h.2⟩)
    s

theorem stmt_ifF (c : Ctx) (hc : CtxOK c) (fuel : Nat) (hB : BlockSimF c fuel) (hE : ElifsSimF c fuel)
    (kwIf : Str) (cond : List Str) (body : Block) (elifs : Elifs) (kwElse : Option Str)
    (elseBody : Block) (kwEnd : Str) (inFor : Bool) (lo : Nat) (s : Sdk) (t : TState) (o : TOut)
    (hwf : (Stmt.ifChain kwIf cond body elifs kwElse elseBody kwEnd).wf = true)
    (hs : (Stmt.ifChain kwIf cond body elifs kwElse elseBody kwEnd).fnFrag c.F.names c.callable c.F.fa
      c.rets inFor = true)
    (hat : At c.is lo (Stmt.ifChain kwIf cond body elifs kwElse elseBody kwEnd).flatten)
    (hpre : Pre c lo (lo + (Stmt.ifChain kwIf cond body elifs kwElse elseBody kwEnd).flatten.length) s t)
    (hsafe : fsafeStmt c.is (fuel + 1) (.ifChain kwIf cond body elifs kwElse elseBody kwEnd) t = true)
    (hex : execStmt c.is (fuel + 1) (.ifChain kwIf cond body elifs kwElse elseBody kwEnd) t = o) :
    SimOut c.is c.E c.F c.B lo (lo + (Stmt.ifChain kwIf cond body elifs kwElse elseBody kwEnd).flatten.length)
      (fun x => Stmt.assignsF c.F.fa x (.ifChain kwIf cond body elifs kwElse elseBody kwEnd)) inFor s t o := by
  have hnf := Stmt.noFn_of_fnFrag _ _ _ _ _ _ hs
  -- the scan
  have hscan : findCommands ifTables c.is (lo + 1) =
      .ok ⟨elseOffsets.go (lo + 1 + body.flatten.length) elifs kwElse,
           lo + 1 + body.flatten.length + elifs.flatten.length + (elseFlat kwElse elseBody).length⟩ := by
    obtain ⟨pre, post, hpl, his⟩ := hat
    have := C04_scan_if pre post kwIf cond body elifs kwElse elseBody kwEnd hwf hnf
    simp only at this
    rw [hpl, ← his] at this
    rw [this, elseOffsets, go_map]
    simp only [flatten_if, List.length_cons, List.length_append, length_tailFlat]
    congr 2
    · congr 1; omega
    · omega
  rw [flatten_if] at hat
  simp only [flatten_if, List.length_cons, List.length_append, length_tailFlat] at hpre ⊢
  simp only [Stmt.wf, Stmt.fnFrag, Bool.and_eq_true] at hwf hs
  obtain ⟨⟨⟨⟨hkif, hbwf⟩, hewf⟩, hke⟩, hkend⟩ := hwf
  obtain ⟨⟨⟨⟨hcs, hcnf⟩, hbs⟩, hess⟩, hebs⟩ := hs
  have hi := At.head hat
  have hat' := At.tail hat
  generalize hstopdef : lo + 1 + body.flatten.length + elifs.flatten.length +
    (elseFlat kwElse elseBody).length = stop at hscan
  have hhi : lo + (body.flatten.length + (elifs.flatten.length + (elseFlat kwElse elseBody).length + 1) + 1)
      = stop + 1 := by omega
  rw [hhi] at hpre ⊢
  have hBlo : c.B ≤ lo := hpre.bound
  have hA1 : ∀ x, Stmt.assignsF c.F.fa x (.ifChain kwIf cond body elifs kwElse elseBody kwEnd) = false →
      Block.assignsF c.F.fa x body = false := by
    intro x hx
    simp only [Stmt.assignsF, Bool.or_eq_false_iff] at hx
    exact hx.1.1
  have hA2 : ∀ x, Stmt.assignsF c.F.fa x (.ifChain kwIf cond body elifs kwElse elseBody kwEnd) = false →
      (Elifs.assignsF c.F.fa x elifs || Block.assignsF c.F.fa x elseBody) = false := by
    intro x hx
    simp only [Stmt.assignsF, Bool.or_eq_false_iff] at hx
    simp only [Bool.or_eq_false_iff]
    exact ⟨hx.1.2, hx.2⟩
  cases fuel with
  | zero => simp only [execStmt, evalCond] at hex; subst hex; trivial
  | succ f =>
    simp only [execStmt] at hex
    simp only [fsafeStmt, Bool.and_eq_true] at hsafe
    obtain ⟨hcsafe, hsafe'⟩ := hsafe
    cases hec : evalCond c.is (f + 1) cond t with
    | none => rw [hec] at hex; simp only at hex; subst hex; trivial
    | some pr =>
      obtain ⟨bv, t1⟩ := pr
      rw [hec] at hex hsafe'
      obtain ⟨em, rfl, hbne, hev⟩ := cond_simF c.is c.E c.F hc.env f cond t t1 bv hcs hcnf hcsafe
        hpre.rel.tfns hpre.rel.tsfns hec
      have hv : CondSaysF c.is (bind t.vars (some cond)) t.vars s.emitted bv em s.fns :=
        ⟨hbne, fun f' hf' s' h1 h2 => hev f' hf' c.is s' (h1.trans hpre.rel.sfns)
          (h2.trans hpre.rel.emitted)⟩
      cases bv with
      | true =>
        simp only at hex hsafe'
        obtain ⟨M, hstep1, hcache1⟩ := step_if_trueF c.is lo t.vars s _ kwIf cond _ stop em hi hkif
          hpre.cache hscan hv
        generalize hown : IfCall.mk (match elseOffsets.go (lo + 1 + body.flatten.length) elifs kwElse with
              | [] => stop | e :: _ => e) true 0 lo stop
              (elseOffsets.go (lo + 1 + body.flatten.length) elifs kwElse) s.lineCtx = own at hstep1
        have hocur : (elseOffsets.go (lo + 1 + body.flatten.length) elifs kwElse ≠ [] →
            own.current = lo + 1 + body.flatten.length) ∧
            (lo ≤ own.current ∧ own.current < stop + 1) := by
          subst hown
          simp only
          cases hg : elseOffsets.go (lo + 1 + body.flatten.length) elifs kwElse with
          | nil => simp; omega
          | cons a tl =>
            have := go_head _ _ _ _ _ hg
            subst this
            simp; omega
        have hop : own.passed = true := by subst hown; rfl
        have hos : own.stop = stop := by subst hown; rfl
        have hoc : own.ctx = s.lineCtx := by subst hown; rfl
        have hopen : SimCoreF c.is c.E c.F c.B lo (stop + 1)
            (fun x => Stmt.assignsF c.F.fa x (.ifChain kwIf cond body elifs kwElse elseBody kwEnd)) s t
            (withEm t em)
            { s with ifMeta := M, endTable := s.endTable.put (lineKey s stop) fullNameEndIf,
                     emitted := em, ifStack := own :: s.ifStack } :=
          SimCoreF.opener stop fullNameEndIf (hcache1.of_eq rfl rfl rfl rfl) hpre.rel rfl rfl rfl rfl rfl rfl
            (by omega) (by omega)
        have hif1 : GarbF IfCall.current c.B lo (stop + 1) s.ifStack (own :: s.ifStack) :=
          ⟨[own], rfl, fun e he => by simp at he; subst he; unfold InR; omega⟩
        have hpre1 : Pre c (lo + 1) (lo + 1 + body.flatten.length)
            { s with ifMeta := M, endTable := s.endTable.put (lineKey s stop) fullNameEndIf,
                     emitted := em, ifStack := own :: s.ifStack } (withEm t em) :=
          hpre.after hc hopen rfl (by omega) (by omega)
        have S := hB body inFor (lo + 1) _ (withEm t em) o hbwf hbs hat'.left hpre1 hsafe' hex
        cases o with
        | normal t' =>
          obtain ⟨s2, hat2⟩ := S
          obtain ⟨G, hG1, hG2⟩ := hat2.ifS
          have hend2 : s2.endTable.get (lineKey s2 stop) = some fullNameEndIf := by
            rw [hat2.core.frame.keep stop (by omega) (by omega)]
            exact KV.get_put_self _ _ _
          obtain ⟨s3, hst3, hcore3, hif3, hwh3, hfor3, hfn3, hsc3⟩ :=
            branch_doneF c.is c.F.names c.callable c.F.fa c.rets inFor elifs kwElse elseBody kwEnd c.B lo
              (lo + 1 + body.flatten.length) stop t'.vars s2 G own s.ifStack hewf hess hke hkend
              hat'.right (by omega) hG1 (by omega)
              (fun e he => by have := hG2 e he; unfold InR at *; omega) hop hos
              (by rw [hoc]; exact (hat2.core.frame.ctx).symm) hocur.1 hocur.2 hend2
          refine ⟨s3, (hstep1.trans hat2.steps).trans hst3,
            hopen.trans ((hat2.core.sub (by omega) (by omega) hA1).core_right hcore3), hif3, ?_, ?_, ?_, ?_⟩
          · rw [hwh3]; exact hat2.whS.mono (fun _ h => h.sub (by omega) (by omega))
          · rw [hfor3, hat2.forS]
          · rw [hfn3, hat2.fnS]
          · rw [hsc3, hat2.scS]
        | returning v t' =>
          obtain ⟨hif, hret⟩ := S
          exact ⟨hif, SimRet.prefix (ta := withEm t em) hstep1 hopen hif1 (GarbF.refl _ _ _ _ _) rfl rfl rfl
            hret (by omega) (by omega) hA1⟩
        | failed => trivial
        | outOfFuel => trivial
      | false =>
        simp only at hex hsafe'
        cases hg : elseOffsets.go (lo + 1 + body.flatten.length) elifs kwElse with
        | nil =>
          obtain ⟨rfl, rfl⟩ := go_nil_inv _ _ _ hg
          have hex' : o = .normal (withEm t em) := by
            rw [← hex]; simp [execElifs]
          subst hex'
          rw [hg] at hscan
          obtain ⟨M, hstep1, hcache1⟩ := step_if_false_nilF c.is lo t.vars s _ kwIf cond stop em hi hkif
            hpre.cache hscan hv
          exact ⟨_, hstep1,
            SimCoreF.opener stop fullNameEndIf (hcache1.of_eq rfl rfl rfl rfl) hpre.rel rfl rfl rfl rfl rfl
              rfl (by omega) (by omega),
            GarbF.refl _ _ _ _ _, GarbF.refl _ _ _ _ _, rfl, rfl, rfl⟩
        | cons a tl =>
          have := go_head _ _ _ _ _ hg
          subst this
          rw [hg] at hscan
          obtain ⟨M, hstep1, hcache1⟩ := step_if_false_consF c.is lo t.vars s _ kwIf cond _ tl stop em hi
            hkif hpre.cache hscan hv
          have hopen : SimCoreF c.is c.E c.F c.B lo (stop + 1)
              (fun x => Stmt.assignsF c.F.fa x (.ifChain kwIf cond body elifs kwElse elseBody kwEnd)) s t
              (withEm t em)
              { s with ifMeta := M, endTable := s.endTable.put (lineKey s stop) fullNameEndIf,
                       emitted := em,
                       ifStack := { current := lo + 1 + body.flatten.length, passed := false, elseIdx := 0,
                                    start := lo, stop := stop,
                                    elses := (lo + 1 + body.flatten.length) :: tl,
                                    ctx := s.lineCtx } :: s.ifStack } :=
            SimCoreF.opener stop fullNameEndIf (hcache1.of_eq rfl rfl rfl rfl) hpre.rel rfl rfl rfl rfl rfl
              rfl (by omega) (by omega)
          have hpre1 := hpre.after hc hopen rfl (lo' := lo + 1 + body.flatten.length) (hi' := stop + 1)
            (by omega) (by omega)
          have S := hE elifs kwElse elseBody kwEnd inFor lo (lo + 1 + body.flatten.length) stop
              ((lo + 1 + body.flatten.length) :: tl) 0
              { current := lo + 1 + body.flatten.length, passed := false, elseIdx := 0, start := lo,
                stop := stop, elses := (lo + 1 + body.flatten.length) :: tl, ctx := s.lineCtx } s.ifStack
              { s with ifMeta := M, endTable := s.endTable.put (lineKey s stop) fullNameEndIf,
                       emitted := em,
                       ifStack := { current := lo + 1 + body.flatten.length, passed := false, elseIdx := 0,
                                    start := lo, stop := stop,
                                    elses := (lo + 1 + body.flatten.length) :: tl,
                                    ctx := s.lineCtx } :: s.ifStack }
              (withEm t em) o hewf hess hke hebs hkend hat'.right (by omega) (by omega)
              (by rw [List.drop_zero, hg]) (by simp)
              (by
                intro e he
                rw [← hg] at he
                have := go_range elseBody elifs _ kwElse e he
                omega)
              rfl rfl rfl rfl rfl rfl rfl (KV.get_put_self _ _ _) hpre1 hsafe' hex
          cases o with
          | normal t' =>
            obtain ⟨s2, hK⟩ := S
            exact ⟨s2, (SimAtK.prefixK (ta := withEm t em) hstep1 hopen (GarbF.refl _ _ _ _ _) rfl rfl rfl hK
              (by omega) hA2).toSimAt⟩
          | returning v t' =>
            obtain ⟨hif, s2, r, hK, hr1, hr2, hret⟩ := S
            exact ⟨hif, s2, r, (SimAtK.prefixK (ta := withEm t em) hstep1 hopen (GarbF.refl _ _ _ _ _) rfl rfl
              rfl hK (by omega) hA2).toSimAt, by omega, hr2, hret⟩
          | failed => trivial
          | outOfFuel => trivial

end Duck
