/-
  Helper lemmas for the C04 simulation theorem (Props/C04Sim.lean).
-/
import DuckModel.Sdk.Flow
import DuckModel.Spec.TreeSimple

namespace Duck
open Duck.Spec Duck.Generated

end Duck
