/-
  Helper lemmas for the C04 simulation theorem (Props/C04Sim.lean) — part 1:
  run composition (`Steps`), program layout (`At`), argument binding of literal words,
  the condition lemma and the straight-line command lemma.
-/
import DuckModel.Sdk.Flow
import DuckModel.Spec.TreeSimple
import DuckModel.Lemmas.ExpansionLemmas
import DuckModel.Lemmas.RunnerLemmas

namespace Duck
open Duck.Spec Duck.Generated

/-! ### run composition -/

/-- the machine, started in `(l, v, s)`, reaches `(l', v', s')` after finitely many steps, whatever
    the fuel (from 3 on) of the nested evaluator, the remaining fuel and the poll counter are -/
def Steps (is : List Instruction) (l : Nat) (v : Vars) (s : Sdk) (l' : Nat) (v' : Vars) (s' : Sdk) :
    Prop :=
  ∃ n, ∀ (f k p : Nat), 3 ≤ f →
    runLoop (sdkSem (evalInstrsF f) is) is (labelTable is) (fun _ _ => false) (n + k) ⟨l, p, v, s⟩ =
      runLoop (sdkSem (evalInstrsF f) is) is (labelTable is) (fun _ _ => false) k ⟨l', p + n, v', s'⟩

theorem Steps.refl (is : List Instruction) (l : Nat) (v : Vars) (s : Sdk) : Steps is l v s l v s :=
  ⟨0, fun _ k p _ => by simp⟩

theorem Steps.trans {is : List Instruction} {l1 l2 l3 : Nat} {v1 v2 v3 : Vars} {s1 s2 s3 : Sdk}
    (h1 : Steps is l1 v1 s1 l2 v2 s2) (h2 : Steps is l2 v2 s2 l3 v3 s3) :
    Steps is l1 v1 s1 l3 v3 s3 := by
  obtain ⟨n1, h1⟩ := h1
  obtain ⟨n2, h2⟩ := h2
  refine ⟨n1 + n2, fun f k p hf => ?_⟩
  rw [Nat.add_assoc, h1 f _ _ hf, h2 f _ _ hf, Nat.add_assoc]

/-- one step whose outcome may depend on the nested evaluator (command conditions) -/
theorem Steps.singleF {is : List Instruction} {l l' : Nat} {v v' : Vars} {s s' : Sdk}
    (h : ∀ (f : Nat), 3 ≤ f → ∀ (p : Nat),
      runStep (sdkSem (evalInstrsF f) is) is (labelTable is) (fun _ _ => false) ⟨l, p, v, s⟩ =
        .inl ⟨l', p + 1, v', s'⟩) :
    Steps is l v s l' v' s' := by
  refine ⟨1, fun f k p hf => ?_⟩
  rw [Nat.add_comm 1 k, runLoop_succ, h f hf]

theorem Steps.single {is : List Instruction} {l l' : Nat} {v v' : Vars} {s s' : Sdk}
    (h : ∀ (nested : EvalFn) (p : Nat),
      runStep (sdkSem nested is) is (labelTable is) (fun _ _ => false) ⟨l, p, v, s⟩ =
        .inl ⟨l', p + 1, v', s'⟩) :
    Steps is l v s l' v' s' :=
  Steps.singleF (fun f _ p => h (evalInstrsF f) p)

theorem Steps.cast {is : List Instruction} {l l' l'' : Nat} {v v' v'' : Vars} {s s' s'' : Sdk}
    (h : Steps is l v s l' v' s') (hl : l' = l'') (hv : v' = v'') (hs : s' = s'') :
    Steps is l v s l'' v'' s'' := by
  subst hl; subst hv; subst hs; exact h

/-! ### program layout -/

theorem instrsFrom_nil (n : Nat) : instrsFrom n [] = [] := rfl

theorem instrsFrom_cons (n : Nat) (x : ScriptInstr) (l : List ScriptInstr) :
    instrsFrom n (x :: l) = ⟨{ line := some (n + 1), source := none }, .script x⟩ :: instrsFrom (n + 1) l :=
  rfl

theorem length_instrsFrom (n : Nat) (l : List ScriptInstr) : (instrsFrom n l).length = l.length := by
  induction l generalizing n with
  | nil => rfl
  | cons x l ih => simp [instrsFrom_cons, ih]

theorem instrsFrom_append (n : Nat) (a b : List ScriptInstr) :
    instrsFrom n (a ++ b) = instrsFrom n a ++ instrsFrom (n + a.length) b := by
  induction a generalizing n with
  | nil => simp [instrsFrom_nil]
  | cons x a ih =>
    simp only [List.cons_append, instrsFrom_cons, ih, List.length_cons]
    congr 3
    omega

/-- the script lines `l` sit in the program `is` from 0-based index `lo` on -/
def At (is : List Instruction) (lo : Nat) (l : List ScriptInstr) : Prop :=
  ∃ pre post, pre.length = lo ∧ is = pre ++ instrsFrom lo l ++ post

theorem At.left {is : List Instruction} {lo : Nat} {a b : List ScriptInstr} (h : At is lo (a ++ b)) :
    At is lo a := by
  obtain ⟨pre, post, hl, rfl⟩ := h
  refine ⟨pre, instrsFrom (lo + a.length) b ++ post, hl, ?_⟩
  rw [instrsFrom_append]
  simp

theorem At.right {is : List Instruction} {lo : Nat} {a b : List ScriptInstr} (h : At is lo (a ++ b)) :
    At is (lo + a.length) b := by
  obtain ⟨pre, post, hl, rfl⟩ := h
  refine ⟨pre ++ instrsFrom lo a, post, ?_, ?_⟩
  · simp [length_instrsFrom, hl]
  · rw [instrsFrom_append]
    simp

theorem At.tail {is : List Instruction} {lo : Nat} {x : ScriptInstr} {l : List ScriptInstr}
    (h : At is lo (x :: l)) : At is (lo + 1) l := by
  have := At.right (a := [x]) (b := l) (by simpa using h)
  simpa using this

theorem At.head {is : List Instruction} {lo : Nat} {x : ScriptInstr} {l : List ScriptInstr}
    (h : At is lo (x :: l)) :
    is[lo]? = some ⟨{ line := some (lo + 1), source := none }, .script x⟩ := by
  obtain ⟨pre, post, hl, rfl⟩ := h
  subst hl
  simp [instrsFrom_cons]

theorem At.program (b : Block) : At (program b) 0 b.flatten :=
  ⟨[], [], rfl, by simp [instrsFrom]; rfl⟩

theorem length_program (b : Block) : (program b).length = b.flatten.length :=
  length_instrsFrom 0 b.flatten

/-! ### binding of literal words -/

theorem litOK_of_isLiteral {w : Str} (h : isLiteral w = true) : LitOK w := by
  intro c hc
  have := (List.all_eq_true.mp h) c hc
  simp at this
  exact ⟨this.1.1, this.1.2, this.2⟩

theorem bind_cons (vars : Vars) (a : Str) (rest : List Str) :
    bind vars (some (a :: rest)) = bind vars (some [a]) ++ bind vars (some rest) := by
  simp [bind]

theorem bind_literal (vars : Vars) (w : Str) (h : isLiteral w = true) :
    bind vars (some [w]) = [w] := by
  have := bind_templates vars [[Seg.lit w]] (by
    intro t ht s hs
    simp at ht
    subst ht
    simp at hs
    subst hs
    exact litOK_of_isLiteral h)
  simpa [renderTemplate, Seg.render, tmplValue, Seg.value] using this

theorem bind_cons_literal (vars : Vars) (w : Str) (rest : List Str) (h : isLiteral w = true) :
    bind vars (some (w :: rest)) = w :: bind vars (some rest) := by
  rw [bind_cons, bind_literal vars w h]
  rfl

theorem bind_none (vars : Vars) : bind vars none = [] := rfl
theorem bind_some_nil (vars : Vars) : bind vars (some []) = [] := rfl

/-- the written arguments of a tree line, as they sit in the instruction -/
theorem bind_mkArgs (vars : Vars) (args : List Str) :
    bind vars (if args.isEmpty then none else some args) = bind vars (some args) := by
  cases args <;> rfl

/-! ### command resolution does not depend on the state in the fragment -/

theorem ite_or_aux {α} (A : Prop) [Decidable A] (a : α) (r r' : Option α) (x : Option α)
    (h : r = r'.or x) : (if A then some a else r) = (if A then some a else r').or x := by
  split <;> simp [h]

theorem resolveCmd_eq (s : Sdk) (c : Str) :
    resolveCmd s c =
      (resolveCmd {} c).or (if (s.fns.get c).isSome then some (.call c) else none) := by
  unfold resolveCmd
  repeat' apply ite_or_aux
  simp [KV.get]

theorem resolveCmd_of_empty {c : Str} {x : Cmd} (s : Sdk) (h : resolveCmd {} c = some x) :
    resolveCmd s c = some x := by
  rw [resolveCmd_eq, h]; rfl

theorem resolveCmd_none_of_empty {c : Str} (s : Sdk) (hs : s.fns = [])
    (h : (resolveCmd {} c).isNone = true) : resolveCmd s c = none := by
  rw [resolveCmd_eq, Option.isNone_iff_eq_none.mp h, hs]
  simp [KV.get]

end Duck
