/-
  Helper lemmas for the C16 case-mapping theorems (Props/C16Case.lean), part 2: the loop of
  `str::to_lowercase` and the link to UnicodeLower.lean.
-/
import DuckModel.Lemmas.CaseTableLemmas

namespace Duck.UCase
open Duck

/-! ### `str::to_lowercase`: the loop with its context -/

/-- `lowerGo` on a piece `l` of a text that continues with `after` -/
def lowerCtx : List Char → List Char → List Char → List Char
  | _, [], _ => []
  | rb, c :: rest, after => lowerAt rb (rest ++ after) c ++ lowerCtx (c :: rb) rest after

theorem lowerCtx_nil (rb l : List Char) : lowerCtx rb l [] = lowerGo rb l := by
  induction l generalizing rb with
  | nil => rfl
  | cons c r ih => simp [lowerCtx, lowerGo, ih]

theorem lowerGo_append (rb p q : List Char) :
    lowerGo rb (p ++ q) = lowerCtx rb p q ++ lowerGo (p.reverse ++ rb) q := by
  induction p generalizing rb with
  | nil => simp [lowerCtx]
  | cons c p ih =>
    simp only [List.cons_append, lowerGo, lowerCtx, ih, List.reverse_cons, List.append_assoc,
      List.nil_append]

theorem sigma_is_key (c : Char) (h : c.toNat = 0x3A3) : lowerMap.lookup c.toNat ≠ none := by
  rw [h, lower_sigma]; simp

theorem lowerAt_sigma (rb after : List Char) (c : Char) (h : c.toNat = 0x3A3) :
    lowerAt rb after c =
      [if caseIgnorableThenCased rb && !caseIgnorableThenCased after then Char.ofNat 0x3C2
       else Char.ofNat 0x3C3] := by
  simp [lowerAt, h]

theorem lowerAt_not_sigma (rb after : List Char) (c : Char) (h : c.toNat ≠ 0x3A3) :
    lowerAt rb after c = lowerChar c := by
  simp [lowerAt, h]

theorem lowerAt_fixed (rb after : List Char) (c : Char) (h : lowerMap.lookup c.toNat = none) :
    lowerAt rb after c = [c] := by
  rw [lowerAt_not_sigma _ _ _ (fun e => sigma_is_key c e h)]
  exact mapChar_none h

theorem lowerAt_out_fixed (rb after : List Char) (c d : Char) (hd : d ∈ lowerAt rb after c) :
    lowerMap.lookup d.toNat = none := by
  by_cases h : c.toNat = 0x3A3
  · rw [lowerAt_sigma _ _ _ h] at hd
    simp only [List.mem_singleton] at hd
    split at hd
    · subst hd
      rw [toNat_ofNat_valid _ (by decide)]
      exact lower_final_sigma_fixed
    · subst hd
      rw [toNat_ofNat_valid _ (by decide)]
      exact lowerGood.target_not_key lower_sigma (by simp)
  · rw [lowerAt_not_sigma _ _ _ h] at hd
    exact lowerGood.out_fixed c d hd

theorem lowerAt_length (rb after : List Char) (c : Char) :
    1 ≤ (lowerAt rb after c).length ∧ (lowerAt rb after c).length ≤ 3 := by
  by_cases h : c.toNat = 0x3A3
  · rw [lowerAt_sigma _ _ _ h]; simp
  · rw [lowerAt_not_sigma _ _ _ h]; exact lowerGood.length_bounds c

theorem lowerAt_head_ne (rb after : List Char) (c : Char) (h : lowerMap.lookup c.toNat ≠ none) :
    ∃ a r, lowerAt rb after c = a :: r ∧ a ≠ c := by
  by_cases hs : c.toNat = 0x3A3
  · rw [lowerAt_sigma _ _ _ hs]
    refine ⟨_, [], rfl, ?_⟩
    intro e
    have := congrArg Char.toNat e
    rw [hs] at this
    split at this
    · rw [toNat_ofNat_valid _ (by decide)] at this; omega
    · rw [toNat_ofNat_valid _ (by decide)] at this; omega
  · rw [lowerAt_not_sigma _ _ _ hs]
    exact lowerGood.head_ne c h

theorem lowerGo_fixed (rb l : List Char) (h : ∀ c ∈ l, lowerMap.lookup c.toNat = none) :
    lowerGo rb l = l := by
  induction l generalizing rb with
  | nil => rfl
  | cons c r ih =>
    rw [lowerGo, lowerAt_fixed _ _ _ (h c (by simp)), ih _ (fun d hd => h d (by simp [hd]))]
    rfl

theorem lowerGo_out_fixed (rb l : List Char) (d : Char) (hd : d ∈ lowerGo rb l) :
    lowerMap.lookup d.toNat = none := by
  induction l generalizing rb with
  | nil => simp [lowerGo] at hd
  | cons c r ih =>
    rw [lowerGo, List.mem_append] at hd
    rcases hd with hd | hd
    · exact lowerAt_out_fixed _ _ _ _ hd
    · exact ih _ hd

theorem lowerGo_eq_self_iff (rb l : List Char) :
    lowerGo rb l = l ↔ ∀ c ∈ l, lowerMap.lookup c.toNat = none := by
  constructor
  · intro h
    induction l generalizing rb with
    | nil => simp
    | cons c r ih =>
      rw [lowerGo] at h
      by_cases hc : lowerMap.lookup c.toNat = none
      · rw [lowerAt_fixed _ _ _ hc] at h
        have h' : lowerGo (c :: rb) r = r := by simpa using h
        intro d hd
        rcases List.mem_cons.mp hd with rfl | hd
        · exact hc
        · exact ih _ h' d hd
      · obtain ⟨a, t, e, hne⟩ := lowerAt_head_ne rb r c hc
        rw [e] at h
        simp only [List.cons_append, List.cons.injEq] at h
        exact absurd h.1 hne
  · exact lowerGo_fixed rb l

theorem lowerGo_length (rb l : List Char) :
    l.length ≤ (lowerGo rb l).length ∧ (lowerGo rb l).length ≤ 3 * l.length := by
  induction l generalizing rb with
  | nil => simp [lowerGo]
  | cons c r ih =>
    have h1 := lowerAt_length rb r c
    have h2 := ih (c :: rb)
    simp only [lowerGo, List.length_append, List.length_cons]
    omega

theorem lowerGo_no_sigma (rb l : List Char) (h : ∀ c ∈ l, c.toNat ≠ 0x3A3) :
    lowerGo rb l = l.flatMap lowerChar := by
  induction l generalizing rb with
  | nil => rfl
  | cons c r ih =>
    rw [lowerGo, lowerAt_not_sigma _ _ _ (h c (by simp)), ih _ (fun d hd => h d (by simp [hd]))]
    rfl

/-! ### the link to UnicodeLower.lean (`isLowerText`, C20) -/

theorem asciiLowerChar_fixed_iff' (c : Char) :
    asciiLowerChar c = c ↔ ¬ (65 ≤ c.toNat ∧ c.toNat ≤ 90) := by
  unfold asciiLowerChar
  have hA : 'A'.toNat = 65 := by decide
  have hZ : 'Z'.toNat = 90 := by decide
  rw [hA, hZ]
  by_cases h : 65 ≤ c.toNat ∧ c.toNat ≤ 90
  · simp only [h, and_self, if_true, not_true, iff_false]
    intro he
    have h1 : (Char.ofNat (c.toNat + 32)).toNat = c.toNat + 32 :=
      toNat_ofNat_valid _ (by simp [validCp]; omega)
    rw [he] at h1
    omega
  · simp [h]

theorem lowerFixedChar_iff (c : Char) :
    lowerFixedChar c = true ↔ lowerMap.lookup c.toNat = none := by
  have hk := lower_key_iff c.toNat
  constructor
  · intro h
    apply lookup_none_of_not_key
    intro hkey
    have := hk.mp hkey
    simp only [lowerFixedChar, Bool.and_eq_true, beq_iff_eq, Bool.not_eq_true'] at h
    have h1 := (asciiLowerChar_fixed_iff' c).mp h.1
    simp only [inRanges, List.any_cons, Bool.or_eq_true, Bool.and_eq_true, decide_eq_true_eq] at this
    rcases this with h2 | h2
    · exact h1 h2
    · rw [h.2] at h2; cases h2
  · intro h
    have hnk : c.toNat ∉ keysOf lowerMap := by
      intro hkey
      have := lookup_isSome_iff_key.mpr hkey
      rw [h] at this
      cases this
    have hf : inRanges ((65, 90) :: notLowerRanges) c.toNat = false := by
      cases hv : inRanges ((65, 90) :: notLowerRanges) c.toNat with
      | false => rfl
      | true => exact absurd (hk.mpr hv) hnk
    simp only [inRanges, List.any_cons, Bool.or_eq_false_iff, Bool.and_eq_false_iff,
      decide_eq_false_iff_not] at hf
    simp only [lowerFixedChar, Bool.and_eq_true, beq_iff_eq, Bool.not_eq_true']
    refine ⟨(asciiLowerChar_fixed_iff' c).mpr ?_, hf.2⟩
    rintro ⟨h1, h2⟩
    rcases hf.1 with h3 | h3
    · exact h3 h1
    · exact h3 h2

end Duck.UCase
