/-
  Helper lemmas for C20 (command-line dispatch and the linter).
-/
import DuckModel.Cli

namespace Duck.Cli
open Duck Duck.Generated

/-! ### ASCII lower-casing -/

theorem toNat_ofNat_small (n : Nat) (h : n < 0xd800) : (Char.ofNat n).toNat = n := by
  have hv : n.isValidChar := Or.inl h
  simp [Char.ofNat, hv, Char.ofNatAux, Char.toNat]

theorem asciiLowerChar_fixed_iff (c : Char) :
    asciiLowerChar c = c ↔ ¬ (65 ≤ c.toNat ∧ c.toNat ≤ 90) := by
  unfold asciiLowerChar
  have hA : 'A'.toNat = 65 := by decide
  have hZ : 'Z'.toNat = 90 := by decide
  rw [hA, hZ]
  by_cases h : 65 ≤ c.toNat ∧ c.toNat ≤ 90
  · simp only [h, and_self, if_true, not_true, iff_false]
    intro he
    have h1 : (Char.ofNat (c.toNat + 32)).toNat = c.toNat + 32 := by
      exact toNat_ofNat_small _ (by omega)
    rw [he] at h1
    omega
  · simp [h]

theorem map_fixed_iff {α : Type} (f : α → α) (l : List α) :
    l.map f = l ↔ ∀ x ∈ l, f x = x := by
  induction l with
  | nil => simp
  | cons a t ih => simp [ih]

theorem asciiLower_fixed_iff (t : Str) :
    asciiLower t = t ↔ ∀ c ∈ t, ¬ (65 ≤ c.toNat ∧ c.toNat ≤ 90) := by
  unfold asciiLower
  rw [map_fixed_iff]
  constructor
  · intro h c hc; exact (asciiLowerChar_fixed_iff c).1 (h c hc)
  · intro h c hc; exact (asciiLowerChar_fixed_iff c).2 (h c hc)

/-! ### the linter -/

/-- a text is lower-case exactly when no character is an ASCII capital or one of the listed
    non-ASCII characters that `char::to_lowercase` changes -/
theorem isLowerText_iff (t : Str) :
    isLowerText t = true ↔ ∀ c ∈ t, ¬ (65 ≤ c.toNat ∧ c.toNat ≤ 90) ∧
      ∀ r ∈ notLowerRanges, ¬ (r.1 ≤ c.toNat ∧ c.toNat ≤ r.2) := by
  unfold isLowerText lowerFixedChar
  simp only [List.all_eq_true, Bool.and_eq_true, beq_iff_eq, Bool.not_eq_true', List.any_eq_false,
    decide_eq_true_eq, Bool.decide_and, Bool.decide_eq_true]
  constructor
  · intro h c hc
    obtain ⟨h1, h2⟩ := h c hc
    exact ⟨(asciiLowerChar_fixed_iff c).1 h1, fun r hr hh => h2 r hr (by simpa using hh)⟩
  · intro h c hc
    obtain ⟨h1, h2⟩ := h c hc
    exact ⟨(asciiLowerChar_fixed_iff c).2 h1, fun r hr hh => h2 r hr (by simpa using hh)⟩

theorem isLowerCase_iff (o : Option Str) :
    isLowerCase o = true ↔ ∀ t, o = some t → isLowerText t = true := by
  cases o with
  | none => simp [isLowerCase]
  | some t => simp [isLowerCase]

theorem lintInstruction_ok_iff (s : ScriptInstr) :
    lintInstruction s = .ok () ↔
      isLowerCase s.label = true ∧ isLowerCase s.command = true ∧ isLowerCase s.output = true := by
  unfold lintInstruction
  cases isLowerCase s.label <;> cases isLowerCase s.command <;> cases isLowerCase s.output <;> simp

theorem lintInstruction_error_iff (s : ScriptInstr) (m : LintMsg) :
    lintInstruction s = .error m ↔
      (m = .label ∧ isLowerCase s.label = false) ∨
      (m = .command ∧ isLowerCase s.label = true ∧ isLowerCase s.command = false) ∨
      (m = .output ∧ isLowerCase s.label = true ∧ isLowerCase s.command = true ∧
        isLowerCase s.output = false) := by
  unfold lintInstruction
  cases isLowerCase s.label <;> cases isLowerCase s.command <;> cases isLowerCase s.output <;>
    cases m <;> simp

theorem lintOne_cases (i : Instruction) : lintOne i = .ok () ∨ ∃ m, lintOne i = .error m := by
  cases h : lintOne i with
  | ok u => left; rfl
  | error m => right; exact ⟨m, rfl⟩

theorem lintInstructions_ok_iff (is : List Instruction) :
    lintInstructions is = .ok () ↔ ∀ i ∈ is, lintOne i = .ok () := by
  induction is with
  | nil => simp [lintInstructions]
  | cons i rest ih =>
    rcases lintOne_cases i with h | ⟨m, h⟩
    · simp [lintInstructions, h, ih]
    · simp [lintInstructions, h]

theorem lintInstructions_error_iff (is : List Instruction) (mi : Meta) (m : LintMsg) :
    lintInstructions is = .error (mi, m) ↔
      ∃ pre i post, is = pre ++ i :: post ∧ (∀ j ∈ pre, lintOne j = .ok ()) ∧
        lintOne i = .error m ∧ i.mi = mi := by
  induction is with
  | nil => simp [lintInstructions]
  | cons a rest ih =>
    rcases lintOne_cases a with h | ⟨m', h⟩
    · simp only [lintInstructions, h, ih]
      constructor
      · rintro ⟨pre, i, post, e, hp, hi, hm⟩
        refine ⟨a :: pre, i, post, by simp [e], ?_, hi, hm⟩
        intro j hj
        rcases List.mem_cons.1 hj with rfl | hj
        · exact h
        · exact hp j hj
      · rintro ⟨pre, i, post, e, hp, hi, hm⟩
        cases pre with
        | nil =>
          simp only [List.nil_append, List.cons.injEq] at e
          rw [← e.1, h] at hi; cases hi
        | cons b pre' =>
          simp only [List.cons_append, List.cons.injEq] at e
          exact ⟨pre', i, post, e.2, fun j hj => hp j (List.mem_cons_of_mem _ hj), hi, hm⟩
    · simp only [lintInstructions, h]
      constructor
      · intro e
        simp only [Except.error.injEq, Prod.mk.injEq] at e
        exact ⟨[], a, rest, rfl, by simp, by rw [h, e.2], e.1⟩
      · rintro ⟨pre, i, post, e, hp, hi, hm⟩
        cases pre with
        | nil =>
          simp only [List.nil_append, List.cons.injEq] at e
          rw [← e.1, h] at hi
          simp only [Except.error.injEq] at hi
          rw [← e.1] at hm
          rw [hi, hm]
        | cons b pre' =>
          simp only [List.cons_append, List.cons.injEq] at e
          have := hp b (by simp)
          rw [← e.1, h] at this; cases this

/-- an instruction with its arguments forgotten -/
def eraseArgs (i : Instruction) : Instruction :=
  match i.ty with
  | .script s => { i with ty := .script { s with args := none } }
  | .preProcess c _ => { i with ty := .preProcess c none }
  | .empty => i

theorem lintOne_eraseArgs (i : Instruction) : lintOne (eraseArgs i) = lintOne i := by
  rcases i with ⟨mi, ty⟩
  cases ty <;> rfl

theorem eraseArgs_mi (i : Instruction) : (eraseArgs i).mi = i.mi := by
  rcases i with ⟨mi, ty⟩
  cases ty <;> rfl

theorem lintInstructions_eraseArgs (is : List Instruction) :
    lintInstructions (is.map eraseArgs) = lintInstructions is := by
  induction is with
  | nil => rfl
  | cons i rest ih =>
    simp only [List.map_cons, lintInstructions, lintOne_eraseArgs, eraseArgs_mi, ih]

theorem lintParsed_ok_iff (parsed : Except ParseFail (List Instruction)) :
    lintParsed parsed = .ok ↔ ∃ is, parsed = .ok is ∧ lintInstructions is = .ok () := by
  cases parsed with
  | error e => simp [lintParsed]
  | ok is =>
    simp only [lintParsed, Except.ok.injEq, exists_eq_left']
    cases h : lintInstructions is with
    | ok u => simp
    | error p => rcases p with ⟨mi, m⟩; simp

end Duck.Cli
