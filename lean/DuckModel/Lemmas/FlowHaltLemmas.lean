/-
  Helper lemmas for Props/C13Flow.lean: the halt flag raised from inside a script
  (Sdk/FlowHalt.lean).

  * the emit trace, `seenL` / `HaltLastL` on bare traces;
  * `CmdUses`: ONE case analysis of `runCmd` saying how an invocation uses the nested evaluator
    and the dispatcher one level down (not at all / exactly one nested evaluation started on the
    trace as it was / it IS one invocation one level down); `evalCondition_uses` likewise;
  * three properties transported along it, level by level (`runCmdF`, `runInstruction`,
    `evalInstrsH.go`, `evalInstrsH`, `runOnError`, `runStep`, `runLoop`):
      - `…_mono`      the trace only grows,
      - `…_haltLast`  `__halt__` stays the last entry,
      - `…_agree`     with the flag still down at the end, the poll-free evaluator did the same;
  * the statements Props/C13Flow.lean uses, at the end.
-/
import DuckModel.Sdk.FlowHalt
import DuckModel.Lemmas.RunnerLemmas
import DuckModel.Lemmas.SimLemmas

set_option linter.unusedSimpArgs false

namespace Duck

/-! ### the trace -/

/-- the flag, on a bare trace -/
def seenL (l : List (List Str)) : Bool := l.any (fun x => x == haltWord)

/-- `__halt__` is followed by nothing, on a bare trace -/
def HaltLastL (l : List (List Str)) : Prop :=
  ∀ (pre post : List (List Str)), l = pre ++ haltWord :: post → post = []

theorem haltSeen_eq (s : Sdk) : haltSeen s = seenL s.emitted := rfl

theorem seenL_append (a b : List (List Str)) : seenL (a ++ b) = (seenL a || seenL b) := by
  simp [seenL, List.any_append]

theorem seenL_mid (pre post : List (List Str)) : seenL (pre ++ haltWord :: post) = true := by
  simp [seenL]

theorem haltLastL_of_not_seen (l : List (List Str)) (h : seenL l = false) : HaltLastL l := by
  intro pre post hl
  rw [hl, seenL_mid] at h
  cases h

theorem haltLastL_snoc (l : List (List Str)) (a : List Str) (h : seenL l = false) :
    HaltLastL (l ++ [a]) := by
  intro pre post hl
  rcases List.eq_nil_or_concat post with hp | ⟨post', b, hp⟩
  · exact hp
  · exfalso
    subst hp
    have h2 : l ++ [a] = (pre ++ haltWord :: post') ++ [b] := by
      rw [hl]; simp
    have h3 := (List.append_inj' h2 rfl).1
    rw [h3, seenL_mid] at h
    cases h

/-! ### how `evalCondition` uses the nested evaluator: at most one call, on the state it got -/

theorem evalCondition_uses (nested : EvalFn) (is : List Instruction) (args : List Str) (vars : Vars)
    (s : Sdk) :
    ((evalCondition nested is args vars s).2.2 = s ∧
      ∀ nested' : EvalFn, evalCondition nested' is args vars s = evalCondition nested is args vars s) ∨
    (∃ (is' : List Instruction) (line' : Nat),
      (evalCondition nested is args vars s).2.2 = (nested is' line' vars s).2.2.2 ∧
      ∀ nested' : EvalFn, nested' is' line' vars s = nested is' line' vars s →
        evalCondition nested' is args vars s = evalCondition nested is args vars s) := by
  cases args with
  | nil => left; exact ⟨rfl, fun _ => rfl⟩
  | cons first rest =>
    by_cases hr : (resolveCmd s first).isSome = true
    · cases hp : evalParse (first :: rest) with
      | none =>
        left
        refine ⟨?_, fun _ => ?_⟩ <;> simp only [evalCondition, hr, if_true, hp]
      | some instr =>
        right
        refine ⟨is ++ [instr], (is ++ [instr]).length - 1, ?_, ?_⟩
        · simp only [evalCondition, hr, if_true, hp]
          rcases hn : nested (is ++ [instr]) ((is ++ [instr]).length - 1) vars s with ⟨r, o, v', s'⟩
          cases r with
          | none => rfl
          | some r => cases r <;> rfl
        · intro nested' h'
          simp only [evalCondition, hr, if_true, hp, h']
    · left
      refine ⟨?_, fun _ => ?_⟩
      · simp only [evalCondition, hr, Bool.false_eq_true, if_false]
        split <;> rfl
      · simp only [evalCondition, hr, Bool.false_eq_true, if_false]

abbrev EndRec := Cmd → List Str → Option Str → Nat → Vars → Sdk → CmdResult × Vars × Sdk

/-- how one command invocation `f nested endRec` uses its two parameters -/
def CmdUses (nested : EvalFn) (endRec : EndRec) (s : Sdk) (args : List Str) (line : Nat) (vars : Vars)
    (f : EvalFn → EndRec → CmdResult × Vars × Sdk) : Prop :=
  -- (A) not at all; the trace is untouched or (`emit`) gets the arguments appended
  ((((f nested endRec).2.2.emitted = s.emitted ∨ (f nested endRec).2.2.emitted = s.emitted ++ [args]) ∧
      ∀ n' e', f n' e' = f nested endRec)) ∨
  -- (B) exactly one nested evaluation, started on the trace as it was, whose trace is the result's
  (∃ (is' : List Instruction) (line' : Nat) (vars' : Vars) (s1 : Sdk), s1.emitted = s.emitted ∧
      (f nested endRec).2.2.emitted = (nested is' line' vars' s1).2.2.2.emitted ∧
      ∀ n' e', n' is' line' vars' s1 = nested is' line' vars' s1 → f n' e' = f nested endRec) ∨
  -- (C) the generic `end`: the invocation IS one invocation one level down, on the same state
  (∃ c' : Cmd, ∀ n' e', f n' e' = e' c' [] none line vars s)

theorem cmdUses_of_cond (nested : EvalFn) (endRec : EndRec) (s : Sdk) (args : List Str) (line : Nat)
    (vars : Vars) (f : EvalFn → EndRec → CmdResult × Vars × Sdk)
    (is : List Instruction) (cargs : List Str) (cvars : Vars) (s1 : Sdk)
    (hs1 : s1.emitted = s.emitted)
    (hem : (f nested endRec).2.2.emitted = (evalCondition nested is cargs cvars s1).2.2.emitted)
    (hind : ∀ n' e', evalCondition n' is cargs cvars s1 = evalCondition nested is cargs cvars s1 →
      f n' e' = f nested endRec) :
    CmdUses nested endRec s args line vars f := by
  rcases evalCondition_uses nested is cargs cvars s1 with ⟨hs, hi⟩ | ⟨is', line', hs, hi⟩
  · left
    exact ⟨Or.inl (by rw [hem, hs, hs1]), fun n' e' => hind n' e' (hi n')⟩
  · right; left
    exact ⟨is', line', cvars, s1, hs1, by rw [hem, hs], fun n' e' h' => hind n' e' (hi n' h')⟩

theorem ifMetaFor_emitted (is : List Instruction) (s : Sdk) (line : Nat) (m : Nat × List Nat) (s1 : Sdk)
    (h : ifMetaFor is s line = .ok (m, s1)) : s1.emitted = s.emitted := by
  unfold ifMetaFor at h
  dsimp only at h
  repeat' split at h
  all_goals (cases h <;> rfl)

theorem whileMetaFor_emitted (is : List Instruction) (s : Sdk) (line : Nat) (m : Nat) (s1 : Sdk)
    (h : whileMetaFor is s line = .ok (m, s1)) : s1.emitted = s.emitted := by
  unfold whileMetaFor at h
  dsimp only at h
  repeat' split at h
  all_goals (cases h <;> rfl)

theorem forMetaFor_emitted (is : List Instruction) (s : Sdk) (line : Nat) (m : Nat) (s1 : Sdk)
    (h : forMetaFor is s line = .ok (m, s1)) : s1.emitted = s.emitted := by
  unfold forMetaFor at h
  dsimp only at h
  repeat' split at h
  all_goals (cases h <;> rfl)

theorem scopePop_emitted (vars : Vars) (s : Sdk) (copy : List Str) (v' : Vars) (s' : Sdk)
    (h : scopePop vars s copy = some (v', s')) : s'.emitted = s.emitted := by
  unfold scopePop at h
  split at h
  · cases h
  · injection h with h; injection h with _ h; subst h; rfl

theorem runCmd_uses_ifC (nested : EvalFn) (endRec : EndRec) (is : List Instruction)
    (args : List Str) (out : Option Str) (line : Nat) (vars : Vars) (s : Sdk) :
    CmdUses nested endRec s args line vars (fun n e => runCmd n e is .ifC args out line vars s) := by
  by_cases ha : args.isEmpty = true
  · left; refine ⟨Or.inl ?_, fun _ _ => ?_⟩ <;> simp [runCmd, ha]
  · cases hm : ifMetaFor is s line with
    | error r => left; refine ⟨Or.inl ?_, fun _ _ => ?_⟩ <;> simp [runCmd, ha, hm]
    | ok ms =>
      obtain ⟨⟨stop, elses⟩, s1⟩ := ms
      refine cmdUses_of_cond nested endRec s args line vars _ is args vars s1
        (ifMetaFor_emitted is s line _ s1 hm) ?_ ?_
      · simp only [runCmd, ha, hm]
        rcases evalCondition nested is args vars s1 with ⟨r, v', s'⟩
        cases r with
        | error _ => rfl
        | ok p => cases p <;> cases elses <;> rfl
      · intro n' e' h'
        simp only [runCmd, ha, hm, h']

theorem runCmd_uses_whileC (nested : EvalFn) (endRec : EndRec) (is : List Instruction)
    (args : List Str) (out : Option Str) (line : Nat) (vars : Vars) (s : Sdk) :
    CmdUses nested endRec s args line vars (fun n e => runCmd n e is .whileC args out line vars s) := by
  by_cases ha : args.isEmpty = true
  · left; refine ⟨Or.inl ?_, fun _ _ => ?_⟩ <;> simp [runCmd, ha]
  · cases hm : whileMetaFor is s line with
    | error r => left; refine ⟨Or.inl ?_, fun _ _ => ?_⟩ <;> simp [runCmd, ha, hm]
    | ok ms =>
      obtain ⟨stop, s1⟩ := ms
      refine cmdUses_of_cond nested endRec s args line vars _ is args vars s1
        (whileMetaFor_emitted is s line _ s1 hm) ?_ ?_
      · simp only [runCmd, ha, hm]
        rcases evalCondition nested is args vars s1 with ⟨r, v', s'⟩
        cases r with
        | error _ => rfl
        | ok p => cases p <;> rfl
      · intro n' e' h'
        simp only [runCmd, ha, hm, h']

theorem runCmd_uses_notC (nested : EvalFn) (endRec : EndRec) (is : List Instruction)
    (args : List Str) (out : Option Str) (line : Nat) (vars : Vars) (s : Sdk) :
    CmdUses nested endRec s args line vars (fun n e => runCmd n e is .notC args out line vars s) := by
  by_cases ha : args.isEmpty = true
  · left; refine ⟨Or.inl ?_, fun _ _ => ?_⟩ <;> simp [runCmd, ha]
  · refine cmdUses_of_cond nested endRec s args line vars _ is args vars s rfl ?_ ?_
    · simp only [runCmd, ha]
      rcases evalCondition nested is args vars s with ⟨r, v', s'⟩
      cases r with
      | error _ => rfl
      | ok p => rfl
    · intro n' e' h'
      simp only [runCmd, ha, h']

theorem runCmd_uses_elseIf (nested : EvalFn) (endRec : EndRec) (is : List Instruction)
    (args : List Str) (out : Option Str) (line : Nat) (vars : Vars) (s : Sdk) :
    CmdUses nested endRec s args line vars (fun n e => runCmd n e is .elseIf args out line vars s) := by
  by_cases ha : args.isEmpty = true
  · left; refine ⟨Or.inl ?_, fun _ _ => ?_⟩ <;> simp [runCmd, ha]
  · cases hp : popIf line s.lineCtx s.ifStack with
    | none => left; refine ⟨Or.inl ?_, fun _ _ => ?_⟩ <;> simp [runCmd, ha, hp]
    | some cr =>
      obtain ⟨ci, rest⟩ := cr
      by_cases hpass : ci.passed = true
      · left; refine ⟨Or.inl ?_, fun _ _ => ?_⟩ <;> simp [runCmd, ha, hp, hpass]
      · refine cmdUses_of_cond nested endRec s args line vars _ is args vars { s with ifStack := rest }
          rfl ?_ ?_
        · simp only [runCmd, ha, hp, hpass]
          rcases evalCondition nested is args vars { s with ifStack := rest } with ⟨r, v', s'⟩
          cases r with
          | error _ => rfl
          | ok p =>
            cases p
            · by_cases hlt : ci.elseIdx + 1 < ci.elses.length <;> simp [hlt]
            · rfl
        · intro n' e' h'
          simp only [runCmd, ha, hp, hpass, h']

/-- `runCmd` branches that never look at `nested` / `endRec` and leave the trace alone -/
theorem cmdUses_plain (nested : EvalFn) (endRec : EndRec) (s : Sdk) (args : List Str) (line : Nat)
    (vars : Vars) (r : CmdResult × Vars × Sdk) (h : r.2.2.emitted = s.emitted) :
    CmdUses nested endRec s args line vars (fun _ _ => r) :=
  Or.inl ⟨Or.inl h, fun _ _ => rfl⟩

theorem runCmd_uses (nested : EvalFn) (endRec : EndRec) (is : List Instruction) (c : Cmd)
    (args : List Str) (out : Option Str) (line : Nat) (vars : Vars) (s : Sdk) :
    CmdUses nested endRec s args line vars (fun n e => runCmd n e is c args out line vars s) := by
  cases c with
  | ifC => exact runCmd_uses_ifC nested endRec is args out line vars s
  | elseIf => exact runCmd_uses_elseIf nested endRec is args out line vars s
  | whileC => exact runCmd_uses_whileC nested endRec is args out line vars s
  | notC => exact runCmd_uses_notC nested endRec is args out line vars s
  | emit => exact Or.inl ⟨Or.inr rfl, fun _ _ => rfl⟩
  | endC =>
    cases hg : s.endTable.get (lineKey s line) with
    | none => left; refine ⟨Or.inl ?_, fun _ _ => ?_⟩ <;> simp [runCmd, hg]
    | some name =>
      cases hr : resolveCmd s name with
      | none => left; refine ⟨Or.inl ?_, fun _ _ => ?_⟩ <;> simp [runCmd, hg, hr]
      | some c' => right; right; exact ⟨c', fun n' e' => by simp [runCmd, hg, hr]⟩
  | elseC =>
    refine cmdUses_plain nested endRec s args line vars _ ?_
    repeat' split
    all_goals rfl
  | endIf => exact cmdUses_plain nested endRec s args line vars _ rfl
  | endWhile =>
    refine cmdUses_plain nested endRec s args line vars _ ?_
    repeat' split
    all_goals rfl
  | forIn =>
    refine cmdUses_plain nested endRec s args line vars _ ?_
    split
    · split
      · rfl
      · rcases hpf : popFor line s.lineCtx false s.forStack with ⟨found, stack'⟩
        cases found with
        | some ci => dsimp only; split <;> rfl
        | none =>
          dsimp only
          cases hm : forMetaFor is { s with forStack := stack' } line with
          | error r => rfl
          | ok ms =>
            obtain ⟨stop, s1⟩ := ms
            have := forMetaFor_emitted is _ line stop s1 hm
            dsimp only
            split <;> exact this
    · rfl
  | endFor =>
    refine cmdUses_plain nested endRec s args line vars _ ?_
    repeat' split
    all_goals rfl
  | function =>
    refine cmdUses_plain nested endRec s args line vars _ ?_
    repeat' split
    all_goals rfl
  | endFunction =>
    refine cmdUses_plain nested endRec s args line vars _ ?_
    split
    · rfl
    · split
      · dsimp only
        split
        · split
          · rfl
          · rename_i h; exact (scopePop_emitted _ _ _ _ _ h).trans rfl
        · rfl
      · rfl
  | returnC =>
    refine cmdUses_plain nested endRec s args line vars _ ?_
    split
    · rfl
    · split
      · dsimp only
        split
        · split
          · rfl
          · rename_i h; exact (scopePop_emitted _ _ _ _ _ h).trans rfl
        · rfl
      · rfl
  | call name =>
    refine cmdUses_plain nested endRec s args line vars _ ?_
    split
    · rfl
    · rename_i fi _
      cases fi.isScoped <;> rfl
  | set =>
    refine cmdUses_plain nested endRec s args line vars _ ?_
    repeat' split
    all_goals rfl
  | equals =>
    refine cmdUses_plain nested endRec s args line vars _ ?_
    repeat' split
    all_goals rfl
  | array => exact cmdUses_plain nested endRec s args line vars _ rfl
  | range =>
    refine cmdUses_plain nested endRec s args line vars _ ?_
    repeat' split
    all_goals rfl
  | inc =>
    refine cmdUses_plain nested endRec s args line vars _ ?_
    repeat' split
    all_goals rfl
  | lt =>
    refine cmdUses_plain nested endRec s args line vars _ ?_
    repeat' split
    all_goals rfl

/-! ### three properties of evaluators and dispatchers, and how `CmdUses` transports them -/

theorem seenL_of_prefix {a b : List (List Str)} (h : a <+: b) (ha : seenL a = true) : seenL b = true := by
  obtain ⟨t, rfl⟩ := h
  rw [seenL_append, ha]; rfl

theorem not_seenL_of_prefix {a b : List (List Str)} (h : a <+: b) (hb : seenL b = false) :
    seenL a = false := by
  cases ha : seenL a with
  | false => rfl
  | true => rw [seenL_of_prefix h ha] at hb; cases hb

/-- the trace only grows -/
def EvalMono (nested : EvalFn) : Prop :=
  ∀ is line vars s, s.emitted <+: (nested is line vars s).2.2.2.emitted
def EndMono (e : EndRec) : Prop :=
  ∀ c args out line vars s, s.emitted <+: (e c args out line vars s).2.2.emitted

/-- `__halt__` stays last -/
def EvalHL (nested : EvalFn) : Prop :=
  ∀ is line vars s, HaltLastL s.emitted → HaltLastL (nested is line vars s).2.2.2.emitted
def EndHL (e : EndRec) : Prop :=
  ∀ c args out line vars s, seenL s.emitted = false → HaltLastL (e c args out line vars s).2.2.emitted

/-- `nF` does what `nH` does whenever `nH` ends with the flag still down -/
def EvalAgree (nH nF : EvalFn) : Prop :=
  ∀ is line vars s, seenL (nH is line vars s).2.2.2.emitted = false → nF is line vars s = nH is line vars s
def EndAgree (eH eF : EndRec) : Prop :=
  ∀ c args out line vars s, seenL (eH c args out line vars s).2.2.emitted = false →
    eF c args out line vars s = eH c args out line vars s

theorem cmdUses_mono {nested : EvalFn} {endRec : EndRec} {s : Sdk} {args : List Str} {line : Nat}
    {vars : Vars} {f : EvalFn → EndRec → CmdResult × Vars × Sdk}
    (hu : CmdUses nested endRec s args line vars f) (hn : EvalMono nested) (he : EndMono endRec) :
    s.emitted <+: (f nested endRec).2.2.emitted := by
  rcases hu with ⟨h | h, _⟩ | ⟨is', line', vars', s1, hs1, hem, _⟩ | ⟨c', hc⟩
  · rw [h]; exact List.prefix_refl _
  · rw [h]; exact List.prefix_append _ _
  · rw [hem, ← hs1]; exact hn is' line' vars' s1
  · rw [hc]; exact he c' [] none line vars s

theorem cmdUses_haltLast {nested : EvalFn} {endRec : EndRec} {s : Sdk} {args : List Str} {line : Nat}
    {vars : Vars} {f : EvalFn → EndRec → CmdResult × Vars × Sdk}
    (hu : CmdUses nested endRec s args line vars f) (hn : EvalHL nested) (he : EndHL endRec)
    (hs : seenL s.emitted = false) :
    HaltLastL (f nested endRec).2.2.emitted := by
  rcases hu with ⟨h | h, _⟩ | ⟨is', line', vars', s1, hs1, hem, _⟩ | ⟨c', hc⟩
  · rw [h]; exact haltLastL_of_not_seen _ hs
  · rw [h]; exact haltLastL_snoc _ _ hs
  · rw [hem]
    exact hn is' line' vars' s1 (haltLastL_of_not_seen _ (by rw [hs1]; exact hs))
  · rw [hc]; exact he c' [] none line vars s hs

theorem cmdUses_agree {nH nF : EvalFn} {eH eF : EndRec} {s : Sdk} {args : List Str} {line : Nat}
    {vars : Vars} {f : EvalFn → EndRec → CmdResult × Vars × Sdk}
    (hu : CmdUses nH eH s args line vars f) (hn : EvalAgree nH nF) (he : EndAgree eH eF)
    (h : seenL (f nH eH).2.2.emitted = false) :
    f nF eF = f nH eH := by
  rcases hu with ⟨_, hi⟩ | ⟨is', line', vars', s1, hs1, hem, hi⟩ | ⟨c', hc⟩
  · exact hi nF eF
  · exact hi nF eF (hn is' line' vars' s1 (by rw [← hem]; exact h))
  · rw [hc nF eF, hc nH eH]
    exact he c' [] none line vars s (by rw [← hc nH eH]; exact h)

/-! ### the dispatcher with fuel -/

theorem runCmdF_mono (nested : EvalFn) (is : List Instruction) (hn : EvalMono nested) (n : Nat) :
    EndMono (runCmdF nested is n) := by
  induction n with
  | zero => intro c args out line vars s; exact List.prefix_refl _
  | succ n ih =>
    intro c args out line vars s
    exact cmdUses_mono (runCmd_uses nested (runCmdF nested is n) is c args out line vars s) hn ih

theorem runCmdF_haltLast (nested : EvalFn) (is : List Instruction) (hn : EvalHL nested) (n : Nat) :
    EndHL (runCmdF nested is n) := by
  induction n with
  | zero => intro c args out line vars s hs; exact haltLastL_of_not_seen _ hs
  | succ n ih =>
    intro c args out line vars s hs
    exact cmdUses_haltLast (runCmd_uses nested (runCmdF nested is n) is c args out line vars s) hn ih hs

theorem runCmdF_agree (nH nF : EvalFn) (is : List Instruction) (hn : EvalAgree nH nF) (n : Nat) :
    EndAgree (runCmdF nH is n) (runCmdF nF is n) := by
  induction n with
  | zero => intro c args out line vars s _; rfl
  | succ n ih =>
    intro c args out line vars s h
    exact cmdUses_agree (runCmd_uses nH (runCmdF nH is n) is c args out line vars s) hn ih h

/-! ### one instruction (`run_instruction` over `sdkSem`) -/

theorem runInstruction_mono (nested : EvalFn) (is : List Instruction) (hn : EvalMono nested)
    (vars : Vars) (s : Sdk) (instr : Instruction) (line : Nat) :
    s.emitted <+: (runInstruction (sdkSem nested is) vars s instr line).2.2.2.emitted := by
  unfold runInstruction
  split
  · exact List.prefix_refl _
  · exact List.prefix_refl _
  · split
    · exact List.prefix_refl _
    · rename_i si _ c _
      unfold sdkSem
      cases resolveCmd s c with
      | none => exact List.prefix_refl _
      | some cmd => exact runCmdF_mono nested is hn 3 cmd _ _ _ _ s

theorem runInstruction_haltLast (nested : EvalFn) (is : List Instruction) (hn : EvalHL nested)
    (vars : Vars) (s : Sdk) (instr : Instruction) (line : Nat) (hs : seenL s.emitted = false) :
    HaltLastL (runInstruction (sdkSem nested is) vars s instr line).2.2.2.emitted := by
  unfold runInstruction
  split
  · exact haltLastL_of_not_seen _ hs
  · exact haltLastL_of_not_seen _ hs
  · split
    · exact haltLastL_of_not_seen _ hs
    · rename_i si _ c _
      unfold sdkSem
      cases resolveCmd s c with
      | none => exact haltLastL_of_not_seen _ hs
      | some cmd => exact runCmdF_haltLast nested is hn 3 cmd _ _ _ _ s hs

theorem runInstruction_agree (nH nF : EvalFn) (is : List Instruction) (hn : EvalAgree nH nF)
    (vars : Vars) (s : Sdk) (instr : Instruction) (line : Nat)
    (h : seenL (runInstruction (sdkSem nH is) vars s instr line).2.2.2.emitted = false) :
    runInstruction (sdkSem nF is) vars s instr line = runInstruction (sdkSem nH is) vars s instr line := by
  unfold runInstruction at h ⊢
  split
  · rfl
  · rfl
  · rename_i si hty
    simp only [hty] at h
    split
    · rfl
    · rename_i c hc
      simp only [hc] at h
      unfold sdkSem at h ⊢
      cases hr : resolveCmd s c with
      | none => rfl
      | some cmd =>
        simp only [hr] at h ⊢
        rw [runCmdF_agree nH nF is hn 3 cmd _ _ _ _ s h]

/-! ### the nested evaluator with its poll -/

theorem goH_seen (fuel : Nat) (nested : EvalFn) (n : Nat) (is : List Instruction) (line : Nat)
    (vars : Vars) (s : Sdk) (flowOut : Option Str) (h : haltSeen s = true) :
    evalInstrsH.go fuel nested (n + 1) is line vars s flowOut = (none, flowOut, vars, s) := by
  simp only [evalInstrsH.go, h, if_true]

theorem goH_mono (fuel : Nat) (nested : EvalFn) (hn : EvalMono nested) (n : Nat) :
    ∀ (is : List Instruction) (line : Nat) (vars : Vars) (s : Sdk) (flowOut : Option Str),
      s.emitted <+: (evalInstrsH.go fuel nested n is line vars s flowOut).2.2.2.emitted := by
  induction n with
  | zero => intro is line vars s flowOut; exact List.prefix_refl _
  | succ n ih =>
    intro is line vars s flowOut
    unfold evalInstrsH.go
    split
    · exact List.prefix_refl _
    · split
      · exact List.prefix_refl _
      · rename_i instr _
        split
        · rename_i si hty
          have h1 := runInstruction_mono nested is hn vars s instr line
          rcases hri : runInstruction (sdkSem nested is) vars s instr line with ⟨r, o, v1, s1⟩
          rw [hri] at h1
          dsimp only at h1 ⊢
          cases r with
          | exit v => exact h1
          | error e => exact h1
          | crash e => exact h1
          | goTo v g =>
            cases g with
            | label l => exact h1
            | line l => exact List.IsPrefix.trans h1 (ih is l v1 s1 v)
          | «continue» v => exact List.IsPrefix.trans h1 (ih is (line + 1) _ s1 v)
        · exact ih is (line + 1) vars s flowOut

theorem goH_haltLast (fuel : Nat) (nested : EvalFn) (hn : EvalHL nested) (n : Nat) :
    ∀ (is : List Instruction) (line : Nat) (vars : Vars) (s : Sdk) (flowOut : Option Str),
      HaltLastL s.emitted →
      HaltLastL (evalInstrsH.go fuel nested n is line vars s flowOut).2.2.2.emitted := by
  induction n with
  | zero => intro is line vars s flowOut hs; exact hs
  | succ n ih =>
    intro is line vars s flowOut hs
    unfold evalInstrsH.go
    split
    · exact hs
    · rename_i hseen
      have hseen' : seenL s.emitted = false := by
        cases hq : seenL s.emitted with
        | false => rfl
        | true => exact absurd hq hseen
      split
      · exact hs
      · rename_i instr _
        split
        · rename_i si hty
          have h1 := runInstruction_haltLast nested is hn vars s instr line hseen'
          rcases hri : runInstruction (sdkSem nested is) vars s instr line with ⟨r, o, v1, s1⟩
          rw [hri] at h1
          dsimp only at h1 ⊢
          cases r with
          | exit v => exact h1
          | error e => exact h1
          | crash e => exact h1
          | goTo v g =>
            cases g with
            | label l => exact h1
            | line l => exact ih is l v1 s1 v h1
          | «continue» v => exact ih is (line + 1) _ s1 v h1
        · exact ih is (line + 1) vars s flowOut hs

theorem go_agree (fuel : Nat) (nH nF : EvalFn) (hm : EvalMono nH) (hn : EvalAgree nH nF) (n : Nat) :
    ∀ (is : List Instruction) (line : Nat) (vars : Vars) (s : Sdk) (flowOut : Option Str),
      seenL (evalInstrsH.go fuel nH n is line vars s flowOut).2.2.2.emitted = false →
      evalInstrsF.go fuel nF n is line vars s flowOut =
        evalInstrsH.go fuel nH n is line vars s flowOut := by
  induction n with
  | zero => intro is line vars s flowOut _; rfl
  | succ n ih =>
    intro is line vars s flowOut h
    have hs : haltSeen s = false :=
      not_seenL_of_prefix (goH_mono fuel nH hm (n + 1) is line vars s flowOut) h
    unfold evalInstrsH.go at h ⊢
    unfold evalInstrsF.go
    simp only [hs, Bool.false_eq_true, if_false] at h ⊢
    cases hi : is[line]? with
    | none => rfl
    | some instr =>
      simp only [hi] at h ⊢
      cases hty : instr.ty with
      | script si =>
        simp only [hty] at h ⊢
        rcases hri : runInstruction (sdkSem nH is) vars s instr line with ⟨r, o, v1, s1⟩
        rw [hri] at h
        have key : seenL s1.emitted = false →
            runInstruction (sdkSem nF is) vars s instr line = (r, o, v1, s1) := by
          intro h1
          rw [← hri]
          exact runInstruction_agree nH nF is hn vars s instr line (by rw [hri]; exact h1)
        cases r with
        | exit v => rw [key h]
        | error e => rw [key h]
        | crash e => rw [key h]
        | goTo v g =>
          cases g with
          | label l => rw [key h]
          | line l =>
            dsimp only at h
            rw [key (not_seenL_of_prefix (goH_mono fuel nH hm n is l v1 s1 v) h)]
            exact ih is l v1 s1 v h
        | «continue» v =>
          dsimp only at h
          rw [key (not_seenL_of_prefix (goH_mono fuel nH hm n is (line + 1) _ s1 v) h)]
          exact ih is (line + 1) _ s1 v h
      | empty =>
        simp only [hty] at h ⊢
        exact ih is (line + 1) vars s flowOut h
      | preProcess a b =>
        simp only [hty] at h ⊢
        exact ih is (line + 1) vars s flowOut h

theorem evalInstrsH_mono (fuel : Nat) : EvalMono (evalInstrsH fuel) := by
  induction fuel with
  | zero => intro is line vars s; exact List.prefix_refl _
  | succ fuel ih =>
    intro is line vars s
    exact goH_mono fuel (evalInstrsH fuel) ih (fuel + 1) is line vars s none

theorem evalInstrsH_haltLast (fuel : Nat) : EvalHL (evalInstrsH fuel) := by
  induction fuel with
  | zero => intro is line vars s hs; exact hs
  | succ fuel ih =>
    intro is line vars s hs
    exact goH_haltLast fuel (evalInstrsH fuel) ih (fuel + 1) is line vars s none hs

theorem evalInstrs_agree (fuel : Nat) : EvalAgree (evalInstrsH fuel) (evalInstrsF fuel) := by
  induction fuel with
  | zero => intro is line vars s _; rfl
  | succ fuel ih =>
    intro is line vars s h
    exact go_agree fuel (evalInstrsH fuel) (evalInstrsF fuel) (evalInstrsH_mono fuel) ih (fuel + 1)
      is line vars s none h

theorem evalInstrsH_seen (fuel : Nat) (is : List Instruction) (line : Nat) (vars : Vars)
    (s : Sdk) (h : haltSeen s = true) :
    evalInstrsH (fuel + 1) is line vars s = (none, none, vars, s) :=
  goH_seen fuel (evalInstrsH fuel) fuel is line vars s none h

/-! ### `on_error` (the second invocation of an iteration, with no poll in between) -/

theorem resolve_onError (s : Sdk) :
    resolveCmd s onErrorName = none ∨ resolveCmd s onErrorName = some (.call onErrorName) := by
  rw [resolveCmd_eq, show resolveCmd {} onErrorName = none by decide]
  cases (s.fns.get onErrorName).isSome <;> simp

theorem runCmdF_call_emitted (nested : EvalFn) (is : List Instruction) (n : Nat) (name : Str)
    (args : List Str) (out : Option Str) (line : Nat) (vars : Vars) (s : Sdk) :
    (runCmdF nested is n (.call name) args out line vars s).2.2.emitted = s.emitted := by
  cases n with
  | zero => rfl
  | succ n =>
    show (runCmd nested (runCmdF nested is n) is (.call name) args out line vars s).2.2.emitted = _
    unfold runCmd
    dsimp only
    split
    · rfl
    · rename_i fi _
      cases fi.isScoped <;> rfl

/-- the error handler never touches the trace: `on_error` is no built-in of the model, at most a
    user function, and CALLING a function emits nothing (its body runs in later iterations) -/
theorem runOnError_emitted (nested : EvalFn) (is : List Instruction) (vars : Vars) (s : Sdk)
    (e : Str) (mi : Meta) :
    (runOnError (sdkSem nested is) vars s e mi).2.2.emitted = s.emitted := by
  unfold runOnError sdkSem
  rcases resolve_onError s with h | h
  · simp only [h]
  · simp only [h]
    have := runCmdF_call_emitted nested is 3 onErrorName
      [e, natToStr (mi.line.getD 0), mi.source.getD []] none 0 vars s
    rcases hr : runCmdF nested is 3 (.call onErrorName)
      [e, natToStr (mi.line.getD 0), mi.source.getD []] none 0 vars s with ⟨r, v', s'⟩
    rw [hr] at this
    cases r <;> exact this

theorem runOnError_agree (nH nF : EvalFn) (is : List Instruction) (hn : EvalAgree nH nF)
    (vars : Vars) (s : Sdk) (e : Str) (mi : Meta)
    (h : seenL (runOnError (sdkSem nH is) vars s e mi).2.2.emitted = false) :
    runOnError (sdkSem nF is) vars s e mi = runOnError (sdkSem nH is) vars s e mi := by
  rw [runOnError_emitted] at h
  unfold runOnError sdkSem
  cases hr : resolveCmd s onErrorName with
  | none => rfl
  | some c =>
    dsimp only
    rw [runCmdF_agree nH nF is hn 3 c _ _ _ _ s]
    rcases resolve_onError s with h' | h'
    · rw [h'] at hr; cases hr
    · rw [h'] at hr; cases hr
      rw [runCmdF_call_emitted]; exact h

/-! ### the top-level loop -/

/-- the SDK state a `runStep` hands on (to the next iteration or to the caller) -/
def stepSt {σ : Type} : RunState σ ⊕ (RunState σ × RunEnd) → σ
  | .inl rs => rs.st
  | .inr (rs, _) => rs.st

/-- where the state after one iteration comes from -/
theorem runStep_st_cases {σ : Type} (sem : CmdSem σ) (is : List Instruction)
    (labels : List (Str × Nat)) (halt : Nat → σ → Bool) (rs : RunState σ) :
    (stepSt (runStep sem is labels halt rs) = rs.st ∧
      (halt rs.polls rs.st = true ∨ is[rs.line]? = none)) ∨
    ∃ instr, is[rs.line]? = some instr ∧ halt rs.polls rs.st = false ∧
      (stepSt (runStep sem is labels halt rs) = (runInstruction sem rs.vars rs.st instr rs.line).2.2.2 ∨
       ∃ vars e, stepSt (runStep sem is labels halt rs) =
          (runOnError sem vars (runInstruction sem rs.vars rs.st instr rs.line).2.2.2 e instr.mi).2.2) := by
  unfold runStep
  cases hh : halt rs.polls rs.st with
  | true => left; exact ⟨rfl, Or.inl rfl⟩
  | false =>
    simp only [Bool.false_eq_true, if_false]
    cases hi : is[rs.line]? with
    | none => left; exact ⟨rfl, Or.inr rfl⟩
    | some instr =>
      right
      refine ⟨instr, by first | rfl | trivial, by first | rfl | trivial, ?_⟩
      dsimp only
      rcases runInstruction sem rs.vars rs.st instr rs.line with ⟨r, out, v, st⟩
      cases r with
      | exit v' =>
        left; dsimp only
        split
        · split <;> rfl
        · rfl
      | error e =>
        right
        refine ⟨Vars.updateOutput v out (some "false".toList), e, ?_⟩
        dsimp only
        rcases runOnError sem (Vars.updateOutput v out (some "false".toList)) st e instr.mi with ⟨m, v2, st2⟩
        cases m <;> rfl
      | crash e => left; rfl
      | «continue» v' => left; rfl
      | goTo v' g =>
        left
        cases g with
        | line n => rfl
        | label l =>
          dsimp only
          split <;> rfl

/-- `runStep` looks at the command semantics only through `runInstruction` and `runOnError` -/
theorem runStep_congr {σ : Type} (sem1 sem2 : CmdSem σ) (is : List Instruction)
    (labels : List (Str × Nat)) (halt : Nat → σ → Bool) (rs : RunState σ)
    (h1 : ∀ instr, is[rs.line]? = some instr →
      runInstruction sem1 rs.vars rs.st instr rs.line = runInstruction sem2 rs.vars rs.st instr rs.line)
    (h2 : ∀ instr e, is[rs.line]? = some instr →
      (runInstruction sem2 rs.vars rs.st instr rs.line).1 = .error e →
      ∀ vars, runOnError sem1 vars (runInstruction sem2 rs.vars rs.st instr rs.line).2.2.2 e instr.mi =
        runOnError sem2 vars (runInstruction sem2 rs.vars rs.st instr rs.line).2.2.2 e instr.mi) :
    runStep sem1 is labels halt rs = runStep sem2 is labels halt rs := by
  unfold runStep
  cases hh : halt rs.polls rs.st with
  | true => rfl
  | false =>
    simp only [Bool.false_eq_true, if_false]
    cases hi : is[rs.line]? with
    | none => rfl
    | some instr =>
      dsimp only
      rw [h1 instr hi]
      have h2' := h2 instr
      rcases hri : runInstruction sem2 rs.vars rs.st instr rs.line with ⟨r, out, v, st⟩
      rw [hri] at h2'
      cases r with
      | error e =>
        dsimp only
        rw [h2' e hi rfl]
      | _ => rfl

abbrev haltH : Nat → Sdk → Bool := fun _ s => haltSeen s

theorem runStep_mono (nested : EvalFn) (is : List Instruction) (hn : EvalMono nested)
    (labels : List (Str × Nat)) (halt : Nat → Sdk → Bool) (rs : RunState Sdk) :
    rs.st.emitted <+: (stepSt (runStep (sdkSem nested is) is labels halt rs)).emitted := by
  rcases runStep_st_cases (sdkSem nested is) is labels halt rs with ⟨h, _⟩ | ⟨instr, _, _, h | ⟨v, e, h⟩⟩
  · rw [h]; exact List.prefix_refl _
  · rw [h]; exact runInstruction_mono nested is hn _ _ _ _
  · rw [h, runOnError_emitted]; exact runInstruction_mono nested is hn _ _ _ _

theorem runStep_haltLast (nested : EvalFn) (is : List Instruction) (hn : EvalHL nested)
    (labels : List (Str × Nat)) (rs : RunState Sdk) (hs : HaltLastL rs.st.emitted) :
    HaltLastL (stepSt (runStep (sdkSem nested is) is labels haltH rs)).emitted := by
  rcases runStep_st_cases (sdkSem nested is) is labels haltH rs with ⟨h, _⟩ | ⟨instr, _, hh, h | ⟨v, e, h⟩⟩
  · rw [h]; exact hs
  · rw [h]; exact runInstruction_haltLast nested is hn _ _ _ _ hh
  · rw [h, runOnError_emitted]; exact runInstruction_haltLast nested is hn _ _ _ _ hh

theorem runStep_agree (nH nF : EvalFn) (is : List Instruction) (hm : EvalMono nH)
    (hn : EvalAgree nH nF) (labels : List (Str × Nat)) (rs : RunState Sdk)
    (h : seenL (stepSt (runStep (sdkSem nH is) is labels haltH rs)).emitted = false) :
    runStep (sdkSem nF is) is labels Spec.noHalt rs = runStep (sdkSem nH is) is labels haltH rs := by
  have hs : haltH rs.polls rs.st = false :=
    not_seenL_of_prefix (runStep_mono nH is hm labels haltH rs) h
  rw [runStep_halt_false (sdkSem nH is) is labels haltH rs hs] at h ⊢
  have key : ∀ instr, is[rs.line]? = some instr →
      seenL (runInstruction (sdkSem nH is) rs.vars rs.st instr rs.line).2.2.2.emitted = false := by
    intro instr hi
    rcases runStep_st_cases (sdkSem nH is) is labels Spec.noHalt rs with
      ⟨_, h0 | h0⟩ | ⟨instr', hi', _, h0 | ⟨v, e, h0⟩⟩
    · cases h0
    · rw [h0] at hi; cases hi
    · rw [hi] at hi'; cases hi'
      rw [h0] at h; exact h
    · rw [hi] at hi'; cases hi'
      rw [h0, runOnError_emitted] at h; exact h
  apply runStep_congr
  · intro instr hi
    exact runInstruction_agree nH nF is hn _ _ _ _ (key instr hi)
  · intro instr e hi _ vars
    apply runOnError_agree nH nF is hn
    rw [runOnError_emitted]
    exact key instr hi

/-- the flag never comes down during a run -/
theorem runLoop_mono (nested : EvalFn) (is : List Instruction) (hn : EvalMono nested)
    (labels : List (Str × Nat)) (halt : Nat → Sdk → Bool) (fuel : Nat) :
    ∀ rs : RunState Sdk,
      rs.st.emitted <+: (runLoop (sdkSem nested is) is labels halt fuel rs).1.st.emitted := by
  induction fuel with
  | zero => intro rs; exact List.prefix_refl _
  | succ fuel ih =>
    intro rs
    rw [runLoop_succ]
    have h1 := runStep_mono nested is hn labels halt rs
    cases hs : runStep (sdkSem nested is) is labels halt rs with
    | inl rs1 => rw [hs] at h1; exact List.IsPrefix.trans h1 (ih rs1)
    | inr r => rw [hs] at h1; exact h1

theorem runLoop_haltLast (nested : EvalFn) (is : List Instruction) (hn : EvalHL nested)
    (labels : List (Str × Nat)) (fuel : Nat) :
    ∀ rs : RunState Sdk, HaltLastL rs.st.emitted →
      HaltLastL (runLoop (sdkSem nested is) is labels haltH fuel rs).1.st.emitted := by
  induction fuel with
  | zero => intro rs h; exact h
  | succ fuel ih =>
    intro rs h
    rw [runLoop_succ]
    have h1 := runStep_haltLast nested is hn labels rs h
    cases hs : runStep (sdkSem nested is) is labels haltH rs with
    | inl rs1 => rw [hs] at h1; exact ih rs1 h1
    | inr r => rw [hs] at h1; exact h1

theorem runLoop_agree (nH nF : EvalFn) (is : List Instruction) (hm : EvalMono nH)
    (hn : EvalAgree nH nF) (labels : List (Str × Nat)) (fuel : Nat) :
    ∀ rs : RunState Sdk,
      seenL (runLoop (sdkSem nH is) is labels haltH fuel rs).1.st.emitted = false →
      runLoop (sdkSem nF is) is labels Spec.noHalt fuel rs = runLoop (sdkSem nH is) is labels haltH fuel rs := by
  induction fuel with
  | zero => intro rs _; rfl
  | succ fuel ih =>
    intro rs h
    rw [runLoop_succ] at h
    rw [runLoop_succ, runLoop_succ]
    cases hs : runStep (sdkSem nH is) is labels haltH rs with
    | inl rs1 =>
      rw [hs] at h
      dsimp only at h
      have hst : seenL (stepSt (runStep (sdkSem nH is) is labels haltH rs)).emitted = false := by
        rw [hs]
        exact not_seenL_of_prefix (runLoop_mono nH is hm labels haltH fuel rs1) h
      rw [runStep_agree nH nF is hm hn labels rs hst, hs]
      exact ih rs1 h
    | inr r =>
      rw [hs] at h
      dsimp only at h
      have hst : seenL (stepSt (runStep (sdkSem nH is) is labels haltH rs)).emitted = false := by
        rw [hs]; exact h
      rw [runStep_agree nH nF is hm hn labels rs hst, hs]

/-- an iteration that finds no instruction has polled the flag, seen it down, and hands back
    the state it polled -/
theorem runStep_reachedEnd {σ : Type} (sem : CmdSem σ) (is : List Instruction)
    (labels : List (Str × Nat)) (halt : Nat → σ → Bool) (rs rs' : RunState σ)
    (h : runStep sem is labels halt rs = .inr (rs', .reachedEnd)) :
    halt rs.polls rs'.st = false := by
  unfold runStep at h
  cases hh : halt rs.polls rs.st with
  | true => simp [hh] at h
  | false =>
    simp only [hh, Bool.false_eq_true, if_false] at h
    cases hi : is[rs.line]? with
    | none =>
      simp only [hi] at h
      injection h with h; injection h with h _; subst h; exact hh
    | some instr =>
      exfalso
      simp only [hi] at h
      repeat' split at h
      all_goals try (dsimp only at h; split at h)
      all_goals first
        | (simp at h; done)
        | (injection h with h; injection h with _ h; cases h)

theorem runLoop_reachedEnd {σ : Type} (sem : CmdSem σ) (is : List Instruction)
    (labels : List (Str × Nat)) (halt : Nat → σ → Bool) (fuel : Nat) :
    ∀ rs : RunState σ, (runLoop sem is labels halt fuel rs).2 = .reachedEnd →
      ∃ p, halt p (runLoop sem is labels halt fuel rs).1.st = false := by
  induction fuel with
  | zero => intro rs h; cases h
  | succ fuel ih =>
    intro rs h
    rw [runLoop_succ] at h ⊢
    cases hs : runStep sem is labels halt rs with
    | inl rs1 => rw [hs] at h; exact ih rs1 h
    | inr r =>
      obtain ⟨rs', e⟩ := r
      rw [hs] at h
      dsimp only at h
      subst h
      exact ⟨rs.polls, runStep_reachedEnd sem is labels halt rs rs' hs⟩

/-! ### what Props/C13Flow.lean uses -/

theorem flow_flag_stays_seen (fuel n : Nat) (is : List Instruction) (c : Cmd) (args : List Str)
    (out : Option Str) (line : Nat) (vars : Vars) (s : Sdk) (h : haltSeen s = true) :
    haltSeen (runCmdF (evalInstrsH fuel) is n c args out line vars s).2.2 = true :=
  seenL_of_prefix (runCmdF_mono _ is (evalInstrsH_mono fuel) n c args out line vars s) h

theorem flow_command_haltLast (fuel n : Nat) (is : List Instruction) (c : Cmd) (args : List Str)
    (out : Option Str) (line : Nat) (vars : Vars) (s : Sdk) (h0 : haltSeen s = false) :
    HaltLastL (runCmdF (evalInstrsH fuel) is n c args out line vars s).2.2.emitted :=
  runCmdF_haltLast _ is (evalInstrsH_haltLast fuel) n c args out line vars s h0

theorem interpRunH_haltLast (fuel : Nat) (is : List Instruction) (vars : Vars) (s0 : Sdk)
    (h0 : haltSeen s0 = false) : HaltLastL (interpRunH fuel is vars s0).1.st.emitted :=
  runLoop_haltLast (evalInstrsH fuel) is (evalInstrsH_haltLast fuel) (labelTable is) fuel
    { line := 0, polls := 0, vars := vars, st := s0 } (haltLastL_of_not_seen _ h0)

theorem interpRunH_reachedEnd_not_seen (fuel : Nat) (is : List Instruction) (vars : Vars) (s0 : Sdk)
    (hend : (interpRunH fuel is vars s0).2 = .reachedEnd) :
    haltSeen (interpRunH fuel is vars s0).1.st = false := by
  obtain ⟨_, hp⟩ := runLoop_reachedEnd (sdkSem (evalInstrsH fuel) is) is (labelTable is) haltH fuel
    { line := 0, polls := 0, vars := vars, st := s0 } hend
  exact hp

theorem interpRunH_agree (fuel : Nat) (is : List Instruction) (vars : Vars) (s0 : Sdk)
    (h : haltSeen (interpRunH fuel is vars s0).1.st = false) :
    interpRunH fuel is vars s0 = interpRun fuel is vars s0 :=
  (runLoop_agree (evalInstrsH fuel) (evalInstrsF fuel) is (evalInstrsH_mono fuel)
    (evalInstrs_agree fuel) (labelTable is) fuel { line := 0, polls := 0, vars := vars, st := s0 } h).symm

end Duck
