/-
  C17 — lemmas: `utf8Decode` is a left inverse of `utf8Encode` (all scalar values, all lengths).
-/
import DuckModel.Sdk.Utf8Decode
namespace Duck
theorem char_valid_nat (c : Char) : c.toNat < 0xd800 ∨ (0xdfff < c.toNat ∧ c.toNat < 0x110000) := c.valid

theorem utf8DecodeOne_encodeChar (c : Char) (rest : Bytes) :
    utf8DecodeOne (utf8EncodeChar c ++ rest) = some (c, rest) := by
  have hv := char_valid_nat c
  have hc : Char.ofNat c.toNat = c := Char.ofNat_toNat c
  generalize hn : c.toNat = n at hv hc
  unfold utf8EncodeChar
  simp only [hn]
  by_cases h1 : n < 0x80
  · simp [h1, utf8DecodeOne, hc]
  · rw [if_neg h1]
    by_cases h2 : n < 0x800
    · rw [if_pos h2]
      simp only [List.cons_append, List.nil_append, utf8DecodeOne]
      rw [if_neg (by omega), if_neg (by omega), if_pos (by omega)]
      have e : (0xC0 + n / 64 - 0xC0) * 64 + (0x80 + n % 64 - 0x80) = n := by omega
      simp only [e]
      have hcond : (isCont (0x80 + n % 64) && decide (0x80 ≤ n)) = true := by
        simp [isCont]; omega
      rw [if_pos hcond, hc]
    · rw [if_neg h2]
      by_cases h3 : n < 0x10000
      · rw [if_pos h3]
        simp only [List.cons_append, List.nil_append, utf8DecodeOne]
        rw [if_neg (by omega), if_neg (by omega), if_neg (by omega), if_pos (by omega)]
        have e : (0xE0 + n / 4096 - 0xE0) * 4096 + (0x80 + n / 64 % 64 - 0x80) * 64 + (0x80 + n % 64 - 0x80) = n := by omega
        simp only [e]
        have hcond : (isCont (0x80 + n / 64 % 64) && isCont (0x80 + n % 64) && decide (0x800 ≤ n) && validScalar n) = true := by
          simp [isCont, validScalar]; omega
        rw [if_pos hcond, hc]
      · rw [if_neg h3]
        simp only [List.cons_append, List.nil_append, utf8DecodeOne]
        rw [if_neg (by omega), if_neg (by omega), if_neg (by omega), if_neg (by omega), if_pos (by omega)]
        have e : (0xF0 + n / 262144 - 0xF0) * 262144 + (0x80 + n / 4096 % 64 - 0x80) * 4096 + (0x80 + n / 64 % 64 - 0x80) * 64 + (0x80 + n % 64 - 0x80) = n := by omega
        simp only [e]
        have hcond : (isCont (0x80 + n / 4096 % 64) && isCont (0x80 + n / 64 % 64) && isCont (0x80 + n % 64) && decide (0x10000 ≤ n) && decide (n < 0x110000)) = true := by
          simp [isCont]; omega
        rw [if_pos hcond, hc]

theorem utf8EncodeChar_ne_nil (c : Char) : ∃ b r, utf8EncodeChar c = b :: r := by
  unfold utf8EncodeChar
  simp only
  split
  · exact ⟨_, _, rfl⟩
  · split
    · exact ⟨_, _, rfl⟩
    · split <;> exact ⟨_, _, rfl⟩

theorem utf8DecodeLoop_encode (s : List Char) :
    ∀ fuel, (utf8Encode s).length ≤ fuel → utf8DecodeLoop fuel (utf8Encode s) = some s := by
  induction s with
  | nil => intro fuel _; cases fuel <;> simp [utf8Encode, utf8DecodeLoop]
  | cons c cs ih =>
    intro fuel hf
    have hsplit : utf8Encode (c :: cs) = utf8EncodeChar c ++ utf8Encode cs := by
      simp [utf8Encode]
    obtain ⟨b, r, hbr⟩ := utf8EncodeChar_ne_nil c
    have hone := utf8DecodeOne_encodeChar c (utf8Encode cs)
    rw [hsplit] at hf ⊢
    rw [hbr] at hf hone ⊢
    cases fuel with
    | zero => simp at hf
    | succ f =>
      simp only [List.cons_append] at hone hf ⊢
      simp only [utf8DecodeLoop, hone]
      have : (utf8Encode cs).length ≤ f := by
        simp only [List.length_cons, List.length_append] at hf; omega
      rw [ih f this]

theorem utf8_roundtrip (s : List Char) : utf8Decode (utf8Encode s) = some s :=
  utf8DecodeLoop_encode s _ (Nat.le_refl _)
end Duck
