/-
  Helper lemmas for Props/C07.lean (no panic / no hang of the modelled layer):
  * the condition evaluator never runs out of its nesting fuel,
  * the block scanner `findCommands` never runs out of its nesting fuel,
  * a file that includes itself exhausts EVERY include-depth fuel,
  * a list that contains its own handle exhausts EVERY `json_encode --collection` fuel.
-/
import DuckModel.Parser
import DuckModel.Includes
import DuckModel.Sdk.Condition
import DuckModel.Sdk.Flow
import DuckModel.Sdk.Encode
import DuckModel.Sdk.Strings
import DuckModel.Lemmas.ConditionLemmas
import DuckModel.Lemmas.IncludeLemmas

namespace Duck
open Duck.Generated

/-! ### condition evaluator: the fuel `args.length + 1` is never exhausted -/

theorem foldAtom_ne_fuel (st : CSt) (b : Bool) : foldAtom st b ≠ .err .fuel := by
  unfold foldAtom
  split <;> simp

theorem cStep_ne_fuel (ev : List Str → Except CondErr Bool) (st : CSt) (a : Str)
    (h : st.counter = 1 → ev st.block ≠ .error .fuel) : cStep ev st a ≠ .err .fuel := by
  unfold cStep
  split
  · simp
  · split
    · split
      · simp
      · split
        · rename_i h1
          have := h h1
          split
          · rename_i e he
            intro hc
            injection hc with hc
            subst hc
            exact this he
          · exact foldAtom_ne_fuel _ _
        · simp
    · split
      · simp
      · split
        · split
          · dsimp only
            split <;> simp
          · simp
        · split
          · split <;> simp
          · exact foldAtom_ne_fuel _ _

theorem cLoop_ne_fuel (ev : List Str → Except CondErr Bool) (m : Nat)
    (h : ∀ b : List Str, b.length < m → ev b ≠ .error .fuel) :
    ∀ (rest : List Str) (st : CSt), (st.counter = 0 → rest.length ≤ m) →
      (st.counter ≠ 0 → st.block.length + rest.length < m) →
      cLoop ev st rest ≠ .error .fuel := by
  intro rest
  induction rest with
  | nil =>
    intro st _ _
    simp only [cLoop]
    split
    · simp
    · split <;> simp
  | cons a rest ih =>
    intro st h0 h1
    have hstep : cStep ev st a ≠ .err .fuel := by
      apply cStep_ne_fuel
      intro hc
      apply h
      have := h1 (by omega)
      simp only [List.length_cons] at this
      omega
    rw [cLoop_cons]
    cases hs : cStep ev st a with
    | cont st' =>
      obtain ⟨i0, i1⟩ := cStep_inv ev m st st' a rest h0 h1 hs
      exact ih st' i0 i1
    | ret b => simp
    | err e =>
      intro hc
      injection hc with hc
      subst hc
      exact hstep hs

theorem evalSliceF_ne_fuel : ∀ (n : Nat) (args : List Str), args.length < n →
    evalSliceF n args ≠ .error .fuel := by
  intro n
  induction n with
  | zero => intro args h; omega
  | succ k ih =>
    intro args hlen
    rw [evalSliceF_succ]
    apply cLoop_ne_fuel _ k (fun b hb => ih b hb)
    · intro _; omega
    · intro hc; exact absurd rfl hc

/-! ### `find_commands`: the fuel `is.length + 1` is never exhausted -/

theorem fcLoop_ne_fuel (t : FlowTables) (is : List Instruction) (rec : Nat → Except FcErr Positions) :
    ∀ (n line skipTo delta : Nat) (middle : List Nat),
      (∀ l, line ≤ l → l < line + n → rec (l + 1) ≠ .error .fuel) →
      fcLoop t is rec n line skipTo delta middle ≠ .error .fuel := by
  intro n
  induction n with
  | zero => intro line skipTo delta middle _; simp [fcLoop]
  | succ n ih =>
    intro line skipTo delta middle h
    have hrest : ∀ l, line + 1 ≤ l → l < line + 1 + n → rec (l + 1) ≠ .error .fuel :=
      fun l h1 h2 => h l (by omega) (by omega)
    unfold fcLoop
    split
    · exact ih _ _ _ _ hrest
    · split
      · exact ih _ _ _ _ hrest
      · split
        · exact ih _ _ _ _ hrest
        · split
          · exact ih _ _ _ _ hrest
          · split
            · exact ih _ _ _ _ hrest
            · split
              · simp
              · split
                · split
                  · split
                    · exact ih _ _ _ _ hrest
                    · rename_i e he
                      intro hc
                      injection hc with hc
                      subst hc
                      exact h line (Nat.le_refl _) (by omega) he
                  · simp
                · exact ih _ _ _ _ hrest

theorem findCommandsF_ne_fuel (t : FlowTables) (is : List Instruction) :
    ∀ (fuel start : Nat), is.length - start < fuel →
      findCommandsF t is fuel start ≠ .error .fuel := by
  intro fuel
  induction fuel with
  | zero => intro start h; omega
  | succ fuel ih =>
    intro start h
    unfold findCommandsF
    split
    · simp
    · apply fcLoop_ne_fuel
      intro l h1 h2
      apply ih
      omega

/-! ### a file that includes itself -/

def selfPath : Str := "/a.ds".toList
def selfLine : Str := "!include_files /a.ds".toList

/-- an abstract file system with ONE file, whose only line includes the file itself -/
def selfFs : Fs := { read := fun p => if p = selfPath then some selfLine else none, resolve := fun _ a => a }

theorem selfFs_lines : lines selfLine = [selfLine] := by decide

theorem selfFs_parseLine :
    parseLine selfLine = .ok (.preProcess (some includeName) (some [selfPath])) := by
  have e : renderDirective [] [selfPath] = selfLine := by decide
  rw [← e]
  exact parseLine_renderDirective [] selfPath []

theorem selfFs_depth : ∀ n, parseFileF selfFs n selfPath = .error depthExceeded := by
  intro n
  induction n with
  | zero => rfl
  | succ n ih =>
    have hread : selfFs.read selfPath = some selfLine := by simp [selfFs]
    have hres : selfFs.resolve (some selfPath) selfPath = selfPath := rfl
    have hne : ¬ (includeName = printName) := by decide
    unfold parseFileF
    simp only [hread, selfFs_lines, parseLinesWith, selfFs_parseLine, runPre, hne, if_false, if_true,
      Option.getD_some, includeFiles, hres, ih]

/-! ### a list that contains its own handle -/

def cycKey : Str := "handle:a".toList

/-- `a = array ; array_push ${a} ${a}` -/
def cycEntries : Enc.Entries := [(cycKey, .list [cycKey])]

theorem cyc_lookup : Enc.lookup cycKey cycEntries = some (.list [cycKey]) := by decide

theorem cyc_fuel_str : ∀ n, Enc.encodeVal n cycEntries (.str cycKey) = .error .fuel := by
  intro n
  induction n using Nat.strongRecOn with
  | _ n ih =>
    match n with
    | 0 => rfl
    | 1 => simp [Enc.encodeVal, cyc_lookup]
    | k + 2 =>
      have := ih k (by omega)
      simp [Enc.encodeVal, cyc_lookup, Enc.encItems, this]

end Duck
