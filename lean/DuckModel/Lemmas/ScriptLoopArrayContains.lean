/-
  `array_contains` (std/collections/array_contains/script.ds) run from source, for every input:
  `for next_value in ${argument::1}` / `equals` / `if ${found}` (a hit stores the counter in
  `index` and UNSETS the handle variable `argument::1` - the next `for` reads an empty handle and
  leaves the loop) / `calc ${counter} + 1`.
-/
import DuckModel.Lemmas.ScriptStepLemmas
import DuckModel.Lemmas.ScriptCalcLemmas
import DuckModel.Lemmas.ScriptLoopMapContainsValueFinal

namespace Duck.ScriptRun
open Duck Duck.Alias Duck.Coll Duck.Spec Duck.Generated Duck.Reser

def kScope : Str := "scope::array_contains".toList
def kArg1 : Str := "scope::array_contains::argument::1".toList
def kArg2 : Str := "scope::array_contains::argument::2".toList
def kIndex : Str := "scope::array_contains::index".toList
def kValue : Str := "scope::array_contains::value".toList
def kCounter : Str := "scope::array_contains::counter".toList
def kNext : Str := "scope::array_contains::next_value".toList
def kFound : Str := "scope::array_contains::found".toList

/-- the parse of array_contains/script.ds -/
def kcIs : List Instruction :=
  [emptyI 1,
   mkI 2 (some kIndex) "set" (some [[.lit "false".toList]]),
   mkI 3 (some kValue) "set" (some [[.var kArg2]]),
   emptyI 4,
   mkI 5 (some kCounter) "set" (some [[.lit "0".toList]]),
   mkI 6 none "for" (some [[.lit kNext], [.lit "in".toList], [.var kArg1]]),
   mkI 7 (some kFound) "equals" (some [[.var kNext], [.var kValue]]),
   emptyI 8,
   mkI 9 none "if" (some [[.var kFound]]),
   mkI 10 (some kIndex) "set" (some [[.var kCounter]]),
   mkI 11 (some kArg1) "set" none,
   mkI 12 none "end" none,
   emptyI 13,
   mkI 14 (some kCounter) "calc" (some [[.var kCounter], [.lit "+".toList], [.lit "1".toList]]),
   mkI 15 none "end" none,
   emptyI 16,
   mkI 17 none "set" (some [[.var kIndex]])]

theorem kc_parses : parseText cmd_collections_array_contains.script = .ok kcIs := parsesTo_eq (by decide +kernel)
theorem kc_findFor : findCommands forTables kcIs (5 + 1) = .ok ⟨[], 14⟩ := findsTo_eq (by decide +kernel)
theorem kc_findIf : findCommands ifTables kcIs (8 + 1) = .ok ⟨[], 11⟩ := findsTo_eq (by decide +kernel)
theorem kc_findScript : findScript "array_contains".toList = some cmd_collections_array_contains := by rfl

def kKey (n : Nat) : Str := kScope ++ "::".toList ++ natToStr n

theorem flowKey_kKey (s : ScriptSt) (h : s.ctx = kScope) (n : Nat) : flowKey s n = kKey n := by
  unfold flowKey kKey; rw [h]

theorem get_endTable_kKey (s : ScriptSt) (hctx : s.ctx = kScope) (n : Nat) (v : Str)
    (h : s.endTable.get (kKey n) = some v) : s.endTable.get (flowKey s n) = some v := by
  rw [flowKey_kKey s hctx]; exact h

theorem kKey_under (n : Nat) : underPrefix kScope (kKey n) = true := by
  unfold kKey
  rw [List.append_assoc, underPrefix_append]
  simp [sep, List.isPrefixOf]

theorem kKey_inj {a b : Nat} (h : kKey a = kKey b) : a = b := by
  unfold kKey at h
  exact natToStr_inj (List.append_cancel_left h)

theorem get_put_kKey_ne {α : Type} (m : KV α) (a b : Nat) (v : α) (h : b ≠ a) :
    (m.put (kKey a) v).get (kKey b) = m.get (kKey b) := by
  rw [KV.get_put, if_neg (fun e => h (kKey_inj e))]

structure KInv (st0 : ScriptSt) (IM : KV (Nat × List Nat)) (FM : KV Nat) (ET : KV Str) : Prop where
  ifMeta : ∀ k, underPrefix kScope k = false → IM.get k = st0.ifMeta.get k
  forMeta : ∀ k, underPrefix kScope k = false → FM.get k = st0.forMeta.get k
  endTable : ∀ k, underPrefix kScope k = false → ET.get k = st0.endTable.get k
  c5 : CacheOK FM (kKey 5) 14
  c8 : IfCacheOK IM (kKey 8) 11

theorem KInv.afterIf {st0 : ScriptSt} {IM : KV (Nat × List Nat)} {FM : KV Nat} {ET : KV Str}
    (h : KInv st0 IM FM ET) : KInv st0 (ifMetaAfter IM (kKey 8) 11) FM (ET.put (kKey 11) fullNameEndIf) := by
  refine ⟨?_, h.forMeta, ?_, h.c5, ifCacheOK_ifMetaAfter _ _ _ h.c8⟩
  · intro k hk
    rw [get_ifMetaAfter_frame kScope IM (kKey 8) 11 (kKey_under 8) k hk]; exact h.ifMeta k hk
  · intro k hk
    rw [get_put_frame kScope ET (kKey 11) _ (kKey_under 11) k hk]; exact h.endTable k hk

theorem KInv.afterFor {st0 : ScriptSt} {IM : KV (Nat × List Nat)} {FM : KV Nat} {ET : KV Str}
    (h : KInv st0 IM FM ET) : KInv st0 IM (forMetaAfter FM (kKey 5) 14) (ET.put (kKey 14) fullNameEndForIn) := by
  refine ⟨h.ifMeta, ?_, ?_, cacheOK_forMetaAfter _ _ _ h.c5, h.c8⟩
  · intro k hk
    rw [get_forMetaAfter_frame kScope FM (kKey 5) 14 (kKey_under 5) k hk]; exact h.forMeta k hk
  · intro k hk
    rw [get_put_frame kScope ET (kKey 14) _ (kKey_under 14) k hk]; exact h.endTable k hk

/-- the variables of the body during the loop: value searched, counter, index (still `false`) -/
structure KVars (vars0 vars : Vars) (v : Str) (c : Nat) : Prop where
  value : vars.get kValue = some v
  counter : vars.get kCounter = some (natStr c)
  index : vars.get kIndex = some sFalse
  clr : clear kScope vars = clear kScope vars0

theorem kc_bind_for (vars : Vars) :
    bind vars ((some [[Seg.lit kNext], [Seg.lit "in".toList], [Seg.var kArg1]]).map fun a => a.map renderTemplate) =
      [kNext, "in".toList, (vars.get kArg1).getD []] := by
  rw [bind_mk _ _ (by decide)]
  simp [tmplValue, Seg.value]

/-- the state after the `if` looked its block up -/
def kcAfterIf (s : ScriptSt) (b : Bool) : ScriptSt :=
  { s with ifMeta := ifMetaAfter s.ifMeta (kKey 8) 11,
           endTable := s.endTable.put (kKey 11) fullNameEndIf,
           ifStack := if b then ifEntry 8 11 kScope :: s.ifStack else s.ifStack }

/-- lines 6-8: `equals`, `if ${found}` -/
theorem kc_iter_head (F d : Nat) (s : ScriptSt) (vars : Vars) (x v : Str) (b : Bool) (hb : b = decide (x = v))
    (hctx : s.ctx = kScope) (hvN : vars.get kNext = some x) (hvV : vars.get kValue = some v)
    (hc8 : IfCacheOK s.ifMeta (kKey 8) 11) (fuel poll : Nat) (fo : Option Str) :
    evalInstructions (bodySem F (d + 1) kcIs) (fun _ => false) kcIs (fuel + 3) 6 poll fo vars s =
      evalInstructions (bodySem F (d + 1) kcIs) (fun _ => false) kcIs fuel (if b then 9 else 12) (poll + 1 + 1 + 1) none
        (vars.set kFound (boolStr b)) (kcAfterIf s b) := by
  have hb6 : bind vars ((some [[Seg.var kNext], [Seg.var kValue]]).map fun a => a.map renderTemplate) = [x, v] := by
    rw [bind_mk _ _ (by decide)]
    simp [tmplValue, Seg.value, hvN, hvV]
  rw [show fuel + 3 = fuel + 1 + 1 + 1 by omega,
    eval_native_continue F (d + 1) kcIs (fuel + 1 + 1) 6 poll fo vars s _ _ "equals".toList .equals
      (show kcIs[6]? = some (mkI 7 (some kFound) "equals" (some [[.var kNext], [.var kValue]])) from rfl) rfl
      fs_equals rn_equals _ hb6 (some (boolStr b)) vars s (by subst hb; rfl)]
  rw [eval_skip _ _ _ 7 _ _ _ _ _ (show kcIs[7]? = some (emptyI 8) from rfl) rfl]
  have hb8 : bind (Vars.updateOutput vars (some kFound) (some (boolStr b)))
      ((some [[Seg.var kFound]]).map fun a => a.map renderTemplate) = [boolStr b] := by
    rw [bind_mk _ _ (by decide)]
    simp [tmplValue, Seg.value, Vars.updateOutput, get_set]
  have hif := runIf_bool (nestedOf (bodySem F d) F) kcIs b 8 11 (Vars.updateOutput vars (some kFound) (some (boolStr b))) s
    kc_findIf (by rw [flowKey_kKey s hctx]; exact hc8)
  cases b with
  | true =>
    simp only [if_true] at hif ⊢
    rw [eval_flow_continue F d kcIs fuel 8 _ _ _ _ _ _ "if".toList .ifC
      (show kcIs[8]? = some (mkI 9 none "if" (some [[.var kFound]])) from rfl) rfl fs_if rn_if rf_if
      _ hb8 none _ _ hif]
    simp only [kcAfterIf, ifSt, flowKey, kKey, hctx, Vars.updateOutput, if_true]
  | false =>
    simp only [Bool.false_eq_true, if_false] at hif ⊢
    rw [eval_flow_goto F d kcIs fuel 8 _ _ _ _ _ _ "if".toList .ifC
      (show kcIs[8]? = some (mkI 9 none "if" (some [[.var kFound]])) from rfl) rfl fs_if rn_if rf_if
      _ hb8 none _ _ 12 hif]
    simp only [kcAfterIf, ifSt, flowKey, kKey, hctx, Vars.updateOutput, Bool.false_eq_true, if_false]

/-- lines 12-14: `calc ${counter} + 1`, `end` back to the `for` line -/
theorem kc_count (F d : Nat) (s : ScriptSt) (vars : Vars) (c i : Nat) (fs : List ForCall)
    (hctx : s.ctx = kScope) (hvC : vars.get kCounter = some (natStr c)) (hc : c + 1 < Calc.two53)
    (he14 : s.endTable.get (kKey 14) = some fullNameEndForIn)
    (hfs : s.forStack = ⟨i, 5, 14, kScope⟩ :: fs) (fuel poll : Nat) (fo : Option Str) :
    evalInstructions (bodySem F (d + 1) kcIs) (fun _ => false) kcIs (fuel + 3) 12 poll fo vars s =
      evalInstructions (bodySem F (d + 1) kcIs) (fun _ => false) kcIs fuel 5 (poll + 1 + 1 + 1) none
        (vars.set kCounter (natStr (c + 1))) s := by
  rw [show fuel + 3 = fuel + 1 + 1 + 1 by omega,
    eval_skip _ _ _ 12 _ _ _ _ _ (show kcIs[12]? = some (emptyI 13) from rfl) rfl]
  have hb13 : bind vars ((some [[Seg.var kCounter], [Seg.lit "+".toList], [Seg.lit "1".toList]]).map fun a => a.map renderTemplate) =
      [natStr c, "+".toList, "1".toList] := by
    rw [bind_mk _ _ (by decide)]
    simp [tmplValue, Seg.value, hvC]
  rw [eval_native_continue F (d + 1) kcIs (fuel + 1) 13 _ fo vars s _ _ "calc".toList .calc
    (show kcIs[13]? = some (mkI 14 (some kCounter) "calc" (some [[.var kCounter], [.lit "+".toList], [.lit "1".toList]])) from rfl)
    rfl fs_calc rn_calc _ hb13 (some (natStr (c + 1))) vars s
    (by simp only [runNative, runCalc_succ c hc])]
  exact eval_end_for F d kcIs 14 _ _ (show kcIs[14]? = some (mkI 15 none "end" none) from rfl) rfl rfl _ s
    ⟨i, 5, 14, kScope⟩ fs (get_endTable_kKey s hctx 14 _ he14) hfs rfl hctx.symm fuel _ _

/-- lines 15-17: the result is `index` -/
theorem kc_tail (F d : Nat) (s : ScriptSt) (vars : Vars) (idx : Str) (h : vars.get kIndex = some idx)
    (fuel poll : Nat) (fo : Option Str) :
    evalInstructions (bodySem F d kcIs) (fun _ => false) kcIs (fuel + 3) 15 poll fo vars s =
      some (.finished (some idx), vars, s) := by
  rw [eval_skip _ _ _ 15 _ _ _ _ _ (show kcIs[15]? = some (emptyI 16) from rfl) rfl]
  have hb : bind vars ((some [[Seg.var kIndex]]).map fun a => a.map renderTemplate) = [idx] := by
    rw [bind_mk vars _ (by decide)]
    simp [tmplValue, Seg.value, h]
  rw [eval_native_continue F d kcIs (fuel + 1) 16 (poll + 1) fo vars s _ _ "set".toList .set
    (show kcIs[16]? = some (mkI 17 none "set" (some [[.var kIndex]])) from rfl) rfl fs_set rn_set
    _ hb (some idx) vars s rfl]
  rw [eval_end _ _ _ 17 _ _ _ _ rfl]
  rfl

end Duck.ScriptRun
