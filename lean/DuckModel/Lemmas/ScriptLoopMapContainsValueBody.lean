/-
  `map_contains_value` run from source, part 3: the loop (induction over the keys that are
  left), the body, the whole call.
-/
import DuckModel.Lemmas.ScriptLoopMapContainsValueRun

namespace Duck.ScriptRun
open Duck Duck.Alias Duck.Coll Duck.Spec Duck.Generated Duck.Reser

/-- does the key `k` of the map `m` carry the value `v` -/
def hitB (m : List (Str × Item)) (v : Str) (k : Str) : Bool := decide ((mget m k).map Item.render = some v)

theorem MVars.set_other {vars0 vars : Vars} {a v hK : Str} (h : MVars vars0 vars a v hK) (k x : Str)
    (hu : underPrefix mScope k = true) (h1 : mArg1 ≠ k) (h2 : mValue ≠ k) (h3 : mKH ≠ k) :
    MVars vars0 (vars.set k x) a v hK := by
  refine ⟨?_, ?_, ?_, ?_⟩
  · rw [get_set, if_neg h1]; exact h.arg1
  · rw [get_set, if_neg h2]; exact h.value
  · rw [get_set, if_neg h3]; exact h.kh
  · rw [clear_set_under _ _ _ _ hu]; exact h.clr

theorem get_put_mKey_ne {α : Type} (m : KV α) (a b : Nat) (v : α) (h : b ≠ a) :
    (m.put (mKey a) v).get (mKey b) = m.get (mKey b) := by
  rw [KV.get_put, if_neg (fun e => h (mKey_inj e))]

/-- what the loop (and the tail after it) leaves -/
structure MLoopPost (st0 s s' : ScriptSt) (T0 : Table) (hK : Str) (fs : List ForCall) (found : Bool)
    (vars0 vars' : Vars) : Prop where
  ctx : s'.ctx = mScope
  inv : MInv st0 s'.ifMeta s'.forMeta s'.endTable
  forStack : s'.forStack = fs
  ifStack : s'.ifStack = (if found then [ifEntry 12 14 mScope] else []) ++ s.ifStack
  next : s'.coll.next = s.coll.next
  gone : tget s'.coll.tbl hK = none
  other : ∀ k, k ≠ hK → tget s'.coll.tbl k = tget T0 k
  clr : clear mScope vars' = clear mScope vars0

/-- the state a hit leaves at the end of the body -/
def mcvHitSt (s : ScriptSt) (a hK : Str) (m : List (Str × Item)) (fs : List ForCall) : ScriptSt :=
  { mcvAfterIf s a m true with
    coll := { tbl := tremove (tremove (tinsert (tremove s.coll.tbl a) a (.map m)) hK) hK, next := s.coll.next },
    forStack := fs }

/-- the state a miss on the last key leaves at the end of the body -/
def mcvMissSt (s : ScriptSt) (a hK : Str) (m : List (Str × Item)) (fs : List ForCall) : ScriptSt :=
  { mcvAfterIf s a m false with
    coll := { tbl := tremove (tinsert (tremove s.coll.tbl a) a (.map m)) hK, next := s.coll.next },
    forStack := fs }

theorem he_after (s : ScriptSt) (n : Nat) (v : Str) (hn : n ≠ 14) (h : s.endTable.get (mKey n) = some v) (a : Str)
    (m : List (Str × Item)) (b : Bool) : (mcvAfterIf s a m b).endTable.get (mKey n) = some v := by
  show (s.endTable.put (mKey 14) fullNameEndIf).get (mKey n) = _
  rw [get_put_mKey_ne _ 14 n _ hn]; exact h

/-- an iteration that finds the value: 13 instructions to the end of the body -/
theorem mcv_iter_hit (d : Nat) (st0 s : ScriptSt) (vars0 vars : Vars) (a x v hK : Str) (m : List (Str × Item)) (it : Item)
    (T0 : Table) (i : Nat) (fs : List ForCall)
    (hctx : s.ctx = mScope) (hinv : MInv st0 s.ifMeta s.forMeta s.endTable)
    (he15 : s.endTable.get (mKey 15) = some fullNameEndForIn) (he16 : s.endTable.get (mKey 16) = some fullNameEndIf)
    (hfs : s.forStack = ⟨i, 8, 15, mScope⟩ :: fs) (hT : LookupEq s.coll.tbl T0)
    (hT0a : tget T0 a = some (.map m))
    (hV : MVars vars0 vars a v hK) (hvI : vars.get mItem = some x)
    (hit : mget m x = some it) (hb : it.render = v) (poll : Nat) (fo : Option Str) :
    (∀ F fuel, evalInstructions (bodySem F (d + 1) mcvIs) (fun _ => false) mcvIs (fuel + 13) 9 poll fo vars s =
        some (.finished (some (boolStr true)), (vars.set mNext v).set mFound (boolStr true), mcvHitSt s a hK m fs)) ∧
      MLoopPost st0 s (mcvHitSt s a hK m fs) T0 hK fs true vars0 ((vars.set mNext v).set mFound (boolStr true)) := by
  have hTa : tget s.coll.tbl a = some (.map m) := by rw [hT a]; exact hT0a
  have hV1 : MVars vars0 ((vars.set mNext v).set mFound (boolStr true)) a v hK :=
    (hV.set_other mNext _ mNext_under (by decide) (by decide) (by decide)).set_other mFound _ mFound_under
      (by decide) (by decide) (by decide)
  refine ⟨?_, ?_⟩
  · intro F fuel
    rw [show fuel + 13 = fuel + 9 + 4 by omega,
      mcv_iter_head_hit F d s vars a x v m it hctx hTa hit hV.arg1 hvI hV.value hinv.c12 hb (fuel + 9) poll fo]
    rw [show fuel + 9 = fuel + 5 + 4 by omega,
      mcv_hit_rest F d (mcvAfterIf s a m true) _ hK i fs hctx hV1.kh
        (by simp [mcvAfterIf, KV.get_put]) (he_after s 15 _ (by omega) he15 a m true) hfs (fuel + 5)]
    rw [mcv_tail16 F d
      { mcvAfterIf s a m true with
        coll := { tbl := tremove (mcvAfterIf s a m true).coll.tbl hK, next := (mcvAfterIf s a m true).coll.next },
        forStack := fs }
      ((vars.set mNext v).set mFound (boolStr true)) (boolStr true) hK hctx (by simp [get_set]) (by rw [hV1.kh]; rfl)
      (he_after s 16 _ (by omega) he16 a m true)]
    rfl
  · refine ⟨hctx, hinv.afterIf 12 14 (Or.inr ⟨rfl, rfl⟩), rfl, ?_, rfl, ?_, ?_, hV1.clr⟩
    · simp [mcvHitSt, mcvAfterIf]
    · show tget (tremove (tremove _ hK) hK) hK = none
      rw [tget_tremove, if_pos rfl]
    · intro k hk
      show tget (tremove (tremove (tinsert (tremove s.coll.tbl a) a (.map m)) hK) hK) k = _
      rw [tget_tremove, if_neg hk, tget_tremove, if_neg hk, lookupEq_reinsert s.coll.tbl a _ hTa k, hT k]

/-- the loop: from the body line with the current key in `item` and the entry at the next
    iteration to the END OF THE BODY, within `6·(keys left) + 13` instructions -/
theorem mcv_loop (d : Nat) (st0 : ScriptSt) (a v hK : Str) (m : List (Str × Item)) (K : List Str) (T0 : Table)
    (fs : List ForCall) (vars0 : Vars)
    (hT0a : tget T0 a = some (.map m)) (hT0K : tget T0 hK = some (.list (K.map .str)))
    (hKm : ∀ k ∈ K, (mget m k).isSome = true) :
    ∀ (rem pre : List Str) (x : Str) (s : ScriptSt) (vars : Vars) (poll : Nat) (fo : Option Str),
      K = pre ++ x :: rem → s.ctx = mScope → MInv st0 s.ifMeta s.forMeta s.endTable →
      s.endTable.get (mKey 15) = some fullNameEndForIn → s.endTable.get (mKey 16) = some fullNameEndIf →
      s.forStack = ⟨pre.length + 1, 8, 15, mScope⟩ :: fs → LookupEq s.coll.tbl T0 →
      MVars vars0 vars a v hK → vars.get mItem = some x →
      ∃ vars' s',
        (∀ F fuel, evalInstructions (bodySem F (d + 1) mcvIs) (fun _ => false) mcvIs (fuel + 6 * rem.length + 13) 9 poll fo vars s =
          some (.finished (some (boolStr ((x :: rem).any (hitB m v)))), vars', s')) ∧
        MLoopPost st0 s s' T0 hK fs ((x :: rem).any (hitB m v)) vars0 vars' := by
  intro rem
  induction rem with
  | nil =>
    intro pre x s vars poll fo hK' hctx hinv he15 he16 hfs hT hV hvI
    obtain ⟨it, hit⟩ := Option.isSome_iff_exists.mp (hKm x (by rw [hK']; simp))
    have hhit : hitB m v x = decide (it.render = v) := by simp [hitB, hit]
    by_cases hb : it.render = v
    · obtain ⟨hrun, hpost⟩ := mcv_iter_hit d st0 s vars0 vars a x v hK m it T0 _ fs hctx hinv he15 he16 hfs hT
        hT0a hV hvI hit hb poll fo
      have hany : [x].any (hitB m v) = true := by simp [List.any_cons, hhit, hb]
      rw [hany]
      exact ⟨_, _, fun F fuel => hrun F (fuel + 6 * ([] : List Str).length), hpost⟩
    · have hTa : tget s.coll.tbl a = some (.map m) := by rw [hT a]; exact hT0a
      have hV1 : MVars vars0 ((vars.set mNext it.render).set mFound (boolStr false)) a v hK :=
        (hV.set_other mNext _ mNext_under (by decide) (by decide) (by decide)).set_other mFound _ mFound_under
          (by decide) (by decide) (by decide)
      have hTK : tget (mcvAfterIf s a m false).coll.tbl hK = some (.list (K.map .str)) := by
        show tget (tinsert (tremove s.coll.tbl a) a (.map m)) hK = _
        rw [lookupEq_reinsert s.coll.tbl a _ hTa hK, hT hK, hT0K]
      have hnext : nextIteration (mcvAfterIf s a m false) hK (pre.length + 1) = none := by
        simp [nextIteration, hTK, hK']
      have hany : [x].any (hitB m v) = false := by simp [List.any_cons, hhit, hb]
      rw [hany]
      refine ⟨(vars.set mNext it.render).set mFound (boolStr false), mcvMissSt s a hK m fs, ?_, ?_⟩
      · intro F fuel
        rw [show fuel + 6 * ([] : List Str).length + 13 = fuel + 9 + 4 by simp,
          mcv_iter_head_miss F d s vars a x v m it hctx hTa hit hV.arg1 hvI hV.value hinv.c12 hb (fuel + 9) poll fo]
        rw [show fuel + 9 = fuel + 7 + 2 by omega,
          mcv_miss_last F d (mcvAfterIf s a m false) _ hK (pre.length + 1) fs hctx hV1.kh
            (he_after s 15 _ (by omega) he15 a m false) hfs hnext (fuel + 7)]
        rw [show fuel + 7 = fuel + 2 + 5 by omega,
          mcv_tail16 F d { mcvAfterIf s a m false with forStack := fs }
            ((vars.set mNext it.render).set mFound (boolStr false)) (boolStr false) hK hctx
            (by simp [get_set]) (by rw [hV1.kh]; rfl)
            (he_after s 16 _ (by omega) he16 a m false)]
        rfl
      · refine ⟨hctx, hinv.afterIf 12 14 (Or.inr ⟨rfl, rfl⟩), rfl, ?_, rfl, ?_, ?_, hV1.clr⟩
        · simp [mcvMissSt, mcvAfterIf]
        · show tget (tremove _ hK) hK = none
          rw [tget_tremove, if_pos rfl]
        · intro k hk
          show tget (tremove (tinsert (tremove s.coll.tbl a) a (.map m)) hK) k = _
          rw [tget_tremove, if_neg hk, lookupEq_reinsert s.coll.tbl a _ hTa k, hT k]
  | cons y rem ih =>
    intro pre x s vars poll fo hK' hctx hinv he15 he16 hfs hT hV hvI
    obtain ⟨it, hit⟩ := Option.isSome_iff_exists.mp (hKm x (by rw [hK']; simp))
    have hhit : hitB m v x = decide (it.render = v) := by simp [hitB, hit]
    by_cases hb : it.render = v
    · obtain ⟨hrun, hpost⟩ := mcv_iter_hit d st0 s vars0 vars a x v hK m it T0 _ fs hctx hinv he15 he16 hfs hT
        hT0a hV hvI hit hb poll fo
      have hany : (x :: y :: rem).any (hitB m v) = true := by simp [List.any_cons, hhit, hb]
      rw [hany]
      exact ⟨_, _, fun F fuel => hrun F (fuel + 6 * (y :: rem).length), hpost⟩
    · have hTa : tget s.coll.tbl a = some (.map m) := by rw [hT a]; exact hT0a
      have hV1 : MVars vars0 ((vars.set mNext it.render).set mFound (boolStr false)) a v hK :=
        (hV.set_other mNext _ mNext_under (by decide) (by decide) (by decide)).set_other mFound _ mFound_under
          (by decide) (by decide) (by decide)
      have hTK : tget (mcvAfterIf s a m false).coll.tbl hK = some (.list (K.map .str)) := by
        show tget (tinsert (tremove s.coll.tbl a) a (.map m)) hK = _
        rw [lookupEq_reinsert s.coll.tbl a _ hTa hK, hT hK, hT0K]
      have hnext : nextIteration (mcvAfterIf s a m false) hK (pre.length + 1) = some y := by
        simp [nextIteration, hTK, hK', Item.render]
      have hV2 := hV1.set_other mItem y mItem_under (by decide) (by decide) (by decide)
      have hany : (x :: y :: rem).any (hitB m v) = (y :: rem).any (hitB m v) := by simp [List.any_cons, hhit, hb]
      rw [hany]
      obtain ⟨vars', s', hrun, hpost⟩ := ih (pre ++ [x]) y
        { mcvAfterIf s a m false with forStack := ⟨pre.length + 1 + 1, 8, 15, mScope⟩ :: fs }
        _ (poll + 1 + 1 + 1 + 1 + 1 + 1) none (by rw [hK']; simp) hctx
        (hinv.afterIf 12 14 (Or.inr ⟨rfl, rfl⟩))
        (he_after s 15 _ (by omega) he15 a m false) (he_after s 16 _ (by omega) he16 a m false)
        (by simp)
        (fun k => by
          show tget (tinsert (tremove s.coll.tbl a) a (.map m)) k = _
          rw [lookupEq_reinsert s.coll.tbl a _ hTa k, hT k])
        hV2 (by simp [get_set])
      refine ⟨vars', s', ?_, ?_⟩
      · intro F fuel
        rw [show fuel + 6 * (y :: rem).length + 13 = fuel + 6 * rem.length + 15 + 4 by simp; omega,
          mcv_iter_head_miss F d s vars a x v m it hctx hTa hit hV.arg1 hvI hV.value hinv.c12 hb _ poll fo]
        rw [show fuel + 6 * rem.length + 15 = fuel + 6 * rem.length + 13 + 2 by omega,
          mcv_miss_next F d (mcvAfterIf s a m false) _ hK y (pre.length + 1) fs hctx hV1.kh
            (he_after s 15 _ (by omega) he15 a m false) hfs hnext (fuel + 6 * rem.length + 13)]
        exact hrun F fuel
      · exact ⟨hpost.ctx, hpost.inv, hpost.forStack, by rw [hpost.ifStack]; simp [mcvAfterIf], hpost.next, hpost.gone,
          hpost.other, hpost.clr⟩

end Duck.ScriptRun
