/-
  Lemmas about the text primitives of DuckModel/Chars.lean (`trim`, `lines`).
-/
import DuckModel.Chars
import DuckModel.Types

namespace Duck

/-! ### trimStart -/

theorem dropWhile_nil_all (l : Str) (h : List.dropWhile isWs l = []) : ∀ c ∈ l, isWs c = true := by
  induction l with
  | nil => simp
  | cons x t ih =>
    rw [List.dropWhile_cons] at h
    by_cases hx : isWs x = true
    · simp [hx] at h
      intro c hc
      rcases List.mem_cons.mp hc with rfl | hc
      · exact hx
      · exact ih h c hc
    · simp [hx] at h

theorem trimStart_append_ws (lead l : Str) (h : ∀ c ∈ lead, isWs c = true) :
    trimStart (lead ++ l) = trimStart l := by
  unfold trimStart
  exact List.dropWhile_append_of_pos h

theorem trimStart_cons_nonws (c : Char) (l : Str) (h : isWs c = false) :
    trimStart (c :: l) = c :: l := by
  simp [trimStart, h]

theorem trimStart_ws (l : Str) (h : ∀ c ∈ l, isWs c = true) : trimStart l = [] := by
  have := trimStart_append_ws l [] h
  simpa [trimStart] using this

/-! ### trimEnd -/

theorem trimEnd_nil : trimEnd [] = [] := rfl

theorem trimEnd_ws (l : Str) (h : ∀ c ∈ l, isWs c = true) : trimEnd l = [] := by
  unfold trimEnd
  have : List.dropWhile isWs (l.reverse ++ []) = List.dropWhile isWs [] :=
    List.dropWhile_append_of_pos (by intro a ha; exact h a (by simpa using ha))
  simp at this
  simp [this]

theorem trimEnd_append_ws (a w : Str) (h : ∀ c ∈ w, isWs c = true) :
    trimEnd (a ++ w) = trimEnd a := by
  unfold trimEnd
  rw [List.reverse_append]
  rw [List.dropWhile_append_of_pos (by intro x hx; exact h x (by simpa using hx))]

theorem trimEnd_append_ne_nil (a b : Str) (h : trimEnd b ≠ []) :
    trimEnd (a ++ b) = a ++ trimEnd b := by
  unfold trimEnd at *
  rw [List.reverse_append, List.dropWhile_append]
  have h' : (List.dropWhile isWs b.reverse).isEmpty = false := by
    cases hd : List.dropWhile isWs b.reverse with
    | nil => simp [hd] at h
    | cons x xs => rfl
  simp [h']

theorem trimEnd_singleton_nonws (c : Char) (h : isWs c = false) : trimEnd [c] = [c] := by
  simp [trimEnd, h]

theorem trimEnd_cons_nonws (c : Char) (l : Str) (h : isWs c = false) :
    trimEnd (c :: l) = c :: trimEnd l := by
  unfold trimEnd
  rw [List.reverse_cons, List.dropWhile_append]
  split
  · rename_i he
    have : List.dropWhile isWs l.reverse = [] := by simpa using he
    simp [this, h]
  · simp

theorem trimEnd_cons_ws (c : Char) (l : Str) (h : isWs c = true) :
    trimEnd (c :: l) = if trimEnd l = [] then [] else c :: trimEnd l := by
  unfold trimEnd
  rw [List.reverse_cons, List.dropWhile_append]
  split
  · rename_i he
    have : List.dropWhile isWs l.reverse = [] := by simpa using he
    simp [this, h]
  · rename_i he
    have : List.dropWhile isWs l.reverse ≠ [] := by simpa using he
    simp [this]

/-- `a` does not end in white space -/
def NoTrail (a : Str) : Prop := trimEnd a = a

theorem NoTrail.append_singleton (a : Str) (c : Char) (h : isWs c = false) : NoTrail (a ++ [c]) := by
  unfold NoTrail
  rw [trimEnd_append_ne_nil _ _ (by simp [trimEnd_singleton_nonws c h]), trimEnd_singleton_nonws c h]

theorem NoTrail.append (a b : Str) (hb : NoTrail b) (hne : b ≠ []) : NoTrail (a ++ b) := by
  unfold NoTrail at *
  rw [trimEnd_append_ne_nil _ _ (by rw [hb]; exact hne), hb]

theorem NoTrail.of_all_nonws (a : Str) (h : ∀ c ∈ a, isWs c = false) : NoTrail a := by
  induction a with
  | nil => rfl
  | cons c t ih =>
    unfold NoTrail at *
    rw [trimEnd_cons_nonws c t (h c (by simp)), ih (fun x hx => h x (by simp [hx]))]

/-! ### trim -/

theorem trim_ws (l : Str) (h : ∀ c ∈ l, isWs c = true) : trim l = [] := by
  simp [trim, trimStart_ws l h, trimEnd_nil]

/-- trimming `lead ++ c :: r` with `lead` white space and `c` not -/
theorem trim_lead_cons (lead : Str) (c : Char) (r : Str) (hl : ∀ x ∈ lead, isWs x = true)
    (hc : isWs c = false) : trim (lead ++ c :: r) = c :: trimEnd r := by
  unfold trim
  rw [trimStart_append_ws lead _ hl, trimStart_cons_nonws c r hc, trimEnd_cons_nonws c r hc]

/-- a trailing `\r` does not change the trimmed text -/
theorem trim_append_ws (l w : Str) (h : ∀ c ∈ w, isWs c = true) : trim (l ++ w) = trim l := by
  unfold trim
  by_cases hl : ∀ c ∈ l, isWs c = true
  · rw [trimStart_ws l hl, trimStart_ws (l ++ w) (by
      intro c hc
      rcases List.mem_append.mp hc with hc | hc
      · exact hl c hc
      · exact h c hc)]
  · -- l has a non-ws character: trimStart (l ++ w) = trimStart l ++ w
    have : trimStart (l ++ w) = trimStart l ++ w := by
      unfold trimStart
      rw [List.dropWhile_append]
      have hne : (List.dropWhile isWs l).isEmpty = false := by
        cases hd : List.dropWhile isWs l with
        | nil =>
          exfalso; apply hl
          intro c hc
          exact dropWhile_nil_all l hd c hc
        | cons x xs => rfl
      simp [hne]
    rw [this, trimEnd_append_ws _ _ h]

/-! ### lines -/

theorem linesAux_append_noLF (acc l rest : Str) (h : ∀ c ∈ l, c ≠ '\n') :
    linesAux acc (l ++ rest) = linesAux (acc ++ l) rest := by
  induction l generalizing acc with
  | nil => simp
  | cons c t ih =>
    have hc : c ≠ '\n' := h c (by simp)
    simp only [List.cons_append, linesAux, hc, if_false]
    rw [ih _ (fun x hx => h x (by simp [hx]))]
    simp

theorem lines_append_LF (l rest : Str) (h : ∀ c ∈ l, c ≠ '\n') :
    lines (l ++ '\n' :: rest) = stripCr l :: lines rest := by
  unfold lines
  rw [linesAux_append_noLF [] l _ h]
  simp [linesAux]

theorem lines_noLF (l : Str) (h : ∀ c ∈ l, c ≠ '\n') (hne : l ≠ []) : lines l = [l] := by
  unfold lines
  have := linesAux_append_noLF [] l [] h
  simp at this
  rw [this]
  cases l with
  | nil => exact absurd rfl hne
  | cons c t => simp [linesAux]

theorem stripCr_append_cr (l : Str) : stripCr (l ++ ['\r']) = l := by
  simp [stripCr]

theorem trim_stripCr (l : Str) : trim (stripCr l) = trim l := by
  unfold stripCr
  split
  · rename_i r hr
    have : l = r.reverse ++ ['\r'] := by
      have := congrArg List.reverse hr
      simpa using this
    rw [this, trim_append_ws _ _ (by intro c hc; simp at hc; subst hc; decide)]
  · rfl

end Duck
