/-
  C05 simulation (functions) — part 7: the induction on the tree interpreter's fuel over all
  contexts, the environment a list of definitions builds, running the definitions, and the
  whole-program statement.
-/
import DuckModel.Lemmas.SimFnLoops

namespace Duck
open Duck.Spec Duck.Generated Duck.Fn

theorem sim_allF : ∀ n (c : Ctx), CtxOK c →
    StmtSimF c n ∧ BlockSimF c n ∧ ElifsSimF c n ∧ ForSimF c n := by
  intro n
  induction n using Nat.strongRecOn with
  | ind n ih =>
    intro c hc
    cases n with
    | zero =>
      refine ⟨?_, ?_, ?_, ?_⟩
      · intro st inFor lo s t o _ _ _ _ _ hex
        simp only [execStmt] at hex
        subst hex
        trivial
      · intro b inFor lo s t o _ _ _ _ _ hex
        simp only [execBlock] at hex
        subst hex
        trivial
      · intro es kwElse elseBody kwEnd inFor lo pos stop elses j own K s t o _ _ _ _ _ _ _ _ _ _ _ _ _ _ _ _ _
          _ _ _ _ hex
        simp only [execElifs] at hex
        subst hex
        trivial
      · intro kw x handle hn body kwEnd lo own K L items s t o _ _ _ _ _ _ _ _ _ _ _ _ _ _ _ _ _ _ hex
        simp only [execFor] at hex
        subst hex
        trivial
    | succ fuel =>
      obtain ⟨hS, hB, hE, hF⟩ := ih fuel (Nat.lt_succ_self fuel) c hc
      refine ⟨?_, block_stepF c hc fuel hS hB, elifs_stepF c hc fuel hB hE, for_stepF c hc fuel hB hF⟩
      intro st inFor lo s t o hwf hs hat hpre hsafe hex
      cases st with
      | line l =>
        simp only [Stmt.flatten, List.length_singleton] at hpre ⊢
        cases hlk : lookupFn c.F.tf l.cmd with
        | none =>
          have hsimple : isSimpleCmd l.cmd = true := by
            simp only [Stmt.fnFrag, Bool.or_eq_true, Bool.and_eq_true] at hs
            rcases hs with h | h
            · exact h.1
            · obtain ⟨fd, fi, h1, _, _⟩ := hc.callee _ h
              rw [hlk] at h1
              cases h1
          exact stmt_lineF c hc fuel l inFor lo s t o hsimple hat hpre hex
        | some fd =>
          have hcl : c.callable.contains l.cmd = true := by
            simp only [Stmt.fnFrag, Bool.or_eq_true, Bool.and_eq_true] at hs
            rcases hs with h | h
            · obtain ⟨cm, hres, _⟩ := isSimpleCmd_resolve h.1
              rw [hc.env.not_builtin hres] at hlk
              cases hlk
            · exact h
          cases fuel with
          | zero =>
            have hl : lookupFn t.fns l.cmd = some fd := by rw [hpre.rel.tfns]; exact hlk
            simp only [execStmt, hl, execCall] at hex
            subst hex
            trivial
          | succ f =>
            exact stmt_callF c hc f (fun c' hc' => (ih f (by omega) c' hc').2.1) l inFor lo s t o fd hlk hcl
              hat hpre hsafe hex
      | ifChain kwIf cond body elifs kwElse elseBody kwEnd =>
        exact stmt_ifF c hc fuel hB hE kwIf cond body elifs kwElse elseBody kwEnd inFor lo s t o hwf hs hat
          hpre hsafe hex
      | whileLoop kw cond body kwEnd =>
        exact stmt_whileF c hc fuel hB hS kw cond body kwEnd inFor lo s t o hwf hs hat hpre hsafe hex
      | forIn kw x handle body kwEnd =>
        exact stmt_forF c hc fuel (fun m hm => ⟨(ih m hm c hc).2.1, (ih m hm c hc).2.2.2⟩) kw x handle body
          kwEnd inFor lo s t o hwf hs hat hpre hsafe hex
      | fnDef kw sc name body kwEnd => simp [Stmt.fnFrag] at hs
      | ret kw v =>
        simp only [Stmt.fnFrag, Bool.and_eq_true, Bool.not_eq_true'] at hs
        obtain ⟨hr, hif⟩ := hs
        subst hif
        simp only [Stmt.flatten, List.length_singleton] at hpre ⊢
        exact stmt_retF c fuel kw v lo s t o hwf hat hpre (hpre.depth hr) hex

/-! ### the environment a list of definitions builds -/

def fnInfoAt (st : Nat) (d : FnDecl) : FnInfo := ⟨st, st + 1 + d.body.flatten.length, d.isScoped⟩

def dlen (d : FnDecl) : Nat := d.body.flatten.length + 2

def defsLen : List FnDecl → Nat
  | [] => 0
  | d :: ds => dlen d + defsLen ds

def sfGo : Nat → KV FnInfo → List FnDecl → KV FnInfo
  | _, m, [] => m
  | st, m, d :: ds => sfGo (st + dlen d) (m.put d.name (fnInfoAt st d)) ds

def etGo (ctx : Str) : Nat → KV Str → List FnDecl → KV Str
  | _, m, [] => m
  | st, m, d :: ds =>
    etGo ctx (st + dlen d)
      (m.put (ctx ++ "::".toList ++ natToStr (st + 1 + d.body.flatten.length)) fullNameEndFunction) ds

def tsfGo : KV FnInfo → List FnDecl → KV FnInfo
  | m, [] => m
  | m, d :: ds => tsfGo (m.put d.name { start := 0, stop := 0, isScoped := d.isScoped }) ds

def tfGo : List (Str × FnDef) → List FnDecl → List (Str × FnDef)
  | l, [] => l
  | l, d :: ds => tfGo ((d.name, { isScoped := d.isScoped, body := d.body }) :: l) ds

def dnames (ds : List FnDecl) : List Str := ds.map (·.name)

theorem defsLen_append (a b : List FnDecl) : defsLen (a ++ b) = defsLen a + defsLen b := by
  induction a with
  | nil => simp [defsLen]
  | cons d a ih => simp [defsLen, ih]; omega

/-- a name that is not defined keeps its lookups -/
theorem sfGo_other (n : Str) : ∀ (ds : List FnDecl) (st : Nat) (m : KV FnInfo), n ∉ dnames ds →
    (sfGo st m ds).get n = m.get n
  | [], _, _, _ => rfl
  | d :: ds, st, m, h => by
    simp only [dnames, List.map_cons, List.mem_cons, not_or] at h
    rw [sfGo, sfGo_other n ds _ _ h.2, KV.get_put_ne _ _ _ _ (fun e => h.1 e.symm)]

theorem tsfGo_other (n : Str) : ∀ (ds : List FnDecl) (m : KV FnInfo), n ∉ dnames ds →
    (tsfGo m ds).get n = m.get n
  | [], _, _ => rfl
  | d :: ds, m, h => by
    simp only [dnames, List.map_cons, List.mem_cons, not_or] at h
    rw [tsfGo, tsfGo_other n ds _ h.2, KV.get_put_ne _ _ _ _ (fun e => h.1 e.symm)]

theorem tfGo_other (n : Str) : ∀ (ds : List FnDecl) (l : List (Str × FnDef)), n ∉ dnames ds →
    lookupFn (tfGo l ds) n = lookupFn l n
  | [], _, _ => rfl
  | d :: ds, l, h => by
    simp only [dnames, List.map_cons, List.mem_cons, not_or] at h
    rw [tfGo, tfGo_other n ds _ h.2]
    simp only [lookupFn]
    rw [if_neg (fun e => h.1 e.symm)]

/-- the definition `d` at `done ++ d :: todo`, its name not defined again later -/
theorem sfGo_hit (done : List FnDecl) (d : FnDecl) (todo : List FnDecl) (hn : d.name ∉ dnames todo) :
    ∀ (st : Nat) (m : KV FnInfo),
      (sfGo st m (done ++ d :: todo)).get d.name = some (fnInfoAt (st + defsLen done) d) := by
  induction done with
  | nil =>
    intro st m
    simp only [List.nil_append, sfGo, defsLen, Nat.add_zero]
    rw [sfGo_other _ _ _ _ hn, KV.get_put_self]
  | cons e done ih =>
    intro st m
    simp only [List.cons_append, sfGo, defsLen]
    rw [ih]
    congr 2
    omega

theorem tsfGo_hit (done : List FnDecl) (d : FnDecl) (todo : List FnDecl) (hn : d.name ∉ dnames todo) :
    ∀ (m : KV FnInfo), ((tsfGo m (done ++ d :: todo)).get d.name).isSome = true := by
  induction done with
  | nil =>
    intro m
    simp only [List.nil_append, tsfGo]
    rw [tsfGo_other _ _ _ hn, KV.get_put_self]
    rfl
  | cons e done ih =>
    intro m
    simp only [List.cons_append, tsfGo]
    exact ih _

theorem tfGo_hit (done : List FnDecl) (d : FnDecl) (todo : List FnDecl) (hn : d.name ∉ dnames todo) :
    ∀ (l : List (Str × FnDef)),
      lookupFn (tfGo l (done ++ d :: todo)) d.name = some { isScoped := d.isScoped, body := d.body } := by
  induction done with
  | nil =>
    intro l
    simp only [List.nil_append, tfGo]
    rw [tfGo_other _ _ _ hn]
    simp [lookupFn]
  | cons e done ih =>
    intro l
    simp only [List.cons_append, tfGo]
    exact ih _

/-- pairwise different names -/
def distinctNames : List FnDecl → Prop
  | [] => True
  | d :: ds => d.name ∉ dnames ds ∧ distinctNames ds

theorem mem_split_name {ds : List FnDecl} {n : Str} (h : n ∈ dnames ds) (hd : distinctNames ds) :
    ∃ done d todo, ds = done ++ d :: todo ∧ d.name = n ∧ n ∉ dnames todo ∧ n ∉ dnames done := by
  induction ds with
  | nil => simp [dnames] at h
  | cons e ds ih =>
    simp only [dnames, List.map_cons, List.mem_cons] at h
    by_cases he : n = e.name
    · subst he
      exact ⟨[], e, ds, rfl, rfl, hd.1, by simp [dnames]⟩
    · rcases h with h | h
      · exact absurd h he
      · obtain ⟨done, d, todo, rfl, h1, h2, h3⟩ := ih h hd.2
        refine ⟨e :: done, d, todo, rfl, h1, h2, ?_⟩
        simp only [dnames, List.map_cons, List.mem_cons, not_or]
        exact ⟨he, h3⟩

/-! ### layout of the definitions -/

def defsFlat (ds : List FnDecl) : List ScriptInstr := ds.flatMap (fun d => d.stmt.flatten)

theorem flatten_withDefs (main : Block) : ∀ ds : List FnDecl,
    (withDefs ds main).flatten = defsFlat ds ++ main.flatten
  | [] => by simp [withDefs, defsFlat]
  | d :: ds => by
    simp only [withDefs, Block.flatten, flatten_withDefs main ds, defsFlat, List.flatMap_cons,
      List.append_assoc]

theorem length_stmt_flatten (d : FnDecl) : d.stmt.flatten.length = dlen d := by
  simp [FnDecl.stmt, flatten_fnDef, dlen]

theorem length_defsFlat : ∀ ds : List FnDecl, (defsFlat ds).length = defsLen ds
  | [] => rfl
  | d :: ds => by
    simp only [defsFlat, List.flatMap_cons, List.length_append, defsLen, length_stmt_flatten]
    rw [← length_defsFlat ds]
    rfl

theorem defsFlat_append (a b : List FnDecl) : defsFlat (a ++ b) = defsFlat a ++ defsFlat b := by
  simp [defsFlat]

theorem at_def (main : Block) (done : List FnDecl) (d : FnDecl) (todo : List FnDecl) :
    At (program (withDefs (done ++ d :: todo) main)) (defsLen done) d.stmt.flatten := by
  have h := At.program (withDefs (done ++ d :: todo) main)
  rw [flatten_withDefs, defsFlat_append, List.append_assoc] at h
  have h2 := h.right
  rw [Nat.zero_add, length_defsFlat] at h2
  have : defsFlat (d :: todo) = d.stmt.flatten ++ defsFlat todo := by simp [defsFlat]
  rw [this, List.append_assoc] at h2
  exact h2.left

theorem at_main (main : Block) (defs : List FnDecl) :
    At (program (withDefs defs main)) (defsLen defs) main.flatten := by
  have h := At.program (withDefs defs main)
  rw [flatten_withDefs] at h
  have h2 := h.right
  rw [Nat.zero_add, length_defsFlat] at h2
  exact h2

/-! ### a definition line -/

theorem resolve_fn {k : Str} (h : isFnKw k = true) (s : Sdk) : resolveCmd s k = some .function := by
  apply resolveCmd_of_empty
  simp only [isFnKw, namesFunctionCommand, List.contains_cons, List.contains_nil, Bool.or_false,
    Bool.or_eq_true, beq_iff_eq] at h
  rcases h with rfl | rfl | rfl <;> decide

theorem step_defF (is : List Instruction) (st : Nat) (v : Vars) (s : Sdk) (mi : Meta) (d : FnDecl)
    (stop : Nat)
    (hi : is[st]? = some ⟨mi, .script (mkInstr none d.kw
      (if d.isScoped then ["<scope>".toList, d.name] else [d.name]))⟩)
    (hk : isFnKw d.kw = true) (hlit : isLiteral d.name = true)
    (hb : (resolveCmd {} d.name).isNone = true) (hf : s.fns.get d.name = none)
    (hscan : findCommands fnTables is (st + 1) = .ok ⟨[], stop⟩) :
    Steps is st v s (stop + 1) v
      { s with endTable := s.endTable.put (lineKey s stop) fullNameEndFunction,
               fns := s.fns.put d.name { start := st, stop := stop, isScoped := d.isScoped } } := by
  refine Steps.single (fun nested p => ?_)
  apply runStep_cmd_goto nested is st p v s mi none d.kw _ .function none _ _ _ hi (resolve_fn hk s)
  have hres : resolveCmd s d.name = none := resolveCmd_none_env hb hf
  cases hsc : d.isScoped with
  | false =>
    simp only [Bool.false_eq_true, if_false]
    rw [bind_literal v d.name hlit]
    simp only [runCmdF, runCmd, hf, hscan, hres, Option.isSome_none, Bool.false_eq_true, if_false]
  | true =>
    simp only [if_true]
    rw [bind_cons_literal v "<scope>".toList _ (by decide), bind_literal v d.name hlit]
    have ha : annotationScope "<scope>".toList = some true := by decide
    simp only [runCmdF, runCmd, ha, hf, hscan, hres, Option.isSome_none, Bool.false_eq_true, if_false]

/-! ### running the definitions -/

theorem defs_phase (main : Block) (is : List Instruction) :
    ∀ (todo : List FnDecl) (st : Nat) (s : Sdk) (t : TState) (fuel : Nat) (t' : TState),
      (∀ done' d todo', todo = done' ++ d :: todo' → At is (st + defsLen done') d.stmt.flatten) →
      (∀ d ∈ todo, d.stmt.wf = true ∧ d.body.noFn = true ∧ fnNameOK d.name = true) →
      distinctNames todo → (∀ d ∈ todo, s.fns.get d.name = none) →
      execBlock is fuel (withDefs todo main) t = .normal t' →
      ∃ fuel', execBlock is fuel' main
            { t with fns := tfGo t.fns todo, sdk := { t.sdk with fns := tsfGo t.sdk.fns todo } } = .normal t' ∧
        (fsafeBlock is fuel (withDefs todo main) t = true →
          fsafeBlock is fuel' main
            { t with fns := tfGo t.fns todo, sdk := { t.sdk with fns := tsfGo t.sdk.fns todo } } = true) ∧
        Steps is st t.vars s (st + defsLen todo) t.vars
          { s with fns := sfGo st s.fns todo, endTable := etGo s.lineCtx st s.endTable todo } := by
  intro todo
  induction todo with
  | nil =>
    intro st s t fuel t' _ _ _ _ hex
    exact ⟨fuel, hex, fun h => h, Steps.refl _ _ _ _⟩
  | cons d ds ih =>
    intro st s t fuel t' hlay hwf hdist hfresh hex
    obtain ⟨hdwf, hdnf, hdname⟩ := hwf d (by simp)
    have hat := hlay [] d ds rfl
    simp only [defsLen, Nat.add_zero] at hat
    -- the scan
    have hscan : findCommands fnTables is (st + 1) = .ok ⟨[], st + 1 + d.body.flatten.length⟩ := by
      obtain ⟨pre, post, hpl, his⟩ := hat
      have := C04_scan_fn pre post d.kw d.isScoped d.name d.body d.kwEnd hdwf hdnf
      simp only at this
      rw [hpl] at this
      have his' : is = pre ++ instrsFrom st (Stmt.fnDef d.kw d.isScoped d.name d.body d.kwEnd).flatten ++ post := his
      rw [← his'] at this
      rw [this]
      simp only [flatten_fnDef, List.length_cons, List.length_append, List.length_nil]
      congr 2
      omega
    simp only [FnDecl.stmt, Stmt.wf, Bool.and_eq_true] at hdwf
    simp only [fnNameOK, Bool.and_eq_true] at hdname
    have hat2 := hat
    simp only [FnDecl.stmt, flatten_fnDef] at hat2
    have hstep := step_defF is st t.vars s _ d (st + 1 + d.body.flatten.length) (At.head hat2) hdwf.1.1
      hdname.1.1.1 hdname.1.2 (hfresh d (by simp)) hscan
    have hgo : st + 1 + d.body.flatten.length + 1 = st + dlen d := by simp [dlen]; omega
    rw [hgo] at hstep
    -- the tree
    cases fuel with
    | zero => simp [execBlock] at hex
    | succ f =>
      simp only [withDefs, execBlock, FnDecl.stmt] at hex
      cases f with
      | zero => simp [execStmt] at hex
      | succ g =>
        simp only [execStmt] at hex
        obtain ⟨fuel', h1, h2, h3⟩ := ih (st + dlen d)
          { s with endTable := s.endTable.put (lineKey s (st + 1 + d.body.flatten.length)) fullNameEndFunction,
                   fns := s.fns.put d.name { start := st, stop := st + 1 + d.body.flatten.length, isScoped := d.isScoped } }
          { t with fns := (d.name, { isScoped := d.isScoped, body := d.body }) :: t.fns,
                   sdk := { t.sdk with fns := t.sdk.fns.put d.name { start := 0, stop := 0, isScoped := d.isScoped } } }
          (g + 1) t'
          (fun done' e todo' he => by
            have := hlay (d :: done') e todo' (by rw [he]; rfl)
            simp only [defsLen] at this
            rw [Nat.add_assoc]
            exact this)
          (fun e he => hwf e (by simp [he]))
          hdist.2
          (fun e he => by
            simp only
            rw [KV.get_put_ne]
            · exact hfresh e (by simp [he])
            · intro heq
              apply hdist.1
              rw [heq]
              exact List.mem_map_of_mem he)
          hex
        refine ⟨fuel', h1, fun hs => h2 ?_, ?_⟩
        · simp only [withDefs, fsafeBlock, FnDecl.stmt, fsafeStmt, execStmt, Bool.true_and] at hs
          exact hs
        · have := hstep.trans h3
          simp only [defsLen]
          rw [← Nat.add_assoc]
          exact this

/-! ### the environment of a program in the fragment -/

def progEnv (defs : List FnDecl) : FEnv :=
  { tf := tfGo [] defs, sf := sfGo 0 [] defs, tsf := tsfGo [] defs, names := dnames defs,
    fa := faAll (dnames defs) }

/-- the end lines of the definitions -/
def progEnds (defs : List FnDecl) : Nat → Prop :=
  fun k => ∃ done d todo, defs = done ++ d :: todo ∧ k = defsLen done + 1 + d.body.flatten.length

theorem dlen_pos (d : FnDecl) : d.body.flatten.length + 2 = dlen d := rfl

theorem dnames_append (a b : List FnDecl) : dnames (a ++ b) = dnames a ++ dnames b := by
  simp [dnames]

/-- what `defsOK` says about each definition, and that the names are pairwise different -/
theorem defsOK_facts (names : List Str) (fa : Str → Str → Bool) :
    ∀ (ds : List FnDecl) (earlier : List Str), defsOK names fa earlier ds = true →
      distinctNames ds ∧ (∀ d ∈ ds, d.name ∉ earlier) ∧
      ∀ done d todo, ds = done ++ d :: todo →
        fnNameOK d.name = true ∧ isFnKw d.kw = true ∧ isEndFnKw d.kwEnd = true ∧ d.body.wf = true ∧
        d.body.fnFrag names (earlier ++ dnames done) fa true false = true
  | [], _, _ => ⟨trivial, fun _ h => by simp at h, fun done d todo h => by simp at h⟩
  | e :: ds, earlier, h => by
    simp only [defsOK, Bool.and_eq_true, Bool.not_eq_true', List.contains_eq_mem,
      decide_eq_false_iff_not] at h
    obtain ⟨⟨⟨⟨⟨⟨h1, h2⟩, h3⟩, h4⟩, h5⟩, h6⟩, h7⟩ := h
    obtain ⟨ihd, ihn, ihs⟩ := defsOK_facts names fa ds (earlier ++ [e.name]) h7
    refine ⟨⟨?_, ihd⟩, ?_, ?_⟩
    · intro hm
      simp only [dnames, List.mem_map] at hm
      obtain ⟨d, hd, he⟩ := hm
      exact ihn d hd (by simp [he])
    · intro d hd
      rcases List.mem_cons.mp hd with rfl | hd
      · exact h2
      · intro hm
        exact ihn d hd (by simp [hm])
    · intro done d todo hsplit
      cases done with
      | nil =>
        simp only [List.nil_append, List.cons.injEq] at hsplit
        obtain ⟨rfl, rfl⟩ := hsplit
        simpa [dnames] using ⟨h1, h3, h4, h5, h6⟩
      | cons e' done =>
        simp only [List.cons_append, List.cons.injEq] at hsplit
        obtain ⟨rfl, rfl⟩ := hsplit
        have := ihs done d todo rfl
        simpa [dnames, List.append_assoc] using this

theorem distinct_split {done : List FnDecl} {d : FnDecl} {todo : List FnDecl}
    (h : distinctNames (done ++ d :: todo)) :
    d.name ∉ dnames todo ∧ d.name ∉ dnames done ∧ distinctNames done := by
  induction done with
  | nil => exact ⟨h.1, by simp [dnames], trivial⟩
  | cons e done ih =>
    obtain ⟨h1, h2⟩ := h
    obtain ⟨a, b, c⟩ := ih h2
    refine ⟨a, ?_, ?_, c⟩
    · simp only [dnames, List.map_cons, List.mem_cons, not_or]
      refine ⟨fun he => h1 ?_, b⟩
      simp [dnames, he]
    · intro hm
      apply h1
      show e.name ∈ dnames (done ++ d :: todo)
      rw [dnames_append]
      exact List.mem_append_left _ hm

/-- two ways to split the same list at one element -/
theorem split_cases {α : Type} {a c b d : List α} {x y : α} (h : a ++ x :: b = c ++ y :: d) :
    (a = c ∧ x = y ∧ b = d) ∨ (∃ m, c = a ++ x :: m) ∨ (∃ m, a = c ++ y :: m) := by
  rcases List.append_eq_append_iff.mp h with ⟨a', rfl, h2⟩ | ⟨c', rfl, h2⟩
  · cases a' with
    | nil =>
      simp at h2
      exact .inl ⟨by simp, h2.1, h2.2⟩
    | cons z a' =>
      simp at h2
      exact .inr (.inl ⟨a', by rw [h2.1]⟩)
  · cases c' with
    | nil =>
      simp at h2
      exact .inl ⟨by simp, h2.1.symm, h2.2.symm⟩
    | cons z c' =>
      simp at h2
      exact .inr (.inr ⟨c', by rw [h2.1]⟩)

theorem etGo_other (ctx : Str) (l : Nat) : ∀ (ds : List FnDecl) (st : Nat) (m : KV Str), l ≤ st →
    (etGo ctx st m ds).get (ctx ++ "::".toList ++ natToStr l) = m.get (ctx ++ "::".toList ++ natToStr l)
  | [], _, _, _ => rfl
  | d :: ds, st, m, h => by
    rw [etGo, etGo_other ctx l ds _ _ (by simp [dlen]; omega), KV.get_put_ne]
    intro e
    have := natToStr_inj (List.append_cancel_left e)
    omega

theorem etGo_hit (ctx : Str) (done : List FnDecl) (d : FnDecl) (todo : List FnDecl) :
    ∀ (st : Nat) (m : KV Str),
      (etGo ctx st m (done ++ d :: todo)).get
        (ctx ++ "::".toList ++ natToStr (st + defsLen done + 1 + d.body.flatten.length)) =
        some fullNameEndFunction := by
  induction done with
  | nil =>
    intro st m
    simp only [List.nil_append, etGo, defsLen, Nat.add_zero]
    rw [etGo_other ctx _ todo _ _ (by simp [dlen]; omega), KV.get_put_self]
  | cons e done ih =>
    intro st m
    simp only [List.cons_append, etGo, defsLen]
    have := ih (st + dlen e) (m.put (ctx ++ "::".toList ++ natToStr (st + 1 + e.body.flatten.length))
      fullNameEndFunction)
    rw [← Nat.add_assoc]
    exact this

theorem progEnv_ok (defs : List FnDecl) (main : Block)
    (hdefs : defsOK (dnames defs) (faAll (dnames defs)) [] defs = true) :
    EnvOK (program (withDefs defs main)) (progEnds defs) (progEnv defs) := by
  obtain ⟨hdist, _, hsplit⟩ := defsOK_facts _ _ defs [] hdefs
  have hnone : ∀ n, lookupFn (tfGo [] defs) n = none → n ∉ dnames defs := by
    intro n hl hm
    obtain ⟨done, d, todo, rfl, rfl, h2, _⟩ := mem_split_name hm hdist
    rw [tfGo_hit done d todo h2] at hl
    cases hl
  refine ⟨fun n hl => ?_, fun n fd hl => ?_, fun n => ?_⟩
  · have := hnone n hl
    exact ⟨by simp only [progEnv]; rw [sfGo_other n defs 0 [] this]; rfl,
      by simp only [progEnv]; rw [tsfGo_other n defs [] this]; rfl⟩
  · have hm : n ∈ dnames defs := by
      apply Classical.byContradiction
      intro hn
      simp only [progEnv] at hl
      rw [tfGo_other n defs [] hn] at hl
      cases hl
    obtain ⟨done, d, todo, hsp, rfl, h2, h3⟩ := mem_split_name hm hdist
    subst hsp
    simp only [progEnv] at hl
    rw [tfGo_hit done d todo h2] at hl
    injection hl with hl
    subst hl
    obtain ⟨f1, f2, f3, f4, f5⟩ := hsplit done d todo rfl
    simp only [List.nil_append] at f5
    refine ⟨f1, fnInfoAt (defsLen done) d, d.kw, d.kwEnd, dnames done, ?_⟩
    have hd3 := distinct_split hdist
    refine ⟨by simp only [progEnv]; rw [sfGo_hit done d todo h2]; simp, rfl, at_def main done d todo, rfl,
      f3, f4, f5, ?_, ?_, ⟨done, d, todo, rfl, rfl⟩, ?_⟩
    · intro c hc
      obtain ⟨done1, e, todo1, rfl, rfl, g2, _⟩ := mem_split_name hc hd3.2.2
      have hdist' : distinctNames (done1 ++ e :: (todo1 ++ d :: todo)) := by
        simpa [List.append_assoc] using hdist
      have ge := (distinct_split hdist').1
      refine ⟨{ isScoped := e.isScoped, body := e.body }, fnInfoAt (defsLen done1) e, ?_, ?_, ?_⟩
      · simp only [progEnv]
        have := tfGo_hit done1 e (todo1 ++ d :: todo) ge []
        simpa [List.append_assoc] using this
      · simp only [progEnv]
        have := sfGo_hit done1 e (todo1 ++ d :: todo) ge 0 []
        simpa [List.append_assoc] using this
      · simp only [fnInfoAt, defsLen_append, defsLen, dlen]
        omega
    · intro k hk1 hk2 ⟨done', d', todo', hsp', hk⟩
      simp only [fnInfoAt] at hk1 hk2
      rcases split_cases hsp' with ⟨rfl, rfl, rfl⟩ | ⟨m, rfl⟩ | ⟨m, rfl⟩
      · omega
      · simp only [defsLen_append, defsLen, dlen] at hk
        omega
      · simp only [defsLen_append, defsLen, dlen] at hk1
        omega
    · intro v hv
      simp only [progEnv, faAll] at hv
      have : (dnames (done ++ d :: todo)).contains d.name = true := by
        simp [dnames]
      rw [this] at hv
      cases hv
  · simp only [progEnv, List.contains_eq_mem, decide_eq_true_eq]
    constructor
    · intro hm
      obtain ⟨done, d, todo, rfl, rfl, h2, _⟩ := mem_split_name hm hdist
      rw [tfGo_hit done d todo h2]
      simp
    · intro hne
      apply Classical.byContradiction
      intro hn
      exact hne (by rw [tfGo_other n defs [] hn]; rfl)

/-! ### whole programs -/

theorem Block.noFn_of_fnFrag (names callable : List Str) (fa : Str → Str → Bool) (rets inFor : Bool) :
    ∀ (b : Block), b.fnFrag names callable fa rets inFor = true → b.noFn = true
  | .nil, _ => rfl
  | .cons s rest, h => by
    simp only [Block.fnFrag, Bool.and_eq_true] at h
    simp only [Block.noFn, Bool.and_eq_true]
    exact ⟨Stmt.noFn_of_fnFrag names callable fa s rets inFor h.1,
      Block.noFn_of_fnFrag names callable fa rets inFor rest h.2⟩

/-- the simulation theorem for programs with functions -/
theorem sim_programF (defs : List FnDecl) (main : Block) (vars : Vars) (fuelT : Nat) (t' : TState)
    (hok : progOK defs main = true) (hsafe : FnCondArgsSafe fuelT defs main vars)
    (h : execBlock (program (withDefs defs main)) fuelT (withDefs defs main)
          { vars := vars, sdk := {} } = .normal t') :
    ∃ fuelM rs, interpRun fuelM (program (withDefs defs main)) vars {} = (rs, .reachedEnd) ∧
      rs.vars = t'.vars ∧ rs.st.emitted = t'.sdk.emitted ∧ rs.st.handles = t'.sdk.handles := by
  simp only [progOK, Bool.and_eq_true] at hok
  obtain ⟨⟨hdefs, hmwf⟩, hmfrag⟩ := hok
  obtain ⟨hdist, _, hsplit⟩ := defsOK_facts _ _ defs [] hdefs
  have henv := progEnv_ok defs main hdefs
  -- the definitions
  obtain ⟨fuel', hmain, hmsafe, hsteps1⟩ := defs_phase main (program (withDefs defs main)) defs 0 {}
    { vars := vars, sdk := {} } fuelT t'
    (fun done' d todo' he => by
      rw [Nat.zero_add, he]
      exact at_def main done' d todo')
    (fun d hd => by
      obtain ⟨done, todo, rfl⟩ := List.append_of_mem hd
      obtain ⟨f1, f2, f3, f4, f5⟩ := hsplit done d todo rfl
      refine ⟨?_, Block.noFn_of_fnFrag _ _ _ _ _ _ f5, f1⟩
      simp [FnDecl.stmt, Stmt.wf, f2, f3, f4])
    hdist (fun _ _ => rfl) h
  have hmsafe' := hmsafe hsafe
  -- the main block
  have hc : CtxOK { is := program (withDefs defs main), E := progEnds defs, F := progEnv defs,
                    B := defsLen defs, callable := dnames defs, rets := false } := by
    refine ⟨henv, fun n hn => ?_⟩
    simp only [List.contains_eq_mem, decide_eq_true_eq] at hn
    obtain ⟨done, d, todo, rfl, rfl, h2, _⟩ := mem_split_name hn hdist
    refine ⟨{ isScoped := d.isScoped, body := d.body }, fnInfoAt (defsLen done) d,
      tfGo_hit done d todo h2 [], ?_, ?_⟩
    · simp only [progEnv]
      rw [sfGo_hit done d todo h2]
      simp
    · simp only [fnInfoAt, defsLen_append, defsLen, dlen]
      omega
  have hpre : Pre { is := program (withDefs defs main), E := progEnds defs, F := progEnv defs,
                    B := defsLen defs, callable := dnames defs, rets := false }
      (defsLen defs) (defsLen defs + main.flatten.length)
      { ({} : Sdk) with fns := sfGo 0 [] defs, endTable := etGo [] 0 [] defs }
      { ({ vars := vars, sdk := {} } : TState) with
          fns := tfGo [] defs, sdk := { ({} : Sdk) with fns := tsfGo [] defs } } := by
    refine ⟨⟨fun l m hm => by simp [KV.get] at hm, fun l m hm => by simp [KV.get] at hm,
        fun l m hm => by simp [KV.get] at hm⟩,
      ⟨rfl, rfl, rfl, rfl, rfl, rfl, fun k l hk => by simp [KV.get] at hk⟩,
      fun e he => by simp at he, Nat.le_refl _, ?_, fun hr => by simp at hr, ?_⟩
    · rintro k hk1 _ ⟨done, d, todo, rfl, rfl⟩
      simp only [defsLen_append, defsLen, dlen] at hk1
      omega
    · intro n fi hs
      simp only [progEnv] at hs
      have hm : n ∈ dnames defs := by
        apply Classical.byContradiction
        intro hn
        rw [sfGo_other n defs 0 [] hn] at hs
        cases hs
      obtain ⟨done, d, todo, rfl, rfl, h2, _⟩ := mem_split_name hm hdist
      rw [sfGo_hit done d todo h2] at hs
      injection hs with hs
      subst hs
      have := etGo_hit [] done d todo 0 []
      simpa [lineKey, fnInfoAt] using this
  have S := (sim_allF fuel' _ hc).2.1 main false (defsLen defs) _ _ (.normal t') hmwf hmfrag
    (at_main main defs) hpre hmsafe' hmain
  obtain ⟨s', hat⟩ := S
  have hsteps1' : Steps (program (withDefs defs main)) 0 vars {} (defsLen defs) vars
      { ({} : Sdk) with fns := sfGo 0 [] defs, endTable := etGo [] 0 [] defs } := by
    have := hsteps1
    rw [Nat.zero_add] at this
    exact this
  have hsteps2 : Steps (program (withDefs defs main)) (defsLen defs) vars
      { ({} : Sdk) with fns := sfGo 0 [] defs, endTable := etGo [] 0 [] defs }
      (defsLen defs + main.flatten.length) t'.vars s' := hat.steps
  obtain ⟨n, hsteps⟩ := hsteps1'.trans hsteps2
  refine ⟨n + 3, ⟨defsLen defs + main.flatten.length, 0 + n + 1, t'.vars, s'⟩, ?_, rfl,
    hat.core.rel.emitted, hat.core.rel.handles⟩
  unfold interpRun run
  rw [hsteps (n + 3) 3 0 (by omega), runLoop_succ]
  have hnone : (program (withDefs defs main))[defsLen defs + main.flatten.length]? = none := by
    apply List.getElem?_eq_none
    rw [length_program, flatten_withDefs, List.length_append, length_defsFlat]
    omega
  unfold runStep
  simp only [Bool.false_eq_true, if_false, hnone]

end Duck
