/-
  Helper lemmas for the C04 simulation theorem — part 3: the invariants of the simulation
  (observables, caches, frame of the end table, garbage on the call stacks), association-list
  facts, pop-until-match on stacks with garbage, and the get-or-create of the block caches.
-/
import DuckModel.Lemmas.SimStep
import Std.Data.String.ToNat

namespace Duck
open Duck.Spec Duck.Generated

/-! ### association lists -/

theorem KV.get_erase_ne {α : Type} (m : KV α) (k k' : Str) (h : k ≠ k') :
    (KV.erase m k).get k' = m.get k' := by
  induction m with
  | nil => rfl
  | cons p m ih =>
    obtain ⟨a, v⟩ := p
    by_cases ha : a = k
    · subst ha
      have : KV.erase ((a, v) :: m) a = KV.erase m a := by simp [KV.erase]
      rw [this, ih]
      simp [KV.get, h]
    · have : KV.erase ((a, v) :: m) k = (a, v) :: KV.erase m k := by simp [KV.erase, ha]
      rw [this]
      simp only [KV.get, ih]

theorem KV.get_put {α : Type} (m : KV α) (k k' : Str) (v : α) :
    (m.put k v).get k' = if k = k' then some v else m.get k' := by
  unfold KV.put
  by_cases h : k = k'
  · simp [KV.get, h]
  · simp only [KV.get, h, if_false]
    exact KV.get_erase_ne m k k' h

theorem KV.get_put_self {α : Type} (m : KV α) (k : Str) (v : α) : (m.put k v).get k = some v := by
  simp [KV.get_put]

theorem KV.get_put_ne {α : Type} (m : KV α) (k k' : Str) (v : α) (h : k ≠ k') :
    (m.put k v).get k' = m.get k' := by
  simp [KV.get_put, h]

theorem Vars.get_erase_ne (m : Vars) (k k' : Str) (h : k ≠ k') :
    (Vars.erase m k).get k' = m.get k' := by
  induction m with
  | nil => rfl
  | cons p m ih =>
    obtain ⟨a, v⟩ := p
    by_cases ha : a = k
    · subst ha
      have : Vars.erase ((a, v) :: m) a = Vars.erase m a := by simp [Vars.erase]
      rw [this, ih]
      simp [Vars.get, h]
    · have : Vars.erase ((a, v) :: m) k = (a, v) :: Vars.erase m k := by simp [Vars.erase, ha]
      rw [this]
      simp only [Vars.get, ih]

theorem Vars.get_set_ne (m : Vars) (k k' : Str) (v : Str) (h : k ≠ k') :
    (Vars.set m k v).get k' = m.get k' := by
  unfold Vars.set
  simp only [Vars.get, h, if_false]
  exact Vars.get_erase_ne m k k' h

theorem Vars.get_updateOutput_ne (m : Vars) (out : Option Str) (val : Option Str) (x : Str)
    (h : out ≠ some x) : (Vars.updateOutput m out val).get x = m.get x := by
  cases out with
  | none => rfl
  | some o =>
    have ho : o ≠ x := fun e => h (by rw [e])
    cases val with
    | none => exact Vars.get_erase_ne m o x ho
    | some w => exact Vars.get_set_ne m o x w ho

/-! ### line keys -/

theorem natToStr_inj {a b : Nat} (h : natToStr a = natToStr b) : a = b := by
  unfold natToStr at h
  have h3 : Nat.repr a = Nat.repr b := String.toList_inj.mp h
  exact Nat.repr_injective h3

theorem lineKey_inj {s : Sdk} {a b : Nat} (h : lineKey s a = lineKey s b) : a = b := by
  unfold lineKey at h
  exact natToStr_inj (List.append_cancel_left h)

theorem handleName_inj' {a b : Nat} (h : handleName a = handleName b) : a = b := by
  unfold handleName at h
  exact natToStr_inj (List.append_cancel_left h)

theorem lineKey_congr {s s' : Sdk} (h : s'.lineCtx = s.lineCtx) (l : Nat) : lineKey s' l = lineKey s l := by
  unfold lineKey; rw [h]

/-! ### the invariants -/

/-- handle names in use are `handle:k` with `k` below the counter -/
def HOK (hd : KV (List Str)) (nx : Nat) : Prop :=
  ∀ k l, hd.get k = some l → ∃ j, j < nx ∧ k = handleName j

theorem HOK.put {hd : KV (List Str)} {nx : Nat} (h : HOK hd nx) (items : List Str) :
    HOK (hd.put (handleName nx) items) (nx + 1) := by
  intro k l hk
  rw [KV.get_put] at hk
  by_cases e : handleName nx = k
  · exact ⟨nx, by omega, e.symm⟩
  · rw [if_neg e] at hk
    obtain ⟨j, hj, rfl⟩ := h k l hk
    exact ⟨j, by omega, rfl⟩

theorem HOK.put_mono {hd : KV (List Str)} {nx : Nat} (h : HOK hd nx) (items : List Str) (k : Str)
    (l : List Str) (hk : hd.get k = some l) : (hd.put (handleName nx) items).get k = some l := by
  obtain ⟨j, hj, rfl⟩ := h k l hk
  rw [KV.get_put_ne _ _ _ _ (fun e => by have := handleName_inj' e; omega)]
  exact hk

/-- machine state and tree state show the same observables; nothing defines functions -/
structure Rel (s : Sdk) (t : TState) : Prop where
  handles : s.handles = t.sdk.handles
  next : s.nextHandle = t.sdk.nextHandle
  emitted : s.emitted = t.sdk.emitted
  sfns : s.fns = []
  tsfns : t.sdk.fns = []
  tfns : t.fns = []
  hok : HOK t.sdk.handles t.sdk.nextHandle

theorem Rel.of_eq {s s' : Sdk} {t : TState} (h : Rel s t) (h1 : s'.handles = s.handles)
    (h2 : s'.nextHandle = s.nextHandle) (h3 : s'.emitted = s.emitted) (h4 : s'.fns = s.fns) :
    Rel s' t :=
  ⟨h1.trans h.handles, h2.trans h.next, h3.trans h.emitted, h4.trans h.sfns, h.tsfns, h.tfns, h.hok⟩

/-- cached block positions are what the scanner returns -/
structure CacheOK (is : List Instruction) (s : Sdk) : Prop where
  ifM : ∀ l m, s.ifMeta.get (lineKey s l) = some m →
    findCommands ifTables is (l + 1) = .ok ⟨m.2, m.1⟩
  whM : ∀ l m, s.whileMeta.get (lineKey s l) = some m →
    ∃ mid, findCommands whileTables is (l + 1) = .ok ⟨mid, m⟩
  forM : ∀ l m, s.forMeta.get (lineKey s l) = some m →
    ∃ mid, findCommands forTables is (l + 1) = .ok ⟨mid, m⟩

theorem CacheOK.of_eq {is : List Instruction} {s s' : Sdk} (h : CacheOK is s)
    (h1 : s'.ifMeta = s.ifMeta) (h2 : s'.whileMeta = s.whileMeta) (h3 : s'.forMeta = s.forMeta)
    (h4 : s'.lineCtx = s.lineCtx) : CacheOK is s' := by
  refine ⟨fun l m hm => ?_, fun l m hm => ?_, fun l m hm => ?_⟩
  · rw [lineKey_congr h4, h1] at hm; exact h.ifM l m hm
  · rw [lineKey_congr h4, h2] at hm; exact h.whM l m hm
  · rw [lineKey_congr h4, h3] at hm; exact h.forM l m hm

/-- outside the lines `[lo, hi)` the end table is as before; functions and line context too -/
structure Frame (lo hi : Nat) (s s' : Sdk) : Prop where
  endT : ∀ l, (l < lo ∨ hi ≤ l) → s'.endTable.get (lineKey s l) = s.endTable.get (lineKey s l)
  fns : s'.fns = s.fns
  ctx : s'.lineCtx = s.lineCtx

theorem Frame.refl (lo hi : Nat) (s : Sdk) : Frame lo hi s s := ⟨fun _ _ => rfl, rfl, rfl⟩

theorem Frame.of_eq {lo hi : Nat} {s s' : Sdk} (h1 : s'.endTable = s.endTable) (h2 : s'.fns = s.fns)
    (h3 : s'.lineCtx = s.lineCtx) : Frame lo hi s s' := ⟨fun _ _ => by rw [h1], h2, h3⟩

theorem Frame.trans {lo hi : Nat} {s1 s2 s3 : Sdk} (h1 : Frame lo hi s1 s2) (h2 : Frame lo hi s2 s3) :
    Frame lo hi s1 s3 := by
  refine ⟨fun l hl => ?_, h2.fns.trans h1.fns, h2.ctx.trans h1.ctx⟩
  have := h2.endT l hl
  rw [lineKey_congr h1.ctx] at this
  rw [this, h1.endT l hl]

theorem Frame.mono {lo hi lo' hi' : Nat} {s s' : Sdk} (h : Frame lo hi s s') (h1 : lo' ≤ lo)
    (h2 : hi ≤ hi') : Frame lo' hi' s s' :=
  ⟨fun l hl => h.endT l (by omega), h.fns, h.ctx⟩

/-- the stack `st` is `K` below garbage whose `key` lies in `[lo, hi)` -/
def Garb {α : Type} (key : α → Nat) (lo hi : Nat) (K st : List α) : Prop :=
  ∃ G, st = G ++ K ∧ ∀ e ∈ G, lo ≤ key e ∧ key e < hi

theorem Garb.refl {α : Type} (key : α → Nat) (lo hi : Nat) (K : List α) : Garb key lo hi K K :=
  ⟨[], rfl, by simp⟩

theorem Garb.trans {α : Type} {key : α → Nat} {lo hi : Nat} {K st1 st2 : List α}
    (h1 : Garb key lo hi K st1) (h2 : Garb key lo hi st1 st2) : Garb key lo hi K st2 := by
  obtain ⟨G1, rfl, hG1⟩ := h1
  obtain ⟨G2, rfl, hG2⟩ := h2
  refine ⟨G2 ++ G1, by simp, fun e he => ?_⟩
  rcases List.mem_append.mp he with h | h
  · exact hG2 e h
  · exact hG1 e h

theorem Garb.mono {α : Type} {key : α → Nat} {lo hi lo' hi' : Nat} {K st : List α}
    (h : Garb key lo hi K st) (h1 : lo' ≤ lo) (h2 : hi ≤ hi') : Garb key lo' hi' K st := by
  obtain ⟨G, rfl, hG⟩ := h
  exact ⟨G, rfl, fun e he => by have := hG e he; omega⟩

theorem Garb.cons {α : Type} {key : α → Nat} {lo hi : Nat} {K st : List α} (x : α)
    (h : Garb key lo hi (x :: K) st) (hx : lo ≤ key x ∧ key x < hi) : Garb key lo hi K st := by
  obtain ⟨G, rfl, hG⟩ := h
  refine ⟨G ++ [x], by simp, fun e he => ?_⟩
  rcases List.mem_append.mp he with h | h
  · exact hG e h
  · simp at h; subst h; exact hx

/-- no entry of the for/in stack belongs to a loop written inside `[lo, hi)` -/
def ForOK (lo hi : Nat) (st : List ForCall) : Prop :=
  ∀ e ∈ st, ¬ (lo ≤ e.start ∧ e.start < hi) ∧ ¬ (lo ≤ e.stop ∧ e.stop < hi)

theorem ForOK.mono {lo hi lo' hi' : Nat} {st : List ForCall} (h : ForOK lo hi st) (h1 : lo ≤ lo')
    (h2 : hi' ≤ hi) : ForOK lo' hi' st :=
  fun e he => by have := h e he; omega

/-! ### pop-until-match below garbage -/

theorem popIf_garb (line : Nat) (ctx : Str) (G : List IfCall) (own : IfCall) (K : List IfCall)
    (ho : own.current = line) (hc : own.ctx = ctx) (hG : ∀ e ∈ G, e.current ≠ line) :
    popIf line ctx (G ++ own :: K) = some (own, K) := by
  induction G with
  | nil => simp [popIf, ho, hc]
  | cons g G ih =>
    have hg : g.current ≠ line := hG g (by simp)
    simp only [List.cons_append, popIf, hg, false_and, if_false]
    exact ih (fun e he => hG e (by simp [he]))

theorem popWhile_garb (line : Nat) (ctx : Str) (G : List WhileCall) (own : WhileCall)
    (K : List WhileCall) (ho : own.stop = line) (hc : own.ctx = ctx) (hG : ∀ e ∈ G, e.stop ≠ line) :
    popWhile line ctx (G ++ own :: K) = some (own, K) := by
  induction G with
  | nil => simp [popWhile, ho, hc]
  | cons g G ih =>
    have hg : g.stop ≠ line := hG g (by simp)
    simp only [List.cons_append, popWhile, hg, false_and, if_false]
    exact ih (fun e he => hG e (by simp [he]))

theorem popFor_top (line : Nat) (ctx : Str) (r : Bool) (own : ForCall) (K : List ForCall)
    (ho : own.start = line ∨ own.stop = line) (hc : own.ctx = ctx) :
    popFor line ctx r (own :: K) = (some own, K) := by
  simp [popFor, ho, hc]

theorem popFor_absent (line : Nat) (ctx : Str) (K : List ForCall)
    (hK : ∀ e ∈ K, e.start ≠ line ∧ e.stop ≠ line) :
    popFor line ctx false K = (none, K) := by
  cases K with
  | nil => rfl
  | cons e K =>
    have := hK e (by simp)
    simp [popFor, this.1, this.2]

/-! ### get-or-create of the cached block positions -/

theorem ifMetaFor_ok (is : List Instruction) (s : Sdk) (line : Nat) (mid : List Nat) (stop : Nat)
    (hc : CacheOK is s) (hscan : findCommands ifTables is (line + 1) = .ok ⟨mid, stop⟩) :
    ∃ M, ifMetaFor is s line = .ok ((stop, mid),
        { s with ifMeta := M, endTable := s.endTable.put (lineKey s stop) fullNameEndIf }) ∧
      CacheOK is { s with ifMeta := M, endTable := s.endTable.put (lineKey s stop) fullNameEndIf } := by
  cases hm : s.ifMeta.get (lineKey s line) with
  | some m =>
    simp only [ifMetaFor, hm]
    have := hc.ifM line m hm
    rw [hscan] at this
    have h1 : m.2 = mid := by injection this with h; injection h with a b; exact a.symm
    have h2 : m.1 = stop := by injection this with h; injection h with a b; exact b.symm
    obtain ⟨m1, m2⟩ := m
    simp only at h1 h2
    subst h1 h2
    exact ⟨s.ifMeta, rfl, hc.of_eq rfl rfl rfl rfl⟩
  | none =>
    simp only [ifMetaFor, hm, hscan]
    refine ⟨s.ifMeta.put (lineKey s line) (stop, mid), rfl, ?_, ?_, ?_⟩
    · intro l m hm'
      change KV.get _ (lineKey s l) = some m at hm'
      simp only [KV.get_put] at hm'
      by_cases e : lineKey s line = lineKey s l
      · rw [if_pos e] at hm'
        have := lineKey_inj e
        subst this
        injection hm' with hm'
        subst hm'
        exact hscan
      · rw [if_neg e] at hm'
        exact hc.ifM l m hm'
    · exact hc.whM
    · exact hc.forM

theorem whileMetaFor_ok (is : List Instruction) (s : Sdk) (line : Nat) (mid : List Nat) (stop : Nat)
    (hc : CacheOK is s) (hscan : findCommands whileTables is (line + 1) = .ok ⟨mid, stop⟩) :
    ∃ M, whileMetaFor is s line = .ok (stop,
        { s with whileMeta := M, endTable := s.endTable.put (lineKey s stop) fullNameEndWhile }) ∧
      CacheOK is { s with whileMeta := M, endTable := s.endTable.put (lineKey s stop) fullNameEndWhile } := by
  cases hm : s.whileMeta.get (lineKey s line) with
  | some m =>
    simp only [whileMetaFor, hm]
    obtain ⟨mid', this⟩ := hc.whM line m hm
    rw [hscan] at this
    have h2 : m = stop := by injection this with h; injection h with a b; exact b.symm
    subst h2
    exact ⟨s.whileMeta, rfl, hc.of_eq rfl rfl rfl rfl⟩
  | none =>
    simp only [whileMetaFor, hm, hscan]
    refine ⟨s.whileMeta.put (lineKey s line) stop, rfl, ?_, ?_, ?_⟩
    · exact hc.ifM
    · intro l m hm'
      change KV.get _ (lineKey s l) = some m at hm'
      simp only [KV.get_put] at hm'
      by_cases e : lineKey s line = lineKey s l
      · rw [if_pos e] at hm'
        have := lineKey_inj e
        subst this
        injection hm' with hm'
        subst hm'
        exact ⟨mid, hscan⟩
      · rw [if_neg e] at hm'
        exact hc.whM l m hm'
    · exact hc.forM

theorem forMetaFor_ok (is : List Instruction) (s : Sdk) (line : Nat) (mid : List Nat) (stop : Nat)
    (hc : CacheOK is s) (hscan : findCommands forTables is (line + 1) = .ok ⟨mid, stop⟩) :
    ∃ M, forMetaFor is s line = .ok (stop,
        { s with forMeta := M, endTable := s.endTable.put (lineKey s stop) fullNameEndForIn }) ∧
      CacheOK is { s with forMeta := M, endTable := s.endTable.put (lineKey s stop) fullNameEndForIn } := by
  cases hm : s.forMeta.get (lineKey s line) with
  | some m =>
    simp only [forMetaFor, hm]
    obtain ⟨mid', this⟩ := hc.forM line m hm
    rw [hscan] at this
    have h2 : m = stop := by injection this with h; injection h with a b; exact b.symm
    subst h2
    exact ⟨s.forMeta, rfl, hc.of_eq rfl rfl rfl rfl⟩
  | none =>
    simp only [forMetaFor, hm, hscan]
    refine ⟨s.forMeta.put (lineKey s line) stop, rfl, ?_, ?_, ?_⟩
    · exact hc.ifM
    · exact hc.whM
    · intro l m hm'
      change KV.get _ (lineKey s l) = some m at hm'
      simp only [KV.get_put] at hm'
      by_cases e : lineKey s line = lineKey s l
      · rw [if_pos e] at hm'
        have := lineKey_inj e
        subst this
        injection hm' with hm'
        subst hm'
        exact ⟨mid, hscan⟩
      · rw [if_neg e] at hm'
        exact hc.forM l m hm'

end Duck
