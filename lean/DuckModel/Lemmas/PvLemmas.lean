/-
  Lemmas about the value scanner (`pvStep` / `pvLoop` / `parseNextValue`).
-/
import DuckModel.Parser
import DuckModel.Spec.Render
import DuckModel.Lemmas.CharsLemmas

namespace Duck
open Duck.Spec

/-! ### characters -/

theorem isWs_false_ne {c : Char} (h : isWs c = false) :
    c ≠ ' ' ∧ c ≠ '\n' ∧ c ≠ '\r' ∧ c ≠ '\t' := by
  refine ⟨?_, ?_, ?_, ?_⟩ <;> (rintro rfl; revert h; decide)

theorem isWs_space : isWs ' ' = true := by decide

theorem spaces_succ (k : Nat) : spaces (k + 1) = ' ' :: spaces k := by
  simp [spaces, List.replicate_succ]

theorem spaces_zero : spaces 0 = [] := rfl

theorem spaces_add (a b : Nat) : spaces a ++ spaces b = spaces (a + b) := by
  simp [spaces, List.replicate_append_replicate]

theorem mem_spaces {k : Nat} {c : Char} (h : c ∈ spaces k) : c = ' ' := by
  simp [spaces] at h; exact h.2

theorem spaces_ws (k : Nat) : ∀ c ∈ spaces k, isWs c = true := by
  intro c hc; rw [mem_spaces hc]; decide

/-! ### `parseNextValue` is the loop followed by the finish, also on the empty text -/

theorem parseNextValue_eq (fl : PVFlags) (l : Str) :
    parseNextValue fl l =
      match pvLoop fl {} l with
      | .error e => .error e
      | .ok (st, rest, fe) => pvFinish st rest fe := by
  cases l with
  | nil => simp [parseNextValue, pvLoop, pvFinish]
  | cons c t => rfl

/-! ### leading spaces -/

theorem pvLoop_spaces (fl : PVFlags) (k : Nat) (l : Str) :
    pvLoop fl {} (spaces k ++ l) = pvLoop fl {} l := by
  induction k with
  | zero => simp [spaces]
  | succ k ih =>
    rw [spaces_succ, List.cons_append, pvLoop]
    simp [pvStep]
    exact ih

theorem parseNextValue_spaces (fl : PVFlags) (k : Nat) (l : Str) :
    parseNextValue fl (spaces k ++ l) = parseNextValue fl l := by
  rw [parseNextValue_eq, parseNextValue_eq, pvLoop_spaces]

/-! ### end-of-line-like tails: spaces, then nothing or a comment -/

inductive EolTail : Str → Prop
  | nil : EolTail []
  | hash (t : Str) : EolTail ('#' :: t)
  | space {t : Str} : EolTail t → EolTail (' ' :: t)

theorem EolTail.spaces_append {t : Str} (k : Nat) (h : EolTail t) : EolTail (spaces k ++ t) := by
  induction k with
  | zero => simpa [spaces] using h
  | succ k ih => rw [spaces_succ]; exact EolTail.space ih

theorem EolTail.spaces (k : Nat) : EolTail (spaces k) := by
  simpa using EolTail.spaces_append k EolTail.nil

theorem EolTail.renderComment (cm : Option (Nat × Str)) : EolTail (renderComment cm) := by
  cases cm with
  | none => exact EolTail.nil
  | some p =>
    obtain ⟨k, t⟩ := p
    exact EolTail.spaces_append k (EolTail.hash t)

theorem pvLoop_eol (fl : PVFlags) {t : Str} (h : EolTail t) :
    pvLoop fl {} t = .ok ({}, [], false) := by
  induction h with
  | nil => rfl
  | hash t => simp [pvLoop, pvStep]
  | space _ ih => rw [pvLoop]; simp [pvStep]; exact ih

theorem parseNextValue_eol (fl : PVFlags) {t : Str} (h : EolTail t) :
    parseNextValue fl t = .ok ([], none) := by
  rw [parseNextValue_eq, pvLoop_eol fl h]
  simp [pvFinish]

/-! ### token boundaries -/

/-- what is left after a token that is followed by `tail` -/
def afterTok : Str → Str
  | '#' :: _ => []
  | t => t

/-- `tail` ends a token (with `eq`: also `=` does) -/
inductive Bnd (eq : Bool) : Str → Prop
  | nil : Bnd eq []
  | space (t : Str) : Bnd eq (' ' :: t)
  | hash (t : Str) : Bnd eq ('#' :: t)
  | equals (t : Str) : eq = true → Bnd eq ('=' :: t)

theorem afterTok_length_le (t : Str) : (afterTok t).length ≤ t.length := by
  unfold afterTok
  split <;> simp

theorem afterTok_space (t : Str) : afterTok (' ' :: t) = ' ' :: t := by
  simp [afterTok]

theorem afterTok_nil : afterTok [] = [] := rfl

theorem afterTok_hash (t : Str) : afterTok ('#' :: t) = [] := rfl

theorem EolTail.bnd {eq : Bool} {t : Str} (h : EolTail t) : Bnd eq t := by
  cases h with
  | nil => exact Bnd.nil
  | hash t => exact Bnd.hash t
  | space h => exact Bnd.space _

theorem EolTail.afterTok {t : Str} (h : EolTail t) : EolTail (afterTok t) := by
  cases h with
  | nil => exact EolTail.nil
  | hash t => exact EolTail.nil
  | space h => rw [afterTok_space]; exact EolTail.space h

/-- an unquoted value being accumulated ends at a boundary -/
theorem pv_finish_at_bnd (fl : PVFlags) (arg tail : Str) (hne : arg ≠ [])
    (hb : Bnd fl.stopOnEquals tail) :
    (match pvLoop fl { arg := arg, inArg := true } tail with
      | .error e => (.error e : Except PErr (Str × Option Str))
      | .ok (st, rest, fe) => pvFinish st rest fe) = .ok (afterTok tail, some arg) := by
  have hemp : arg.isEmpty = false := by
    cases arg with
    | nil => exact absurd rfl hne
    | cons _ _ => rfl
  cases hb with
  | nil => simp [pvLoop, pvFinish, hemp, afterTok]
  | space t => simp [pvLoop, pvStep, pvFinish, hemp, afterTok]
  | hash t => simp [pvLoop, pvStep, pvFinish, hemp, afterTok]
  | equals t he => simp [pvLoop, pvStep, pvFinish, hemp, afterTok, he]

/-! ### names (label name, output variable, command) -/

/-- characters allowed inside a token scanned with flags `fl` -/
def TokChar (fl : PVFlags) (c : Char) : Prop :=
  isWs c = false ∧ c ≠ '#' ∧ c ≠ '\\' ∧ (fl.stopOnEquals = true → c ≠ '=')

theorem pvStep_tok_first (fl : PVFlags) (c : Char) (rest : Str) (h : TokChar fl c) (hq : c ≠ '"') :
    pvStep fl {} c rest = .cont { arg := [c], inArg := true } := by
  obtain ⟨hws, h1, h2, _⟩ := h
  have := (isWs_false_ne hws).1
  simp [pvStep, *]

theorem pvStep_tok_next (fl : PVFlags) (acc : Str) (c : Char) (rest : Str) (h : TokChar fl c) :
    pvStep fl { arg := acc, inArg := true } c rest = .cont { arg := acc ++ [c], inArg := true } := by
  obtain ⟨hws, h1, h2, h3⟩ := h
  have := (isWs_false_ne hws).1
  simp [pvStep, *]
  intro he1 he
  exact absurd he (h3 he1)

theorem pvLoop_tok_body (fl : PVFlags) (nm acc tail : Str) (h : ∀ c ∈ nm, TokChar fl c) :
    pvLoop fl { arg := acc, inArg := true } (nm ++ tail) =
      pvLoop fl { arg := acc ++ nm, inArg := true } tail := by
  induction nm generalizing acc with
  | nil => simp
  | cons c t ih =>
    rw [List.cons_append, pvLoop, pvStep_tok_next fl acc c _ (h c (by simp))]
    simp only []
    rw [ih _ (fun x hx => h x (by simp [hx]))]
    simp

theorem pvLoop_tok (fl : PVFlags) (c : Char) (t tail : Str) (h : ∀ x ∈ c :: t, TokChar fl x)
    (hq : c ≠ '"') :
    pvLoop fl {} (c :: t ++ tail) = pvLoop fl { arg := c :: t, inArg := true } tail := by
  rw [List.cons_append, pvLoop, pvStep_tok_first fl c _ (h c (by simp)) hq]
  simp only []
  rw [pvLoop_tok_body fl t [c] tail (fun x hx => h x (by simp [hx]))]
  simp

/-- a well-formed token followed by a boundary is read back exactly -/
theorem parseNextValue_tok (fl : PVFlags) (nm tail : Str) (hne : nm ≠ [])
    (h : ∀ x ∈ nm, TokChar fl x) (hq : nm.head? ≠ some '"') (hb : Bnd fl.stopOnEquals tail) :
    parseNextValue fl (nm ++ tail) = .ok (afterTok tail, some nm) := by
  cases nm with
  | nil => exact absurd rfl hne
  | cons c t =>
    rw [parseNextValue_eq, pvLoop_tok fl c t tail h (by simpa using hq)]
    exact pv_finish_at_bnd fl (c :: t) tail (by simp) hb

end Duck
