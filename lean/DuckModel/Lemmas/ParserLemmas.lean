/-
  Helper lemmas about the parser model (used by Props/C01.lean and Props/C08.lean).
-/
import DuckModel.Parser
import DuckModel.Spec.Render

namespace Duck
open Duck.Spec

end Duck
