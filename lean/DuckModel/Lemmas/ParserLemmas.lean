/-
  Helper lemmas about the parser model (used by Props/C01.lean and Props/C08.lean).
  The lemmas are split over several files:
  * `CharsLemmas`  – `trim`, `lines`
  * `PvLemmas`     – the value scanner (`pvStep`, `pvLoop`, `parseNextValue`), token boundaries
  * `ArgLemmas`    – `escape`, `renderArg(s)` against `parseNextValue` / `parseArgsLoop`
  * `LineLemmas`   – `findLabel`, `findOutputAndCommand`, `parseCommandLine`
  * `RenderLemmas` – trimming of rendered lines, `parseLine` of a rendered line
  * `ScriptLemmas` – `parseLinesWith`, the lines of a rendered script
  * `ErrLemmas`    – the malformed-line classes of C08
  * `DomainLemmas` – `instrOKb` / `choicesOKb` imply `InstrOK` / `ChoicesOK`
-/
import DuckModel.Parser
import DuckModel.Spec.Render
import DuckModel.Lemmas.CharsLemmas
import DuckModel.Lemmas.PvLemmas
import DuckModel.Lemmas.ArgLemmas
import DuckModel.Lemmas.LineLemmas
import DuckModel.Lemmas.RenderLemmas
import DuckModel.Lemmas.ScriptLemmas
import DuckModel.Lemmas.ErrLemmas
import DuckModel.Lemmas.DomainLemmas
