/-
  C18 over HISTORIES — definitions used in the statements of Props/C18History.lean and the
  lemmas behind them:

  * `apart a q`            : `q` is neither `a`, an ancestor of `a`, nor inside `a`;
  * `Op.args`, `Op.paths`  : the path arguments of a command (for `mv` plus the computed target);
  * `Apart op q`, `Unrelated op t q` : `q` is apart from every path argument of `op`
                             (tree-free / with `mvTarget`);
  * `Node.WF`              : the well-formedness invariant of a tree;
  * `P.OK`, `Op.ArgsOK`    : every component of a command path is a normal file name;
  * `treeAfter t ops`      : the tree after a history.

  Lemmas: the SHAPE of what each mutating command does to the tree (unchanged, or one of
  putAt / mkdirs / removeAt), frame of lookup for each of the three, preservation of `WF` by each.
-/
import DuckModel.Sdk.FsTree
import DuckModel.Lemmas.FsTreeLemmas

namespace Duck.FsTree
open Duck

/-! ### definitions used in the statements -/

/-- `q` is not related to the path `a`: it is not a prefix of `a` (`a` itself or an ancestor of
    `a`) and `a` is not a prefix of it (`q` is not inside `a`) -/
def apart (a q : List Str) : Bool := !decide (q <+: a) && !decide (a <+: q)

/-- the path arguments of a command -/
def Op.args : Op → List (List Str)
  | .writeText p _ => [p.comps]
  | .appendText p _ => [p.comps]
  | .readText p => [p.comps]
  | .writeBytes p _ => [p.comps]
  | .readBytes p => [p.comps]
  | .touch p => [p.comps]
  | .mkdir p => [p.comps]
  | .cp s d => [s.comps, d.comps]
  | .mv s d => [s.comps, d.comps]
  | .rm _ p => [p.comps]
  | .rmdir p => [p.comps]
  | .pathExists p => [p.comps]
  | .isFile p => [p.comps]
  | .isDir p => [p.comps]
  | .fileSize p => [p.comps]
  | .ls p => [p.comps]

/-- the paths a command can touch in the tree `t`: its path arguments and, for `mv`, the target
    the code's file-vs-directory rule computes (for `cp` the target is the destination itself) -/
def Op.paths (t : Node) : Op → List (List Str)
  | .mv s d => [s.comps, d.comps, mvTarget t s d]
  | op => op.args

/-- `q` is apart from every path argument of `op` (no tree needed) -/
def Apart (op : Op) (q : List Str) : Bool := op.args.all (apart · q)

/-- `q` is unrelated to the command `op` run in the tree `t`: apart from every path argument and
    from the computed target of `mv` -/
def Unrelated (op : Op) (t : Node) (q : List Str) : Bool := (op.paths t).all (apart · q)

/-- the commands that only ask: readfile, readbinfile, is_path_exists, is_file, is_dir,
    get_file_size, the listing -/
def Op.isQuery : Op → Bool
  | .readText _ => true
  | .readBytes _ => true
  | .pathExists _ => true
  | .isFile _ => true
  | .isDir _ => true
  | .fileSize _ => true
  | .ls _ => true
  | _ => false

/-- a normal file name: not empty, no separator, not `.` or `..` (Bool form of `PlainName`) -/
def nameOk (c : Str) : Bool := !c.isEmpty && !c.contains '/' && c != ['.'] && c != ['.', '.']

mutual
  /-- well-formed tree: in every directory, every entry name is a normal file name and no two
      entries have the same name -/
  def Node.wf : Node → Bool
    | .file _ => true
    | .dir es => Entries.wf es
  def Entries.wf : Entries → Bool
    | .nil => true
    | .cons n x r => nameOk n && (r.get n).isNone && Node.wf x && Entries.wf r
end

def Node.WF (t : Node) : Prop := t.wf = true
def Entries.WF (es : Entries) : Prop := es.wf = true

instance (t : Node) : Decidable t.WF := inferInstanceAs (Decidable (_ = true))
instance (es : Entries) : Decidable es.WF := inferInstanceAs (Decidable (_ = true))

/-- every component of the path is a normal file name -/
def P.OK (p : P) : Prop := ∀ c ∈ p.comps, nameOk c = true

instance (p : P) : Decidable p.OK := inferInstanceAs (Decidable (∀ c ∈ p.comps, nameOk c = true))

/-- every path argument of the command consists of normal file names -/
def Op.ArgsOK (op : Op) : Prop := ∀ a ∈ op.args, ∀ c ∈ a, nameOk c = true

instance (op : Op) : Decidable op.ArgsOK :=
  inferInstanceAs (Decidable (∀ a ∈ op.args, ∀ c ∈ a, nameOk c = true))

/-- the tree after a history -/
def treeAfter (t : Node) (ops : List Op) : Node := ops.foldl (fun t op => (step t op).1) t

/-! ### apart -/

theorem apart_iff {a q : List Str} : apart a q = true ↔ ¬ q <+: a ∧ ¬ a <+: q := by
  simp [apart]

theorem nameOk_iff (c : Str) : nameOk c = true ↔ PlainName c := by
  simp [nameOk, PlainName, and_assoc]

/-- a path apart from `a` is apart from everything below `a` -/
theorem apart_append {a q : List Str} (h : apart a q = true) (x : List Str) :
    apart (a ++ x) q = true := by
  rw [apart_iff] at h ⊢
  obtain ⟨h1, h2⟩ := h
  refine ⟨?_, ?_⟩
  · intro hq
    rcases List.prefix_or_prefix_of_prefix hq (List.prefix_append a x) with h | h
    · exact h1 h
    · exact h2 h
  · intro hq
    exact h2 ((List.prefix_append a x).trans hq)

theorem apart_mvTarget {t : Node} {s d : P} {q : List Str} (h : apart d.comps q = true) :
    apart (mvTarget t s d) q = true := by
  unfold mvTarget
  split
  · exact h
  · exact apart_append h _

/-! ### the tree after a history -/

@[simp] theorem treeAfter_nil (t : Node) : treeAfter t [] = t := rfl

@[simp] theorem treeAfter_cons (t : Node) (op : Op) (ops : List Op) :
    treeAfter t (op :: ops) = treeAfter (step t op).1 ops := rfl

theorem treeAfter_append (t : Node) (a b : List Op) :
    treeAfter t (a ++ b) = treeAfter (treeAfter t a) b := by
  simp [treeAfter, List.foldl_append]

theorem run_append (t : Node) (a b : List Op) :
    run t (a ++ b) = run t a ++ run (treeAfter t a) b := by
  induction a generalizing t with
  | nil => rfl
  | cons op rest ih => simp [run, ih]

/-- every tree of the trace is the tree after a prefix of the history -/
theorem mem_run {t : Node} {ops : List Op} {x : Res × Node} (h : x ∈ run t ops) :
    ∃ pre op post, ops = pre ++ op :: post ∧
      x = ((step (treeAfter t pre) op).2, treeAfter t (pre ++ [op])) := by
  induction ops generalizing t with
  | nil => simp [run] at h
  | cons op rest ih =>
    simp only [run, List.mem_cons] at h
    rcases h with h | h
    · exact ⟨[], op, rest, rfl, by simp [h]⟩
    · obtain ⟨pre, op', post, he, hx⟩ := ih h
      exact ⟨op :: pre, op', post, by simp [he], by simpa using hx⟩

/-! ### the shape of each mutating command -/

theorem writeGen_shape (t : Node) (p : P) (data : Bytes) (app : Bool) :
    (writeGen t p data app).1 = t ∨
    ∃ content, putAt t p.comps (.file content) = some (writeGen t p data app).1 ∧
      ∀ es, lookup t p.comps ≠ some (.dir es) := by
  unfold writeGen
  split
  · exact .inl rfl
  · split
    · exact .inl rfl
    · next old hl =>
      split
      · next t' hp => exact .inr ⟨_, hp, by simp [hl]⟩
      · exact .inl rfl
    · next hl =>
      split
      · next t' hp => exact .inr ⟨_, hp, by simp [hl]⟩
      · exact .inl rfl

theorem touch_shape (t : Node) (p : P) :
    (touch t p).1 = t ∨
    (putAt t p.comps (.file []) = some (touch t p).1 ∧ lookup t p.comps = none) := by
  unfold touch
  split
  · exact .inl rfl
  · exact .inl rfl
  · split
    · exact .inl rfl
    · split
      · exact .inl rfl
      · next hl =>
        split
        · next t' hp => exact .inr ⟨hp, hl⟩
        · exact .inl rfl

theorem mkdir_shape (t : Node) (p : P) :
    (mkdir t p).1 = t ∨ mkdirs t p.comps = some (mkdir t p).1 := by
  unfold mkdir
  split
  · next t' h => exact .inr h
  · exact .inl rfl

theorem cp_shape (t : Node) (src dst : P) :
    (cp t src dst).1 = t ∨
    ∃ b, putAt t dst.comps (.file b) = some (cp t src dst).1 ∧
      ∀ es, lookup t dst.comps ≠ some (.dir es) := by
  unfold cp
  split
  · exact .inl rfl
  · exact .inl rfl
  · split
    · exact .inl rfl
    · split
      · exact .inl rfl
      · split
        · exact .inl rfl
        · next hnd =>
          split
          · next t' hp => exact .inr ⟨_, hp, fun es e => hnd es e⟩
          · exact .inl rfl

theorem mv_shape (t : Node) (src dst : P) :
    (mv t src dst).1 = t ∨
    (∃ b t1, putAt t dst.comps (.file b) = some t1 ∧ (mv t src dst).1 = removeAt t1 src.comps) ∨
    (∃ b t1 t2, mkdirs t dst.comps = some t1 ∧
      putAt t1 (mvTarget t src dst) (.file b) = some t2 ∧
      (mv t src dst).1 = removeAt t2 src.comps) := by
  unfold mv
  split
  · exact .inl rfl
  · exact .inl rfl
  · split
    · split
      · next t1 hp => exact .inr (.inl ⟨_, t1, hp, rfl⟩)
      · exact .inl rfl
    · split
      · exact .inl rfl
      · next t1 hmk =>
        split
        · exact .inl rfl
        · split
          · next t2 hp => exact .inr (.inr ⟨_, t1, t2, hmk, hp, rfl⟩)
          · exact .inl rfl

theorem rm_shape (t : Node) (r : Bool) (p : P) :
    (rm t r p).1 = t ∨ (rm t r p).1 = removeAt t p.comps := by
  unfold rm
  split
  · exact .inl rfl
  · exact .inr rfl
  · split
    · exact .inr rfl
    · exact .inl rfl

theorem rmdir_shape (t : Node) (p : P) :
    (rmdir t p).1 = t ∨ (rmdir t p).1 = removeAt t p.comps := by
  unfold rmdir
  split
  · exact .inl rfl
  · exact .inl rfl
  · split
    · exact .inr rfl
    · exact .inl rfl

/-! ### frame of mkdirs -/

theorem lookup_mkdirs_incomp {t t' : Node} {p : List Str}
    (h : mkdirs t p = some t') (q : List Str) (h1 : ¬ q <+: p) (h2 : ¬ p <+: q) :
    lookup t' q = lookup t q := by
  induction p generalizing t t' q with
  | nil => exact absurd (List.nil_prefix) h2
  | cons c cs ih =>
    cases q with
    | nil => exact absurd (List.nil_prefix) h1
    | cons d qs =>
      cases t with
      | file b => simp [mkdirs] at h
      | dir es =>
        rw [mkdirs_dir_cons] at h
        by_cases hcd : d = c
        · subst hcd
          simp only [List.cons_prefix_cons, true_and] at h1 h2
          cases hg : es.get d with
          | none =>
            simp only [hg] at h
            cases h
            simp [lookup_dir_cons, Entries.get_put_self, hg, lookup_wrap_incomp cs empty qs h1 h2]
          | some ch =>
            simp only [hg] at h
            cases hp : mkdirs ch cs with
            | none => simp [hp] at h
            | some ch' =>
              simp only [hp] at h
              cases h
              simp [lookup_dir_cons, Entries.get_put_self, hg, ih hp qs h1 h2]
        · cases hg : es.get c with
          | none =>
            simp only [hg] at h
            cases h
            simp [lookup_dir_cons, Entries.get_put_ne _ _ hcd]
          | some ch =>
            simp only [hg] at h
            cases hp : mkdirs ch cs with
            | none => simp [hp] at h
            | some ch' =>
              simp only [hp] at h
              cases h
              simp [lookup_dir_cons, Entries.get_put_ne _ _ hcd]

theorem lookup_mkdirs_prefix {t t' : Node} {p : List Str} (h : mkdirs t p = some t')
    (q : List Str) (hq : q <+: p) : ∃ es, lookup t' q = some (.dir es) := by
  induction p generalizing t t' q with
  | nil =>
    have := List.prefix_nil.mp hq
    subst this
    cases t with
    | file b => simp [mkdirs] at h
    | dir es => simp [mkdirs] at h; subst h; exact ⟨es, rfl⟩
  | cons c cs ih =>
    cases t with
    | file b => simp [mkdirs] at h
    | dir es =>
      rw [mkdirs_dir_cons] at h
      cases q with
      | nil =>
        cases hg : es.get c with
        | none => simp only [hg] at h; cases h; exact ⟨_, rfl⟩
        | some ch =>
          simp only [hg] at h
          cases hp : mkdirs ch cs with
          | none => simp [hp] at h
          | some ch' => simp only [hp] at h; cases h; exact ⟨_, rfl⟩
      | cons d qs =>
        rw [List.cons_prefix_cons] at hq
        obtain ⟨hd, hq⟩ := hq
        subst hd
        cases hg : es.get d with
        | none =>
          simp only [hg] at h
          cases h
          by_cases hne : qs = cs
          · subst hne
            have := lookup_wrap qs empty []
            simp only [List.append_nil, lookup_nil] at this
            exact ⟨.nil, by simp only [lookup_dir_cons, Entries.get_put_self, Option.bind_some, this]; rfl⟩
          · obtain ⟨es', he⟩ := lookup_wrap_prefix cs empty qs hq hne
            exact ⟨es', by simp [lookup_dir_cons, Entries.get_put_self, he]⟩
        | some ch =>
          simp only [hg] at h
          cases hp : mkdirs ch cs with
          | none => simp [hp] at h
          | some ch' =>
            simp only [hp] at h
            cases h
            obtain ⟨es', he⟩ := ih hp qs hq
            exact ⟨es', by simp [lookup_dir_cons, Entries.get_put_self, he]⟩

theorem lookup_mkdirs_below {t t' : Node} {p : List Str} (h : mkdirs t p = some t')
    (r : List Str) (hr : r ≠ []) : lookup t' (p ++ r) = lookup t (p ++ r) := by
  induction p generalizing t t' with
  | nil =>
    cases t with
    | file b => simp [mkdirs] at h
    | dir es => simp [mkdirs] at h; subst h; rfl
  | cons c cs ih =>
    cases t with
    | file b => simp [mkdirs] at h
    | dir es =>
      rw [mkdirs_dir_cons] at h
      cases hg : es.get c with
      | none =>
        simp only [hg] at h
        cases h
        have : lookup empty r = none := by
          cases r with
          | nil => exact absurd rfl hr
          | cons x xs => rfl
        simp [lookup_dir_cons, Entries.get_put_self, hg, lookup_wrap, this]
      | some ch =>
        simp only [hg] at h
        cases hp : mkdirs ch cs with
        | none => simp [hp] at h
        | some ch' =>
          simp only [hp] at h
          cases h
          simp [lookup_dir_cons, Entries.get_put_self, hg, ih hp]

/-- `create_dir_all p` changes the observation only at `p` and its ancestors -/
theorem stat_mkdirs_frame {t t' : Node} {p : List Str} (h : mkdirs t p = some t')
    (q : List Str) (hq : ¬ q <+: p) : stat t' q = stat t q := by
  by_cases hpq : p <+: q
  · obtain ⟨r, rfl⟩ := hpq
    have hr : r ≠ [] := by
      intro e; subst e; simp at hq
    simp [stat, lookup_mkdirs_below h r hr]
  · simp [stat, lookup_mkdirs_incomp h q hq hpq]

theorem stat_putAt_incomp {t t' : Node} {p : List Str} {new : Node}
    (h : putAt t p new = some t') (q : List Str) (hq : apart p q = true) :
    stat t' q = stat t q := by
  rw [apart_iff] at hq
  simp [stat, lookup_putAt_incomp h q hq.1 hq.2]

theorem stat_mkdirs_incomp {t t' : Node} {p : List Str}
    (h : mkdirs t p = some t') (q : List Str) (hq : apart p q = true) :
    stat t' q = stat t q := by
  rw [apart_iff] at hq
  simp [stat, lookup_mkdirs_incomp h q hq.1 hq.2]

theorem stat_removeAt_incomp (t : Node) (p q : List Str) (hq : apart p q = true) :
    stat (removeAt t p) q = stat t q := by
  rw [apart_iff] at hq
  exact stat_removeAt_other t p q hq.2

/-! ### frame of each command -/

theorem stat_writeGen_frame (t : Node) (p : P) (data : Bytes) (app : Bool) (q : List Str)
    (hq : apart p.comps q = true) : stat (writeGen t p data app).1 q = stat t q := by
  rcases writeGen_shape t p data app with h | ⟨c, hp, _⟩
  · rw [h]
  · exact stat_putAt_incomp hp q hq

theorem stat_touch_frame (t : Node) (p : P) (q : List Str)
    (hq : apart p.comps q = true) : stat (touch t p).1 q = stat t q := by
  rcases touch_shape t p with h | ⟨hp, _⟩
  · rw [h]
  · exact stat_putAt_incomp hp q hq

theorem stat_mkdir_frame (t : Node) (p : P) (q : List Str)
    (hq : apart p.comps q = true) : stat (mkdir t p).1 q = stat t q := by
  rcases mkdir_shape t p with h | h
  · rw [h]
  · exact stat_mkdirs_incomp h q hq

theorem stat_cp_frame (t : Node) (src dst : P) (q : List Str)
    (hq : apart dst.comps q = true) : stat (cp t src dst).1 q = stat t q := by
  rcases cp_shape t src dst with h | ⟨b, hp, _⟩
  · rw [h]
  · exact stat_putAt_incomp hp q hq

theorem stat_mv_frame (t : Node) (src dst : P) (q : List Str)
    (hs : apart src.comps q = true) (hd : apart dst.comps q = true) :
    stat (mv t src dst).1 q = stat t q := by
  rcases mv_shape t src dst with h | ⟨b, t1, hp, h⟩ | ⟨b, t1, t2, hmk, hp, h⟩
  · rw [h]
  · rw [h, stat_removeAt_incomp _ _ _ hs]
    exact stat_putAt_incomp hp q hd
  · rw [h, stat_removeAt_incomp _ _ _ hs, stat_putAt_incomp hp q (apart_mvTarget hd)]
    exact stat_mkdirs_incomp hmk q hd

theorem stat_rm_frame (t : Node) (r : Bool) (p : P) (q : List Str)
    (hq : apart p.comps q = true) : stat (rm t r p).1 q = stat t q := by
  rcases rm_shape t r p with h | h
  · rw [h]
  · rw [h]; exact stat_removeAt_incomp _ _ _ hq

theorem stat_rmdir_frame (t : Node) (p : P) (q : List Str)
    (hq : apart p.comps q = true) : stat (rmdir t p).1 q = stat t q := by
  rcases rmdir_shape t p with h | h
  · rw [h]
  · rw [h]; exact stat_removeAt_incomp _ _ _ hq

/-! ### frame of one step and of a history -/

/-- being apart from the destination of `mv` already means being apart from the computed target:
    the tree argument of `Unrelated` adds nothing -/
theorem Unrelated_eq_Apart (op : Op) (t : Node) (q : List Str) : Unrelated op t q = Apart op q := by
  cases op <;> try rfl
  case mv s d =>
    simp only [Unrelated, Apart, Op.paths, Op.args, List.all_cons, List.all_nil, Bool.and_true]
    cases hd : apart d.comps q with
    | false => simp
    | true => simp [apart_mvTarget hd]

theorem stat_step_apart (t : Node) (op : Op) (q : List Str) (h : Apart op q = true) :
    stat (step t op).1 q = stat t q := by
  cases op <;> simp only [step] <;>
    simp only [Apart, Op.args, List.all_cons, List.all_nil, Bool.and_true, Bool.and_eq_true] at h
  case writeText p s => exact stat_writeGen_frame t p _ _ q h
  case appendText p s => exact stat_writeGen_frame t p _ _ q h
  case writeBytes p b => exact stat_writeGen_frame t p _ _ q h
  case touch p => exact stat_touch_frame t p q h
  case mkdir p => exact stat_mkdir_frame t p q h
  case cp s d => exact stat_cp_frame t s d q h.2
  case mv s d => exact stat_mv_frame t s d q h.1 h.2
  case rm r p => exact stat_rm_frame t r p q h
  case rmdir p => exact stat_rmdir_frame t p q h

theorem step_query (t : Node) (op : Op) (h : op.isQuery = true) : (step t op).1 = t := by
  cases op <;> first | rfl | simp [Op.isQuery] at h

/-- a history of commands each of which only asks or is apart from `q` -/
theorem stat_treeAfter_apart (t : Node) (ops : List Op) (q : List Str)
    (h : ∀ op ∈ ops, op.isQuery = true ∨ Apart op q = true) :
    stat (treeAfter t ops) q = stat t q := by
  induction ops generalizing t with
  | nil => rfl
  | cons op rest ih =>
    rw [treeAfter_cons, ih _ (fun o ho => h o (by simp [ho]))]
    rcases h op (by simp) with hq | ha
    · rw [step_query t op hq]
    · exact stat_step_apart t op q ha

/-! ### well-formedness -/

@[simp] theorem Node.WF_file (b : Bytes) : (Node.file b).WF := by
  simp [Node.WF, Node.wf]

@[simp] theorem Node.WF_dir (es : Entries) : (Node.dir es).WF ↔ es.WF := by
  simp [Node.WF, Entries.WF, Node.wf]

@[simp] theorem Entries.WF_nil : Entries.nil.WF := by
  simp [Entries.WF, Entries.wf]

theorem Entries.WF_cons (n : Str) (x : Node) (r : Entries) :
    (Entries.cons n x r).WF ↔ nameOk n = true ∧ r.get n = none ∧ x.WF ∧ r.WF := by
  simp [Entries.WF, Node.WF, Entries.wf, and_assoc]

theorem WF_empty : empty.WF := by simp [empty]

/-- what a well-formed directory holds under a name is well-formed, and the name is a normal one -/
theorem Entries.WF_get : ∀ {es : Entries} {c : Str} {ch : Node}, es.WF → es.get c = some ch →
    nameOk c = true ∧ ch.WF
  | .nil, c, ch, _, h => by simp [Entries.get] at h
  | .cons n x r, c, ch, hw, h => by
    rw [Entries.WF_cons] at hw
    by_cases hn : n = c
    · subst hn
      simp [Entries.get] at h
      subst h
      exact ⟨hw.1, hw.2.2.1⟩
    · simp [Entries.get, hn] at h
      exact Entries.WF_get hw.2.2.2 h

theorem Entries.WF_put : ∀ {es : Entries} {c : Str} {v : Node}, es.WF → nameOk c = true → v.WF →
    (es.put c v).WF
  | .nil, c, v, _, hc, hv => by simp [Entries.put, Entries.WF_cons, hc, hv, Entries.get]
  | .cons n x r, c, v, hw, hc, hv => by
    rw [Entries.WF_cons] at hw
    by_cases hn : n = c
    · simp [Entries.put, hn, Entries.WF_cons, hc, hv]
      exact ⟨hn ▸ hw.2.1, hw.2.2.2⟩
    · simp only [Entries.put, hn, if_false, Entries.WF_cons]
      exact ⟨hw.1, by rw [Entries.get_put_ne r v hn]; exact hw.2.1, hw.2.2.1,
        Entries.WF_put hw.2.2.2 hc hv⟩

theorem Entries.WF_erase : ∀ {es : Entries} (c : Str), es.WF → (es.erase c).WF
  | .nil, c, _ => by simp [Entries.erase]
  | .cons n x r, c, hw => by
    rw [Entries.WF_cons] at hw
    by_cases hn : n = c
    · simp only [Entries.erase, hn, if_true]
      exact Entries.WF_erase c hw.2.2.2
    · simp only [Entries.erase, hn, if_false, Entries.WF_cons]
      exact ⟨hw.1, by rw [Entries.get_erase_ne r hn]; exact hw.2.1, hw.2.2.1,
        Entries.WF_erase c hw.2.2.2⟩

theorem WF_wrap : ∀ (cs : List Str) {new : Node}, (∀ c ∈ cs, nameOk c = true) → new.WF →
    (wrap cs new).WF
  | [], new, _, hn => hn
  | c :: cs, new, hc, hn => by
    simp only [wrap, Node.WF_dir, Entries.WF_cons, Entries.get, Entries.WF_nil, and_true]
    exact ⟨hc c (by simp), trivial, WF_wrap cs (fun x hx => hc x (by simp [hx])) hn⟩

theorem WF_putAt {t t' : Node} {p : List Str} {new : Node} (h : putAt t p new = some t')
    (ht : t.WF) (hp : ∀ c ∈ p, nameOk c = true) (hn : new.WF) : t'.WF := by
  induction p generalizing t t' with
  | nil => simp [putAt] at h; subst h; exact hn
  | cons c cs ih =>
    have hc : nameOk c = true := hp c (by simp)
    have hcs : ∀ x ∈ cs, nameOk x = true := fun x hx => hp x (by simp [hx])
    cases t with
    | file b => simp [putAt] at h
    | dir es =>
      rw [Node.WF_dir] at ht
      rw [putAt_dir_cons] at h
      cases hg : es.get c with
      | none =>
        simp only [hg] at h
        cases h
        rw [Node.WF_dir]
        exact Entries.WF_put ht hc (WF_wrap cs hcs hn)
      | some ch =>
        simp only [hg] at h
        cases hq : putAt ch cs new with
        | none => simp [hq] at h
        | some ch' =>
          simp only [hq] at h
          cases h
          rw [Node.WF_dir]
          exact Entries.WF_put ht hc (ih hq (Entries.WF_get ht hg).2 hcs)

theorem WF_mkdirs {t t' : Node} {p : List Str} (h : mkdirs t p = some t')
    (ht : t.WF) (hp : ∀ c ∈ p, nameOk c = true) : t'.WF := by
  induction p generalizing t t' with
  | nil =>
    cases t with
    | file b => simp [mkdirs] at h
    | dir es => simp [mkdirs] at h; subst h; exact ht
  | cons c cs ih =>
    have hc : nameOk c = true := hp c (by simp)
    have hcs : ∀ x ∈ cs, nameOk x = true := fun x hx => hp x (by simp [hx])
    cases t with
    | file b => simp [mkdirs] at h
    | dir es =>
      rw [Node.WF_dir] at ht
      rw [mkdirs_dir_cons] at h
      cases hg : es.get c with
      | none =>
        simp only [hg] at h
        cases h
        rw [Node.WF_dir]
        exact Entries.WF_put ht hc (WF_wrap cs hcs WF_empty)
      | some ch =>
        simp only [hg] at h
        cases hq : mkdirs ch cs with
        | none => simp [hq] at h
        | some ch' =>
          simp only [hq] at h
          cases h
          rw [Node.WF_dir]
          exact Entries.WF_put ht hc (ih hq (Entries.WF_get ht hg).2 hcs)

/-- deleting keeps a tree well-formed — whatever the path is made of -/
theorem WF_removeAt (t : Node) (p : List Str) (ht : t.WF) : (removeAt t p).WF := by
  induction p generalizing t with
  | nil => cases t <;> exact ht
  | cons c cs ih =>
    cases t with
    | file b => exact ht
    | dir es =>
      rw [Node.WF_dir] at ht
      cases cs with
      | nil => rw [removeAt_dir_single, Node.WF_dir]; exact Entries.WF_erase c ht
      | cons x xs =>
        rw [removeAt_dir_cons2]
        cases hg : es.get c with
        | none => simpa using ht
        | some ch =>
          obtain ⟨hc, hch⟩ := Entries.WF_get ht hg
          simp only [Node.WF_dir]
          exact Entries.WF_put ht hc (ih ch hch)

theorem nameOk_mvTarget {t : Node} {s d : P} (hs : ∀ c ∈ s.comps, nameOk c = true)
    (hd : ∀ c ∈ d.comps, nameOk c = true) : ∀ c ∈ mvTarget t s d, nameOk c = true := by
  intro c hc
  unfold mvTarget at hc
  split at hc
  · exact hd c hc
  · rw [List.mem_append] at hc
    rcases hc with hc | hc
    · exact hd c hc
    · cases hl : s.comps.getLast? with
      | none => simp [hl] at hc
      | some x =>
        simp [hl] at hc
        subst hc
        exact hs _ (List.mem_of_getLast? hl)

/-- one step keeps a well-formed tree well-formed when the command's paths are made of normal
    names -/
theorem WF_step {t : Node} (op : Op) (ht : t.WF) (hop : op.ArgsOK) : (step t op).1.WF := by
  cases op <;> simp only [step] <;> simp only [Op.ArgsOK, Op.args, List.mem_cons, List.mem_nil_iff,
      or_false, forall_eq_or_imp, forall_eq] at hop
  case writeText p s =>
    rcases writeGen_shape t p (utf8Encode s) false with h | ⟨c, hp, _⟩
    · rw [writeText, h]; exact ht
    · exact WF_putAt hp ht hop (by simp)
  case appendText p s =>
    rcases writeGen_shape t p (utf8Encode s) true with h | ⟨c, hp, _⟩
    · rw [appendText, h]; exact ht
    · exact WF_putAt hp ht hop (by simp)
  case writeBytes p b =>
    rcases writeGen_shape t p b false with h | ⟨c, hp, _⟩
    · rw [writeBytes, h]; exact ht
    · exact WF_putAt hp ht hop (by simp)
  case touch p =>
    rcases touch_shape t p with h | ⟨hp, _⟩
    · rw [h]; exact ht
    · exact WF_putAt hp ht hop (by simp)
  case mkdir p =>
    rcases mkdir_shape t p with h | h
    · rw [h]; exact ht
    · exact WF_mkdirs h ht hop
  case cp s d =>
    rcases cp_shape t s d with h | ⟨b, hp, _⟩
    · rw [h]; exact ht
    · exact WF_putAt hp ht hop.2 (by simp)
  case mv s d =>
    rcases mv_shape t s d with h | ⟨b, t1, hp, h⟩ | ⟨b, t1, t2, hmk, hp, h⟩
    · rw [h]; exact ht
    · rw [h]; exact WF_removeAt _ _ (WF_putAt hp ht hop.2 (by simp))
    · rw [h]
      exact WF_removeAt _ _ (WF_putAt hp (WF_mkdirs hmk ht hop.2)
        (nameOk_mvTarget hop.1 hop.2) (by simp))
  case rm r p =>
    rcases rm_shape t r p with h | h <;> rw [h]
    · exact ht
    · exact WF_removeAt _ _ ht
  case rmdir p =>
    rcases rmdir_shape t p with h | h <;> rw [h]
    · exact ht
    · exact WF_removeAt _ _ ht
  all_goals exact ht

theorem WF_treeAfter {t : Node} (ops : List Op) (ht : t.WF) (hops : ∀ op ∈ ops, op.ArgsOK) :
    (treeAfter t ops).WF := by
  induction ops generalizing t with
  | nil => exact ht
  | cons op rest ih =>
    rw [treeAfter_cons]
    exact ih (WF_step op ht (hops op (by simp))) (fun o ho => hops o (by simp [ho]))

/-! ### what `WF` says in plain terms -/

theorem Entries.get_none_iff : ∀ (es : Entries) (c : Str),
    es.get c = none ↔ c ∉ es.toList.map (·.1)
  | .nil, c => by simp [Entries.get, Entries.toList]
  | .cons n x r, c => by
    by_cases hn : n = c
    · simp [Entries.get, Entries.toList, hn]
    · have := Entries.get_none_iff r c
      simp [Entries.get, Entries.toList, hn, this, Ne.symm hn]

/-- the names of a well-formed directory are pairwise different normal file names -/
theorem Entries.WF_names : ∀ {es : Entries}, es.WF →
    (es.toList.map (·.1)).Nodup ∧ ∀ n ∈ es.toList.map (·.1), PlainName n
  | .nil, _ => by simp [Entries.toList]
  | .cons n x r, hw => by
    rw [Entries.WF_cons] at hw
    obtain ⟨ih1, ih2⟩ := Entries.WF_names hw.2.2.2
    have hnot := (Entries.get_none_iff r n).mp hw.2.1
    refine ⟨?_, ?_⟩
    · simp only [Entries.toList, List.map_cons, List.nodup_cons]
      exact ⟨hnot, ih1⟩
    · intro m hm
      simp only [Entries.toList, List.map_cons, List.mem_cons] at hm
      rcases hm with hm | hm
      · rw [hm]; exact (nameOk_iff n).mp hw.1
      · exact ih2 m hm

/-- … and conversely -/
theorem Entries.WF_of_names : ∀ {es : Entries},
    (es.toList.map (·.1)).Nodup → (∀ n ∈ es.toList.map (·.1), PlainName n) →
    (∀ n x, (n, x) ∈ es.toList → x.WF) → es.WF
  | .nil, _, _, _ => by simp
  | .cons n x r, h1, h2, h3 => by
    simp only [Entries.toList, List.map_cons, List.nodup_cons] at h1
    rw [Entries.WF_cons]
    refine ⟨(nameOk_iff n).mpr (h2 n (by simp [Entries.toList])),
      (Entries.get_none_iff r n).mpr h1.1, h3 n x (by simp [Entries.toList]), ?_⟩
    exact Entries.WF_of_names h1.2 (fun m hm => h2 m (by simp [Entries.toList, hm]))
      (fun m y hy => h3 m y (by simp [Entries.toList, hy]))

/-- everything found below a well-formed tree is well-formed -/
theorem WF_lookup {t : Node} {q : List Str} {n : Node} (ht : t.WF) (h : lookup t q = some n) :
    n.WF := by
  induction q generalizing t with
  | nil => simp at h; subst h; exact ht
  | cons c cs ih =>
    cases t with
    | file b => simp at h
    | dir es =>
      rw [lookup_dir_cons] at h
      cases hg : es.get c with
      | none => simp [hg] at h
      | some ch =>
        simp [hg] at h
        exact ih (Entries.WF_get ((Node.WF_dir es).mp ht) hg).2 h

/-! ### parsed paths -/

theorem splitSlash_no_slash (s : Str) : ∀ seg ∈ splitSlash s, '/' ∉ seg := by
  induction s with
  | nil => simp [splitSlash]
  | cons c r ih =>
    obtain ⟨seg, segs, h⟩ := splitSlash_ne_nil r
    rw [h] at ih
    rw [splitSlash_cons c h]
    by_cases hc : c = '/'
    · simp only [hc, if_true]
      intro x hx
      simp only [List.mem_cons] at hx
      rcases hx with hx | hx
      · subst hx; simp
      · exact ih x (by simpa using hx)
    · simp only [hc, if_false]
      intro x hx
      simp only [List.mem_cons] at hx
      rcases hx with hx | hx
      · subst hx
        have := ih seg (by simp)
        simp [this, Ne.symm hc]
      · exact ih x (by simp [hx])

/-- every path the commands' path parser accepts consists of normal file names -/
theorem parsePath_ok {s : Str} {p : P} (h : parsePath s = some p) : p.OK := by
  unfold parsePath at h
  simp only at h
  split at h
  · cases h
  · next hdd =>
    split at h
    · cases h
    · split at h
      · cases h
      · cases h
        intro c hc
        simp only [List.mem_filter] at hc
        obtain ⟨hm, hj⟩ := hc
        have hns := splitSlash_no_slash s c hm
        simp only [nameOk, Bool.and_eq_true, Bool.not_eq_true', bne_iff_ne, ne_eq]
        simp only [Bool.not_eq_true', Bool.or_eq_false_iff] at hj
        refine ⟨⟨⟨hj.1, by simpa using hns⟩, by simpa using hj.2⟩, ?_⟩
        intro e
        subst e
        exact hdd (by simpa using hm)
/-! ### reading what `stat` shows -/

theorem lookup_of_stat_file {t : Node} {q : List Str} {b : Bytes}
    (h : stat t q = some (.file b)) : lookup t q = some (.file b) := by
  unfold stat at h
  cases hl : lookup t q with
  | none => simp [hl] at h
  | some n =>
    cases n with
    | dir es => simp [hl, Node.obs] at h
    | file b' => simp [hl, Node.obs] at h; rw [h]

end Duck.FsTree
