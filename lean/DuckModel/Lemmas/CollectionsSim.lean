/-
  C12: per-command simulation between the implementation model and the reference model.
-/
import DuckModel.Lemmas.CollectionsLemmas

namespace Duck.Coll
open Duck
open Duck.Spec.Store (Coll Out Store upd onVec onMap onSet readVec readMap readSet)

@[simp] theorem render_str (x : Str) : (Item.str x).render = x := rfl
@[simp] theorem map_render_str (vs : List Str) : (vs.map Item.str).map Item.render = vs := by
  induction vs <;> simp_all
@[simp] theorem map_render_comp_str (vs : List Str) : List.map (Item.render ∘ Item.str) vs = vs := by
  induction vs <;> simp_all
theorem map_eraseIdx' (l : List Item) (n : Nat) :
    (l.eraseIdx n).map Item.render = (l.map Item.render).eraseIdx n := by
  induction l generalizing n with
  | nil => rfl
  | cons x r ih => cases n <;> simp [List.eraseIdx, ih]
theorem sTrue_eq : sTrue = Spec.Store.yes := rfl
theorem sFalse_eq : sFalse = Spec.Store.no := rfl
theorem boolStr_eq (b : Bool) : boolStr b = Spec.Store.bool b := by cases b <;> rfl
theorem natStr_eq (n : Nat) : natStr n = Spec.Store.nat n := rfl

variable {m : St} {s : Spec.Store.St}

/-- one step of the two models is in simulation -/
def Sim (fuel : Nat) (m : St) (s : Spec.Store.St) (c : CollCmd) (args : List Str) : Prop :=
  R (exec m c args).1 (Spec.Store.exec fuel s c args).1 ∧
    absR (exec m c args).2 = (Spec.Store.exec fuel s c args).2

theorem R.self_tbl (hR : R m s) : R { m with tbl := m.tbl } s := hR

theorem sim_onVec (hR : R m s) (h : Str) (f : List Item → List Item × Res) (post : Res → Res)
    (g : List Str → List Str × Out) (hpost : post .err = .err)
    (hfg : ∀ l, ((f l).1.map Item.render, absR (post (f l).2)) = g (l.map Item.render)) :
    R { m with tbl := (mutateList m.tbl h f).1 } (onVec s h g).1 ∧
      absR (post (mutateList m.tbl h f).2) = (onVec s h g).2 := by
  rcases hR.cases h with ⟨hv, hs⟩ | ⟨l, hv, hs⟩ | ⟨mm, hv, hs⟩ | ⟨x, hv, hs⟩
  · simp only [mutateList, hv, onVec, hs, hpost, absR, and_true]
    exact hR.of_lookupEq (lookupEq_remove_absent _ _ hv)
  · have e := hfg l
    rw [mutateList_list _ _ _ _ hv]
    simp only [onVec, hs, ← e, and_true]
    exact hR.update h _ _ (by rw [hv]; simp) (by simp [absV])
  · simp only [mutateList, hv, onVec, hs, hpost, absR, and_true]
    exact hR.of_lookupEq (lookupEq_reinsert _ _ _ hv)
  · simp only [mutateList, hv, onVec, hs, hpost, absR, and_true]
    exact hR.of_lookupEq (lookupEq_reinsert _ _ _ hv)

theorem sim_onMap (hR : R m s) (h : Str) (f : List (Str × Item) → List (Str × Item) × Res)
    (post : Res → Res) (g : List (Str × Str) → List (Str × Str) × Out) (hpost : post .err = .err)
    (hfg : ∀ l, (absM (f l).1, absR (post (f l).2)) = g (absM l)) :
    R { m with tbl := (mutateMap m.tbl h f).1 } (onMap s h g).1 ∧
      absR (post (mutateMap m.tbl h f).2) = (onMap s h g).2 := by
  rcases hR.cases h with ⟨hv, hs⟩ | ⟨l, hv, hs⟩ | ⟨mm, hv, hs⟩ | ⟨x, hv, hs⟩
  · simp only [mutateMap, hv, onMap, hs, hpost, absR, and_true]
    exact hR.of_lookupEq (lookupEq_remove_absent _ _ hv)
  · simp only [mutateMap, hv, onMap, hs, hpost, absR, and_true]
    exact hR.of_lookupEq (lookupEq_reinsert _ _ _ hv)
  · have e := hfg mm
    rw [mutateMap_map _ _ _ _ hv]
    simp only [onMap, hs, ← e, and_true]
    exact hR.update h _ _ (by rw [hv]; simp) (by simp [absV])
  · simp only [mutateMap, hv, onMap, hs, hpost, absR, and_true]
    exact hR.of_lookupEq (lookupEq_reinsert _ _ _ hv)

theorem sim_onSet (hR : R m s) (h : Str) (f : List Str → List Str × Res)
    (post : Res → Res) (g : List Str → List Str × Out) (hpost : post .err = .err)
    (hfg : ∀ l, ((f l).1, absR (post (f l).2)) = g l) :
    R { m with tbl := (mutateSet m.tbl h f).1 } (onSet s h g).1 ∧
      absR (post (mutateSet m.tbl h f).2) = (onSet s h g).2 := by
  rcases hR.cases h with ⟨hv, hs⟩ | ⟨l, hv, hs⟩ | ⟨mm, hv, hs⟩ | ⟨x, hv, hs⟩
  · simp only [mutateSet, hv, onSet, hs, hpost, absR, and_true]
    exact hR.of_lookupEq (lookupEq_remove_absent _ _ hv)
  · simp only [mutateSet, hv, onSet, hs, hpost, absR, and_true]
    exact hR.of_lookupEq (lookupEq_reinsert _ _ _ hv)
  · simp only [mutateSet, hv, onSet, hs, hpost, absR, and_true]
    exact hR.of_lookupEq (lookupEq_reinsert _ _ _ hv)
  · have e := hfg x
    rw [mutateSet_set _ _ _ _ hv]
    simp only [onSet, hs, ← e, and_true]
    exact hR.update h _ _ (by rw [hv]; simp) (by simp [absV])

theorem sim_err (hR : R m s) : R m s ∧ absR .err = Out.err := ⟨hR, rfl⟩

/-! ### arrays -/

theorem sim_array (fuel) (hR : R m s) (args) : Sim fuel m s .array args := by
  have := hR.alloc (.list (args.map .str)) (.vec args) (by simp [absV])
  simpa [Sim, exec, cmdArray, Spec.Store.exec] using this

theorem sim_range (fuel) (hR : R m s) (args) : Sim fuel m s .range args := by
  unfold Sim
  match args with
  | [] => exact sim_err hR
  | [_] => exact sim_err hR
  | a :: b :: _ =>
    simp only [exec, cmdRange, Spec.Store.exec, parseI64_eq]
    cases Spec.Store.int64 a with
    | none => exact sim_err hR
    | some st =>
      cases Spec.Store.int64 b with
      | none => exact sim_err hR
      | some en =>
        simp only []
        by_cases hgt : st > en
        · simp only [hgt, if_true]; exact sim_err hR
        · simp only [hgt, if_false]
          exact hR.alloc _ _ (by simp [absV, Item.render, Function.comp_def])

theorem sim_arrayPush (fuel) (hR : R m s) (args) : Sim fuel m s .arrayPush args := by
  unfold Sim
  match args with
  | [] => exact sim_err hR
  | h :: vs =>
    simp only [exec, cmdArrayPush, Spec.Store.exec]
    exact sim_onVec hR h _ okTrue _ rfl (by intro l; simp [okTrue, absR, sTrue_eq])

theorem sim_arrayPop (fuel) (hR : R m s) (args) : Sim fuel m s .arrayPop args := by
  unfold Sim
  match args with
  | [] => exact sim_err hR
  | h :: _ =>
    simp only [exec, cmdArrayPop, Spec.Store.exec]
    exact sim_onVec hR h _ id _ rfl (by intro l; simp [absR, List.map_dropLast])

theorem sim_arrayGet (fuel) (hR : R m s) (args) : Sim fuel m s .arrayGet args := by
  unfold Sim
  match args with
  | [] => exact sim_err hR
  | [_] => exact sim_err hR
  | h :: i :: _ =>
    simp only [exec, cmdArrayGet, Spec.Store.exec, parseUsize_eq]
    cases Spec.Store.index i with
    | none => exact sim_err hR
    | some n =>
      exact sim_onVec hR h _ id _ rfl (by intro l; simp [absR])

theorem sim_arraySet (fuel) (hR : R m s) (args) : Sim fuel m s .arraySet args := by
  unfold Sim
  match args with
  | [] => exact sim_err hR
  | [_] => exact sim_err hR
  | [_, _] => exact sim_err hR
  | h :: i :: v :: _ =>
    simp only [exec, cmdArraySet, Spec.Store.exec, parseUsize_eq]
    cases Spec.Store.index i with
    | none => exact sim_err hR
    | some n =>
      refine sim_onVec hR h _ id _ rfl ?_
      intro l
      by_cases hn : n < l.length <;> simp [hn, absR, sTrue_eq, List.map_set]

theorem sim_arrayRemove (fuel) (hR : R m s) (args) : Sim fuel m s .arrayRemove args := by
  unfold Sim
  match args with
  | [] => exact sim_err hR
  | [_] => exact sim_err hR
  | h :: i :: _ =>
    simp only [exec, cmdArrayRemove, Spec.Store.exec, parseUsize_eq]
    cases Spec.Store.index i with
    | none => exact sim_err hR
    | some n =>
      refine sim_onVec hR h _ id _ rfl ?_
      intro l
      by_cases hn : n < l.length <;> simp [hn, absR, sTrue_eq, map_eraseIdx']

theorem sim_arrayClear (fuel) (hR : R m s) (args) : Sim fuel m s .arrayClear args := by
  unfold Sim
  match args with
  | [] => exact sim_err hR
  | h :: _ =>
    simp only [exec, cmdArrayClear, Spec.Store.exec]
    exact sim_onVec hR h _ okTrue _ rfl (by intro l; simp [okTrue, absR, sTrue_eq])

theorem sim_arrayLength (fuel) (hR : R m s) (args) : Sim fuel m s .arrayLength args := by
  unfold Sim
  match args with
  | [] => exact sim_err hR
  | h :: _ =>
    rcases hR.cases h with ⟨hv, hs⟩ | ⟨l, hv, hs⟩ | ⟨mm, hv, hs⟩ | ⟨x, hv, hs⟩ <;>
      simp [exec, cmdArrayLength, Spec.Store.exec, readVec, hv, hs, absR, natStr_eq, hR]

theorem sim_arrayIsEmpty (fuel) (hR : R m s) (args) : Sim fuel m s .arrayIsEmpty args := by
  unfold Sim
  match args with
  | [] => exact sim_err hR
  | h :: _ =>
    rcases hR.cases h with ⟨hv, hs⟩ | ⟨l, hv, hs⟩ | ⟨mm, hv, hs⟩ | ⟨x, hv, hs⟩ <;>
      simp [exec, cmdArrayIsEmpty, Spec.Store.exec, readVec, hv, hs, absR, boolStr_eq, hR]

theorem sim_arrayContains (fuel) (hR : R m s) (args) : Sim fuel m s .arrayContains args := by
  unfold Sim
  match args with
  | [] => exact sim_err hR
  | [_] => exact sim_err hR
  | h :: v :: _ =>
    rcases hR.cases h with ⟨hv, hs⟩ | ⟨l, hv, hs⟩ | ⟨mm, hv, hs⟩ | ⟨x, hv, hs⟩
    · simp [exec, cmdArrayContains, Spec.Store.exec, hv, hs, absR, sFalse_eq, hR]
    · simp only [exec, cmdArrayContains, Spec.Store.exec, hv, hs, indexOfStr_eq]
      cases Spec.Store.firstIndex v (l.map Item.render) 0 <;> simp [absR, sFalse_eq, natStr_eq, hR]
    · simp [exec, cmdArrayContains, Spec.Store.exec, hv, hs, absR, sFalse_eq, hR]
    · simp [exec, cmdArrayContains, Spec.Store.exec, hv, hs, absR, sFalse_eq, hR]

theorem sim_arrayJoin (fuel) (hR : R m s) (args) : Sim fuel m s .arrayJoin args := by
  unfold Sim
  match args with
  | [] => exact sim_err hR
  | [_] => exact sim_err hR
  | h :: sep :: _ =>
    rcases hR.cases h with ⟨hv, hs⟩ | ⟨l, hv, hs⟩ | ⟨mm, hv, hs⟩ | ⟨x, hv, hs⟩ <;>
      simp [exec, cmdArrayJoin, Spec.Store.exec, readVec, hv, hs, absR, joinStr_eq, hR]

theorem lists_vecs (hR : R m s) (hs : List Str) :
    (lists? m.tbl hs).map (fun ls => ls.map fun l => l.map Item.render) = Spec.Store.vecs? s.store hs := by
  induction hs with
  | nil => rfl
  | cons h r ih =>
    rcases hR.cases h with ⟨hv, hst⟩ | ⟨l, hv, hst⟩ | ⟨mm, hv, hst⟩ | ⟨x, hv, hst⟩ <;>
      simp only [lists?, Spec.Store.vecs?, hv, hst, Option.map_none]
    rw [← ih]
    cases lists? m.tbl r <;> simp

theorem sim_arrayConcat (fuel) (hR : R m s) (args) : Sim fuel m s .arrayConcat args := by
  unfold Sim
  have e := lists_vecs hR args
  simp only [exec, cmdArrayConcat, Spec.Store.exec]
  cases hl : lists? m.tbl args with
  | none =>
    rw [hl] at e
    simp only [Option.map_none] at e
    rw [← e]
    exact sim_err hR
  | some ls =>
    rw [hl] at e
    simp only [Option.map_some] at e
    rw [← e]
    exact hR.alloc _ _ (by simp [absV, List.map_flatten, Function.comp_def])

/-! ### maps -/

theorem sim_map (fuel) (hR : R m s) (args) : Sim fuel m s .map args := by
  have := hR.alloc (.map []) (.map []) (by simp [absV, absM])
  simpa [Sim, exec, cmdMap, Spec.Store.exec] using this

theorem sim_mapPut (fuel) (hR : R m s) (args) : Sim fuel m s .mapPut args := by
  unfold Sim
  match args with
  | [] => exact sim_err hR
  | [_] => exact sim_err hR
  | [_, _] => exact sim_err hR
  | h :: k :: v :: _ =>
    simp only [exec, cmdMapPut, Spec.Store.exec]
    exact sim_onMap hR h _ okTrue _ rfl (by intro l; simp [okTrue, absR, sTrue_eq, absM_put])

theorem sim_mapGet (fuel) (hR : R m s) (args) : Sim fuel m s .mapGet args := by
  unfold Sim
  match args with
  | [] => exact sim_err hR
  | [_] => exact sim_err hR
  | h :: k :: _ =>
    simp only [exec, cmdMapGet, Spec.Store.exec]
    exact sim_onMap hR h _ id _ rfl (by intro l; simp [absR, absM_lookup])

theorem sim_mapRemove (fuel) (hR : R m s) (args) : Sim fuel m s .mapRemove args := by
  unfold Sim
  match args with
  | [] => exact sim_err hR
  | [_] => exact sim_err hR
  | h :: k :: _ =>
    simp only [exec, cmdMapRemove, Spec.Store.exec]
    exact sim_onMap hR h _ id _ rfl (by intro l; simp [absR, absM_lookup, absM_del])

theorem sim_mapClear (fuel) (hR : R m s) (args) : Sim fuel m s .mapClear args := by
  unfold Sim
  match args with
  | [] => exact sim_err hR
  | h :: _ =>
    simp only [exec, cmdMapClear, Spec.Store.exec]
    exact sim_onMap hR h _ okTrue _ rfl (by intro l; simp [okTrue, absR, sTrue_eq, absM])

theorem sim_mapSize (fuel) (hR : R m s) (args) : Sim fuel m s .mapSize args := by
  unfold Sim
  match args with
  | [] => exact sim_err hR
  | h :: _ =>
    rcases hR.cases h with ⟨hv, hs⟩ | ⟨l, hv, hs⟩ | ⟨mm, hv, hs⟩ | ⟨x, hv, hs⟩ <;>
      simp [exec, cmdMapSize, Spec.Store.exec, readMap, hv, hs, absR, natStr_eq, absM_length, hR]

theorem sim_mapIsEmpty (fuel) (hR : R m s) (args) : Sim fuel m s .mapIsEmpty args := by
  unfold Sim
  match args with
  | [] => exact sim_err hR
  | h :: _ =>
    rcases hR.cases h with ⟨hv, hs⟩ | ⟨l, hv, hs⟩ | ⟨mm, hv, hs⟩ | ⟨x, hv, hs⟩ <;>
      simp [exec, cmdMapIsEmpty, Spec.Store.exec, readMap, hv, hs, absR, boolStr_eq, absM_isEmpty, hR]

theorem sim_mapContainsKey (fuel) (hR : R m s) (args) : Sim fuel m s .mapContainsKey args := by
  unfold Sim
  match args with
  | [] => exact sim_err hR
  | [_] => exact sim_err hR
  | h :: k :: _ =>
    rcases hR.cases h with ⟨hv, hs⟩ | ⟨l, hv, hs⟩ | ⟨mm, hv, hs⟩ | ⟨x, hv, hs⟩ <;>
      simp [exec, cmdMapContainsKey, Spec.Store.exec, readMap, hv, hs, absR, boolStr_eq, absM_lookup, hR]

theorem sim_mapContainsValue (fuel) (hR : R m s) (args) : Sim fuel m s .mapContainsValue args := by
  unfold Sim
  match args with
  | [] => exact sim_err hR
  | [_] => exact sim_err hR
  | h :: v :: _ =>
    rcases hR.cases h with ⟨hv, hs⟩ | ⟨l, hv, hs⟩ | ⟨mm, hv, hs⟩ | ⟨x, hv, hs⟩ <;>
      simp [exec, cmdMapContainsValue, Spec.Store.exec, readMap, hv, hs, absR, boolStr_eq, absM_vals, hR]

theorem sim_mapKeys (fuel) (hR : R m s) (args) : Sim fuel m s .mapKeys args := by
  unfold Sim
  match args with
  | [] => exact sim_err hR
  | h :: _ =>
    rcases hR.cases h with ⟨hv, hs⟩ | ⟨l, hv, hs⟩ | ⟨mm, hv, hs⟩ | ⟨x, hv, hs⟩
    · simp [exec, cmdMapKeys, Spec.Store.exec, hv, hs, absR, hR]
    · simp [exec, cmdMapKeys, Spec.Store.exec, hv, hs, absR, hR]
    · simp only [exec, cmdMapKeys, Spec.Store.exec, hv, hs]
      exact hR.alloc _ _ (by simp [absV, sortStr_eq, absM_keys])
    · simp [exec, cmdMapKeys, Spec.Store.exec, hv, hs, absR, hR]

/-! ### sets -/

theorem sim_setNew (fuel) (hR : R m s) (args) : Sim fuel m s .setNew args := by
  have := hR.alloc (.set (sinsertAll [] args)) (.set (Spec.Store.addAll [] args)) (by simp [absV, sinsertAll_eq])
  simpa [Sim, exec, cmdSetNew, Spec.Store.exec] using this

theorem sim_setPut (fuel) (hR : R m s) (args) : Sim fuel m s .setPut args := by
  unfold Sim
  match args with
  | [] => exact sim_err hR
  | h :: vs =>
    simp only [exec, cmdSetPut, Spec.Store.exec]
    exact sim_onSet hR h _ okTrue _ rfl (by intro l; simp [okTrue, absR, sTrue_eq, sinsertAll_eq])

theorem sim_setRemove (fuel) (hR : R m s) (args) : Sim fuel m s .setRemove args := by
  unfold Sim
  match args with
  | [] => exact sim_err hR
  | [_] => exact sim_err hR
  | h :: v :: _ =>
    simp only [exec, cmdSetRemove, Spec.Store.exec]
    exact sim_onSet hR h _ id _ rfl (by intro l; simp [absR, boolStr_eq, sremove])

theorem sim_setContains (fuel) (hR : R m s) (args) : Sim fuel m s .setContains args := by
  unfold Sim
  match args with
  | [] => exact sim_err hR
  | [_] => exact sim_err hR
  | h :: v :: _ =>
    simp only [exec, cmdSetContains, Spec.Store.exec]
    exact sim_onSet hR h _ id _ rfl (by intro l; simp [absR, boolStr_eq])

theorem sim_setClear (fuel) (hR : R m s) (args) : Sim fuel m s .setClear args := by
  unfold Sim
  match args with
  | [] => exact sim_err hR
  | h :: _ =>
    simp only [exec, cmdSetClear, Spec.Store.exec]
    exact sim_onSet hR h _ okTrue _ rfl (by intro l; simp [okTrue, absR, sTrue_eq])

theorem sim_setSize (fuel) (hR : R m s) (args) : Sim fuel m s .setSize args := by
  unfold Sim
  match args with
  | [] => exact sim_err hR
  | h :: _ =>
    rcases hR.cases h with ⟨hv, hs⟩ | ⟨l, hv, hs⟩ | ⟨mm, hv, hs⟩ | ⟨x, hv, hs⟩ <;>
      simp [exec, cmdSetSize, Spec.Store.exec, readSet, hv, hs, absR, natStr_eq, hR]

theorem sim_setIsEmpty (fuel) (hR : R m s) (args) : Sim fuel m s .setIsEmpty args := by
  unfold Sim
  match args with
  | [] => exact sim_err hR
  | h :: _ =>
    rcases hR.cases h with ⟨hv, hs⟩ | ⟨l, hv, hs⟩ | ⟨mm, hv, hs⟩ | ⟨x, hv, hs⟩ <;>
      simp [exec, cmdSetIsEmpty, Spec.Store.exec, readSet, hv, hs, absR, boolStr_eq, hR]

theorem sim_setToArray (fuel) (hR : R m s) (args) : Sim fuel m s .setToArray args := by
  unfold Sim
  match args with
  | [] => exact sim_err hR
  | h :: _ =>
    rcases hR.cases h with ⟨hv, hs⟩ | ⟨l, hv, hs⟩ | ⟨mm, hv, hs⟩ | ⟨x, hv, hs⟩
    · simp [exec, cmdSetToArray, Spec.Store.exec, hv, hs, absR, hR]
    · simp [exec, cmdSetToArray, Spec.Store.exec, hv, hs, absR, hR]
    · simp [exec, cmdSetToArray, Spec.Store.exec, hv, hs, absR, hR]
    · simp only [exec, cmdSetToArray, Spec.Store.exec, hv, hs]
      exact hR.alloc _ _ (by simp [absV, sortStr_eq])

theorem sim_setFromArray (fuel) (hR : R m s) (args) : Sim fuel m s .setFromArray args := by
  unfold Sim
  match args with
  | [] => exact sim_err hR
  | h :: _ =>
    rcases hR.cases h with ⟨hv, hs⟩ | ⟨l, hv, hs⟩ | ⟨mm, hv, hs⟩ | ⟨x, hv, hs⟩
    · simp [exec, cmdSetFromArray, Spec.Store.exec, hv, hs, absR, hR]
    · simp only [exec, cmdSetFromArray, Spec.Store.exec, hv, hs]
      exact hR.alloc _ _ (by simp [absV, sinsertAll_eq])
    · simp [exec, cmdSetFromArray, Spec.Store.exec, hv, hs, absR, hR]
    · simp [exec, cmdSetFromArray, Spec.Store.exec, hv, hs, absR, hR]

/-! ### kind tests -/

theorem sim_isArray (fuel) (hR : R m s) (args) : Sim fuel m s .isArray args := by
  unfold Sim
  match args with
  | [] => exact sim_err hR
  | h :: _ =>
    rcases hR.cases h with ⟨hv, hs⟩ | ⟨l, hv, hs⟩ | ⟨mm, hv, hs⟩ | ⟨x, hv, hs⟩ <;>
      simp [exec, cmdIsArray, Spec.Store.exec, hv, hs, absR, sTrue_eq, sFalse_eq, Spec.Store.bool, hR]

theorem sim_isMap (fuel) (hR : R m s) (args) : Sim fuel m s .isMap args := by
  unfold Sim
  match args with
  | [] => exact sim_err hR
  | h :: _ =>
    rcases hR.cases h with ⟨hv, hs⟩ | ⟨l, hv, hs⟩ | ⟨mm, hv, hs⟩ | ⟨x, hv, hs⟩ <;>
      simp [exec, cmdIsMap, Spec.Store.exec, hv, hs, absR, sTrue_eq, sFalse_eq, Spec.Store.bool, hR]

theorem sim_isSet (fuel) (hR : R m s) (args) : Sim fuel m s .isSet args := by
  unfold Sim
  match args with
  | [] => exact sim_err hR
  | h :: _ =>
    rcases hR.cases h with ⟨hv, hs⟩ | ⟨l, hv, hs⟩ | ⟨mm, hv, hs⟩ | ⟨x, hv, hs⟩ <;>
      simp [exec, cmdIsSet, Spec.Store.exec, hv, hs, absR, sTrue_eq, sFalse_eq, Spec.Store.bool, hR]

/-! ### release (one handle) -/

theorem isSome_agree (hR : R m s) (h : Str) : (tget m.tbl h).isSome = (s.store h).isSome := by
  rcases hR.cases h with ⟨hv, hs⟩ | ⟨l, hv, hs⟩ | ⟨mm, hv, hs⟩ | ⟨x, hv, hs⟩ <;> simp [hv, hs]

theorem isRecFlag_eq (a : Str) : isRecFlag a = Spec.Store.recFlag a := rfl

theorem sim_release_plain (fuel) (hR : R m s) (args : List Str)
    (hnr : ∀ a b r, args = a :: b :: r → isRecFlag a = false) : Sim fuel m s .release args := by
  unfold Sim
  match args, hnr with
  | [], _ => simp [exec, cmdRelease, Spec.Store.exec, absR, sFalse_eq, hR]
  | [a], _ =>
    simp only [exec, cmdRelease, Spec.Store.exec, absR, boolStr_eq, isSome_agree hR a, and_true]
    exact hR.remove a
  | a :: b :: r, hnr =>
    have hf := hnr a b r rfl
    have hf' : Spec.Store.recFlag a = false := by rw [← isRecFlag_eq]; exact hf
    simp only [exec, cmdRelease, Spec.Store.exec, hf, hf', absR, boolStr_eq, isSome_agree hR a,
      Bool.false_eq_true, if_false, and_true]
    exact hR.remove a

end Duck.Coll
