/-
  C12: the recursive release of the implementation model (follows `StateValue::String` cells
  only, table = association list, fuel) against the reference model's transitive release
  (follows every member string, store = function, fuel).
-/
import DuckModel.Lemmas.CollectionsSim

namespace Duck.Coll
open Duck
open Duck.Spec.Store (Coll Out Store upd releaseRec releaseAll members)

/-- a decimal numeral (what a `range` cell renders to) is never a handle -/
theorem numeral_ne_handle (i : Int) (k : Nat) : (toString i).toList ≠ handleName k := by
  intro e
  cases i with
  | ofNat n =>
    have e1 : (Nat.repr n).toList = handleName k := e
    rw [Nat.toList_repr] at e1
    have hm : 'h' ∈ Nat.toDigits 10 n := by rw [e1]; simp [handleName, handlePrefix]
    have := Nat.isDigit_of_mem_toDigits (by decide) (by decide) hm
    revert this; decide
  | negSucc n =>
    have e1 : ("-" ++ Nat.repr (n + 1)).toList = handleName k := e
    simp [handleName, handlePrefix] at e1

/-- the relation `R` with the counter made explicit (release does not touch the counter) -/
def RT (n : Nat) (t : Table) (σ : Store) : Prop := R ⟨t, n⟩ ⟨σ, n⟩

def RecRel (n : Nat) : Option (Table × Bool) → Option (Store × Bool) → Prop
  | some (t', b), some (σ', b') => RT n t' σ' ∧ b = b'
  | none, none => True
  | _, _ => False

def AllRel (n : Nat) : Option Table → Option Store → Prop
  | some t', some σ' => RT n t' σ'
  | none, none => True
  | _, _ => False

def strOf : Item → Option Str
  | .str x => some x
  | .num _ => none

theorem children_list (l : List Item) : children (.list l) = l.filterMap strOf := by
  simp only [children]; congr
theorem children_map (mm : List (Str × Item)) : children (.map mm) = (mm.map Prod.snd).filterMap strOf := by
  simp only [children, List.filterMap_map]; congr 1; funext x; obtain ⟨a, b⟩ := x; cases b <;> rfl
theorem children_set (x : List Str) : children (.set x) = (x.map Item.str).filterMap strOf := by
  simp only [children, List.filterMap_map]
  have e : (strOf ∘ Item.str) = some := rfl
  rw [e, List.filterMap_some]

theorem members_map (mm : List (Str × Item)) :
    members (.map (absM mm)) = (mm.map Prod.snd).map Item.render := by
  simp [members, absM, Function.comp_def]

/-- a numeral is not live -/
theorem RT.numeral_free {n : Nat} {t : Table} {σ : Store} (h : RT n t σ) (i : Int) :
    σ (toString i).toList = none := by
  rcases R.cases h (toString i).toList with ⟨_, hs⟩ | ⟨l, hv, _⟩ | ⟨mm, hv, _⟩ | ⟨x, hv, _⟩
  · exact hs
  all_goals
    obtain ⟨k, _, e⟩ := h.fresh (toString i).toList (fun e0 => by
      have := e0.symm.trans hv; cases this)
    exact absurd e (numeral_ne_handle i k)

theorem releaseRec_absent (fuel : Nat) (σ : Store) (h : Str) (hn : σ h = none) :
    releaseRec fuel σ h = some (σ, false) := by
  cases fuel <;> simp [releaseRec, hn]

/-- the loops over the stored strings, given the simulation for single handles at this fuel -/
theorem sim_all (n fuel : Nat)
    (ih : ∀ t σ k, RT n t σ → RecRel n (removeRec fuel t k) (releaseRec fuel σ k))
    (items : List Item) (t : Table) (σ : Store) (h : RT n t σ) :
    AllRel n (removeAll (removeRec fuel) (items.filterMap strOf) t)
      (releaseAll (releaseRec fuel) (items.map Item.render) σ) := by
  induction items generalizing t σ with
  | nil => exact h
  | cons it r ihl =>
    cases it with
    | num i =>
      have e := releaseRec_absent fuel σ _ (h.numeral_free i)
      simp only [List.filterMap, strOf, List.map, Item.render, releaseAll, e]
      exact ihl t σ h
    | str x =>
      have s1 := ih t σ x h
      simp only [List.filterMap, strOf, List.map, Item.render, releaseAll, removeAll]
      cases e1 : removeRec fuel t x with
      | none =>
        cases e2 : releaseRec fuel σ x with
        | none => simp [AllRel]
        | some q => rw [e1, e2] at s1; exact absurd s1 (by simp [RecRel])
      | some p =>
        cases e2 : releaseRec fuel σ x with
        | none => rw [e1, e2] at s1; obtain ⟨a, b⟩ := p; exact absurd s1 (by simp [RecRel])
        | some q =>
          obtain ⟨t1, b1⟩ := p
          obtain ⟨σ1, b2⟩ := q
          rw [e1, e2] at s1
          exact ihl t1 σ1 s1.1

theorem AllRel.map_true {n : Nat} {a : Option Table} {b : Option Store} (h : AllRel n a b) :
    RecRel n (a.map fun t' => (t', true)) (b.map fun σ' => (σ', true)) := by
  cases a <;> cases b <;> simp_all [AllRel, RecRel]

/-- recursive release: the two models agree at every fuel (same result, or both out of fuel) -/
theorem sim_rec (n fuel : Nat) : ∀ (t : Table) (σ : Store) (k : Str), RT n t σ →
    RecRel n (removeRec fuel t k) (releaseRec fuel σ k) := by
  induction fuel with
  | zero =>
    intro t σ k h
    rcases R.cases h k with ⟨hv, hs⟩ | ⟨l, hv, hs⟩ | ⟨mm, hv, hs⟩ | ⟨x, hv, hs⟩ <;>
      simp only [removeRec, releaseRec] at * <;> simp only [hv, hs, RecRel, and_true]
    exact R.of_lookupEq h (lookupEq_remove_absent _ _ hv)
  | succ f ih =>
    intro t σ k h
    have hrem : RT n (tremove t k) (upd σ k none) := R.remove h k
    rcases R.cases h k with ⟨hv, hs⟩ | ⟨l, hv, hs⟩ | ⟨mm, hv, hs⟩ | ⟨x, hv, hs⟩ <;>
      simp only [removeRec, releaseRec] at * <;> simp only [hv, hs]
    · simp only [RecRel, and_true]
      exact R.of_lookupEq h (lookupEq_remove_absent _ _ hv)
    · rw [children_list]
      exact (sim_all n f ih l _ _ hrem).map_true
    · rw [children_map, members_map]
      exact (sim_all n f ih (mm.map Prod.snd) _ _ hrem).map_true
    · rw [children_set]
      have := sim_all n f ih (x.map Item.str) _ _ hrem
      simp only [map_render_str] at this
      exact this.map_true

/-- more fuel never changes a result of the reference model's release -/
theorem releaseAll_mono (f : Nat)
    (ih : ∀ σ k r, releaseRec f σ k = some r → releaseRec (f + 1) σ k = some r)
    (cs : List Str) (σ σ' : Store) (h : releaseAll (releaseRec f) cs σ = some σ') :
    releaseAll (releaseRec (f + 1)) cs σ = some σ' := by
  induction cs generalizing σ with
  | nil => exact h
  | cons c r ihc =>
    simp only [releaseAll] at h ⊢
    cases e : releaseRec f σ c with
    | none => rw [e] at h; cases h
    | some p =>
      obtain ⟨σ1, b⟩ := p
      rw [e] at h
      rw [ih σ c _ e]
      exact ihc σ1 h

theorem releaseRec_succ (f : Nat) (σ : Store) (h : Str) :
    releaseRec (f + 1) σ h =
      match σ h with
      | none => some (σ, false)
      | some c => (releaseAll (releaseRec f) (members c) (upd σ h none)).map fun σ' => (σ', true) := rfl

theorem releaseRec_mono_succ (f : Nat) : ∀ σ k r, releaseRec f σ k = some r → releaseRec (f + 1) σ k = some r := by
  induction f with
  | zero =>
    intro σ k r h
    cases hs : σ k with
    | none => simp [releaseRec, hs] at h ⊢; exact h
    | some c => simp [releaseRec, hs] at h
  | succ f ih =>
    intro σ k r h
    rw [releaseRec_succ] at h ⊢
    cases hs : σ k with
    | none => rw [hs] at h; simpa using h
    | some c =>
      rw [hs] at h
      simp only [] at h ⊢
      cases e : releaseAll (releaseRec f) (members c) (upd σ k none) with
      | none => rw [e] at h; cases h
      | some σ' =>
        rw [e] at h
        rw [releaseAll_mono f ih _ _ _ e]
        exact h

theorem releaseRec_mono {f f' : Nat} (hle : f ≤ f') (σ : Store) (k : Str) (r : Store × Bool)
    (h : releaseRec f σ k = some r) : releaseRec f' σ k = some r := by
  induction hle with
  | refl => exact h
  | step _ ih => exact releaseRec_mono_succ _ σ k r ih

/-- `release` in all its forms, provided the reference model's bound is at least the number
    of table entries -/
theorem sim_release (fuel : Nat) {m : St} {s : Spec.Store.St} (hR : R m s) (args : List Str)
    (hf : m.tbl.length ≤ fuel) : Sim fuel m s .release args := by
  match args with
  | [] => exact sim_release_plain fuel hR _ (by intro a b r e; cases e)
  | [_] => exact sim_release_plain fuel hR _ (by intro a b r e; cases e)
  | a :: b :: r =>
  by_cases hfl : isRecFlag a = true
  case neg =>
    exact sim_release_plain fuel hR _ (by intro a' b' r' e; cases e; simpa using hfl)
  case pos =>
    have hfl' : isRecFlag a = true := hfl
    have hfs : Spec.Store.recFlag a = true := by rw [← isRecFlag_eq]; exact hfl'
    obtain ⟨t', bb, e1, _, _⟩ := removeRec_total m.tbl.length m.tbl b (Nat.le_refl _)
    have hRT : RT m.next m.tbl s.store := by
      have : (⟨s.store, m.next⟩ : Spec.Store.St) = s := by cases s; simp [hR.next]
      unfold RT; rw [this]; exact hR
    have s1 := sim_rec m.next m.tbl.length m.tbl s.store b hRT
    rw [e1] at s1
    cases e2 : releaseRec m.tbl.length s.store b with
    | none => rw [e2] at s1; exact absurd s1 (by simp [RecRel])
    | some q =>
      obtain ⟨σ', b'⟩ := q
      rw [e2] at s1
      have e3 := releaseRec_mono hf _ _ _ e2
      unfold Sim
      simp only [exec, cmdRelease, Spec.Store.exec, hfl', hfs, if_true, e1, e3, absR, boolStr_eq, s1.2, and_true]
      have : R ⟨t', m.next⟩ ⟨σ', m.next⟩ := s1.1
      exact ⟨hR.next, this.look, this.fresh⟩

end Duck.Coll
