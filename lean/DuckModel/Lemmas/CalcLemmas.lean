/-
  Helper lemmas for the C16 `calc` theorems (Props/C16Calc.lean): the fraction type of
  Sdk/Calc.lean against Lean core's `Rat`.
-/
import DuckModel.Sdk.Calc

namespace Duck.Calc
open Duck Duck.Spec

/-- the rational number a fraction stands for -/
def Frac.val (f : Frac) : Rat := mkRat f.num f.den

/-- positive denominator, lowest terms -/
def Frac.WF (f : Frac) : Prop := f.den ≠ 0 ∧ f.num.natAbs.gcd f.den = 1

/-- numerator and denominator of a rational number -/
def Frac.ofRat (r : Rat) : Frac := ⟨r.num, r.den⟩

namespace Frac

theorem ofRat_val (r : Rat) : (ofRat r).val = r := Rat.mkRat_self r

theorem ofRat_WF (r : Rat) : (ofRat r).WF := ⟨r.den_nz, r.reduced⟩

theorem norm_eq_ofRat (n : Int) (d : Nat) (hd : d ≠ 0) : norm n d = ofRat (mkRat n d) := by
  simp [norm, ofRat, Rat.num_mkRat, Rat.den_mkRat, hd]

theorem WF.eq_ofRat {f : Frac} (h : f.WF) : f = ofRat f.val := by
  obtain ⟨hd, hg⟩ := h
  have hg' : f.den.gcd f.num.natAbs = 1 := by rw [Nat.gcd_comm]; exact hg
  cases f with
  | mk n d =>
    simp only [ofRat, val, Rat.num_mkRat, Rat.den_mkRat] at *
    simp [hd, hg']

/-- lowest terms are canonical: equal values, equal numerators and denominators -/
theorem val_injective {a b : Frac} (ha : a.WF) (hb : b.WF) (h : a.val = b.val) : a = b := by
  rw [ha.eq_ofRat, hb.eq_ofRat, h]

theorem norm_one (v : Int) : norm v 1 = ofInt v := by
  simp [norm, ofInt, Nat.gcd_one_left]

theorem ofInt_eq_ofRat (v : Int) : ofInt v = ofRat (v : Rat) := rfl

theorem add_eq (a b : Frac) (ha : a.den ≠ 0) (hb : b.den ≠ 0) :
    a.add b = ofRat (a.val + b.val) := by
  unfold add val
  rw [norm_eq_ofRat _ _ (Nat.mul_ne_zero ha hb), Rat.mkRat_add_mkRat _ _ ha hb]

theorem neg_eq (a : Frac) (ha : a.WF) : a.neg = ofRat (- a.val) := by
  have h1 : a.neg.WF := ⟨ha.1, by simpa [neg] using ha.2⟩
  rw [h1.eq_ofRat]
  simp [val, neg, Rat.neg_mkRat]

theorem sub_eq (a b : Frac) (ha : a.den ≠ 0) (hb : b.den ≠ 0) :
    a.sub b = ofRat (a.val - b.val) := by
  unfold sub val
  rw [norm_eq_ofRat _ _ (Nat.mul_ne_zero ha hb), Rat.sub_eq_add_neg, Rat.neg_mkRat,
    Rat.mkRat_add_mkRat _ _ ha hb]
  congr 2
  rw [Int.neg_mul, Int.sub_eq_add_neg]

theorem mul_eq (a b : Frac) (ha : a.den ≠ 0) (hb : b.den ≠ 0) :
    a.mul b = ofRat (a.val * b.val) := by
  unfold mul val
  rw [norm_eq_ofRat _ _ (Nat.mul_ne_zero ha hb), Rat.mkRat_mul_mkRat]

theorem mkRat_pow (n : Int) (d : Nat) (k : Nat) : mkRat (n ^ k) (d ^ k) = (mkRat n d) ^ k := by
  induction k with
  | zero => simp [Rat.pow_zero]; rfl
  | succ k ih => rw [Rat.pow_succ, ← ih, Rat.mkRat_mul_mkRat, Int.pow_succ, Nat.pow_succ]

theorem pow_eq (a : Frac) (k : Nat) (ha : a.den ≠ 0) : a.pow k = ofRat (a.val ^ k) := by
  unfold pow val
  rw [norm_eq_ofRat _ _ (Nat.pos_iff_ne_zero.mp (Nat.pow_pos (Nat.pos_of_ne_zero ha))), mkRat_pow]

end Frac

/-- ordinary arithmetic on fractions computes the numerator and the denominator of the value
    in ℚ -/
theorem evalQ_eq (e : Expr) : evalQ e = Frac.ofRat e.denote := by
  induction e with
  | int n => rfl
  | dec m k =>
    simp only [evalQ, Expr.denote]
    exact Frac.norm_eq_ofRat _ _ (Nat.pos_iff_ne_zero.mp (Nat.pow_pos (by decide)))
  | add a b iha ihb =>
    simp only [evalQ, Expr.denote, iha, ihb]
    rw [Frac.add_eq _ _ (Rat.den_nz _) (Rat.den_nz _), Frac.ofRat_val, Frac.ofRat_val]
  | sub a b iha ihb =>
    simp only [evalQ, Expr.denote, iha, ihb]
    rw [Frac.sub_eq _ _ (Rat.den_nz _) (Rat.den_nz _), Frac.ofRat_val, Frac.ofRat_val]
  | mul a b iha ihb =>
    simp only [evalQ, Expr.denote, iha, ihb]
    rw [Frac.mul_eq _ _ (Rat.den_nz _) (Rat.den_nz _), Frac.ofRat_val, Frac.ofRat_val]
  | neg a iha =>
    simp only [evalQ, Expr.denote, iha]
    rw [Frac.neg_eq _ (Frac.ofRat_WF _), Frac.ofRat_val]
  | pow a n iha =>
    simp only [evalQ, Expr.denote, iha]
    rw [Frac.pow_eq _ _ (Rat.den_nz _), Frac.ofRat_val]

theorem evalQ_WF (e : Expr) : (evalQ e).WF := by rw [evalQ_eq]; exact Frac.ofRat_WF _

end Duck.Calc
