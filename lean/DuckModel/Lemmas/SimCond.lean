/-
  Helper lemmas for the C04 simulation theorem — conditions of the simple2 fragment:
  the re-serialisation round trip of safe bound values (C09), the nested mini-runner on the
  appended condition instruction, the pure condition commands and `not`, and what a condition
  evaluates to for EVERY fuel of the nested evaluator (`CondEvalsTo`, `cond_eval`).
-/
import DuckModel.Lemmas.SimInv
import DuckModel.Lemmas.ReserializeLemmas
import DuckModel.Spec.TreeCmdCond
namespace Duck
open Duck.Spec Duck.Generated Duck.Reser

/-- the instruction a safe condition line is re-parsed to -/
def condInstr (cmd : Str) (vals : List Str) : Instruction :=
  ⟨meta1, .script { label := none, output := none, command := some cmd,
                    args := if vals = [] then none else some vals }⟩

theorem evalParse_safe (cmd : Str) (vals : List Str) (hc : cmdOK cmd = true)
    (hs : ∀ v ∈ vals, Safe v = true) (hp : positionOK vals = true) :
    evalParse (cmd :: vals) = some (condInstr cmd vals) :=
  evalParse_of_parseLine cmd vals _ (parseLine_serialized cmd vals hc hs hp)
    (by intro c x he; cases he)

theorem bind_safe (vars : Vars) (vals : List Str) (hs : ∀ v ∈ vals, Safe v = true) :
    bind vars (if vals = [] then none else some vals) = vals :=
  bind_plain vars vals (fun v hv => ((safe_iff v).mp (hs v hv)).1.1)

theorem getElem_append_last {α : Type} (l : List α) (x : α) : (l ++ [x])[l.length]? = some x := by
  simp

theorem getElem_append_past {α : Type} (l : List α) (x : α) : (l ++ [x])[l.length + 1]? = none := by
  simp


theorem evalInstrsF_succ (f : Nat) (is : List Instruction) (line : Nat) (vars : Vars) (s : Sdk) :
    evalInstrsF (f + 1) is line vars s =
      evalInstrsF.go f (evalInstrsF f) (f + 1) is line vars s none := rfl

theorem go_zero (fuel : Nat) (nested : EvalFn) (is : List Instruction) (line : Nat) (vars : Vars)
    (s : Sdk) (o : Option Str) :
    evalInstrsF.go fuel nested 0 is line vars s o = (some (.crash "fuel".toList), none, vars, s) := rfl

theorem go_past (fuel : Nat) (nested : EvalFn) (n : Nat) (is : List Instruction) (x : Instruction)
    (vars : Vars) (s : Sdk) (o : Option Str) :
    evalInstrsF.go fuel nested (n + 1) (is ++ [x]) (is.length + 1) vars s o = (none, o, vars, s) := by
  simp only [evalInstrsF.go, getElem_append_past]

/-- one pass of the mini-runner over the appended condition instruction whose command `c` is run
    with the (re-bound) values -/
theorem go_last (fuel : Nat) (nested : EvalFn) (n : Nat) (is : List Instruction) (cmd : Str)
    (vals : List Str) (vars : Vars) (s : Sdk) (o : Option Str) (c : Cmd)
    (hs : ∀ x ∈ vals, Safe x = true) (hres : resolveCmd s cmd = some c) :
    evalInstrsF.go fuel nested (n + 1) (is ++ [condInstr cmd vals]) is.length vars s o =
      match runCmdF nested (is ++ [condInstr cmd vals]) 3 c vals none is.length vars s with
      | (.exit v, vars', s') => (some (.exit v), o, vars', s')
      | (.error e, vars', s') => (some (.error e), o, vars', s')
      | (.crash e, vars', s') => (some (.crash e), o, vars', s')
      | (.goTo v (.label _), vars', s') => (some (.error []), v, vars', s')
      | (.goTo v (.line l), vars', s') =>
        evalInstrsF.go fuel nested n (is ++ [condInstr cmd vals]) l vars' s' v
      | (.continue v, vars', s') =>
        evalInstrsF.go fuel nested n (is ++ [condInstr cmd vals]) (is.length + 1) vars' s' v := by
  simp only [evalInstrsF.go, getElem_append_last]
  simp only [condInstr, runInstruction, sdkSem, hres, bind_safe vars vals hs]
  generalize runCmdF nested _ 3 c vals none is.length vars s = R
  obtain ⟨r, v1, s1⟩ := R
  cases r with
  | «continue» v => rfl
  | goTo v g => cases g <;> rfl
  | error e => rfl
  | crash e => rfl
  | «exit» v => rfl

/-! ### `evalCondition` on the command path -/

/-- how `eval_condition` reads the outcome of the nested mini-runner -/
def condOfNested (R : Option CmdResult × Option Str × Vars × Sdk) : Except Unit Bool × Vars × Sdk :=
  match R with
  | (some (.continue v), _, vars', s') => (.ok (isTrue v), vars', s')
  | (some _, _, vars', s') => (.error (), vars', s')
  | (none, out, vars', s') => (.ok (isTrue out), vars', s')

theorem evalCondition_cmd (f : Nat) (is : List Instruction) (cmd : Str) (vals : List Str) (vars : Vars)
    (s : Sdk) (c : Cmd) (hc : cmdOK cmd = true) (hs : ∀ x ∈ vals, Safe x = true)
    (hp : positionOK vals = true) (hres : resolveCmd s cmd = some c) :
    evalCondition (evalInstrsF f) is (cmd :: vals) vars s =
      condOfNested (evalInstrsF f (is ++ [condInstr cmd vals]) is.length vars s) := by
  unfold evalCondition
  simp only [hres, Option.isSome_some, if_true, evalParse_safe cmd vals hc hs hp, List.length_append,
    List.length_singleton, Nat.add_sub_cancel]
  generalize evalInstrsF f (is ++ [condInstr cmd vals]) is.length vars s = R
  obtain ⟨r, o, v1, s1⟩ := R
  cases r with
  | none => rfl
  | some r => cases r <;> rfl

/-- fuel 0 or 1: the verdict is an error -/
theorem evalCondition_cmd_low (f : Nat) (hf : f ≤ 1) (is : List Instruction) (cmd : Str) (vals : List Str)
    (vars : Vars) (s : Sdk) (c : Cmd) (hc : cmdOK cmd = true) (hs : ∀ x ∈ vals, Safe x = true)
    (hp : positionOK vals = true) (hres : resolveCmd s cmd = some c) :
    (evalCondition (evalInstrsF f) is (cmd :: vals) vars s).1 = .error () := by
  rw [evalCondition_cmd f is cmd vals vars s c hc hs hp hres]
  cases f with
  | zero => rfl
  | succ f =>
    have : f = 0 := by omega
    subst this
    rw [evalInstrsF_succ, go_last 0 _ 0 is cmd vals vars s none c hs hres]
    generalize runCmdF (evalInstrsF 0) _ 3 c vals none is.length vars s = R
    obtain ⟨r, v1, s1⟩ := R
    cases r with
    | «continue» v => rfl
    | goTo v g => cases g <;> rfl
    | error e => rfl
    | crash e => rfl
    | «exit» v => rfl

theorem evalCondition_cmd_continue (f : Nat) (is : List Instruction) (cmd : Str) (vals : List Str)
    (vars : Vars) (s : Sdk) (c : Cmd) (v : Option Str) (vars' : Vars) (s' : Sdk)
    (hc : cmdOK cmd = true) (hs : ∀ x ∈ vals, Safe x = true)
    (hp : positionOK vals = true) (hres : resolveCmd s cmd = some c)
    (hrun : runCmdF (evalInstrsF (f + 1)) (is ++ [condInstr cmd vals]) 3 c vals none is.length vars s =
      (.continue v, vars', s')) :
    evalCondition (evalInstrsF (f + 2)) is (cmd :: vals) vars s = (.ok (isTrue v), vars', s') := by
  rw [evalCondition_cmd (f + 2) is cmd vals vars s c hc hs hp hres, evalInstrsF_succ,
    go_last (f + 1) _ (f + 1) is cmd vals vars s none c hs hres, hrun]
  simp only [go_past]
  rfl

theorem evalCondition_cmd_error (f : Nat) (is : List Instruction) (cmd : Str) (vals : List Str)
    (vars : Vars) (s : Sdk) (c : Cmd) (e : Str) (vars' : Vars) (s' : Sdk)
    (hc : cmdOK cmd = true) (hs : ∀ x ∈ vals, Safe x = true)
    (hp : positionOK vals = true) (hres : resolveCmd s cmd = some c)
    (hrun : runCmdF (evalInstrsF f) (is ++ [condInstr cmd vals]) 3 c vals none is.length vars s =
      (.error e, vars', s')) :
    evalCondition (evalInstrsF (f + 1)) is (cmd :: vals) vars s = (.error (), vars', s') := by
  rw [evalCondition_cmd (f + 1) is cmd vals vars s c hc hs hp hres, evalInstrsF_succ,
    go_last f _ f is cmd vals vars s none c hs hres, hrun]
  rfl

/-! ### the names of the condition commands can be written and survive the round trip -/

theorem pureCondCmd_inv {w : Str} (h : isPureCondCmd w = true) :
    ∃ c, resolveCmd {} w = some c ∧ (c = .equals ∨ c = .lt ∨ c = .emit) := by
  unfold isPureCondCmd at h
  split at h <;> first
    | (rename_i hc; exact ⟨_, hc, by simp⟩)
    | simp at h

theorem notCmd_inv {w : Str} (h : isNotCmd w = true) : resolveCmd {} w = some .notC := by
  unfold isNotCmd at h
  split at h
  · assumption
  · simp at h

def condNames : List Str :=
  ["equals".toList, "eq".toList, "std::string::Equals".toList, "lt".toList, "emit".toList,
   "not".toList, "std::Not".toList]

theorem ite_ne_some {α : Type} (A : Prop) [Decidable A] (a c : α) (r : Option α) (h1 : a ≠ c)
    (h2 : r ≠ some c) : (if A then some a else r) ≠ some c := by
  split
  · intro h; injection h with h; exact h1 h
  · exact h2

theorem ite_ne_some' {α : Type} (A : Prop) [Decidable A] (a c : α) (r : Option α) (h1 : ¬ A)
    (h2 : r ≠ some c) : (if A then some a else r) ≠ some c := by
  rw [if_neg h1]; exact h2

theorem resolve_condName {w : Str} {c : Cmd} (h : resolveCmd {} w = some c)
    (hc : c = .equals ∨ c = .lt ∨ c = .emit ∨ c = .notC) : w ∈ condNames := by
  apply Classical.byContradiction
  intro hn
  revert h
  have hnot : ∀ n, n ∈ condNames → ¬ w = n := fun n hm e => hn (e ▸ hm)
  unfold resolveCmd
  rcases hc with rfl | rfl | rfl | rfl
  all_goals change _ ≠ _
  all_goals
    repeat' first
      | (refine ite_ne_some _ _ _ _ ?_ ?_; · decide)
      | (refine ite_ne_some' _ _ _ _ ?_ ?_
         · intro hw
           simp only [sdkName] at hw
           first
             | exact hnot _ (by decide) hw
             | (rcases hw with hw | hw <;> exact hnot _ (by decide) hw)
             | (rcases hw with hw | hw | hw <;> exact hnot _ (by decide) hw))
      | exact (by simp)

theorem condNames_ok : ∀ w ∈ condNames, cmdOK w = true ∧ Safe w = true := by decide

/-! ### the pure commands and `not` -/

/-- `equals`, `lt`, `emit` only ever append to `emitted`; they end in `continue` or `error` -/
theorem pure_cmd (c : Cmd) (hc : c = .equals ∨ c = .lt ∨ c = .emit) (args : List Str)
    (E : List (List Str)) :
    ∃ (r : CmdResult) (em : List (List Str)),
      (∀ (nested : EvalFn) (is : List Instruction) (out : Option Str) (line : Nat) (vars : Vars)
          (s : Sdk), s.emitted = E →
        runCmdF nested is 3 c args out line vars s = (r, vars, { s with emitted := em })) ∧
      ((∃ v, r = .continue v) ∨ (∃ e, r = .error e)) := by
  have hsc : SimpleCmd c := by
    rcases hc with rfl | rfl | rfl <;> simp [SimpleCmd]
  rcases hc with rfl | rfl | rfl
  · rcases args with _ | ⟨a, _ | ⟨b, rest⟩⟩
    · exact ⟨errR, E, fun _ _ _ _ _ s h3 => by subst h3; rfl, .inr ⟨_, rfl⟩⟩
    · exact ⟨errR, E, fun _ _ _ _ _ s h3 => by subst h3; rfl, .inr ⟨_, rfl⟩⟩
    · exact ⟨.continue (some (if a = b then "true".toList else "false".toList)), E,
        fun _ _ _ _ _ s h3 => by subst h3; rfl, .inl ⟨_, rfl⟩⟩
  · rcases args with _ | ⟨a, _ | ⟨b, _ | ⟨c, rest⟩⟩⟩
    · exact ⟨errR, E, fun _ _ _ _ _ s h3 => by subst h3; rfl, .inr ⟨_, rfl⟩⟩
    · exact ⟨errR, E, fun _ _ _ _ _ s h3 => by subst h3; rfl, .inr ⟨_, rfl⟩⟩
    · cases hx : decDigits? a with
      | none =>
        exact ⟨.continue (some "false".toList), E,
          fun _ _ _ _ _ s h3 => by subst h3; simp only [runCmdF, runCmd, hx], .inl ⟨_, rfl⟩⟩
      | some x =>
        cases hy : decDigits? b with
        | none =>
          exact ⟨.continue (some "false".toList), E,
            fun _ _ _ _ _ s h3 => by subst h3; simp only [runCmdF, runCmd, hx, hy], .inl ⟨_, rfl⟩⟩
        | some y =>
          exact ⟨.continue (some (if x < y then "true".toList else "false".toList)), E,
            fun _ _ _ _ _ s h3 => by subst h3; simp only [runCmdF, runCmd, hx, hy], .inl ⟨_, rfl⟩⟩
    · exact ⟨errR, E, fun _ _ _ _ _ s h3 => by subst h3; rfl, .inr ⟨_, rfl⟩⟩
  · exact ⟨.continue none, E ++ [args], fun _ _ _ _ _ s h3 => by subst h3; rfl, .inl ⟨_, rfl⟩⟩

/-- what `not` makes of the verdict of its condition -/
def notOut (R : Except Unit Bool × Vars × Sdk) : CmdResult × Vars × Sdk :=
  match R with
  | (.error _, vars, s) => (errR, vars, s)
  | (.ok passed, vars, s) =>
    (.continue (some (if passed then "false".toList else "true".toList)), vars, s)

def negRes : Except Unit Bool → Except Unit Bool
  | .ok p => .ok (!p)
  | .error _ => .error ()

theorem runCmdF_not (nested : EvalFn) (is : List Instruction) (args : List Str) (out : Option Str)
    (line : Nat) (vars : Vars) (s : Sdk) (hne : args.isEmpty = false) :
    runCmdF nested is 3 .notC args out line vars s = notOut (evalCondition nested is args vars s) := by
  simp only [runCmdF, runCmd, hne, Bool.false_eq_true, if_false]
  generalize evalCondition nested is args vars s = R
  obtain ⟨r, v, s1⟩ := R
  cases r <;> rfl

theorem isTrue_not (p : Bool) :
    isTrue (some (if p then "false".toList else "true".toList)) = !p := by
  cases p <;> decide

/-! ### what a condition of the fragment evaluates to, for every fuel of the nested evaluator -/

/-- with nested fuel `f ≥ thr` the condition evaluates to `res` and leaves `em` in `emitted`;
    with less fuel it either does the same or ends in an error -/
def CondEvalsTo (args : List Str) (E : List (List Str)) (thr : Nat) (res : Except Unit Bool)
    (em : List (List Str)) : Prop :=
  ∀ (f : Nat) (is : List Instruction) (vars : Vars) (s : Sdk), s.fns = [] → s.emitted = E →
    ((evalCondition (evalInstrsF f) is args vars s).1 = .error () ∨
      evalCondition (evalInstrsF f) is args vars s = (res, vars, { s with emitted := em })) ∧
    (thr ≤ f → evalCondition (evalInstrsF f) is args vars s = (res, vars, { s with emitted := em }))

theorem CondEvalsTo.mono {args : List Str} {E : List (List Str)} {thr thr' : Nat}
    {res : Except Unit Bool} {em : List (List Str)} (h : CondEvalsTo args E thr res em)
    (hle : thr ≤ thr') : CondEvalsTo args E thr' res em :=
  fun f is vars s h1 h2 => ⟨(h f is vars s h1 h2).1, fun hf => (h f is vars s h1 h2).2 (by omega)⟩

theorem condEvals_value (h : Str) (rest : List Str) (E : List (List Str))
    (hn : (resolveCmd {} h).isNone = true) :
    CondEvalsTo (h :: rest) E 0 (condVal (h :: rest)) E := by
  intro f is vars s hf hE
  have := evalCondition_slice (evalInstrsF f) is h rest vars s (resolveCmd_none_of_empty s hf hn)
  have hs : ({ s with emitted := E } : Sdk) = s := by subst hE; rfl
  rw [hs]
  exact ⟨.inr this, fun _ => this⟩

theorem condEvals_pure (cmd : Str) (vals : List Str) (E : List (List Str))
    (hp : isPureCondCmd cmd = true) (hs : ∀ x ∈ vals, Safe x = true)
    (hpos : positionOK vals = true) :
    ∃ res em, CondEvalsTo (cmd :: vals) E 2 res em := by
  obtain ⟨c, hres, hc⟩ := pureCondCmd_inv hp
  have hcm : cmdOK cmd = true :=
    (condNames_ok cmd (resolve_condName hres (by rcases hc with h | h | h <;> simp [h]))).1
  obtain ⟨r, em, hrun, hr⟩ := pure_cmd c hc vals E
  rcases hr with ⟨v, rfl⟩ | ⟨e, rfl⟩
  · refine ⟨.ok (isTrue v), em, fun f is vars s hf hE => ?_⟩
    have hres' := resolveCmd_of_empty s hres
    have hhi : ∀ f', evalCondition (evalInstrsF (f' + 2)) is (cmd :: vals) vars s =
        (.ok (isTrue v), vars, { s with emitted := em }) := fun f' =>
      evalCondition_cmd_continue f' is cmd vals vars s c v vars _ hcm hs hpos hres'
        (hrun _ _ none _ vars s hE)
    by_cases hlow : f ≤ 1
    · exact ⟨.inl (evalCondition_cmd_low f hlow is cmd vals vars s c hcm hs hpos hres'),
        fun h2 => by omega⟩
    · obtain ⟨f', rfl⟩ : ∃ f', f = f' + 2 := ⟨f - 2, by omega⟩
      exact ⟨.inr (hhi f'), fun _ => hhi f'⟩
  · refine ⟨.error (), em, fun f is vars s hf hE => ?_⟩
    have hres' := resolveCmd_of_empty s hres
    have hhi : ∀ f', evalCondition (evalInstrsF (f' + 1)) is (cmd :: vals) vars s =
        (.error (), vars, { s with emitted := em }) := fun f' =>
      evalCondition_cmd_error f' is cmd vals vars s c e vars _ hcm hs hpos hres'
        (hrun _ _ none _ vars s hE)
    cases f with
    | zero =>
      exact ⟨.inl (evalCondition_cmd_low 0 (by omega) is cmd vals vars s c hcm hs hpos hres'),
        fun h2 => by omega⟩
    | succ f' => exact ⟨.inr (hhi f'), fun _ => hhi f'⟩

theorem condEvals_not (n : Str) (vals : List Str) (E : List (List Str)) (thr : Nat)
    (res' : Except Unit Bool) (em' : List (List Str))
    (hn : isNotCmd n = true) (hs : ∀ x ∈ vals, Safe x = true) (hpos : positionOK vals = true)
    (hne : vals.isEmpty = false) (hthr : thr ≤ 2) (hin : CondEvalsTo vals E thr res' em') :
    ∃ res em, CondEvalsTo (n :: vals) E 3 res em := by
  have hres := notCmd_inv hn
  have hcm : cmdOK n = true := (condNames_ok n (resolve_condName hres (by simp))).1
  refine ⟨(negRes res'), em',
    fun f is vars s hf hE => ?_⟩
  have hres' := resolveCmd_of_empty s hres
  -- what happens with fuel `f' + 2`, given what the inner condition does with `f' + 1`
  have key : ∀ f',
      ((evalCondition (evalInstrsF (f' + 2)) is (n :: vals) vars s).1 = .error () ∨
        evalCondition (evalInstrsF (f' + 2)) is (n :: vals) vars s =
          ((negRes res'), vars,
            { s with emitted := em' })) ∧
      (thr ≤ f' + 1 → evalCondition (evalInstrsF (f' + 2)) is (n :: vals) vars s =
          ((negRes res'), vars,
            { s with emitted := em' })) := by
    intro f'
    have hinner := hin (f' + 1) (is ++ [condInstr n vals]) vars s hf hE
    have hexp : evalCondition (evalInstrsF (f' + 1)) (is ++ [condInstr n vals]) vals vars s =
          (res', vars, { s with emitted := em' }) →
        evalCondition (evalInstrsF (f' + 2)) is (n :: vals) vars s =
          ((negRes res'), vars,
            { s with emitted := em' }) := by
      intro he
      cases res' with
      | ok p =>
        have hrun : runCmdF (evalInstrsF (f' + 1)) (is ++ [condInstr n vals]) 3 .notC vals none
            is.length vars s =
            (.continue (some (if p then "false".toList else "true".toList)), vars,
              { s with emitted := em' }) := by
          rw [runCmdF_not _ _ _ _ _ _ _ hne, he]; rfl
        rw [evalCondition_cmd_continue f' is n vals vars s .notC _ vars _ hcm hs hpos hres' hrun,
          isTrue_not]
        rfl
      | error u =>
        have hrun : runCmdF (evalInstrsF (f' + 1)) (is ++ [condInstr n vals]) 3 .notC vals none
            is.length vars s = (errR, vars, { s with emitted := em' }) := by
          rw [runCmdF_not _ _ _ _ _ _ _ hne, he]; rfl
        exact evalCondition_cmd_error (f' + 1) is n vals vars s .notC _ vars _ hcm hs hpos hres' hrun
    refine ⟨?_, fun h2 => hexp (hinner.2 h2)⟩
    rcases hinner.1 with herr | he
    · left
      generalize hR : evalCondition (evalInstrsF (f' + 1)) (is ++ [condInstr n vals]) vals vars s = R
        at herr
      obtain ⟨r0, v0, s0⟩ := R
      simp only at herr
      subst herr
      have hrun : runCmdF (evalInstrsF (f' + 1)) (is ++ [condInstr n vals]) 3 .notC vals none
          is.length vars s = (errR, v0, s0) := by
        rw [runCmdF_not _ _ _ _ _ _ _ hne, hR]; rfl
      rw [evalCondition_cmd_error (f' + 1) is n vals vars s .notC _ v0 s0 hcm hs hpos hres' hrun]
    · exact .inr (hexp he)
  by_cases hlow : f ≤ 1
  · exact ⟨.inl (evalCondition_cmd_low f hlow is n vals vars s .notC hcm hs hpos hres'),
      fun h2 => by omega⟩
  · obtain ⟨f', rfl⟩ : ∃ f', f = f' + 2 := ⟨f - 2, by omega⟩
    exact ⟨(key f').1, fun h3 => (key f').2 (by omega)⟩

/-! ### every condition of the simple2 fragment with safe bound arguments -/

theorem cond_eval (cond : List Str) (vars : Vars) (E : List (List Str))
    (h2 : condSimple2 cond = true) (hsafe : condArgsSafe (bind vars (some cond)) = true) :
    (bind vars (some cond)).isEmpty = false ∧
      ∃ res em, CondEvalsTo (bind vars (some cond)) E 3 res em := by
  simp only [condSimple2, Bool.or_eq_true] at h2
  rcases h2 with (h2 | h2) | h2
  · obtain ⟨h, rest, hb, hn⟩ := condSimple_bind vars h2
    rw [hb]
    exact ⟨rfl, _, _, (condEvals_value h rest E hn).mono (by omega)⟩
  · cases cond with
    | nil => simp [cmdCond] at h2
    | cons h restW =>
      simp only [cmdCond, Bool.and_eq_true] at h2
      rw [bind_cons_literal vars h restW h2.1] at hsafe ⊢
      simp only [condArgsSafe, h2.2, if_true, Bool.and_eq_true, List.all_eq_true] at hsafe
      obtain ⟨res, em, hce⟩ := condEvals_pure h (bind vars (some restW)) E h2.2 hsafe.1 hsafe.2
      exact ⟨rfl, res, em, hce.mono (by omega)⟩
  · cases cond with
    | nil => simp [notCond] at h2
    | cons n restW =>
      simp only [notCond, Bool.and_eq_true, Bool.or_eq_true] at h2
      obtain ⟨⟨hlit, hnot⟩, hinner⟩ := h2
      have hnp : isPureCondCmd n = false := by
        simp [isPureCondCmd, notCmd_inv hnot]
      rw [bind_cons_literal vars n restW hlit] at hsafe ⊢
      simp only [condArgsSafe, hnp, Bool.false_eq_true, if_false, hnot, if_true, Bool.and_eq_true,
        List.all_eq_true] at hsafe
      obtain ⟨⟨hs, hpos⟩, hin⟩ := hsafe
      refine ⟨rfl, ?_⟩
      rcases hinner with hv | hc
      · obtain ⟨h, rest, hb, hn⟩ := condSimple_bind vars hv
        rw [hb] at hs hpos ⊢
        obtain ⟨res, em, hce⟩ := condEvals_not n (h :: rest) E 0 _ _ hnot hs hpos rfl (by omega)
          (condEvals_value h rest E hn)
        exact ⟨res, em, hce⟩
      · cases restW with
        | nil => simp [cmdCond] at hc
        | cons c restW' =>
          simp only [cmdCond, Bool.and_eq_true] at hc
          rw [bind_cons_literal vars c restW' hc.1] at hs hpos hin ⊢
          simp only [hc.2, if_true] at hin
          obtain ⟨res', em', hce'⟩ := condEvals_pure c (bind vars (some restW')) E hc.2
            (fun x hx => hs x (by simp [hx])) hin
          obtain ⟨res, em, hce⟩ := condEvals_not n (c :: bind vars (some restW')) E 2 _ _ hnot hs hpos
            rfl (by omega) hce'
          exact ⟨res, em, hce⟩

/-- tree side: the verdict and the new tree state -/
theorem evalCond_of_evals (is : List Instruction) (fuel : Nat) (cond : List Str) (t t1 : TState) (b : Bool)
    (res : Except Unit Bool) (em : List (List Str))
    (hne : (bind t.vars (some cond)).isEmpty = false) (hf : t.fns = []) (hsf : t.sdk.fns = [])
    (hce : CondEvalsTo (bind t.vars (some cond)) t.sdk.emitted 3 res em)
    (hex : evalCond is (fuel + 1) cond t = some (b, t1)) :
    res = .ok b ∧ t1 = { t with sdk := { t.sdk with emitted := em } } := by
  have h := (hce fuel is t.vars t.sdk hsf rfl).1
  unfold evalCond at hex
  simp only [bind_mkArgs] at hex
  cases hb : bind t.vars (some cond) with
  | nil => rw [hb] at hne; simp at hne
  | cons first rest =>
    rw [hb] at hex h
    have hl : lookupFn t.fns first = none := by rw [hf]; rfl
    simp only [hl] at hex
    rcases h with h | h
    · generalize evalCondition (evalInstrsF fuel) is (first :: rest) t.vars t.sdk = R at h hex
      obtain ⟨r0, v0, s0⟩ := R
      simp only at h
      subst h
      simp at hex
    · rw [h] at hex
      cases res with
      | error u => simp at hex
      | ok b' =>
        simp only [Option.some.injEq, Prod.mk.injEq] at hex
        exact ⟨by rw [hex.1], hex.2.symm⟩

/-- the nested evaluator's fuel does not matter from 3 on, for the conditions of the fragment
    (in general a fuel crash deep inside is MASKED as an ordinary error by `eval_condition`, so the
    unrestricted statement is false: `not not true` errs with fuel 2 and is `true` with fuel 3) -/
theorem cond_fuel_mono (cond : List Str) (vars : Vars) (is : List Instruction) (s : Sdk)
    (h2 : condSimple2 cond = true) (hsafe : condArgsSafe (bind vars (some cond)) = true)
    (hf : s.fns = []) (f1 f2 : Nat) (h1 : 3 ≤ f1) (h2' : 3 ≤ f2) :
    evalCondition (evalInstrsF f1) is (bind vars (some cond)) vars s =
      evalCondition (evalInstrsF f2) is (bind vars (some cond)) vars s := by
  obtain ⟨_, res, em, hce⟩ := cond_eval cond vars s.emitted h2 hsafe
  rw [(hce f1 is vars s hf rfl).2 h1, (hce f2 is vars s hf rfl).2 h2']
end Duck

namespace Duck
open Duck.Spec Duck.Generated Duck.Reser

theorem condSimple2_bind_ne {cond : List Str} (vars : Vars) (h : condSimple2 cond = true) :
    (bind vars (some cond)).isEmpty = false := by
  simp only [condSimple2, Bool.or_eq_true] at h
  rcases h with (h | h) | h
  · exact condSimple_bind_ne vars h
  · cases cond with
    | nil => simp [cmdCond] at h
    | cons w rest =>
      simp only [cmdCond, Bool.and_eq_true] at h
      rw [bind_cons_literal vars w rest h.1]; rfl
  · cases cond with
    | nil => simp [notCond] at h
    | cons w rest =>
      simp only [notCond, Bool.and_eq_true] at h
      rw [bind_cons_literal vars w rest h.1.1]; rfl

/-- the tree state after a condition was evaluated: only `emitted` may have grown -/
def withEm (t : TState) (em : List (List Str)) : TState :=
  { t with sdk := { t.sdk with emitted := em } }

/-- a condition of the fragment, evaluated by the tree interpreter with verdict `b`: the new tree
    state, and what the machine's `evalCondition` returns on the same bound words in any machine
    state showing the same `emitted`, for every nested fuel from 3 on -/
theorem cond_sim (is : List Instruction) (fuel : Nat) (cond : List Str) (t t1 : TState) (b : Bool)
    (h2 : condSimple2 cond = true) (hsafe : condArgsSafe (bind t.vars (some cond)) = true)
    (hf : t.fns = []) (hsf : t.sdk.fns = [])
    (hex : evalCond is (fuel + 1) cond t = some (b, t1)) :
    ∃ em, t1 = withEm t em ∧ (bind t.vars (some cond)).isEmpty = false ∧
      ∀ f, 3 ≤ f → ∀ (is' : List Instruction) (s' : Sdk), s'.fns = [] →
        s'.emitted = t.sdk.emitted →
        evalCondition (evalInstrsF f) is' (bind t.vars (some cond)) t.vars s' =
          (.ok b, t.vars, { s' with emitted := em }) := by
  obtain ⟨hne, res, em, hce⟩ := cond_eval cond t.vars t.sdk.emitted h2 hsafe
  obtain ⟨hres, ht1⟩ := evalCond_of_evals is fuel cond t t1 b res em hne hf hsf hce hex
  subst hres
  exact ⟨em, ht1, hne, fun f hf3 is' s' h1 h2 => (hce f is' t.vars s' h1 h2).2 hf3⟩

theorem evalCond_zero (is : List Instruction) (cond : List Str) (t : TState) :
    evalCond is 0 cond t = none := rfl

end Duck
