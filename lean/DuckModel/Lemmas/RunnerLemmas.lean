/-
  Helper lemmas about the runner model (used by Props/C03.lean, C10.lean, C13.lean).

  * `runStep_sound` / `runStep_complete`: one iteration of the model loop (never halted) is
    exactly one `Spec.Step` of the abstract machine (`step_iff_runStep`).
  * `runLoop_sound` / `runLoop_complete` / `runLoop_fuel_mono`, determinism of `Step`/`Reaches`.
  * halt-flag lemmas for C13.
-/
import DuckModel.Runner
import DuckModel.Spec.Machine
import DuckModel.Lemmas.RunnerLabels

set_option linter.unusedSimpArgs false

namespace Duck
open Duck.Spec

variable {σ : Type}

/-- the configuration of the abstract machine a runner state stands for -/
def cfgOf (rs : RunState σ) : Cfg σ := ⟨rs.line, rs.vars, rs.st⟩

/-- the result of one `runStep`, as the abstract machine sees it -/
def outOf : RunState σ ⊕ (RunState σ × RunEnd) → Option (Cfg σ ⊕ Final σ)
  | .inl rs' => some (.inl (cfgOf rs'))
  | .inr (rs', e) => (finalOf rs' e).map .inr

theorem runStep_sound (sem : CmdSem σ) (is : List Instruction) (rs : RunState σ)
    (o : Cfg σ ⊕ Final σ)
    (h : outOf (runStep sem is (labelTable is) noHalt rs) = some o) :
    Step sem is (cfgOf rs) o := by
  unfold runStep at h
  simp only [noHalt, Bool.false_eq_true, if_false] at h
  cases hi : is[rs.line]? with
  | none =>
    simp only [hi, outOf, finalOf, Option.map_some, Option.some.injEq] at h
    subst h
    exact Step.reachedEnd (cfgOf rs) hi
  | some instr =>
    simp only [hi] at h
    obtain ⟨mi, ty⟩ := instr
    cases ty with
    | empty =>
      simp [runInstruction, outOf, cfgOf] at h
      subst h
      exact Step.noCommand (cfgOf rs) _ hi rfl
    | preProcess c a =>
      simp [runInstruction, outOf, cfgOf] at h
      subst h
      exact Step.noCommand (cfgOf rs) _ hi rfl
    | script si =>
      obtain ⟨lab, out, cmd, args⟩ := si
      cases cmd with
      | none =>
        simp [runInstruction, outOf, cfgOf] at h
        subst h
        exact Step.noCommand (cfgOf rs) _ hi rfl
      | some c =>
        cases hsem : sem c (bind rs.vars args) out rs.line rs.vars rs.st with
        | none =>
          simp [runInstruction, hsem, outOf, finalOf] at h
          subst h
          exact Step.unknownCommand (cfgOf rs) _ c args hi rfl hsem
        | some res =>
          obtain ⟨r, vars', st'⟩ := res
          cases r with
          | «continue» v =>
            simp [runInstruction, hsem, outOf, cfgOf] at h
            subst h
            exact Step.continue (cfgOf rs) _ c args v vars' st' hi rfl hsem
          | goTo v g =>
            cases g with
            | label l =>
              cases hl : lookupLabel (labelTable is) l with
              | none =>
                simp [runInstruction, hsem, hl, outOf, finalOf] at h
                subst h
                exact Step.gotoUnknownLabel (cfgOf rs) _ c args v l vars' st' hi rfl hsem
                  ((lookup_labelTable_none is l).1 hl)
              | some k =>
                simp [runInstruction, hsem, hl, outOf, cfgOf] at h
                subst h
                exact Step.gotoLabel (cfgOf rs) _ c args v l k vars' st' hi rfl hsem
                  ((lookup_labelTable_some is l k).1 hl)
            | line n => 
              simp [runInstruction, hsem, outOf, cfgOf] at h
              subst h
              exact Step.gotoLine (cfgOf rs) _ c args v n vars' st' hi rfl hsem
          | error e => 
            cases hoe : sem onErrorName (errorReport e mi) none 0
                (Vars.updateOutput vars' out (some "false".toList)) st' with
            | none =>
              simp [errorReport] at hoe
              simp [runInstruction, hsem, runOnError, hoe, outOf, cfgOf] at h
              subst h
              exact Step.errorNoHandler (cfgOf rs) _ c args e vars' st' hi rfl hsem hoe
            | some res' =>
              obtain ⟨r', vars'', st''⟩ := res'
              simp [errorReport] at hoe
              cases r' with
              | crash m =>
                simp [runInstruction, hsem, runOnError, hoe, outOf, cfgOf, finalOf] at h
                subst h
                exact Step.errorHandlerCrashes (cfgOf rs) _ c args e vars' st' m vars'' st''
                  hi rfl hsem hoe
              | exit w =>
                simp [runInstruction, hsem, runOnError, hoe, outOf, cfgOf, finalOf] at h
                subst h
                exact Step.errorHandlerExits (cfgOf rs) _ c args e vars' st' w vars'' st''
                  hi rfl hsem hoe
              | _ =>
                simp [runInstruction, hsem, runOnError, hoe, outOf, cfgOf, finalOf] at h
                subst h
                exact Step.errorHandled (cfgOf rs) _ c args e vars' st' _ vars'' st''
                  hi rfl hsem hoe (by simp) (by simp)
          | crash e => 
            simp [runInstruction, hsem, outOf, finalOf] at h
            subst h
            exact Step.crash (cfgOf rs) _ c args e vars' st' hi rfl hsem
          | exit v => 
            cases hv : v.bind parseI32 with
            | none =>
              simp [runInstruction, hsem, hv, outOf, finalOf] at h
              subst h
              exact Step.exitOk (cfgOf rs) _ c args v vars' st' hi rfl hsem (by simp [hv])
            | some code =>
              by_cases hc : code = 0
              · simp [runInstruction, hsem, hv, hc, outOf, finalOf] at h
                subst h
                exact Step.exitOk (cfgOf rs) _ c args v vars' st' hi rfl hsem (by simp [hv, hc])
              · simp [runInstruction, hsem, hv, hc, outOf, finalOf] at h
                subst h
                exact Step.exitCode (cfgOf rs) _ c args v code vars' st' hi rfl hsem hv hc

theorem runInstruction_noInvocation (sem : CmdSem σ) (vars : Vars) (s : σ) (i : Instruction)
    (line : Nat) (h : invocationOf i = none) :
    runInstruction sem vars s i line = (.continue none, outputOf i, vars, s) := by
  obtain ⟨mi, ty⟩ := i
  cases ty with
  | empty => rfl
  | preProcess _ _ => rfl
  | script si =>
    obtain ⟨lab, out, cmd, args⟩ := si
    cases cmd with
    | none => rfl
    | some c => simp [invocationOf] at h

theorem runInstruction_invocation (sem : CmdSem σ) (vars : Vars) (s : σ) (i : Instruction)
    (line : Nat) (name : Str) (args : Option (List Str)) (h : invocationOf i = some (name, args)) :
    runInstruction sem vars s i line =
      match sem name (bind vars args) (outputOf i) line vars s with
      | none => (.crash ("Command: ".toList ++ name ++ " not found.".toList), outputOf i, vars, s)
      | some (r, vars', s') => (r, outputOf i, vars', s') := by
  obtain ⟨mi, ty⟩ := i
  cases ty with
  | empty => simp [invocationOf] at h
  | preProcess _ _ => simp [invocationOf] at h
  | script si =>
    obtain ⟨lab, out, cmd, args'⟩ := si
    cases cmd with
    | none => simp [invocationOf] at h
    | some c =>
      simp [invocationOf] at h
      obtain ⟨rfl, rfl⟩ := h
      rfl

theorem runStep_complete (sem : CmdSem σ) (is : List Instruction) (rs : RunState σ)
    (o : Cfg σ ⊕ Final σ) (h : Step sem is (cfgOf rs) o) :
    outOf (runStep sem is (labelTable is) noHalt rs) = some o := by
  generalize hc : cfgOf rs = c at h
  cases h with
  | reachedEnd hi =>
    subst hc
    simp only [cfgOf] at hi
    unfold runStep
    simp [noHalt, hi, outOf, finalOf, cfgOf]
  | noCommand i hi hinv =>
    subst hc
    simp only [cfgOf] at hi
    unfold runStep
    simp [noHalt, hi, runInstruction_noInvocation _ _ _ _ _ hinv, outOf, cfgOf]
  | unknownCommand i name args hi hinv hsem =>
    subst hc
    simp only [cfgOf] at hi hsem
    unfold runStep
    simp [noHalt, hi, runInstruction_invocation _ _ _ _ _ _ _ hinv, hsem, outOf, finalOf, cfgOf]
  | «continue» i name args v vars' st' hi hinv hsem =>
    subst hc
    simp only [cfgOf] at hi hsem
    unfold runStep
    simp [noHalt, hi, runInstruction_invocation _ _ _ _ _ _ _ hinv, hsem, outOf, finalOf, cfgOf]
  | gotoLabel i name args v l k vars' st' hi hinv hsem hl =>
    subst hc
    simp only [cfgOf] at hi hsem
    unfold runStep
    simp [noHalt, hi, runInstruction_invocation _ _ _ _ _ _ _ hinv, hsem, outOf, finalOf, cfgOf,
      (lookup_labelTable_some is l k).2 hl]
  | gotoUnknownLabel i name args v l vars' st' hi hinv hsem hl =>
    subst hc
    simp only [cfgOf] at hi hsem
    unfold runStep
    simp [noHalt, hi, runInstruction_invocation _ _ _ _ _ _ _ hinv, hsem, outOf, finalOf, cfgOf,
      (lookup_labelTable_none is l).2 hl]
  | gotoLine i name args v n vars' st' hi hinv hsem =>
    subst hc
    simp only [cfgOf] at hi hsem
    unfold runStep
    simp [noHalt, hi, runInstruction_invocation _ _ _ _ _ _ _ hinv, hsem, outOf, finalOf, cfgOf]
  | exitOk i name args v vars' st' hi hinv hsem hcode =>
    subst hc
    simp only [cfgOf] at hi hsem
    unfold runStep
    cases hv : v.bind parseI32 with
    | none =>
      simp [noHalt, hi, runInstruction_invocation _ _ _ _ _ _ _ hinv, hsem, outOf, finalOf, cfgOf, hv]
    | some code =>
      have := hcode code hv
      subst this
      simp [noHalt, hi, runInstruction_invocation _ _ _ _ _ _ _ hinv, hsem, outOf, finalOf, cfgOf, hv]
  | exitCode i name args v code vars' st' hi hinv hsem hv hne =>
    subst hc
    simp only [cfgOf] at hi hsem
    unfold runStep
    simp [noHalt, hi, runInstruction_invocation _ _ _ _ _ _ _ hinv, hsem, outOf, finalOf, cfgOf, hv, hne]
  | crash i name args e vars' st' hi hinv hsem =>
    subst hc
    simp only [cfgOf] at hi hsem
    unfold runStep
    simp [noHalt, hi, runInstruction_invocation _ _ _ _ _ _ _ hinv, hsem, outOf, finalOf, cfgOf]
  | errorNoHandler i name args e vars' st' hi hinv hsem hoe =>
    subst hc
    simp only [cfgOf] at hi hsem
    simp [errorReport] at hoe
    unfold runStep
    simp [noHalt, hi, runInstruction_invocation _ _ _ _ _ _ _ hinv, hsem, outOf, finalOf, cfgOf,
      runOnError, hoe]
  | errorHandled i name args e vars' st' r vars'' st'' hi hinv hsem hoe hne hnc =>
    subst hc
    simp only [cfgOf] at hi hsem
    simp [errorReport] at hoe
    unfold runStep
    cases r with
    | «exit» w => exact absurd rfl (hne w)
    | crash m => exact absurd rfl (hnc m)
    | _ =>
      simp [noHalt, hi, runInstruction_invocation _ _ _ _ _ _ _ hinv, hsem, outOf, finalOf, cfgOf,
        runOnError, hoe]
  | errorHandlerExits i name args e vars' st' w vars'' st'' hi hinv hsem hoe =>
    subst hc
    simp only [cfgOf] at hi hsem
    simp [errorReport] at hoe
    unfold runStep
    simp [noHalt, hi, runInstruction_invocation _ _ _ _ _ _ _ hinv, hsem, outOf, finalOf, cfgOf,
      runOnError, hoe]
  | errorHandlerCrashes i name args e vars' st' m vars'' st'' hi hinv hsem hoe =>
    subst hc
    simp only [cfgOf] at hi hsem
    simp [errorReport] at hoe
    unfold runStep
    simp [noHalt, hi, runInstruction_invocation _ _ _ _ _ _ _ hinv, hsem, outOf, finalOf, cfgOf,
      runOnError, hoe]


theorem step_iff_runStep (sem : CmdSem σ) (is : List Instruction) (rs : RunState σ)
    (o : Cfg σ ⊕ Final σ) :
    Step sem is (cfgOf rs) o ↔ outOf (runStep sem is (labelTable is) noHalt rs) = some o :=
  ⟨runStep_complete sem is rs o, runStep_sound sem is rs o⟩

theorem outOf_eq_inl (x : RunState σ ⊕ (RunState σ × RunEnd)) (c' : Cfg σ)
    (h : outOf x = some (.inl c')) : ∃ rs1, x = .inl rs1 ∧ cfgOf rs1 = c' := by
  cases x with
  | inl rs1 => exact ⟨rs1, rfl, by simpa [outOf] using h⟩
  | inr r => obtain ⟨rs', e⟩ := r; simp [outOf] at h

theorem outOf_eq_inr (x : RunState σ ⊕ (RunState σ × RunEnd)) (f : Final σ)
    (h : outOf x = some (.inr f)) : ∃ rs' e, x = .inr (rs', e) ∧ finalOf rs' e = some f := by
  cases x with
  | inl rs1 => simp [outOf] at h
  | inr r => obtain ⟨rs', e⟩ := r; exact ⟨rs', e, rfl, by simpa [outOf] using h⟩

/-- the abstract machine is deterministic (one step) -/
theorem step_functional (sem : CmdSem σ) (is : List Instruction) (c : Cfg σ)
    (o₁ o₂ : Cfg σ ⊕ Final σ) (h₁ : Step sem is c o₁) (h₂ : Step sem is c o₂) : o₁ = o₂ := by
  have e : c = cfgOf (⟨c.pc, 0, c.vars, c.st⟩ : RunState σ) := rfl
  rw [e] at h₁ h₂
  have a := runStep_complete sem is _ _ h₁
  have b := runStep_complete sem is _ _ h₂
  rw [a] at b
  exact Option.some.inj b

theorem reaches_functional (sem : CmdSem σ) (is : List Instruction) (c : Cfg σ)
    (f₁ f₂ : Final σ) (h₁ : Reaches sem is c f₁) (h₂ : Reaches sem is c f₂) : f₁ = f₂ := by
  induction h₁ with
  | done c f s₁ =>
    cases h₂ with
    | done _ _ s₂ => exact Sum.inr.inj (step_functional sem is c _ _ s₁ s₂)
    | step _ c' _ s₂ _ => exact absurd (step_functional sem is c _ _ s₁ s₂) (by simp)
  | step c c' f s₁ _ ih =>
    cases h₂ with
    | done _ _ s₂ => exact absurd (step_functional sem is c _ _ s₁ s₂) (by simp)
    | step _ c'' _ s₂ r₂ =>
      have : c' = c'' := Sum.inl.inj (step_functional sem is c _ _ s₁ s₂)
      subst this
      exact ih r₂

theorem runLoop_zero (sem : CmdSem σ) (is : List Instruction) (labels : List (Str × Nat))
    (halt : Nat → σ → Bool) (rs : RunState σ) :
    runLoop sem is labels halt 0 rs = (rs, .outOfFuel) := rfl

theorem runLoop_succ (sem : CmdSem σ) (is : List Instruction) (labels : List (Str × Nat))
    (halt : Nat → σ → Bool) (fuel : Nat) (rs : RunState σ) :
    runLoop sem is labels halt (fuel + 1) rs =
      match runStep sem is labels halt rs with
      | .inl rs' => runLoop sem is labels halt fuel rs'
      | .inr r => r := rfl

theorem runLoop_sound (sem : CmdSem σ) (is : List Instruction) (fuel : Nat) :
    ∀ (rs rs' : RunState σ) (e : RunEnd) (f : Final σ),
      runLoop sem is (labelTable is) noHalt fuel rs = (rs', e) → finalOf rs' e = some f →
      Reaches sem is (cfgOf rs) f := by
  induction fuel with
  | zero =>
    intro rs rs' e f h hf
    rw [runLoop_zero] at h
    obtain ⟨rfl, rfl⟩ := Prod.mk.inj h
    simp [finalOf] at hf
  | succ fuel ih =>
    intro rs rs' e f h hf
    rw [runLoop_succ] at h
    cases hs : runStep sem is (labelTable is) noHalt rs with
    | inl rs1 =>
      rw [hs] at h
      refine Reaches.step _ (cfgOf rs1) _ (runStep_sound sem is rs _ ?_) (ih rs1 rs' e f h hf)
      rw [hs]; rfl
    | inr r =>
      rw [hs] at h
      subst h
      refine Reaches.done _ _ (runStep_sound sem is rs _ ?_)
      rw [hs]; simp [outOf, hf]

theorem runLoop_complete (sem : CmdSem σ) (is : List Instruction) (c : Cfg σ) (f : Final σ)
    (h : Reaches sem is c f) :
    ∀ rs : RunState σ, cfgOf rs = c →
      ∃ fuel rs' e, runLoop sem is (labelTable is) noHalt fuel rs = (rs', e) ∧
        finalOf rs' e = some f := by
  induction h with
  | done c f s =>
    intro rs hc
    subst hc
    obtain ⟨rs', e, hx, hf⟩ := outOf_eq_inr _ _ (runStep_complete sem is rs _ s)
    exact ⟨1, rs', e, by rw [runLoop_succ, hx], hf⟩
  | step c c' f s _ ih =>
    intro rs hc
    subst hc
    obtain ⟨rs1, hx, hc'⟩ := outOf_eq_inl _ _ (runStep_complete sem is rs _ s)
    obtain ⟨fuel, rs', e, hrun, hf⟩ := ih rs1 hc'
    exact ⟨fuel + 1, rs', e, by rw [runLoop_succ, hx]; exact hrun, hf⟩

theorem runLoop_fuel_mono (sem : CmdSem σ) (is : List Instruction)
    (labels : List (Str × Nat)) (halt : Nat → σ → Bool) (fuel extra : Nat) :
    ∀ (rs rs' : RunState σ) (e : RunEnd),
      runLoop sem is labels halt fuel rs = (rs', e) → e ≠ .outOfFuel →
      runLoop sem is labels halt (fuel + extra) rs = (rs', e) := by
  induction fuel with
  | zero =>
    intro rs rs' e h he
    rw [runLoop_zero] at h
    exact absurd (Prod.mk.inj h).2.symm he
  | succ fuel ih =>
    intro rs rs' e h he
    have hadd : fuel + 1 + extra = (fuel + extra) + 1 := by omega
    rw [hadd, runLoop_succ]
    rw [runLoop_succ] at h
    cases hs : runStep sem is labels halt rs with
    | inl rs1 => rw [hs] at h; exact ih rs1 rs' e h he
    | inr r => rw [hs] at h; exact h

/-! ### halt flag (C13) -/

theorem runStep_halt_true (sem : CmdSem σ) (is : List Instruction)
    (labels : List (Str × Nat)) (halt : Nat → σ → Bool) (rs : RunState σ)
    (h : halt rs.polls rs.st = true) :
    runStep sem is labels halt rs = .inr (rs, .halted) := by
  unfold runStep
  simp [h]

theorem runStep_halt_false (sem : CmdSem σ) (is : List Instruction)
    (labels : List (Str × Nat)) (halt : Nat → σ → Bool) (rs : RunState σ)
    (h : halt rs.polls rs.st = false) :
    runStep sem is labels halt rs = runStep sem is labels noHalt rs := by
  unfold runStep
  rw [h]
  rfl

theorem runStep_inl_not_halt (sem : CmdSem σ) (is : List Instruction)
    (labels : List (Str × Nat)) (halt : Nat → σ → Bool) (rs rs' : RunState σ)
    (h : runStep sem is labels halt rs = .inl rs') : halt rs.polls rs.st = false := by
  cases hh : halt rs.polls rs.st with
  | false => rfl
  | true => rw [runStep_halt_true sem is labels halt rs hh] at h; simp at h

theorem runStep_inl_polls (sem : CmdSem σ) (is : List Instruction)
    (labels : List (Str × Nat)) (halt : Nat → σ → Bool) (rs rs' : RunState σ)
    (h : runStep sem is labels halt rs = .inl rs') : rs'.polls = rs.polls + 1 := by
  unfold runStep at h
  repeat' split at h
  all_goals try (dsimp only at h; split at h)
  all_goals first
    | (injection h with h; subst h; rfl)
    | (simp at h; done)

theorem runStep_inr_ne_outOfFuel (sem : CmdSem σ) (is : List Instruction)
    (labels : List (Str × Nat)) (halt : Nat → σ → Bool) (rs rs' : RunState σ) (e : RunEnd)
    (h : runStep sem is labels halt rs = .inr (rs', e)) : e ≠ .outOfFuel := by
  unfold runStep at h
  repeat' split at h
  all_goals try (dsimp only at h; split at h)
  all_goals first
    | (simp at h; done)
    | (injection h with h; injection h with _ h; subst h; simp)

theorem runLoop_halt_terminates (sem : CmdSem σ) (is : List Instruction)
    (labels : List (Str × Nat)) (halt : Nat → σ → Bool) (K : Nat)
    (hK : ∀ k s, K ≤ k → halt k s = true) (fuel : Nat) :
    ∀ rs : RunState σ, K + 1 - rs.polls ≤ fuel → 0 < fuel →
      (runLoop sem is labels halt fuel rs).2 ≠ .outOfFuel := by
  induction fuel with
  | zero => intro rs _ hpos; omega
  | succ fuel ih =>
    intro rs hfuel _
    rw [runLoop_succ]
    cases hs : runStep sem is labels halt rs with
    | inl rs1 =>
      have hp := runStep_inl_polls sem is labels halt rs rs1 hs
      have hh := runStep_inl_not_halt sem is labels halt rs rs1 hs
      have hlt : rs.polls < K := by
        apply Nat.lt_of_not_le
        intro hle
        rw [hK _ _ hle] at hh
        simp at hh
      exact ih rs1 (by omega) (by omega)
    | inr r =>
      obtain ⟨rs', e⟩ := r
      exact runStep_inr_ne_outOfFuel sem is labels halt rs rs' e hs

end Duck
