/-
  Helper lemmas about the runner model (used by Props/C03.lean, C10.lean, C13.lean).
-/
import DuckModel.Runner
import DuckModel.Spec.Machine

namespace Duck
open Duck.Spec

end Duck
