/-
  Helper lemmas for the C04 simulation theorem — part 4: what one visit of each flow-control
  line does to the machine (keyword resolution, openers, else-lines, end lines).
-/
import DuckModel.Lemmas.SimCond

namespace Duck
open Duck.Spec Duck.Generated

/-! ### keyword resolution -/

theorem resolve_if {k : Str} (h : isIfKw k = true) (s : Sdk) : resolveCmd s k = some .ifC := by
  apply resolveCmd_of_empty
  simp only [isIfKw, namesIfCommand, List.contains_cons, List.contains_nil, Bool.or_false,
    Bool.or_eq_true, beq_iff_eq] at h
  rcases h with rfl | rfl <;> decide

theorem resolve_elif {k : Str} (h : isElifKw k = true) (s : Sdk) : resolveCmd s k = some .elseIf := by
  apply resolveCmd_of_empty
  simp only [isElifKw, namesElseIfCommand, List.contains_cons, List.contains_nil, Bool.or_false,
    Bool.or_eq_true, beq_iff_eq] at h
  rcases h with rfl | rfl | rfl <;> decide

theorem resolve_else {k : Str} (h : isElseKw k = true) (s : Sdk) : resolveCmd s k = some .elseC := by
  apply resolveCmd_of_empty
  simp only [isElseKw, namesElseCommand, List.contains_cons, List.contains_nil, Bool.or_false,
    Bool.or_eq_true, beq_iff_eq] at h
  rcases h with rfl | rfl <;> decide

theorem resolve_while {k : Str} (h : isWhileKw k = true) (s : Sdk) : resolveCmd s k = some .whileC := by
  apply resolveCmd_of_empty
  simp only [isWhileKw, namesWhileCommand, List.contains_cons, List.contains_nil, Bool.or_false,
    Bool.or_eq_true, beq_iff_eq] at h
  rcases h with rfl | rfl <;> decide

theorem resolve_for {k : Str} (h : isForKw k = true) (s : Sdk) : resolveCmd s k = some .forIn := by
  apply resolveCmd_of_empty
  simp only [isForKw, namesForInCommand, List.contains_cons, List.contains_nil, Bool.or_false,
    Bool.or_eq_true, beq_iff_eq] at h
  rcases h with rfl | rfl <;> decide

theorem resolve_endIf {k : Str} (h : isEndIfKw k = true) (s : Sdk) :
    resolveCmd s k = some .endIf ∨ resolveCmd s k = some .endC := by
  simp only [isEndIfKw, namesEndIfCommand, endWord, List.contains_cons, List.contains_nil,
    Bool.or_false, Bool.or_eq_true, beq_iff_eq] at h
  rcases h with (rfl | rfl | rfl | rfl) | rfl
  · exact .inl (resolveCmd_of_empty s (by decide))
  · exact .inl (resolveCmd_of_empty s (by decide))
  · exact .inl (resolveCmd_of_empty s (by decide))
  · exact .inl (resolveCmd_of_empty s (by decide))
  · exact .inr (resolveCmd_of_empty s (by decide))

theorem resolve_endWhile {k : Str} (h : isEndWhileKw k = true) (s : Sdk) :
    resolveCmd s k = some .endWhile ∨ resolveCmd s k = some .endC := by
  simp only [isEndWhileKw, namesEndWhileCommand, endWord, List.contains_cons, List.contains_nil,
    Bool.or_false, Bool.or_eq_true, beq_iff_eq] at h
  rcases h with (rfl | rfl | rfl) | rfl
  · exact .inl (resolveCmd_of_empty s (by decide))
  · exact .inl (resolveCmd_of_empty s (by decide))
  · exact .inl (resolveCmd_of_empty s (by decide))
  · exact .inr (resolveCmd_of_empty s (by decide))

theorem resolve_endFor {k : Str} (h : isEndForKw k = true) (s : Sdk) :
    resolveCmd s k = some .endFor ∨ resolveCmd s k = some .endC := by
  simp only [isEndForKw, namesEndForInCommand, endWord, List.contains_cons, List.contains_nil,
    Bool.or_false, Bool.or_eq_true, beq_iff_eq] at h
  rcases h with (rfl | rfl) | rfl
  · exact .inl (resolveCmd_of_empty s (by decide))
  · exact .inl (resolveCmd_of_empty s (by decide))
  · exact .inr (resolveCmd_of_empty s (by decide))

theorem resolve_fullEndIf (s : Sdk) : resolveCmd s fullNameEndIf = some .endIf :=
  resolveCmd_of_empty s (by decide)
theorem resolve_fullEndWhile (s : Sdk) : resolveCmd s fullNameEndWhile = some .endWhile :=
  resolveCmd_of_empty s (by decide)
theorem resolve_fullEndFor (s : Sdk) : resolveCmd s fullNameEndForIn = some .endFor :=
  resolveCmd_of_empty s (by decide)

/-! ### the `if` line -/

/-- what the step lemmas need to know about the condition on the line: the bound words are not
    empty and `evalCondition` says `b`, leaving `em` in `emitted` -/
def CondSays (is : List Instruction) (args : List Str) (v : Vars) (E : List (List Str)) (b : Bool)
    (em : List (List Str)) : Prop :=
  args.isEmpty = false ∧
    ∀ f, 3 ≤ f → ∀ (s' : Sdk), s'.fns = [] → s'.emitted = E →
      evalCondition (evalInstrsF f) is args v s' = (.ok b, v, { s' with emitted := em })

theorem step_if_true (is : List Instruction) (lo : Nat) (v : Vars) (s : Sdk) (mi : Meta)
    (kwIf : Str) (cond : List Str) (mid : List Nat) (stop : Nat) (em : List (List Str))
    (hi : is[lo]? = some ⟨mi, .script (mkInstr none kwIf cond)⟩) (hk : isIfKw kwIf = true)
    (hf : s.fns = []) (hc : CacheOK is s)
    (hscan : findCommands ifTables is (lo + 1) = .ok ⟨mid, stop⟩)
    (hv : CondSays is (bind v (some cond)) v s.emitted true em) :
    ∃ M, Steps is lo v s (lo + 1) v
        { s with ifMeta := M, endTable := s.endTable.put (lineKey s stop) fullNameEndIf,
                 emitted := em,
                 ifStack := { current := (match mid with | [] => stop | e :: _ => e), passed := true,
                              elseIdx := 0, start := lo, stop := stop, elses := mid,
                              ctx := s.lineCtx } :: s.ifStack } ∧
      CacheOK is { s with ifMeta := M, endTable := s.endTable.put (lineKey s stop) fullNameEndIf } := by
  obtain ⟨M, hmeta, hcache⟩ := ifMetaFor_ok is s lo mid stop hc hscan
  refine ⟨M, Steps.singleF (fun f hf3 p => ?_), hcache⟩
  have hev := hv.2 f hf3
    { s with ifMeta := M, endTable := s.endTable.put (lineKey s stop) fullNameEndIf } hf rfl
  apply runStep_cmd_continue _ is lo p v s mi none kwIf cond .ifC none v _ hi (resolve_if hk s)
  simp only [runCmdF, runCmd, hv.1, Bool.false_eq_true, if_false, hmeta, hev, if_true]
  rfl

theorem step_if_false_nil (is : List Instruction) (lo : Nat) (v : Vars) (s : Sdk) (mi : Meta)
    (kwIf : Str) (cond : List Str) (stop : Nat) (em : List (List Str))
    (hi : is[lo]? = some ⟨mi, .script (mkInstr none kwIf cond)⟩) (hk : isIfKw kwIf = true)
    (hf : s.fns = []) (hc : CacheOK is s)
    (hscan : findCommands ifTables is (lo + 1) = .ok ⟨[], stop⟩)
    (hv : CondSays is (bind v (some cond)) v s.emitted false em) :
    ∃ M, Steps is lo v s (stop + 1) v
        { s with ifMeta := M, endTable := s.endTable.put (lineKey s stop) fullNameEndIf,
                 emitted := em } ∧
      CacheOK is { s with ifMeta := M, endTable := s.endTable.put (lineKey s stop) fullNameEndIf } := by
  obtain ⟨M, hmeta, hcache⟩ := ifMetaFor_ok is s lo [] stop hc hscan
  refine ⟨M, Steps.singleF (fun f hf3 p => ?_), hcache⟩
  have hev := hv.2 f hf3
    { s with ifMeta := M, endTable := s.endTable.put (lineKey s stop) fullNameEndIf } hf rfl
  apply runStep_cmd_goto _ is lo p v s mi none kwIf cond .ifC none (stop + 1) v _ hi (resolve_if hk s)
  simp only [runCmdF, runCmd, hv.1, Bool.false_eq_true, if_false, hmeta, hev]

theorem step_if_false_cons (is : List Instruction) (lo : Nat) (v : Vars) (s : Sdk) (mi : Meta)
    (kwIf : Str) (cond : List Str) (e : Nat) (rest : List Nat) (stop : Nat) (em : List (List Str))
    (hi : is[lo]? = some ⟨mi, .script (mkInstr none kwIf cond)⟩) (hk : isIfKw kwIf = true)
    (hf : s.fns = []) (hc : CacheOK is s)
    (hscan : findCommands ifTables is (lo + 1) = .ok ⟨e :: rest, stop⟩)
    (hv : CondSays is (bind v (some cond)) v s.emitted false em) :
    ∃ M, Steps is lo v s e v
        { s with ifMeta := M, endTable := s.endTable.put (lineKey s stop) fullNameEndIf,
                 emitted := em,
                 ifStack := { current := e, passed := false, elseIdx := 0, start := lo, stop := stop,
                              elses := e :: rest, ctx := s.lineCtx } :: s.ifStack } ∧
      CacheOK is { s with ifMeta := M, endTable := s.endTable.put (lineKey s stop) fullNameEndIf } := by
  obtain ⟨M, hmeta, hcache⟩ := ifMetaFor_ok is s lo (e :: rest) stop hc hscan
  refine ⟨M, Steps.singleF (fun f hf3 p => ?_), hcache⟩
  have hev := hv.2 f hf3
    { s with ifMeta := M, endTable := s.endTable.put (lineKey s stop) fullNameEndIf } hf rfl
  apply runStep_cmd_goto _ is lo p v s mi none kwIf cond .ifC none e v _ hi (resolve_if hk s)
  simp only [runCmdF, runCmd, hv.1, Bool.false_eq_true, if_false, hmeta, hev]

/-! ### else-lines -/

theorem step_elif_passed (is : List Instruction) (l : Nat) (v : Vars) (s : Sdk) (mi : Meta)
    (kw : Str) (cond : List Str) (G : List IfCall) (own : IfCall) (K : List IfCall)
    (hi : is[l]? = some ⟨mi, .script (mkInstr none kw cond)⟩) (hk : isElifKw kw = true)
    (hne : (bind v (some cond)).isEmpty = false)
    (hst : s.ifStack = G ++ own :: K) (ho : own.current = l) (hctx : own.ctx = s.lineCtx)
    (hG : ∀ e ∈ G, e.current ≠ l) (hp : own.passed = true) :
    Steps is l v s (own.stop + 1) v { s with ifStack := K } := by
  refine Steps.single (fun nested p => ?_)
  apply runStep_cmd_goto nested is l p v s mi none kw cond .elseIf none (own.stop + 1) v _ hi
    (resolve_elif hk s)
  simp only [runCmdF, runCmd, hne, Bool.false_eq_true, if_false, hst,
    popIf_garb l s.lineCtx G own K ho hctx hG, hp, if_true]

def elifNext (own : IfCall) : Nat :=
  if own.elseIdx + 1 < own.elses.length then own.elses[own.elseIdx + 1]?.getD 0
  else own.elses[0]?.getD 0

theorem step_elif_true (is : List Instruction) (l : Nat) (v : Vars) (s : Sdk) (mi : Meta)
    (kw : Str) (cond : List Str) (G : List IfCall) (own : IfCall) (K : List IfCall)
    (em : List (List Str))
    (hi : is[l]? = some ⟨mi, .script (mkInstr none kw cond)⟩) (hk : isElifKw kw = true)
    (hf : s.fns = [])
    (hst : s.ifStack = G ++ own :: K) (ho : own.current = l) (hctx : own.ctx = s.lineCtx)
    (hG : ∀ e ∈ G, e.current ≠ l) (hp : own.passed = false)
    (hv : CondSays is (bind v (some cond)) v s.emitted true em) :
    Steps is l v s (l + 1) v
      { s with emitted := em,
               ifStack := { own with current := elifNext own, passed := true, ctx := s.lineCtx } :: K } := by
  refine Steps.singleF (fun f hf3 p => ?_)
  have hev := hv.2 f hf3 { s with ifStack := K } hf rfl
  apply runStep_cmd_continue _ is l p v s mi none kw cond .elseIf none v _ hi
    (resolve_elif hk s)
  simp only [runCmdF, runCmd, hv.1, Bool.false_eq_true, if_false, hst,
    popIf_garb l s.lineCtx G own K ho hctx hG, hp, hev, if_true]
  rfl

theorem step_elif_false_more (is : List Instruction) (l : Nat) (v : Vars) (s : Sdk) (mi : Meta)
    (kw : Str) (cond : List Str) (G : List IfCall) (own : IfCall) (K : List IfCall)
    (em : List (List Str))
    (hi : is[l]? = some ⟨mi, .script (mkInstr none kw cond)⟩) (hk : isElifKw kw = true)
    (hf : s.fns = [])
    (hst : s.ifStack = G ++ own :: K) (ho : own.current = l) (hctx : own.ctx = s.lineCtx)
    (hG : ∀ e ∈ G, e.current ≠ l) (hp : own.passed = false)
    (hv : CondSays is (bind v (some cond)) v s.emitted false em)
    (hmore : own.elseIdx + 1 < own.elses.length) :
    Steps is l v s (own.elses[own.elseIdx + 1]?.getD 0) v
      { s with emitted := em,
               ifStack := { own with current := own.elses[own.elseIdx + 1]?.getD 0, passed := false,
                                     elseIdx := own.elseIdx + 1, ctx := s.lineCtx } :: K } := by
  refine Steps.singleF (fun f hf3 p => ?_)
  have hev := hv.2 f hf3 { s with ifStack := K } hf rfl
  apply runStep_cmd_goto _ is l p v s mi none kw cond .elseIf none _ v _ hi
    (resolve_elif hk s)
  simp only [runCmdF, runCmd, hv.1, Bool.false_eq_true, if_false, hst,
    popIf_garb l s.lineCtx G own K ho hctx hG, hp, hev, hmore, if_true]

theorem step_elif_false_last (is : List Instruction) (l : Nat) (v : Vars) (s : Sdk) (mi : Meta)
    (kw : Str) (cond : List Str) (G : List IfCall) (own : IfCall) (K : List IfCall)
    (em : List (List Str))
    (hi : is[l]? = some ⟨mi, .script (mkInstr none kw cond)⟩) (hk : isElifKw kw = true)
    (hf : s.fns = [])
    (hst : s.ifStack = G ++ own :: K) (ho : own.current = l) (hctx : own.ctx = s.lineCtx)
    (hG : ∀ e ∈ G, e.current ≠ l) (hp : own.passed = false)
    (hv : CondSays is (bind v (some cond)) v s.emitted false em)
    (hlast : ¬ own.elseIdx + 1 < own.elses.length) :
    Steps is l v s (own.stop + 1) v { s with emitted := em, ifStack := K } := by
  refine Steps.singleF (fun f hf3 p => ?_)
  have hev := hv.2 f hf3 { s with ifStack := K } hf rfl
  apply runStep_cmd_goto _ is l p v s mi none kw cond .elseIf none _ v _ hi
    (resolve_elif hk s)
  simp only [runCmdF, runCmd, hv.1, Bool.false_eq_true, if_false, hst,
    popIf_garb l s.lineCtx G own K ho hctx hG, hp, hev, hlast]

theorem step_else_passed (is : List Instruction) (l : Nat) (v : Vars) (s : Sdk) (mi : Meta)
    (kw : Str) (G : List IfCall) (own : IfCall) (K : List IfCall)
    (hi : is[l]? = some ⟨mi, .script (mkInstr none kw [])⟩) (hk : isElseKw kw = true)
    (hst : s.ifStack = G ++ own :: K) (ho : own.current = l) (hctx : own.ctx = s.lineCtx)
    (hG : ∀ e ∈ G, e.current ≠ l) (hp : own.passed = true) :
    Steps is l v s (own.stop + 1) v { s with ifStack := K } := by
  refine Steps.single (fun nested p => ?_)
  apply runStep_cmd_goto nested is l p v s mi none kw [] .elseC none _ v _ hi (resolve_else hk s)
  simp only [runCmdF, runCmd, hst, popIf_garb l s.lineCtx G own K ho hctx hG, hp, if_true]

theorem step_else_run (is : List Instruction) (l : Nat) (v : Vars) (s : Sdk) (mi : Meta)
    (kw : Str) (G : List IfCall) (own : IfCall) (K : List IfCall)
    (hi : is[l]? = some ⟨mi, .script (mkInstr none kw [])⟩) (hk : isElseKw kw = true)
    (hst : s.ifStack = G ++ own :: K) (ho : own.current = l) (hctx : own.ctx = s.lineCtx)
    (hG : ∀ e ∈ G, e.current ≠ l) (hp : own.passed = false) :
    Steps is l v s (l + 1) v { s with ifStack := K } := by
  refine Steps.single (fun nested p => ?_)
  apply runStep_cmd_continue nested is l p v s mi none kw [] .elseC none v _ hi (resolve_else hk s)
  simp only [runCmdF, runCmd, hst, popIf_garb l s.lineCtx G own K ho hctx hG, hp, Bool.false_eq_true,
    if_false]

/-! ### end lines -/

theorem step_endIf (is : List Instruction) (l : Nat) (v : Vars) (s : Sdk) (mi : Meta) (kw : Str)
    (hi : is[l]? = some ⟨mi, .script (mkInstr none kw [])⟩) (hk : isEndIfKw kw = true)
    (he : s.endTable.get (lineKey s l) = some fullNameEndIf) :
    Steps is l v s (l + 1) v s := by
  refine Steps.single (fun nested p => ?_)
  rcases resolve_endIf hk s with h | h
  · apply runStep_cmd_continue nested is l p v s mi none kw [] .endIf none v _ hi h
    simp only [runCmdF, runCmd]
  · apply runStep_cmd_continue nested is l p v s mi none kw [] .endC none v _ hi h
    simp only [runCmdF, runCmd, he, resolve_fullEndIf]

theorem step_endWhile (is : List Instruction) (l : Nat) (v : Vars) (s : Sdk) (mi : Meta) (kw : Str)
    (G : List WhileCall) (own : WhileCall) (K : List WhileCall)
    (hi : is[l]? = some ⟨mi, .script (mkInstr none kw [])⟩) (hk : isEndWhileKw kw = true)
    (he : s.endTable.get (lineKey s l) = some fullNameEndWhile)
    (hst : s.whileStack = G ++ own :: K) (ho : own.stop = l) (hctx : own.ctx = s.lineCtx)
    (hG : ∀ e ∈ G, e.stop ≠ l) :
    Steps is l v s own.start v { s with whileStack := own :: K } := by
  refine Steps.single (fun nested p => ?_)
  rcases resolve_endWhile hk s with h | h
  · apply runStep_cmd_goto nested is l p v s mi none kw [] .endWhile none _ v _ hi h
    simp only [runCmdF, runCmd, hst, popWhile_garb l s.lineCtx G own K ho hctx hG]
  · apply runStep_cmd_goto nested is l p v s mi none kw [] .endC none _ v _ hi h
    simp only [runCmdF, runCmd, he, resolve_fullEndWhile, hst,
      popWhile_garb l s.lineCtx G own K ho hctx hG]

theorem step_endFor (is : List Instruction) (l : Nat) (v : Vars) (s : Sdk) (mi : Meta) (kw : Str)
    (own : ForCall) (K : List ForCall)
    (hi : is[l]? = some ⟨mi, .script (mkInstr none kw [])⟩) (hk : isEndForKw kw = true)
    (he : s.endTable.get (lineKey s l) = some fullNameEndForIn)
    (hst : s.forStack = own :: K) (ho : own.stop = l) (hctx : own.ctx = s.lineCtx) :
    Steps is l v s own.start v s := by
  refine Steps.single (fun nested p => ?_)
  have hs : s = { s with forStack := own :: K } := by rw [← hst]
  rcases resolve_endFor hk s with h | h
  · apply runStep_cmd_goto nested is l p v s mi none kw [] .endFor none _ v _ hi h
    simp only [runCmdF, runCmd, hst, popFor_top l s.lineCtx true own K (.inr ho) hctx]
    rw [← hs]
  · apply runStep_cmd_goto nested is l p v s mi none kw [] .endC none _ v _ hi h
    simp only [runCmdF, runCmd, he, resolve_fullEndFor, hst,
      popFor_top l s.lineCtx true own K (.inr ho) hctx]
    rw [← hs]

/-! ### the `while` line -/

theorem step_while_true (is : List Instruction) (lo : Nat) (v : Vars) (s : Sdk) (mi : Meta)
    (kw : Str) (cond : List Str) (mid : List Nat) (stop : Nat) (em : List (List Str))
    (hi : is[lo]? = some ⟨mi, .script (mkInstr none kw cond)⟩) (hk : isWhileKw kw = true)
    (hf : s.fns = []) (hc : CacheOK is s)
    (hscan : findCommands whileTables is (lo + 1) = .ok ⟨mid, stop⟩)
    (hv : CondSays is (bind v (some cond)) v s.emitted true em) :
    ∃ M, Steps is lo v s (lo + 1) v
        { s with whileMeta := M, endTable := s.endTable.put (lineKey s stop) fullNameEndWhile,
                 emitted := em,
                 whileStack := { start := lo, stop := stop, ctx := s.lineCtx } :: s.whileStack } ∧
      CacheOK is { s with whileMeta := M, endTable := s.endTable.put (lineKey s stop) fullNameEndWhile } := by
  obtain ⟨M, hmeta, hcache⟩ := whileMetaFor_ok is s lo mid stop hc hscan
  refine ⟨M, Steps.singleF (fun f hf3 p => ?_), hcache⟩
  have hev := hv.2 f hf3
    { s with whileMeta := M, endTable := s.endTable.put (lineKey s stop) fullNameEndWhile } hf rfl
  apply runStep_cmd_continue _ is lo p v s mi none kw cond .whileC none v _ hi (resolve_while hk s)
  simp only [runCmdF, runCmd, hv.1, Bool.false_eq_true, if_false, hmeta, hev, if_true]

theorem step_while_false (is : List Instruction) (lo : Nat) (v : Vars) (s : Sdk) (mi : Meta)
    (kw : Str) (cond : List Str) (mid : List Nat) (stop : Nat) (em : List (List Str))
    (hi : is[lo]? = some ⟨mi, .script (mkInstr none kw cond)⟩) (hk : isWhileKw kw = true)
    (hf : s.fns = []) (hc : CacheOK is s)
    (hscan : findCommands whileTables is (lo + 1) = .ok ⟨mid, stop⟩)
    (hv : CondSays is (bind v (some cond)) v s.emitted false em) :
    ∃ M, Steps is lo v s (stop + 1) v
        { s with whileMeta := M, endTable := s.endTable.put (lineKey s stop) fullNameEndWhile,
                 emitted := em } ∧
      CacheOK is { s with whileMeta := M, endTable := s.endTable.put (lineKey s stop) fullNameEndWhile } := by
  obtain ⟨M, hmeta, hcache⟩ := whileMetaFor_ok is s lo mid stop hc hscan
  refine ⟨M, Steps.singleF (fun f hf3 p => ?_), hcache⟩
  have hev := hv.2 f hf3
    { s with whileMeta := M, endTable := s.endTable.put (lineKey s stop) fullNameEndWhile } hf rfl
  apply runStep_cmd_goto _ is lo p v s mi none kw cond .whileC none _ v _ hi (resolve_while hk s)
  simp only [runCmdF, runCmd, hv.1, Bool.false_eq_true, if_false, hmeta, hev]

/-! ### the `for` line -/

theorem step_for_first_some (is : List Instruction) (lo : Nat) (v : Vars) (s : Sdk) (mi : Meta)
    (kw x handle hv : Str) (mid : List Nat) (stop : Nat) (val : Str)
    (hi : is[lo]? = some ⟨mi, .script (mkInstr none kw [x, "in".toList, handle])⟩)
    (hk : isForKw kw = true)
    (hb : bind v (some [x, "in".toList, handle]) = [x, "in".toList, hv])
    (hc : CacheOK is s)
    (hscan : findCommands forTables is (lo + 1) = .ok ⟨mid, stop⟩)
    (habs : ∀ e ∈ s.forStack, e.start ≠ lo ∧ e.stop ≠ lo)
    (hval : (s.handles.get hv).bind (fun l => l[0]?) = some val) :
    ∃ M, Steps is lo v s (lo + 1) (v.set x val)
        { s with forMeta := M, endTable := s.endTable.put (lineKey s stop) fullNameEndForIn,
                 forStack := { iteration := 1, start := lo, stop := stop, ctx := s.lineCtx } :: s.forStack } ∧
      CacheOK is { s with forMeta := M, endTable := s.endTable.put (lineKey s stop) fullNameEndForIn } := by
  obtain ⟨M, hmeta, hcache⟩ := forMetaFor_ok is s lo mid stop hc hscan
  refine ⟨M, Steps.single (fun nested p => ?_), hcache⟩
  have hmeta' : forMetaFor is { s with forStack := s.forStack } lo = _ := hmeta
  apply runStep_cmd_continue nested is lo p v s mi none kw _ .forIn none _ _ hi (resolve_for hk s)
  simp only [runCmdF, runCmd, hb, ne_eq, not_true_eq_false, if_false,
    popFor_absent lo s.lineCtx s.forStack habs, hmeta', hval]
  rfl

theorem step_for_first_none (is : List Instruction) (lo : Nat) (v : Vars) (s : Sdk) (mi : Meta)
    (kw x handle hv : Str) (mid : List Nat) (stop : Nat)
    (hi : is[lo]? = some ⟨mi, .script (mkInstr none kw [x, "in".toList, handle])⟩)
    (hk : isForKw kw = true)
    (hb : bind v (some [x, "in".toList, handle]) = [x, "in".toList, hv])
    (hc : CacheOK is s)
    (hscan : findCommands forTables is (lo + 1) = .ok ⟨mid, stop⟩)
    (habs : ∀ e ∈ s.forStack, e.start ≠ lo ∧ e.stop ≠ lo)
    (hval : (s.handles.get hv).bind (fun l => l[0]?) = none) :
    ∃ M, Steps is lo v s (stop + 1) v
        { s with forMeta := M, endTable := s.endTable.put (lineKey s stop) fullNameEndForIn } ∧
      CacheOK is { s with forMeta := M, endTable := s.endTable.put (lineKey s stop) fullNameEndForIn } := by
  obtain ⟨M, hmeta, hcache⟩ := forMetaFor_ok is s lo mid stop hc hscan
  refine ⟨M, Steps.single (fun nested p => ?_), hcache⟩
  have hmeta' : forMetaFor is { s with forStack := s.forStack } lo = _ := hmeta
  apply runStep_cmd_goto nested is lo p v s mi none kw _ .forIn none _ _ _ hi (resolve_for hk s)
  simp only [runCmdF, runCmd, hb, ne_eq, not_true_eq_false, if_false,
    popFor_absent lo s.lineCtx s.forStack habs, hmeta', hval]

theorem step_for_next_some (is : List Instruction) (lo : Nat) (v : Vars) (s : Sdk) (mi : Meta)
    (kw x handle hv : Str) (own : ForCall) (K : List ForCall) (val : Str)
    (hi : is[lo]? = some ⟨mi, .script (mkInstr none kw [x, "in".toList, handle])⟩)
    (hk : isForKw kw = true)
    (hb : bind v (some [x, "in".toList, handle]) = [x, "in".toList, hv])
    (hst : s.forStack = own :: K) (ho : own.start = lo) (hctx : own.ctx = s.lineCtx)
    (hval : (s.handles.get hv).bind (fun l => l[own.iteration]?) = some val) :
    Steps is lo v s (lo + 1) (v.set x val)
      { s with forStack := { own with iteration := own.iteration + 1, ctx := s.lineCtx } :: K } := by
  refine Steps.single (fun nested p => ?_)
  apply runStep_cmd_continue nested is lo p v s mi none kw _ .forIn none _ _ hi (resolve_for hk s)
  simp only [runCmdF, runCmd, hb, ne_eq, not_true_eq_false, if_false, hst,
    popFor_top lo s.lineCtx false own K (.inl ho) hctx, hval]
  rfl

theorem step_for_next_none (is : List Instruction) (lo : Nat) (v : Vars) (s : Sdk) (mi : Meta)
    (kw x handle hv : Str) (own : ForCall) (K : List ForCall)
    (hi : is[lo]? = some ⟨mi, .script (mkInstr none kw [x, "in".toList, handle])⟩)
    (hk : isForKw kw = true)
    (hb : bind v (some [x, "in".toList, handle]) = [x, "in".toList, hv])
    (hst : s.forStack = own :: K) (ho : own.start = lo) (hctx : own.ctx = s.lineCtx)
    (hval : (s.handles.get hv).bind (fun l => l[own.iteration]?) = none) :
    Steps is lo v s (own.stop + 1) v { s with forStack := K } := by
  refine Steps.single (fun nested p => ?_)
  apply runStep_cmd_goto nested is lo p v s mi none kw _ .forIn none _ _ _ hi (resolve_for hk s)
  simp only [runCmdF, runCmd, hb, ne_eq, not_true_eq_false, if_false, hst,
    popFor_top lo s.lineCtx false own K (.inl ho) hctx, hval]

end Duck
