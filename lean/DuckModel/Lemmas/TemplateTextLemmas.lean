/-
  Helper lemmas for Props/C02Text.lean: a command line written by `Spec.capLine`
  (`Spec/TemplateText.lean`) against `parseLine`, and the composition with the binding lemmas
  of `ExpansionLemmas`.

  The scanner reads the body of an argument as a sequence of PIECES:
  an ordinary character | `\"` | `\n` | `\r` | `\t` | `\${`
  (`pvLoop_plain_char`, `pvLoop_esc_*`, `pvLoop_esc_var`), both inside quotes (`q = true`) and
  outside (`q = false`, where the written text must be free of the space character and `#`).
-/
import DuckModel.Parser
import DuckModel.Expansion
import DuckModel.Spec.TemplateText
import DuckModel.Lemmas.RenderLemmas
import DuckModel.Lemmas.ExpansionLemmas

namespace Duck
open Duck.Spec

/-! ### `TextOK` is inside the domain of the binding theorems -/

theorem nameTextOK_key {n : Str} (h : NameTextOK n) : KeyOK n := h.1

theorem segTextOK_ok {s : Seg} (h : s.TextOK) : s.OK := by
  cases s with
  | lit t => exact h
  | var n => exact h.1
  | escVar n => exact ⟨h.1.1, h.2⟩

/-! ### written text that may stand outside quotes -/

/-- outside quotes (`q = false`) the text has neither the space character nor `#` -/
def UnqText (q : Bool) (s : Str) : Prop := q = false → ∀ x ∈ s, x ≠ ' ' ∧ x ≠ '#'

theorem UnqText.nil (q : Bool) : UnqText q [] := by
  intro _ x hx; simp at hx

theorem UnqText.quoted (s : Str) : UnqText true s := by
  intro h; simp at h

theorem UnqText.append_left {q : Bool} {a b : Str} (h : UnqText q (a ++ b)) : UnqText q a :=
  fun hq x hx => h hq x (List.mem_append.mpr (Or.inl hx))

theorem UnqText.append_right {q : Bool} {a b : Str} (h : UnqText q (a ++ b)) : UnqText q b :=
  fun hq x hx => h hq x (List.mem_append.mpr (Or.inr hx))

theorem UnqText.tail {q : Bool} {c : Char} {s : Str} (h : UnqText q (c :: s)) : UnqText q s :=
  fun hq x hx => h hq x (by simp [hx])

theorem UnqText.head {q : Bool} {c : Char} {s : Str} (h : UnqText q (c :: s)) :
    q = false → c ≠ ' ' ∧ c ≠ '#' :=
  fun hq => h hq c (by simp)

/-! ### the pieces -/

/-- an ordinary character -/
theorem pvLoop_plain_char (q : Bool) (c : Char) (acc l : Str) (h1 : c ≠ '\\') (h2 : c ≠ '"')
    (hu : q = false → c ≠ ' ' ∧ c ≠ '#') :
    pvLoop (argFlags false) { arg := acc, inArg := true, usingQuotes := q } (c :: l) =
      pvLoop (argFlags false) { arg := acc ++ [c], inArg := true, usingQuotes := q } l := by
  cases q
  · obtain ⟨a, b⟩ := hu rfl
    simp [pvLoop, pvStep, argFlags, h1, h2, a, b]
  · simp [pvLoop, pvStep, argFlags, h1, h2]

theorem pvLoop_esc_quote (q : Bool) (acc l : Str) :
    pvLoop (argFlags false) { arg := acc, inArg := true, usingQuotes := q } ('\\' :: '"' :: l) =
      pvLoop (argFlags false) { arg := acc ++ ['"'], inArg := true, usingQuotes := q } l := by
  cases q <;> simp [pvLoop, pvStep, argFlags]

theorem pvLoop_esc_n (q : Bool) (acc l : Str) :
    pvLoop (argFlags false) { arg := acc, inArg := true, usingQuotes := q } ('\\' :: 'n' :: l) =
      pvLoop (argFlags false) { arg := acc ++ ['\n'], inArg := true, usingQuotes := q } l := by
  cases q <;> simp [pvLoop, pvStep, argFlags]

theorem pvLoop_esc_r (q : Bool) (acc l : Str) :
    pvLoop (argFlags false) { arg := acc, inArg := true, usingQuotes := q } ('\\' :: 'r' :: l) =
      pvLoop (argFlags false) { arg := acc ++ ['\r'], inArg := true, usingQuotes := q } l := by
  cases q <;> simp [pvLoop, pvStep, argFlags]

theorem pvLoop_esc_t (q : Bool) (acc l : Str) :
    pvLoop (argFlags false) { arg := acc, inArg := true, usingQuotes := q } ('\\' :: 't' :: l) =
      pvLoop (argFlags false) { arg := acc ++ ['\t'], inArg := true, usingQuotes := q } l := by
  cases q <;> simp [pvLoop, pvStep, argFlags]

/-- `\${` stays the three characters `\${` -/
theorem pvLoop_esc_var (q : Bool) (acc l : Str) :
    pvLoop (argFlags false) { arg := acc, inArg := true, usingQuotes := q }
        ('\\' :: '$' :: '{' :: l) =
      pvLoop (argFlags false) { arg := acc ++ ['\\', '$', '{'], inArg := true, usingQuotes := q } l := by
  cases q <;> simp [pvLoop, pvStep, argFlags]

/-- a run of ordinary characters -/
theorem pvLoop_plain (q : Bool) (s acc l : Str) (h : ∀ c ∈ s, c ≠ '\\' ∧ c ≠ '"')
    (hu : UnqText q s) :
    pvLoop (argFlags false) { arg := acc, inArg := true, usingQuotes := q } (s ++ l) =
      pvLoop (argFlags false) { arg := acc ++ s, inArg := true, usingQuotes := q } l := by
  induction s generalizing acc with
  | nil => simp
  | cons c t ih =>
    obtain ⟨h1, h2⟩ := h c (by simp)
    rw [List.cons_append, pvLoop_plain_char q c acc _ h1 h2 hu.head,
      ih _ (fun x hx => h x (by simp [hx])) hu.tail]
    simp

/-! ### literal text -/

theorem litCharText_plain {c : Char} (h2 : c ≠ '"') (h3 : c ≠ '\n') (h4 : c ≠ '\r')
    (h5 : c ≠ '\t') : litCharText c = [c] := by
  simp [litCharText, h2, h3, h4, h5]

theorem pvLoop_litChar (q : Bool) (c : Char) (acc l : Str) (h1 : c ≠ '\\')
    (hu : UnqText q (litCharText c)) :
    pvLoop (argFlags false) { arg := acc, inArg := true, usingQuotes := q } (litCharText c ++ l) =
      pvLoop (argFlags false) { arg := acc ++ [c], inArg := true, usingQuotes := q } l := by
  by_cases h2 : c = '"'
  · subst h2; exact pvLoop_esc_quote q acc l
  by_cases h3 : c = '\n'
  · subst h3; exact pvLoop_esc_n q acc l
  by_cases h4 : c = '\r'
  · subst h4; exact pvLoop_esc_r q acc l
  by_cases h5 : c = '\t'
  · subst h5; exact pvLoop_esc_t q acc l
  rw [litCharText_plain h2 h3 h4 h5] at hu ⊢
  exact pvLoop_plain_char q c acc l h1 h2 hu.head

theorem pvLoop_lit (q : Bool) (t acc l : Str) (h : LitOK t)
    (hu : UnqText q (t.flatMap litCharText)) :
    pvLoop (argFlags false) { arg := acc, inArg := true, usingQuotes := q }
        (t.flatMap litCharText ++ l) =
      pvLoop (argFlags false) { arg := acc ++ t, inArg := true, usingQuotes := q } l := by
  induction t generalizing acc with
  | nil => simp
  | cons c t ih =>
    rw [List.flatMap_cons] at hu ⊢
    rw [List.append_assoc, pvLoop_litChar q c acc _ (h c (by simp)).2.2 hu.append_left,
      ih _ (fun x hx => h x (by simp [hx])) hu.append_right]
    simp

/-! ### one segment, a whole body -/

theorem name_close_plain {n : Str} (h : NameTextOK n) :
    ∀ c ∈ n ++ ['}'], c ≠ '\\' ∧ c ≠ '"' := by
  intro c hc
  rcases List.mem_append.mp hc with hc | hc
  · obtain ⟨a, b⟩ := h.2 c hc
    exact ⟨b, a⟩
  · simp at hc; subst hc; exact ⟨by decide, by decide⟩

theorem pvLoop_seg (q : Bool) (s : Seg) (acc l : Str) (h : s.TextOK) (hu : UnqText q s.text) :
    pvLoop (argFlags false) { arg := acc, inArg := true, usingQuotes := q } (s.text ++ l) =
      pvLoop (argFlags false) { arg := acc ++ s.render, inArg := true, usingQuotes := q } l := by
  cases s with
  | lit t => exact pvLoop_lit q t acc l h hu
  | var n =>
    have hp : ∀ c ∈ '$' :: '{' :: (n ++ ['}']), c ≠ '\\' ∧ c ≠ '"' := by
      intro c hc
      rcases List.mem_cons.mp hc with rfl | hc
      · exact ⟨by decide, by decide⟩
      rcases List.mem_cons.mp hc with rfl | hc
      · exact ⟨by decide, by decide⟩
      exact name_close_plain h c hc
    exact pvLoop_plain q _ acc l hp hu
  | escVar n =>
    have hu' : UnqText q (n ++ ['}']) := hu.tail.tail.tail
    simp only [Seg.text, Seg.render, List.cons_append]
    rw [pvLoop_esc_var, pvLoop_plain q _ _ l (name_close_plain h.1) hu']
    simp

theorem pvLoop_body (q : Bool) (t : List Seg) (acc l : Str) (h : ∀ s ∈ t, s.TextOK)
    (hu : UnqText q (tmplBody t)) :
    pvLoop (argFlags false) { arg := acc, inArg := true, usingQuotes := q } (tmplBody t ++ l) =
      pvLoop (argFlags false) { arg := acc ++ renderTemplate t, inArg := true, usingQuotes := q } l := by
  induction t generalizing acc with
  | nil => simp [tmplBody, renderTemplate]
  | cons s t ih =>
    simp only [tmplBody, renderTemplate, List.flatMap_cons] at hu ih ⊢
    rw [List.append_assoc, pvLoop_seg q s acc _ (h s (by simp)) hu.append_left,
      ih _ (fun x hx => h x (by simp [hx])) hu.append_right]
    simp

/-! ### a quoted argument -/

theorem parseNextValue_quoted_body (t : List Seg) (tail : Str) (h : ∀ s ∈ t, s.TextOK) :
    parseNextValue (argFlags false) ('"' :: (tmplBody t ++ '"' :: tail)) =
      .ok (tail, some (renderTemplate t)) := by
  rw [parseNextValue_eq, pvLoop_open_quote, pvLoop_body true t [] _ h (UnqText.quoted _), pvLoop]
  cases renderTemplate t <;> simp [pvStep, pvFinish]

/-! ### an unquoted argument -/

/-- the first character of an unquoted argument: the scanner is in the same state as inside an
    argument that is still empty -/
theorem pvLoop_start_unquoted (c : Char) (l : Str) (h1 : c ≠ ' ') (h2 : c ≠ '#') (h3 : c ≠ '"') :
    pvLoop (argFlags false) {} (c :: l) =
      pvLoop (argFlags false) { arg := [], inArg := true, usingQuotes := false } (c :: l) := by
  by_cases hb : c = '\\'
  · subst hb; simp [pvLoop, pvStep, argFlags]
  · simp [pvLoop, pvStep, argFlags, h1, h2, h3, hb]

theorem bodyNeedsQuotes_false {first : Bool} {body : Str}
    (h : bodyNeedsQuotes first body = false) :
    body ≠ [] ∧ (∀ c ∈ body, isWs c = false ∧ c ≠ '#') ∧
      (first = true → body.head? ≠ some '=') := by
  unfold bodyNeedsQuotes at h
  simp only [Bool.or_eq_false_iff, Bool.and_eq_false_iff] at h
  obtain ⟨⟨h1, h2⟩, h3⟩ := h
  refine ⟨?_, ?_, ?_⟩
  · intro he; subst he; simp at h1
  · intro c hc
    have := List.any_eq_false.mp h2 c hc
    simpa using this
  · intro hf
    rcases h3 with h3 | h3
    · rw [hf] at h3; exact absurd h3 (by decide)
    · simpa using h3

theorem litCharText_head (c : Char) : ∃ x r, litCharText c = x :: r ∧ x ≠ '"' := by
  unfold litCharText
  split
  · exact ⟨'\\', _, rfl, by decide⟩
  split
  · exact ⟨'\\', _, rfl, by decide⟩
  split
  · exact ⟨'\\', _, rfl, by decide⟩
  split
  · exact ⟨'\\', _, rfl, by decide⟩
  · rename_i h _ _ _
    exact ⟨c, [], rfl, h⟩

theorem segText_head (s : Seg) : s.text.head? ≠ some '"' := by
  cases s with
  | lit t =>
    cases t with
    | nil => simp [Seg.text]
    | cons c t =>
      obtain ⟨x, r, hx, hq⟩ := litCharText_head c
      simp only [Seg.text, List.flatMap_cons, hx, List.cons_append, List.head?_cons]
      intro he
      exact hq (Option.some.inj he)
  | var n => simp [Seg.text]
  | escVar n => simp [Seg.text]

theorem tmplBody_head (t : List Seg) : (tmplBody t).head? ≠ some '"' := by
  induction t with
  | nil => simp [tmplBody]
  | cons s t ih =>
    simp only [tmplBody, List.flatMap_cons] at ih ⊢
    cases hs : s.text with
    | nil => simpa using ih
    | cons x r =>
      have := segText_head s
      rw [hs] at this
      simpa using this

theorem litText_ne_nil {t : Str} (h : t.flatMap litCharText ≠ []) : t ≠ [] := by
  intro he; subst he; simp at h

theorem segRender_ne_nil {s : Seg} (h : s.text ≠ []) : s.render ≠ [] := by
  cases s with
  | lit t => exact litText_ne_nil h
  | var n => simp [Seg.render]
  | escVar n => simp [Seg.render]

theorem renderTemplate_ne_nil {t : List Seg} (h : tmplBody t ≠ []) : renderTemplate t ≠ [] := by
  induction t with
  | nil => simp [tmplBody] at h
  | cons s t ih =>
    simp only [tmplBody, renderTemplate, List.flatMap_cons] at h ih ⊢
    by_cases hs : s.text = []
    · rw [hs, List.nil_append] at h
      intro he
      exact ih h (List.append_eq_nil_iff.mp he).2
    · intro he
      exact segRender_ne_nil hs (List.append_eq_nil_iff.mp he).1

/-- the remainder after an argument: nothing, or the space before the next argument -/
def SpTail (tail : Str) : Prop := tail = [] ∨ ∃ r, tail = ' ' :: r

theorem SpTail.bnd {tail : Str} (h : SpTail tail) : Bnd false tail := by
  rcases h with rfl | ⟨r, rfl⟩
  · exact Bnd.nil
  · exact Bnd.space r

theorem SpTail.afterTok {tail : Str} (h : SpTail tail) : afterTok tail = tail := by
  rcases h with rfl | ⟨r, rfl⟩
  · rfl
  · exact afterTok_space r

theorem parseNextValue_unquoted_body (first : Bool) (t : List Seg) (tail : Str)
    (h : ∀ s ∈ t, s.TextOK) (hn : bodyNeedsQuotes first (tmplBody t) = false) (ht : SpTail tail) :
    parseNextValue (argFlags false) (tmplBody t ++ tail) = .ok (tail, some (renderTemplate t)) := by
  obtain ⟨hne, hall, _⟩ := bodyNeedsQuotes_false hn
  have hu : UnqText false (tmplBody t) := fun _ x hx =>
    ⟨(isWs_false_ne (hall x hx).1).1, (hall x hx).2⟩
  have hhead := tmplBody_head t
  have hstart : pvLoop (argFlags false) {} (tmplBody t ++ tail) =
      pvLoop (argFlags false) { arg := [], inArg := true, usingQuotes := false }
        (tmplBody t ++ tail) := by
    cases hb : tmplBody t with
    | nil => exact absurd hb hne
    | cons c r =>
      rw [hb] at hu hhead
      obtain ⟨a, b⟩ := hu.head rfl
      exact pvLoop_start_unquoted c _ a b (by simpa using hhead)
  rw [parseNextValue_eq, hstart, pvLoop_body false t [] tail h hu, List.nil_append]
  have := pv_finish_at_bnd (argFlags false) (renderTemplate t) tail (renderTemplate_ne_nil hne) ht.bnd
  rw [ht.afterTok] at this
  exact this

/-! ### a spread -/

theorem spread_tok {n : Str} (h : WArg.OK (.spread n)) :
    ∀ x ∈ renderSpread n, TokChar (argFlags false) x := by
  obtain ⟨hn, hw⟩ := h
  have hst : (argFlags false).stopOnEquals = true → ∀ x : Char, x ≠ '=' := by
    intro h; simp [argFlags] at h
  intro x hx
  unfold renderSpread at hx
  rcases List.mem_cons.mp hx with rfl | hx
  · exact ⟨by decide, by decide, by decide, fun h => hst h _⟩
  rcases List.mem_cons.mp hx with rfl | hx
  · exact ⟨by decide, by decide, by decide, fun h => hst h _⟩
  rcases List.mem_append.mp hx with hx | hx
  · obtain ⟨a, b⟩ := hw x hx
    exact ⟨by simpa using a, b, (hn.2 x hx).2, fun h => hst h _⟩
  · simp at hx; subst hx
    exact ⟨by decide, by decide, by decide, fun h => hst h _⟩

theorem parseNextValue_spread (n tail : Str) (h : WArg.OK (.spread n)) (ht : SpTail tail) :
    parseNextValue (argFlags false) (renderSpread n ++ tail) = .ok (tail, some (renderSpread n)) := by
  have := parseNextValue_tok (argFlags false) (renderSpread n) tail (by simp [renderSpread])
    (spread_tok h) (by simp [renderSpread]) ht.bnd
  rw [ht.afterTok] at this
  exact this

/-! ### one written argument -/

theorem parseNextValue_warg (first : Bool) (a : WArg) (tail : Str) (h : a.OK) (ht : SpTail tail) :
    parseNextValue (argFlags false) (a.text first ++ tail) = .ok (tail, some a.written) := by
  cases a with
  | spread n => exact parseNextValue_spread n tail h ht
  | tmpl t q =>
    simp only [WArg.text, WArg.written]
    split
    · have := parseNextValue_quoted_body t tail h
      simpa using this
    · rename_i hc
      have hn : bodyNeedsQuotes first (tmplBody t) = false := by
        cases hb : bodyNeedsQuotes first (tmplBody t) <;> simp [hb] at hc ⊢
      exact parseNextValue_unquoted_body first t tail h hn ht

/-- first character of a written argument -/
theorem warg_text_head (a : WArg) :
    ∃ c r, a.text true = c :: r ∧ c ≠ ' ' ∧ c ≠ '=' := by
  cases a with
  | spread n => exact ⟨'%', _, rfl, by decide, by decide⟩
  | tmpl t q =>
    simp only [WArg.text]
    split
    · exact ⟨'"', _, rfl, by decide, by decide⟩
    · rename_i hc
      have hn : bodyNeedsQuotes true (tmplBody t) = false := by
        cases hb : bodyNeedsQuotes true (tmplBody t) <;> simp [hb] at hc ⊢
      obtain ⟨hne, hall, hf⟩ := bodyNeedsQuotes_false hn
      cases hb : tmplBody t with
      | nil => exact absurd hb hne
      | cons c r =>
        rw [hb] at hall hf
        refine ⟨c, r, rfl, (isWs_false_ne (hall c (by simp)).1).1, ?_⟩
        simpa using hf rfl

theorem warg_text_ne_nil (first : Bool) (a : WArg) : a.text first ≠ [] := by
  cases a with
  | spread n => simp [WArg.text, renderSpread]
  | tmpl t q =>
    simp only [WArg.text]
    split
    · simp
    · rename_i hc
      have hn : bodyNeedsQuotes first (tmplBody t) = false := by
        cases hb : bodyNeedsQuotes first (tmplBody t) <;> simp [hb] at hc ⊢
      exact (bodyNeedsQuotes_false hn).1

theorem noTrail_warg (first : Bool) (a : WArg) : NoTrail (a.text first) := by
  cases a with
  | spread n =>
    have : WArg.text first (.spread n) = ('%' :: '{' :: n) ++ ['}'] := by
      simp [WArg.text, renderSpread]
    rw [this]
    exact NoTrail.append_singleton _ _ (by decide)
  | tmpl t q =>
    simp only [WArg.text]
    split
    · have : '"' :: (tmplBody t ++ ['"']) = ('"' :: tmplBody t) ++ ['"'] := by simp
      rw [this]
      exact NoTrail.append_singleton _ _ (by decide)
    · rename_i hc
      have hn : bodyNeedsQuotes first (tmplBody t) = false := by
        cases hb : bodyNeedsQuotes first (tmplBody t) <;> simp [hb] at hc ⊢
      exact NoTrail.of_all_nonws _ (fun c hc => ((bodyNeedsQuotes_false hn).2.1 c hc).1)

/-! ### the argument part of the line -/

theorem capLine_go_nil (first : Bool) : capLine.go first [] = [] := rfl

theorem capLine_go_cons (first : Bool) (a : WArg) (rest : List WArg) :
    capLine.go first (a :: rest) = ' ' :: (a.text first ++ capLine.go false rest) := rfl

theorem capLine_go_spTail (first : Bool) (args : List WArg) : SpTail (capLine.go first args) := by
  cases args with
  | nil => exact Or.inl rfl
  | cons a rest => exact Or.inr ⟨_, rfl⟩

theorem parseArgsLoop_capLine (args : List WArg) (h : ∀ a ∈ args, a.OK) :
    ∀ first, parseArgsLoop false (capLine.go first args) = .ok (args.map WArg.written) := by
  induction args with
  | nil =>
    intro first
    exact parseArgsLoop_none false _ [] (parseNextValue_eol _ EolTail.nil)
  | cons a rest ih =>
    intro first
    rw [capLine_go_cons, List.map_cons]
    refine parseArgsLoop_step false _ (capLine.go false rest) a.written _ ?_ ?_
      (ih (fun x hx => h x (by simp [hx])) false)
    · have := parseNextValue_spaces (argFlags false) 1 (a.text first ++ capLine.go false rest)
      rw [spaces_succ, spaces_zero] at this
      rw [List.cons_append, List.nil_append] at this
      rw [this]
      exact parseNextValue_warg first a _ (h a (by simp)) (capLine_go_spTail false rest)
    · simp only [List.length_cons, List.length_append]
      omega

theorem parseArguments_capLine (args : List WArg) (h : ∀ a ∈ args, a.OK) :
    parseArguments (capLine.go true args) =
      .ok (if args.isEmpty then none else some (args.map WArg.written)) := by
  apply parseArguments_of_loop
  · cases args <;> simp
  · rw [parseArgsLoop_capLine args h true]
    cases args <;> simp

theorem noEqAhead_capLine_go (args : List WArg) : NoEqAhead (capLine.go true args) := by
  cases args with
  | nil => exact noEqAhead_nil
  | cons a rest =>
    obtain ⟨c, r, hc, h1, h2⟩ := warg_text_head a
    rw [capLine_go_cons, hc, List.cons_append]
    exact noEqAhead_space (noEqAhead_cons c _ h1 h2)

theorem noTrail_capLine_go (args : List WArg) : ∀ first, NoTrail (capLine.go first args) := by
  induction args with
  | nil => intro first; exact NoTrail.nil
  | cons a rest ih =>
    intro first
    have e : capLine.go first (a :: rest) = [' '] ++ (a.text first ++ capLine.go false rest) := rfl
    rw [e]
    refine NoTrail.append _ _ (NoTrail.append' _ _ (noTrail_warg first a) (ih false)) ?_
    have := warg_text_ne_nil first a
    simp [this]

/-! ### the command name -/

theorem cmdTextOK_nameOK {cmd : Str} (h : CmdTextOK cmd) : NameOK cmd := by
  obtain ⟨hne, hall, _, _⟩ := h
  refine ⟨hne, ?_, ?_⟩
  · intro c hc
    obtain ⟨a, b, _, d, _⟩ := hall c hc
    exact ⟨by simpa using a, b, d⟩
  · cases cmd with
    | nil => exact absurd rfl hne
    | cons c t =>
      have := (hall c (by simp)).2.2.1
      simpa using this

theorem cmdTextOK_noEq {cmd : Str} (h : CmdTextOK cmd) : NoEq cmd :=
  fun c hc => (h.2.1 c hc).2.2.2.2.1

theorem cmdTextOK_firstOK {cmd : Str} (h : CmdTextOK cmd) : FirstOK cmd := ⟨h.2.2.1, h.2.2.2⟩

/-! ### the whole line -/

theorem parseCommandLine_capLine (cmd : Str) (args : List WArg) (hc : CmdTextOK cmd)
    (h : ∀ a ∈ args, a.OK) :
    parseCommandLine (capLine cmd args) =
      .ok (.script { label := none, output := none, command := some cmd,
                     args := if args.isEmpty then none else some (args.map WArg.written) }) := by
  have hsp := capLine_go_spTail true args
  have hgen := parseCommandLine_cmd_gen none 0 none 0 0 cmd (capLine.go true args)
    (by intro l hl; cases hl) (by intro o ho; cases ho)
    ⟨(cmdTextOK_nameOK hc), fun _ => ⟨(cmdTextOK_noEq hc), fun _ => (cmdTextOK_firstOK hc)⟩⟩ hsp.bnd
    (by rw [hsp.afterTok]; exact noEqAhead_capLine_go args)
  simp only [lblPart, outPart, List.nil_append] at hgen
  rw [hsp.afterTok, parseArguments_capLine args h] at hgen
  exact hgen

theorem trim_capLine (cmd : Str) (args : List WArg) (hc : CmdTextOK cmd) :
    trim (capLine cmd args) = capLine cmd args := by
  obtain ⟨x, r, rfl, hws, _⟩ := nameOK_head (cmdTextOK_nameOK hc)
  have hnt : NoTrail (capLine (x :: r) args) := by
    unfold capLine
    exact NoTrail.append' _ _ (noTrail_name (cmdTextOK_nameOK hc)) (noTrail_capLine_go args true)
  unfold trim
  have e : capLine (x :: r) args = x :: (r ++ capLine.go true args) := rfl
  rw [e, trimStart_cons_nonws x _ hws, ← e]
  exact hnt

theorem parseLine_capLine (cmd : Str) (args : List WArg) (hc : CmdTextOK cmd)
    (h : ∀ a ∈ args, a.OK) :
    parseLine (capLine cmd args) =
      .ok (.script { label := none, output := none, command := some cmd,
                     args := if args.isEmpty then none else some (args.map WArg.written) }) := by
  obtain ⟨x, r, hx, _, hh, _⟩ := nameOK_head (cmdTextOK_nameOK hc)
  have hbang : x ≠ '!' := by
    have := (cmdTextOK_firstOK hc).2
    rw [hx] at this
    simpa using this
  have e : capLine cmd args = x :: (r ++ capLine.go true args) := by
    unfold capLine; rw [hx]; rfl
  rw [parseLine_of_trim_cmd (capLine cmd args) x (r ++ capLine.go true args)
    (by rw [trim_capLine cmd args hc, e]) hh hbang, ← e]
  exact parseCommandLine_capLine cmd args hc h

/-! ### binding the written arguments -/

theorem bind_nil (vars : Vars) : bind vars (some []) = [] := rfl

theorem bind_cons (vars : Vars) (a : Str) (as : List Str) :
    bind vars (some (a :: as)) = bind vars (some [a]) ++ bind vars (some as) := by
  simp [bind]

theorem bind_written_tmpl (vars : Vars) (t : List Seg) (h : ∀ s ∈ t, s.TextOK) :
    bind vars (some [renderTemplate t]) = [tmplValue vars t] := by
  have := bind_templates vars [t] (by
    intro t' ht' s hs
    simp at ht'; subst ht'
    exact segTextOK_ok (h s hs))
  simpa using this

theorem bind_written (vars : Vars) (a : WArg) (h : a.OK)
    (hs : ∀ n, a = .spread n → SpreadPlain ((vars.get n).getD [])) :
    bind vars (some [a.written]) = a.expected vars := by
  cases a with
  | tmpl t q => exact bind_written_tmpl vars t h
  | spread n =>
    refine bind_spread vars n h.1.1 ?_
    intro v hv
    have := hs n rfl
    rw [hv] at this
    exact this

theorem bind_written_args (vars : Vars) (args : List WArg) (h : ∀ a ∈ args, a.OK)
    (hs : ∀ a ∈ args, ∀ n, a = .spread n → SpreadPlain ((vars.get n).getD [])) :
    bind vars (some (args.map WArg.written)) = args.flatMap (WArg.expected vars) := by
  induction args with
  | nil => rfl
  | cons a rest ih =>
    rw [List.map_cons, bind_cons, List.flatMap_cons,
      bind_written vars a (h a (by simp)) (hs a (by simp)),
      ih (fun x hx => h x (by simp [hx])) (fun x hx => hs x (by simp [hx]))]

theorem bind_written_opt (vars : Vars) (args : List WArg) (h : ∀ a ∈ args, a.OK)
    (hs : ∀ a ∈ args, ∀ n, a = .spread n → SpreadPlain ((vars.get n).getD [])) :
    bind vars (if args.isEmpty then none else some (args.map WArg.written)) =
      args.flatMap (WArg.expected vars) := by
  cases args with
  | nil => rfl
  | cons a rest => exact bind_written_args vars (a :: rest) h hs

end Duck
