/-
  `array_join` run from source, part 4: an array with cells.
-/
import DuckModel.Lemmas.ScriptLoopArrayJoinCall

namespace Duck.ScriptRun
open Duck Duck.Alias Duck.Coll Duck.Spec Duck.Generated Duck.Reser

/-- the states of a body whose argument names an array with cells, with the keys written out -/
def jS1 (s : ScriptSt) : ScriptSt :=
  { s with ifMeta := ifMetaAfter s.ifMeta (jKey 1) 3, endTable := s.endTable.put (jKey 3) fullNameEndIf }

def jS2 (s : ScriptSt) : ScriptSt :=
  { jS1 s with ifMeta := ifMetaAfter (jS1 s).ifMeta (jKey 5) 16, endTable := (jS1 s).endTable.put (jKey 16) fullNameEndIf }

/-- after the passed `if not array_is_empty` -/
def jS3 (s : ScriptSt) (a : Str) : ScriptSt :=
  { mieSt (jS2 s) a with ifStack := ifEntry 5 16 jScope :: s.ifStack }

/-- the base state of the loop -/
def jSB (s : ScriptSt) (a : Str) : ScriptSt :=
  { jS3 s a with forMeta := forMetaAfter s.forMeta (jKey 6) 8, endTable := (jS2 s).endTable.put (jKey 8) fullNameEndForIn }

/-- after `if not is_empty <separator>` -/
def jS5 (s : ScriptSt) (a : Str) (b : Bool) : ScriptSt :=
  { jSB s a with ifMeta := ifMetaAfter (jS2 s).ifMeta (jKey 10) 15,
                 endTable := (jSB s a).endTable.put (jKey 15) fullNameEndIf,
                 ifStack := if b then ifEntry 10 15 jScope :: (jSB s a).ifStack else (jSB s a).ifStack }

theorem jS5_post (s : ScriptSt) (a : Str) (b : Bool) (hinv : JInv s s.ifMeta s.forMeta s.endTable)
    (hfree : tget s.coll.tbl (Coll.handleName s.coll.next) = none) :
    JBodyPost s (jS5 s a b) 1 ((if b then [ifEntry 10 15 jScope] else []) ++ [ifEntry 5 16 jScope]) := by
  refine ⟨?_, rfl, ?_, rfl, fun k => tget_mieSt (jS2 s) a k hfree⟩
  · exact (((hinv.afterIf 1 3 (Or.inl ⟨rfl, rfl⟩)).afterIf 5 16 (Or.inr (Or.inl ⟨rfl, rfl⟩))).afterFor).afterIf 10 15
      (Or.inr (Or.inr ⟨rfl, rfl⟩))
  · cases b <;> rfl

theorem joinAll_nil_sep : ∀ (xs : List Str), joinAll [] xs = xs.flatten
  | [] => rfl
  | x :: r => by simp [joinAll, joinAll_nil_sep r]

theorem joinStr_nil_sep : ∀ (xs : List Str), joinStr [] xs = xs.flatten
  | [] => rfl
  | [x] => by simp [joinStr]
  | x :: y :: r => by
    have := joinStr_nil_sep (y :: r)
    simp only [joinStr, List.append_nil, this, List.flatten_cons]

/-- the argument names an array with cells -/
theorem aj_body_cells (d : Nat) (s : ScriptSt) (vars : Vars) (a sep : Str) (x : Item) (rem : List Item)
    (hX : ArgOK a = true) (hS : ArgOK sep = true) (hctx : s.ctx = jScope)
    (hv1 : vars.get jArg1 = some a) (hv2 : vars.get jArg2 = some sep) (hstr : vars.get jString = none)
    (hinv : JInv s s.ifMeta s.forMeta s.endTable)
    (hfree : tget s.coll.tbl (Coll.handleName s.coll.next) = none) (hstale : NoStaleFor jScope s.forStack)
    (hT : tget s.coll.tbl a = some (.list (x :: rem)))
    (hsize : (utf8Encode (joinAll sep ((x :: rem).map Item.render))).length < Calc.two53) :
    ∃ vars',
      (∀ G N fuel, N = fuel + 3 * (rem.length + 1) + 16 →
        scriptBody (bodySem (G + 2 + 2) (d + 3) ajIs) (fun _ => false) N ajIs vars s =
          (.finished (some (joinStr sep ((x :: rem).map Item.render))), vars', jS5 s a (decide (sep ≠ [])))) ∧
      clear jScope vars' = clear jScope (clear aieScope vars) := by
  have hne : a ≠ Coll.handleName s.coll.next := by intro e; rw [e, hfree] at hT; cases hT
  have hS1 : ifSt s 1 3 = jS1 s := ifSt_jKey s hctx 1 3
  have hS2 : ifSt (jS1 s) 5 16 = jS2 s := ifSt_jKey (jS1 s) hctx 5 16
  have hc5' : IfCacheOK (jS1 s).ifMeta (flowKey (jS1 s) 5) 16 := by
    rw [flowKey_jKey (jS1 s) hctx]; exact (hinv.afterIf 1 3 (Or.inl ⟨rfl, rfl⟩)).c5
  have hif5 := runIf_not_aie (0 : Nat) d ajIs 5 16 (jS1 s) vars a (x :: rem) hX aj_findIf5 hc5' hT hne
  -- the loop
  have hTB : tget (jSB s a).coll.tbl a = some (.list (x :: rem)) := by
    show tget (mieSt (jS2 s) a).coll.tbl a = _
    rw [tget_mieSt (jS2 s) a a hfree]; exact hT
  have hV0 : JV (clear aieScope vars) ((clear aieScope vars).set jItem x.render) a sep [] :=
    ⟨by rw [get_set, if_neg (by decide), get_clear_aie vars jArg1 (by decide)]; exact hv1,
     by rw [get_set, if_neg (by decide), get_clear_aie vars jArg2 (by decide)]; exact hv2,
     by rw [get_set, if_neg (by decide), get_clear_aie vars jString (by decide), hstr]; rfl,
     by rw [clear_set_under _ _ _ _ jItem_under]⟩
  obtain ⟨vars5, poll5, hrun5, hJV⟩ := aj_loop (d + 2) (jSB s a) a sep (x :: rem) hctx
    (by rw [flowKey_jKey (jSB s a) hctx]
        show ((jS2 s).endTable.put (jKey 8) fullNameEndForIn).get (jKey 8) = _
        rw [KV.get_put, if_pos rfl])
    hTB (clear aieScope vars) rem [] x [] ((clear aieScope vars).set jItem x.render) (0 + 1 + 1 + 1 + 1 + 1) none rfl hV0
    (by rw [get_set, if_pos rfl])
  simp only [List.nil_append] at hJV
  have hc10 : IfCacheOK (jSB s a).ifMeta (flowKey (jSB s a) 10) 15 := by
    rw [flowKey_jKey (jSB s a) hctx]
    exact ((hinv.afterIf 1 3 (Or.inl ⟨rfl, rfl⟩)).afterIf 5 16 (Or.inr (Or.inl ⟨rfl, rfl⟩))).c10
  have hS5 : ifSt (jSB s a) 10 15 = jS5 s a false := ifSt_jKey (jSB s a) hctx 10 15
  have he16 : ∀ b, (jS5 s a b).endTable.get (flowKey (jS5 s a b) 16) = some fullNameEndIf := by
    intro b
    rw [flowKey_jKey (jS5 s a b) hctx]
    show ((((jS1 s).endTable.put (jKey 16) fullNameEndIf).put (jKey 8) fullNameEndForIn).put (jKey 15) fullNameEndIf).get (jKey 16) = _
    rw [get_put_jKey_ne _ 15 16 _ (by omega), get_put_jKey_ne _ 8 16 _ (by omega), KV.get_put, if_pos rfl]
  -- the common prefix of the run: up to the line after the loop
  have hprefix : ∀ G fuel,
      evalInstructions (bodySem (G + 2 + 2) (d + 3) ajIs) (fun _ => false) ajIs (fuel + 3 * (rem.length + 1) + 6) 0 0 none vars s =
      evalInstructions (bodySem (G + 2 + 2) (d + 3) ajIs) (fun _ => false) ajIs fuel 10 (poll5 + 1) none vars5 (jSB s a) := by
    intro G fuel
    have hif5G := runIf_not_aie G d ajIs 5 16 (jS1 s) vars a (x :: rem) hX aj_findIf5 hc5' hT hne
    rw [if_neg (by simp), hS2] at hif5G
    rw [show fuel + 3 * (rem.length + 1) + 6 = fuel + 1 + 3 * rem.length + 3 + 1 + 1 + 3 by omega,
      aj_pre G d s vars a (x :: rem) hX hctx hv1 hinv.c1 hT, hS1]
    rw [eval_flow_continue (G + 2 + 2) (d + 2) ajIs _ 5 _ none vars (jS1 s) _ _ "if".toList .ifC
      (show ajIs[5]? = some (mkI 6 none "if" (some [[.lit "not".toList], [.lit "array_is_empty".toList], [.var jArg1]])) from rfl)
      rfl fs_if rn_if rf_if _ (aj_bind_if5 vars a hv1) none _ _ hif5G]
    have hb6 := aj_bind_for (Vars.updateOutput (clear aieScope vars) none none) a
      (by show (clear aieScope vars).get jArg1 = _
          rw [get_clear_aie vars jArg1 (by decide)]; exact hv1)
    have hst3 : ({ mieSt (jS2 s) a with ifStack := ifEntry 5 16 (jS1 s).ctx :: (jS1 s).ifStack } : ScriptSt) = jS3 s a := by
      show ({ mieSt (jS2 s) a with ifStack := ifEntry 5 16 s.ctx :: s.ifStack } : ScriptSt) = _
      rw [hctx]; rfl
    rw [hst3]
    rw [eval_for_first_next (G + 2 + 2) (d + 2) ajIs 6 8 _ _
      (show ajIs[6]? = some (mkI 7 none "for" (some [[.lit jItem], [.lit "in".toList], [.var jArg1]])) from rfl) rfl rfl
      _ (jS3 s a) jItem a x.render hb6
      (by show popFor 6 s.ctx false s.forStack = _
          rw [hctx]; exact popFor_noStale 6 jScope s.forStack hstale)
      aj_findFor
      (by rw [flowKey_jKey (jS3 s a) hctx]; exact hinv.c6)
      (by have : tget (jS3 s a).coll.tbl a = some (.list (x :: rem)) := hTB
          simp [nextIteration, this])
      _ _ none]
    have hst4 : ({ forSt (jS3 s a) 6 8 with forStack := ⟨1, 6, 8, (jS3 s a).ctx⟩ :: (jS3 s a).forStack } : ScriptSt) =
        { jSB s a with forStack := ⟨([] : List Item).length + 1, 6, 8, jScope⟩ :: (jSB s a).forStack } := by
      rw [forSt_jKey (jS3 s a) hctx]
      simp only [jSB, jS3, jS2, jS1, mieSt, hctx, List.length_nil, Nat.zero_add]
    rw [hst4]
    have h5 := hrun5 (G + 2 + 2) (fuel + 1)
    simp only [Vars.updateOutput] at h5 ⊢
    rw [h5, eval_skip _ _ _ 9 _ _ _ _ _ (show ajIs[9]? = some (emptyI 10) from rfl) rfl]
  by_cases hsep : sep = []
  · -- empty separator: nothing to cut
    refine ⟨vars5, ?_, hJV.clr⟩
    intro G N fuel hN
    subst hN
    unfold scriptBody
    rw [show fuel + 3 * (rem.length + 1) + 16 = fuel + 5 + 3 + 1 + 1 + 3 * (rem.length + 1) + 6 by omega, hprefix G]
    have hif10 := runIf_not_is_empty (G + 2) (d + 1) ajIs 10 15 (jSB s a) vars5 sep hS aj_findIf10 hc10
    rw [if_pos hsep, hS5] at hif10
    rw [eval_flow_goto (G + 2 + 2) (d + 2) ajIs _ 10 _ none vars5 (jSB s a) _ _ "if".toList .ifC
      (show ajIs[10]? = some (mkI 11 none "if" (some [[.lit "not".toList], [.lit "is_empty".toList], [.var jArg2]])) from rfl)
      rfl fs_if rn_if rf_if _ (aj_bind_if10 vars5 sep hJV.arg2) none _ _ _ hif10]
    rw [eval_end_if (G + 2 + 2) (d + 2) ajIs 16 _ _ (show ajIs[16]? = some (mkI 17 none "end" none) from rfl) rfl rfl rfl
      vars5 (jS5 s a false) (he16 false) (fuel + 5 + 3) _ none]
    rw [aj_tail, hJV.str]
    subst hsep
    rw [joinAll_nil_sep, joinStr_nil_sep]
    simp
  · -- a separator: the trailing one is cut off
    have hJ : joinAll sep ((x :: rem).map Item.render) = joinStr sep ((x :: rem).map Item.render) ++ sep :=
      joinAll_eq sep _ (by simp)
    have hstr5 : vars5.get jString = some (joinStr sep ((x :: rem).map Item.render) ++ sep) := by
      have h := hJV.str
      rw [hJ] at h
      cases hg : vars5.get jString with
      | none =>
        rw [hg] at h
        have : sep = [] := by
          have := congrArg List.length h
          simp at this
          exact List.eq_nil_of_length_eq_zero (by omega)
        exact absurd this hsep
      | some t =>
        rw [hg] at h
        simp only [Option.getD_some] at h
        exact congrArg some h
    refine ⟨(((vars5.set jSepLen (natStr (utf8Encode sep).length)).set jStrLen
        (natStr (utf8Encode (joinStr sep ((x :: rem).map Item.render) ++ sep)).length)).set jOffset
        (natStr (utf8Encode (joinStr sep ((x :: rem).map Item.render))).length)).set jString
        (joinStr sep ((x :: rem).map Item.render)), ?_, ?_⟩
    · intro G N fuel hN
      subst hN
      unfold scriptBody
      rw [show fuel + 3 * (rem.length + 1) + 16 = fuel + 3 + 1 + 1 + 4 + 1 + 3 * (rem.length + 1) + 6 by omega, hprefix G]
      have hif10 := runIf_not_is_empty (G + 2) (d + 1) ajIs 10 15 (jSB s a) vars5 sep hS aj_findIf10 hc10
      rw [if_neg hsep, hS5] at hif10
      rw [eval_flow_continue (G + 2 + 2) (d + 2) ajIs _ 10 _ none vars5 (jSB s a) _ _ "if".toList .ifC
        (show ajIs[10]? = some (mkI 11 none "if" (some [[.lit "not".toList], [.lit "is_empty".toList], [.var jArg2]])) from rfl)
        rfl fs_if rn_if rf_if _ (aj_bind_if10 vars5 sep hJV.arg2) none _ _ hif10]
      have hst5 : ({ jS5 s a false with ifStack := ifEntry 10 15 (jSB s a).ctx :: (jSB s a).ifStack } : ScriptSt) =
          jS5 s a true := by
        show ({ jS5 s a false with ifStack := ifEntry 10 15 s.ctx :: (jSB s a).ifStack } : ScriptSt) = _
        rw [hctx]; rfl
      rw [hst5]
      rw [aj_trim (G + 2 + 2) (d + 3) (jS5 s a true) (Vars.updateOutput vars5 none none) _ sep hsep hJV.arg2 hstr5
        (by rw [← hJ]; exact hsize) (fuel + 3 + 1 + 1) _ none]
      rw [eval_end_if (G + 2 + 2) (d + 2) ajIs 15 _ _ (show ajIs[15]? = some (mkI 16 none "end" none) from rfl) rfl rfl rfl
        _ (jS5 s a true)
        (by rw [flowKey_jKey (jS5 s a true) hctx]
            show ((jSB s a).endTable.put (jKey 15) fullNameEndIf).get (jKey 15) = _
            rw [KV.get_put, if_pos rfl])
        (fuel + 3 + 1) _ _]
      rw [eval_end_if (G + 2 + 2) (d + 2) ajIs 16 _ _ (show ajIs[16]? = some (mkI 17 none "end" none) from rfl) rfl rfl rfl
        _ (jS5 s a true) (he16 true) (fuel + 3) _ none]
      rw [aj_tail, get_set, if_pos rfl]
      simp [hsep]
      rfl
    · rw [clear_set_under _ _ _ _ jString_under, clear_set_under _ _ _ _ jOffset_under,
        clear_set_under _ _ _ _ jStrLen_under, clear_set_under _ _ _ _ jSepLen_under]
      exact hJV.clr

end Duck.ScriptRun
