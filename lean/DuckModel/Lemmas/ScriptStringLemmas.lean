/-
  `strlen` / `substring <text> 0 <n>` / `is_empty` as the body of array_join calls them: byte
  lengths as decimal numerals, the prefix of a text cut at the byte offset where an appended
  (non-empty) text starts.
-/
import DuckModel.Lemmas.ScriptCalcLemmas
import DuckModel.Lemmas.Utf8Lemmas
import DuckModel.Lemmas.Utf8DecodeLemmas

namespace Duck.ScriptRun
open Duck Duck.Coll

theorem strings_isDigit_eq : Strings.isDigit = Calc.isDigit := rfl
theorem strings_digitsVal_eq : Strings.digitsVal = Calc.digitsVal := rfl

/-- `i64::from_str` on the numeral of a number below 2^63 -/
theorem parseI64_natStr (n : Nat) (h : n < 9223372036854775808) : Strings.parseI64 (natStr n) = some (n : Int) := by
  obtain ⟨hd, hv, hne⟩ := natStr_digits n
  cases hs : natStr n with
  | nil => exact absurd hs hne
  | cons c r =>
    have hc : Calc.isDigit c = true := hd c (by rw [hs]; simp)
    obtain ⟨_, n2, n3, _⟩ := isDigit_ne hc
    have hall : (c :: r).all Strings.isDigit = true := by
      rw [strings_isDigit_eq, List.all_eq_true]
      intro x hx; exact hd x (by rw [hs]; exact hx)
    have hval : Strings.digitsVal (c :: r) = n := by rw [strings_digitsVal_eq, ← hs]; exact hv
    simp only [Strings.parseI64, Strings.parseInt, n2, n3, if_false, Strings.parseDigits, ne_eq, reduceCtorEq,
      not_false_eq_true, hall, and_self, if_true, Option.map_some, hval]
    have : (-9223372036854775808 : Int) ≤ Int.ofNat n ∧ Int.ofNat n ≤ 9223372036854775807 := by
      constructor <;> (simp only [Int.ofNat_eq_natCast]; omega)
    simp only [this, and_self, if_true]
    rfl

/-- `strlen x`: the number of UTF-8 bytes, as a numeral -/
theorem runLength_one (x : Str) : runLength [x] = .continue (some (natStr (utf8Encode x).length)) := rfl

/-- `is_empty x` -/
theorem runIsEmpty_one (x : Str) : runIsEmpty [x] = .continue (some (boolStr (decide (x = [])))) := by
  simp only [runIsEmpty, Strings.isEmpty]
  cases x with
  | nil => rfl
  | cons c r =>
    have : (utf8Encode (c :: r)).isEmpty = false := by
      rw [utf8Encode_cons]
      obtain ⟨b, t, hb⟩ := utf8EncodeChar_ne_nil c
      rw [hb]; rfl
    simp [Strings.enc, this]

/-- `substring (s ++ sep) 0 <byte length of s>` = `s`, for a non-empty `sep` -/
theorem runSubstring_prefix (s sep : Str) (hsep : sep ≠ []) (hlen : (utf8Encode s).length < 9223372036854775808) :
    runSubstring [s ++ sep, "0".toList, natStr (utf8Encode s).length] = .continue (some s) := by
  have h0 : Strings.parseI64 "0".toList = some 0 := by decide
  obtain ⟨x, r, hx, hcont⟩ := utf8Encode_head_not_cont hsep
  have henc : Strings.enc (s ++ sep) = utf8Encode s ++ x :: r := by
    show utf8Encode (s ++ sep) = _
    rw [utf8Encode_append, hx]
  have hsl : Strings.substring [s ++ sep, "0".toList, natStr (utf8Encode s).length] = .str (utf8Encode s) := by
    simp only [Strings.substring, h0, parseI64_natStr _ hlen, henc, List.length_append, List.length_cons]
    have h1 : ¬ ((0 : Int) > ((((utf8Encode s).length + (r.length + 1) : Nat)) : Int) - 1) := by omega
    simp only [h1, if_false, Strings.substr3, List.length_append, List.length_cons]
    have h2 : ((utf8Encode s).length : Int) ≥ 0 := by omega
    have h3 : ¬ (((utf8Encode s).length : Int) > ((((utf8Encode s).length + (r.length + 1) : Nat)) : Int) - 1) := by omega
    simp only [h2, h3, if_true, if_false, Strings.finish, Strings.toUsize, Int.le_refl, Int.toNat_zero,
      Int.toNat_natCast, Strings.slice, Nat.zero_le, isBoundary_zero, true_and, List.drop_zero, Nat.sub_zero]
    have hb : isBoundary (utf8Encode s ++ x :: r) (utf8Encode s).length = true := by
      simp [isBoundary, hcont]
    simp [hb]
  unfold runSubstring
  rw [hsl]
  simp only [utf8_roundtrip]

end Duck.ScriptRun
