/-
  Helper lemmas for Props/C12Scripts.lean: the wrapper `aliasRun` over the collection model's
  handle table, `clear` after writes under the scope prefix, the published argument variables,
  and the instruction loop on the (evaluated) instruction lists of the loop-free scripts.
-/
import DuckModel.Sdk.ScriptRun
import DuckModel.Lemmas.AliasCmdLemmas
import DuckModel.Lemmas.ExpansionLemmas
import DuckModel.Lemmas.CollectionsLemmas
import Std.Data.String.ToNat

namespace Duck.ScriptRun
open Duck Duck.Alias Duck.Coll Duck.Spec

/-! ### `clear` forgets writes under the prefix -/

theorem clear_erase_under (scope : Str) (m : Vars) (k : Str) (hk : underPrefix scope k = true) :
    clear scope (Vars.erase m k) = clear scope m := by
  unfold clear Vars.erase
  rw [List.filter_filter]
  apply List.filter_congr
  intro p _
  by_cases e : p.1 = k
  · simp [e, hk]
  · simp [e]

theorem clear_set_under (scope : Str) (m : Vars) (k v : Str) (hk : underPrefix scope k = true) :
    clear scope (Vars.set m k v) = clear scope m := by
  have : clear scope (Vars.set m k v) = clear scope (Vars.erase m k) := by
    simp [clear, Vars.set, hk]
  rw [this, clear_erase_under scope m k hk]

theorem clear_updateOutput_under (scope : Str) (m : Vars) (o : Option Str) (v : Option Str)
    (ho : ∀ k, o = some k → underPrefix scope k = true) :
    clear scope (Vars.updateOutput m o v) = clear scope m := by
  cases o with
  | none => rfl
  | some k =>
    cases v with
    | none => exact clear_erase_under scope m k (ho k rfl)
    | some x => exact clear_set_under scope m k x (ho k rfl)

theorem clear_publishArgs (scope : Str) (args : List Str) (i : Nat) (m : Vars) :
    clear scope (publishArgs scope i args m) = clear scope m := by
  induction args generalizing i m with
  | nil => rfl
  | cons a rest ih =>
    simp only [publishArgs]
    rw [ih, clear_set_under scope m _ a (underPrefix_argKey scope (i + 1))]

theorem clear_length_le (scope : Str) (m : Vars) : (clear scope m).length ≤ m.length :=
  List.length_filter_le _ _

/-- nothing under the prefix: `clear` is the identity -/
theorem clear_of_callerClean (scope : Str) (m : Vars) (h : ∀ k, underPrefix scope k = true → Vars.get m k = none) :
    clear scope m = m := by
  unfold clear
  apply List.filter_eq_self.mpr
  intro p hp
  cases hu : underPrefix scope p.1 with
  | false => rfl
  | true =>
    have hk : p.1 ∈ keys m := List.mem_map.mpr ⟨p, hp, rfl⟩
    exact absurd (h p.1 hu) ((mem_keys m p.1).mp hk)

/-! ### the published argument variables -/

theorem natToStr_inj {a b : Nat} (h : natToStr a = natToStr b) : a = b := by
  unfold natToStr at h
  have h3 : Nat.repr a = Nat.repr b := String.toList_inj.mp h
  exact Nat.repr_injective h3

theorem argKey_inj (scope : Str) {a b : Nat} (h : argKey scope a = argKey scope b) : a = b := by
  unfold argKey at h
  exact natToStr_inj (List.append_cancel_left (List.append_cancel_left h))

theorem argsKey_ne_argKey (scope : Str) (i : Nat) : argKey scope i ≠ argsKey scope := by
  unfold argKey argsKey
  intro h
  have := List.append_cancel_left h
  simp at this

/-- the `for argument in context.arguments` loop started at `i` leaves `argument::j` alone for
    `j ≤ i` and sets `argument::(i+1+j)` to the j-th argument -/
theorem get_publishArgs_le (scope : Str) (args : List Str) (i j : Nat) (m : Vars) (hj : j ≤ i) :
    Vars.get (publishArgs scope i args m) (argKey scope j) = Vars.get m (argKey scope j) := by
  induction args generalizing i m with
  | nil => rfl
  | cons a rest ih =>
    simp only [publishArgs]
    rw [ih (i + 1) _ (by omega), get_set]
    have : argKey scope j ≠ argKey scope (i + 1) := fun e => by have := argKey_inj scope e; omega
    simp [this]

theorem get_publishArgs_first (scope : Str) (a : Str) (rest : List Str) (i : Nat) (m : Vars) :
    Vars.get (publishArgs scope i (a :: rest) m) (argKey scope (i + 1)) = some a := by
  simp only [publishArgs]
  rw [get_publishArgs_le scope rest (i + 1) (i + 1) _ (Nat.le_refl _), get_set]
  simp

theorem get_publishArgs_second (scope : Str) (a b : Str) (rest : List Str) (i : Nat) (m : Vars) :
    Vars.get (publishArgs scope i (a :: b :: rest) m) (argKey scope (i + 2)) = some b := by
  rw [publishArgs]
  exact get_publishArgs_first scope b rest (i + 1) _

/-! ### `aliasRun` on the collection model's table -/

/-- variables and state the body of a call with at least one argument starts from -/
def pubVars (scope : Str) (args : List Str) (vars : Vars) (st : ScriptSt) : Vars :=
  (publishArgs scope 0 args vars).set (argsKey scope) (Coll.handleName st.coll.next)

def pubSt (scope : Str) (args : List Str) (st : ScriptSt) : ScriptSt :=
  { st with
    coll := { tbl := tinsert st.coll.tbl (Coll.handleName st.coll.next) (.list (args.map .str)),
              next := st.coll.next + 1 },
    ctx := scope }

theorem get_pubVars_arg (scope : Str) (args : List Str) (vars : Vars) (st : ScriptSt) (j : Nat) :
    Vars.get (pubVars scope args vars st) (argKey scope j) =
      Vars.get (publishArgs scope 0 args vars) (argKey scope j) := by
  unfold pubVars
  rw [get_set]
  simp [argsKey_ne_argKey]

theorem clear_pubVars (scope : Str) (args : List Str) (vars : Vars) (st : ScriptSt) :
    clear scope (pubVars scope args vars st) = clear scope vars := by
  unfold pubVars
  rw [clear_set_under scope _ _ _ (underPrefix_argsKey scope), clear_publishArgs]

/-- One call with enough arguments (at least one): if the body, started from the published
    variables and the table holding the temporary array, ends with variables that differ from the
    published ones only under the prefix, then the call returns the body's result, the caller's
    variables minus everything under the prefix, and the body's table minus the temporary
    array; the line-context name is restored.  The leak detector cannot fire. -/
theorem aliasRun_handleOps (amount : Nat) (body : Vars → ScriptSt → BodyResult × Vars × ScriptSt)
    (scope : Str) (args : List Str) (vars : Vars) (st : ScriptSt)
    (hn : ¬ args.length < amount) (hne : args ≠ [])
    (br : BodyResult) (vars2 : Vars) (st2 : ScriptSt)
    (hb : body (pubVars scope args vars st) (pubSt scope args st) = (br, vars2, st2))
    (hclear : clear scope vars2 = clear scope (pubVars scope args vars st)) :
    aliasRun handleOps amount body scope args vars st =
      (resultOf br, clear scope vars,
        { st2 with
          coll := { tbl := tremove st2.coll.tbl (Coll.handleName st.coll.next), next := st2.coll.next },
          ctx := st.ctx }) := by
  rw [aliasRun_run handleOps amount body scope args vars st hn]
  have hp : publish handleOps scope args vars (handleOps.setCtx st scope) =
      (some (Coll.handleName st.coll.next), pubVars scope args vars st, pubSt scope args st) := by
    cases args with
    | nil => exact absurd rfl hne
    | cons a r => simp [publish, handleOps, putHandle, pubVars, pubSt]
  simp only [hp, hb, cleanup]
  rw [hclear, clear_pubVars]
  have hle := clear_length_le scope vars
  have : ¬ vars.length < (clear scope vars).length := by omega
  simp [this, handleOps]

/-! ### dispatch inside a body -/

theorem bodySem_native (fuel depth : Nat) (is : List Instruction) (name : Str) (n : Native)
    (hs : findScript name = none) (hr : resolveNative name = some n)
    (args : List Str) (out : Option Str) (line : Nat) (vars : Vars) (st : ScriptSt) :
    bodySem fuel depth is name args out line vars st = some (runNative n args vars st) := by
  cases depth <;> simp [bodySem, hs, hr]

/-! ### decimal lengths -/

theorem natStr_zero : natStr 0 = "0".toList := by decide

theorem natStr_eq_zero_iff (n : Nat) : ("0".toList = natStr n) ↔ n = 0 := by
  constructor
  · intro h
    rw [← natStr_zero] at h
    unfold natStr at h
    have h3 : Nat.repr 0 = Nat.repr n := String.toList_inj.mp h
    exact (Nat.repr_injective h3).symm
  · intro h; subst h; exact natStr_zero.symm

/-! ### evaluating the parser on a regenerated text -/

instance (n : Str) : Decidable (KeyOK n) := by unfold KeyOK; infer_instance
instance (n : Str) : Decidable (LitOK n) := by unfold LitOK; infer_instance

def parsesTo (t : Str) (is : List Instruction) : Bool :=
  match parseText t with
  | .ok r => r == is
  | .error _ => false

theorem parsesTo_eq {t : Str} {is : List Instruction} (h : parsesTo t is = true) : parseText t = .ok is := by
  unfold parsesTo at h
  cases hp : parseText t with
  | error e => rw [hp] at h; cases h
  | ok r => rw [hp] at h; simp at h; rw [h]

/-! ### the instruction loop, one step at a time -/

variable {σ : Type}

theorem runInstruction_cmd (sem : CmdSem σ) (vars : Vars) (s : σ) (mi : Meta) (si : ScriptInstr) (c : Str)
    (line : Nat) (hc : si.command = some c) (args : List Str) (hb : bind vars si.args = args)
    (r : CmdResult) (vars' : Vars) (s' : σ)
    (hsem : sem c args si.output line vars s = some (r, vars', s')) :
    runInstruction sem vars s ⟨mi, .script si⟩ line = (r, si.output, vars', s') := by
  simp [runInstruction, hc, hb, hsem]

theorem eval_skip (sem : CmdSem σ) (is : List Instruction) (fuel line poll : Nat) (fo : Option Str)
    (vars : Vars) (s : σ) (instr : Instruction) (hget : is[line]? = some instr) (hty : instr.ty = .empty) :
    evalInstructions sem (fun _ => false) is (fuel + 1) line poll fo vars s =
      evalInstructions sem (fun _ => false) is fuel (line + 1) (poll + 1) fo vars s := by
  simp [evalInstructions, hget, hty]

theorem eval_end (sem : CmdSem σ) (is : List Instruction) (fuel line poll : Nat) (fo : Option Str)
    (vars : Vars) (s : σ) (hget : is[line]? = none) :
    evalInstructions sem (fun _ => false) is (fuel + 1) line poll fo vars s = some (.finished fo, vars, s) := by
  simp [evalInstructions, hget]

theorem eval_continue (sem : CmdSem σ) (is : List Instruction) (fuel line poll : Nat) (fo : Option Str)
    (vars : Vars) (s : σ) (instr : Instruction) (si : ScriptInstr) (hget : is[line]? = some instr)
    (hty : instr.ty = .script si) (v : Option Str) (o : Option Str) (vars' : Vars) (s' : σ)
    (hr : runInstruction sem vars s instr line = (.continue v, o, vars', s')) :
    evalInstructions sem (fun _ => false) is (fuel + 1) line poll fo vars s =
      evalInstructions sem (fun _ => false) is fuel (line + 1) (poll + 1) v (vars'.updateOutput si.output v) s' := by
  simp [evalInstructions, hget, hty, hr]

theorem eval_error (sem : CmdSem σ) (is : List Instruction) (fuel line poll : Nat) (fo : Option Str)
    (vars : Vars) (s : σ) (instr : Instruction) (si : ScriptInstr) (hget : is[line]? = some instr)
    (hty : instr.ty = .script si) (m : Str) (o : Option Str) (vars' : Vars) (s' : σ)
    (hr : runInstruction sem vars s instr line = (.error m, o, vars', s')) :
    evalInstructions sem (fun _ => false) is (fuel + 1) line poll fo vars s = some (.error m, vars', s') := by
  simp [evalInstructions, hget, hty, hr]

def lenKey (scope : Str) : Str := scope ++ "::length".toList

/-- the instruction list of the three `*_is_empty` scripts -/
def sizeI1 (scope sizeName : Str) : Instruction :=
  ⟨{ line := some 2, source := none },
     .script { output := some (lenKey scope), command := some sizeName,
               args := some ([[Seg.var (argKey scope 1)]].map renderTemplate) }⟩

def sizeI2 (scope : Str) : Instruction :=
  ⟨{ line := some 3, source := none },
     .script { output := none, command := some "equals".toList,
               args := some ([[Seg.lit "0".toList], [Seg.var (lenKey scope)]].map renderTemplate) }⟩

def sizeIs (scope sizeName : Str) : List Instruction :=
  [⟨{ line := some 1, source := none }, .empty⟩, sizeI1 scope sizeName, sizeI2 scope]

theorem sizeScript_body (F d : Nat) (scope sizeName : Str) (c : CollCmd) (len : Value → Option Nat)
    (hk1 : KeyOK (argKey scope 1)) (hk2 : KeyOK (lenKey scope))
    (hs1 : findScript sizeName = none) (hr1 : resolveNative sizeName = some (.coll c))
    (hc : ∀ (s : Coll.St) key rest, Coll.exec s c (key :: rest) =
      match (tget s.tbl key).bind len with
      | some n => (s, .val (some (natStr n)))
      | none => (s, .err))
    (fuel : Nat) (vars : Vars) (st : ScriptSt) (a : Str) (ha : vars.get (argKey scope 1) = some a) :
    scriptBody (bodySem F d (sizeIs scope sizeName)) (fun _ => false) (fuel + 4) (sizeIs scope sizeName) vars st =
      match (tget st.coll.tbl a).bind len with
      | some n => (.finished (some (boolStr (n = 0))), vars.set (lenKey scope) (natStr n), st)
      | none => (.error (collErrMsg c st.coll.tbl [a]), vars, st) := by
  have hs2 : findScript "equals".toList = none := by decide +kernel
  have hr2 : resolveNative "equals".toList = some .equals := by decide +kernel
  have hb1 : bind vars (some ([[Seg.var (argKey scope 1)]].map renderTemplate)) = [a] := by
    rw [bind_templates vars _ (by simpa [Seg.OK] using hk1)]
    simp [tmplValue, Seg.value, ha]
  unfold scriptBody
  rw [eval_skip _ _ _ 0 _ _ _ _ _ rfl rfl]
  cases hl : (tget st.coll.tbl a).bind len with
  | none =>
    have hrun : runInstruction (bodySem F d (sizeIs scope sizeName)) vars st
        (sizeI1 scope sizeName) 1 =
        (.error (collErrMsg c st.coll.tbl [a]), some (lenKey scope), vars, st) := by
      apply runInstruction_cmd _ _ _ _ _ sizeName 1 rfl [a] hb1
      rw [bodySem_native F d _ sizeName _ hs1 hr1]
      simp [runNative, runColl, hc, hl]
    rw [eval_error _ _ _ 1 _ _ _ _ _ _ rfl rfl _ _ _ _ hrun]
    rfl
  | some n =>
    have hrun : runInstruction (bodySem F d (sizeIs scope sizeName)) vars st
        (sizeI1 scope sizeName) 1 =
        (.continue (some (natStr n)), some (lenKey scope), vars, st) := by
      apply runInstruction_cmd _ _ _ _ _ sizeName 1 rfl [a] hb1
      rw [bodySem_native F d _ sizeName _ hs1 hr1]
      simp [runNative, runColl, hc, hl]
    rw [eval_continue _ _ _ 1 _ _ _ _ _ _ rfl rfl _ _ _ _ hrun]
    have hb2 : bind (Vars.updateOutput vars (some (lenKey scope)) (some (natStr n)))
        (some ([[Seg.lit "0".toList], [Seg.var (lenKey scope)]].map renderTemplate)) = ["0".toList, natStr n] := by
      rw [bind_templates _ _ (by
        intro t ht s hs
        simp at ht
        rcases ht with rfl | rfl
        · simp at hs; subst hs; simp [Seg.OK, LitOK]
        · simp at hs; subst hs; simpa [Seg.OK] using hk2)]
      simp [tmplValue, Seg.value, Vars.updateOutput, get_set]
    have hrun2 : runInstruction (bodySem F d (sizeIs scope sizeName))
        (Vars.updateOutput vars (some (lenKey scope)) (some (natStr n))) st
        (sizeI2 scope) 2 =
        (.continue (some (boolStr (n = 0))), none, Vars.updateOutput vars (some (lenKey scope)) (some (natStr n)), st) := by
      apply runInstruction_cmd _ _ _ _ _ "equals".toList 2 rfl _ hb2
      rw [bodySem_native F d _ _ _ hs2 hr2]
      have hz : (['0'] = natStr n) ↔ n = 0 := natStr_eq_zero_iff n
      simp [runNative, runEquals, hz]
    rw [eval_continue _ _ _ 2 _ _ _ _ _ _ rfl rfl _ _ _ _ hrun2]
    rw [eval_end _ _ _ 3 _ _ _ _ rfl]
    rfl

/-! ### the wrapper around the loop-free bodies -/

/-- the state a call with at least one argument ends in when its body left the table `t` -/
def afterSt (st : ScriptSt) (t : Table) (next : Nat) : ScriptSt :=
  { st with coll := { tbl := tremove t (Coll.handleName st.coll.next), next := next }, ctx := st.ctx }

theorem runScriptCmdF_entry (depth fuel : Nat) (name : Str) (sc : Generated.ScriptCmd) (is : List Instruction)
    (hf : findScript name = some sc) (hp : parseText sc.script = .ok is)
    (args : List Str) (vars : Vars) (st : ScriptSt) :
    runScriptCmdF depth fuel name args vars st =
      aliasRun handleOps sc.argumentsAmount (scriptBody (bodySem fuel depth is) (fun _ => false) fuel is)
        sc.scopeName args vars st := by
  simp [runScriptCmdF, hf, runEntry, hp]

/-- the three `*_is_empty` scripts, run from source: the result in closed form (no fuel in it) -/
theorem sizeScript_runF (name sizeName : Str) (sc : Generated.ScriptCmd) (c : CollCmd) (len : Value → Option Nat)
    (hf : findScript name = some sc) (hp : parseText sc.script = .ok (sizeIs sc.scopeName sizeName))
    (hamount : sc.argumentsAmount = 1)
    (hk1 : KeyOK (argKey sc.scopeName 1)) (hk2 : KeyOK (lenKey sc.scopeName))
    (hs1 : findScript sizeName = none) (hr1 : resolveNative sizeName = some (.coll c))
    (hc : ∀ (s : Coll.St) key rest, Coll.exec s c (key :: rest) =
      match (tget s.tbl key).bind len with
      | some n => (s, .val (some (natStr n)))
      | none => (s, .err))
    (depth fuel : Nat) (args : List Str) (vars : Vars) (st : ScriptSt) :
    runScriptCmdF depth (fuel + 4) name args vars st =
      match args with
      | [] => (.error invalidArgsMsg, vars, st)
      | a :: _ =>
        let p := pubSt sc.scopeName args st
        (match (tget p.coll.tbl a).bind len with
          | some n => .continue (some (boolStr (n = 0)))
          | none => .error (collErrMsg c p.coll.tbl [a]),
         clear sc.scopeName vars, afterSt st p.coll.tbl p.coll.next) := by
  rw [runScriptCmdF_entry depth (fuel + 4) name sc _ hf hp, hamount]
  cases args with
  | nil => rw [aliasRun_few]; simp
  | cons a rest =>
    have ha : Vars.get (pubVars sc.scopeName (a :: rest) vars st) (argKey sc.scopeName 1) = some a := by
      rw [get_pubVars_arg]; exact get_publishArgs_first sc.scopeName a rest 0 vars
    have hbody := sizeScript_body (fuel + 4) depth sc.scopeName sizeName c len hk1 hk2 hs1 hr1 hc fuel
      (pubVars sc.scopeName (a :: rest) vars st) (pubSt sc.scopeName (a :: rest) st) a ha
    have hu : underPrefix sc.scopeName (lenKey sc.scopeName) = true := by
      unfold lenKey; rw [underPrefix_append]; decide
    cases hl : (tget (pubSt sc.scopeName (a :: rest) st).coll.tbl a).bind len with
    | none =>
      rw [hl] at hbody
      rw [aliasRun_handleOps 1 _ sc.scopeName (a :: rest) vars st (by simp) (by simp) _ _ _ hbody rfl]
      simp only [hl, resultOf]
      rfl
    | some n =>
      rw [hl] at hbody
      rw [aliasRun_handleOps 1 _ sc.scopeName (a :: rest) vars st (by simp) (by simp) _ _ _ hbody
        (clear_set_under _ _ _ _ hu)]
      simp only [hl, resultOf]
      rfl

/-- the table after removing the temporary array again reads like the caller's table -/
theorem lookupEq_afterSt (st : ScriptSt) (v : Value) (n : Nat)
    (hfree : tget st.coll.tbl (Coll.handleName st.coll.next) = none) :
    LookupEq (afterSt st (tinsert st.coll.tbl (Coll.handleName st.coll.next) v) n).coll.tbl st.coll.tbl := by
  intro h
  simp only [afterSt, tget_tremove, tget_tinsert]
  by_cases e : h = Coll.handleName st.coll.next
  · simp [e, hfree]
  · simp [e]

theorem lookupEq_afterSt_of (st : ScriptSt) (v : Value) (n : Nat) (t : Table)
    (hfree : tget st.coll.tbl (Coll.handleName st.coll.next) = none)
    (ht : LookupEq t (tinsert st.coll.tbl (Coll.handleName st.coll.next) v)) :
    LookupEq (afterSt st t n).coll.tbl st.coll.tbl := by
  intro h
  have := lookupEq_afterSt st v n hfree h
  simp only [afterSt, tget_tremove] at this ⊢
  rw [ht h]; exact this


/-! ### map_contains_key -/

def valKey (scope : Str) : Str := scope ++ "::value".toList

def mckI1 (scope : Str) : Instruction :=
  ⟨{ line := some 2, source := none },
     .script { output := some (valKey scope), command := some "map_get".toList,
               args := some ([[Seg.var (argKey scope 1)], [Seg.var (argKey scope 2)]].map renderTemplate) }⟩

def mckI2 (scope : Str) : Instruction :=
  ⟨{ line := some 3, source := none },
     .script { output := none, command := some "is_defined".toList,
               args := some ([[Seg.lit (valKey scope)]].map renderTemplate) }⟩

def mckIs (scope : Str) : List Instruction :=
  [⟨{ line := some 1, source := none }, .empty⟩, mckI1 scope, mckI2 scope]

theorem contains_updateOutput (vars : Vars) (k : Str) (o : Option Str) :
    (Vars.updateOutput vars (some k) o).contains k = o.isSome := by
  cases o with
  | none => simp [Vars.updateOutput, Vars.contains, get_erase]
  | some v => simp [Vars.updateOutput, Vars.contains, get_set]

theorem mck_body (F d : Nat) (scope : Str)
    (hk1 : KeyOK (argKey scope 1)) (hk2 : KeyOK (argKey scope 2)) (hl : LitOK (valKey scope))
    (fuel : Nat) (vars : Vars) (st : ScriptSt) (a b : Str)
    (ha : vars.get (argKey scope 1) = some a) (hb : vars.get (argKey scope 2) = some b) :
    scriptBody (bodySem F d (mckIs scope)) (fun _ => false) (fuel + 4) (mckIs scope) vars st =
      match (Coll.exec st.coll .mapGet [a, b]).2 with
      | .val o => (.finished (some (boolStr o.isSome)), Vars.updateOutput vars (some (valKey scope)) o,
                   { st with coll := (Coll.exec st.coll .mapGet [a, b]).1 })
      | .err => (.error (collErrMsg .mapGet st.coll.tbl [a, b]), vars,
                   { st with coll := (Coll.exec st.coll .mapGet [a, b]).1 }) := by
  have hs1 : findScript "map_get".toList = none := by decide +kernel
  have hr1 : resolveNative "map_get".toList = some (.coll .mapGet) := by decide +kernel
  have hs2 : findScript "is_defined".toList = none := by decide +kernel
  have hr2 : resolveNative "is_defined".toList = some .isDefined := by decide +kernel
  have hb1 : bind vars (some ([[Seg.var (argKey scope 1)], [Seg.var (argKey scope 2)]].map renderTemplate)) = [a, b] := by
    rw [bind_templates vars _ (by
      intro t ht s hs
      simp at ht
      rcases ht with rfl | rfl
      · simp at hs; subst hs; simpa [Seg.OK] using hk1
      · simp at hs; subst hs; simpa [Seg.OK] using hk2)]
    simp [tmplValue, Seg.value, ha, hb]
  unfold scriptBody
  rw [eval_skip _ _ _ 0 _ _ _ _ _ rfl rfl]
  cases hr : (Coll.exec st.coll .mapGet [a, b]).2 with
  | err =>
    have hrun : runInstruction (bodySem F d (mckIs scope)) vars st (mckI1 scope) 1 =
        (.error (collErrMsg .mapGet st.coll.tbl [a, b]), some (valKey scope), vars,
          { st with coll := (Coll.exec st.coll .mapGet [a, b]).1 }) := by
      apply runInstruction_cmd _ _ _ _ _ "map_get".toList 1 rfl [a, b] hb1
      rw [bodySem_native F d _ _ _ hs1 hr1]
      simp [runNative, runColl, hr]
    rw [eval_error _ _ _ 1 _ _ _ _ _ _ rfl rfl _ _ _ _ hrun]
    rfl
  | val o =>
    have hrun : runInstruction (bodySem F d (mckIs scope)) vars st (mckI1 scope) 1 =
        (.continue o, some (valKey scope), vars, { st with coll := (Coll.exec st.coll .mapGet [a, b]).1 }) := by
      apply runInstruction_cmd _ _ _ _ _ "map_get".toList 1 rfl [a, b] hb1
      rw [bodySem_native F d _ _ _ hs1 hr1]
      simp [runNative, runColl, hr]
    rw [eval_continue _ _ _ 1 _ _ _ _ _ _ rfl rfl _ _ _ _ hrun]
    have hb2 : bind (Vars.updateOutput vars (some (valKey scope)) o)
        (some ([[Seg.lit (valKey scope)]].map renderTemplate)) = [valKey scope] := by
      rw [bind_templates _ _ (by
        intro t ht s hs
        simp at ht
        subst ht
        simp at hs; subst hs; simpa [Seg.OK] using hl)]
      simp [tmplValue, Seg.value]
    have hrun2 : runInstruction (bodySem F d (mckIs scope))
        (Vars.updateOutput vars (some (valKey scope)) o) { st with coll := (Coll.exec st.coll .mapGet [a, b]).1 }
        (mckI2 scope) 2 =
        (.continue (some (boolStr o.isSome)), none, Vars.updateOutput vars (some (valKey scope)) o,
          { st with coll := (Coll.exec st.coll .mapGet [a, b]).1 }) := by
      apply runInstruction_cmd _ _ _ _ _ "is_defined".toList 2 rfl _ hb2
      rw [bodySem_native F d _ _ _ hs2 hr2]
      simp [runNative, runIsDefined, contains_updateOutput]
    rw [eval_continue _ _ _ 2 _ _ _ _ _ _ rfl rfl _ _ _ _ hrun2]
    rw [eval_end _ _ _ 3 _ _ _ _ rfl]
    rfl

/-- `map_contains_key`, run from source: the result in closed form (no fuel in it) -/
theorem mck_runF (name : Str) (sc : Generated.ScriptCmd)
    (hf : findScript name = some sc) (hp : parseText sc.script = .ok (mckIs sc.scopeName))
    (hamount : sc.argumentsAmount = 2)
    (hk1 : KeyOK (argKey sc.scopeName 1)) (hk2 : KeyOK (argKey sc.scopeName 2)) (hl : LitOK (valKey sc.scopeName))
    (depth fuel : Nat) (args : List Str) (vars : Vars) (st : ScriptSt) :
    runScriptCmdF depth (fuel + 4) name args vars st =
      match args with
      | a :: b :: _ =>
        let p := pubSt sc.scopeName args st
        let r := Coll.exec p.coll .mapGet [a, b]
        (match r.2 with
          | .val o => .continue (some (boolStr o.isSome))
          | .err => .error (collErrMsg .mapGet p.coll.tbl [a, b]),
         clear sc.scopeName vars, afterSt st r.1.tbl r.1.next)
      | _ => (.error invalidArgsMsg, vars, st) := by
  rw [runScriptCmdF_entry depth (fuel + 4) name sc _ hf hp, hamount]
  match args with
  | [] => rw [aliasRun_few]; simp
  | [_] => rw [aliasRun_few]; simp
  | a :: b :: rest =>
    have ha : Vars.get (pubVars sc.scopeName (a :: b :: rest) vars st) (argKey sc.scopeName 1) = some a := by
      rw [get_pubVars_arg]; exact get_publishArgs_first sc.scopeName a (b :: rest) 0 vars
    have hb : Vars.get (pubVars sc.scopeName (a :: b :: rest) vars st) (argKey sc.scopeName 2) = some b := by
      rw [get_pubVars_arg]; exact get_publishArgs_second sc.scopeName a b rest 0 vars
    have hbody := mck_body (fuel + 4) depth sc.scopeName hk1 hk2 hl fuel
      (pubVars sc.scopeName (a :: b :: rest) vars st) (pubSt sc.scopeName (a :: b :: rest) st) a b ha hb
    have hu : underPrefix sc.scopeName (valKey sc.scopeName) = true := by
      unfold valKey; rw [underPrefix_append]; decide
    cases hr : (Coll.exec (pubSt sc.scopeName (a :: b :: rest) st).coll .mapGet [a, b]).2 with
    | err =>
      rw [hr] at hbody
      rw [aliasRun_handleOps 2 _ sc.scopeName (a :: b :: rest) vars st (by simp) (by simp) _ _ _ hbody rfl]
      simp only [hr, resultOf]
      rfl
    | val o =>
      rw [hr] at hbody
      rw [aliasRun_handleOps 2 _ sc.scopeName (a :: b :: rest) vars st (by simp) (by simp) _ _ _ hbody
        (clear_updateOutput_under _ _ _ _ (by intro k hk; cases hk; exact hu))]
      simp only [hr, resultOf]
      rfl

/-! ### agreement with the specified function -/

/-- a command result agrees with a result of the collection model: the same value, or both an
    `Error` (message texts are not part of the collection model) -/
def Agrees : CmdResult → Res → Prop
  | .continue o, .val o' => o = o'
  | .error _, .err => True
  | _, _ => False

/-- what `C12_script_*_correct` says about a run `r` from variables `vars` and state `st`,
    compared with the specified function's result `spec`; `few` = fewer arguments than
    `arguments_amount` (then nothing is touched) -/
def CorrectRun (scope : Str) (few : Bool) (vars : Vars) (st : ScriptSt) (spec : Res)
    (r : CmdResult × Vars × ScriptSt) : Prop :=
  Agrees r.1 spec ∧
  r.2.1 = (if few then vars else clear scope vars) ∧
  LookupEq r.2.2.coll.tbl st.coll.tbl ∧
  r.2.2.coll.next = st.coll.next + (if few then 0 else 1) ∧
  r.2.2.ctx = st.ctx ∧
  (r.2.2.ifStack, r.2.2.forStack, r.2.2.ifMeta, r.2.2.forMeta, r.2.2.endTable) =
    (st.ifStack, st.forStack, st.ifMeta, st.forMeta, st.endTable)

theorem scriptFuel_eq : scriptFuel = 99996 + 4 := by decide

/-- the lookup the size command makes in the table that holds the temporary array is the
    caller's lookup, unless the argument is the temporary array's own (fresh) name and the
    command reads arrays -/
theorem bind_len_pub (scope : Str) (a : Str) (rest : List Str) (st : ScriptSt) (len : Value → Option Nat)
    (hfree : tget st.coll.tbl (Coll.handleName st.coll.next) = none)
    (hN : a ≠ Coll.handleName st.coll.next ∨ ∀ l, len (.list l) = none) :
    (tget (pubSt scope (a :: rest) st).coll.tbl a).bind len = (tget st.coll.tbl a).bind len := by
  simp only [pubSt, tget_tinsert]
  by_cases e : a = Coll.handleName st.coll.next
  · rcases hN with h | h
    · exact absurd e h
    · simp [e, hfree, h]
  · simp [e]

theorem sizeScript_correct (name sizeName : Str) (sc : Generated.ScriptCmd) (c cE : CollCmd) (len : Value → Option Nat)
    (hf : findScript name = some sc) (hp : parseText sc.script = .ok (sizeIs sc.scopeName sizeName))
    (hamount : sc.argumentsAmount = 1)
    (hk1 : KeyOK (argKey sc.scopeName 1)) (hk2 : KeyOK (lenKey sc.scopeName))
    (hs1 : findScript sizeName = none) (hr1 : resolveNative sizeName = some (.coll c))
    (hc : ∀ (s : Coll.St) key rest, Coll.exec s c (key :: rest) =
      match (tget s.tbl key).bind len with
      | some n => (s, .val (some (natStr n)))
      | none => (s, .err))
    (hcE : ∀ (s : Coll.St) key rest, (Coll.exec s cE (key :: rest)).2 =
      match (tget s.tbl key).bind len with
      | some n => .val (some (boolStr (n = 0)))
      | none => .err)
    (hcE0 : ∀ (s : Coll.St), (Coll.exec s cE []).2 = .err)
    (depth fuel : Nat) (args : List Str) (vars : Vars) (st : ScriptSt)
    (hfree : tget st.coll.tbl (Coll.handleName st.coll.next) = none)
    (hN : args.head? ≠ some (Coll.handleName st.coll.next) ∨ ∀ l, len (.list l) = none) :
    CorrectRun sc.scopeName (decide (args.length < 1)) vars st (Coll.exec st.coll cE args).2
      (runScriptCmdF depth (fuel + 4) name args vars st) := by
  rw [sizeScript_runF name sizeName sc c len hf hp hamount hk1 hk2 hs1 hr1 hc depth fuel args vars st]
  cases args with
  | nil => simp [CorrectRun, hcE0, Agrees, LookupEq]
  | cons a rest =>
    have hN' : a ≠ Coll.handleName st.coll.next ∨ ∀ l, len (.list l) = none := by
      rcases hN with h | h
      · left; intro e; apply h; simp [e]
      · right; exact h
    simp only [CorrectRun, hcE]
    rw [bind_len_pub sc.scopeName a rest st len hfree hN']
    refine ⟨?_, by simp, ?_, by simp [afterSt, pubSt], by simp [afterSt], rfl⟩
    · cases (tget st.coll.tbl a).bind len <;> simp [Agrees]
    · exact lookupEq_afterSt st _ _ hfree

/-- `map_get` characterised: answer and table -/
theorem cmdMapGet_char (s : Coll.St) (a b : Str) :
    (Coll.exec s .mapGet [a, b]).2 =
      (match tget s.tbl a with
       | some (.map m) => .val ((mget m b).map Item.render)
       | _ => .err) ∧
    LookupEq (Coll.exec s .mapGet [a, b]).1.tbl s.tbl ∧ (Coll.exec s .mapGet [a, b]).1.next = s.next := by
  simp only [Coll.exec, cmdMapGet]
  cases hv : tget s.tbl a with
  | none =>
    have := mutateMap_wrong s.tbl a (fun m => (m, Res.val ((mget m b).map Item.render))) (by simp [hv])
    exact ⟨this.1, this.2, trivial⟩
  | some v =>
    cases v with
    | map m =>
      rw [mutateMap_map s.tbl a _ m hv]
      exact ⟨rfl, lookupEq_reinsert s.tbl a _ hv, trivial⟩
    | list l =>
      have := mutateMap_wrong s.tbl a (fun m => (m, Res.val ((mget m b).map Item.render)))
        (by intro v hv'; rw [hv] at hv'; cases hv'; rfl)
      exact ⟨this.1, this.2, trivial⟩
    | set x =>
      have := mutateMap_wrong s.tbl a (fun m => (m, Res.val ((mget m b).map Item.render)))
        (by intro v hv'; rw [hv] at hv'; cases hv'; rfl)
      exact ⟨this.1, this.2, trivial⟩
    | other g =>
      have := mutateMap_wrong s.tbl a (fun m => (m, Res.val ((mget m b).map Item.render)))
        (by intro v hv'; rw [hv] at hv'; cases hv'; rfl)
      exact ⟨this.1, this.2, trivial⟩

theorem cmdMapContainsKey_char (s : Coll.St) (a b : Str) (rest : List Str) :
    (Coll.exec s .mapContainsKey (a :: b :: rest)).2 =
      (match tget s.tbl a with
       | some (.map m) => .val (some (boolStr (mget m b).isSome))
       | _ => .err) := by
  simp only [Coll.exec, cmdMapContainsKey]
  cases hv : tget s.tbl a with
  | none => rfl
  | some v => cases v <;> rfl

theorem mck_correct (name : Str) (sc : Generated.ScriptCmd)
    (hf : findScript name = some sc) (hp : parseText sc.script = .ok (mckIs sc.scopeName))
    (hamount : sc.argumentsAmount = 2)
    (hk1 : KeyOK (argKey sc.scopeName 1)) (hk2 : KeyOK (argKey sc.scopeName 2)) (hl : LitOK (valKey sc.scopeName))
    (depth fuel : Nat) (args : List Str) (vars : Vars) (st : ScriptSt)
    (hfree : tget st.coll.tbl (Coll.handleName st.coll.next) = none) :
    CorrectRun sc.scopeName (decide (args.length < 2)) vars st (Coll.exec st.coll .mapContainsKey args).2
      (runScriptCmdF depth (fuel + 4) name args vars st) := by
  rw [mck_runF name sc hf hp hamount hk1 hk2 hl depth fuel args vars st]
  match args with
  | [] => simp [CorrectRun, Coll.exec, cmdMapContainsKey, Agrees, LookupEq]
  | [_] => simp [CorrectRun, Coll.exec, cmdMapContainsKey, Agrees, LookupEq]
  | a :: b :: rest =>
    obtain ⟨h1, h2, h3⟩ := cmdMapGet_char (pubSt sc.scopeName (a :: b :: rest) st).coll a b
    have hlen : ¬ ((a :: b :: rest).length < 2) := by simp
    simp only [CorrectRun, hlen, decide_false, Bool.false_eq_true, if_false]
    refine ⟨?_, trivial, ?_, by rw [show (afterSt st _ _).coll.next = _ from rfl, h3]; simp [pubSt, afterSt],
      by simp [afterSt], rfl⟩
    · rw [h1, cmdMapContainsKey_char]
      simp only [pubSt, tget_tinsert]
      by_cases e : a = Coll.handleName st.coll.next
      · simp [e, hfree, Agrees]
      · simp only [e, if_false]
        cases hv : tget st.coll.tbl a with
        | none => simp [Agrees]
        | some v => cases v <;> simp [Agrees]
    · exact lookupEq_afterSt_of st _ _ _ hfree h2

/-! ### termination and error propagation (corollaries of the closed forms) -/

/-- the result is an answer of the command: `Continue` or `Error` (not `Crash`, so in particular
    not the model's out-of-fuel crash) -/
def IsAnswer : CmdResult → Prop
  | .continue _ => True
  | .error _ => True
  | _ => False

theorem sizeScript_terminates (name sizeName : Str) (sc : Generated.ScriptCmd) (c : CollCmd) (len : Value → Option Nat)
    (hf : findScript name = some sc) (hp : parseText sc.script = .ok (sizeIs sc.scopeName sizeName))
    (hamount : sc.argumentsAmount = 1)
    (hk1 : KeyOK (argKey sc.scopeName 1)) (hk2 : KeyOK (lenKey sc.scopeName))
    (hs1 : findScript sizeName = none) (hr1 : resolveNative sizeName = some (.coll c))
    (hc : ∀ (s : Coll.St) key rest, Coll.exec s c (key :: rest) =
      match (tget s.tbl key).bind len with
      | some n => (s, .val (some (natStr n)))
      | none => (s, .err))
    (depth fuel : Nat) (hfuel : 4 ≤ fuel) (args : List Str) (vars : Vars) (st : ScriptSt) :
    runScriptCmdF depth fuel name args vars st = runScriptCmdF depth 4 name args vars st ∧
    IsAnswer (runScriptCmdF depth fuel name args vars st).1 := by
  obtain ⟨k, rfl⟩ : ∃ k, fuel = k + 4 := ⟨fuel - 4, by omega⟩
  have h4 := sizeScript_runF name sizeName sc c len hf hp hamount hk1 hk2 hs1 hr1 hc depth 0 args vars st
  rw [Nat.zero_add] at h4
  rw [sizeScript_runF name sizeName sc c len hf hp hamount hk1 hk2 hs1 hr1 hc depth k args vars st, h4]
  refine ⟨rfl, ?_⟩
  cases args with
  | nil => simp [IsAnswer]
  | cons a rest =>
    simp only
    cases (tget (pubSt sc.scopeName (a :: rest) st).coll.tbl a).bind len <;> simp [IsAnswer]

theorem mck_terminates (name : Str) (sc : Generated.ScriptCmd)
    (hf : findScript name = some sc) (hp : parseText sc.script = .ok (mckIs sc.scopeName))
    (hamount : sc.argumentsAmount = 2)
    (hk1 : KeyOK (argKey sc.scopeName 1)) (hk2 : KeyOK (argKey sc.scopeName 2)) (hl : LitOK (valKey sc.scopeName))
    (depth fuel : Nat) (hfuel : 4 ≤ fuel) (args : List Str) (vars : Vars) (st : ScriptSt) :
    runScriptCmdF depth fuel name args vars st = runScriptCmdF depth 4 name args vars st ∧
    IsAnswer (runScriptCmdF depth fuel name args vars st).1 := by
  obtain ⟨k, rfl⟩ : ∃ k, fuel = k + 4 := ⟨fuel - 4, by omega⟩
  have h4 := mck_runF name sc hf hp hamount hk1 hk2 hl depth 0 args vars st
  rw [Nat.zero_add] at h4
  rw [mck_runF name sc hf hp hamount hk1 hk2 hl depth k args vars st, h4]
  refine ⟨rfl, ?_⟩
  match args with
  | [] => simp [IsAnswer]
  | [_] => simp [IsAnswer]
  | a :: b :: rest =>
    simp only
    cases (Coll.exec (pubSt sc.scopeName (a :: b :: rest) st).coll .mapGet [a, b]).2 <;> simp [IsAnswer]

/-- inside the runner, a script command's name runs the command from its source -/
theorem scriptSem_script (name : Str) (sc : Generated.ScriptCmd) (hf : findScript name = some sc)
    (args : List Str) (out : Option Str) (line : Nat) (vars : Vars) (st : ScriptSt) :
    scriptSem name args out line vars st = some (runScriptCmd name args vars st) := by
  simp [scriptSem, bodySem, runScriptCmd, runScriptCmdF, hf]

/-- the error of the size command is the error of the script command -/
theorem sizeScript_error (name sizeName : Str) (sc : Generated.ScriptCmd) (c : CollCmd) (len : Value → Option Nat)
    (hf : findScript name = some sc) (hp : parseText sc.script = .ok (sizeIs sc.scopeName sizeName))
    (hamount : sc.argumentsAmount = 1)
    (hk1 : KeyOK (argKey sc.scopeName 1)) (hk2 : KeyOK (lenKey sc.scopeName))
    (hs1 : findScript sizeName = none) (hr1 : resolveNative sizeName = some (.coll c))
    (hc : ∀ (s : Coll.St) key rest, Coll.exec s c (key :: rest) =
      match (tget s.tbl key).bind len with
      | some n => (s, .val (some (natStr n)))
      | none => (s, .err))
    (depth fuel : Nat) (a : Str) (rest : List Str) (vars : Vars) (st : ScriptSt) (m : Str)
    (herr : (runNative (.coll c) [a] (pubVars sc.scopeName (a :: rest) vars st)
              (pubSt sc.scopeName (a :: rest) st)).1 = .error m) :
    (runScriptCmdF depth (fuel + 4) name (a :: rest) vars st).1 = .error m := by
  rw [sizeScript_runF name sizeName sc c len hf hp hamount hk1 hk2 hs1 hr1 hc depth fuel (a :: rest) vars st]
  simp only [runNative, runColl, hc] at herr
  simp only
  cases hl : (tget (pubSt sc.scopeName (a :: rest) st).coll.tbl a).bind len with
  | none => rw [hl] at herr; simpa using herr
  | some n => rw [hl] at herr; simp at herr

end Duck.ScriptRun
