/-
  Helper lemmas for Props/C04Names.lean: `resolveCmd` on the regenerated name lists.
  Every fact is checked by evaluating the CONCRETE generated lists (`decide` / `simp` with the
  list definitions), so it is re-checked whenever the tables are regenerated.
-/
import DuckModel.Sdk.Flow
import DuckModel.Generated.CmdNames
import DuckModel.Spec.TreeWF
import DuckModel.Lemmas.ScanLemmas

namespace Duck
open Duck.Generated Duck.Spec

theorem ite_some_inv {A : Prop} [Decidable A] {a c : Cmd} {r : Option Cmd}
    (h : (if A then some a else r) = some c) : (A ∧ a = c) ∨ r = some c := by
  by_cases hA : A
  · rw [if_pos hA] at h; exact .inl ⟨hA, Option.some.inj h⟩
  · rw [if_neg hA] at h; exact .inr h

/-- the model knows no spelling of a straight-line command beyond those of the cascade -/
theorem resolveCmd_straight_inv {n : Str} {c : Cmd} (h : resolveCmd {} n = some c) :
    (c = .set → n = sdkName "set" ∨ n = sdkName "std::var::Set") ∧
    (c = .equals → n = sdkName "equals" ∨ n = sdkName "eq" ∨ n = sdkName "std::string::Equals") ∧
    (c = .notC → n = sdkName "not" ∨ n = sdkName "std::Not") ∧
    (c = .array → n = sdkName "array" ∨ n = sdkName "std::collections::Array") ∧
    (c = .range → n = sdkName "range" ∨ n = sdkName "std::collections::Range") := by
  unfold resolveCmd at h
  repeat
    rcases ite_some_inv h with ⟨hA, hc⟩ | h
    · subst hc
      refine ⟨?_, ?_, ?_, ?_, ?_⟩ <;> intro hc' <;> first | exact hA | cases hc'
  cases h

/-! ### flow-control spellings: finite checks over the regenerated tables -/

theorem resolveCmd_ifKw : ∀ k, isIfKw k = true → resolveCmd {} k = some .ifC :=
  forall_contains (by decide)

theorem resolveCmd_elifKw : ∀ k, isElifKw k = true → resolveCmd {} k = some .elseIf :=
  forall_contains (by decide)

theorem resolveCmd_elseKw : ∀ k, isElseKw k = true → resolveCmd {} k = some .elseC :=
  forall_contains (by decide)

theorem resolveCmd_endIfKw : ∀ k, namesEndIfCommand.contains k = true → resolveCmd {} k = some .endIf :=
  forall_contains (by decide)

theorem resolveCmd_whileKw : ∀ k, isWhileKw k = true → resolveCmd {} k = some .whileC :=
  forall_contains (by decide)

theorem resolveCmd_endWhileKw : ∀ k, namesEndWhileCommand.contains k = true → resolveCmd {} k = some .endWhile :=
  forall_contains (by decide)

theorem resolveCmd_forKw : ∀ k, isForKw k = true → resolveCmd {} k = some .forIn :=
  forall_contains (by decide)

theorem resolveCmd_endForKw : ∀ k, namesEndForInCommand.contains k = true → resolveCmd {} k = some .endFor :=
  forall_contains (by decide)

theorem resolveCmd_fnKw : ∀ k, isFnKw k = true → resolveCmd {} k = some .function :=
  forall_contains (by decide)

theorem resolveCmd_endFnKw : ∀ k, namesEndFunctionCommand.contains k = true → resolveCmd {} k = some .endFunction :=
  forall_contains (by decide)

theorem resolveCmd_returnKw : ∀ k, namesReturnCommand.contains k = true → resolveCmd {} k = some .returnC :=
  forall_contains (by decide)

theorem resolveCmd_endWord : resolveCmd {} endWord = some .endC := by decide

end Duck
