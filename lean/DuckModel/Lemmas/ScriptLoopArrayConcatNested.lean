/-
  `array_concat` run from source, success path, part 2: the nested loops.
-/
import DuckModel.Lemmas.ScriptLoopArrayConcatOk

namespace Duck.ScriptRun
open Duck Duck.Alias Duck.Coll Duck.Spec Duck.Generated Duck.Reser

/-! ### the inner loop `for item in ${arg}` / `array_push` -/

/-- `array_push h x` on a live array -/
theorem exec_arrayPush (c : Coll.St) (h x : Str) (cur : List Item) (hget : tget c.tbl h = some (.list cur)) :
    Coll.exec c .arrayPush [h, x] =
      ({ c with tbl := tinsert (tremove c.tbl h) h (.list (cur ++ [.str x])) }, .val (some sTrue)) := by
  simp [Coll.exec, cmdArrayPush, mutateList, hget, okTrue]

/-- the body's state with the table `T` and the for-in call stack `stack` -/
def acSt (s : ScriptSt) (T : Table) (stack : List ForCall) : ScriptSt :=
  { s with coll := { tbl := T, next := s.coll.next }, forStack := stack }

/-- the table during the loops: the new array holds `acc`, every other lookup as at loop entry -/
structure AInvT (T0 : Table) (hR : Str) (T : Table) (acc : List Item) : Prop where
  arr : tget T hR = some (.list acc)
  other : ∀ k, k ≠ hR → tget T k = tget T0 k

structure AInvV (vars0 vars : Vars) (hA hR : Str) : Prop where
  args : vars.get aArgs = some hA
  array : vars.get aArray = some hR
  clr : clear aScope vars = clear aScope vars0

theorem AInvV.set_other {vars0 vars : Vars} {hA hR : Str} (h : AInvV vars0 vars hA hR) (k x : Str)
    (hu : underPrefix aScope k = true) (h1 : aArgs ≠ k) (h2 : aArray ≠ k) : AInvV vars0 (vars.set k x) hA hR := by
  refine ⟨?_, ?_, ?_⟩
  · rw [get_set, if_neg h1]; exact h.args
  · rw [get_set, if_neg h2]; exact h.array
  · rw [clear_set_under _ _ _ _ hu]; exact h.clr

/-- the table after `array_push hR x` for each `x` in turn (the array holds `acc` before) -/
def pushAll (hR : Str) : Table → List Item → List Str → Table
  | T, _, [] => T
  | T, acc, x :: xs => pushAll hR (tinsert (tremove T hR) hR (.list (acc ++ [.str x]))) (acc ++ [.str x]) xs

theorem pushAll_inv (T0 : Table) (hR : Str) : ∀ (xs : List Str) (T : Table) (acc : List Item),
    AInvT T0 hR T acc → AInvT T0 hR (pushAll hR T acc xs) (acc ++ xs.map .str)
  | [], _, _, h => by simpa [pushAll] using h
  | x :: xs, T, acc, h => by
    have := pushAll_inv T0 hR xs (tinsert (tremove T hR) hR (.list (acc ++ [.str x]))) (acc ++ [.str x])
      ⟨by rw [tget_tinsert, if_pos rfl], fun k hk => by rw [tget_tinsert, if_neg hk, tget_tremove, if_neg hk, h.other k hk]⟩
    simpa [pushAll, List.append_assoc] using this

theorem ac_bind_for_item (vars : Vars) (X : Str) (h : vars.get aArg = some X) :
    bind vars ((some [[Seg.lit aItem], [Seg.lit "in".toList], [Seg.var aArg]]).map fun a => a.map renderTemplate) =
      [aItem, "in".toList, X] := by
  rw [bind_mk _ _ (by decide)]
  simp [tmplValue, Seg.value, h]

/-- from the inner body line (11) with the current cell in `item` and the inner entry at the next
    iteration to the outer `end` (line 13), inner entry popped: 3 instructions per cell left -/
theorem ac_inner_loop (d : Nat) (s : ScriptSt) (X hA hR : Str) (L : List Item) (T0 : Table) (stack : List ForCall)
    (hctx : s.ctx = aScope) (hend : s.endTable.get (aKey 12) = some fullNameEndForIn)
    (hL : tget T0 X = some (.list L)) (hXR : X ≠ hR) (vars0 : Vars) :
    ∀ (rem pre : List Item) (x : Item) (acc : List Item) (T : Table) (vars : Vars) (poll : Nat) (fo : Option Str),
      L = pre ++ x :: rem → AInvT T0 hR T acc → AInvV vars0 vars hA hR → vars.get aArg = some X →
      vars.get aItem = some x.render →
      ∃ vars' poll' fo',
        (∀ F fuel, evalInstructions (bodySem F (d + 1) acIs) (fun _ => false) acIs (fuel + 3 * rem.length + 3) 11 poll fo vars
            (acSt s T (⟨pre.length + 1, 10, 12, aScope⟩ :: stack)) =
          evalInstructions (bodySem F (d + 1) acIs) (fun _ => false) acIs fuel 13 poll' fo' vars'
            (acSt s (pushAll hR T acc (x.render :: rem.map Item.render)) stack)) ∧
        AInvV vars0 vars' hA hR ∧ vars'.get aArg = some X := by
  intro rem
  induction rem with
  | nil =>
    intro pre x acc T vars poll fo hLe hT hV hvX hx
    have hb11 : bind vars ((some [[Seg.var aArray], [Seg.var aItem]]).map fun a => a.map renderTemplate) = [hR, x.render] := by
      rw [bind_mk vars _ (by decide)]
      simp [tmplValue, Seg.value, hV.array, hx]
    have hpush : runNative (.coll .arrayPush) [hR, x.render] vars (acSt s T (⟨pre.length + 1, 10, 12, aScope⟩ :: stack)) =
        (.continue (some sTrue), vars,
          acSt s (tinsert (tremove T hR) hR (.list (acc ++ [Item.str x.render]))) (⟨pre.length + 1, 10, 12, aScope⟩ :: stack)) := by
      simp only [runNative, runColl, acSt]
      rw [exec_arrayPush _ hR x.render acc hT.arr]
    have hTX : tget (tinsert (tremove T hR) hR (.list (acc ++ [Item.str x.render]))) X = some (.list L) := by
      rw [tget_tinsert, if_neg hXR, tget_tremove, if_neg hXR, hT.other X hXR, hL]
    have hnext : nextIteration (acSt s (tinsert (tremove T hR) hR (.list (acc ++ [Item.str x.render])))
        (⟨pre.length + 1, 10, 12, aScope⟩ :: stack)) X (pre.length + 1) = none := by
      simp [nextIteration, acSt, hTX, hLe]
    refine ⟨vars, poll + 1 + 1 + 1, none, ?_, hV, hvX⟩
    intro F fuel
    rw [show fuel + 3 * ([] : List Item).length + 3 = fuel + 1 + 1 + 1 by simp,
      eval_native_continue F (d + 1) acIs (fuel + 1 + 1) 11 poll fo vars _ _ _ "array_push".toList (.coll .arrayPush)
        (show acIs[11]? = some (mkI 12 none "array_push" (some [[.var aArray], [.var aItem]])) from rfl) rfl
        fs_array_push rn_array_push _ hb11 (some sTrue) vars _ hpush]
    rw [eval_end_for F d acIs 12 _ _ (show acIs[12]? = some (mkI 13 none "end" none) from rfl) rfl rfl _
      (acSt s (tinsert (tremove T hR) hR (.list (acc ++ [Item.str x.render]))) (⟨pre.length + 1, 10, 12, aScope⟩ :: stack))
      ⟨pre.length + 1, 10, 12, aScope⟩ stack
      (get_endTable_aKey (acSt s (tinsert (tremove T hR) hR (.list (acc ++ [Item.str x.render])))
        (⟨pre.length + 1, 10, 12, aScope⟩ :: stack)) hctx 12 _ hend) rfl rfl hctx.symm (fuel + 1) (poll + 1) _]
    exact eval_for_done F d acIs 10 _ _
      (show acIs[10]? = some (mkI 11 none "for" (some [[.lit aItem], [.lit "in".toList], [.var aArg]])) from rfl) rfl
      vars (acSt s (tinsert (tremove T hR) hR (.list (acc ++ [Item.str x.render]))) (⟨pre.length + 1, 10, 12, aScope⟩ :: stack))
      aItem X (ac_bind_for_item _ X hvX) ⟨pre.length + 1, 10, 12, aScope⟩ stack rfl rfl hctx.symm hnext fuel _ none
  | cons y rem ih =>
    intro pre x acc T vars poll fo hLe hT hV hvX hx
    have hb11 : bind vars ((some [[Seg.var aArray], [Seg.var aItem]]).map fun a => a.map renderTemplate) = [hR, x.render] := by
      rw [bind_mk vars _ (by decide)]
      simp [tmplValue, Seg.value, hV.array, hx]
    have hpush : runNative (.coll .arrayPush) [hR, x.render] vars (acSt s T (⟨pre.length + 1, 10, 12, aScope⟩ :: stack)) =
        (.continue (some sTrue), vars,
          acSt s (tinsert (tremove T hR) hR (.list (acc ++ [Item.str x.render]))) (⟨pre.length + 1, 10, 12, aScope⟩ :: stack)) := by
      simp only [runNative, runColl, acSt]
      rw [exec_arrayPush _ hR x.render acc hT.arr]
    have hTX : tget (tinsert (tremove T hR) hR (.list (acc ++ [Item.str x.render]))) X = some (.list L) := by
      rw [tget_tinsert, if_neg hXR, tget_tremove, if_neg hXR, hT.other X hXR, hL]
    have hnext : nextIteration (acSt s (tinsert (tremove T hR) hR (.list (acc ++ [Item.str x.render])))
        (⟨pre.length + 1, 10, 12, aScope⟩ :: stack)) X (pre.length + 1) = some y.render := by
      simp [nextIteration, acSt, hTX, hLe]
    have hT' : AInvT T0 hR (tinsert (tremove T hR) hR (.list (acc ++ [Item.str x.render]))) (acc ++ [Item.str x.render]) :=
      ⟨by rw [tget_tinsert, if_pos rfl], fun k hk => by rw [tget_tinsert, if_neg hk, tget_tremove, if_neg hk, hT.other k hk]⟩
    obtain ⟨vars', poll', fo', hrun, hV', hvX'⟩ := ih (pre ++ [x]) y (acc ++ [Item.str x.render]) _ (vars.set aItem y.render)
      (poll + 1 + 1 + 1) none (by rw [hLe]; simp) hT' (hV.set_other aItem _ aItem_under (by decide) (by decide))
      (by rw [get_set, if_neg (by decide)]; exact hvX) (by rw [get_set, if_pos rfl])
    refine ⟨vars', poll', fo', ?_, hV', hvX'⟩
    intro F fuel
    rw [show fuel + 3 * (y :: rem).length + 3 = fuel + 3 * rem.length + 3 + 1 + 1 + 1 by simp; omega,
      eval_native_continue F (d + 1) acIs _ 11 poll fo vars _ _ _ "array_push".toList (.coll .arrayPush)
        (show acIs[11]? = some (mkI 12 none "array_push" (some [[.var aArray], [.var aItem]])) from rfl) rfl
        fs_array_push rn_array_push _ hb11 (some sTrue) vars _ hpush]
    rw [eval_end_for F d acIs 12 _ _ (show acIs[12]? = some (mkI 13 none "end" none) from rfl) rfl rfl _
      (acSt s (tinsert (tremove T hR) hR (.list (acc ++ [Item.str x.render]))) (⟨pre.length + 1, 10, 12, aScope⟩ :: stack))
      ⟨pre.length + 1, 10, 12, aScope⟩ stack
      (get_endTable_aKey (acSt s (tinsert (tremove T hR) hR (.list (acc ++ [Item.str x.render])))
        (⟨pre.length + 1, 10, 12, aScope⟩ :: stack)) hctx 12 _ hend) rfl rfl hctx.symm
      (fuel + 3 * rem.length + 3 + 1) (poll + 1) _]
    show evalInstructions _ _ _ (fuel + 3 * rem.length + 3 + 1) 10 (poll + 1 + 1) none vars
      (acSt s (tinsert (tremove T hR) hR (.list (acc ++ [Item.str x.render]))) (⟨pre.length + 1, 10, 12, aScope⟩ :: stack)) = _
    rw [eval_for_next F d acIs 10 _ _
      (show acIs[10]? = some (mkI 11 none "for" (some [[.lit aItem], [.lit "in".toList], [.var aArg]])) from rfl) rfl rfl
      vars (acSt s (tinsert (tremove T hR) hR (.list (acc ++ [Item.str x.render]))) (⟨pre.length + 1, 10, 12, aScope⟩ :: stack))
      aItem X y.render (ac_bind_for_item _ X hvX) ⟨pre.length + 1, 10, 12, aScope⟩ stack rfl rfl hctx.symm hnext
      (fuel + 3 * rem.length + 3) _ none]
    have := hrun F fuel
    simp only [List.length_append, List.length_cons, List.length_nil] at this
    exact this


/-! ### the outer loop `for arg in ${arguments}` -/

/-- the state after the inner `for` line looked its block up -/
def acS10 (s : ScriptSt) : ScriptSt :=
  { s with forMeta := forMetaAfter s.forMeta (aKey 10) 12, endTable := s.endTable.put (aKey 12) fullNameEndForIn }

/-- one iteration of the outer loop: the inner `for` line, the inner loop over the cells of the
    array `X`, the outer `end`: `3·(cells) + 2` instructions, back at the outer `for` line -/
theorem ac_outer_iter (d : Nat) (s : ScriptSt) (X hA hR : Str) (Lx : List Item) (T0 : Table) (outer : ForCall)
    (fs : List ForCall) (vars0 vars : Vars) (acc : List Item)
    (hctx : s.ctx = aScope) (hc10 : CacheOK s.forMeta (aKey 10) 12)
    (he13 : s.endTable.get (aKey 13) = some fullNameEndForIn)
    (hfs : s.forStack = outer :: fs) (ho1 : outer.start = 9) (ho2 : outer.stop = 13) (ho3 : outer.ctx = aScope)
    (hLx : tget T0 X = some (.list Lx)) (hXR : X ≠ hR) (hT : AInvT T0 hR s.coll.tbl acc)
    (hV : AInvV vars0 vars hA hR) (hvX : vars.get aArg = some X) (poll : Nat) (fo : Option Str) :
    ∃ vars' poll' fo',
      (∀ F fuel, evalInstructions (bodySem F (d + 1) acIs) (fun _ => false) acIs (fuel + 3 * Lx.length + 2) 10 poll fo vars s =
        evalInstructions (bodySem F (d + 1) acIs) (fun _ => false) acIs fuel 9 poll' fo' vars'
          (acSt (acS10 s) (pushAll hR s.coll.tbl acc (Lx.map Item.render)) (outer :: fs))) ∧
      AInvV vars0 vars' hA hR ∧ vars'.get aArg = some X := by
  have hpop : popFor 10 s.ctx false s.forStack = (none, s.forStack) := by
    rw [hfs]; exact popFor_mismatch 10 _ outer fs (by omega) (by omega)
  have hTX : tget s.coll.tbl X = some (.list Lx) := by rw [hT.other X hXR, hLx]
  have hS : forSt s 10 12 = acS10 s := forSt_aKey s hctx 10 12
  have he13' : ∀ (T : Table) (st : List ForCall),
      (acSt (acS10 s) T st).endTable.get (flowKey (acSt (acS10 s) T st) 13) = some fullNameEndForIn := by
    intro T st
    apply get_endTable_aKey (acSt (acS10 s) T st) hctx
    show (s.endTable.put (aKey 12) fullNameEndForIn).get (aKey 13) = _
    rw [get_put_aKey_ne _ 12 13 _ (by omega)]; exact he13
  cases Lx with
  | nil =>
    have hnext : nextIteration s X 0 = none := by simp [nextIteration, hTX]
    refine ⟨vars, poll + 1 + 1, none, ?_, hV, hvX⟩
    intro F fuel
    rw [show fuel + 3 * ([] : List Item).length + 2 = fuel + 1 + 1 by simp,
      eval_for_first_done F d acIs 10 12 _ _
        (show acIs[10]? = some (mkI 11 none "for" (some [[.lit aItem], [.lit "in".toList], [.var aArg]])) from rfl) rfl
        vars s aItem X (ac_bind_for_item vars X hvX) hpop ac_findFor10 (by rw [flowKey_aKey s hctx]; exact hc10) hnext
        (fuel + 1) poll fo, hS]
    have hst : acS10 s = acSt (acS10 s) (pushAll hR s.coll.tbl acc (([] : List Item).map Item.render)) (outer :: fs) := by
      simp only [List.map_nil, pushAll, acSt, acS10, ← hfs]
    rw [hst]
    rw [eval_end_for F d acIs 13 _ _ (show acIs[13]? = some (mkI 14 none "end" none) from rfl) rfl rfl vars
      _ outer fs (he13' _ _) rfl ho2 (by rw [ho3]; exact hctx.symm) fuel (poll + 1) none, ho1]
    rfl
  | cons x r =>
    have hnext : nextIteration s X 0 = some x.render := by simp [nextIteration, hTX]
    obtain ⟨vars', poll', fo', hrun, hV', hvX'⟩ := ac_inner_loop d (acS10 s) X hA hR (x :: r) T0 (outer :: fs) hctx
      (by show (s.endTable.put (aKey 12) fullNameEndForIn).get (aKey 12) = _
          rw [KV.get_put, if_pos rfl])
      hLx hXR vars0 r [] x acc s.coll.tbl (vars.set aItem x.render) (poll + 1) none rfl hT
      (hV.set_other aItem _ aItem_under (by decide) (by decide))
      (by rw [get_set, if_neg (by decide)]; exact hvX) (by rw [get_set, if_pos rfl])
    refine ⟨vars', poll' + 1, none, ?_, hV', hvX'⟩
    intro F fuel
    rw [show fuel + 3 * (x :: r).length + 2 = fuel + 1 + 3 * r.length + 3 + 1 by simp; omega,
      eval_for_first_next F d acIs 10 12 _ _
        (show acIs[10]? = some (mkI 11 none "for" (some [[.lit aItem], [.lit "in".toList], [.var aArg]])) from rfl) rfl rfl
        vars s aItem X x.render (ac_bind_for_item vars X hvX) hpop ac_findFor10
        (by rw [flowKey_aKey s hctx]; exact hc10) hnext _ poll fo, hS]
    have hst : ({ acS10 s with forStack := ⟨1, 10, 12, s.ctx⟩ :: s.forStack } : ScriptSt) =
        acSt (acS10 s) s.coll.tbl (⟨([] : List Item).length + 1, 10, 12, aScope⟩ :: outer :: fs) := by
      simp only [acSt, acS10, hfs, hctx, List.length_nil, Nat.zero_add]
    rw [hst, hrun F (fuel + 1)]
    rw [eval_end_for F d acIs 13 _ _ (show acIs[13]? = some (mkI 14 none "end" none) from rfl) rfl rfl vars'
      _ outer fs (he13' _ _) rfl ho2 (by rw [ho3]; exact hctx.symm) fuel poll' fo', ho1]
    rfl

end Duck.ScriptRun
