/-
  Helper lemmas about the registry model (used by Props/C15.lean).
-/
import DuckModel.Registry

namespace Duck

namespace KV
variable {α : Type}

@[simp] theorem get_nil (k : Str) : get ([] : KV α) k = none := rfl

theorem get_cons (k' : Str) (v : α) (rest : KV α) (k : Str) :
    get ((k', v) :: rest) k = if k' = k then some v else get rest k := rfl

theorem get_erase (m : KV α) (k k' : Str) :
    get (erase m k) k' = if k' = k then none else get m k' := by
  induction m with
  | nil => simp [erase]
  | cons p rest ih =>
    obtain ⟨a, v⟩ := p
    unfold erase at ih ⊢
    by_cases hak : a = k
    · subst hak
      simp only [List.filter_cons, ne_eq, not_true_eq_false, decide_false, Bool.false_eq_true,
        if_false, ih, get_cons]
      by_cases h : k' = a
      · simp [h]
      · have : ¬ a = k' := fun e => h e.symm
        simp [h, this]
    · simp only [List.filter_cons, ne_eq, hak, not_false_eq_true, decide_true, if_true, get_cons, ih]
      by_cases h : a = k'
      · subst h; simp [hak]
      · simp [h]

theorem get_put (m : KV α) (k : Str) (v : α) (k' : Str) :
    get (put m k v) k' = if k' = k then some v else get m k' := by
  unfold put
  rw [get_cons, get_erase]
  by_cases h : k = k'
  · subst h; simp
  · have : ¬ k' = k := fun e => h e.symm
    simp [h, this]

theorem get_isSome_iff_mem (m : KV α) (k : Str) :
    (get m k).isSome = true ↔ k ∈ m.map (·.1) := by
  induction m with
  | nil => simp
  | cons p rest ih =>
    obtain ⟨a, v⟩ := p
    rw [get_cons]
    by_cases h : a = k
    · simp [h]
    · have : ¬ k = a := fun e => h e.symm
      simp [h, this, ih]

/-- the alias insertion loop of `Commands::set` -/
theorem get_foldl_put (as : List Str) (n : α) (m0 : KV α) (k : Str) :
    get (as.foldl (fun m a => m.put a n) m0) k = if k ∈ as then some n else get m0 k := by
  induction as generalizing m0 with
  | nil => simp
  | cons a as ih =>
    rw [List.foldl_cons, ih, get_put]
    by_cases h1 : k ∈ as
    · simp [h1]
    · by_cases h2 : k = a
      · simp [h2]
      · simp [h1, h2]

/-- the alias removal loop of `Commands::remove` -/
theorem get_foldl_erase [DecidableEq α] (as : List Str) (n : α) (m0 : KV α) (k : Str) :
    get (as.foldl (fun m a => if m.get a = some n then m.erase a else m) m0) k =
      if k ∈ as ∧ get m0 k = some n then none else get m0 k := by
  induction as generalizing m0 with
  | nil => simp
  | cons a as ih =>
    rw [List.foldl_cons, ih]
    by_cases h0 : get m0 a = some n
    · simp only [h0, if_true, get_erase]
      by_cases h2 : k = a
      · subst h2; simp [h0]
      · simp [h2]
    · simp only [h0, if_false]
      by_cases h2 : k = a
      · subst h2; simp [h0]
      · simp [h2]

end KV

namespace Reg

/-! ### `strLt` is a strict total order -/

theorem strLt_irrefl (a : Str) : strLt a a = false := by
  induction a with
  | nil => rfl
  | cons x xs ih => simp [strLt, ih]

theorem strLt_asymm (a b : Str) (h : strLt a b = true) : strLt b a = false := by
  induction a generalizing b with
  | nil => cases b <;> simp_all [strLt]
  | cons x xs ih =>
    cases b with
    | nil => simp [strLt] at h
    | cons y ys =>
      simp only [strLt] at h ⊢
      split at h
      · have : ¬ y.toNat < x.toNat := by omega
        have h' : ¬ (y.toNat < x.toNat) := this
        simp [*]
      · split at h
        · simp at h
        · rename_i h1 h2
          simp [h1, h2, ih ys h]

/-- `≤` (i.e. `¬ >`) is transitive -/
theorem strLe_trans (x y z : Str) (h1 : strLt y x = false) (h2 : strLt z y = false) :
    strLt z x = false := by
  induction x generalizing y z with
  | nil => cases z <;> rfl
  | cons a xs ih =>
    cases y with
    | nil => simp [strLt] at h1
    | cons b ys =>
      cases z with
      | nil => simp [strLt] at h2
      | cons c zs =>
        simp only [strLt] at h1 h2 ⊢
        split at h1
        · simp at h1
        · split at h1
          · split at h2
            · simp at h2
            · split at h2
              · have h3 : ¬ c.toNat < a.toNat := by omega
                have h4 : a.toNat < c.toNat := by omega
                simp [h3, h4]
              · have h3 : ¬ c.toNat < a.toNat := by omega
                have h4 : a.toNat < c.toNat := by omega
                simp [h3, h4]
          · split at h2
            · simp at h2
            · split at h2
              · have h3 : ¬ c.toNat < a.toNat := by omega
                have h4 : a.toNat < c.toNat := by omega
                simp [h3, h4]
              · have h3 : ¬ c.toNat < a.toNat := by omega
                have h4 : ¬ a.toNat < c.toNat := by omega
                simp [h3, h4]
                exact ih ys zs h1 h2

/-! ### insertion sort -/

theorem mem_insertSorted (x y : Str) (l : List Str) :
    y ∈ insertSorted x l ↔ y = x ∨ y ∈ l := by
  induction l with
  | nil => simp [insertSorted]
  | cons z zs ih =>
    unfold insertSorted
    split
    · simp only [List.mem_cons, ih]
      constructor
      · rintro (h | h | h) <;> simp [h]
      · rintro (h | h | h) <;> simp [h]
    · simp

theorem mem_sortStrs (y : Str) (l : List Str) : y ∈ sortStrs l ↔ y ∈ l := by
  induction l with
  | nil => simp [sortStrs]
  | cons z zs ih =>
    have : sortStrs (z :: zs) = insertSorted z (sortStrs zs) := rfl
    rw [this, mem_insertSorted, ih]
    simp

theorem pairwise_insertSorted (x : Str) (l : List Str)
    (h : l.Pairwise (fun a b => strLt b a = false)) :
    (insertSorted x l).Pairwise (fun a b => strLt b a = false) := by
  induction l with
  | nil => simp [insertSorted]
  | cons z zs ih =>
    rw [List.pairwise_cons] at h
    unfold insertSorted
    split
    · rename_i hzx
      rw [List.pairwise_cons]
      refine ⟨?_, ih h.2⟩
      intro w hw
      rw [mem_insertSorted] at hw
      rcases hw with hw | hw
      · subst hw; exact strLt_asymm _ _ hzx
      · exact h.1 w hw
    · rename_i hzx
      have hzx' : strLt z x = false := by simpa using hzx
      rw [List.pairwise_cons]
      refine ⟨?_, List.pairwise_cons.mpr h⟩
      intro w hw
      rcases List.mem_cons.mp hw with hw | hw
      · subst hw; exact hzx'
      · exact strLe_trans x z w hzx' (h.1 w hw)

theorem pairwise_sortStrs (l : List Str) :
    (sortStrs l).Pairwise (fun a b => strLt b a = false) := by
  induction l with
  | nil => simp [sortStrs]
  | cons z zs ih => exact pairwise_insertSorted z _ ih

/-! ### case analysis of `set` / `remove` -/

/-- the registry produced by an accepted `set` -/
def setOk (r : Reg) (c : CmdSpec) : Reg :=
  { commands := r.commands.put c.name c,
    aliases := c.aliases.foldl (fun m a => m.put a c.name) (r.aliases.erase c.name) }

/-- the registry produced by a successful `remove` of the command `c` stored under `k` -/
def removeOk (r : Reg) (k : Str) (c : CmdSpec) : Reg :=
  { commands := r.commands.erase k,
    aliases := c.aliases.foldl
      (fun m a => if m.get a = some c.name then m.erase a else m) r.aliases }

theorem set_cases (r : Reg) (c : CmdSpec) :
    (((r.commands.get c.name).isSome = true ∨
        ∃ a ∈ c.aliases, (r.aliases.get a).isSome = true) ∧ r.set c = (r, false)) ∨
    ((r.commands.get c.name = none ∧ ∀ a ∈ c.aliases, r.aliases.get a = none) ∧
      r.set c = (r.setOk c, true)) := by
  by_cases h1 : r.commands.containsKey c.name = true
  · left
    refine ⟨Or.inl (by simpa [KV.containsKey] using h1), by simp [set, h1]⟩
  · by_cases h2 : (c.aliases.any fun a => r.aliases.containsKey a) = true
    · left
      refine ⟨Or.inr (by simpa [KV.containsKey] using h2), by simp [set, h2]⟩
    · right
      refine ⟨⟨by simpa [KV.containsKey] using h1, ?_⟩, by simp [set, setOk, h1, h2]⟩
      intro a ha
      simp only [List.any_eq_true, KV.containsKey, not_exists, not_and] at h2
      simpa using h2 a ha

theorem remove_none (r : Reg) (n : Str) (h : r.commands.get (r.resolve n) = none) :
    r.remove n = (r, false) := by
  simp [remove, h]

theorem remove_some (r : Reg) (n : Str) (c : CmdSpec)
    (h : r.commands.get (r.resolve n) = some c) :
    r.remove n = (r.removeOk (r.resolve n) c, true) := by
  simp [remove, removeOk, h]

theorem setOk_aliases_get (r : Reg) (c : CmdSpec) (a : Str) :
    (r.setOk c).aliases.get a =
      if a ∈ c.aliases then some c.name else if a = c.name then none else r.aliases.get a := by
  simp [setOk, KV.get_foldl_put, KV.get_erase]

theorem setOk_commands_get (r : Reg) (c : CmdSpec) (m : Str) :
    (r.setOk c).commands.get m = if m = c.name then some c else r.commands.get m := by
  simp [setOk, KV.get_put]

theorem removeOk_aliases_get (r : Reg) (k : Str) (c : CmdSpec) (a : Str) :
    (r.removeOk k c).aliases.get a =
      if a ∈ c.aliases ∧ r.aliases.get a = some c.name then none else r.aliases.get a := by
  simp only [removeOk, KV.get_foldl_erase]

theorem removeOk_commands_get (r : Reg) (k : Str) (c : CmdSpec) (m : Str) :
    (r.removeOk k c).commands.get m = if m = k then none else r.commands.get m := by
  simp [removeOk, KV.get_erase]

/-! ### the invariant (same body as `Reg.Inv` in Props/C15.lean) -/

def InvP (r : Reg) : Prop :=
  (∀ a m, r.aliases.get a = some m → ∃ c, r.commands.get m = some c ∧ a ∈ c.aliases) ∧
  (∀ m c, r.commands.get m = some c → c.name = m)

theorem invP_empty : InvP {} := by
  constructor
  · intro a m h; simp at h
  · intro m c h; simp at h

theorem invP_setOk (r : Reg) (c : CmdSpec) (h : r.InvP)
    (hn : r.commands.get c.name = none) : (r.setOk c).InvP := by
  obtain ⟨h1, h2⟩ := h
  constructor
  · intro a m ham
    rw [setOk_aliases_get] at ham
    by_cases ha : a ∈ c.aliases
    · simp only [ha, if_true, Option.some.injEq] at ham
      subst ham
      exact ⟨c, by simp [setOk_commands_get], ha⟩
    · simp only [ha, if_false] at ham
      by_cases hac : a = c.name
      · simp [hac] at ham
      · simp only [hac, if_false] at ham
        obtain ⟨c', hc', hac'⟩ := h1 a m ham
        have hm : m ≠ c.name := by
          intro e; subst e; rw [hn] at hc'; cases hc'
        exact ⟨c', by simp [setOk_commands_get, hm, hc'], hac'⟩
  · intro m c' hm
    rw [setOk_commands_get] at hm
    by_cases e : m = c.name
    · simp only [e, if_true, Option.some.injEq] at hm
      subst hm; exact e.symm
    · simp only [e, if_false] at hm
      exact h2 m c' hm

theorem invP_removeOk (r : Reg) (k : Str) (c : CmdSpec) (h : r.InvP)
    (hk : r.commands.get k = some c) : (r.removeOk k c).InvP := by
  obtain ⟨h1, h2⟩ := h
  have hck : c.name = k := h2 k c hk
  constructor
  · intro a m ham
    rw [removeOk_aliases_get] at ham
    split at ham
    · cases ham
    · rename_i hcond
      obtain ⟨c', hc', hac'⟩ := h1 a m ham
      have hm : m ≠ k := by
        intro e
        subst e
        rw [hk] at hc'
        cases hc'
        exact hcond ⟨hac', by rw [ham, hck]⟩
      exact ⟨c', by simp [removeOk_commands_get, hm, hc'], hac'⟩
  · intro m c' hm
    rw [removeOk_commands_get] at hm
    split at hm
    · cases hm
    · exact h2 m c' hm

theorem invP_set (r : Reg) (c : CmdSpec) (h : r.InvP) : (r.set c).1.InvP := by
  rcases set_cases r c with ⟨_, e⟩ | ⟨⟨hn, _⟩, e⟩
  · rw [e]; exact h
  · rw [e]; exact invP_setOk r c h hn

theorem invP_remove (r : Reg) (n : Str) (h : r.InvP) : (r.remove n).1.InvP := by
  cases hk : r.commands.get (r.resolve n) with
  | none => rw [remove_none r n hk]; exact h
  | some c => rw [remove_some r n c hk]; exact invP_removeOk r _ c h hk

theorem invP_apply (r : Reg) (op : RegOp) (h : r.InvP) : (r.apply op).1.InvP := by
  cases op with
  | set c => exact invP_set r c h
  | get n => exact h
  | «exists» n => exact h
  | remove n => exact invP_remove r n h
  | names => exact h

theorem invP_run (r : Reg) (ops : List RegOp) (h : r.InvP) : (Reg.run r ops).1.InvP := by
  induction ops generalizing r with
  | nil => exact h
  | cons op ops ih => exact ih (r.apply op).1 (invP_apply r op h)

end Reg

end Duck
