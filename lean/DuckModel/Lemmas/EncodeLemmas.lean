/-
  C17 — lemmas about the encodings model (`Sdk/Encode.lean`): base64 and radix-16/10 digit
  round trips, and the invariant of `json_parse --collection` followed by
  `json_encode --collection` (handles only ever get added, document texts are never handles).
-/
import DuckModel.Sdk.Encode

namespace Duck.Enc

/-! ## base64 -/

theorem b64Val_b64Char : ∀ n : Fin 64, b64Val (b64Char n.val) = some n.val := by decide
theorem b64Char_ne_pad : ∀ n : Fin 64, b64Char n.val ≠ '=' := by decide

theorem b64Val_char (n : Nat) (h : n < 64) : b64Val (b64Char n) = some n := b64Val_b64Char ⟨n, h⟩
theorem b64Char_ne (n : Nat) (h : n < 64) : b64Char n ≠ '=' := b64Char_ne_pad ⟨n, h⟩

theorem b64_roundtrip : ∀ bs : List Nat, (∀ b ∈ bs, b < 256) → b64Decode (b64Encode bs) = some bs
  | [], _ => by simp [b64Encode, b64Decode]
  | [a], h => by
    have ha : a < 256 := h a (by simp)
    simp only [b64Encode, b64Decode]
    simp [b64Val_char (a / 4) (by omega), b64Val_char (a % 4 * 16) (by omega)]
    omega
  | [a, b], h => by
    have ha : a < 256 := h a (by simp)
    have hb : b < 256 := h b (by simp)
    simp only [b64Encode, b64Decode]
    simp [b64Val_char (a / 4) (by omega), b64Val_char (a % 4 * 16 + b / 16) (by omega),
      b64Val_char (b % 16 * 4) (by omega), b64Char_ne (b % 16 * 4) (by omega)]
    omega
  | a :: b :: c :: rest, h => by
    have ha : a < 256 := h a (by simp)
    have hb : b < 256 := h b (by simp)
    have hc : c < 256 := h c (by simp)
    have ih := b64_roundtrip rest (fun x hx => h x (by simp [hx]))
    simp only [b64Encode, b64Decode]
    simp [b64Val_char (a / 4) (by omega), b64Val_char (a % 4 * 16 + b / 16) (by omega),
      b64Val_char (b % 16 * 4 + c / 64) (by omega), b64Val_char (c % 64) (by omega),
      b64Char_ne (c % 64) (by omega), ih]
    omega

/-! ## numbers -/

theorem digitVal_lower16 : ∀ d : Fin 16, digitVal 16 (lowerHexDigit d.val) = some d.val := by decide
theorem digitVal_lower10 : ∀ d : Fin 10, digitVal 10 (lowerHexDigit d.val) = some d.val := by decide
theorem lower_ne_x : ∀ d : Fin 16, lowerHexDigit d.val ≠ 'x' ∧ lowerHexDigit d.val ≠ '+' := by decide

/-- a hexadecimal / decimal digit produced by the encoder -/
def IsDigitOut (radix : Nat) (c : Char) : Prop := ∃ d, d < radix ∧ c = lowerHexDigit d

theorem digitsAux_mem (radix : Nat) (hr : 0 < radix) : ∀ fuel n acc c, c ∈ digitsAux radix fuel n acc →
    c ∈ acc ∨ IsDigitOut radix c := by
  intro fuel
  induction fuel with
  | zero => intro n acc c h; left; simpa [digitsAux] using h
  | succ f ih =>
    intro n acc c h
    unfold digitsAux at h
    split at h
    · rename_i hlt
      rcases List.mem_cons.1 h with h | h
      · right; exact ⟨n, hlt, h⟩
      · left; exact h
    · rcases ih _ _ _ h with h | h
      · rcases List.mem_cons.1 h with h | h
        · right; exact ⟨n % radix, Nat.mod_lt _ hr, h⟩
        · left; exact h
      · right; exact h

theorem digitsAux_ne_nil (radix fuel n acc) : digitsAux radix (fuel + 1) n acc ≠ [] := by
  induction fuel generalizing n acc with
  | zero => unfold digitsAux; split <;> simp [digitsAux]
  | succ f ih =>
    unfold digitsAux
    split
    · simp
    · exact ih _ _

/-- folding the produced digits gives the number back (radix 16 / 10) -/
theorem foldDigits_digitsAux (radix : Nat) (hr : 1 < radix)
    (hd : ∀ d, d < radix → digitVal radix (lowerHexDigit d) = some d) :
    ∀ fuel n acc, n < radix ^ fuel →
      foldDigits radix 0 (digitsAux radix fuel n acc) = foldDigits radix n acc := by
  intro fuel
  induction fuel with
  | zero =>
    intro n acc h
    have : n = 0 := by simpa using h
    subst this; simp [digitsAux]
  | succ f ih =>
    intro n acc h
    unfold digitsAux
    split
    · rename_i hlt
      simp [foldDigits, hd n hlt]
    · have h' : n / radix < radix ^ f := by
        rw [Nat.div_lt_iff_lt_mul (by omega)]
        rw [Nat.pow_succ] at h; exact h
      rw [ih _ _ h']
      simp only [foldDigits, hd _ (Nat.mod_lt _ (by omega))]
      rw [Nat.div_add_mod']

theorem stripHexPrefix_id : ∀ s : List Char, (∀ c ∈ s, c ≠ 'x') → stripHexPrefix s = s
  | [], _ => by simp [stripHexPrefix]
  | [_], _ => by simp [stripHexPrefix]
  | c0 :: c1 :: r, h => by
    have : c1 ≠ 'x' := h c1 (by simp)
    simp [stripHexPrefix, this]

theorem hex_roundtrip (n : Nat) (h : n < 2 ^ 64) : hexDecode (hexEncode n) = some n := by
  have hmem : ∀ c ∈ digitsAux 16 16 n [], IsDigitOut 16 c := by
    intro c hc
    rcases digitsAux_mem 16 (by decide) 16 n [] c hc with h | h
    · cases h
    · exact h
  have hx : ∀ c ∈ digitsAux 16 16 n [], c ≠ 'x' ∧ c ≠ '+' := by
    intro c hc
    obtain ⟨d, hd, rfl⟩ := hmem c hc
    exact lower_ne_x ⟨d, hd⟩
  have hne : digitsAux 16 16 n [] ≠ [] := digitsAux_ne_nil 16 15 n []
  have hfold := foldDigits_digitsAux 16 (by decide) (fun d hd => digitVal_lower16 ⟨d, hd⟩) 16 n []
    (by simpa using h)
  unfold hexDecode hexEncode
  have hstrip : stripHexPrefix ('0' :: 'x' :: digitsAux 16 16 n []) = digitsAux 16 16 n [] := by
    rw [stripHexPrefix]
    simp
    exact stripHexPrefix_id _ (fun c hc => (hx c hc).1)
  rw [hstrip]
  unfold parseU64
  cases hds : digitsAux 16 16 n [] with
  | nil => exact absurd hds hne
  | cons c r =>
    have hplus : c ≠ '+' := (hx c (by rw [hds]; simp)).2
    rw [hds] at hfold
    simp only [hplus, hfold, foldDigits, u64Bound, if_false, List.isEmpty_cons, Bool.false_eq_true]
    have h2 : n < 18446744073709551616 := by simpa using h
    simp [h2]

/-! ## JSON -/

theorem lookup_put (k k' : Str) (v : SVal) : ∀ e : Entries,
    lookup k' (put k v e) = if k = k' then some v else lookup k' e
  | [] => by simp [put, lookup]
  | (k0, v0) :: r => by
    simp only [put]
    by_cases h : k0 = k
    · subst h
      by_cases h2 : k0 = k' <;> simp [lookup, h2]
    · simp only [if_neg h, lookup]
      by_cases h2 : k0 = k'
      · subst h2; simp [Ne.symm h]
      · simp [h2, lookup_put k k' v r]

/-- all handles of the store were drawn from the supply -/
def Inv (key : Nat → Str) (st : Store) : Prop :=
  ∀ k v, lookup k st.entries = some v → ∃ i, i < st.next ∧ k = key i

/-- `st'` still has every handle of `st`, with the same value -/
def Ext (st st' : Store) : Prop :=
  ∀ k v, lookup k st.entries = some v → lookup k st'.entries = some v

theorem Ext.refl (st : Store) : Ext st st := fun _ _ h => h
theorem Ext.trans {a b c : Store} (h1 : Ext a b) (h2 : Ext b c) : Ext a c :=
  fun k v h => h2 k v (h1 k v h)

def Injective (key : Nat → Str) : Prop := ∀ i j, key i = key j → i = j

theorem fresh {key : Nat → Str} (hinj : Injective key) {st : Store} (hinv : Inv key st) :
    lookup (key st.next) st.entries = none := by
  cases h : lookup (key st.next) st.entries with
  | none => rfl
  | some v =>
    obtain ⟨i, hi, e⟩ := hinv _ _ h
    have := hinj _ _ e
    omega

theorem alloc_spec {key : Nat → Str} (hinj : Injective key) {st : Store} (hinv : Inv key st) (v : SVal) :
    Inv key (alloc key st v).2 ∧ Ext st (alloc key st v).2 ∧
      lookup (alloc key st v).1 (alloc key st v).2.entries = some v := by
  have hf := fresh hinj hinv
  refine ⟨?_, ?_, ?_⟩
  · intro k w h
    simp only [alloc, lookup_put] at h
    split at h
    · rename_i e; exact ⟨st.next, by simp [alloc], e.symm⟩
    · obtain ⟨i, hi, e⟩ := hinv _ _ h
      exact ⟨i, by simp [alloc]; omega, e⟩
  · intro k w h
    simp only [alloc, lookup_put]
    split
    · rename_i e; subst e; rw [hf] at h; cases h
    · exact h
  · simp [alloc, lookup_put]

mutual
  /-- no text of the document is a handle name of the supply -/
  def NoHandle (key : Nat → Str) : Json → Prop
    | .null => True
    | .bool b => ∀ i, boolText b ≠ key i
    | .num t => ∀ i, t ≠ key i
    | .str s => ∀ i, s ≠ key i
    | .arr items => NoHandleL key items
    | .obj fields => NoHandleF key fields
  def NoHandleL (key : Nat → Str) : JList → Prop
    | .nil => True
    | .cons h t => NoHandle key h ∧ NoHandleL key t
  def NoHandleF (key : Nat → Str) : JFields → Prop
    | .nil => True
    | .cons _ v t => NoHandle key v ∧ NoHandleF key t
end

/-- what a parsed value denotes in every later store -/
def Denotes (key : Nat → Str) (st : Store) (n : Nat) (v : Str) (j : Json) : Prop :=
  ∀ st'', Inv key st'' → Ext st st'' → ∀ f, n ≤ f → encodeVal f st''.entries (.str v) = .ok j

theorem leaf_denotes {key : Nat → Str} (st : Store) (t : Str) (h : ∀ i, t ≠ key i) :
    Denotes key st 1 t (.str t) := by
  intro st'' hinv _ f hf
  cases f with
  | zero => omega
  | succ f =>
    have : lookup t st''.entries = none := by
      cases hl : lookup t st''.entries with
      | none => rfl
      | some v => obtain ⟨i, _, e⟩ := hinv _ _ hl; exact absurd e (h i)
    simp [encodeVal, this]

mutual
  theorem parseJ_spec {key : Nat → Str} (hinj : Injective key) :
      ∀ (d : Json) (st : Store), Inv key st → NoHandle key d →
        Inv key (parseJ key d st).2 ∧ Ext st (parseJ key d st).2 ∧
        (match (parseJ key d st).1 with
         | none => norm d = none
         | some v => ∃ j, norm d = some j ∧ Denotes key (parseJ key d st).2 (need d) v j)
    | .null, st, hinv, _ => by simp [parseJ, norm, hinv, Ext.refl]
    | .bool b, st, hinv, hno => by
      simp only [parseJ, norm, need]
      exact ⟨hinv, Ext.refl _, _, rfl, leaf_denotes st _ hno⟩
    | .num t, st, hinv, hno => by
      simp only [parseJ, norm, need]
      exact ⟨hinv, Ext.refl _, _, rfl, leaf_denotes st _ hno⟩
    | .str t, st, hinv, hno => by
      simp only [parseJ, norm, need]
      exact ⟨hinv, Ext.refl _, _, rfl, leaf_denotes st _ hno⟩
    | .arr items, st, hinv, hno => by
      obtain ⟨h1, h2, h3⟩ := parseL_spec hinj items st hinv hno
      obtain ⟨a1, a2, a3⟩ := alloc_spec hinj h1 (.list (parseL key items st).1)
      simp only [parseJ, norm, need]
      refine ⟨a1, h2.trans a2, _, rfl, ?_⟩
      intro st'' hinv'' hext f hf
      obtain ⟨f, rfl⟩ : ∃ g, f = g + 2 := ⟨f - 2, by omega⟩
      have hl := hext _ _ a3
      have := h3 st'' hinv'' (a2.trans hext) f (by omega)
      simp only [encodeVal, hl, this]
    | .obj fields, st, hinv, hno => by
      obtain ⟨h1, h2, h3⟩ := parseF_spec hinj fields st hinv hno
      obtain ⟨a1, a2, a3⟩ := alloc_spec hinj h1 (.map (parseF key fields st).1)
      simp only [parseJ, norm, need]
      refine ⟨a1, h2.trans a2, _, rfl, ?_⟩
      intro st'' hinv'' hext f hf
      obtain ⟨f, rfl⟩ : ∃ g, f = g + 2 := ⟨f - 2, by omega⟩
      have hl := hext _ _ a3
      have := h3 st'' hinv'' (a2.trans hext) f (by omega)
      simp only [encodeVal, hl, this]
  theorem parseL_spec {key : Nat → Str} (hinj : Injective key) :
      ∀ (l : JList) (st : Store), Inv key st → NoHandleL key l →
        Inv key (parseL key l st).2 ∧ Ext st (parseL key l st).2 ∧
        ∀ st'', Inv key st'' → Ext (parseL key l st).2 st'' → ∀ f, needL l ≤ f →
          encItems (fun s => encodeVal f st''.entries (.str s)) (parseL key l st).1 = .ok (normL l)
    | .nil, st, hinv, _ => by simp [parseL, normL, encItems, hinv, Ext.refl]
    | .cons h t, st, hinv, hno => by
      obtain ⟨hnh, hnt⟩ := hno
      obtain ⟨h1, h2, h3⟩ := parseJ_spec hinj h st hinv hnh
      obtain ⟨t1, t2, t3⟩ := parseL_spec hinj t (parseJ key h st).2 h1 hnt
      simp only [parseL, normL, needL]
      refine ⟨t1, h2.trans t2, ?_⟩
      intro st'' hinv'' hext f hf
      have ht := t3 st'' hinv'' hext f (by omega)
      cases hr : (parseJ key h st).1 with
      | none =>
        rw [hr] at h3
        simp only [h3, ht]
      | some v =>
        rw [hr] at h3
        obtain ⟨j, hj, hd⟩ := h3
        have := hd st'' hinv'' (t2.trans hext) f (by omega)
        simp only [hj, encItems, this, ht]
  theorem parseF_spec {key : Nat → Str} (hinj : Injective key) :
      ∀ (l : JFields) (st : Store), Inv key st → NoHandleF key l →
        Inv key (parseF key l st).2 ∧ Ext st (parseF key l st).2 ∧
        ∀ st'', Inv key st'' → Ext (parseF key l st).2 st'' → ∀ f, needF l ≤ f →
          encFields (fun s => encodeVal f st''.entries (.str s)) (parseF key l st).1 = .ok (normF l)
    | .nil, st, hinv, _ => by simp [parseF, normF, encFields, hinv, Ext.refl]
    | .cons k h t, st, hinv, hno => by
      obtain ⟨hnh, hnt⟩ := hno
      obtain ⟨h1, h2, h3⟩ := parseJ_spec hinj h st hinv hnh
      obtain ⟨t1, t2, t3⟩ := parseF_spec hinj t (parseJ key h st).2 h1 hnt
      simp only [parseF, normF, needF]
      refine ⟨t1, h2.trans t2, ?_⟩
      intro st'' hinv'' hext f hf
      have ht := t3 st'' hinv'' hext f (by omega)
      cases hr : (parseJ key h st).1 with
      | none =>
        rw [hr] at h3
        simp only [h3, ht]
      | some v =>
        rw [hr] at h3
        obtain ⟨j, hj, hd⟩ := h3
        have := hd st'' hinv'' (t2.trans hext) f (by omega)
        simp only [hj, encFields, this, ht]
end


/-! ## JSON: fuel bound, the model's handle supply; decimal numbers -/

theorem put_length_fresh (k : Str) (v : SVal) : ∀ e : Entries, lookup k e = none →
    (put k v e).length = e.length + 1
  | [], _ => by simp [put]
  | (k0, v0) :: r, h => by
    simp only [lookup] at h
    split at h
    · cases h
    · rename_i hne
      simp [put, hne, put_length_fresh k v r h]

theorem alloc_length {key : Nat → Str} (hinj : Injective key) {st : Store} (hinv : Inv key st) (v : SVal) :
    (alloc key st v).2.entries.length = st.entries.length + 1 := by
  simp [alloc, put_length_fresh _ _ _ (fresh hinj hinv)]

mutual
  theorem parseJ_length {key : Nat → Str} (hinj : Injective key) :
      ∀ (d : Json) (st : Store), Inv key st → NoHandle key d →
        (parseJ key d st).2.entries.length = st.entries.length + containers d
    | .null, st, _, _ => by simp [parseJ, containers]
    | .bool _, st, _, _ => by simp [parseJ, containers]
    | .num _, st, _, _ => by simp [parseJ, containers]
    | .str _, st, _, _ => by simp [parseJ, containers]
    | .arr items, st, hinv, hno => by
      have h1 := (parseL_spec hinj items st hinv hno).1
      have := parseL_length hinj items st hinv hno
      simp only [parseJ, containers, alloc_length hinj h1, this]; omega
    | .obj fields, st, hinv, hno => by
      have h1 := (parseF_spec hinj fields st hinv hno).1
      have := parseF_length hinj fields st hinv hno
      simp only [parseJ, containers, alloc_length hinj h1, this]; omega
  theorem parseL_length {key : Nat → Str} (hinj : Injective key) :
      ∀ (l : JList) (st : Store), Inv key st → NoHandleL key l →
        (parseL key l st).2.entries.length = st.entries.length + containersL l
    | .nil, st, _, _ => by simp [parseL, containersL]
    | .cons h t, st, hinv, hno => by
      have h1 := (parseJ_spec hinj h st hinv hno.1).1
      have a := parseJ_length hinj h st hinv hno.1
      have b := parseL_length hinj t _ h1 hno.2
      simp only [parseL, containersL, b, a]; omega
  theorem parseF_length {key : Nat → Str} (hinj : Injective key) :
      ∀ (l : JFields) (st : Store), Inv key st → NoHandleF key l →
        (parseF key l st).2.entries.length = st.entries.length + containersF l
    | .nil, st, _, _ => by simp [parseF, containersF]
    | .cons _ h t, st, hinv, hno => by
      have h1 := (parseJ_spec hinj h st hinv hno.1).1
      have a := parseJ_length hinj h st hinv hno.1
      have b := parseF_length hinj t _ h1 hno.2
      simp only [parseF, containersF, b, a]; omega
end

mutual
  theorem need_le : ∀ d : Json, need d ≤ 2 * containers d + 1
    | .null => by simp [need]
    | .bool _ => by simp [need]
    | .num _ => by simp [need]
    | .str _ => by simp [need]
    | .arr items => by have := needL_le items; simp only [need, containers]; omega
    | .obj fields => by have := needF_le fields; simp only [need, containers]; omega
  theorem needL_le : ∀ l : JList, needL l ≤ 2 * containersL l + 1
    | .nil => by simp [needL]
    | .cons h t => by
      have := need_le h; have := needL_le t; simp only [needL, containersL]; omega
  theorem needF_le : ∀ l : JFields, needF l ≤ 2 * containersF l + 1
    | .nil => by simp [needF]
    | .cons _ h t => by
      have := need_le h; have := needF_le t; simp only [needF, containersF]; omega
end

theorem handleKey_injective : Injective handleKey := by
  intro i j h
  have := congrArg List.length h
  simpa [handleKey] using this

theorem inv_empty (key : Nat → Str) : Inv key {} := by
  intro k v h; simp [lookup] at h

/-- a text that does not start with `handle:` is not a model handle name -/
theorem not_handle_of_prefix (t : Str) (h : (handlePrefix.isPrefixOf t) = false) :
    ∀ i, t ≠ handleKey i := by
  intro i e
  subst e
  simp [handleKey, handlePrefix] at h

theorem parseU64_digitsAux (radix : Nat) (hr : radix = 10 ∨ radix = 16) (fuel n : Nat)
    (hn : n < radix ^ (fuel + 1)) (h64 : n < u64Bound) :
    parseU64 radix (digitsAux radix (fuel + 1) n []) = some n := by
  have hr1 : 1 < radix := by omega
  have hd : ∀ d, d < radix → digitVal radix (lowerHexDigit d) = some d := by
    intro d hd
    rcases hr with rfl | rfl
    · exact digitVal_lower10 ⟨d, hd⟩
    · exact digitVal_lower16 ⟨d, hd⟩
  have hx : ∀ c ∈ digitsAux radix (fuel + 1) n [], c ≠ '+' := by
    intro c hc
    rcases digitsAux_mem radix (by omega) _ n [] c hc with h | ⟨d, hd, rfl⟩
    · cases h
    · exact (lower_ne_x ⟨d, by omega⟩).2
  have hne := digitsAux_ne_nil radix fuel n []
  have hfold := foldDigits_digitsAux radix hr1 hd (fuel + 1) n [] hn
  unfold parseU64
  cases hds : digitsAux radix (fuel + 1) n [] with
  | nil => exact absurd hds hne
  | cons c r =>
    have hplus : c ≠ '+' := hx c (by rw [hds]; simp)
    rw [hds] at hfold
    simp only [hplus, hfold, foldDigits, if_false, List.isEmpty_cons, Bool.false_eq_true]
    simp [h64]

theorem dec_roundtrip (n : Nat) (h : n < 2 ^ 64) : parseU64 10 (decEncode n) = some n := by
  have h2 : n < 18446744073709551616 := by simpa using h
  exact parseU64_digitsAux 10 (Or.inl rfl) 19 n (by omega) h2

end Duck.Enc
