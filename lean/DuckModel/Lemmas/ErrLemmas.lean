/-
  Lemmas for the malformed-line classes of C08.
-/
import DuckModel.Lemmas.ScriptLemmas

namespace Duck
open Duck.Spec

/-! ### trimming with a visible character on both sides -/

theorem trim_mid (lead : Str) (c : Char) (mid : Str) (d : Char) (rest : Str)
    (hl : ∀ x ∈ lead, isWs x = true) (hc : isWs c = false) (hd : isWs d = false) :
    trim (lead ++ c :: (mid ++ d :: rest)) = c :: (mid ++ d :: trimEnd rest) := by
  have hh : trimEnd (d :: rest) = d :: trimEnd rest := trimEnd_cons_nonws _ _ hd
  rw [trim_lead_cons lead c _ hl hc, trimEnd_append_ne_nil _ _ (by rw [hh]; simp), hh]

theorem trimEnd_append_nonws (a b : Str) (h : ∀ x ∈ a, isWs x = false) :
    trimEnd (a ++ b) = a ++ trimEnd b := by
  induction a with
  | nil => rfl
  | cons c t ih =>
    rw [List.cons_append, trimEnd_cons_nonws c _ (h c (by simp)),
      ih (fun x hx => h x (by simp [hx]))]
    rfl

theorem escChar_cases (c : Char) :
    (∀ x ∈ escChar c, isWs x = false) ∨ (escChar c = [c] ∧ isWs c = true) := by
  by_cases h1 : c = '\\'
  · subst h1; left; decide
  by_cases h2 : c = '"'
  · subst h2; left; decide
  by_cases h3 : c = '\n'
  · subst h3; left; decide
  by_cases h4 : c = '\r'
  · subst h4; left; decide
  by_cases h5 : c = '\t'
  · subst h5; left; decide
  have e : escChar c = [c] := by simp [escChar, h1, h2, h3, h4, h5]
  cases hw : isWs c with
  | true => right; exact ⟨e, rfl⟩
  | false => left; rw [e]; intro x hx; simp at hx; subst hx; exact hw

/-- trimming the end of an escaped text plus white space leaves an escaped text -/
theorem trimEnd_escape (s trail : Str) (ht : ∀ x ∈ trail, isWs x = true) :
    ∃ s1, trimEnd (escape s ++ trail) = escape s1 := by
  induction s with
  | nil => exact ⟨[], by simp [escape_nil, trimEnd_ws trail ht]⟩
  | cons c t ih =>
    obtain ⟨s1, hs1⟩ := ih
    rw [escape_cons, List.append_assoc]
    rcases escChar_cases c with h | ⟨he, hw⟩
    · exact ⟨c :: s1, by rw [trimEnd_append_nonws _ _ h, hs1, escape_cons]⟩
    · rw [he, List.singleton_append, trimEnd_cons_ws c _ hw, hs1]
      by_cases hn : escape s1 = []
      · exact ⟨[], by simp [hn, escape_nil]⟩
      · exact ⟨c :: s1, by simp [hn, escape_cons, he]⟩

/-! ### quotes where a name is expected -/

theorem parseNextValue_quote_err (fl : PVFlags) (h : fl.allowQuotes = false) (k : Nat) (r : Str) :
    parseNextValue fl (spaces k ++ '"' :: r) = .error .invalidQuotesLocation := by
  rw [parseNextValue_spaces, parseNextValue_eq, pvLoop]
  simp [pvStep, h]

theorem parseCommandLine_quote_first (r : Str) :
    parseCommandLine ('"' :: r) = .error .invalidQuotesLocation := by
  rw [parseCommandLine_eq _ (by simp), findLabel_none _ _ (by decide) (by decide)]
  simp only []
  unfold findOutputAndCommand
  have := parseNextValue_quote_err outputFlags rfl 0 r
  simp only [spaces_zero, List.nil_append] at this
  rw [this]

theorem quote_starts_name (lead rest : Str) (hl : ∀ c ∈ lead, isWs c = true) :
    parseLine (lead ++ '"' :: rest) = .error .invalidQuotesLocation := by
  rw [parseLine_of_trim_cmd _ '"' (trimEnd rest) (trim_lead_cons lead '"' rest hl (by decide))
    (by decide) (by decide)]
  exact parseCommandLine_quote_first _

theorem quote_starts_label (rest : Str) :
    parseLine (':' :: '"' :: rest) = .error .invalidQuotesLocation := by
  have e : trim (':' :: '"' :: rest) = ':' :: '"' :: trimEnd rest := by
    have := trim_mid [] ':' [] '"' rest (by simp) (by decide) (by decide)
    simpa using this
  rw [parseLine_of_trim_cmd _ _ _ e (by decide) (by decide),
    parseCommandLine_eq _ (by simp), findLabel]
  have := parseNextValue_quote_err nameFlags rfl 0 (trimEnd rest)
  simp only [spaces_zero, List.nil_append] at this
  simp [this]

theorem quote_starts_command (o : Str) (ho : NameOK o ∧ NoEq o ∧ FirstOK o) (a b : Nat) (rest : Str) :
    parseLine (o ++ spaces a ++ '=' :: spaces b ++ '"' :: rest) = .error .invalidQuotesLocation := by
  obtain ⟨ho1, ho2, ho3⟩ := ho
  obtain ⟨x, o', rfl, hws, hh, _, _, hsp⟩ := nameOK_head ho1
  have hx1 : x ≠ ':' := by simpa [FirstOK] using ho3.1
  have hx2 : x ≠ '!' := by simpa [FirstOK] using ho3.2
  have e0 : x :: o' ++ spaces a ++ '=' :: spaces b ++ '"' :: rest =
      [] ++ x :: ((o' ++ spaces a ++ '=' :: spaces b) ++ '"' :: rest) := by simp
  have e : trim (x :: o' ++ spaces a ++ '=' :: spaces b ++ '"' :: rest) =
      x :: ((o' ++ spaces a ++ '=' :: spaces b) ++ '"' :: trimEnd rest) := by
    rw [e0]; exact trim_mid [] x _ '"' rest (by simp) hws (by decide)
  rw [parseLine_of_trim_cmd _ _ _ e hh hx2, parseCommandLine_eq _ (by simp),
    findLabel_none _ _ hx1 hsp]
  simp only []
  unfold findOutputAndCommand
  have e2 : x :: ((o' ++ spaces a ++ '=' :: spaces b) ++ '"' :: trimEnd rest) =
      (x :: o') ++ (spaces a ++ '=' :: (spaces b ++ '"' :: trimEnd rest)) := by simp
  rw [e2, parseNextValue_output (x :: o') _ ho1 ho2 (bnd_spaces_eq a _)]
  simp only [afterTok_spaces_eq, skipToEquals_spaces, skipToEquals_eq]
  rw [parseNextValue_quote_err nameFlags rfl b _]

/-! ### `!` without a command -/

theorem directive_without_command (lead : Str) (k : Nat) (trail : Str)
    (hl : ∀ c ∈ lead, isWs c = true) (ht : ∀ c ∈ trail, isWs c = true) :
    parseLine (lead ++ '!' :: spaces k ++ trail) = .error .preProcessNoCommandFound := by
  have e : trim (lead ++ '!' :: spaces k ++ trail) = ['!'] := by
    have e0 : lead ++ '!' :: spaces k ++ trail = lead ++ '!' :: (spaces k ++ trail) := by simp
    rw [e0, trim_lead_cons lead '!' _ hl (by decide), trimEnd_ws]
    intro c hc
    rcases List.mem_append.mp hc with hc | hc
    · exact spaces_ws k c hc
    · exact ht c hc
  rw [parseLine_of_trim_bang _ [] e]
  simp [parsePreProcessLine, ppCommand]

/-! ### a backslash inside a name -/

theorem parseNextValue_tok_backslash (fl : PVFlags) (h1 : fl.controlAsChar = false)
    (h2 : fl.allowControl = false) (nm r : Str) (h : ∀ x ∈ nm, TokChar fl x)
    (hq : nm.head? ≠ some '"') :
    parseNextValue fl (nm ++ '\\' :: r) = .error .invalidControlLocation := by
  cases nm with
  | nil =>
    rw [parseNextValue_eq, List.nil_append, pvLoop]
    simp [pvStep, h1, h2]
  | cons c t =>
    rw [parseNextValue_eq, pvLoop_tok fl c t _ h (by simpa using hq), pvLoop]
    simp [pvStep, h1, h2]

/-- the statement `C08_backslash_in_name` with the additional hypothesis that the token is not
    a label whose name starts with a double quote (`:"…`), for which the parser reports
    `invalidQuotesLocation` instead -/
theorem backslash_in_name_fixed (lead p rest : Str) (hl : ∀ c ∈ lead, isWs c = true)
    (hp : p ≠ [] ∧ (∀ c ∈ p, isWs c = false ∧ c ≠ '#' ∧ c ≠ '\\' ∧ c ≠ '=') ∧ p.head? ≠ some '"' ∧
      p.head? ≠ some '!')
    (hfix : ∀ q, p ≠ ':' :: '"' :: q) :
    parseLine (lead ++ p ++ '\\' :: rest) = .error .invalidControlLocation := by
  obtain ⟨hne, hall, hq, hb⟩ := hp
  cases p with
  | nil => exact absurd rfl hne
  | cons x p' =>
    obtain ⟨hws, hh, _, _⟩ := hall x (by simp)
    have hx2 : x ≠ '!' := by simpa using hb
    have hxq : x ≠ '"' := by simpa using hq
    have e0 : lead ++ x :: p' ++ '\\' :: rest = lead ++ x :: (p' ++ '\\' :: rest) := by simp
    rw [e0, parseLine_of_trim_cmd _ _ _ (trim_mid lead x p' '\\' rest hl hws (by decide)) hh hx2,
      parseCommandLine_eq _ (by simp)]
    by_cases hx1 : x = ':'
    · subst hx1
      rw [findLabel]
      have hq' : p'.head? ≠ some '"' := by
        cases p' with
        | nil => simp
        | cons y p'' =>
          intro hy
          simp at hy
          subst hy
          exact hfix p'' rfl
      have := parseNextValue_tok_backslash nameFlags rfl rfl p' (trimEnd rest)
        (fun y hy => by
          obtain ⟨a, b, c, _⟩ := hall y (by simp [hy])
          exact ⟨a, b, c, by simp [nameFlags]⟩) hq'
      simp [this]
    · rw [findLabel_none _ _ hx1 (isWs_false_ne hws).1]
      simp only []
      unfold findOutputAndCommand
      have := parseNextValue_tok_backslash outputFlags rfl rfl (x :: p') (trimEnd rest)
        (fun y hy => by
          obtain ⟨a, b, c, d⟩ := hall y hy
          exact ⟨a, b, c, fun _ => d⟩) (by simpa using hxq)
      rw [List.cons_append] at this
      rw [this]

/-- `C08_backslash_in_name` as stated (without `hfix`) is false in the model: with `lead = []`,
    `p = [':', '"']`, `rest = []` the line is `:"\` and the parser reports the quote first. -/
theorem backslash_in_name_counterexample :
    ¬ (∀ (lead p rest : Str), (∀ c ∈ lead, isWs c = true) →
      (p ≠ [] ∧ (∀ c ∈ p, isWs c = false ∧ c ≠ '#' ∧ c ≠ '\\' ∧ c ≠ '=') ∧ p.head? ≠ some '"' ∧
        p.head? ≠ some '!') →
      parseLine (lead ++ p ++ '\\' :: rest) = .error .invalidControlLocation) := by
  intro h
  have h1 := h [] [':', '"'] [] (by simp) (by decide)
  have h2 := quote_starts_label ['\\']
  simp only [List.nil_append, List.cons_append] at h1
  rw [h2] at h1
  cases h1

/-! ### malformed quoted argument after a well-formed command -/

theorem parseArgsLoop_unterminated (k : Nat) (s : Str) :
    parseArgsLoop false (' ' :: (spaces k ++ '"' :: escape s)) = .error .missingEndQuotes := by
  apply parseArgsLoop_error
  rw [← List.cons_append, ← spaces_succ, parseNextValue_spaces, parseNextValue_eq, pvLoop_open_quote]
  have := pvLoop_quoted s [] []
  simp only [List.append_nil, List.nil_append] at this
  rw [this]
  simp [pvLoop, pvFinish]

theorem parseArgsLoop_bad_escape (k : Nat) (s : Str) (c : Char) (rest : Str)
    (hbad : c ≠ '\\' ∧ c ≠ '"' ∧ c ≠ 'n' ∧ c ≠ 'r' ∧ c ≠ 't' ∧ c ≠ '$') :
    parseArgsLoop false (' ' :: (spaces k ++ '"' :: (escape s ++ '\\' :: c :: rest))) =
      .error .controlWithoutValidValue := by
  obtain ⟨h1, h2, h3, h4, h5, h6⟩ := hbad
  apply parseArgsLoop_error
  rw [← List.cons_append, ← spaces_succ, parseNextValue_spaces, parseNextValue_eq, pvLoop_open_quote,
    pvLoop_quoted]
  simp [pvLoop, pvStep, argFlags, h1, h2, h3, h4, h5, h6]

theorem noEqAhead_junk (k : Nat) (r : Str) : NoEqAhead (spaces k ++ '"' :: r) :=
  noEqAhead_spaces k (noEqAhead_cons '"' r (by decide) (by decide))

/-- shape of the body of an instruction with a command, without comment -/
theorem renderBody_cmd_shape (ch : Choices) (i : ScriptInstr) (hi : InstrOK i)
    (hcmd : i.command ≠ none) (hnc : ch.comment = none) :
    ∃ c x r, i.command = some c ∧
      NameOK c ∧ (i.output = none → NoEq c ∧ (i.label = none → FirstOK c)) ∧
      renderBody ch i = lblPart i.label ch.afterLabel ++ (outPart i.output ch.eqBefore ch.eqAfter ++
        (c ++ renderArgs ch.args 0 (i.args.getD []))) ∧
      (∀ tail, lblPart i.label ch.afterLabel ++ (outPart i.output ch.eqBefore ch.eqAfter ++
        (c ++ tail)) = x :: (r ++ tail)) ∧
      isWs x = false ∧ x ≠ '#' ∧ x ≠ '!' := by
  obtain ⟨label, output, command, args⟩ := i
  obtain ⟨hlab, hout, hcm, _, _⟩ := hi
  simp only at hlab hout hcm hcmd ⊢
  cases command with
  | none => exact absurd rfl hcmd
  | some c =>
    obtain ⟨hc1, hc2⟩ := hcm c rfl
    have hbody : renderBody ch ⟨label, output, some c, args⟩ =
        lblPart label ch.afterLabel ++ (outPart output ch.eqBefore ch.eqAfter ++
          (c ++ renderArgs ch.args 0 (args.getD []))) := by
      cases label <;> cases output <;>
        simp [renderBody, renderCore, lblPart, outPart, hnc, renderComment]
    have hfirst : ∃ x r, (∀ tail, lblPart label ch.afterLabel ++
        (outPart output ch.eqBefore ch.eqAfter ++ (c ++ tail)) = x :: (r ++ tail)) ∧
        isWs x = false ∧ x ≠ '#' ∧ x ≠ '!' := by
      cases label with
      | some l =>
        obtain ⟨n, rfl, _⟩ := hlab l rfl
        exact ⟨':', n ++ spaces (ch.afterLabel + 1) ++ (outPart output ch.eqBefore ch.eqAfter ++ c),
          by intro tail; simp [lblPart], by decide, by decide, by decide⟩
      | none =>
        cases output with
        | some o =>
          obtain ⟨ho1, _, ho3⟩ := hout o rfl
          obtain ⟨x, t, rfl, hws, hh, _⟩ := nameOK_head ho1
          have := (ho3 rfl).2
          exact ⟨x, t ++ (spaces ch.eqBefore ++ '=' :: spaces ch.eqAfter) ++ c,
            by intro tail; simp [lblPart, outPart], hws, hh, by simpa using this⟩
        | none =>
          obtain ⟨x, t, rfl, hws, hh, _⟩ := nameOK_head hc1
          have := ((hc2 rfl).2 rfl).2
          exact ⟨x, t, by intro tail; simp [lblPart, outPart], hws, hh, by simpa using this⟩
    obtain ⟨x, r, h1, h2, h3, h4⟩ := hfirst
    exact ⟨c, x, r, rfl, hc1, hc2, hbody, h1, h2, h3, h4⟩

theorem unterminated_quote (ch : Choices) (i : ScriptInstr) (hi : InstrOK i) (hc : ChoicesOK ch)
    (hcmd : i.command ≠ none) (hnc : ch.comment = none) (k : Nat) (s : Str) :
    parseLine (ch.lead ++ renderBody ch i ++ spaces (k + 1) ++ '"' :: escape s ++ ch.trail) =
      .error .missingEndQuotes := by
  obtain ⟨c, x, r, hic, hc1, hc2, hbody, hshape, hws, hh, hb⟩ :=
    renderBody_cmd_shape ch i hi hcmd hnc
  have hlead : ∀ c ∈ ch.lead, isWs c = true := fun c h => (hc.lead c h).1
  have htrail : ∀ c ∈ ch.trail, isWs c = true := fun c h => (hc.trail c h).1
  obtain ⟨s1, hs1⟩ := trimEnd_escape s ch.trail htrail
  have e0 : ch.lead ++ renderBody ch i ++ spaces (k + 1) ++ '"' :: escape s ++ ch.trail =
      ch.lead ++ x :: ((r ++ renderArgs ch.args 0 (i.args.getD []) ++ spaces (k + 1)) ++
        '"' :: (escape s ++ ch.trail)) := by
    rw [hbody, hshape]; simp
  rw [e0, parseLine_of_trim_cmd _ _ _ (trim_mid ch.lead x _ '"' _ hlead hws (by decide)) hh hb, hs1]
  have e1 : x :: ((r ++ renderArgs ch.args 0 (i.args.getD []) ++ spaces (k + 1)) ++ '"' :: escape s1) =
      lblPart i.label ch.afterLabel ++ (outPart i.output ch.eqBefore ch.eqAfter ++
        (c ++ (renderArgs ch.args 0 (i.args.getD []) ++ ' ' :: (spaces k ++ '"' :: escape s1)))) := by
    rw [hshape]; simp [spaces_succ]
  rw [e1]
  exact parseCommandLine_cmd_err _ _ _ _ _ c _ _ _ _ hi.label hi.output ⟨hc1, hc2⟩
    (noEqAhead_junk k _) (parseArgsLoop_unterminated k s1)

theorem bad_escape (ch : Choices) (i : ScriptInstr) (hi : InstrOK i) (hc : ChoicesOK ch)
    (hcmd : i.command ≠ none) (hnc : ch.comment = none) (k : Nat) (s : Str) (c : Char) (rest : Str)
    (hbad : c ≠ '\\' ∧ c ≠ '"' ∧ c ≠ 'n' ∧ c ≠ 'r' ∧ c ≠ 't' ∧ c ≠ '$') (hws : isWs c = false) :
    parseLine (ch.lead ++ renderBody ch i ++ spaces (k + 1) ++ '"' :: escape s ++ '\\' :: c :: rest) =
      .error .controlWithoutValidValue := by
  obtain ⟨cm, x, r, hic, hc1, hc2, hbody, hshape, hxws, hh, hb⟩ :=
    renderBody_cmd_shape ch i hi hcmd hnc
  have hlead : ∀ c ∈ ch.lead, isWs c = true := fun c h => (hc.lead c h).1
  have e0 : ch.lead ++ renderBody ch i ++ spaces (k + 1) ++ '"' :: escape s ++ '\\' :: c :: rest =
      ch.lead ++ x :: ((r ++ renderArgs ch.args 0 (i.args.getD []) ++ spaces (k + 1) ++
        '"' :: escape s ++ ['\\']) ++ c :: rest) := by
    rw [hbody, hshape]; simp
  rw [e0, parseLine_of_trim_cmd _ _ _ (trim_mid ch.lead x _ c _ hlead hxws hws) hh hb]
  have e1 : x :: ((r ++ renderArgs ch.args 0 (i.args.getD []) ++ spaces (k + 1) ++
        '"' :: escape s ++ ['\\']) ++ c :: trimEnd rest) =
      lblPart i.label ch.afterLabel ++ (outPart i.output ch.eqBefore ch.eqAfter ++
        (cm ++ (renderArgs ch.args 0 (i.args.getD []) ++
          ' ' :: (spaces k ++ '"' :: (escape s ++ '\\' :: c :: trimEnd rest))))) := by
    rw [hshape]; simp [spaces_succ]
  rw [e1]
  exact parseCommandLine_cmd_err _ _ _ _ _ cm _ _ _ _ hi.label hi.output ⟨hc1, hc2⟩
    (noEqAhead_junk k _) (parseArgsLoop_bad_escape k s c _ hbad)

end Duck
