/-
  Helper lemmas for property C19 (the script-command wrapper `aliasRun`).
-/
import DuckModel.Sdk.AliasCmd
import DuckModel.Generated.Scripts

namespace Duck.Alias
open Duck

/-! ### lookups in the association list -/

theorem get_filter (m : Vars) (p : Str → Bool) (x : Str) :
    Vars.get (m.filter fun q => p q.1) x = if p x = true then Vars.get m x else none := by
  induction m with
  | nil => simp [Vars.get]
  | cons q rest ih =>
    obtain ⟨k, v⟩ := q
    by_cases hk : p k = true
    · have hf : ((k, v) :: rest).filter (fun q => p q.1) = (k, v) :: rest.filter (fun q => p q.1) := by
        simp [hk]
      rw [hf]
      by_cases hx : k = x
      · subst hx; simp [Vars.get, hk]
      · simp [Vars.get, hx, ih]
    · have hf : ((k, v) :: rest).filter (fun q => p q.1) = rest.filter (fun q => p q.1) := by
        simp [hk]
      rw [hf, ih]
      by_cases hx : k = x
      · subst hx; simp [hk]
      · simp [Vars.get, hx]

theorem get_erase (m : Vars) (k x : Str) :
    Vars.get (Vars.erase m k) x = if x = k then none else Vars.get m x := by
  have h := get_filter m (fun y => decide (y ≠ k)) x
  have e : Vars.erase m k = m.filter (fun q => (fun y => decide (y ≠ k)) q.1) := by
    simp [Vars.erase]
  rw [e, h]
  by_cases hx : x = k <;> simp [hx]

theorem get_set (m : Vars) (k v x : Str) :
    Vars.get (Vars.set m k v) x = if x = k then some v else Vars.get m x := by
  by_cases hx : x = k
  · subst hx; simp [Vars.set, Vars.get]
  · have hx' : ¬ k = x := fun h => hx h.symm
    simp [Vars.set, Vars.get, hx, hx', get_erase]

theorem get_clear (scope : Str) (m : Vars) (x : Str) :
    Vars.get (clear scope m) x = if underPrefix scope x = true then none else Vars.get m x := by
  have h := get_filter m (fun y => !underPrefix scope y) x
  have e : clear scope m = m.filter (fun q => (fun y => !underPrefix scope y) q.1) := rfl
  rw [e, h]
  cases underPrefix scope x <;> simp

/-! ### keys under the scope prefix -/

theorem underPrefix_append (scope rest : Str) :
    underPrefix scope (scope ++ rest) = sep.isPrefixOf rest := by
  unfold underPrefix scopePrefix
  rw [Bool.eq_iff_iff]
  simp only [List.isPrefixOf_iff_prefix]
  exact List.prefix_append_right_inj scope

theorem underPrefix_argKey (scope : Str) (i : Nat) : underPrefix scope (argKey scope i) = true := by
  unfold argKey
  rw [underPrefix_append]
  simp [sep, List.isPrefixOf]

theorem underPrefix_argsKey (scope : Str) : underPrefix scope (argsKey scope) = true := by
  unfold argsKey
  rw [underPrefix_append]
  simp [sep, List.isPrefixOf]

theorem get_publishArgs (scope : Str) (args : List Str) (i : Nat) (m : Vars) (x : Str)
    (hx : underPrefix scope x = false) :
    Vars.get (publishArgs scope i args m) x = Vars.get m x := by
  induction args generalizing i m with
  | nil => rfl
  | cons a rest ih =>
    simp only [publishArgs]
    rw [ih]
    rw [get_set]
    have : x ≠ argKey scope (i + 1) := by
      intro h; rw [h, underPrefix_argKey] at hx; cases hx
    simp [this]

/-- publication writes only keys under the prefix -/
theorem get_publish {σ : Type} (H : HandleOps σ) (scope : Str) (args : List Str) (m : Vars) (st : σ)
    (x : Str) (hx : underPrefix scope x = false) :
    Vars.get (publish H scope args m st).2.1 x = Vars.get m x := by
  unfold publish
  by_cases he : args.isEmpty = true
  · simp [he]
  · simp only [he]
    have : x ≠ argsKey scope := by
      intro h; rw [h, underPrefix_argsKey] at hx; cases hx
    simp only [Bool.false_eq_true, if_false]
    rw [get_set]
    simp [this, get_publishArgs scope args 0 m x hx]

/-! ### unique keys and the variable count -/

def keys (m : Vars) : List Str := m.map Prod.fst

/-- representation invariant of a `HashMap`: no key twice -/
def NK (m : Vars) : Prop := (keys m).Nodup

theorem mem_keys (m : Vars) (x : Str) : x ∈ keys m ↔ Vars.get m x ≠ none := by
  induction m with
  | nil => simp [keys, Vars.get]
  | cons q rest ih =>
    obtain ⟨k, v⟩ := q
    by_cases hx : k = x
    · subst hx; simp [keys, Vars.get]
    · have hx' : ¬ x = k := fun h => hx h.symm
      have ih' : x ∈ List.map Prod.fst rest ↔ Vars.get rest x ≠ none := ih
      simp only [keys, List.map_cons, List.mem_cons, Vars.get, hx, if_false, hx', false_or]
      exact ih'

theorem nk_nil : NK [] := List.nodup_nil

theorem nk_filter {m : Vars} (h : NK m) (f : Str × Str → Bool) : NK (m.filter f) :=
  List.Nodup.sublist ((List.filter_sublist (l := m)).map Prod.fst) h

theorem nk_erase {m : Vars} (h : NK m) (k : Str) : NK (Vars.erase m k) := nk_filter h _

theorem nk_clear {m : Vars} (h : NK m) (scope : Str) : NK (clear scope m) := nk_filter h _

theorem nk_set {m : Vars} (h : NK m) (k v : Str) : NK (Vars.set m k v) := by
  have h1 : NK (Vars.erase m k) := nk_erase h k
  have h2 : k ∉ keys (Vars.erase m k) := by
    rw [mem_keys, get_erase]; simp
  exact List.nodup_cons.mpr ⟨h2, h1⟩

theorem nk_updateOutput {m : Vars} (h : NK m) (out : Option Str) (v : Option Str) :
    NK (Vars.updateOutput m out v) := by
  cases out with
  | none => exact h
  | some o => cases v with
    | some w => exact nk_set h o w
    | none => exact nk_erase h o

theorem length_eq_keys (m : Vars) : m.length = (keys m).length := by simp [keys]

/-- every key of `a` is a key of `b` ⇒ `a` is not longer -/
theorem length_le_of_keys {a b : Vars} (ha : NK a)
    (h : ∀ x, Vars.get a x ≠ none → Vars.get b x ≠ none) : a.length ≤ b.length := by
  rw [length_eq_keys a, length_eq_keys b]
  apply List.Nodup.length_le_of_subset ha
  intro x hx
  rw [mem_keys] at hx ⊢
  exact h x hx

/-- … and if `b` has one more key, `a` is strictly shorter -/
theorem length_lt_of_keys {a b : Vars} (ha : NK a) (k : Str)
    (h : ∀ x, Vars.get a x ≠ none → Vars.get b x ≠ none)
    (hk : Vars.get a k = none) (hk' : Vars.get b k ≠ none) : a.length < b.length := by
  have hnk : (k :: keys a).Nodup := by
    refine List.nodup_cons.mpr ⟨?_, ha⟩
    rw [mem_keys]; simp [hk]
  have hle : (k :: keys a).length ≤ (keys b).length := by
    apply List.Nodup.length_le_of_subset hnk
    intro x hx
    rw [List.mem_cons] at hx
    rcases hx with rfl | hx
    · rw [mem_keys]; exact hk'
    · rw [mem_keys] at hx ⊢; exact h x hx
  rw [length_eq_keys a, length_eq_keys b]
  have : (k :: keys a).length = (keys a).length + 1 := rfl
  omega

theorem length_eq_of_get_eq {a b : Vars} (ha : NK a) (hb : NK b)
    (h : ∀ x, Vars.get a x = Vars.get b x) : a.length = b.length := by
  apply Nat.le_antisymm
  · exact length_le_of_keys ha (fun x hx => by rw [← h x]; exact hx)
  · exact length_le_of_keys hb (fun x hx => by rw [h x]; exact hx)

theorem nk_publishArgs (scope : Str) (args : List Str) (i : Nat) {m : Vars} (h : NK m) :
    NK (publishArgs scope i args m) := by
  induction args generalizing i m with
  | nil => exact h
  | cons a rest ih => exact ih (i + 1) (nk_set h _ _)

theorem nk_publish {σ : Type} (H : HandleOps σ) (scope : Str) (args : List Str) {m : Vars} (st : σ)
    (h : NK m) : NK (publish H scope args m st).2.1 := by
  unfold publish
  by_cases he : args.isEmpty = true
  · simp [he, h]
  · simp only [he, Bool.false_eq_true, if_false]
    exact nk_set (nk_publishArgs scope args 0 h) _ _

/-! ### a body that is a parsed script over a command semantics -/

/-- every registered command writes variables only under the prefix (for the native callees of the
    scripts this is the TRUSTED part of C19; `for`/`end` write the loop variable, which the
    per-script facts show to be under the prefix) -/
def SemFrame {σ : Type} (scope : Str) (sem : CmdSem σ) : Prop :=
  ∀ name args out line vars s r vars' s', sem name args out line vars s = some (r, vars', s') →
    ∀ k, underPrefix scope k = false → Vars.get vars' k = Vars.get vars k

/-- every output variable written in the script is under the prefix -/
def OutputsUnder (scope : Str) (is : List Instruction) : Prop :=
  ∀ i ∈ is, ∀ si, i.ty = .script si → ∀ o, si.output = some o → underPrefix scope o = true

theorem runInstruction_frame {σ : Type} {scope : Str} {sem : CmdSem σ} (hsem : SemFrame scope sem)
    (vars : Vars) (s : σ) (instr : Instruction) (line : Nat) (k : Str)
    (hk : underPrefix scope k = false) :
    Vars.get (runInstruction sem vars s instr line).2.2.1 k = Vars.get vars k := by
  unfold runInstruction
  cases hty : instr.ty with
  | empty => rfl
  | preProcess c a => rfl
  | script si =>
    simp only
    cases hc : si.command with
    | none => rfl
    | some c =>
      simp only
      cases hs : sem c (bind vars si.args) si.output line vars s with
      | none => rfl
      | some res =>
        obtain ⟨r, vars', s'⟩ := res
        exact hsem _ _ _ _ _ _ _ _ _ hs k hk

theorem get_updateOutput_frame (scope : Str) (m : Vars) (out : Option Str) (v : Option Str) (k : Str)
    (hout : ∀ o, out = some o → underPrefix scope o = true) (hk : underPrefix scope k = false) :
    Vars.get (Vars.updateOutput m out v) k = Vars.get m k := by
  cases out with
  | none => rfl
  | some o =>
    have hne : k ≠ o := by
      intro h; rw [h, hout o rfl] at hk; cases hk
    cases v with
    | some w => simp [Vars.updateOutput, get_set, hne]
    | none => simp [Vars.updateOutput, get_erase, hne]

theorem evalInstructions_frame {σ : Type} {scope : Str} {sem : CmdSem σ} {is : List Instruction}
    (halt : Nat → Bool) (hsem : SemFrame scope sem) (hout : OutputsUnder scope is) :
    ∀ (fuel line poll : Nat) (fo : Option Str) (vars : Vars) (s : σ) (res : BodyResult × Vars × σ),
      evalInstructions sem halt is fuel line poll fo vars s = some res →
      ∀ k, underPrefix scope k = false → Vars.get res.2.1 k = Vars.get vars k := by
  intro fuel
  induction fuel with
  | zero => intro line poll fo vars s res h; simp [evalInstructions] at h
  | succ fuel ih =>
    intro line poll fo vars s res h k hk
    unfold evalInstructions at h
    cases hh : halt poll with
    | true => rw [hh] at h; simp only [if_true, Option.some.injEq] at h; subst h; rfl
    | false =>
    rw [hh] at h
    simp only [Bool.false_eq_true, if_false] at h
    cases hl : is[line]? with
    | none => rw [hl] at h; simp only [Option.some.injEq] at h; subst h; rfl
    | some instr =>
      rw [hl] at h
      simp only at h
      have hmem : instr ∈ is := List.mem_of_getElem? hl
      have hrun := runInstruction_frame hsem vars s instr line k hk
      cases hty : instr.ty with
      | empty => rw [hty] at h; exact ih _ _ _ _ _ _ h k hk
      | preProcess c a => rw [hty] at h; exact ih _ _ _ _ _ _ h k hk
      | script si =>
        rw [hty] at h
        simp only at h
        cases hr : (runInstruction sem vars s instr line).1 with
        | exit v => rw [hr] at h; simp only [Option.some.injEq] at h; subst h; exact hrun
        | error m => rw [hr] at h; simp only [Option.some.injEq] at h; subst h; exact hrun
        | crash m => rw [hr] at h; simp only [Option.some.injEq] at h; subst h; exact hrun
        | goTo v g =>
          rw [hr] at h
          cases g with
          | label l => simp only [Option.some.injEq] at h; subst h; exact hrun
          | line n => simp only at h; rw [ih _ _ _ _ _ _ h k hk]; exact hrun
        | «continue» v =>
          rw [hr] at h
          simp only at h
          rw [ih _ _ _ _ _ _ h k hk,
            get_updateOutput_frame scope _ _ _ k (fun o ho => hout instr hmem si hty o ho) hk]
          exact hrun

/-! ### the concrete handle table is lawful -/

theorem le_maxLen (l : List (Str × List Str)) (p : Str × List Str) (hp : p ∈ l) :
    p.1.length ≤ maxLen l := by
  induction l with
  | nil => cases hp
  | cons q rest ih =>
    obtain ⟨k, v⟩ := q
    rw [List.mem_cons] at hp
    rcases hp with rfl | hp
    · simp only [maxLen]; omega
    · have := ih hp; simp only [maxLen]; omega

theorem freshName_not_live (l : List (Str × List Str)) :
    (l.any fun p => p.1 == freshName l) = false := by
  rw [Bool.eq_false_iff]
  intro h
  rw [List.any_eq_true] at h
  obtain ⟨p, hp, he⟩ := h
  have hlen := le_maxLen l p hp
  have : p.1 = freshName l := by simpa using he
  rw [this] at hlen
  simp [freshName] at hlen
  omega

theorem storeOps_lawful : storeOps.Lawful where
  live_put s v k := by
    simp only [storeOps, List.any_cons]
    rw [Bool.or_comm]
    have : (freshName s.handles == k) = (k == freshName s.handles) := by
      rw [Bool.eq_iff_iff]; simp only [beq_iff_eq]; exact eq_comm
    rw [this]
  fresh_put s v := freshName_not_live s.handles
  live_remove s h k := by
    simp only [storeOps]
    rw [Bool.eq_iff_iff]
    simp only [List.any_eq_true, List.mem_filter, Bool.and_eq_true, bne_iff_ne, ne_eq, beq_iff_eq]
    constructor
    · rintro ⟨p, ⟨hp, hne⟩, he⟩
      exact ⟨⟨p, hp, he⟩, by rw [← he]; exact hne⟩
    · rintro ⟨⟨p, hp, he⟩, hne⟩
      exact ⟨p, ⟨hp, by rw [he]; exact hne⟩, he⟩
  live_setCtx s c k := rfl
  ctx_setCtx s c := rfl
  ctx_remove s h := rfl

variable {σ : Type}

/-! ### `aliasRun` in one equation -/

theorem aliasRun_few (H : HandleOps σ) (amount : Nat) (body : Vars → σ → BodyResult × Vars × σ)
    (scope : Str) (args : List Str) (vars : Vars) (st : σ) (h : args.length < amount) :
    aliasRun H amount body scope args vars st = (.error invalidArgsMsg, vars, st) := by
  simp [aliasRun, h]

theorem aliasRun_run (H : HandleOps σ) (amount : Nat) (body : Vars → σ → BodyResult × Vars × σ)
    (scope : Str) (args : List Str) (vars : Vars) (st : σ) (h : ¬ args.length < amount) :
    aliasRun H amount body scope args vars st =
      (let p := publish H scope args vars (H.setCtx st scope)
       let b := body p.2.1 p.2.2
       let c := cleanup H scope (H.getCtx st) p.1 b.2.1 b.2.2
       (if vars.length < c.1.length then .crash (leakMsg (c.1.length - vars.length)) else resultOf b.1,
        c.1, c.2)) := by
  unfold aliasRun
  simp only [h, if_false]
  split <;> rfl

/-! ### option/bool plumbing -/

theorem bne_eq_not_some_beq (k h : Str) : (k != h) = !(some h == some k) := by
  by_cases e : k = h
  · subst e; simp
  · have h1 : (k == h) = false := by simpa using e
    have h2 : (h == k) = false := by simpa using fun x : h = k => e x.symm
    simp [bne, h1, h2]

theorem beq_eq_some_beq (k h : Str) : (k == h) = (some h == some k) := by
  by_cases e : k = h
  · subst e; simp
  · have h1 : (k == h) = false := by simpa using e
    have h2 : (h == k) = false := by simpa using fun x : h = k => e x.symm
    simp [h1, h2]

/-! ### the per-script checker over the regenerated table -/

/-- Callees without any effect on variables other than through their output variable (which the
    script names, see `C19_scripts_prefix_discipline`) or - `for`/`end` - the loop variable.
    Their purity is TRUSTED (exercised by the harness on the real commands), not proved:
    flow control and conditions; pure values; handle allocation / mutation / release; file
    system, network and console effects. -/
def noVariableEffect : List Str :=
  (["for", "end", "if", "elif", "else", "while", "not", "trigger_error",
    "set", "equals", "calc", "strlen", "substring", "contains", "starts_with", "replace", "lowercase",
    "is_empty", "is_defined", "is_array", "array_length", "map_size", "set_size", "map_get",
    "os_family", "os_name", "os_release", "os_version", "is_file", "dirname", "basename", "digest",
    "base64_encode", "base64_decode", "map_to_properties",
    "array", "set_new", "map_keys", "env_to_map", "glob_array",
    "array_push", "array_pop", "set_put", "release",
    "echo", "cp", "chmod", "http_client"] : List String).map String.toList

/-- the documented exceptions: `unset` exists to remove the CALLER's variables whose names it is
    given, and does so through `set_by_name` -/
def documentedEffect (s : Generated.ScriptCmd) (callee : Str) : Bool :=
  s.scopeName == "scope::unset".toList && callee == "set_by_name".toList

/-- another script command of the table (covered by the same facts) -/
def isScriptCommand (callee : Str) : Bool :=
  Generated.scripts.any fun s => s.name == callee || s.aliases.contains callee

def calleeOK (s : Generated.ScriptCmd) (callee : Str) : Bool :=
  noVariableEffect.contains callee || isScriptCommand callee || documentedEffect s callee

/-- all three facts for one entry, in one evaluation of the parser -/
def scriptOK (s : Generated.ScriptCmd) : Bool :=
  match parseText s.script with
  | .ok is => (writtenVars is).all (underPrefix s.scopeName) && (callees is).all (calleeOK s)
  | .error _ => false

theorem scripts_all_ok : Generated.scripts.all scriptOK = true := by decide +kernel

theorem scriptOK_of_mem {s : Generated.ScriptCmd} (hs : s ∈ Generated.scripts) : scriptOK s = true :=
  List.all_eq_true.mp scripts_all_ok s hs

end Duck.Alias
