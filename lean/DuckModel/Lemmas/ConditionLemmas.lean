/-
  Helper lemmas about the condition evaluator model (used by Props/C06.lean).
-/
import DuckModel.Sdk.Condition
import DuckModel.Spec.Cond

namespace Duck
open Duck.Spec

/-! ### truthiness table -/

theorem isTrue_eq_truthy (v : Option Str) : isTrue v = truthy v := by
  cases v with
  | none => rfl
  | some s =>
    simp only [isTrue, truthy, Generated.falsyWords, List.contains_cons, List.contains_nil,
      Bool.or_false]
    generalize asciiLower s = l
    rw [Bool.eq_iff_iff]
    simp [and_assoc]

/-! ### keyword tokens -/

theorem tokOpen_ne_tokClose : tokOpen ≠ tokClose := by decide
theorem tokAnd_ne_tokOpen : tokAnd ≠ tokOpen := by decide
theorem tokAnd_ne_tokClose : tokAnd ≠ tokClose := by decide
theorem tokOr_ne_tokOpen : tokOr ≠ tokOpen := by decide
theorem tokOr_ne_tokClose : tokOr ≠ tokClose := by decide
theorem tokOr_ne_tokAnd : tokOr ≠ tokAnd := by decide

theorem Atom.tokens_val (s : Str) : (Atom.val s).tokens = [s] := by
  simp only [Atom.tokens]
theorem Atom.tokens_group (c : Cond) :
    (Atom.group c).tokens = tokOpen :: (c.tokens ++ [tokClose]) := by
  simp only [Atom.tokens]; rfl
theorem Cond.tokens_empty : Cond.empty.tokens = [] := by
  simp only [Cond.tokens]
theorem Cond.tokens_conj (c : Conj) : (Cond.conj c).tokens = c.tokens := by
  simp only [Cond.tokens]
theorem Conj.tokens_one (d : Disj) : (Conj.one d).tokens = d.tokens := by
  simp only [Conj.tokens]
theorem Conj.tokens_cons (d : Disj) (r : Conj) :
    (Conj.cons d r).tokens = d.tokens ++ tokAnd :: r.tokens := by
  simp only [Conj.tokens]; rfl
theorem Disj.tokens_one (a : Atom) : (Disj.one a).tokens = a.tokens := by
  simp only [Disj.tokens]
theorem Disj.tokens_cons (a : Atom) (r : Disj) :
    (Disj.cons a r).tokens = a.tokens ++ tokOr :: r.tokens := by
  simp only [Disj.tokens]; rfl

theorem ValOK.unfold {s : Str} (h : ValOK s) :
    s ≠ tokAnd ∧ s ≠ tokOr ∧ s ≠ tokOpen ∧ s ≠ tokClose := h

/-! ### balanced token lists and group scanning -/

inductive Bal : List Str → Prop
  | nil : Bal []
  | tok (s : Str) : s ≠ tokOpen → s ≠ tokClose → Bal [s]
  | paren {ts : List Str} : Bal ts → Bal (tokOpen :: (ts ++ [tokClose]))
  | app {as bs : List Str} : Bal as → Bal bs → Bal (as ++ bs)

mutual
  theorem Atom.bal : ∀ (a : Atom), a.OK → Bal a.tokens
    | .val s, h => by
      rw [Atom.tokens_val]
      simp only [Atom.OK] at h
      exact Bal.tok s (ValOK.unfold h).2.2.1 (ValOK.unfold h).2.2.2
    | .group c, h => by
      rw [Atom.tokens_group]
      simp only [Atom.OK] at h
      exact Bal.paren (Cond.bal c h)
  theorem Cond.bal : ∀ (c : Cond), c.OK → Bal c.tokens
    | .empty, _ => by rw [Cond.tokens_empty]; exact Bal.nil
    | .conj c, h => by
      rw [Cond.tokens_conj]
      simp only [Cond.OK] at h
      exact Conj.bal c h
  theorem Conj.bal : ∀ (c : Conj), c.OK → Bal c.tokens
    | .one d, h => by
      rw [Conj.tokens_one]
      simp only [Conj.OK] at h
      exact Disj.bal d h
    | .cons d r, h => by
      rw [Conj.tokens_cons]
      simp only [Conj.OK] at h
      exact Bal.app (Disj.bal d h.1)
        (Bal.app (Bal.tok tokAnd tokAnd_ne_tokOpen tokAnd_ne_tokClose) (Conj.bal r h.2))
  theorem Disj.bal : ∀ (d : Disj), d.OK → Bal d.tokens
    | .one a, h => by
      rw [Disj.tokens_one]
      simp only [Disj.OK] at h
      exact Atom.bal a h
    | .cons a r, h => by
      rw [Disj.tokens_cons]
      simp only [Disj.OK] at h
      exact Bal.app (Atom.bal a h.1)
        (Bal.app (Bal.tok tokOr tokOr_ne_tokOpen tokOr_ne_tokClose) (Disj.bal r h.2))
end

theorem cLoop_cons (ev : List Str → Except CondErr Bool) (st : CSt) (a : Str) (rest : List Str) :
    cLoop ev st (a :: rest) =
      match cStep ev st a with
      | .cont st' => cLoop ev st' rest
      | .ret b => .ok b
      | .err e => .error e := by
  simp only [cLoop]
  rfl

/-- scanning a balanced token list inside an open group only appends it to `block` -/
theorem scan_bal (ev : List Str → Except CondErr Bool) {ts : List Str} (hb : Bal ts) :
    ∀ (k : Nat) (b : List Str) (t p : Option Bool) (f : FoundToken) (rest : List Str),
      cLoop ev ⟨true, k + 1, b, t, p, f⟩ (ts ++ rest) =
        cLoop ev ⟨true, k + 1, b ++ ts, t, p, f⟩ rest := by
  induction hb with
  | nil => intros; simp
  | tok s h1 h2 =>
    intro k b t p f rest
    simp [cLoop_cons, cStep, h1, h2]
  | @paren ts _ ih =>
    intro k b t p f rest
    have h3 := tokOpen_ne_tokClose
    rw [List.cons_append, cLoop_cons]
    simp only [cStep, if_true, Nat.succ_ne_zero, if_false]
    rw [List.append_assoc, ih (k + 1)]
    rw [List.cons_append, List.nil_append, cLoop_cons]
    simp [cStep, h3.symm]
  | @app as bs _ _ iha ihb =>
    intro k b t p f rest
    rw [List.append_assoc, iha, ihb, List.append_assoc]

/-! ### top-level runs -/

/-- the accumulated value of the current disjunction seen so far -/
def accOf (f : FoundToken) (p : Option Bool) : Bool :=
  match f with
  | .or => p.getD false
  | _ => false

section Run
variable (ev : List Str → Except CondErr Bool) (n : Nat)
  (hev : ∀ c : Cond, c.OK → c.tokens.length < n → ev c.tokens = .ok c.eval)
include hev

theorem atom_run (a : Atom) (hok : a.OK) (hlen : a.tokens.length ≤ n)
    (t p : Option Bool) (f : FoundToken) (rest : List Str) (hf : f ≠ .value) :
    cLoop ev ⟨false, 0, [], t, p, f⟩ (a.tokens ++ rest) =
      cLoop ev ⟨false, 0, [], t, some (a.eval || accOf f p), .value⟩ rest := by
  cases a with
  | val s =>
    simp only [Atom.OK] at hok
    obtain ⟨h1, h2, h3, h4⟩ := ValOK.unfold hok
    rw [Atom.tokens_val, List.cons_append, List.nil_append, cLoop_cons]
    simp only [Atom.eval, ← isTrue_eq_truthy]
    cases f <;> simp [cStep, foldAtom, accOf, h1, h2, h3, h4] at hf ⊢
  | group c =>
    simp only [Atom.OK] at hok
    rw [Atom.tokens_group] at hlen ⊢
    simp only [List.length_cons, List.length_append, List.length_nil] at hlen
    have hc := hev c hok (by omega)
    have h3 := tokOpen_ne_tokClose
    rw [List.cons_append, cLoop_cons]
    simp only [cStep, if_true]
    rw [List.append_assoc, scan_bal ev (Cond.bal c hok) 0]
    rw [List.cons_append, List.nil_append, cLoop_cons]
    simp only [Atom.eval]
    cases f <;> simp [cStep, foldAtom, accOf, h3.symm, hc] at hf ⊢

theorem disj_run : ∀ (d : Disj), d.OK → d.tokens.length ≤ n →
    ∀ (t p : Option Bool) (f : FoundToken) (rest : List Str), f ≠ .value →
      cLoop ev ⟨false, 0, [], t, p, f⟩ (d.tokens ++ rest) =
        cLoop ev ⟨false, 0, [], t, some (d.eval || accOf f p), .value⟩ rest
  | .one a, hok, hlen, t, p, f, rest, hf => by
    simp only [Disj.OK] at hok
    rw [Disj.tokens_one] at hlen ⊢
    simp only [Disj.eval]
    exact atom_run ev n hev a hok hlen t p f rest hf
  | .cons a r, hok, hlen, t, p, f, rest, hf => by
    simp only [Disj.OK] at hok
    rw [Disj.tokens_cons] at hlen ⊢
    simp only [List.length_cons, List.length_append] at hlen
    rw [List.append_assoc, atom_run ev n hev a hok.1 (by omega) t p f _ hf]
    rw [List.cons_append, cLoop_cons]
    simp only [cStep, tokOr_ne_tokOpen, tokOr_ne_tokClose, tokOr_ne_tokAnd, if_false, if_true,
      Bool.false_eq_true]
    rw [disj_run r hok.2 (by omega) t _ .or rest (by simp)]
    simp only [Disj.eval, accOf, Option.getD_some]
    cases a.eval <;> cases r.eval <;> cases accOf f p <;> rfl

theorem conj_run : ∀ (c : Conj), c.OK → c.tokens.length ≤ n →
    ∀ (t p : Option Bool) (f : FoundToken), (f = .none ∨ f = .and) →
      cLoop ev ⟨false, 0, [], t, p, f⟩ c.tokens = .ok (c.eval && t.getD true)
  | .one d, hok, hlen, t, p, f, hf => by
    simp only [Conj.OK] at hok
    rw [Conj.tokens_one] at hlen ⊢
    have hacc : accOf f p = false := by rcases hf with rfl | rfl <;> rfl
    have hf' : f ≠ .value := by rcases hf with rfl | rfl <;> simp
    have := disj_run ev n hev d hok hlen t p f [] hf'
    rw [List.append_nil] at this
    rw [this, hacc]
    simp [cLoop, Conj.eval]
  | .cons d r, hok, hlen, t, p, f, hf => by
    simp only [Conj.OK] at hok
    rw [Conj.tokens_cons] at hlen ⊢
    simp only [List.length_cons, List.length_append] at hlen
    have hacc : accOf f p = false := by rcases hf with rfl | rfl <;> rfl
    have hf' : f ≠ .value := by rcases hf with rfl | rfl <;> simp
    rw [disj_run ev n hev d hok.1 (by omega) t p f _ hf', hacc, cLoop_cons]
    simp only [cStep, tokAnd_ne_tokOpen, tokAnd_ne_tokClose, if_false, if_true, Bool.or_false,
      Option.getD_some, Bool.false_eq_true]
    by_cases hT : (t.getD true && d.eval) = true
    · simp only [hT, if_true]
      rw [conj_run r hok.2 (by omega) _ _ .and (Or.inr rfl)]
      simp only [Bool.and_eq_true] at hT
      simp [Conj.eval, hT.1, hT.2]
    · simp only [hT]
      simp only [Bool.not_eq_true] at hT
      simp only [Conj.eval]
      rw [Bool.and_comm] at hT
      rw [Bool.and_assoc, Bool.and_comm r.eval, ← Bool.and_assoc, hT]
      rfl

theorem cond_run (c : Cond) (hok : c.OK) (hlen : c.tokens.length ≤ n) :
    cLoop ev {} c.tokens = .ok c.eval := by
  cases c with
  | empty => rw [Cond.tokens_empty]; simp [cLoop, Cond.eval, isTrue]
  | conj c =>
    simp only [Cond.OK] at hok
    rw [Cond.tokens_conj] at hlen ⊢
    have := conj_run ev n hev c hok hlen none none .none (Or.inl rfl)
    simpa [Cond.eval] using this

end Run

theorem evalSliceF_succ (n : Nat) (args : List Str) :
    evalSliceF (n + 1) args = cLoop (evalSliceF n) {} args := by
  cases args with
  | nil => simp [evalSliceF, cLoop]
  | cons a rest => simp [evalSliceF]

theorem evalSliceF_correct : ∀ (n : Nat) (c : Cond), c.OK → c.tokens.length < n →
    evalSliceF n c.tokens = .ok c.eval := by
  intro n
  induction n with
  | zero => intro c _ h; omega
  | succ n ih =>
    intro c hok hlen
    rw [evalSliceF_succ]
    exact cond_run (evalSliceF n) n ih c hok (by omega)

theorem evalSlice_correct (c : Cond) (h : c.OK) : evalSlice c.tokens = .ok c.eval :=
  evalSliceF_correct _ c h (Nat.lt_succ_self _)

/-! ### fuel -/

theorem cStep_congr (ev1 ev2 : List Str → Except CondErr Bool) (st : CSt) (a : Str)
    (h : st.counter = 1 → ev1 st.block = ev2 st.block) :
    cStep ev1 st a = cStep ev2 st a := by
  unfold cStep
  split
  · rfl
  · split
    · split
      · rfl
      · split
        · rename_i h1; rw [h h1]
        · rfl
    · rfl

theorem foldAtom_cont {st st' : CSt} {b : Bool} (h : foldAtom st b = .cont st') :
    st'.counter = st.counter ∧ st'.block = st.block := by
  unfold foldAtom at h
  split at h <;> first | (cases h; exact ⟨rfl, rfl⟩) | cases h

/-- the bound kept by the loop: inside a group, the collected block plus the remaining
    tokens stay below the original length -/
theorem cStep_inv (ev : List Str → Except CondErr Bool) (m : Nat) (st st' : CSt) (a : Str)
    (rest : List Str)
    (h0 : st.counter = 0 → (a :: rest).length ≤ m)
    (h1 : st.counter ≠ 0 → st.block.length + (a :: rest).length < m)
    (hs : cStep ev st a = .cont st') :
    (st'.counter = 0 → rest.length ≤ m) ∧
      (st'.counter ≠ 0 → st'.block.length + rest.length < m) := by
  simp only [List.length_cons] at h0 h1
  unfold cStep at hs
  split at hs
  · cases hs
    by_cases hc : st.counter = 0
    · have := h0 hc
      simp [hc]; omega
    · have := h1 hc
      simp [hc]; omega
  · split at hs
    · split at hs
      · cases hs
      · rename_i hc
        have := h1 hc
        split at hs
        · split at hs
          · cases hs
          · obtain ⟨e1, e2⟩ := foldAtom_cont hs
            simp only at e1 e2
            rw [e1, e2]
            simp; omega
        · cases hs
          simp; omega
    · split at hs
      · cases hs
        by_cases hc : st.counter = 0
        · have := h0 hc
          simp [hc]; omega
        · have := h1 hc
          simp [hc]; omega
      · have key : ∀ st'' : CSt, st''.counter = st.counter → st''.block = st.block →
            (st''.counter = 0 → rest.length ≤ m) ∧
              (st''.counter ≠ 0 → st''.block.length + rest.length < m) := by
          intro st'' e1 e2
          rw [e1, e2]
          exact ⟨fun hc => by have := h0 hc; omega, fun hc => by have := h1 hc; omega⟩
        split at hs
        · split at hs
          · dsimp only at hs
            split at hs
            · cases hs; exact key _ rfl rfl
            · cases hs
          · cases hs
        · split at hs
          · split at hs
            · cases hs; exact key _ rfl rfl
            · cases hs
          · obtain ⟨e1, e2⟩ := foldAtom_cont hs
            exact key _ e1 e2

theorem cLoop_congr (ev1 ev2 : List Str → Except CondErr Bool) (m : Nat)
    (h : ∀ b : List Str, b.length < m → ev1 b = ev2 b) :
    ∀ (rest : List Str) (st : CSt), (st.counter = 0 → rest.length ≤ m) →
      (st.counter ≠ 0 → st.block.length + rest.length < m) →
      cLoop ev1 st rest = cLoop ev2 st rest := by
  intro rest
  induction rest with
  | nil => intro st _ _; simp [cLoop]
  | cons a rest ih =>
    intro st h0 h1
    have hstep : cStep ev1 st a = cStep ev2 st a := by
      apply cStep_congr
      intro hc
      apply h
      have := h1 (by omega)
      simp only [List.length_cons] at this
      omega
    rw [cLoop_cons, cLoop_cons, hstep]
    cases hs : cStep ev2 st a with
    | cont st' =>
      obtain ⟨i0, i1⟩ := cStep_inv ev2 m st st' a rest h0 h1 hs
      exact ih st' i0 i1
    | ret b => rfl
    | err e => rfl

theorem evalSliceF_fuel_succ : ∀ (n : Nat) (args : List Str), args.length < n →
    evalSliceF (n + 1) args = evalSliceF n args := by
  intro n
  induction n with
  | zero => intro args h; omega
  | succ k ih =>
    intro args hlen
    rw [evalSliceF_succ, evalSliceF_succ]
    apply cLoop_congr _ _ k (fun b hb => ih b hb)
    · intro _; omega
    · intro hc; exact absurd rfl hc

theorem evalSliceF_fuel_add (args : List Str) (extra : Nat) :
    evalSliceF (args.length + 1 + extra) args = evalSliceF (args.length + 1) args := by
  induction extra with
  | zero => rfl
  | succ e ih =>
    rw [← Nat.add_assoc, evalSliceF_fuel_succ _ _ (by omega), ih]

end Duck
