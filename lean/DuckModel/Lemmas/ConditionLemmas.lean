/-
  Helper lemmas about the condition evaluator model (used by Props/C06.lean).
-/
import DuckModel.Sdk.Condition
import DuckModel.Spec.Cond

namespace Duck
open Duck.Spec

end Duck
