/-
  C17 — lemmas for the java-properties model (`Sdk/Properties.lean`): the text the writer
  produces for entries of the safe class, and what the reader makes of it.
-/
import DuckModel.Sdk.Properties
import DuckModel.Lemmas.Utf8DecodeLemmas

namespace Duck.JProps
open Duck

/-- equality of results is decidable (used to evaluate the model on concrete maps) -/
instance instDecidableEqExcept {ε α : Type} [DecidableEq ε] [DecidableEq α] : DecidableEq (Except ε α) :=
  fun a b =>
    match a, b with
    | .ok x, .ok y => if h : x = y then isTrue (h ▸ rfl) else isFalse (fun e => h (Except.ok.inj e))
    | .error x, .error y =>
      if h : x = y then isTrue (h ▸ rfl) else isFalse (fun e => h (Except.error.inj e))
    | .ok _, .error _ => isFalse (fun e => by cases e)
    | .error _, .ok _ => isFalse (fun e => by cases e)

/-! ### characters -/

theorem toNat_ofNat_small (n : Nat) (h : n < 0xd800) : (Char.ofNat n).toNat = n := by
  have hv : n.isValidChar := Or.inl h
  simp [Char.ofNat, hv, Char.ofNatAux, Char.toNat]

theorem char_eq_iff (c k : Char) : c = k ↔ c.toNat = k.toNat := Char.toNat_inj.symm

theorem ne_of_toNat_ne {c k : Char} (h : c.toNat ≠ k.toNat) : c ≠ k := fun e => h (e ▸ rfl)

/-- four hexadecimal digits of a number below 0x10000 -/
def hex4 (n : Nat) : Str :=
  [hexDigitLower (n / 4096), hexDigitLower (n / 256 % 16), hexDigitLower (n / 16 % 16),
   hexDigitLower (n % 16)]

theorem hexLower_four (n : Nat) (h1 : 0x1000 ≤ n) (h2 : n ≤ 0xFFFF) : hexLower n = hex4 n := by
  unfold hexLower hex4
  have e1 : ¬ n < 16 := by omega
  have e2 : ¬ n / 16 < 16 := by omega
  have e3 : ¬ n / 16 / 16 < 16 := by omega
  have e4 : n / 16 / 16 / 16 < 16 := by omega
  simp only [hexLowerAux, e1, e2, e3, e4, if_false, if_true]
  have a1 : n / 16 / 16 / 16 = n / 4096 := by omega
  have a2 : n / 16 / 16 % 16 = n / 256 % 16 := by omega
  rw [a1, a2]

theorem hexDigitLower_toNat (d : Nat) (h : d < 16) :
    (hexDigitLower d).toNat = if d < 10 then 48 + d else 87 + d := by
  unfold hexDigitLower
  split <;> exact toNat_ofNat_small _ (by omega)

theorem hexDigitVal_lower (d : Nat) (h : d < 16) : hexDigitVal (hexDigitLower d) = some d := by
  unfold hexDigitVal
  simp only [hexDigitLower_toNat d h]
  by_cases hd : d < 10
  · simp only [hd, if_true]
    rw [if_pos (by omega)]
    congr 1; omega
  · simp only [hd, if_false]
    rw [if_neg (by omega), if_pos (by omega)]
    congr 1; omega

/-- a hexadecimal digit is an ordinary character of the format -/
theorem hexDigitLower_plain (d : Nat) (h : d < 16) :
    let x := hexDigitLower d
    x.toNat < 0x80 ∧ x ≠ '\\' ∧ x ≠ ':' ∧ x ≠ '=' ∧ x ≠ '+' ∧ x ≠ '\r' ∧ x ≠ '\n' ∧ isW x = false ∧
      isWs x = false := by
  intro x
  have hx : x.toNat = if d < 10 then 48 + d else 87 + d := hexDigitLower_toNat d h
  have hrange : (48 ≤ x.toNat ∧ x.toNat ≤ 57) ∨ (97 ≤ x.toNat ∧ x.toNat ≤ 102) := by
    rw [hx]; split <;> omega
  refine ⟨by omega, ?_, ?_, ?_, ?_, ?_, ?_, ?_, ?_⟩
  · exact ne_of_toNat_ne (by simp; omega)
  · exact ne_of_toNat_ne (by simp; omega)
  · exact ne_of_toNat_ne (by simp; omega)
  · exact ne_of_toNat_ne (by simp; omega)
  · exact ne_of_toNat_ne (by simp; omega)
  · exact ne_of_toNat_ne (by simp; omega)
  · simp only [isW, char_eq_iff, Bool.or_eq_false_iff, decide_eq_false_iff_not]
    simp; omega
  · simp only [isWs, Bool.or_eq_false_iff, Bool.and_eq_false_iff, decide_eq_false_iff_not, beq_eq_false_iff_ne]
    simp; omega

/-! ### the file form of one character -/

/-- what one character of a key or value looks like in the file -/
def wireChar (c : Char) : Str :=
  if safeAsciiChar c then escapeChar c else '\\' :: 'u' :: hex4 c.toNat

def wire (s : Str) : Str := s.flatMap wireChar

/-- an ordinary printable character: written as itself -/
def plainChar (c : Char) : Prop :=
  0x21 ≤ c.toNat ∧ c.toNat ≤ 0x7F ∧ c ≠ '\\' ∧ c ≠ ':' ∧ c ≠ '=' ∧ c ≠ '!' ∧ c ≠ '#'

theorem wireChar_cases (c : Char) (h : safeChar c = true) :
    (c = '\\' ∧ wireChar c = ['\\', '\\']) ∨ (c = ' ' ∧ wireChar c = ['\\', ' ']) ∨
    (c = '\t' ∧ wireChar c = ['\\', 't']) ∨ (c = '\r' ∧ wireChar c = ['\\', 'r']) ∨
    (c = '\n' ∧ wireChar c = ['\\', 'n']) ∨ (c = '\x0c' ∧ wireChar c = ['\\', 'f']) ∨
    (c = ':' ∧ wireChar c = ['\\', ':']) ∨ (c = '=' ∧ wireChar c = ['\\', '=']) ∨
    (c = '!' ∧ wireChar c = ['\\', '!']) ∨ (c = '#' ∧ wireChar c = ['\\', '#']) ∨
    (plainChar c ∧ wireChar c = [c]) ∨
    (safeAsciiChar c = false ∧ safeBmpChar c = true ∧ wireChar c = '\\' :: 'u' :: hex4 c.toNat) := by
  by_cases ha : safeAsciiChar c = true
  · have hw : wireChar c = escapeChar c := by simp [wireChar, ha]
    rw [hw]
    by_cases h1 : c = '\\'
    · subst h1; exact Or.inl ⟨rfl, rfl⟩
    by_cases h2 : c = ' '
    · subst h2; exact Or.inr (Or.inl ⟨rfl, rfl⟩)
    by_cases h3 : c = '\t'
    · subst h3; exact Or.inr (Or.inr (Or.inl ⟨rfl, rfl⟩))
    by_cases h4 : c = '\r'
    · subst h4; exact Or.inr (Or.inr (Or.inr (Or.inl ⟨rfl, rfl⟩)))
    by_cases h5 : c = '\n'
    · subst h5; exact Or.inr (Or.inr (Or.inr (Or.inr (Or.inl ⟨rfl, rfl⟩))))
    by_cases h6 : c = '\x0c'
    · subst h6; exact Or.inr (Or.inr (Or.inr (Or.inr (Or.inr (Or.inl ⟨rfl, rfl⟩)))))
    by_cases h7 : c = ':'
    · subst h7; exact Or.inr (Or.inr (Or.inr (Or.inr (Or.inr (Or.inr (Or.inl ⟨rfl, rfl⟩))))))
    by_cases h8 : c = '='
    · subst h8; exact Or.inr (Or.inr (Or.inr (Or.inr (Or.inr (Or.inr (Or.inr (Or.inl ⟨rfl, rfl⟩)))))))
    by_cases h9 : c = '!'
    · subst h9; exact Or.inr (Or.inr (Or.inr (Or.inr (Or.inr (Or.inr (Or.inr (Or.inr (Or.inl ⟨rfl, rfl⟩))))))))
    by_cases h10 : c = '#'
    · subst h10; exact Or.inr (Or.inr (Or.inr (Or.inr (Or.inr (Or.inr (Or.inr (Or.inr (Or.inr (Or.inl ⟨rfl, rfl⟩)))))))))
    refine Or.inr (Or.inr (Or.inr (Or.inr (Or.inr (Or.inr (Or.inr (Or.inr (Or.inr (Or.inr (Or.inl ?_))))))))))
    have hn : 0x21 ≤ c.toNat ∧ c.toNat ≤ 0x7F := by
      simp only [safeAsciiChar, Bool.or_eq_true, decide_eq_true_eq, Bool.and_eq_true] at ha
      have e2 : c.toNat ≠ 32 := fun e => h2 ((char_eq_iff _ _).2 e)
      have e3 : c.toNat ≠ 9 := fun e => h3 ((char_eq_iff _ _).2 e)
      have e4 : c.toNat ≠ 13 := fun e => h4 ((char_eq_iff _ _).2 e)
      have e5 : c.toNat ≠ 10 := fun e => h5 ((char_eq_iff _ _).2 e)
      have e6 : c.toNat ≠ 12 := fun e => h6 ((char_eq_iff _ _).2 e)
      omega
    refine ⟨⟨hn.1, hn.2, h1, h7, h8, h9, h10⟩, ?_⟩
    unfold escapeChar
    simp only [h1, h2, h3, h4, h5, h6, h7, h8, h9, h10, if_false]
    rw [if_neg (by omega)]
  · have ha' : safeAsciiChar c = false := by simpa using ha
    have hb : safeBmpChar c = true := by simpa [safeChar, ha'] using h
    refine Or.inr (Or.inr (Or.inr (Or.inr (Or.inr (Or.inr (Or.inr (Or.inr (Or.inr (Or.inr (Or.inr ⟨ha', hb, ?_⟩))))))))))
    simp [wireChar, ha']


set_option hygiene false in
local macro "wire_cases" c:term:max h:term:max : tactic =>
  `(tactic| rcases wireChar_cases $c $h with ⟨rfl, hw⟩ | ⟨rfl, hw⟩ | ⟨rfl, hw⟩ | ⟨rfl, hw⟩ | ⟨rfl, hw⟩ |
      ⟨rfl, hw⟩ | ⟨rfl, hw⟩ | ⟨rfl, hw⟩ | ⟨rfl, hw⟩ | ⟨rfl, hw⟩ | ⟨hp, hw⟩ | ⟨ha, hb, hw⟩)

theorem plain_facts {c : Char} (h : plainChar c) :
    c.toNat < 0x80 ∧ c ≠ '\r' ∧ c ≠ '\n' ∧ c ≠ ' ' ∧ isW c = false ∧ isWs c = false := by
  obtain ⟨h1, h2, _, _, _, _, _⟩ := h
  refine ⟨by omega, ne_of_toNat_ne (by simp; omega), ne_of_toNat_ne (by simp; omega),
    ne_of_toNat_ne (by simp; omega), ?_, ?_⟩
  · simp only [isW, char_eq_iff, Bool.or_eq_false_iff, decide_eq_false_iff_not]
    simp; omega
  · simp only [isWs, Bool.or_eq_false_iff, Bool.and_eq_false_iff, decide_eq_false_iff_not, beq_eq_false_iff_ne]
    simp; omega

theorem bmp_range {c : Char} (h : safeBmpChar c = true) : 0x1000 ≤ c.toNat ∧ c.toNat ≤ 0xFFFF := by
  simp only [safeBmpChar, Bool.and_eq_true, decide_eq_true_eq] at h
  omega

theorem hex4_digits {n : Nat} (h : n ≤ 0xFFFF) :
    n / 4096 < 16 ∧ n / 256 % 16 < 16 ∧ n / 16 % 16 < 16 ∧ n % 16 < 16 := by omega

/-- every character of the file form is ASCII and neither CR nor LF -/
theorem wireChar_ascii (c : Char) (h : safeChar c = true) :
    ∀ d ∈ wireChar c, d.toNat < 0x80 ∧ d ≠ '\r' ∧ d ≠ '\n' := by
  wire_cases c h <;> rw [hw] <;> intro d hd
  all_goals try (simp only [List.mem_cons, List.not_mem_nil, or_false] at hd; rcases hd with rfl | rfl <;> decide)
  · have := plain_facts hp
    simp only [List.mem_cons, List.not_mem_nil, or_false] at hd
    subst hd; exact ⟨this.1, this.2.1, this.2.2.1⟩
  · obtain ⟨_, hr⟩ := bmp_range hb
    obtain ⟨d1, d2, d3, d4⟩ := hex4_digits hr
    simp only [hex4, List.mem_cons, List.not_mem_nil, or_false] at hd
    rcases hd with rfl | rfl | rfl | rfl | rfl | rfl
    · decide
    · decide
    · have := hexDigitLower_plain _ d1; exact ⟨this.1, this.2.2.2.2.2.1, this.2.2.2.2.2.2.1⟩
    · have := hexDigitLower_plain _ d2; exact ⟨this.1, this.2.2.2.2.2.1, this.2.2.2.2.2.2.1⟩
    · have := hexDigitLower_plain _ d3; exact ⟨this.1, this.2.2.2.2.2.1, this.2.2.2.2.2.2.1⟩
    · have := hexDigitLower_plain _ d4; exact ⟨this.1, this.2.2.2.2.2.1, this.2.2.2.2.2.2.1⟩

/-- the file form starts with a character that is no white space and no comment marker -/
theorem wireChar_head (c : Char) (h : safeChar c = true) :
    ∃ x r, wireChar c = x :: r ∧ isWs x = false ∧ isW x = false ∧ x ≠ '#' ∧ x ≠ '!' ∧ x.toNat < 0x80 := by
  wire_cases c h <;> rw [hw]
  all_goals try exact ⟨'\\', _, rfl, by decide, by decide, by decide, by decide, by decide⟩
  have := plain_facts hp
  exact ⟨c, [], rfl, this.2.2.2.2.2, this.2.2.2.2.1, hp.2.2.2.2.2.2, hp.2.2.2.2.2.1, this.1⟩

/-- … and, unless the character is a blank, ends with one that is no white space -/
theorem wireChar_last (c : Char) (h : safeChar c = true) (hc : c ≠ ' ') :
    ∃ i z, wireChar c = i ++ [z] ∧ isWs z = false := by
  wire_cases c h <;> rw [hw]
  · exact ⟨['\\'], '\\', rfl, by decide⟩
  · exact absurd rfl hc
  · exact ⟨['\\'], 't', rfl, by decide⟩
  · exact ⟨['\\'], 'r', rfl, by decide⟩
  · exact ⟨['\\'], 'n', rfl, by decide⟩
  · exact ⟨['\\'], 'f', rfl, by decide⟩
  · exact ⟨['\\'], ':', rfl, by decide⟩
  · exact ⟨['\\'], '=', rfl, by decide⟩
  · exact ⟨['\\'], '!', rfl, by decide⟩
  · exact ⟨['\\'], '#', rfl, by decide⟩
  · exact ⟨[], c, rfl, (plain_facts hp).2.2.2.2.2⟩
  · obtain ⟨_, hr⟩ := bmp_range hb
    obtain ⟨_, _, _, d4⟩ := hex4_digits hr
    exact ⟨['\\', 'u', hexDigitLower (c.toNat / 4096), hexDigitLower (c.toNat / 256 % 16), hexDigitLower (c.toNat / 16 % 16)], _, rfl, (hexDigitLower_plain _ d4).2.2.2.2.2.2.2.2⟩

theorem spanKey_pair (e : Char) (rest : Str) :
    spanKey ('\\' :: e :: rest) = ('\\' :: e :: (spanKey rest).1, (spanKey rest).2) := by
  rw [spanKey]; simp

theorem spanKey_plain (x : Char) (rest : Str) (h1 : x ≠ '\\') (h2 : x ≠ ':') (h3 : x ≠ '=')
    (h4 : isW x = false) : spanKey (x :: rest) = (x :: (spanKey rest).1, (spanKey rest).2) := by
  rw [spanKey.eq_def]; simp [h1, h2, h3, h4]

/-- the key loop of the line pattern runs over the file form of a character -/
theorem spanKey_wireChar (c : Char) (h : safeChar c = true) (rest : Str) :
    spanKey (wireChar c ++ rest) = (wireChar c ++ (spanKey rest).1, (spanKey rest).2) := by
  wire_cases c h <;> rw [hw]
  all_goals try exact spanKey_pair _ _
  · exact spanKey_plain c rest hp.2.2.1 hp.2.2.2.1 hp.2.2.2.2.1 (plain_facts hp).2.2.2.2.1
  · obtain ⟨_, hr⟩ := bmp_range hb
    obtain ⟨d1, d2, d3, d4⟩ := hex4_digits hr
    have p1 := hexDigitLower_plain _ d1
    have p2 := hexDigitLower_plain _ d2
    have p3 := hexDigitLower_plain _ d3
    have p4 := hexDigitLower_plain _ d4
    simp only at p1 p2 p3 p4
    simp only [hex4, List.cons_append, List.nil_append]
    rw [spanKey_pair, spanKey_plain _ _ p1.2.1 p1.2.2.1 p1.2.2.2.1 p1.2.2.2.2.2.2.2.1,
      spanKey_plain _ _ p2.2.1 p2.2.2.1 p2.2.2.2.1 p2.2.2.2.2.2.2.2.1,
      spanKey_plain _ _ p3.2.1 p3.2.2.1 p3.2.2.2.1 p3.2.2.2.2.2.2.2.1,
      spanKey_plain _ _ p4.2.1 p4.2.2.1 p4.2.2.2.1 p4.2.2.2.2.2.2.2.1]


/-! ### `unescape` -/

def consOk (c : Char) (r : Except PropsErr Str) : Except PropsErr Str :=
  match r with
  | .ok t => .ok (c :: t)
  | .error x => .error x

theorem unescape_plain (x : Char) (rest : Str) (h : x ≠ '\\') :
    unescape (x :: rest) = consOk x (unescape rest) := by
  rw [unescape.eq_def]; simp only [h, if_false, consOk]
  cases unescape rest <;> rfl

theorem unescape_pair (e : Char) (rest : Str) (h : e ≠ 'u') :
    unescape ('\\' :: e :: rest) = consOk (unescapeLetter e) (unescape rest) := by
  rw [unescape.eq_def]; simp only [if_true, h, if_false, consOk]
  cases unescape rest <;> rfl

theorem unescape_uni (a b c d : Char) (rest : Str) (v : Nat) (ch : Char)
    (h1 : parseHex4 a b c d = some v) (h2 : charOfU16 v = some ch) :
    unescape ('\\' :: 'u' :: a :: b :: c :: d :: rest) = consOk ch (unescape rest) := by
  rw [unescape.eq_def]; simp only [if_true, h1, h2, consOk]
  cases unescape rest <;> rfl

theorem parseHex4_hex4 (n : Nat) (h : n ≤ 0xFFFF) :
    parseHex4 (hexDigitLower (n / 4096)) (hexDigitLower (n / 256 % 16)) (hexDigitLower (n / 16 % 16))
      (hexDigitLower (n % 16)) = some n := by
  obtain ⟨d1, d2, d3, d4⟩ := hex4_digits h
  have p1 := hexDigitLower_plain _ d1
  simp only at p1
  unfold parseHex4
  rw [if_neg p1.2.2.2.2.1]
  simp only [hexDigitsVal, hexDigitVal_lower _ d1, hexDigitVal_lower _ d2, hexDigitVal_lower _ d3,
    hexDigitVal_lower _ d4]
  congr 1; omega

theorem charOfU16_char (c : Char) : charOfU16 c.toNat = some c := by
  unfold charOfU16
  have hv := char_valid_nat c
  rw [if_neg (by omega), Char.ofNat_toNat]

theorem unescape_wireChar (c : Char) (h : safeChar c = true) (rest : Str) :
    unescape (wireChar c ++ rest) = consOk c (unescape rest) := by
  wire_cases c h <;> rw [hw]
  all_goals try exact unescape_pair _ _ (by decide)
  · exact unescape_plain c rest hp.2.2.1
  · obtain ⟨_, hr⟩ := bmp_range hb
    simp only [hex4, List.cons_append, List.nil_append]
    exact unescape_uni _ _ _ _ rest _ c (parseHex4_hex4 _ hr) (charOfU16_char c)

/-! ### trailing backslashes -/

def cntFrom (n : Nat) (l : Str) : Nat := l.foldl (fun n c => if c = '\\' then n + 1 else 0) n

theorem cntFrom_append (n : Nat) (a b : Str) : cntFrom n (a ++ b) = cntFrom (cntFrom n a) b := by
  simp [cntFrom, List.foldl_append]

theorem cntFrom_wireChar (c : Char) (h : safeChar c = true) (n : Nat) :
    cntFrom n (wireChar c) = if c = '\\' then n + 2 else 0 := by
  wire_cases c h <;> rw [hw]
  all_goals try (simp [cntFrom]; done)
  · simp [cntFrom, hp.2.2.1]
  · obtain ⟨_, hr⟩ := bmp_range hb
    obtain ⟨_, _, _, d4⟩ := hex4_digits hr
    have p4 := hexDigitLower_plain _ d4
    simp only at p4
    have hc : c ≠ '\\' := ne_of_toNat_ne (by simp; omega)
    simp [cntFrom, hex4, p4.2.1, hc]

/-! ### the encoder on the escaped form -/

def encIdealChar (c : Char) : List Nat :=
  match cp1252Encode c with
  | some b => [b]
  | none => (uEscape c.toNat).map Char.toNat

def encIdeal (s : Str) : List Nat := s.flatMap encIdealChar

theorem cp1252Encode_ascii (c : Char) (h : c.toNat < 0x80) : cp1252Encode c = some c.toNat := by
  simp [cp1252Encode, h]

theorem encIdeal_ascii (l : Str) (h : ∀ d ∈ l, d.toNat < 0x80) : encIdeal l = l.map Char.toNat := by
  induction l with
  | nil => rfl
  | cons d r ih =>
    have hd := h d (by simp)
    have hr := ih (fun x hx => h x (by simp [hx]))
    simp only [encIdeal, List.flatMap_cons, List.map_cons] at hr ⊢
    rw [hr]
    simp [encIdealChar, cp1252Encode_ascii d hd]

theorem escapeChar_bmp (c : Char) (hb : safeBmpChar c = true) : escapeChar c = [c] := by
  obtain ⟨h1, _⟩ := bmp_range hb
  have hne : ∀ k : Char, k.toNat < 0x1000 → c ≠ k := fun k hk e => by subst e; omega
  unfold escapeChar
  rw [if_neg (hne _ (by decide)), if_neg (hne _ (by decide)), if_neg (hne _ (by decide)),
    if_neg (hne _ (by decide)), if_neg (hne _ (by decide)), if_neg (hne _ (by decide)),
    if_neg (hne _ (by decide)), if_neg (hne _ (by decide)), if_neg (hne _ (by decide)),
    if_neg (hne _ (by decide)), if_neg (by omega)]

theorem cp1252Encode_bmp (c : Char) (hb : safeBmpChar c = true) : cp1252Encode c = none := by
  obtain ⟨h1, _⟩ := bmp_range hb
  simp only [safeBmpChar, Bool.and_eq_true, decide_eq_true_eq, Bool.not_eq_true'] at hb
  unfold cp1252Encode
  simp only
  rw [if_neg (by omega), if_neg (by omega), hb.2]
  simp

theorem wireChar_of_ascii (c : Char) (h : safeAsciiChar c = true) : wireChar c = escapeChar c := by
  simp [wireChar, h]

theorem encIdeal_escapeChar (c : Char) (h : safeChar c = true) :
    encIdeal (escapeChar c) = (wireChar c).map Char.toNat := by
  by_cases ha : safeAsciiChar c = true
  · rw [← wireChar_of_ascii c ha]
    exact encIdeal_ascii _ (fun d hd => (wireChar_ascii c h d hd).1)
  · have ha' : safeAsciiChar c = false := by simpa using ha
    have hb : safeBmpChar c = true := by simpa [safeChar, ha'] using h
    obtain ⟨h1, h2⟩ := bmp_range hb
    rw [escapeChar_bmp c hb]
    simp [encIdeal, encIdealChar, cp1252Encode_bmp c hb, wireChar, ha', uEscape, hexLower_four _ h1 h2]



/-! ### whole keys and values -/

def SafeStr (s : Str) : Prop := ∀ c ∈ s, safeChar c = true

theorem SafeStr.tail {c : Char} {s : Str} (h : SafeStr (c :: s)) : SafeStr s :=
  fun x hx => h x (by simp [hx])

theorem SafeStr.head {c : Char} {s : Str} (h : SafeStr (c :: s)) : safeChar c = true :=
  h c (by simp)

theorem wire_cons (c : Char) (s : Str) : wire (c :: s) = wireChar c ++ wire s := by
  simp [wire]

theorem wire_append (a b : Str) : wire (a ++ b) = wire a ++ wire b := by
  simp [wire]

theorem wire_ascii (s : Str) (h : SafeStr s) :
    ∀ d ∈ wire s, d.toNat < 0x80 ∧ d ≠ '\r' ∧ d ≠ '\n' := by
  intro d hd
  simp only [wire, List.mem_flatMap] at hd
  obtain ⟨c, hc, hdc⟩ := hd
  exact wireChar_ascii c (h c hc) d hdc

theorem spanKey_wire (k : Str) (h : SafeStr k) (r : Str) :
    spanKey (wire k ++ '=' :: r) = (wire k, '=' :: r) := by
  induction k with
  | nil => rw [spanKey.eq_def]; simp [wire]
  | cons c s ih =>
    rw [wire_cons, List.append_assoc, spanKey_wireChar c h.head, ih h.tail]

theorem unescape_wire (s : Str) (h : SafeStr s) : unescape (wire s) = .ok s := by
  induction s with
  | nil => simp [wire, unescape]
  | cons c s ih =>
    rw [wire_cons, unescape_wireChar c h.head, ih h.tail]
    rfl

theorem cntFrom_wire (s : Str) (h : SafeStr s) (n : Nat) (hn : n % 2 = 0) :
    cntFrom n (wire s) % 2 = 0 := by
  induction s generalizing n with
  | nil => simpa [wire, cntFrom] using hn
  | cons c s ih =>
    rw [wire_cons, cntFrom_append, cntFrom_wireChar c h.head]
    apply ih h.tail
    split <;> omega

theorem encIdeal_escapeText (s : Str) (h : SafeStr s) :
    encIdeal (escapeText s) = (wire s).map Char.toNat := by
  induction s with
  | nil => rfl
  | cons c s ih =>
    have e : encIdeal (escapeText (c :: s)) = encIdeal (escapeChar c) ++ encIdeal (escapeText s) := by
      simp [encIdeal, escapeText]
    rw [e, encIdeal_escapeChar c h.head, ih h.tail, wire_cons, List.map_append]

theorem escapeText_ascii (s : Str) (h : s.all safeAsciiChar = true) : escapeText s = wire s := by
  rw [List.all_eq_true] at h
  induction s with
  | nil => rfl
  | cons c s ih =>
    have hc := h c (by simp)
    have e : escapeText (c :: s) = escapeChar c ++ escapeText s := by simp [escapeText]
    rw [e, wire_cons, wireChar_of_ascii c hc, ih (fun x hx => h x (by simp [hx]))]

/-! ### the encoder with its buffer -/

theorem encLen_pos (c : Char) (rest : Str) : 1 ≤ encLen (c :: rest) := by
  rw [encLen]
  cases cp1252Encode c with
  | some b => simp only; omega
  | none =>
    have : 2 ≤ (uEscape c.toNat).length := by simp [uEscape]
    simp only; omega

/-- text the encoding can express: every character arrives, whatever the buffer does -/
theorem encGo_ascii (data : Str) (h : ∀ d ∈ data, d.toNat < 0x80) (cap len : Nat) :
    (encGo cap len data).2 = data.map Char.toNat ∧ cap ≤ (encGo cap len data).1 := by
  induction data generalizing cap len with
  | nil => simp [encGo]
  | cons d r ih =>
    have hd := h d (by simp)
    have hr := fun x hx => h x (List.mem_cons_of_mem _ hx)
    rw [encGo]
    simp only [cp1252Encode_ascii d hd, List.map_cons]
    have := ih hr (if len = cap then len + 2 * cap else cap) (len + 1)
    refine ⟨by rw [this.1], ?_⟩
    refine Nat.le_trans ?_ this.2
    split <;> omega

/-- everything fits into the room that is left: nothing is cut, the capacity stays -/
theorem encGo_fits (data : Str) (cap len : Nat) (h : len + encLen data ≤ cap) :
    encGo cap len data = (cap, encIdeal data) := by
  induction data generalizing len with
  | nil => simp [encGo, encIdeal]
  | cons d r ih =>
    have hpos := encLen_pos d r
    have hne : ¬ len = cap := by omega
    rw [encGo]
    simp only [hne, if_false]
    cases hc : cp1252Encode d with
    | some b =>
      have hl : encLen (d :: r) = 1 + encLen r := by rw [encLen, hc]
      simp only
      rw [ih (len + 1) (by omega)]
      simp [encIdeal, encIdealChar, hc]
    | none =>
      have hl : encLen (d :: r) = (uEscape d.toNat).length + encLen r := by rw [encLen, hc]
      simp only
      have hlen : ((uEscape d.toNat).map Char.toNat).length = (uEscape d.toNat).length := by simp
      have hw : min (cap - len) ((uEscape d.toNat).map Char.toNat).length = (uEscape d.toNat).length := by
        rw [hlen]; omega
      rw [hw]
      simp only [hlen, Nat.lt_irrefl, if_false]
      rw [ih (len + (uEscape d.toNat).length) (by omega)]
      have ht : List.take (uEscape d.toNat).length ((uEscape d.toNat).map Char.toNat) = (uEscape d.toNat).map Char.toNat :=
        List.take_of_length_le (by simp)
      rw [ht]
      simp [encIdeal, encIdealChar, hc]

theorem encWrite_safe (s : Str) (hs : SafeStr s) (hf : fitsBuffer s = true) (cap : Nat) (hc : 256 ≤ cap) :
    (encWrite cap (escapeText s)).2 = (wire s).map Char.toNat ∧ 256 ≤ (encWrite cap (escapeText s)).1 := by
  unfold encWrite
  simp only [fitsBuffer, Bool.or_eq_true, decide_eq_true_eq] at hf
  rcases hf with hf | hf
  · have he := escapeText_ascii s hf
    have ha : ∀ d ∈ escapeText s, d.toNat < 0x80 := by
      rw [he]; exact fun d hd => (wire_ascii s hs d hd).1
    have := encGo_ascii (escapeText s) ha cap 0
    refine ⟨?_, Nat.le_trans hc this.2⟩
    rw [this.1, he]
  · rw [encGo_fits _ cap 0 (by omega)]
    exact ⟨encIdeal_escapeText s hs, hc⟩

theorem encWrite_single (d : Char) (hd : d.toNat < 0x80) (cap : Nat) :
    (encWrite cap [d]).2 = [d.toNat] ∧ cap ≤ (encWrite cap [d]).1 := by
  have := encGo_ascii [d] (by simpa using hd) cap 0
  simpa [encWrite] using this



/-! ### the written text -/

/-- one line of the file -/
def lineOf (e : Str × Str) : Str := wire e.1 ++ '=' :: wire e.2

/-- the bytes of the writer, as text -/
def fileText (m : Entries) : Str := m.flatMap fun e => lineOf e ++ ['\n']

/-- lines separated (not terminated) by LF -/
def joinLines : List Str → Str
  | [] => []
  | [l] => l
  | l :: l2 :: r => l ++ '\n' :: joinLines (l2 :: r)

def SafeEntry (e : Str × Str) : Prop :=
  SafeStr e.1 ∧ SafeStr e.2 ∧ fitsBuffer e.1 = true ∧ fitsBuffer e.2 = true

def SafeEntries (m : Entries) : Prop := ∀ e ∈ m, SafeEntry e

theorem safeEntries_iff (m : Entries) : safeEntries m = true ↔ SafeEntries m := by
  simp only [safeEntries, safeText, List.all_eq_true, Bool.and_eq_true, SafeEntries, SafeEntry, SafeStr]
  constructor
  · intro h e he
    obtain ⟨⟨a, b⟩, ⟨c, d⟩⟩ := h e he
    exact ⟨a, c, b, d⟩
  · intro h e he
    obtain ⟨a, c, b, d⟩ := h e he
    exact ⟨⟨a, b⟩, ⟨c, d⟩⟩

theorem lineOf_ascii (e : Str × Str) (h : SafeEntry e) :
    ∀ d ∈ lineOf e, d.toNat < 0x80 ∧ d ≠ '\r' ∧ d ≠ '\n' := by
  intro d hd
  simp only [lineOf, List.mem_append, List.mem_cons] at hd
  rcases hd with hd | rfl | hd
  · exact wire_ascii _ h.1 d hd
  · decide
  · exact wire_ascii _ h.2.1 d hd

theorem writeEntry_safe (e : Str × Str) (h : SafeEntry e) (cap : Nat) (hc : 256 ≤ cap) :
    (writeEntry cap e.1 e.2).2 = (lineOf e ++ ['\n']).map Char.toNat ∧
      256 ≤ (writeEntry cap e.1 e.2).1 := by
  obtain ⟨hk, hv, fk, fv⟩ := h
  unfold writeEntry
  simp only
  have w1 := encWrite_safe e.1 hk fk cap hc
  have w2 := encWrite_single '=' (by decide) (encWrite cap (escapeText e.1)).1
  have c2 : 256 ≤ (encWrite (encWrite cap (escapeText e.1)).1 ['=']).1 := Nat.le_trans w1.2 w2.2
  have w3 := encWrite_safe e.2 hv fv _ c2
  have w4 := encWrite_single '\n' (by decide)
    (encWrite (encWrite (encWrite cap (escapeText e.1)).1 ['=']).1 (escapeText e.2)).1
  refine ⟨?_, Nat.le_trans w3.2 w4.2⟩
  rw [w1.1, w2.1, w3.1, w4.1]
  simp [lineOf]

theorem writeAll_safe (m : Entries) (h : SafeEntries m) (cap : Nat) (hc : 256 ≤ cap) :
    writeAll cap m = (fileText m).map Char.toNat := by
  induction m generalizing cap with
  | nil => rfl
  | cons e r ih =>
    have he := writeEntry_safe e (h e (by simp)) cap hc
    rw [writeAll]
    rw [he.1, ih (fun x hx => h x (by simp [hx])) _ he.2]
    simp [fileText]

theorem fileText_ascii (m : Entries) (h : SafeEntries m) : ∀ d ∈ fileText m, d.toNat < 0x80 := by
  intro d hd
  simp only [fileText, List.mem_flatMap, List.mem_append, List.mem_cons, List.not_mem_nil, or_false] at hd
  obtain ⟨e, he, hd | rfl⟩ := hd
  · exact (lineOf_ascii e (h e he) d hd).1
  · decide

theorem utf8Encode_ascii (t : Str) (h : ∀ d ∈ t, d.toNat < 0x80) : utf8Encode t = t.map Char.toNat := by
  induction t with
  | nil => rfl
  | cons d r ih =>
    have hd := h d (by simp)
    have e : utf8Encode (d :: r) = utf8EncodeChar d ++ utf8Encode r := by simp [utf8Encode]
    rw [e, ih (fun x hx => h x (by simp [hx]))]
    simp [utf8EncodeChar, hd]

theorem utf8Decode_ascii (t : Str) (h : ∀ d ∈ t, d.toNat < 0x80) :
    utf8Decode (t.map Char.toNat) = some t := by
  rw [← utf8Encode_ascii t h]; exact utf8_roundtrip t

theorem fileText_join (m : Entries) (h : m ≠ []) :
    fileText m = joinLines (m.map lineOf) ++ ['\n'] := by
  induction m with
  | nil => exact absurd rfl h
  | cons e r ih =>
    cases r with
    | nil => simp [fileText, joinLines]
    | cons e2 r2 =>
      have := ih (by simp)
      simp only [fileText, List.flatMap_cons, List.map_cons, joinLines] at this ⊢
      rw [this]
      simp

/-- `str::trim` removes exactly the final LF of a text that begins and ends with
    characters that are no white space -/
theorem trim_text (t t' r : Str) (x z : Char) (h1 : t = x :: r) (h2 : t = t' ++ [z])
    (hx : isWs x = false) (hz : isWs z = false) : trim (t ++ ['\n']) = t := by
  have hn : isWs '\n' = true := by decide
  have e1 : trimStart (t ++ ['\n']) = t ++ ['\n'] := by
    rw [h1]; simp [trimStart, hx]
  unfold trim
  rw [e1, h2]
  simp [trimEnd, hn, hz]



theorem isW_le_isWs (x : Char) (h : isWs x = false) : isW x = false := by
  cases hw : isW x with
  | false => rfl
  | true =>
    simp only [isW, Bool.or_eq_true, decide_eq_true_eq] at hw
    rcases hw with (((rfl | rfl) | rfl) | rfl) | rfl <;> revert h <;> decide

theorem lineOf_head (e : Str × Str) (h : SafeEntry e) :
    ∃ x r, lineOf e = x :: r ∧ isWs x = false ∧ isW x = false ∧ x ≠ '#' ∧ x ≠ '!' := by
  obtain ⟨k, v⟩ := e
  cases k with
  | nil => exact ⟨'=', wire v, rfl, by decide, by decide, by decide, by decide⟩
  | cons c s =>
    obtain ⟨x, r, hw, h1, h2, h3, h4, _⟩ := wireChar_head c (h.1.head)
    refine ⟨x, r ++ wire s ++ '=' :: wire v, ?_, h1, h2, h3, h4⟩
    simp [lineOf, wire_cons, hw]

theorem lineOf_last (e : Str × Str) (h : SafeEntry e) (hl : e.2.getLast? ≠ some ' ') :
    ∃ i z, lineOf e = i ++ [z] ∧ isWs z = false := by
  obtain ⟨k, v⟩ := e
  rcases List.eq_nil_or_concat v with rfl | ⟨v', c, rfl⟩
  · exact ⟨wire k, '=', by simp [lineOf, wire], by decide⟩
  · simp only [List.concat_eq_append] at hl h ⊢
    have hc : c ≠ ' ' := by
      intro hc; apply hl; simp [hc]
    have hs : safeChar c = true := h.2.1 c (by simp)
    obtain ⟨i, z, hw, hz⟩ := wireChar_last c hs hc
    refine ⟨wire k ++ '=' :: wire v' ++ i, z, ?_, hz⟩
    simp [lineOf, wire, hw]

theorem joinLines_cons_ne (l : Str) (ls : List Str) (h : ls ≠ []) :
    joinLines (l :: ls) = l ++ '\n' :: joinLines ls := by
  cases ls with
  | nil => exact absurd rfl h
  | cons a b => rfl

theorem joinLines_concat (ls : List Str) (l : Str) : ∃ pre, joinLines (ls ++ [l]) = pre ++ l := by
  induction ls with
  | nil => exact ⟨[], rfl⟩
  | cons a r ih =>
    obtain ⟨pre, hp⟩ := ih
    refine ⟨a ++ '\n' :: pre, ?_⟩
    rw [List.cons_append, joinLines_cons_ne _ _ (by simp), hp]
    simp

/-- what `map_to_properties` returns for entries of the safe class -/
theorem writeProps_safe (m : Entries) (hs : SafeEntries m) (hl : lastValueOk m = true) :
    writeProps m = .ok (joinLines (m.map lineOf)) := by
  unfold writeProps writeBytes
  rw [writeAll_safe m hs 256 (Nat.le_refl _), utf8Decode_ascii _ (fileText_ascii m hs)]
  simp only
  rcases List.eq_nil_or_concat m with rfl | ⟨m', e, rfl⟩
  · rfl
  · simp only [List.concat_eq_append] at hl hs ⊢
    have hne : m' ++ [e] ≠ [] := by simp
    rw [fileText_join _ hne]
    have he : SafeEntry e := hs e (by simp)
    have hle : e.2.getLast? ≠ some ' ' := by
      simpa [lastValueOk] using hl
    obtain ⟨i, z, hi, hz⟩ := lineOf_last e he hle
    obtain ⟨pre, hpre⟩ := joinLines_concat (m'.map lineOf) (lineOf e)
    have hj : joinLines ((m' ++ [e]).map lineOf) = (pre ++ i) ++ [z] := by
      rw [List.map_append, List.map_cons, List.map_nil, hpre, hi, List.append_assoc]
    -- the first character
    have hfirst : ∃ x r, joinLines ((m' ++ [e]).map lineOf) = x :: r ∧ isWs x = false := by
      cases m' with
      | nil =>
        obtain ⟨x, r, hx, h1, _⟩ := lineOf_head e he
        exact ⟨x, r, by simpa [joinLines] using hx, h1⟩
      | cons e0 r0 =>
        obtain ⟨x, r, hx, h1, _⟩ := lineOf_head e0 (hs e0 (by simp))
        refine ⟨x, r ++ '\n' :: joinLines ((r0 ++ [e]).map lineOf), ?_, h1⟩
        rw [List.cons_append, List.map_cons, joinLines_cons_ne _ _ (by simp), hx]
        simp
    obtain ⟨x, r, hx, hxw⟩ := hfirst
    rw [trim_text _ _ _ _ _ hx hj hxw hz]



/-! ### the reader on the written text -/

theorem cp1252Decode_ascii (c : Char) (h : c.toNat < 0x80) : cp1252Decode c.toNat = c := by
  simp [cp1252Decode, h, Char.ofNat_toNat]

theorem decodeInput_ascii (t : Str) (h : ∀ d ∈ t, d.toNat < 0x80) : decodeInput t = t := by
  cases t with
  | nil => rfl
  | cons c r =>
    have hc := h c (by simp)
    have hne : ¬ c.toNat = 0xFEFF := by omega
    unfold decodeInput
    simp only [hne, if_false]
    rw [utf8Encode_ascii _ h, List.map_map]
    have : ∀ l : Str, (∀ d ∈ l, d.toNat < 0x80) → l.map (cp1252Decode ∘ Char.toNat) = l := by
      intro l hl
      induction l with
      | nil => rfl
      | cons d r ih =>
        rw [List.map_cons, ih (fun x hx => hl x (by simp [hx]))]
        simp only [Function.comp, cp1252Decode_ascii d (hl d (by simp))]
    exact this _ h

def LineFree (l : Str) : Prop := ∀ d ∈ l, d ≠ '\r' ∧ d ≠ '\n'

theorem natLines_line (l : Str) (h : LineFree l) (acc rest : Str) :
    natLines false acc (l ++ rest) = natLines false (acc ++ l) rest := by
  induction l generalizing acc with
  | nil => simp
  | cons d r ih =>
    have hd := h d (by simp)
    rw [List.cons_append, natLines]
    simp only [hd.1, hd.2, false_and, if_false]
    rw [ih (fun x hx => h x (by simp [hx]))]
    simp

theorem natLines_join (ls : List Str) (hne : ls ≠ []) (h : ∀ l ∈ ls, LineFree l) :
    natLines false [] (joinLines ls) = ls := by
  induction ls with
  | nil => exact absurd rfl hne
  | cons l r ih =>
    cases r with
    | nil =>
      have := natLines_line l (h l (by simp)) [] []
      simpa [joinLines, natLines] using this
    | cons l2 r2 =>
      rw [joinLines_cons_ne _ _ (by simp), natLines_line l (h l (by simp)), List.nil_append, natLines]
      simp only [Bool.false_eq_true, and_false, if_false]
      rw [if_neg (by decide)]
      simp only [if_true]
      rw [ih (by simp) (fun x hx => h x (by simp [hx]))]

theorem logicalLines_plain (ls : List Str)
    (h : ∀ l ∈ ls, isCommentLine l = false ∧ countEndBs l % 2 = 0) : logicalLines ls none = ls := by
  induction ls with
  | nil => rfl
  | cons l r ih =>
    have hl := h l (by simp)
    rw [logicalLines]
    simp only [Option.isNone_none, hl.1, Bool.and_false, Bool.false_eq_true, if_false]
    rw [if_neg (by omega), ih (fun x hx => h x (by simp [hx]))]

theorem countEndBs_eq (l : Str) : countEndBs l = cntFrom 0 l := rfl

theorem lineOf_countEndBs (e : Str × Str) (h : SafeEntry e) : countEndBs (lineOf e) % 2 = 0 := by
  rw [countEndBs_eq, lineOf, cntFrom_append]
  have e1 : '=' :: wire e.2 = ['='] ++ wire e.2 := rfl
  rw [e1, cntFrom_append]
  have e2 : cntFrom (cntFrom 0 (wire e.1)) ['='] = 0 := by simp [cntFrom]
  rw [e2]
  exact cntFrom_wire e.2 h.2.1 0 rfl

theorem lineOf_not_comment (e : Str × Str) (h : SafeEntry e) : isCommentLine (lineOf e) = false := by
  obtain ⟨x, r, hx, _, hw, h1, h2⟩ := lineOf_head e h
  rw [hx]
  simp [isCommentLine, hw, h1, h2]

theorem lineOf_parse (e : Str × Str) (h : SafeEntry e) :
    parseLine (lineOf e) = some (.pair (wire e.1) (wire e.2)) := by
  obtain ⟨x, r, hx, _, hw, h1, h2⟩ := lineOf_head e h
  have hsp : spanKey (x :: r) = (wire e.1, '=' :: wire e.2) := by
    rw [← hx]; exact spanKey_wire e.1 h.1 (wire e.2)
  -- the value starts with a character that is no white space (or is empty)
  have hval : (wire e.2).dropWhile isW = wire e.2 := by
    cases hv : e.2 with
    | nil => simp [wire]
    | cons c s =>
      have hs : SafeStr (c :: s) := hv ▸ h.2.1
      obtain ⟨y, r', hy, _, hyw, _⟩ := wireChar_head c hs.head
      rw [wire_cons, hy]
      simp [hyw]
  unfold parseLine
  rw [hx]
  simp only [List.dropWhile_cons, hw, Bool.false_eq_true, if_false, h1, h2, or_self, hsp]
  have hq : isW '=' = false := by decide
  simp [hq, hval]

theorem readLines_lines (m : Entries) (h : SafeEntries m) : readLines (m.map lineOf) = .ok m := by
  induction m with
  | nil => rfl
  | cons e r ih =>
    have he := h e (by simp)
    rw [List.map_cons, readLines, lineOf_parse e he]
    simp only [unescape_wire _ he.1, unescape_wire _ he.2.1, ih (fun x hx => h x (by simp [hx]))]

theorem joinLines_ascii (m : Entries) (h : SafeEntries m) :
    ∀ d ∈ joinLines (m.map lineOf), d.toNat < 0x80 := by
  induction m with
  | nil => intro d hd; simp [joinLines] at hd
  | cons e r ih =>
    intro d hd
    cases r with
    | nil =>
      simp only [List.map_cons, List.map_nil, joinLines] at hd
      exact (lineOf_ascii e (h e (by simp)) d hd).1
    | cons e2 r2 =>
      rw [List.map_cons, joinLines_cons_ne _ _ (by simp)] at hd
      simp only [List.mem_append, List.mem_cons] at hd
      rcases hd with hd | rfl | hd
      · exact (lineOf_ascii e (h e (by simp)) d hd).1
      · decide
      · exact ih (fun x hx => h x (by simp [hx])) d hd

/-- the reader gives back the entries, in file order -/
theorem loadProps_lines (m : Entries) (h : SafeEntries m) :
    loadProps (joinLines (m.map lineOf)) = .ok m := by
  unfold loadProps
  rw [decodeInput_ascii _ (joinLines_ascii m h)]
  by_cases hm : m = []
  · subst hm; rfl
  · have hls : ∀ l ∈ m.map lineOf, LineFree l := by
      intro l hl
      simp only [List.mem_map] at hl
      obtain ⟨e, he, rfl⟩ := hl
      exact fun d hd => (lineOf_ascii e (h e he) d hd).2
    rw [natLines_join _ (by simpa using hm) hls, logicalLines_plain, readLines_lines m h]
    intro l hl
    simp only [List.mem_map] at hl
    obtain ⟨e, he, rfl⟩ := hl
    exact ⟨lineOf_not_comment e (h e he), lineOf_countEndBs e (h e he)⟩



/-! ### the hash map as an association list -/

theorem insertKV_fresh (acc : Entries) (k v : Str) (h : k ∉ acc.map Prod.fst) :
    insertKV acc k v = acc ++ [(k, v)] := by
  induction acc with
  | nil => rfl
  | cons a r ih =>
    obtain ⟨k', v'⟩ := a
    simp only [List.map_cons, List.mem_cons, not_or] at h
    rw [insertKV, if_neg (fun e => h.1 e.symm), ih h.2]
    rfl

theorem insertAll_fresh (l acc : Entries) (hd : (l.map Prod.fst).Nodup)
    (hdis : ∀ k ∈ l.map Prod.fst, k ∉ acc.map Prod.fst) : insertAll acc l = acc ++ l := by
  induction l generalizing acc with
  | nil => simp [insertAll]
  | cons e r ih =>
    obtain ⟨k, v⟩ := e
    simp only [List.map_cons, List.nodup_cons] at hd
    have hk : k ∉ acc.map Prod.fst := hdis k (by simp)
    have e1 : insertAll acc ((k, v) :: r) = insertAll (insertKV acc k v) r := by
      simp [insertAll]
    rw [e1, insertKV_fresh acc k v hk, ih _ hd.2]
    · simp
    · intro k' hk'
      simp only [List.map_append, List.map_cons, List.map_nil, List.mem_append, List.mem_cons,
        List.not_mem_nil, or_false, not_or]
      refine ⟨hdis k' (by simp [hk']), ?_⟩
      intro e; subst e; exact hd.1 hk'

/-- a list with distinct keys is its own map -/
theorem toMap_nodup (m : Entries) (h : (m.map Prod.fst).Nodup) : toMap m = m := by
  have := insertAll_fresh m [] h (by simp)
  simpa [toMap] using this



/-! ### characters outside the safe class: one-entry maps that do not come back -/

def oneEntry (c : Char) : Entries := [(['k'], [c])]

/-- the finitely many cases are evaluated -/
def badOn (l : List Nat) : Bool :=
  l.all fun n => decide (roundTrip (oneEntry (Char.ofNat n)) ≠ .ok (oneEntry (Char.ofNat n)))

theorem badOn_spec (l : List Nat) (h : badOn l = true) (c : Char) (hc : c.toNat ∈ l) :
    roundTrip (oneEntry c) ≠ .ok (oneEntry c) := by
  simp only [badOn, List.all_eq_true, decide_eq_true_eq] at h
  have := h c.toNat hc
  rwa [Char.ofNat_toNat] at this

theorem bad_controls : badOn [0, 1, 2, 3, 4, 5, 6, 7, 8, 11, 14, 15, 16, 17, 18, 19, 20, 21, 22, 23, 24,
    25, 26, 27, 28, 29, 30, 31] = true := by decide +kernel

theorem bad_latin1 : badOn (List.range' 0x80 128) = true := by decide +kernel

theorem bad_specials : badOn cp1252High = true := by decide +kernel


/-! the characters that get a `\u` escape from the encoder -/

def IsHex (x : Char) : Prop := ∃ d, d < 16 ∧ x = hexDigitLower d

theorem IsHex.plain {x : Char} (h : IsHex x) :
    x.toNat < 0x80 ∧ x ≠ '\\' ∧ x ≠ '\r' ∧ x ≠ '\n' ∧ isWs x = false := by
  obtain ⟨d, hd, rfl⟩ := h
  have := hexDigitLower_plain d hd
  exact ⟨this.1, this.2.1, this.2.2.2.2.2.1, this.2.2.2.2.2.2.1, this.2.2.2.2.2.2.2.2⟩

theorem hexLower_three (n : Nat) (h1 : 0x100 ≤ n) (h2 : n < 0x1000) :
    hexLower n = [hexDigitLower (n / 256), hexDigitLower (n / 16 % 16), hexDigitLower (n % 16)] := by
  unfold hexLower
  have e1 : ¬ n < 16 := by omega
  have e2 : ¬ n / 16 < 16 := by omega
  have e3 : n / 16 / 16 < 16 := by omega
  simp only [hexLowerAux, e1, e2, e3, if_false, if_true]
  have a1 : n / 16 / 16 = n / 256 := by omega
  rw [a1]

theorem hexLower_long (n : Nat) (h1 : 0x10000 ≤ n) (h2 : n < 0x1000000) :
    ∃ a b c d e t, hexLower n = a :: b :: c :: d :: e :: t ∧ IsHex a ∧ IsHex b ∧ IsHex c ∧ IsHex d ∧
      IsHex e ∧ (∀ x ∈ t, IsHex x) := by
  unfold hexLower
  have e1 : ¬ n < 16 := by omega
  have e2 : ¬ n / 16 < 16 := by omega
  have e3 : ¬ n / 16 / 16 < 16 := by omega
  have e4 : ¬ n / 16 / 16 / 16 < 16 := by omega
  by_cases e5 : n / 16 / 16 / 16 / 16 < 16
  · simp only [hexLowerAux, e1, e2, e3, e4, e5, if_false, if_true]
    exact ⟨_, _, _, _, _, [], rfl, ⟨_, e5, rfl⟩, ⟨_, by omega, rfl⟩, ⟨_, by omega, rfl⟩, ⟨_, by omega, rfl⟩,
      ⟨_, by omega, rfl⟩, by simp⟩
  · have e6 : n / 16 / 16 / 16 / 16 / 16 < 16 := by omega
    simp only [hexLowerAux, e1, e2, e3, e4, e5, e6, if_false, if_true]
    refine ⟨_, _, _, _, _, [_], rfl, ⟨_, e6, rfl⟩, ⟨_, by omega, rfl⟩, ⟨_, by omega, rfl⟩, ⟨_, by omega, rfl⟩,
      ⟨_, by omega, rfl⟩, ?_⟩
    intro x hx
    simp only [List.mem_cons, List.not_mem_nil, or_false] at hx
    exact ⟨_, by omega, hx⟩

theorem cntFrom_snoc (n : Nat) (l : Str) (z : Char) (hz : z ≠ '\\') : cntFrom n (l ++ [z]) = 0 := by
  rw [cntFrom_append]; simp [cntFrom, hz]

theorem unescape_hex (t : Str) (h : ∀ x ∈ t, IsHex x) : unescape t = .ok t := by
  induction t with
  | nil => simp [unescape]
  | cons x r ih =>
    rw [unescape_plain x r (h x (by simp)).plain.2.1, ih (fun y hy => h y (by simp [hy]))]
    rfl

/-- one entry `k ↦ c` for a character the encoder escapes, with hexadecimal digits `ds`:
    the file is `k=\u<ds>` and the reader sees the one line `k=\u<ds>` -/
theorem roundTrip_escaped (c : Char) (ds i : Str) (z : Char)
    (he : escapeChar c = [c]) (hn : cp1252Encode c = none) (hd : hexLower c.toNat = ds)
    (hds : ∀ x ∈ ds, IsHex x) (hlast : ds = i ++ [z]) :
    roundTrip (oneEntry c) =
      (match unescape ('\\' :: 'u' :: ds) with
       | .error x => .error x
       | .ok v => .ok [(['k'], v)]) := by
  have hz : IsHex z := hds z (by simp [hlast])
  -- the bytes
  have hbytes : writeBytes (oneEntry c) = ('k' :: '=' :: '\\' :: 'u' :: ds ++ ['\n']).map Char.toNat := by
    have hlen : encLen [c] ≤ 256 := by
      have : ds.length ≤ 8 := by
        rw [← hd]; unfold hexLower
        have : ∀ fuel n acc, (hexLowerAux fuel n acc).length ≤ fuel + acc.length := by
          intro fuel
          induction fuel with
          | zero => intro n acc; simp [hexLowerAux]
          | succ f ih =>
            intro n acc
            rw [hexLowerAux]
            split
            · simp; omega
            · have := ih (n / 16) (hexDigitLower (n % 16) :: acc)
              simp at this; omega
        simpa using this 8 c.toNat []
      have hl2 : encLen [c] = ds.length + 2 := by simp [encLen, hn, uEscape, hd]
      omega
    have e1 : escapeText ['k'] = ['k'] := by decide
    have e2 : escapeText [c] = [c] := by simp [escapeText, he]
    simp only [writeBytes, oneEntry, writeAll, writeEntry, encWrite, e1, e2]
    rw [encGo_fits ['k'] 256 0 (by decide)]
    simp only
    rw [encGo_fits ['='] 256 0 (by decide)]
    simp only
    rw [encGo_fits [c] 256 0 (by omega)]
    simp only
    rw [encGo_fits ['\n'] 256 0 (by decide)]
    simp [encIdeal, encIdealChar, hn, uEscape, hd, cp1252Encode_ascii]
  have hascii : ∀ x ∈ 'k' :: '=' :: '\\' :: 'u' :: ds, x.toNat < 0x80 ∧ x ≠ '\r' ∧ x ≠ '\n' := by
    intro x hx
    simp only [List.mem_cons] at hx
    rcases hx with rfl | rfl | rfl | rfl | hx
    · decide
    · decide
    · decide
    · decide
    · have := (hds x hx).plain; exact ⟨this.1, this.2.2.1, this.2.2.2.1⟩
  have hascii' : ∀ x ∈ 'k' :: '=' :: '\\' :: 'u' :: ds ++ ['\n'], x.toNat < 0x80 := by
    intro x hx
    simp only [List.cons_append, List.mem_cons, List.mem_append, List.not_mem_nil, or_false] at hx
    rcases hx with rfl | rfl | rfl | rfl | hx | rfl
    · decide
    · decide
    · decide
    · decide
    · exact (hds x hx).plain.1
    · decide
  have htext : writeProps (oneEntry c) = .ok ('k' :: '=' :: '\\' :: 'u' :: ds) := by
    unfold writeProps
    rw [hbytes, utf8Decode_ascii _ hascii']
    simp only
    have := trim_text ('k' :: '=' :: '\\' :: 'u' :: ds) ('k' :: '=' :: '\\' :: 'u' :: i) ('=' :: '\\' :: 'u' :: ds)
      'k' z rfl (by simp [hlast]) (by decide) hz.plain.2.2.2.2
    rw [show ('k' :: '=' :: '\\' :: 'u' :: ds ++ ['\n']) = ('k' :: '=' :: '\\' :: 'u' :: ds) ++ ['\n'] from rfl, this]
  unfold roundTrip
  rw [htext]
  simp only
  unfold loadProps
  rw [decodeInput_ascii _ (fun x hx => (hascii x hx).1)]
  have hl := natLines_line ('k' :: '=' :: '\\' :: 'u' :: ds) (fun x hx => (hascii x hx).2) [] []
  rw [List.append_nil, List.nil_append] at hl
  rw [hl]
  have hc0 : countEndBs ('k' :: '=' :: '\\' :: 'u' :: ds) % 2 = 0 := by
    rw [countEndBs_eq, hlast,
      show ('k' :: '=' :: '\\' :: 'u' :: (i ++ [z])) = ('k' :: '=' :: '\\' :: 'u' :: i) ++ [z] from rfl,
      cntFrom_snoc _ _ _ hz.plain.2.1]
  have hlog : logicalLines (natLines false ('k' :: '=' :: '\\' :: 'u' :: ds) []) none
      = ['k' :: '=' :: '\\' :: 'u' :: ds] := by
    rw [natLines]
    exact logicalLines_plain _ (by
      intro l hl
      simp only [List.mem_cons, List.not_mem_nil, or_false] at hl
      subst hl
      exact ⟨by simp [isCommentLine, isW], hc0⟩)
  rw [hlog]
  have hparse : parseLine ('k' :: '=' :: '\\' :: 'u' :: ds) = some (.pair ['k'] ('\\' :: 'u' :: ds)) := by
    have hsp : spanKey ('k' :: '=' :: '\\' :: 'u' :: ds) = (['k'], '=' :: '\\' :: 'u' :: ds) := by
      rw [spanKey_plain 'k' _ (by decide) (by decide) (by decide) (by decide)]
      rw [spanKey.eq_def]; simp
    unfold parseLine
    have hk : isW 'k' = false := by decide
    have hq : isW '=' = false := by decide
    have hb : isW '\\' = false := by decide
    simp [hk, hq, hb, hsp]
  rw [readLines, hparse]
  have huk : unescape ['k'] = .ok ['k'] := by decide
  simp only [huk]
  cases unescape ('\\' :: 'u' :: ds) with
  | error x => rfl
  | ok v => simp [readLines]


theorem escapeChar_high (c : Char) (h1 : 0x100 ≤ c.toNat) : escapeChar c = [c] := by
  have hne : ∀ k : Char, k.toNat < 0x100 → c ≠ k := fun k hk e => by subst e; omega
  unfold escapeChar
  rw [if_neg (hne _ (by decide)), if_neg (hne _ (by decide)), if_neg (hne _ (by decide)),
    if_neg (hne _ (by decide)), if_neg (hne _ (by decide)), if_neg (hne _ (by decide)),
    if_neg (hne _ (by decide)), if_neg (hne _ (by decide)), if_neg (hne _ (by decide)),
    if_neg (hne _ (by decide)), if_neg (by omega)]

theorem cp1252Encode_high (c : Char) (h1 : 0x100 ≤ c.toNat) (h2 : cp1252High.contains c.toNat = false) :
    cp1252Encode c = none := by
  unfold cp1252Encode
  simp only
  rw [if_neg (by omega), if_neg (by omega), h2]
  simp

theorem cp1252High_lt : ∀ x ∈ cp1252High, x < 0x10000 := by decide

/-- every character outside the safe class breaks the round trip of the one-entry map `k ↦ c` -/
theorem not_safe_bad (c : Char) (h : safeChar c = false) :
    roundTrip (oneEntry c) ≠ .ok (oneEntry c) := by
  simp only [safeChar, Bool.or_eq_false_iff] at h
  obtain ⟨ha, hb⟩ := h
  simp only [safeAsciiChar, Bool.or_eq_false_iff, Bool.and_eq_false_iff, decide_eq_false_iff_not] at ha
  by_cases hsp : cp1252High.contains c.toNat = true
  · exact badOn_spec _ bad_specials c (by simpa using hsp)
  have hsp' : cp1252High.contains c.toNat = false := by simpa using hsp
  by_cases h1 : c.toNat < 0x20
  · apply badOn_spec _ bad_controls c
    have : c.toNat ≠ 9 ∧ c.toNat ≠ 10 ∧ c.toNat ≠ 12 ∧ c.toNat ≠ 13 := by omega
    simp only [List.mem_cons, List.not_mem_nil, or_false]
    omega
  by_cases h2 : c.toNat < 0x80
  · omega
  by_cases h3 : c.toNat < 0x100
  · apply badOn_spec _ bad_latin1 c
    rw [List.mem_range'_1]; omega
  have h3' : 0x100 ≤ c.toNat := by omega
  have he := escapeChar_high c h3'
  have hn := cp1252Encode_high c h3' hsp'
  by_cases h4 : c.toNat < 0x1000
  · -- three digits: "not enough digits"
    have hd := hexLower_three c.toNat h3' h4
    have := roundTrip_escaped c _ [hexDigitLower (c.toNat / 256), hexDigitLower (c.toNat / 16 % 16)]
      (hexDigitLower (c.toNat % 16)) he hn hd (by
        intro x hx
        simp only [List.mem_cons, List.not_mem_nil, or_false] at hx
        rcases hx with rfl | rfl | rfl
        · exact ⟨_, by omega, rfl⟩
        · exact ⟨_, by omega, rfl⟩
        · exact ⟨_, by omega, rfl⟩) rfl
    rw [this, unescape.eq_def]
    simp
  by_cases h5 : c.toNat < 0x10000
  · -- would be in the safe class
    simp only [safeBmpChar, hsp', Bool.not_false, Bool.and_true, Bool.and_eq_false_iff,
      decide_eq_false_iff_not] at hb
    omega
  · have hv := char_valid_nat c
    obtain ⟨a, b, c2, d, e, t, hd, xa, xb, xc, xd, xe, xt⟩ := hexLower_long c.toNat (by omega) (by omega)
    have hall : ∀ x ∈ a :: b :: c2 :: d :: e :: t, IsHex x := by
      intro x hx
      simp only [List.mem_cons] at hx
      rcases hx with rfl | rfl | rfl | rfl | rfl | hx
      · exact xa
      · exact xb
      · exact xc
      · exact xd
      · exact xe
      · exact xt x hx
    obtain ⟨i, z, hiz⟩ : ∃ i z, a :: b :: c2 :: d :: e :: t = i ++ [z] := by
      rcases List.eq_nil_or_concat (a :: b :: c2 :: d :: e :: t) with h0 | ⟨i, z, h0⟩
      · cases h0
      · exact ⟨i, z, by simpa using h0⟩
    have := roundTrip_escaped c _ i z he hn hd hall hiz
    rw [this, unescape.eq_def]
    simp only [if_true]
    have hrest : unescape (e :: t) = .ok (e :: t) :=
      unescape_hex _ (fun x hx => by
        simp only [List.mem_cons] at hx
        rcases hx with rfl | hx
        · exact xe
        · exact xt x hx)
    rw [hrest]
    cases hp : parseHex4 a b c2 d with
    | none => simp
    | some v =>
      cases hq : charOfU16 v with
      | none => simp [hq]
      | some ch => simp [hq, oneEntry]



/-! ### texts without a backslash: the reader cannot fail -/

def NoBs (l : Str) : Prop := ∀ c ∈ l, c ≠ '\\'

theorem NoBs.tail {c : Char} {l : Str} (h : NoBs (c :: l)) : NoBs l := fun x hx => h x (by simp [hx])

theorem mem_of_mem_dropWhile {p : Char → Bool} {l : Str} {x : Char} (h : x ∈ l.dropWhile p) : x ∈ l := by
  induction l with
  | nil => simp at h
  | cons a r ih =>
    rw [List.dropWhile_cons] at h
    split at h
    · exact List.mem_cons_of_mem _ (ih h)
    · exact h

theorem NoBs.dropWhile {l : Str} (h : NoBs l) (p : Char → Bool) : NoBs (l.dropWhile p) :=
  fun x hx => h x (mem_of_mem_dropWhile hx)

theorem ofNat_ne_bs (b : Nat) (h : b ≠ 92) : Char.ofNat b ≠ '\\' := by
  intro e
  have e2 := congrArg Char.toNat e
  by_cases hv : b.isValidChar
  · have : (Char.ofNat b).toNat = b := by simp [Char.ofNat, hv, Char.ofNatAux, Char.toNat]
    rw [this] at e2
    exact h e2
  · have : Char.ofNat b = '\x00' := by simp [Char.ofNat, hv]; rfl
    rw [this] at e2
    exact absurd e2 (by decide)

theorem cp1252High_ne_bs : ∀ i, i < 32 → cp1252High.getD i 0xFFFD ≠ 92 := by decide

theorem cp1252Decode_ne_bs (b : Nat) (h : b ≠ 92) : cp1252Decode b ≠ '\\' := by
  unfold cp1252Decode
  split
  · exact ofNat_ne_bs b h
  · split
    · exact ofNat_ne_bs _ (cp1252High_ne_bs _ (by omega))
    · exact ofNat_ne_bs b h

theorem utf8EncodeChar_bs (c : Char) (b : Nat) (hb : b ∈ utf8EncodeChar c) (h : b = 92) : c = '\\' := by
  unfold utf8EncodeChar at hb
  simp only at hb
  split at hb
  · simp only [List.mem_cons, List.not_mem_nil, or_false] at hb
    exact (char_eq_iff _ _).2 (by rw [← hb, h]; rfl)
  · split at hb
    · simp only [List.mem_cons, List.not_mem_nil, or_false] at hb; omega
    · split at hb <;> simp only [List.mem_cons, List.not_mem_nil, or_false] at hb <;> omega

theorem decodeInput_noBs (t : Str) (h : NoBs t) : NoBs (decodeInput t) := by
  cases t with
  | nil => intro c hc; simp [decodeInput] at hc
  | cons c r =>
    by_cases hf : c.toNat = 0xFEFF
    · simp only [decodeInput, hf, if_true]
      exact h.tail
    · simp only [decodeInput, hf, if_false]
      intro x hx
      simp only [List.mem_map, utf8Encode, List.mem_flatMap] at hx
      obtain ⟨b, ⟨d, hd, hbd⟩, rfl⟩ := hx
      apply cp1252Decode_ne_bs
      intro hb
      exact h d hd (utf8EncodeChar_bs d b hbd hb)

theorem natLines_noBs (input : Str) (hi : NoBs input) (b : Bool) (acc : Str) (ha : NoBs acc) :
    ∀ l ∈ natLines b acc input, NoBs l := by
  induction input generalizing b acc with
  | nil => intro l hl; simp only [natLines, List.mem_cons, List.not_mem_nil, or_false] at hl; subst hl; exact ha
  | cons c r ih =>
    have hr := hi.tail
    have hnil : NoBs [] := fun x hx => by simp at hx
    intro l hl
    rw [natLines] at hl
    split at hl
    · exact ih hr _ _ ha l hl
    · split at hl
      · simp only [List.mem_cons] at hl
        rcases hl with rfl | hl
        · exact ha
        · exact ih hr _ _ hnil l hl
      · split at hl
        · simp only [List.mem_cons] at hl
          rcases hl with rfl | hl
          · exact ha
          · exact ih hr _ _ hnil l hl
        · refine ih hr _ _ ?_ l hl
          intro x hx
          simp only [List.mem_append, List.mem_cons, List.not_mem_nil, or_false] at hx
          rcases hx with hx | rfl
          · exact ha x hx
          · exact hi x (by simp)

theorem cntFrom_noBs (l : Str) (h : NoBs l) (n : Nat) : cntFrom n l = 0 ∨ (l = [] ∧ cntFrom n l = n) := by
  rcases List.eq_nil_or_concat l with rfl | ⟨i, z, rfl⟩
  · exact Or.inr ⟨rfl, rfl⟩
  · left
    rw [List.concat_eq_append]
    exact cntFrom_snoc n i z (h z (by simp))

theorem logicalLines_noBs (ls : List Str) (h : ∀ l ∈ ls, NoBs l) : logicalLines ls none = ls := by
  induction ls with
  | nil => rfl
  | cons l r ih =>
    have hc : countEndBs l % 2 = 0 := by
      rw [countEndBs_eq]
      rcases cntFrom_noBs l (h l (by simp)) 0 with h0 | ⟨_, h0⟩ <;> rw [h0]
    rw [logicalLines]
    simp only [Option.isNone_none, Bool.true_and]
    rw [ih (fun x hx => h x (by simp [hx]))]
    by_cases hcm : isCommentLine l = true
    · simp [hcm]
    · simp only [hcm, Bool.false_eq_true, if_false]
      rw [if_neg (by omega)]

theorem spanKey_append (l : Str) : (spanKey l).1 ++ (spanKey l).2 = l := by
  have key : ∀ l : Str, ((spanKey l).1 ++ (spanKey l).2 = l) ∧
      ∀ c, (spanKey (c :: l)).1 ++ (spanKey (c :: l)).2 = c :: l := by
    intro l
    induction l with
    | nil =>
      refine ⟨rfl, fun c => ?_⟩
      rw [spanKey.eq_def]
      by_cases hc : c = '\\'
      · simp [hc]
      · by_cases hk : c = ':' ∨ c = '=' ∨ isW c = true
        · simp [hc, hk]
        · simp [hc, hk, spanKey]
    | cons a r ih =>
      refine ⟨ih.2 a, fun c => ?_⟩
      by_cases hc : c = '\\'
      · subst hc; rw [spanKey_pair]; simp [ih.1]
      · rw [spanKey.eq_def]
        by_cases hk : c = ':' ∨ c = '=' ∨ isW c = true
        · simp [hc, hk]
        · simp only [hc, hk, if_false]
          simp [ih.2 a]
  exact (key l).1

theorem unescape_noBs (s : Str) (h : NoBs s) : unescape s = .ok s := by
  induction s with
  | nil => simp [unescape]
  | cons c r ih =>
    rw [unescape_plain c r (h c (by simp)), ih h.tail]; rfl

theorem NoBs.trimEndW {l : Str} (h : NoBs l) : NoBs (trimEndW l) := by
  intro x hx
  simp only [JProps.trimEndW, List.mem_reverse] at hx
  exact h x (by simpa using mem_of_mem_dropWhile hx)

/-- what `parse_line` returns for a line without backslash contains no backslash -/
theorem parseLine_noBs (l : Str) (h : NoBs l) (p : Parsed) (hp : parseLine l = some p) :
    match p with
    | .comment t => NoBs t
    | .pair k v => NoBs k ∧ NoBs v := by
  have hnil : NoBs [] := fun x hx => by simp at hx
  unfold parseLine at hp
  have hd := h.dropWhile isW
  cases hl : l.dropWhile isW with
  | nil => rw [hl] at hp; simp at hp
  | cons c rest =>
    rw [hl] at hd hp
    simp only at hp
    have hsp := spanKey_append (c :: rest)
    have hk : NoBs (spanKey (c :: rest)).1 := fun x hx => hd x (by rw [← hsp]; simp [hx])
    have hr : NoBs (spanKey (c :: rest)).2 := fun x hx => hd x (by rw [← hsp]; simp [hx])
    have hr' := hr.dropWhile isW
    split at hp
    · cases hp
      exact (hd.tail.dropWhile isW).trimEndW
    · split at hp
      · split at hp
        · cases hp
        · cases hp; exact ⟨hk, hnil⟩
      · rename_i heq
        exact absurd rfl (hr '\\' (by rw [heq]; simp))
      · split at hp
        · cases hp; exact ⟨hk, hnil⟩
        · rename_i d r2 heq
          rw [heq] at hr'
          split at hp
          · cases hp; exact ⟨hk, hr'.tail.dropWhile isW⟩
          · cases hp; exact ⟨hk, hr'⟩

theorem readLines_noBs (ls : List Str) (h : ∀ l ∈ ls, NoBs l) : ∃ es, readLines ls = .ok es := by
  induction ls with
  | nil => exact ⟨[], rfl⟩
  | cons l r ih =>
    obtain ⟨es, hes⟩ := ih (fun x hx => h x (by simp [hx]))
    rw [readLines]
    cases hq : parseLine l with
    | none => exact ⟨es, by simpa using hes⟩
    | some p =>
      have hp := parseLine_noBs l (h l (by simp)) p hq
      cases p with
      | comment t =>
        simp only at hp ⊢
        rw [unescape_noBs t hp]
        exact ⟨es, by simpa using hes⟩
      | pair k v =>
        simp only at hp ⊢
        rw [unescape_noBs k hp.1, unescape_noBs v hp.2, hes]
        exact ⟨_, rfl⟩

/-- `map_load_properties` cannot fail on a text without backslash -/
theorem loadProps_noBs (t : Str) (h : NoBs t) : ∃ es, loadProps t = .ok es := by
  unfold loadProps
  have h1 := decodeInput_noBs t h
  have h2 := natLines_noBs _ h1 false [] (fun x hx => by simp at hx)
  rw [logicalLines_noBs _ h2]
  exact readLines_noBs _ h2


end Duck.JProps
