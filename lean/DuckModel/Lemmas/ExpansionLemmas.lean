/-
  Helper lemmas about the expansion model (used by Props/C02.lean).
-/
import DuckModel.Expansion
import DuckModel.Spec.Template
import DuckModel.Lemmas.PvLemmas

namespace Duck
open Duck.Spec

/-! ### the scanner on the parts of a template -/

theorem xStep_plain (vars : Vars) (o : Str) (c : Char) (h1 : c ≠ '$') (h2 : c ≠ '%')
    (h3 : c ≠ '\\') : xStep vars { out := o } c = { out := o ++ [c] } := by
  simp [xStep, h1, h2, h3]

theorem xFold_lit (vars : Vars) (t o : Str) (h : LitOK t) :
    t.foldl (xStep vars) { out := o } = { out := o ++ t } := by
  induction t generalizing o with
  | nil => simp
  | cons c t ih =>
    obtain ⟨h1, h2, h3⟩ := h c (by simp)
    rw [List.foldl_cons, xStep_plain vars o c h1 h2 h3, ih _ (fun x hx => h x (by simp [hx]))]
    simp

theorem shouldBreakKey_false {c : Char} (h2 : c ≠ ' ') (h3 : c ≠ '=') (h4 : c ≠ '\t')
    (h5 : c ≠ '\r') (h6 : c ≠ '\n') : shouldBreakKey c = false := by
  simp [shouldBreakKey, h2, h3, h4, h5, h6]

theorem xFold_key (vars : Vars) (n o k : Str) (s : Bool) (h : KeyOK n) :
    n.foldl (xStep vars) { out := o, foundPrefix := true, key := k, singleType := s } =
      { out := o, foundPrefix := true, key := k ++ n, singleType := s } := by
  induction n generalizing k with
  | nil => simp
  | cons c t ih =>
    obtain ⟨h1, h2, h3, h4, h5, h6⟩ := h c (by simp)
    have hb := shouldBreakKey_false h2 h3 h4 h5 h6
    rw [List.foldl_cons]
    have : xStep vars { out := o, foundPrefix := true, key := k, singleType := s } c =
        { out := o, foundPrefix := true, key := k ++ [c], singleType := s } := by
      simp [xStep, h1, hb]
    rw [this, ih _ (fun x hx => h x (by simp [hx]))]
    simp

theorem xFold_var (vars : Vars) (n o : Str) (h : KeyOK n) :
    ('$' :: '{' :: (n ++ ['}'])).foldl (xStep vars) { out := o } =
      { out := o ++ (vars.get n).getD [] } := by
  rw [List.foldl_cons, List.foldl_cons, List.foldl_append]
  have h1 : xStep vars (xStep vars { out := o } '$') '{' =
      { out := o, foundPrefix := true, key := [], singleType := true } := by
    simp [xStep]
  rw [h1, xFold_key vars n o [] true h]
  simp [xStep]

theorem xFold_spread (vars : Vars) (n : Str) (h : KeyOK n) :
    (renderSpread n).foldl (xStep vars) {} =
      { out := (vars.get n).getD [], singleType := false } := by
  unfold renderSpread
  rw [List.foldl_cons, List.foldl_cons, List.foldl_append]
  have h1 : xStep vars (xStep vars {} '%') '{' =
      { out := [], foundPrefix := true, key := [], singleType := false } := by
    simp [xStep]
  rw [h1, xFold_key vars n [] [] false h]
  simp [xStep]

theorem xFold_escVar (vars : Vars) (n o : Str) (h : LitOK n) :
    ('\\' :: '$' :: '{' :: (n ++ ['}'])).foldl (xStep vars) { out := o } =
      { out := o ++ '$' :: '{' :: (n ++ ['}']) } := by
  rw [List.foldl_cons, List.foldl_cons, List.foldl_cons, List.foldl_append]
  have h1 : xStep vars (xStep vars (xStep vars { out := o } '\\') '$') '{' =
      { out := o ++ ['$', '{'] } := by
    simp [xStep]
  rw [h1, xFold_lit vars n _ h]
  simp [xStep]

theorem xFold_seg (vars : Vars) (s : Seg) (o : Str) (h : s.OK) :
    s.render.foldl (xStep vars) { out := o } = { out := o ++ s.value vars } := by
  cases s with
  | lit t => exact xFold_lit vars t o h
  | var n => exact xFold_var vars n o h
  | escVar n => exact xFold_escVar vars n o h.2

theorem xFold_template (vars : Vars) (t : List Seg) (o : Str) (h : ∀ s ∈ t, s.OK) :
    (renderTemplate t).foldl (xStep vars) { out := o } = { out := o ++ tmplValue vars t } := by
  induction t generalizing o with
  | nil => simp [renderTemplate, tmplValue]
  | cons s t ih =>
    have ih' := ih (o ++ s.value vars) (fun x hx => h x (by simp [hx]))
    simp only [renderTemplate, tmplValue, List.flatMap_cons, List.foldl_append] at ih' ⊢
    rw [xFold_seg vars s o (h s (by simp)), ih']
    simp

theorem xFinish_plain (o : Str) (s : Bool) :
    xFinish { out := o, singleType := s } = (o, s) := by
  simp [xFinish]

theorem expand_template (vars : Vars) (t : List Seg) (h : ∀ s ∈ t, s.OK) :
    expand vars (renderTemplate t) =
      (if tmplValue vars t = [] then Expanded.none else Expanded.single (tmplValue vars t)) := by
  have := xFold_template vars t [] h
  simp only [List.nil_append] at this
  unfold expand
  rw [this, xFinish_plain]
  cases tmplValue vars t <;> simp

theorem expand_spread (vars : Vars) (n : Str) (hn : KeyOK n) :
    expand vars (renderSpread n) =
      (match vars.get n with
       | none => Expanded.multi []
       | some v =>
         if v = [] then Expanded.multi []
         else match reparseArguments v with
           | .ok (some vs) => Expanded.multi vs
           | .ok none => Expanded.multi []
           | .error _ => Expanded.none) := by
  unfold expand
  rw [xFold_spread vars n hn, xFinish_plain]
  cases hv : vars.get n with
  | none => simp
  | some v =>
    cases v with
    | nil => simp
    | cons c t =>
      simp
      cases reparseArguments (c :: t) with
      | error e => rfl
      | ok r => cases r <;> rfl


/-! ### `reparse_arguments` on plain text is word splitting -/

/-- the characters of the word at the start of `l` -/
def takeWord (l : Str) : Str := l.takeWhile (fun c => c != ' ')
/-- what follows the word at the start of `l` (starts with a space or is empty) -/
def dropWord (l : Str) : Str := l.dropWhile (fun c => c != ' ')

theorem takeWord_nil : takeWord [] = [] := rfl
theorem dropWord_nil : dropWord [] = [] := rfl
theorem takeWord_space (t : Str) : takeWord (' ' :: t) = [] := by simp [takeWord]
theorem dropWord_space (t : Str) : dropWord (' ' :: t) = ' ' :: t := by simp [dropWord]
theorem takeWord_cons {c : Char} (t : Str) (h : c ≠ ' ') : takeWord (c :: t) = c :: takeWord t := by
  simp [takeWord, h]
theorem dropWord_cons {c : Char} (t : Str) (h : c ≠ ' ') : dropWord (c :: t) = dropWord t := by
  simp [dropWord, h]

theorem dropWord_length_le (l : Str) : (dropWord l).length ≤ l.length := by
  induction l with
  | nil => simp [dropWord]
  | cons c t ih =>
    by_cases h : c = ' '
    · subst h; simp [dropWord_space]
    · rw [dropWord_cons t h]; simp; omega

theorem plain_tail {c : Char} {t : Str} (h : SpreadPlain (c :: t)) : SpreadPlain t :=
  fun x hx => h x (by simp [hx])

theorem plain_dropWord {l : Str} (h : SpreadPlain l) : SpreadPlain (dropWord l) :=
  fun x hx => h x ((List.dropWhile_sublist _).mem hx)

/-- the loop-then-finish part of `parseNextValue` -/
def pvRun (fl : PVFlags) (st : PVSt) (l : Str) : Except PErr (Str × Option Str) :=
  match pvLoop fl st l with
  | .error e => .error e
  | .ok (st, rest, fe) => pvFinish st rest fe

theorem parseNextValue_eq_pvRun (fl : PVFlags) (l : Str) : parseNextValue fl l = pvRun fl {} l :=
  parseNextValue_eq fl l

/-- inside an unquoted word of plain text -/
theorem pvRun_word (l cur : Str) (h : SpreadPlain l) (hc : cur ≠ []) :
    pvRun (argFlags true) { arg := cur, inArg := true } l =
      .ok (dropWord l, some (cur ++ takeWord l)) := by
  induction l generalizing cur with
  | nil =>
    cases cur with
    | nil => exact absurd rfl hc
    | cons a b => simp [pvRun, pvLoop, pvFinish, takeWord, dropWord]
  | cons c t ih =>
    obtain ⟨hq, hh⟩ := h c (by simp)
    by_cases hs : c = ' '
    · subst hs
      cases cur with
      | nil => exact absurd rfl hc
      | cons a b => simp [pvRun, pvLoop, pvStep, pvFinish, argFlags, takeWord_space, dropWord_space]
    · have hstep : pvLoop (argFlags true) { arg := cur, inArg := true } (c :: t) =
          pvLoop (argFlags true) { arg := cur ++ [c], inArg := true } t := by
        rw [pvLoop]
        by_cases hb : c = '\\'
        · subst hb; simp [pvStep, argFlags]
        · simp [pvStep, argFlags, hb, hs, hh]
      have := ih (cur ++ [c]) (plain_tail h) (by simp)
      unfold pvRun at this ⊢
      rw [hstep, this, takeWord_cons t hs, dropWord_cons t hs]
      simp

/-- `parseNextValue` on plain text: skip spaces, take a word -/
theorem parseNextValue_plain (l : Str) (h : SpreadPlain l) :
    parseNextValue (argFlags true) l =
      (match l.dropWhile (fun c => c == ' ') with
       | [] => .ok ([], none)
       | c :: t => .ok (dropWord t, some (c :: takeWord t))) := by
  rw [parseNextValue_eq_pvRun]
  induction l with
  | nil => simp [pvRun, pvLoop, pvFinish]
  | cons c t ih =>
    obtain ⟨hq, hh⟩ := h c (by simp)
    by_cases hs : c = ' '
    · subst hs
      have : pvRun (argFlags true) {} (' ' :: t) = pvRun (argFlags true) {} t := by
        simp [pvRun, pvLoop, pvStep]
      rw [this, ih (plain_tail h)]
      simp
    · have hstep : pvLoop (argFlags true) {} (c :: t) =
          pvLoop (argFlags true) { arg := [c], inArg := true } t := by
        rw [pvLoop]
        by_cases hb : c = '\\'
        · subst hb; simp [pvStep, argFlags]
        · simp [pvStep, argFlags, hb, hs, hh, hq]
      have := pvRun_word t [c] (plain_tail h) (by simp)
      unfold pvRun at this ⊢
      rw [hstep, this]
      simp [hs]

/-! `Spec.words` in the same shape -/

theorem words_go_word (l cur : Str) (hc : cur ≠ []) :
    words.go l cur = (cur ++ takeWord l) :: words.go (dropWord l) [] := by
  induction l generalizing cur with
  | nil =>
    cases cur with
    | nil => exact absurd rfl hc
    | cons a b => simp [words.go, takeWord, dropWord]
  | cons c t ih =>
    by_cases hs : c = ' '
    · subst hs
      cases cur with
      | nil => exact absurd rfl hc
      | cons a b => simp [words.go, takeWord_space, dropWord_space]
    · rw [words.go, if_neg hs, ih (cur ++ [c]) (by simp), takeWord_cons t hs, dropWord_cons t hs]
      simp

theorem words_go_nil (l : Str) :
    words.go l [] =
      (match l.dropWhile (fun c => c == ' ') with
       | [] => []
       | c :: t => (c :: takeWord t) :: words.go (dropWord t) []) := by
  induction l with
  | nil => simp [words.go]
  | cons c t ih =>
    by_cases hs : c = ' '
    · subst hs
      rw [words.go]
      simp [ih]
    · rw [words.go, if_neg hs, words_go_word t _ (by simp)]
      simp [hs]

theorem dropWhile_space_length_le (l : Str) :
    (l.dropWhile (fun c => c == ' ')).length ≤ l.length :=
  (List.dropWhile_sublist _).length_le

theorem parseArgsLoop_plain (l : Str) (h : SpreadPlain l) :
    parseArgsLoop true l = .ok (words l) := by
  unfold words
  generalize hk : l.length = k
  induction k using Nat.strongRecOn generalizing l with
  | _ k ih =>
    rw [parseArgsLoop, parseNextValue_plain l h, words_go_nil]
    have hlen := dropWhile_space_length_le l
    have hsub : ∀ x ∈ l.dropWhile (fun c => c == ' '), x ∈ l :=
      fun x hx => (List.dropWhile_sublist _).mem hx
    cases hd : l.dropWhile (fun c => c == ' ') with
    | nil => simp
    | cons c t =>
      rw [hd] at hlen hsub
      have hpt : SpreadPlain t := fun x hx => h x (hsub x (by simp [hx]))
      have hl2 : (dropWord t).length < l.length := by
        have := dropWord_length_le t
        simp at hlen
        omega
      have := ih _ (hk ▸ hl2) (dropWord t) (plain_dropWord hpt) rfl
      simp [hl2, this]

theorem reparseArguments_plain (v : Str) (h : SpreadPlain v) :
    reparseArguments v = .ok (if words v = [] then none else some (words v)) := by
  unfold reparseArguments parseArgumentsWith
  rw [parseArgsLoop_plain v h]
  cases words v <;> simp

/-! ### `bind` -/

theorem bind_templates (vars : Vars) (args : List (List Seg)) (h : ∀ t ∈ args, ∀ s ∈ t, s.OK) :
    bind vars (some (args.map renderTemplate)) = args.map (tmplValue vars) := by
  induction args with
  | nil => simp [bind]
  | cons t ts ih =>
    have ih' := ih (fun x hx => h x (by simp [hx]))
    simp only [bind, Option.getD_some, List.map_cons, List.flatMap_cons] at ih' ⊢
    rw [ih', expand_template vars t (h t (by simp))]
    by_cases hv : tmplValue vars t = [] <;> simp [hv]

theorem words_nil : words [] = [] := rfl

theorem bind_spread (vars : Vars) (n : Str) (hn : KeyOK n)
    (h : ∀ v, vars.get n = some v → SpreadPlain v) :
    bind vars (some [renderSpread n]) = words ((vars.get n).getD []) := by
  simp only [bind, Option.getD_some, List.flatMap_cons, List.flatMap_nil, List.append_nil]
  rw [expand_spread vars n hn]
  cases hv : vars.get n with
  | none => simp [words_nil]
  | some v =>
    by_cases he : v = []
    · subst he; simp [words_nil]
    · simp only [if_neg he, Option.getD_some]
      rw [reparseArguments_plain v (h v hv)]
      by_cases hw : words v = [] <;> simp [hw]

/-- values are opaque: the template value under transformed variables -/
theorem tmplValue_map (vars vars' : Vars) (t : List Seg) (f : Str → Str)
    (hv : ∀ n, vars'.get n = (vars.get n).map f) :
    tmplValue vars' t = t.flatMap (fun s =>
      match s with
      | .var n => ((vars.get n).map f).getD []
      | s => s.value vars) := by
  unfold tmplValue
  congr 1
  funext s
  cases s <;> simp [Seg.value, hv]

end Duck
