/-
  Lemmas about the label table of the runner model: `labelTable` maps a label to the last
  line carrying it (used by Props/C03.lean through Lemmas/RunnerLemmas.lean).
-/
import DuckModel.Runner
import DuckModel.Spec.Machine

namespace Duck
open Duck.Spec

/-- computable version of `HasLabel` -/
def labelOf (i : Instruction) : Option Str :=
  match i.ty with
  | .script si => si.label
  | _ => none

theorem hasLabel_iff (i : Instruction) (l : Str) : HasLabel i l ↔ labelOf i = some l := by
  unfold HasLabel labelOf
  constructor
  · rintro ⟨si, h1, h2⟩; simp [h1, h2]
  · intro h
    split at h
    · next si hs => exact ⟨si, hs, h⟩
    · simp at h

theorem labelTable_go_cons (i : Instruction) (rest : List Instruction) (n : Nat)
    (acc : List (Str × Nat)) :
    labelTable.go (i :: rest) n acc =
      labelTable.go rest (n + 1)
        (match labelOf i with
         | some l => (l, n) :: acc.filter (fun p => p.1 ≠ l)
         | none => acc) := by
  obtain ⟨mi, ty⟩ := i
  unfold labelOf
  rw [labelTable.go]
  cases ty with
  | empty => rfl
  | preProcess _ _ => rfl
  | script si =>
    obtain ⟨lab, o, c, a⟩ := si
    cases lab <;> rfl

theorem lookupLabel_cons (k : Str) (v : Nat) (rest : List (Str × Nat)) (l : Str) :
    lookupLabel ((k, v) :: rest) l = if k = l then some v else lookupLabel rest l := by
  rw [lookupLabel]

theorem lookupLabel_filter_ne (acc : List (Str × Nat)) (l l' : Str) (h : l' ≠ l) :
    lookupLabel (acc.filter (fun p => p.1 ≠ l')) l = lookupLabel acc l := by
  induction acc with
  | nil => rfl
  | cons p rest ih =>
    obtain ⟨k, v⟩ := p
    rw [List.filter_cons]
    split
    · rw [lookupLabel_cons, lookupLabel_cons, ih]
    · next hd =>
      have hk : k = l' := by simpa using hd
      subst hk
      rw [ih, lookupLabel_cons, if_neg h]

theorem noLabelLine_nil (l : Str) : NoLabelLine [] l := by
  intro k i h; simp at h

theorem noLabelLine_cons (i : Instruction) (rest : List Instruction) (l : Str) :
    NoLabelLine (i :: rest) l ↔ ¬ HasLabel i l ∧ NoLabelLine rest l := by
  constructor
  · intro h
    exact ⟨h 0 i (by simp), fun k j hj => h (k + 1) j (by simpa using hj)⟩
  · rintro ⟨h0, hr⟩ k j hj
    cases k with
    | zero => simp at hj; subst hj; exact h0
    | succ k => exact hr k j (by simpa using hj)

theorem not_isLabelLine_nil (l : Str) (k : Nat) : ¬ IsLabelLine [] l k := by
  rintro ⟨⟨i, h, _⟩, _⟩; simp at h

theorem isLabelLine_cons (i : Instruction) (rest : List Instruction) (l : Str) (k : Nat) :
    IsLabelLine (i :: rest) l k ↔
      (∃ k', k = k' + 1 ∧ IsLabelLine rest l k') ∨ (k = 0 ∧ HasLabel i l ∧ NoLabelLine rest l) := by
  constructor
  · rintro ⟨⟨j, hj, hl⟩, hlast⟩
    cases k with
    | zero =>
      right
      simp at hj; subst hj
      exact ⟨rfl, hl, fun k' i' hi' => hlast (k' + 1) i' (by omega) (by simpa using hi')⟩
    | succ k =>
      left
      refine ⟨k, rfl, ⟨j, by simpa using hj, hl⟩, fun k' i' hk' hi' => ?_⟩
      exact hlast (k' + 1) i' (by omega) (by simpa using hi')
  · rintro (⟨k', rfl, ⟨j, hj, hl⟩, hlast⟩ | ⟨rfl, hl, hno⟩)
    · refine ⟨⟨j, by simpa using hj, hl⟩, fun k'' i' hk hi' => ?_⟩
      cases k'' with
      | zero => omega
      | succ k'' => exact hlast k'' i' (by omega) (by simpa using hi')
    · refine ⟨⟨i, by simp, hl⟩, fun k'' i' hk hi' => ?_⟩
      cases k'' with
      | zero => omega
      | succ k'' => exact hno k'' i' (by simpa using hi')

theorem lookup_go_some (is : List Instruction) (l : Str) :
    ∀ (n : Nat) (acc : List (Str × Nat)) (k : Nat),
    lookupLabel (labelTable.go is n acc) l = some k ↔
      (∃ j, k = n + j ∧ IsLabelLine is l j) ∨ (NoLabelLine is l ∧ lookupLabel acc l = some k) := by
  induction is with
  | nil =>
    intro n acc k
    simp [labelTable.go, not_isLabelLine_nil, noLabelLine_nil]
  | cons i rest ih =>
    intro n acc k
    rw [labelTable_go_cons, ih, noLabelLine_cons]
    cases hlab : labelOf i with
    | none =>
      have hnl : ¬ HasLabel i l := by rw [hasLabel_iff, hlab]; simp
      constructor
      · rintro (⟨j, rfl, hj⟩ | ⟨hno, hk⟩)
        · exact Or.inl ⟨j + 1, by omega, (isLabelLine_cons ..).2 (Or.inl ⟨j, rfl, hj⟩)⟩
        · exact Or.inr ⟨⟨hnl, hno⟩, hk⟩
      · rintro (⟨j, rfl, hj⟩ | ⟨⟨_, hno⟩, hk⟩)
        · rcases (isLabelLine_cons ..).1 hj with ⟨j', rfl, hj'⟩ | ⟨_, hl, _⟩
          · exact Or.inl ⟨j', by omega, hj'⟩
          · exact absurd hl hnl
        · exact Or.inr ⟨hno, hk⟩
    | some l' =>
      by_cases hll : l' = l
      · subst hll
        have hl : HasLabel i l' := by rw [hasLabel_iff, hlab]
        simp only [lookupLabel_cons, if_true]
        constructor
        · rintro (⟨j, rfl, hj⟩ | ⟨hno, hk⟩)
          · exact Or.inl ⟨j + 1, by omega, (isLabelLine_cons ..).2 (Or.inl ⟨j, rfl, hj⟩)⟩
          · refine Or.inl ⟨0, ?_, (isLabelLine_cons ..).2 (Or.inr ⟨rfl, hl, hno⟩)⟩
            simp at hk; omega
        · rintro (⟨j, rfl, hj⟩ | ⟨⟨hnl, _⟩, _⟩)
          · rcases (isLabelLine_cons ..).1 hj with ⟨j', rfl, hj'⟩ | ⟨rfl, _, hno⟩
            · exact Or.inl ⟨j', by omega, hj'⟩
            · exact Or.inr ⟨hno, by simp⟩
          · exact absurd hl hnl
      · have hnl : ¬ HasLabel i l := by
          rw [hasLabel_iff, hlab]; simpa using hll
        simp only [lookupLabel_cons, if_neg hll, lookupLabel_filter_ne _ _ _ hll]
        constructor
        · rintro (⟨j, rfl, hj⟩ | ⟨hno, hk⟩)
          · exact Or.inl ⟨j + 1, by omega, (isLabelLine_cons ..).2 (Or.inl ⟨j, rfl, hj⟩)⟩
          · exact Or.inr ⟨⟨hnl, hno⟩, hk⟩
        · rintro (⟨j, rfl, hj⟩ | ⟨⟨_, hno⟩, hk⟩)
          · rcases (isLabelLine_cons ..).1 hj with ⟨j', rfl, hj'⟩ | ⟨_, hl, _⟩
            · exact Or.inl ⟨j', by omega, hj'⟩
            · exact absurd hl hnl
          · exact Or.inr ⟨hno, hk⟩

theorem lookup_go_none (is : List Instruction) (l : Str) :
    ∀ (n : Nat) (acc : List (Str × Nat)),
    lookupLabel (labelTable.go is n acc) l = none ↔
      (NoLabelLine is l ∧ lookupLabel acc l = none) := by
  induction is with
  | nil =>
    intro n acc
    simp [labelTable.go, noLabelLine_nil]
  | cons i rest ih =>
    intro n acc
    rw [labelTable_go_cons, ih, noLabelLine_cons, hasLabel_iff]
    cases hlab : labelOf i with
    | none => simp only [reduceCtorEq, not_false_eq_true, true_and]
    | some l' =>
      by_cases hll : l' = l
      · subst hll
        simp [lookupLabel_cons]
      · simp only [lookupLabel_cons, if_neg hll, lookupLabel_filter_ne _ _ _ hll]
        simp [hll]

theorem lookup_labelTable_some (is : List Instruction) (l : Str) (k : Nat) :
    lookupLabel (labelTable is) l = some k ↔ IsLabelLine is l k := by
  unfold labelTable
  rw [lookup_go_some]
  simp [lookupLabel]

theorem lookup_labelTable_none (is : List Instruction) (l : Str) :
    lookupLabel (labelTable is) l = none ↔ NoLabelLine is l := by
  unfold labelTable
  rw [lookup_go_none]
  simp [lookupLabel]

end Duck
