/-
  Models of the Rust `std` text functions the duckscript parser relies on.
  `Char` in Lean = Unicode scalar value = Rust `char`.
  Validated against the real `char::is_whitespace`, `str::trim`, `str::lines`
  per scalar value / per text by the correspondence harness (op `chars`).
  No imports: this file is linked into the `driver` executable.
-/
namespace Duck

/-- `char::is_whitespace` (Unicode White_Space, 25 code points). -/
def isWs (c : Char) : Bool :=
  let n := c.toNat
  (9 ≤ n && n ≤ 13) || n == 0x20 || n == 0x85 || n == 0xA0 || n == 0x1680 ||
  (0x2000 ≤ n && n ≤ 0x200A) || n == 0x2028 || n == 0x2029 || n == 0x202F ||
  n == 0x205F || n == 0x3000

/-- `str::trim_start`. -/
def trimStart (l : List Char) : List Char := l.dropWhile isWs

/-- `str::trim_end`. -/
def trimEnd (l : List Char) : List Char := (l.reverse.dropWhile isWs).reverse

/-- `str::trim`. -/
def trim (l : List Char) : List Char := trimEnd (trimStart l)

/-- strip one trailing `\r` (what `str::lines` does to a line that ended in `\n`). -/
def stripCr (l : List Char) : List Char :=
  match l.reverse with
  | '\r' :: r => r.reverse
  | _ => l

/-- `str::lines` with an accumulator for the current line:
    split after every `\n`; a piece that ended in `\n` loses it and then one `\r`;
    a final piece without `\n` is kept as is; no trailing empty piece. -/
def linesAux : List Char → List Char → List (List Char)
  | acc, [] => if acc.isEmpty then [] else [acc]
  | acc, c :: rest =>
    if c = '\n' then stripCr acc :: linesAux [] rest
    else linesAux (acc ++ [c]) rest

def lines (l : List Char) : List (List Char) := linesAux [] l

/-- ASCII lower-casing (the part of `str::to_lowercase` the model needs). -/
def asciiLowerChar (c : Char) : Char :=
  if 'A'.toNat ≤ c.toNat ∧ c.toNat ≤ 'Z'.toNat then Char.ofNat (c.toNat + 32) else c

def asciiLower (l : List Char) : List Char := l.map asciiLowerChar

end Duck
