/-
  Model of duckscript_cli/src/main.rs (`main`, `run_cli`) and duckscript_cli/src/linter.rs.

  * `dispatch` transcribes `run_cli` branch by branch; the flag literals come from
    `Generated/CliFlags.lean` (re-extracted from main.rs on every check run).
  * The library actions themselves (`runner::run_script`, `run_script_file`, `repl`) are NOT
    modelled here: their result enters as a value of type `Res` (what `run_cli` returns).
  * `exitStatus` is `main`: what is printed on stdout after the action's own output, and the
    process exit status.
  * The linter works on the parser model's instructions.

  Rust `str::to_lowercase() == text` (full Unicode) is modelled by `isLowerText`
  (UnicodeLower.lean): no ASCII capital and no character of the table of code points that
  `char::to_lowercase` changes (a model of the standard library of the installed toolchain,
  compared with it over all code points on every check run).
-/
import DuckModel.Chars
import DuckModel.UnicodeLower
import DuckModel.Types
import DuckModel.Parser
import DuckModel.Generated.CliFlags

namespace Duck.Cli
open Duck Duck.Generated

/-- what `run_cli` decides to do -/
inductive Action
  | repl
  | version
  | help
  | evalText (text : Str)
  | lint (file : Str)
  | runFile (file : Str)
deriving DecidableEq, Repr, Inhabited

/-- `run_cli`'s decision; `args` = `env::args()` (element 0 = the program name).
    * fewer than 2 elements: REPL;
    * `args[1]` a version flag: versions (whatever follows);
    * `args[1]` a help flag: usage (whatever follows);
    * exactly 2 elements: `args[1]` is a script file — also when it is `-e`/`-l`…;
    * 3 or more: eval flag ⇒ `args[2]` is script text; lint flag ⇒ `args[2]` is a file to lint;
      anything else ⇒ `args[1]` is a script file; arguments after these are ignored. -/
def dispatch : List Str → Action
  | [] => .repl
  | [_] => .repl
  | _ :: a1 :: rest =>
    if versionFlags.contains a1 then .version
    else if helpFlags.contains a1 then .help
    else
      match rest with
      | [] => .runFile a1
      | a2 :: _ =>
        if evalFlags.contains a1 then .evalText a2
        else if lintFlags.contains a1 then .lint a2
        else .runFile a1

/-- the value of `run_cli()`: `Ok(())` or `Err(error)` with `error.to_string()` -/
inductive Res
  | ok
  | err (msg : Str)
deriving DecidableEq, Repr, Inhabited

def errorPrefix : Str := "Error: ".toList

/-- `main`: exit status and what it prints to stdout after the action's own output.
    `Err(error) => { println!("Error: {}", error); exit(1) }`, otherwise `main` returns (status 0). -/
def exitStatus : Res → Nat × Str
  | .ok => (0, [])
  | .err msg => (1, errorPrefix ++ msg ++ ['\n'])

/-- the whole tool, given the results of the library actions -/
def runCli (lib : Action → Res) (args : List Str) : Nat × Str := exitStatus (lib (dispatch args))

/-! ### linter.rs -/

/-- `is_lower_case` -/
def isLowerCase : Option Str → Bool
  | some text => isLowerText text
  | none => true

inductive LintMsg
  | label
  | command
  | output
deriving DecidableEq, Repr, Inhabited

def lintMessage : LintMsg → Str
  | .label => "Labels should be all lowercase.".toList
  | .command => "Commands should be all lowercase.".toList
  | .output => "Output variable should be all lowercase.".toList

/-- `lint_instruction`: label first, then command, then output; arguments are not looked at -/
def lintInstruction (s : ScriptInstr) : Except LintMsg Unit :=
  if !isLowerCase s.label then .error .label
  else if !isLowerCase s.command then .error .command
  else if !isLowerCase s.output then .error .output
  else .ok ()

/-- body of the loop of `lint_instructions` for one instruction -/
def lintOne (i : Instruction) : Except LintMsg Unit :=
  match i.ty with
  | .script s => lintInstruction s
  | _ => .ok ()

/-- `lint_instructions`: the first offending instruction ends the loop with
    `ScriptError::Runtime(message, Some(meta_info of that instruction))` -/
def lintInstructions : List Instruction → Except (Meta × LintMsg) Unit
  | [] => .ok ()
  | i :: rest =>
    match lintOne i with
    | .error m => .error (i.mi, m)
    | .ok _ => lintInstructions rest

inductive LintOutcome
  | ok
  | fail (mi : Meta) (msg : LintMsg)
  | parseError (e : ParseFail)
deriving DecidableEq, Repr, Inhabited

/-- `lint_file` after `parser::parse_file(file)` returned `parsed` -/
def lintParsed (parsed : Except ParseFail (List Instruction)) : LintOutcome :=
  match parsed with
  | .error e => .parseError e
  | .ok is =>
    match lintInstructions is with
    | .ok _ => .ok
    | .error (mi, m) => .fail mi m

/-- lines `lint_file` prints itself (before `main` adds the `Error:` line) -/
def lintPrinted (file : Str) (o : LintOutcome) : Str :=
  let parsedLine := "File: ".toList ++ file ++ " parsed correctly.\n".toList
  match o with
  | .parseError _ => []
  | .fail _ _ => parsedLine
  | .ok => parsedLine ++ "No lint errors found in file: ".toList ++ file ++ ['\n']

def natStr (n : Nat) : Str := (toString n).toList

/-- `format_error_message` (types/error.rs): Display of `ScriptError::Runtime(msg, Some(mi))` -/
def displayRuntime (mi : Meta) (msg : Str) : Str :=
  "Source: ".toList ++ mi.source.getD "Unknown".toList ++ " Line: ".toList ++
    (mi.line.map natStr).getD "Unknown".toList ++ " - ".toList ++ msg

/-- `lint_file` on a file system: `parse_file` then the lint -/
def lintFile (fs : Fs) (fuel : Nat) (file : Str) : LintOutcome := lintParsed (parseFileF fs fuel file)

/-- the lint of a text that includes no other file (`parse_text`) -/
def lintText (text : Str) : LintOutcome := lintParsed (parseText text)

/-- the `Res` of a lint, when the Display text of parse errors is given by `showParse`
    (parse-error texts are not part of this property) -/
def lintRes (showParse : ParseFail → Str) : LintOutcome → Res
  | .ok => .ok
  | .fail mi m => .err (displayRuntime mi (lintMessage m))
  | .parseError e => .err (showParse e)

end Duck.Cli
