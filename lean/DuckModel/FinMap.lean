/-
  The ABSTRACT finite map the translated registry methods are written against
  (Generated/RegistryFns.lean, translated by bin/rust2lean.py, fifth executor, from
  `impl Commands` in duckscript/src/types/command.rs).

  `FinMap M V` is the OPERATIONS of a `std::collections::HashMap<String, V>` as the translator
  renders them; `LawfulFinMap M V` is the LAWS the proofs (Props/C15Translated.lean,
  Lemmas/RegistryTranslationLemmas.lean) use about them.  These laws are the trusted reading of
  `HashMap`:

    Rust                         rendered as                         law used
    ---------------------------  ----------------------------------  ---------------------------------
    HashMap::new()               FinMap.empty                        get_empty
    m.get(&k)                    FinMap.get m k                      —
    m.contains_key(&k)           FinMap.contains m k                 (defined: `(get m k).isSome`)
    m.insert(k, v)   (statement) m := FinMap.insert m k v            get_insert
    m.remove(&k)     (statement) m := FinMap.erase m k               get_erase
    m.remove(&k)     (value)     FinMap.get m k, m := FinMap.erase   get_erase
    m.retain(|k, v| p)           m := FinMap.filter (fun k v => p) m get_filter
    m.keys() / `for (k, v) in &m` FinMap.keys m / FinMap.toList m    mem_keys, nodup_keys / toList_eq
                                 (an UNSPECIFIED order)

  Nothing else is assumed: in particular not the order of `keys`, and not that `erase` of an absent
  key gives back the same map (only the same lookups).  The model's association lists
  (`KV` of Registry.lean) are one lawful instance (Lemmas/RegistryTranslationLemmas.lean), so the
  laws are consistent.

  Also here: the early-exit loop `forEach` a `for x in xs { … return … }` is rendered with.
-/
import DuckModel.Types

namespace Duck

/-- the operations of a `HashMap<String, V>` -/
class FinMap (M : Type) (V : outParam Type) where
  empty : M
  get : M → Str → Option V
  insert : M → Str → V → M
  erase : M → Str → M
  /-- `retain`: keep the entries the predicate accepts -/
  filter : (Str → V → Bool) → M → M
  /-- the keys, each once, in an unspecified order -/
  keys : M → List Str

namespace FinMap
variable {M V : Type} [FinMap M V]

/-- `contains_key` -/
def contains (m : M) (k : Str) : Bool := (get m k).isSome

/-- iteration `for (k, v) in &m`: the keys (unspecified order) with their values -/
def toList (m : M) : List (Str × V) :=
  (keys m).filterMap (fun k => (get m k).map (fun v => (k, v)))

end FinMap

/-- the laws of a `HashMap<String, V>` the proofs rely on -/
class LawfulFinMap (M : Type) (V : outParam Type) [FinMap M V] : Prop where
  get_empty : ∀ k : Str, FinMap.get (FinMap.empty : M) k = none
  get_insert : ∀ (m : M) (k : Str) (v : V) (k' : Str),
    FinMap.get (FinMap.insert m k v) k' = if k' = k then some v else FinMap.get m k'
  get_erase : ∀ (m : M) (k k' : Str),
    FinMap.get (FinMap.erase m k) k' = if k' = k then none else FinMap.get m k'
  get_filter : ∀ (p : Str → V → Bool) (m : M) (k : Str),
    FinMap.get (FinMap.filter p m) k = (FinMap.get m k).filter (p k)
  mem_keys : ∀ (m : M) (k : Str), k ∈ FinMap.keys m ↔ (FinMap.get m k).isSome = true
  nodup_keys : ∀ m : M, (FinMap.keys m).Nodup

/-- one round of a loop body that may leave the function: go on with a new state, or return -/
inductive LoopStep (σ ρ : Type) where
  | next (s : σ)
  | ret (r : ρ)

/-- `for x in xs { body }` where the body may `return`: the state after the last element, or the
    returned value of the first round that returns -/
def forEach {α σ ρ : Type} (body : σ → α → LoopStep σ ρ) : List α → σ → LoopStep σ ρ
  | [], s => .next s
  | x :: xs, s =>
    match body s x with
    | .next s' => forEach body xs s'
    | .ret r => .ret r

end Duck
