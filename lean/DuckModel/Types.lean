/-
  Shared types of the model (mirror of duckscript/src/types/*.rs).
  Text is `List Char` everywhere in the parser / expansion / runner model.
-/
namespace Duck

abbrev Str := List Char

structure Meta where
  line : Option Nat := none
  source : Option Str := none
deriving DecidableEq, Repr, Inhabited

structure ScriptInstr where
  label : Option Str := none
  output : Option Str := none
  command : Option Str := none
  args : Option (List Str) := none
deriving DecidableEq, Repr, Inhabited

inductive InstrType
  | empty
  | preProcess (cmd : Option Str) (args : Option (List Str))
  | script (i : ScriptInstr)
deriving DecidableEq, Repr, Inhabited

structure Instruction where
  mi : Meta
  ty : InstrType
deriving DecidableEq, Repr, Inhabited

/-- `ScriptError` kinds raised by parsing (types/error.rs). -/
inductive PErr
  | errorReadingFile (file : Str)
  | preProcessNoCommandFound
  | controlWithoutValidValue
  | invalidControlLocation
  | missingEndQuotes
  | invalidQuotesLocation
  | emptyLabel
  | unknownPreProcessorCommand
deriving DecidableEq, Repr, Inhabited

/-- A parse failure: kind plus the meta info of the offending line. -/
structure ParseFail where
  kind : PErr
  mi : Meta
deriving DecidableEq, Repr, Inhabited

inductive GoToValue
  | label (l : Str)
  | line (n : Nat)
deriving DecidableEq, Repr, Inhabited

inductive CmdResult
  | continue (v : Option Str)
  | goTo (v : Option Str) (g : GoToValue)
  | error (msg : Str)
  | crash (msg : Str)
  | exit (v : Option Str)
deriving DecidableEq, Repr, Inhabited

end Duck
