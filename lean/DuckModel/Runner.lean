/-
  Model of duckscript/src/runner.rs: `create_runtime`, `run_instructions`,
  `run_instruction`, `run_on_error_instruction`, `update_output`.

  The runner is parametric in the command semantics `sem` (what the registered commands do)
  and in a halt oracle (the embedder's flag as seen by the k-th poll).
-/
import DuckModel.Expansion

namespace Duck

/-- semantics of the registered commands: `none` = no command of that name / alias.
    A command sees its bound arguments, the output variable name, the current line, the
    variables and the (command-private) state, and may change variables and state. -/
abbrev CmdSem (σ : Type) :=
  (name : Str) → (args : List Str) → (out : Option Str) → (line : Nat) → Vars → σ →
    Option (CmdResult × Vars × σ)

/-- `create_runtime`: label → index, later duplicates win -/
def labelTable (is : List Instruction) : List (Str × Nat) :=
  go is 0 []
where
  go : List Instruction → Nat → List (Str × Nat) → List (Str × Nat)
    | [], _, acc => acc
    | i :: rest, n, acc =>
      match i.ty with
      | .script si =>
        match si.label with
        | some l => go rest (n + 1) ((l, n) :: acc.filter (fun p => p.1 ≠ l))
        | none => go rest (n + 1) acc
      | _ => go rest (n + 1) acc

def lookupLabel (t : List (Str × Nat)) (l : Str) : Option Nat :=
  match t with
  | [] => none
  | (k, v) :: rest => if k = l then some v else lookupLabel rest l

/-- `run_instruction` -/
def runInstruction {σ : Type} (sem : CmdSem σ) (vars : Vars) (s : σ) (instr : Instruction) (line : Nat) :
    CmdResult × Option Str × Vars × σ :=
  match instr.ty with
  | .empty => (.continue none, none, vars, s)
  | .preProcess _ _ => (.continue none, none, vars, s)
  | .script si =>
    match si.command with
    | none => (.continue none, si.output, vars, s)
    | some c =>
      match sem c (bind vars si.args) si.output line vars s with
      | none => (.crash ("Command: ".toList ++ c ++ " not found.".toList), si.output, vars, s)
      | some (r, vars', s') => (r, si.output, vars', s')

def natToStr (n : Nat) : Str := (toString n).toList

def onErrorName : Str := "on_error".toList

/-- `run_on_error_instruction`: `none` = Ok, `some msg` = Err(msg) -/
def runOnError {σ : Type} (sem : CmdSem σ) (vars : Vars) (s : σ) (error : Str) (mi : Meta) :
    Option Str × Vars × σ :=
  match sem onErrorName [error, natToStr (mi.line.getD 0), mi.source.getD []] none 0 vars s with
  | none => (none, vars, s)
  | some (r, vars', s') =>
    match r with
    | .exit _ => (some "Exiting Script.".toList, vars', s')
    | .crash e => (some e, vars', s')
    | _ => (none, vars', s')

/-- `str::parse::<i32>()`: optional sign, at least one ASCII digit, in range -/
def parseDigits : Str → Option Nat
  | [] => none
  | cs => cs.foldl (fun acc c =>
      match acc with
      | none => none
      | some n => if '0' ≤ c ∧ c ≤ '9' then some (n * 10 + (c.toNat - 48)) else none) (some 0)

def parseI32 (s : Str) : Option Int :=
  match s with
  | '-' :: ds => (parseDigits ds).bind fun n => if n ≤ 2147483648 then some (-(n : Int)) else none
  | '+' :: ds => (parseDigits ds).bind fun n => if n ≤ 2147483647 then some (n : Int) else none
  | ds => (parseDigits ds).bind fun n => if n ≤ 2147483647 then some (n : Int) else none

def intToStr (i : Int) : Str := (toString i).toList

inductive RunEnd
  | exitCalled
  | reachedEnd
  | halted
  | fail (msg : Str) (mi : Meta)
  | outOfFuel
deriving DecidableEq, Repr

structure RunState (σ : Type) where
  line : Nat
  polls : Nat
  vars : Vars
  st : σ

/-- one iteration of the `loop` of `run_instructions`:
    `.inl` = continue with the new state, `.inr` = the run ended -/
def runStep {σ : Type} (sem : CmdSem σ) (is : List Instruction) (labels : List (Str × Nat))
    (halt : Nat → σ → Bool) (rs : RunState σ) : RunState σ ⊕ (RunState σ × RunEnd) :=
  if halt rs.polls rs.st then .inr (rs, .halted)
  else
    match is[rs.line]? with
    | none => .inr ({ rs with polls := rs.polls + 1 }, .reachedEnd)
    | some instr =>
      let mi := instr.mi
      let (result, out, vars, st) := runInstruction sem rs.vars rs.st instr rs.line
      let polls := rs.polls + 1
      match result with
      | .exit v =>
        let vars := Vars.updateOutput vars out v
        let rs' : RunState σ := { line := rs.line, polls := polls, vars := vars, st := st }
        match v.bind parseI32 with
        | some code =>
          if code ≠ 0 then
            .inr (rs', .fail ("Exit with error code: ".toList ++ intToStr code) mi)
          else .inr (rs', .exitCalled)
        | none => .inr (rs', .exitCalled)
      | .error e =>
        let vars := Vars.updateOutput vars out (some "false".toList)
        match runOnError sem vars st e mi with
        | (some msg, vars', st') =>
          .inr ({ line := rs.line, polls := polls, vars := vars', st := st' }, .fail msg mi)
        | (none, vars', st') =>
          .inl { line := rs.line + 1, polls := polls, vars := vars', st := st' }
      | .crash e =>
        .inr ({ line := rs.line, polls := polls, vars := vars, st := st }, .fail e mi)
      | .continue v =>
        .inl { line := rs.line + 1, polls := polls, vars := Vars.updateOutput vars out v, st := st }
      | .goTo v g =>
        let vars := Vars.updateOutput vars out v
        match g with
        | .label l =>
          match lookupLabel labels l with
          | some target => .inl { line := target, polls := polls, vars := vars, st := st }
          | none =>
            .inr ({ line := rs.line, polls := polls, vars := vars, st := st },
                  .fail ("Label: ".toList ++ l ++ " not found.".toList) mi)
        | .line n => .inl { line := n, polls := polls, vars := vars, st := st }

/-- `run_instructions` with fuel (a script may loop forever) -/
def runLoop {σ : Type} (sem : CmdSem σ) (is : List Instruction) (labels : List (Str × Nat))
    (halt : Nat → σ → Bool) : Nat → RunState σ → RunState σ × RunEnd
  | 0, rs => (rs, .outOfFuel)
  | fuel + 1, rs =>
    match runStep sem is labels halt rs with
    | .inl rs' => runLoop sem is labels halt fuel rs'
    | .inr r => r

/-- `run` = `create_runtime` + `run_instructions(start_at = 0)` -/
def run {σ : Type} (sem : CmdSem σ) (halt : Nat → σ → Bool) (fuel : Nat) (is : List Instruction)
    (vars : Vars) (s : σ) : RunState σ × RunEnd :=
  runLoop sem is (labelTable is) halt fuel { line := 0, polls := 0, vars := vars, st := s }

/-- `run_script`: parse then run -/
def runScript {σ : Type} (sem : CmdSem σ) (halt : Nat → σ → Bool) (fuel : Nat) (text : Str)
    (vars : Vars) (s : σ) : Except ParseFail (RunState σ × RunEnd) :=
  match parseText text with
  | .error e => .error e
  | .ok is => .ok (run sem halt fuel is vars s)

end Duck
