/-
  C05 — functions: arguments, return values, early return and scoped isolation.
  Props/C05Core.lean : per-command theorems (call, return, end of function, scoped isolation) for
                       arbitrary states, and the kernel-evaluated refutation of the "fresh call"
                       clause (return from inside a for-in loop).
  Props/C05Sim.lean  : whole-program simulation — the goto-machine run of a program with function
                       definitions equals the tree-walking interpreter (fragment `progOK`).
-/
import DuckModel.Props.C05Core
import DuckModel.Props.C05End
import DuckModel.Props.C05Sim
