/-
  C19 - script-implemented library commands leave no trace in the caller's variables.

  General part: theorems about `aliasRun` (model of `AliasCommand::run`) for an ARBITRARY body.
  Finite part: facts about every entry of the regenerated table `Generated.scripts`
  (one entry per `script.ds` of /repo), proved by evaluation and therefore re-proved whenever a
  `script.ds` or a `create_alias_command(..)` call changes.

  The command's OUTPUT variable is not written by the wrapper: the runner's `update_output`
  (`Vars.updateOutput`, shared runner model) does that with the result `aliasRun` returns.  "The
  caller's variables are unchanged" below therefore means: unchanged by the command itself; the
  runner then sets exactly the output variable.
-/
import DuckModel.Lemmas.AliasCmdLemmas
import DuckModel.Generated.Scripts
import DuckModel.Props.C19Scripts

namespace Duck.Alias
open Duck

variable {σ : Type}

/-! ### hypotheses of the frame theorem -/

/-- the body writes only keys under the prefix `scope ++ "::"`: every other key reads the same
    before and after the body -/
def BodyFrame (scope : Str) (body : Vars → σ → BodyResult × Vars × σ) : Prop :=
  ∀ vars st k, underPrefix scope k = false → Vars.get (body vars st).2.1 k = Vars.get vars k

/-- the caller has no variable under the prefix -/
def CallerClean (scope : Str) (vars : Vars) : Prop :=
  ∀ k, underPrefix scope k = true → Vars.get vars k = none

end Duck.Alias

namespace Duck
open Duck.Alias

variable {σ : Type}

/-! ### the frame -/

/-- If the body writes only under the command's prefix and the caller had nothing under that
    prefix, the caller's variables after the call read exactly as before - on EVERY path: too few
    arguments, body finished (`Continue`), `Error`, `Crash`, `Exit`, `GoTo` label, and also when
    the leak detector fires.  (The conclusion does not depend on how the body ended.) -/
theorem C19_wrapper_frame (H : HandleOps σ) (amount : Nat)
    (body : Vars → σ → BodyResult × Vars × σ) (scope : Str) (args : List Str) (vars : Vars) (st : σ)
    (hbody : BodyFrame scope body) (hcaller : CallerClean scope vars) :
    ∀ k, Vars.get (aliasRun H amount body scope args vars st).2.1 k = Vars.get vars k := by
  intro k
  by_cases h : args.length < amount
  · rw [aliasRun_few H amount body scope args vars st h]
  · rw [aliasRun_run H amount body scope args vars st h]
    simp only [cleanup]
    rw [get_clear]
    cases hk : underPrefix scope k with
    | true => simp [hcaller k hk]
    | false =>
      simp only [Bool.false_eq_true, if_false]
      rw [hbody _ _ k hk, get_publish H scope args vars _ k hk]

/-- The result on every path.  With the frame hypotheses and unique keys the leak counter does
    not fire, and the body's flow result is handed to the caller unchanged (an `Error` stays an
    `Error` - the runner then reports it at the caller's line -, `Crash` stays `Crash`, `Exit`
    stays `Exit`); a `GoTo` label inside the body becomes an `Error`; too few arguments are an
    `Error` before anything is touched. -/
theorem C19_error_path (H : HandleOps σ) (amount : Nat)
    (body : Vars → σ → BodyResult × Vars × σ) (scope : Str) (args : List Str) (vars : Vars) (st : σ)
    (hbody : BodyFrame scope body) (hcaller : CallerClean scope vars) (hnk : NK vars)
    (hbnk : ∀ v s, NK v → NK (body v s).2.1) :
    (aliasRun H amount body scope args vars st).1 =
      if args.length < amount then .error invalidArgsMsg
      else
        match (body (publish H scope args vars (H.setCtx st scope)).2.1
                    (publish H scope args vars (H.setCtx st scope)).2.2).1 with
        | .finished out => .continue out
        | .exit v => .exit v
        | .error m => .error m
        | .crash m => .crash m
        | .gotoLabel _ _ => .error gotoLabelMsg := by
  by_cases h : args.length < amount
  · rw [aliasRun_few H amount body scope args vars st h]; simp [h]
  · have hframe := C19_wrapper_frame H amount body scope args vars st hbody hcaller
    rw [aliasRun_run H amount body scope args vars st h] at hframe ⊢
    simp only [h, if_false]
    have hlen := length_eq_of_get_eq
      (a := (cleanup H scope (H.getCtx st) (publish H scope args vars (H.setCtx st scope)).1
        (body (publish H scope args vars (H.setCtx st scope)).2.1
              (publish H scope args vars (H.setCtx st scope)).2.2).2.1
        (body (publish H scope args vars (H.setCtx st scope)).2.1
              (publish H scope args vars (H.setCtx st scope)).2.2).2.2).1)
      (nk_clear (hbnk _ _ (nk_publish H scope args (H.setCtx st scope) hnk)) scope) hnk hframe
    have hnot : ¬ vars.length < (cleanup H scope (H.getCtx st) (publish H scope args vars (H.setCtx st scope)).1
        (body (publish H scope args vars (H.setCtx st scope)).2.1
              (publish H scope args vars (H.setCtx st scope)).2.2).2.1
        (body (publish H scope args vars (H.setCtx st scope)).2.1
              (publish H scope args vars (H.setCtx st scope)).2.2).2.2).1.length := by omega
    rw [if_neg hnot]
    cases (body (publish H scope args vars (H.setCtx st scope)).2.1
                (publish H scope args vars (H.setCtx st scope)).2.2).1 <;> rfl

/-! ### the temporary argument array -/

/-- Publication allocates exactly one fresh handle (none when there are no arguments); after the
    call the handle table is what the BODY left, minus that handle - on every path, because the
    removal does not look at the body's result.  So the table after the call equals the table
    before plus/minus only what the body itself allocated/released.  The line-context name is
    restored. -/
theorem C19_temp_array_released (H : HandleOps σ) (hl : H.Lawful) (amount : Nat)
    (body : Vars → σ → BodyResult × Vars × σ) (scope : Str) (args : List Str) (vars : Vars) (st : σ)
    (hargs : ¬ args.length < amount) :
    let p := publish H scope args vars (H.setCtx st scope)
    let b := body p.2.1 p.2.2
    let final := (aliasRun H amount body scope args vars st).2.2
    (p.1.isSome = !args.isEmpty) ∧
    (∀ k, H.live p.2.2 k = (H.live st k || p.1 == some k)) ∧
    (∀ h, p.1 = some h → H.live st h = false) ∧
    (∀ k, H.live final k = (H.live b.2.2 k && !(p.1 == some k))) ∧
    (∀ h, p.1 = some h → H.live final h = false) ∧
    H.getCtx final = H.getCtx st := by
  intro p b final
  have hfinal : final = (cleanup H scope (H.getCtx st) p.1 b.2.1 b.2.2).2 := by
    show (aliasRun H amount body scope args vars st).2.2 = _
    rw [aliasRun_run H amount body scope args vars st hargs]
  have hlive : ∀ k, H.live final k = (H.live b.2.2 k && !(p.1 == some k)) := by
    intro k
    rw [hfinal]
    simp only [cleanup]
    rw [hl.live_setCtx]
    cases hp : p.1 with
    | none => simp
    | some h =>
      simp only [hl.live_remove]
      rw [bne_eq_not_some_beq]
  by_cases he : args.isEmpty = true
  · have hp : p = (none, vars, H.setCtx st scope) := by
      show publish H scope args vars (H.setCtx st scope) = _
      simp [publish, he]
    refine ⟨by simp [hp, he], ?_, by simp [hp], hlive, by simp [hp], ?_⟩
    · intro k; simp [hp, hl.live_setCtx]
    · rw [hfinal]; simp [cleanup, hp, hl.ctx_setCtx]
  · have hp : p = (some (H.put (H.setCtx st scope) args).1,
        (publishArgs scope 0 args vars).set (argsKey scope) (H.put (H.setCtx st scope) args).1,
        (H.put (H.setCtx st scope) args).2) := by
      show publish H scope args vars (H.setCtx st scope) = _
      simp [publish, he]
    have hfresh : H.live st (H.put (H.setCtx st scope) args).1 = false := by
      rw [← hl.live_setCtx st scope]; exact hl.fresh_put _ _
    refine ⟨by simp [hp, he], ?_, ?_, hlive, ?_, ?_⟩
    · intro k
      rw [hp]
      simp only [hl.live_put, hl.live_setCtx]
      rw [beq_eq_some_beq]
    · intro h hh
      rw [hp] at hh
      simp only [Option.some.injEq] at hh
      rw [← hh]; exact hfresh
    · intro h hh
      rw [hlive h, hh]; simp
    · rw [hfinal]
      simp only [cleanup, hp, hl.ctx_setCtx]

/-- a body that leaves the handle table as it found it (on this run) ⇒ the whole call does -/
theorem C19_handles_neutral (H : HandleOps σ) (hl : H.Lawful) (amount : Nat)
    (body : Vars → σ → BodyResult × Vars × σ) (scope : Str) (args : List Str) (vars : Vars) (st : σ)
    (hneutral : ∀ k, H.live (body (publish H scope args vars (H.setCtx st scope)).2.1
                                  (publish H scope args vars (H.setCtx st scope)).2.2).2.2 k =
                     H.live (publish H scope args vars (H.setCtx st scope)).2.2 k) :
    ∀ k, H.live (aliasRun H amount body scope args vars st).2.2 k = H.live st k := by
  intro k
  by_cases h : args.length < amount
  · rw [aliasRun_few H amount body scope args vars st h]
  · obtain ⟨_, h2, h3, h4, _, _⟩ := C19_temp_array_released H hl amount body scope args vars st h
    rw [h4 k, hneutral k, h2 k]
    cases hp : (publish H scope args vars (H.setCtx st scope)).1 == some k with
    | false => simp
    | true =>
      have : (publish H scope args vars (H.setCtx st scope)).1 = some k := by simpa using hp
      simp [h3 k this]

/-! ### the run-time leak detector -/

/-- If the body keeps the caller's variables and leaves one extra variable that is NOT under the
    prefix (so `clear` does not remove it), the command answers `Crash`. -/
theorem C19_leak_detected (H : HandleOps σ) (amount : Nat)
    (body : Vars → σ → BodyResult × Vars × σ) (scope : Str) (args : List Str) (vars : Vars) (st : σ)
    (hargs : ¬ args.length < amount) (hnk : NK vars) (hcaller : CallerClean scope vars)
    (hkeep : ∀ k, Vars.get vars k ≠ none →
      Vars.get (body (publish H scope args vars (H.setCtx st scope)).2.1
                     (publish H scope args vars (H.setCtx st scope)).2.2).2.1 k ≠ none)
    (extra : Str) (hx1 : underPrefix scope extra = false) (hx2 : Vars.get vars extra = none)
    (hx3 : Vars.get (body (publish H scope args vars (H.setCtx st scope)).2.1
                          (publish H scope args vars (H.setCtx st scope)).2.2).2.1 extra ≠ none) :
    ∃ msg, (aliasRun H amount body scope args vars st).1 = .crash msg := by
  rw [aliasRun_run H amount body scope args vars st hargs]
  have hlt : vars.length <
      (cleanup H scope (H.getCtx st) (publish H scope args vars (H.setCtx st scope)).1
        (body (publish H scope args vars (H.setCtx st scope)).2.1
              (publish H scope args vars (H.setCtx st scope)).2.2).2.1
        (body (publish H scope args vars (H.setCtx st scope)).2.1
              (publish H scope args vars (H.setCtx st scope)).2.2).2.2).1.length := by
    show vars.length <
      (clear scope (body (publish H scope args vars (H.setCtx st scope)).2.1
                         (publish H scope args vars (H.setCtx st scope)).2.2).2.1).length
    apply length_lt_of_keys hnk extra
    · intro x hx
      have hpx : underPrefix scope x = false := by
        cases hu : underPrefix scope x with
        | false => rfl
        | true => exact absurd (hcaller x hu) hx
      rw [get_clear]; simp only [hpx, Bool.false_eq_true, if_false]; exact hkeep x hx
    · exact hx2
    · rw [get_clear]; simp only [hx1, Bool.false_eq_true, if_false]; exact hx3
  exact ⟨_, by simp only []; rw [if_pos hlt]⟩

/-- What the detector can NOT see - this is why `C19_wrapper_frame` needs the frame hypothesis
    on the body and cannot lean on the detector: "whenever the call changes the value a caller
    variable reads, the command crashes". -/
def C19_DetectorSeesModification : Prop :=
  ∀ (body : Vars → Store → BodyResult × Vars × Store) (scope : Str) (args : List Str) (vars : Vars)
    (st : Store), NK vars → CallerClean scope vars →
    (∃ k, Vars.get (aliasRun storeOps 0 body scope args vars st).2.1 k ≠ Vars.get vars k) →
    ∃ msg, (aliasRun storeOps 0 body scope args vars st).1 = .crash msg

def c19OverwritingBody : Vars → Store → BodyResult × Vars × Store :=
  fun vars st => (.finished none, vars.set "x".toList "changed".toList, st)

/-- refuted: a body that overwrites the caller's `x` keeps the count, and the call "succeeds" -/
example : ¬ C19_DetectorSeesModification := by
  intro h
  have hc := h c19OverwritingBody "scope::t".toList [] [("x".toList, "1".toList)] {}
    (by simp [NK, keys])
    (by intro k hk
        have hne : ¬ ("x".toList = k) := by intro e; rw [← e] at hk; revert hk; decide
        show (if "x".toList = k then some "1".toList else none) = none
        rw [if_neg hne])
    ⟨"x".toList, by decide⟩
  obtain ⟨msg, hm⟩ := hc
  have hr : (aliasRun storeOps 0 c19OverwritingBody "scope::t".toList [] [("x".toList, "1".toList)] {}).1
      = .continue none := by decide
  rw [hr] at hm
  cases hm

/-! ### bodies that are scripts -/

/-- a body that is a parsed script: if all its output variables are under the prefix and every
    command it can call writes only under the prefix, it satisfies the frame hypothesis
    (whatever the fuel and whenever the embedder halts the evaluation) -/
theorem C19_script_body_frame {scope : Str} {sem : CmdSem σ} {is : List Instruction}
    (hsem : SemFrame scope sem) (hout : OutputsUnder scope is) (halt : Nat → Bool) (fuel : Nat) :
    BodyFrame scope (scriptBody sem halt fuel is) := by
  intro vars st k hk
  unfold scriptBody
  cases h : evalInstructions sem halt is fuel 0 0 none vars st with
  | none => rfl
  | some res => exact evalInstructions_frame halt hsem hout fuel 0 0 none vars st res h k hk

/-! ### per-script facts over the regenerated table -/

/-- every `script.ds` parses (so `AliasCommand::new` succeeds and the SDK loads) -/
theorem C19_scripts_parse : ∀ s ∈ Generated.scripts, ∃ is, parseText s.script = .ok is := by
  intro s hs
  have h := scriptOK_of_mem hs
  unfold scriptOK at h
  cases hp : parseText s.script with
  | ok is => exact ⟨is, rfl⟩
  | error e => rw [hp] at h; cases h

/-- every output variable and every `for … in` loop variable written in a script starts with the
    command's own scope prefix `scopeName ++ "::"` - no exception is needed for any script -/
theorem C19_scripts_prefix_discipline :
    ∀ s ∈ Generated.scripts, ∀ is, parseText s.script = .ok is →
      ∀ v ∈ writtenVars is, underPrefix s.scopeName v = true := by
  intro s hs is hp v hv
  have h := scriptOK_of_mem hs
  unfold scriptOK at h
  rw [hp] at h
  simp only [Bool.and_eq_true] at h
  exact List.all_eq_true.mp h.1 v hv

/-- every command word a script uses is a callee without variable effects (the explicit list
    `Alias.noVariableEffect` in Lemmas/AliasCmdLemmas.lean - TRUSTED, exercised by the harness), another script command,
    or the documented exception (`unset` → `set_by_name` on the caller's names) -/
theorem C19_scripts_callees :
    ∀ s ∈ Generated.scripts, ∀ is, parseText s.script = .ok is →
      ∀ c ∈ callees is, c ∈ noVariableEffect ∨ isScriptCommand c = true ∨
        (s.scopeName = "scope::unset".toList ∧ c = "set_by_name".toList) := by
  intro s hs is hp c hc
  have h := scriptOK_of_mem hs
  unfold scriptOK at h
  rw [hp] at h
  simp only [Bool.and_eq_true] at h
  have hc' := List.all_eq_true.mp h.2 c hc
  simp only [calleeOK, documentedEffect, Bool.or_eq_true, Bool.and_eq_true, beq_iff_eq,
    List.contains_iff_mem] at hc'
  rcases hc' with (h1 | h2) | h3
  · exact Or.inl h1
  · exact Or.inr (Or.inl h2)
  · exact Or.inr (Or.inr h3)

/-- the table and the general theorem together: for every script command, if the commands it can
    reach write variables only under its prefix, an invocation from a caller without variables
    under that prefix leaves the caller's variables as they were -/
theorem C19_scripts_frame :
    ∀ s ∈ Generated.scripts, ∀ is, parseText s.script = .ok is →
      ∀ (H : HandleOps σ) (sem : CmdSem σ) (halt : Nat → Bool) (fuel : Nat) (args : List Str)
        (vars : Vars) (st : σ),
        SemFrame s.scopeName sem → CallerClean s.scopeName vars →
        ∀ k, Vars.get (aliasRun H s.argumentsAmount (scriptBody sem halt fuel is) s.scopeName args vars st).2.1 k
              = Vars.get vars k := by
  intro s hs is hp H sem halt fuel args vars st hsem hcaller
  apply C19_wrapper_frame H _ _ _ _ _ _ _ hcaller
  apply C19_script_body_frame hsem _ halt fuel
  intro i hi si hty o ho
  apply C19_scripts_prefix_discipline s hs is hp
  simp only [writtenVars, List.mem_flatMap]
  exact ⟨i, hi, by simp [writtenBy, hty, ho]⟩

/-! ### non-vacuity -/

/-- the table is not empty and contains `unset` with the scope the exception names -/
example : Generated.scripts.length = 21 := by decide
example : ∃ s ∈ Generated.scripts, s.scopeName = "scope::unset".toList ∧ s.argumentsAmount = 0 :=
  ⟨Generated.cmd_var_unset, by simp [Generated.scripts], by decide, rfl⟩

/-- `HandleOps.Lawful` is inhabited -/
example : storeOps.Lawful := storeOps_lawful

/-- a body inside the frame: writes its own working variable, reads an argument -/
def c19OkBody : Vars → Store → BodyResult × Vars × Store :=
  fun vars st => (.error "boom".toList, vars.set "scope::t::tmp".toList "1".toList, st)

example : BodyFrame "scope::t".toList c19OkBody := by
  intro vars st k hk
  have hne : k ≠ "scope::t::tmp".toList := by intro e; rw [e] at hk; revert hk; decide
  show Vars.get (Vars.set vars "scope::t::tmp".toList "1".toList) k = Vars.get vars k
  rw [get_set, if_neg hne]

/-- the error path end to end: arguments published, body fails, everything is cleaned -/
example :
    aliasRun storeOps 1 c19OkBody "scope::t".toList ["a".toList, "b c".toList]
      [("x".toList, "1".toList)] {} =
    (.error "boom".toList, [("x".toList, "1".toList)], {}) := by decide

/-- too few arguments -/
example :
    aliasRun storeOps 3 c19OkBody "scope::t".toList ["a".toList] [("x".toList, "1".toList)] {} =
    (.error invalidArgsMsg, [("x".toList, "1".toList)], {}) := by decide

/-- a leaking body (non-prefix variable `oops`) is turned into a crash -/
def c19LeakyBody : Vars → Store → BodyResult × Vars × Store :=
  fun vars st => (.finished (some "v".toList), vars.set "oops".toList "1".toList, st)

example : ∃ msg, (aliasRun storeOps 0 c19LeakyBody "scope::t".toList [] [("x".toList, "1".toList)] {}).1
    = .crash msg := ⟨_, rfl⟩

end Duck
