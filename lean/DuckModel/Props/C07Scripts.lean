/-
  C07 (no hang) for script-implemented commands run from their regenerated source: the
  instruction loop of `eval_instructions` over the body of the four loop-free collection scripts
  ends within 4 iterations (3 lines + the iteration that sees the end), whatever the arguments,
  variables and state: every fuel ≥ 4 gives the run that fuel 4 gives, and the result is an
  answer of the command (`Continue` / `Error`), never the model's out-of-fuel crash.
  (`ScriptRun.runScriptCmd` uses fuel `scriptFuel` = 100000.)
-/
import DuckModel.Lemmas.ScriptRunLemmas

namespace Duck
open Duck.Alias Duck.Coll Duck.ScriptRun Duck.Spec

theorem C07_script_array_is_empty_terminates (depth fuel : Nat) (hfuel : 4 ≤ fuel)
    (args : List Str) (vars : Vars) (st : ScriptSt) :
    runScriptCmdF depth fuel "array_is_empty".toList args vars st =
      runScriptCmdF depth 4 "array_is_empty".toList args vars st ∧
    IsAnswer (runScriptCmdF depth fuel "array_is_empty".toList args vars st).1 :=
  sizeScript_terminates "array_is_empty".toList "array_length".toList
    Generated.cmd_collections_array_is_empty .arrayLength
    (fun v => match v with | .list l => some l.length | _ => none)
    (by rfl) (parsesTo_eq (by decide +kernel)) rfl (by decide) (by decide)
    (by decide +kernel) (by decide +kernel)
    (by intro s key rest
        simp only [Coll.exec, cmdArrayLength]
        cases hv : tget s.tbl key with
        | none => rfl
        | some v => cases v <;> rfl)
    depth fuel hfuel args vars st

theorem C07_script_map_is_empty_terminates (depth fuel : Nat) (hfuel : 4 ≤ fuel)
    (args : List Str) (vars : Vars) (st : ScriptSt) :
    runScriptCmdF depth fuel "map_is_empty".toList args vars st =
      runScriptCmdF depth 4 "map_is_empty".toList args vars st ∧
    IsAnswer (runScriptCmdF depth fuel "map_is_empty".toList args vars st).1 :=
  sizeScript_terminates "map_is_empty".toList "map_size".toList
    Generated.cmd_collections_map_is_empty .mapSize
    (fun v => match v with | .map m => some m.length | _ => none)
    (by rfl) (parsesTo_eq (by decide +kernel)) rfl (by decide) (by decide)
    (by decide +kernel) (by decide +kernel)
    (by intro s key rest
        simp only [Coll.exec, cmdMapSize]
        cases hv : tget s.tbl key with
        | none => rfl
        | some v => cases v <;> rfl)
    depth fuel hfuel args vars st

theorem C07_script_set_is_empty_terminates (depth fuel : Nat) (hfuel : 4 ≤ fuel)
    (args : List Str) (vars : Vars) (st : ScriptSt) :
    runScriptCmdF depth fuel "set_is_empty".toList args vars st =
      runScriptCmdF depth 4 "set_is_empty".toList args vars st ∧
    IsAnswer (runScriptCmdF depth fuel "set_is_empty".toList args vars st).1 :=
  sizeScript_terminates "set_is_empty".toList "set_size".toList
    Generated.cmd_collections_set_is_empty .setSize
    (fun v => match v with | .set x => some x.length | _ => none)
    (by rfl) (parsesTo_eq (by decide +kernel)) rfl (by decide) (by decide)
    (by decide +kernel) (by decide +kernel)
    (by intro s key rest
        simp only [Coll.exec, cmdSetSize]
        cases hv : tget s.tbl key with
        | none => rfl
        | some v => cases v <;> rfl)
    depth fuel hfuel args vars st

theorem C07_script_map_contains_key_terminates (depth fuel : Nat) (hfuel : 4 ≤ fuel)
    (args : List Str) (vars : Vars) (st : ScriptSt) :
    runScriptCmdF depth fuel "map_contains_key".toList args vars st =
      runScriptCmdF depth 4 "map_contains_key".toList args vars st ∧
    IsAnswer (runScriptCmdF depth fuel "map_contains_key".toList args vars st).1 :=
  mck_terminates "map_contains_key".toList Generated.cmd_collections_map_contains_key
    (by rfl) (parsesTo_eq (by decide +kernel)) rfl (by decide) (by decide) (by decide)
    depth fuel hfuel args vars st

/-- the budget `runScriptCmd` runs with is above the bound -/
example : 4 ≤ scriptFuel := by decide

end Duck
