/-
  C07 (no hang) for script-implemented commands run from their regenerated source: the
  instruction loop of `eval_instructions` over the body of the four loop-free collection scripts
  ends within 4 iterations (3 lines + the iteration that sees the end), whatever the arguments,
  variables and state: every fuel ≥ 4 gives the run that fuel 4 gives, and the result is an
  answer of the command (`Continue` / `Error`), never the model's out-of-fuel crash.
  (`ScriptRun.runScriptCmd` uses fuel `scriptFuel` = 100000.)
-/
import DuckModel.Lemmas.ScriptRunLemmas
import DuckModel.Lemmas.ScriptLoopConcat
import DuckModel.Lemmas.ScriptLoopSetFromArray

namespace Duck
open Duck.Alias Duck.Coll Duck.ScriptRun Duck.Spec

theorem C07_script_array_is_empty_terminates (depth fuel : Nat) (hfuel : 4 ≤ fuel)
    (args : List Str) (vars : Vars) (st : ScriptSt) :
    runScriptCmdF depth fuel "array_is_empty".toList args vars st =
      runScriptCmdF depth 4 "array_is_empty".toList args vars st ∧
    IsAnswer (runScriptCmdF depth fuel "array_is_empty".toList args vars st).1 :=
  sizeScript_terminates "array_is_empty".toList "array_length".toList
    Generated.cmd_collections_array_is_empty .arrayLength
    (fun v => match v with | .list l => some l.length | _ => none)
    (by rfl) (parsesTo_eq (by decide +kernel)) rfl (by decide) (by decide)
    (by decide +kernel) (by decide +kernel)
    (by intro s key rest
        simp only [Coll.exec, cmdArrayLength]
        cases hv : tget s.tbl key with
        | none => rfl
        | some v => cases v <;> rfl)
    depth fuel hfuel args vars st

theorem C07_script_map_is_empty_terminates (depth fuel : Nat) (hfuel : 4 ≤ fuel)
    (args : List Str) (vars : Vars) (st : ScriptSt) :
    runScriptCmdF depth fuel "map_is_empty".toList args vars st =
      runScriptCmdF depth 4 "map_is_empty".toList args vars st ∧
    IsAnswer (runScriptCmdF depth fuel "map_is_empty".toList args vars st).1 :=
  sizeScript_terminates "map_is_empty".toList "map_size".toList
    Generated.cmd_collections_map_is_empty .mapSize
    (fun v => match v with | .map m => some m.length | _ => none)
    (by rfl) (parsesTo_eq (by decide +kernel)) rfl (by decide) (by decide)
    (by decide +kernel) (by decide +kernel)
    (by intro s key rest
        simp only [Coll.exec, cmdMapSize]
        cases hv : tget s.tbl key with
        | none => rfl
        | some v => cases v <;> rfl)
    depth fuel hfuel args vars st

theorem C07_script_set_is_empty_terminates (depth fuel : Nat) (hfuel : 4 ≤ fuel)
    (args : List Str) (vars : Vars) (st : ScriptSt) :
    runScriptCmdF depth fuel "set_is_empty".toList args vars st =
      runScriptCmdF depth 4 "set_is_empty".toList args vars st ∧
    IsAnswer (runScriptCmdF depth fuel "set_is_empty".toList args vars st).1 :=
  sizeScript_terminates "set_is_empty".toList "set_size".toList
    Generated.cmd_collections_set_is_empty .setSize
    (fun v => match v with | .set x => some x.length | _ => none)
    (by rfl) (parsesTo_eq (by decide +kernel)) rfl (by decide) (by decide)
    (by decide +kernel) (by decide +kernel)
    (by intro s key rest
        simp only [Coll.exec, cmdSetSize]
        cases hv : tget s.tbl key with
        | none => rfl
        | some v => cases v <;> rfl)
    depth fuel hfuel args vars st

theorem C07_script_map_contains_key_terminates (depth fuel : Nat) (hfuel : 4 ≤ fuel)
    (args : List Str) (vars : Vars) (st : ScriptSt) :
    runScriptCmdF depth fuel "map_contains_key".toList args vars st =
      runScriptCmdF depth 4 "map_contains_key".toList args vars st ∧
    IsAnswer (runScriptCmdF depth fuel "map_contains_key".toList args vars st).1 :=
  mck_terminates "map_contains_key".toList Generated.cmd_collections_map_contains_key
    (by rfl) (parsesTo_eq (by decide +kernel)) rfl (by decide) (by decide) (by decide)
    depth fuel hfuel args vars st

/-! ### scripts with a `for … in` loop: fuel bound LINEAR in the number of cells

Hypotheses about the flow-control state as in `C12_script_concat_correct` /
`C12_script_set_from_array_correct` (no stale for-in entry of the script on top of the stack,
cached block ends right). -/

/-- `concat`: `3·n + 6` instructions for `n` arguments -/
theorem C07_script_concat_terminates (depth fuel : Nat) (args : List Str) (vars : Vars) (st : ScriptSt)
    (hstale : NoStaleFor "scope::concat".toList st.forStack)
    (hcache : CacheOK st.forMeta "scope::concat::2".toList 4)
    (hempty : args = [] → ∀ l, tget st.coll.tbl ((vars.get "scope::concat::arguments".toList).getD []) ≠ some (.list l))
    (hfuel : 3 * args.length + 6 ≤ fuel) :
    runScriptCmdF (depth + 1) fuel "concat".toList args vars st =
      runScriptCmdF (depth + 1) (3 * args.length + 6) "concat".toList args vars st ∧
    IsAnswer (runScriptCmdF (depth + 1) fuel "concat".toList args vars st).1 := by
  obtain ⟨k, rfl⟩ : ∃ k, fuel = k + 3 * args.length + 6 := ⟨fuel - (3 * args.length + 6), by omega⟩
  have h0 := concat_runF depth 0 args vars st hstale hcache hempty
  rw [show 0 + 3 * args.length + 6 = 3 * args.length + 6 by omega] at h0
  rw [concat_runF depth k args vars st hstale hcache hempty, h0]
  exact ⟨rfl, trivial⟩

/-- `set_from_array`: `3·n + 8` instructions for an array of `n` cells (8 when the argument names
    no array; no instruction at all without an argument) -/
theorem C07_script_set_from_array_terminates (depth fuel : Nat) (args : List Str) (vars : Vars) (st : ScriptSt)
    (hfree : tget st.coll.tbl (Coll.handleName st.coll.next) = none)
    (hfree1 : tget st.coll.tbl (Coll.handleName (st.coll.next + 1)) = none)
    (hne : args.head? ≠ some (Coll.handleName st.coll.next))
    (hok : ∀ a, args.head? = some a → ArgOK a = true)
    (hstale : NoStaleFor "scope::set_from_array".toList st.forStack)
    (hcI : IfCacheOK st.ifMeta "scope::set_from_array::1".toList 3)
    (hcF : CacheOK st.forMeta "scope::set_from_array::6".toList 8)
    (hfuel : 3 * (match args with | a :: _ => arrLen st.coll.tbl a | [] => 0) + 8 ≤ fuel) :
    runScriptCmdF (depth + 2) fuel "set_from_array".toList args vars st =
      runScriptCmdF (depth + 2) (3 * (match args with | a :: _ => arrLen st.coll.tbl a | [] => 0) + 8)
        "set_from_array".toList args vars st ∧
    IsAnswer (runScriptCmdF (depth + 2) fuel "set_from_array".toList args vars st).1 := by
  cases args with
  | nil =>
    rw [runScriptCmdF_entry _ _ _ _ _ sfa_findScript sfa_parses, runScriptCmdF_entry _ _ _ _ _ sfa_findScript sfa_parses,
      aliasRun_few _ _ _ _ _ _ _ (by decide), aliasRun_few _ _ _ _ _ _ _ (by decide)]
    exact ⟨rfl, trivial⟩
  | cons a rest =>
    have hne' : a ≠ Coll.handleName st.coll.next := fun e => hne (by simp [e])
    simp only at hfuel ⊢
    obtain ⟨k, rfl⟩ : ∃ k, fuel = k + 3 * arrLen st.coll.tbl a + 8 :=
      ⟨fuel - (3 * arrLen st.coll.tbl a + 8), by omega⟩
    have h0 := sfa_runF depth 0 a rest vars st hfree hfree1 hne' (hok a rfl) hstale hcI hcF
    rw [show 0 + 3 * arrLen st.coll.tbl a + 8 = 3 * arrLen st.coll.tbl a + 8 by omega] at h0
    rw [sfa_runF depth k a rest vars st hfree hfree1 hne' (hok a rfl) hstale hcI hcF, h0]
    refine ⟨rfl, ?_⟩
    cases tget st.coll.tbl a with
    | none => trivial
    | some v => cases v <;> trivial

/-- the budget `runScriptCmd` runs with covers arrays of up to 33330 cells -/
example : 3 * 33330 + 8 ≤ scriptFuel := by decide

/-- the budget `runScriptCmd` runs with is above the bound -/
example : 4 ≤ scriptFuel := by decide

end Duck
