/-
  C07 (no hang) for script-implemented commands run from their regenerated source: the
  instruction loop of `eval_instructions` over the body of the four loop-free collection scripts
  ends within 4 iterations (3 lines + the iteration that sees the end), whatever the arguments,
  variables and state: every fuel ≥ 4 gives the run that fuel 4 gives, and the result is an
  answer of the command (`Continue` / `Error`), never the model's out-of-fuel crash.
  (`ScriptRun.runScriptCmd` uses fuel `scriptFuel` = 100000.)
-/
import DuckModel.Lemmas.ScriptRunLemmas
import DuckModel.Lemmas.ScriptLoopConcat
import DuckModel.Lemmas.ScriptLoopSetFromArray
import DuckModel.Lemmas.ScriptLoopMapContainsValueFinal
import DuckModel.Lemmas.ScriptLoopArrayConcatFinal
import DuckModel.Lemmas.ScriptLoopArrayContainsCall
import DuckModel.Lemmas.ScriptLoopArrayJoinFinal

namespace Duck
open Duck.Alias Duck.Coll Duck.ScriptRun Duck.Spec

theorem C07_script_array_is_empty_terminates (depth fuel : Nat) (hfuel : 4 ≤ fuel)
    (args : List Str) (vars : Vars) (st : ScriptSt) :
    runScriptCmdF depth fuel "array_is_empty".toList args vars st =
      runScriptCmdF depth 4 "array_is_empty".toList args vars st ∧
    IsAnswer (runScriptCmdF depth fuel "array_is_empty".toList args vars st).1 :=
  sizeScript_terminates "array_is_empty".toList "array_length".toList
    Generated.cmd_collections_array_is_empty .arrayLength
    (fun v => match v with | .list l => some l.length | _ => none)
    (by rfl) (parsesTo_eq (by decide +kernel)) rfl (by decide) (by decide)
    (by decide +kernel) (by decide +kernel)
    (by intro s key rest
        simp only [Coll.exec, cmdArrayLength]
        cases hv : tget s.tbl key with
        | none => rfl
        | some v => cases v <;> rfl)
    depth fuel hfuel args vars st

theorem C07_script_map_is_empty_terminates (depth fuel : Nat) (hfuel : 4 ≤ fuel)
    (args : List Str) (vars : Vars) (st : ScriptSt) :
    runScriptCmdF depth fuel "map_is_empty".toList args vars st =
      runScriptCmdF depth 4 "map_is_empty".toList args vars st ∧
    IsAnswer (runScriptCmdF depth fuel "map_is_empty".toList args vars st).1 :=
  sizeScript_terminates "map_is_empty".toList "map_size".toList
    Generated.cmd_collections_map_is_empty .mapSize
    (fun v => match v with | .map m => some m.length | _ => none)
    (by rfl) (parsesTo_eq (by decide +kernel)) rfl (by decide) (by decide)
    (by decide +kernel) (by decide +kernel)
    (by intro s key rest
        simp only [Coll.exec, cmdMapSize]
        cases hv : tget s.tbl key with
        | none => rfl
        | some v => cases v <;> rfl)
    depth fuel hfuel args vars st

theorem C07_script_set_is_empty_terminates (depth fuel : Nat) (hfuel : 4 ≤ fuel)
    (args : List Str) (vars : Vars) (st : ScriptSt) :
    runScriptCmdF depth fuel "set_is_empty".toList args vars st =
      runScriptCmdF depth 4 "set_is_empty".toList args vars st ∧
    IsAnswer (runScriptCmdF depth fuel "set_is_empty".toList args vars st).1 :=
  sizeScript_terminates "set_is_empty".toList "set_size".toList
    Generated.cmd_collections_set_is_empty .setSize
    (fun v => match v with | .set x => some x.length | _ => none)
    (by rfl) (parsesTo_eq (by decide +kernel)) rfl (by decide) (by decide)
    (by decide +kernel) (by decide +kernel)
    (by intro s key rest
        simp only [Coll.exec, cmdSetSize]
        cases hv : tget s.tbl key with
        | none => rfl
        | some v => cases v <;> rfl)
    depth fuel hfuel args vars st

theorem C07_script_map_contains_key_terminates (depth fuel : Nat) (hfuel : 4 ≤ fuel)
    (args : List Str) (vars : Vars) (st : ScriptSt) :
    runScriptCmdF depth fuel "map_contains_key".toList args vars st =
      runScriptCmdF depth 4 "map_contains_key".toList args vars st ∧
    IsAnswer (runScriptCmdF depth fuel "map_contains_key".toList args vars st).1 :=
  mck_terminates "map_contains_key".toList Generated.cmd_collections_map_contains_key
    (by rfl) (parsesTo_eq (by decide +kernel)) rfl (by decide) (by decide) (by decide)
    depth fuel hfuel args vars st

/-! ### scripts with a `for … in` loop: fuel bound LINEAR in the number of cells

Hypotheses about the flow-control state as in `C12_script_concat_correct` /
`C12_script_set_from_array_correct` (no stale for-in entry of the script on top of the stack,
cached block ends right). -/

/-- `concat`: `3·n + 6` instructions for `n` arguments -/
theorem C07_script_concat_terminates (depth fuel : Nat) (args : List Str) (vars : Vars) (st : ScriptSt)
    (hstale : NoStaleFor "scope::concat".toList st.forStack)
    (hcache : CacheOK st.forMeta "scope::concat::2".toList 4)
    (hempty : args = [] → ∀ l, tget st.coll.tbl ((vars.get "scope::concat::arguments".toList).getD []) ≠ some (.list l))
    (hfuel : 3 * args.length + 6 ≤ fuel) :
    runScriptCmdF (depth + 1) fuel "concat".toList args vars st =
      runScriptCmdF (depth + 1) (3 * args.length + 6) "concat".toList args vars st ∧
    IsAnswer (runScriptCmdF (depth + 1) fuel "concat".toList args vars st).1 := by
  obtain ⟨k, rfl⟩ : ∃ k, fuel = k + 3 * args.length + 6 := ⟨fuel - (3 * args.length + 6), by omega⟩
  have h0 := concat_runF depth 0 args vars st hstale hcache hempty
  rw [show 0 + 3 * args.length + 6 = 3 * args.length + 6 by omega] at h0
  rw [concat_runF depth k args vars st hstale hcache hempty, h0]
  exact ⟨rfl, trivial⟩

/-- `set_from_array`: `3·n + 8` instructions for an array of `n` cells (8 when the argument names
    no array; no instruction at all without an argument) -/
theorem C07_script_set_from_array_terminates (depth fuel : Nat) (args : List Str) (vars : Vars) (st : ScriptSt)
    (hfree : tget st.coll.tbl (Coll.handleName st.coll.next) = none)
    (hfree1 : tget st.coll.tbl (Coll.handleName (st.coll.next + 1)) = none)
    (hne : args.head? ≠ some (Coll.handleName st.coll.next))
    (hok : ∀ a, args.head? = some a → ArgOK a = true)
    (hstale : NoStaleFor "scope::set_from_array".toList st.forStack)
    (hcI : IfCacheOK st.ifMeta "scope::set_from_array::1".toList 3)
    (hcF : CacheOK st.forMeta "scope::set_from_array::6".toList 8)
    (hfuel : 3 * (match args with | a :: _ => arrLen st.coll.tbl a | [] => 0) + 8 ≤ fuel) :
    runScriptCmdF (depth + 2) fuel "set_from_array".toList args vars st =
      runScriptCmdF (depth + 2) (3 * (match args with | a :: _ => arrLen st.coll.tbl a | [] => 0) + 8)
        "set_from_array".toList args vars st ∧
    IsAnswer (runScriptCmdF (depth + 2) fuel "set_from_array".toList args vars st).1 := by
  cases args with
  | nil =>
    rw [runScriptCmdF_entry _ _ _ _ _ sfa_findScript sfa_parses, runScriptCmdF_entry _ _ _ _ _ sfa_findScript sfa_parses,
      aliasRun_few _ _ _ _ _ _ _ (by decide), aliasRun_few _ _ _ _ _ _ _ (by decide)]
    exact ⟨rfl, trivial⟩
  | cons a rest =>
    have hne' : a ≠ Coll.handleName st.coll.next := fun e => hne (by simp [e])
    simp only at hfuel ⊢
    obtain ⟨k, rfl⟩ : ∃ k, fuel = k + 3 * arrLen st.coll.tbl a + 8 :=
      ⟨fuel - (3 * arrLen st.coll.tbl a + 8), by omega⟩
    have h0 := sfa_runF depth 0 a rest vars st hfree hfree1 hne' (hok a rfl) hstale hcI hcF
    rw [show 0 + 3 * arrLen st.coll.tbl a + 8 = 3 * arrLen st.coll.tbl a + 8 by omega] at h0
    rw [sfa_runF depth k a rest vars st hfree hfree1 hne' (hok a rfl) hstale hcI hcF, h0]
    refine ⟨rfl, ?_⟩
    cases tget st.coll.tbl a with
    | none => trivial
    | some v => cases v <;> trivial

/-- `map_contains_value`: `6·n + 16` instructions for a map of `n` entries (a miss costs 6
    instructions per key, a hit ends the loop early through the released key array); the nested
    `map_is_empty` and the condition evaluators run inside single instructions with the same
    budget.  Every budget of at least the bound gives the run the bound gives. -/
theorem C07_script_map_contains_value_terminates (depth fuel : Nat) (a v : Str) (rest : List Str) (vars : Vars) (st : ScriptSt)
    (hfree : tget st.coll.tbl (Coll.handleName st.coll.next) = none)
    (hfree1 : tget st.coll.tbl (Coll.handleName (st.coll.next + 1)) = none)
    (hfree2 : tget st.coll.tbl (Coll.handleName (st.coll.next + 2)) = none)
    (hok : ArgOK a = true)
    (hstale : NoStaleFor "scope::map_contains_value".toList st.forStack)
    (hc4 : IfCacheOK st.ifMeta "scope::map_contains_value::4".toList 16)
    (hc12 : IfCacheOK st.ifMeta "scope::map_contains_value::12".toList 14)
    (hc8 : CacheOK st.forMeta "scope::map_contains_value::8".toList 15)
    (hkh : tget st.coll.tbl ((vars.get "scope::map_contains_value::key_array_handle".toList).getD []) = none)
    (hfuel : 6 * mapLen st.coll.tbl a + 16 ≤ fuel) :
    runScriptCmdF (depth + 2) fuel "map_contains_value".toList (a :: v :: rest) vars st =
      runScriptCmdF (depth + 2) (6 * mapLen st.coll.tbl a + 16) "map_contains_value".toList (a :: v :: rest) vars st ∧
    IsAnswer (runScriptCmdF (depth + 2) fuel "map_contains_value".toList (a :: v :: rest) vars st).1 := by
  have hkeys := mcv_keys
  obtain ⟨k, rfl⟩ : ∃ k, fuel = k + 6 * mapLen st.coll.tbl a + 16 := ⟨fuel - (6 * mapLen st.coll.tbl a + 16), by omega⟩
  obtain ⟨r, hrun, hpost⟩ := mcv_call depth a v rest vars st hfree hfree1 hfree2 hok hstale
    (by rw [hkeys.1]; exact hc4) (by rw [hkeys.2.1]; exact hc12) (by rw [hkeys.2.2]; exact hc8) hkh
  have h0 := hrun 0
  rw [show 0 + 6 * mapLen st.coll.tbl a + 16 = 6 * mapLen st.coll.tbl a + 16 by omega] at h0
  rw [hrun k, h0]
  refine ⟨rfl, ?_⟩
  rw [hpost.res]
  unfold mcvRes
  cases tget st.coll.tbl a with
  | none => trivial
  | some w => cases w <;> trivial

/-- `array_concat` on live arrays: `6·n + 3·c + 9` instructions for `n` arguments with `c` cells
    in total (written `3·n + acCost + 9`, `acCost_eq`: `acCost = 3·c + 3·n`) - LINEAR in the total
    length although the loops are nested -/
theorem C07_script_array_concat_terminates (depth fuel : Nat) (a : Str) (rest : List Str) (vars : Vars) (st : ScriptSt)
    (hfree : tget st.coll.tbl (Coll.handleName st.coll.next) = none)
    (hfree1 : tget st.coll.tbl (Coll.handleName (st.coll.next + 1)) = none)
    (hlive : ∀ x ∈ a :: rest, ∃ l, tget st.coll.tbl x = some (.list l))
    (hok : ∀ x ∈ a :: rest, ArgOK x = true)
    (hstale : NoStaleFor "scope::array_concat".toList st.forStack)
    (hc1 : CacheOK st.forMeta "scope::array_concat::1".toList 5)
    (hc2 : IfCacheOK st.ifMeta "scope::array_concat::2".toList 4)
    (hc9 : CacheOK st.forMeta "scope::array_concat::9".toList 13)
    (hc10 : CacheOK st.forMeta "scope::array_concat::10".toList 12)
    (hfuel : 6 * (a :: rest).length + 3 * (acCells st.coll.tbl (a :: rest)).length + 9 ≤ fuel) :
    runScriptCmdF (depth + 2) fuel "array_concat".toList (a :: rest) vars st =
      runScriptCmdF (depth + 2) (6 * (a :: rest).length + 3 * (acCells st.coll.tbl (a :: rest)).length + 9)
        "array_concat".toList (a :: rest) vars st ∧
    IsAnswer (runScriptCmdF (depth + 2) fuel "array_concat".toList (a :: rest) vars st).1 := by
  have hkeys := ac_keys
  have hcost := acCost_eq st.coll.tbl (a :: rest)
  obtain ⟨k, rfl⟩ : ∃ k, fuel = k + 3 * (a :: rest).length + acCost st.coll.tbl (a :: rest) + 9 :=
    ⟨fuel - (3 * (a :: rest).length + acCost st.coll.tbl (a :: rest) + 9), by omega⟩
  obtain ⟨r, hrun, hpost⟩ := ac_call depth a rest vars st hfree hfree1 (fun x hx => ⟨hok x hx, hlive x hx⟩) hstale
    (by rw [hkeys.1]; exact hc1) (by rw [hkeys.2.1]; exact hc2) (by rw [hkeys.2.2.1]; exact hc9)
    (by rw [hkeys.2.2.2]; exact hc10)
  have h0 := hrun 0
  rw [show 0 + 3 * (a :: rest).length + acCost st.coll.tbl (a :: rest) + 9 =
    6 * (a :: rest).length + 3 * (acCells st.coll.tbl (a :: rest)).length + 9 by omega] at h0
  rw [hrun k, h0]
  refine ⟨rfl, ?_⟩
  rw [hpost.res]; trivial

/-- `array_contains`: `7·n + 12` instructions for an array of `n` cells (a miss costs 7
    instructions per cell; a hit ends the loop early through the unset handle variable) -/
theorem C07_script_array_contains_terminates (depth fuel : Nat) (a v : Str) (rest : List Str) (vars : Vars) (st : ScriptSt)
    (hfree : tget st.coll.tbl (Coll.handleName st.coll.next) = none)
    (hne : a ≠ Coll.handleName st.coll.next)
    (hstale : NoStaleFor "scope::array_contains".toList st.forStack)
    (hc5 : CacheOK st.forMeta "scope::array_contains::5".toList 14)
    (hc8 : IfCacheOK st.ifMeta "scope::array_contains::8".toList 11)
    (hE : ∀ l, tget st.coll.tbl [] ≠ some (.list l))
    (hlen : arrLen st.coll.tbl a < Calc.two53)
    (hfuel : 7 * arrLen st.coll.tbl a + 12 ≤ fuel) :
    runScriptCmdF (depth + 1) fuel "array_contains".toList (a :: v :: rest) vars st =
      runScriptCmdF (depth + 1) (7 * arrLen st.coll.tbl a + 12) "array_contains".toList (a :: v :: rest) vars st ∧
    IsAnswer (runScriptCmdF (depth + 1) fuel "array_contains".toList (a :: v :: rest) vars st).1 := by
  obtain ⟨k, rfl⟩ : ∃ k, fuel = k + 7 * arrLen st.coll.tbl a + 12 := ⟨fuel - (7 * arrLen st.coll.tbl a + 12), by omega⟩
  obtain ⟨r, hrun, hpost⟩ := kc_call depth a v rest vars st hfree hne hstale
    (by rw [kc_keys.1]; exact hc5) (by rw [kc_keys.2]; exact hc8) hE hlen
  have h0 := hrun 0
  rw [show 0 + 7 * arrLen st.coll.tbl a + 12 = 7 * arrLen st.coll.tbl a + 12 by omega] at h0
  rw [hrun k, h0]
  refine ⟨rfl, ?_⟩
  rw [hpost.res]; trivial

/-- `array_join` (handle and separator of the class `ArgOK`): `3·n + 16` instructions for an
    array of `n` cells; the nested `array_is_empty`, the condition evaluators, `strlen`, `calc`,
    `substring` run inside single instructions -/
theorem C07_script_array_join_terminates (depth fuel : Nat) (a sep : Str) (rest : List Str) (vars : Vars) (st : ScriptSt)
    (hfree : tget st.coll.tbl (Coll.handleName st.coll.next) = none)
    (hfree1 : tget st.coll.tbl (Coll.handleName (st.coll.next + 1)) = none)
    (hne : a ≠ Coll.handleName st.coll.next)
    (hok : ArgOK a = true) (hsepOK : ArgOK sep = true)
    (hstale : NoStaleFor "scope::array_join".toList st.forStack)
    (hc1 : IfCacheOK st.ifMeta "scope::array_join::1".toList 3)
    (hc5 : IfCacheOK st.ifMeta "scope::array_join::5".toList 16)
    (hc10 : IfCacheOK st.ifMeta "scope::array_join::10".toList 15)
    (hc6 : CacheOK st.forMeta "scope::array_join::6".toList 8)
    (hstr : vars.get "scope::array_join::string".toList = none)
    (hsize : ∀ l, tget st.coll.tbl a = some (.list l) →
      (utf8Encode (joinStr sep (l.map Item.render))).length + (utf8Encode sep).length < Calc.two53)
    (hfuel : 3 * arrLen st.coll.tbl a + 16 ≤ fuel) :
    runScriptCmdF (depth + 3) fuel "array_join".toList (a :: sep :: rest) vars st =
      runScriptCmdF (depth + 3) (3 * arrLen st.coll.tbl a + 16) "array_join".toList (a :: sep :: rest) vars st ∧
    IsAnswer (runScriptCmdF (depth + 3) fuel "array_join".toList (a :: sep :: rest) vars st).1 := by
  obtain ⟨k, rfl⟩ : ∃ k, fuel = k + 3 * arrLen st.coll.tbl a + 16 := ⟨fuel - (3 * arrLen st.coll.tbl a + 16), by omega⟩
  obtain ⟨r, hrun, hpost⟩ := aj_call depth a sep rest vars st hfree hfree1 hne hok hsepOK hstale
    (by rw [aj_keys.1]; exact hc1) (by rw [aj_keys.2.1]; exact hc5) (by rw [aj_keys.2.2.1]; exact hc10)
    (by rw [aj_keys.2.2.2]; exact hc6) hstr (fun l hl => aj_size sep _ (hsize l hl))
  have h0 := hrun 0
  rw [show 0 + 3 * arrLen st.coll.tbl a + 16 = 3 * arrLen st.coll.tbl a + 16 by omega] at h0
  rw [hrun k, h0]
  refine ⟨rfl, ?_⟩
  rw [hpost.res]
  unfold ajRes
  cases tget st.coll.tbl a with
  | none => trivial
  | some w => cases w <;> trivial

/-- the budget `runScriptCmd` runs with covers arrays of up to 33330 cells -/
example : 3 * 33330 + 8 ≤ scriptFuel := by decide
/-- … and maps of up to 16664 entries -/
example : 6 * 16664 + 16 ≤ scriptFuel := by decide

/-- the budget `runScriptCmd` runs with is above the bound -/
example : 4 ≤ scriptFuel := by decide

end Duck
