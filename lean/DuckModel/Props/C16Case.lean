/-
  C16 — `uppercase` / `lowercase` return what `str::to_uppercase` / `str::to_lowercase` return,
  over ALL of Unicode.

  The model (Sdk/CaseMap.lean) is the algorithm of the Rust standard library over the tables of
  the installed toolchain (UnicodeCase.lean: generated, compared with the toolchain over all code
  points on every check run).  Proved here, from the tables (kernel evaluation) and the loop:
  the ASCII maps are instances; both functions are idempotent (no produced character is mapped
  again, and no `Σ` is ever produced); a text is a fixed point of `lowercase` exactly when the
  INDEPENDENTLY generated table of UnicodeLower.lean (linter model, C20) says so; character
  counts; the final-sigma rule at an arbitrary position.
-/
import DuckModel.Sdk.Strings
import DuckModel.Lemmas.CaseLemmas

namespace Duck
open Duck.Strings Duck.UCase

/-- the commands are the whole-text functions; no argument is the error result -/
theorem C16_case_cmd (s : Str) (rest : List Str) :
    run "lowercase" (s :: rest) = some (.str (enc (toLowercase s))) ∧
    run "uppercase" (s :: rest) = some (.str (enc (toUppercase s))) ∧
    run "lowercase" [] = some .err ∧ run "uppercase" [] = some .err := ⟨rfl, rfl, rfl, rfl⟩

/-- on ASCII text `lowercase` is the ASCII map (the former model of the command) -/
theorem C16_case_lower_ascii (s : Str) (h : isAscii s = true) :
    toLowercase s = s.map asciiLowerChar := by
  have key : ∀ c : Char, c.toNat < 128 → lowerChar c = [asciiLowerChar c] := by
    intro c hc
    have hl := lower_lookup_ascii c.toNat hc
    have hA : 'A'.toNat = 65 := by decide
    have hZ : 'Z'.toNat = 90 := by decide
    unfold asciiLowerChar
    rw [hA, hZ]
    by_cases hr : 65 ≤ c.toNat ∧ c.toNat ≤ 90
    · rw [if_pos hr] at hl
      rw [if_pos hr, lowerChar, mapChar_some hl]
      rfl
    · rw [if_neg hr] at hl
      rw [if_neg hr, lowerChar, mapChar_none hl]
  have hall : ∀ c ∈ s, c.toNat < 128 := by
    simpa [isAscii, List.all_eq_true] using h
  rw [toLowercase, lowerGo_no_sigma [] s (fun c hc e => by have := hall c hc; omega)]
  clear h
  induction s with
  | nil => rfl
  | cons c r ih =>
    rw [List.flatMap_cons, key c (hall c (by simp)), ih (fun d hd => hall d (by simp [hd]))]
    rfl

/-- on ASCII text `uppercase` is the ASCII map -/
theorem C16_case_upper_ascii (s : Str) (h : isAscii s = true) :
    toUppercase s = s.map asciiUpperChar := by
  have key : ∀ c : Char, c.toNat < 128 → upperChar c = [asciiUpperChar c] := by
    intro c hc
    have hl := upper_lookup_ascii c.toNat hc
    have hA : 'a'.toNat = 97 := by decide
    have hZ : 'z'.toNat = 122 := by decide
    unfold asciiUpperChar
    rw [hA, hZ]
    by_cases hr : 97 ≤ c.toNat ∧ c.toNat ≤ 122
    · rw [if_pos hr] at hl
      rw [if_pos hr, upperChar, mapChar_some hl]
      rfl
    · rw [if_neg hr] at hl
      rw [if_neg hr, upperChar, mapChar_none hl]
  have hall : ∀ c ∈ s, c.toNat < 128 := by
    simpa [isAscii, List.all_eq_true] using h
  unfold toUppercase
  clear h
  induction s with
  | nil => rfl
  | cons c r ih =>
    rw [List.flatMap_cons, key c (hall c (by simp)), ih (fun d hd => hall d (by simp [hd]))]
    rfl

/-- `lowercase` is idempotent on EVERY text: no character it produces is mapped again (in
    particular it never produces a `Σ`, so the context rule cannot fire the second time) -/
theorem C16_case_lower_idempotent (s : Str) : toLowercase (toLowercase s) = toLowercase s := by
  unfold toLowercase
  exact lowerGo_fixed [] _ (fun d hd => lowerGo_out_fixed [] s d hd)

/-- `uppercase` is idempotent on every text -/
theorem C16_case_upper_idempotent (s : Str) : toUppercase (toUppercase s) = toUppercase s := by
  unfold toUppercase
  apply flatMap_mapChar_fixed
  intro d hd
  rw [List.mem_flatMap] at hd
  obtain ⟨c, _, hc⟩ := hd
  exact upperGood.out_fixed c d hc

/-- a text is unchanged by `lowercase` exactly when `isLowerText` (UnicodeLower.lean, the test
    the linter model of C20 uses, a table generated independently) says it is lower case -/
theorem C16_case_lower_fixed_iff (t : Str) : isLowerText t = true ↔ toLowercase t = t := by
  unfold toLowercase isLowerText
  rw [lowerGo_eq_self_iff, List.all_eq_true]
  constructor
  · intro h c hc
    exact (lowerFixedChar_iff c).mp (h c hc)
  · intro h c hc
    exact (lowerFixedChar_iff c).mpr (h c hc)

/-- the two generated tables agree: `char::to_lowercase` changes a code point exactly when it is
    an ASCII capital or listed in `notLowerRanges` -/
theorem C16_case_tables_agree (n : Nat) :
    (lowerMap.lookup n).isSome = true ↔
      (65 ≤ n ∧ n ≤ 90) ∨ ∃ r ∈ notLowerRanges, r.1 ≤ n ∧ n ≤ r.2 := by
  rw [lookup_isSome_iff_key, lower_key_iff]
  simp [inRanges]

/-- every character becomes one to three characters -/
theorem C16_case_length (s : Str) :
    s.length ≤ (toLowercase s).length ∧ (toLowercase s).length ≤ 3 * s.length ∧
    s.length ≤ (toUppercase s).length ∧ (toUppercase s).length ≤ 3 * s.length := by
  refine ⟨(lowerGo_length [] s).1, (lowerGo_length [] s).2, ?_⟩
  unfold toUppercase
  induction s with
  | nil => simp
  | cons c r ih =>
    have : 1 ≤ (upperChar c).length ∧ (upperChar c).length ≤ 3 := upperGood.length_bounds c
    simp only [List.flatMap_cons, List.length_append, List.length_cons]
    omega

/-- without a capital sigma `lowercase` maps character by character -/
theorem C16_case_lower_pointwise (s : Str) (h : ∀ c ∈ s, c.toNat ≠ 0x3A3) :
    toLowercase s = s.flatMap lowerChar := lowerGo_no_sigma [] s h

/-- texts all of whose characters have one-character mappings keep their character count -/
theorem C16_case_count_preserved (s : Str) :
    ((∀ c ∈ s, c.toNat ≠ 0x3A3 → (lowerChar c).length = 1) → (toLowercase s).length = s.length) ∧
    ((∀ c ∈ s, (upperChar c).length = 1) → (toUppercase s).length = s.length) := by
  constructor
  · intro h
    unfold toLowercase
    generalize ([] : List Char) = rb
    induction s generalizing rb with
    | nil => rfl
    | cons c r ih =>
      have hlen : (lowerAt rb r c).length = 1 := by
        by_cases hs : c.toNat = 0x3A3
        · rw [lowerAt_sigma _ _ _ hs]; rfl
        · rw [lowerAt_not_sigma _ _ _ hs]; exact h c (by simp) hs
      simp only [lowerGo, List.length_append, List.length_cons, hlen,
        ih (fun d hd => h d (by simp [hd])) (c :: rb)]
      omega
  · intro h
    unfold toUppercase
    induction s with
    | nil => rfl
    | cons c r ih =>
      simp only [List.flatMap_cons, List.length_append, List.length_cons, h c (by simp),
        ih (fun d hd => h d (by simp [hd]))]
      omega

/-- `uppercase` has no context rule: it distributes over concatenation -/
theorem C16_case_upper_append (a b : Str) :
    toUppercase (a ++ b) = toUppercase a ++ toUppercase b := by
  simp [toUppercase]

/-- the final-sigma rule at an arbitrary position: in `p ++ Σ :: q` the sigma becomes `ς` exactly
    when, skipping case-ignorable characters, a cased character stands before it and no cased
    character stands after it (both read off the ORIGINAL text); `p` is lower-cased knowing that
    `Σ :: q` follows, `q` knowing that `p`, `Σ` precede -/
theorem C16_case_final_sigma (p q : Str) (c : Char) (hc : c.toNat = 0x3A3) :
    toLowercase (p ++ c :: q) =
      lowerCtx [] p (c :: q) ++
        (if caseIgnorableThenCased p.reverse && !caseIgnorableThenCased q then Char.ofNat 0x3C2
         else Char.ofNat 0x3C3) :: lowerGo (c :: p.reverse) q := by
  unfold toLowercase
  rw [lowerGo_append, lowerGo, lowerAt_sigma _ _ _ hc]
  simp

/-! ### non-vacuity: final sigma in context, multi-character mappings, fixed points -/

example : toLowercase "ΟΔΟΣ".toList = "οδος".toList := by decide +kernel
example : toLowercase "aΣ a.Σ ΑΣΑ Σ".toList = "aς a.ς ασα σ".toList := by decide +kernel
example : toLowercase "İ".toList = "i̇".toList := by decide +kernel
example : toUppercase "straße ŉ ﬁ ǅ".toList = "STRASSE ʼN FI Ǆ".toList := by decide +kernel
example : isLowerText "σς".toList = true ∧ toLowercase "σς".toList = "σς".toList := by decide +kernel
example : (toUppercase "ΐ".toList).length = 3 := by decide +kernel

end Duck
